(** * Lex/Lexer.v — executable model of the SQL lexer
    (crates/vibesql-parser/src/lexer/{mod,strings,numbers,identifiers,operators,keywords}.rs).

    The Rust lexer is [struct Lexer { input: Vec<char>, position: usize }].  The model keeps exactly
    that shape: the input is a [list Z] of code points, the cursor is a [nat] index into it, and every
    primitive ([is_eof], [current_char], [peek], [advance]) is the literal transcription of the Rust
    method.  Every [while]/[loop] of the Rust code is a [Fixpoint] on explicit fuel; running out of
    fuel is the explicit error [EOutOfFuel] (the laws prove that fuel [length input + 1] is never
    exhausted).  The two operations that can panic in Rust -- slicing [input[start..position]] and
    the subtraction [position - 1] -- return [Panic] when their precondition fails (the laws prove
    this never happens).  A cost counter [ticks] (not present in Rust) is incremented once per loop
    iteration and per [next_token] call; it is what [lex_linear] bounds.

    What is a parameter (Section variables, standing for the Unicode tables of Rust's [core]):
    [uni_alnum c] = [char::is_alphanumeric] and [uni_upper c] = the chars yielded by
    [char::to_uppercase], both only consulted for code points >= 128 (the ASCII behaviour is spelled
    out).  [char::is_whitespace] is the fixed White_Space set and is spelled out completely.
    No proofs in this file. *)
From Coq Require Import List ZArith Bool.
From VibeSQL Require Import Generated.Consts.
Import ListNotations.
Open Scope Z_scope.

(** ** Tokens (token.rs: [enum Token]).  Strings are code point lists; a keyword carries the Debug
    name of its [Keyword] variant as listed in the generated table [lex_keyword_table]. *)
Inductive token : Type :=
| TKeyword (name : list Z)
| TIdent (s : list Z)
| TDelim (s : list Z)
| TNumber (s : list Z)
| TString (s : list Z)
| TSymbol (c : Z)
| TOperator (s : list Z)
| TSessionVar (s : list Z)
| TUserVar (s : list Z)
| TSemicolon | TComma | TLParen | TRParen | TEof.

(** [LexerError] carries a message and a position; only the kind is modelled (messages and positions
    are not part of the property). *)
Inductive lex_error : Type :=
| EUnexpectedChar        (* mod.rs next_token, default arm *)
| EUnterminatedString    (* strings.rs *)
| EUnterminatedDelimited (* identifiers.rs, both quote styles *)
| EEmptyDelimited        (* identifiers.rs: "" or `` *)
| EBadExponent           (* numbers.rs: no digit after E / E+ / E- *)
| ELonePipe              (* operators.rs: '|' not followed by '|' *)
| EEmptyVarName          (* mod.rs: '@' / '@@' without a name *)
| EOutOfFuel.            (* model only *)

(** The lexer state: [position] is [Lexer.position]; [ticks] is the model's cost counter. *)
Record lexer : Type := mkL { position : nat; ticks : nat }.

(** An error carries the lexer state at the moment it was raised (so that the cost of failing runs
    is observable); its [position] is not claimed to equal [LexerError.position]. *)
Inductive outcome (A : Type) : Type :=
| Ok (a : A)
| Err (e : lex_error) (at_ : lexer)
| Panic.
Arguments Ok {A} a.
Arguments Err {A} e at_.
Arguments Panic {A}.

Definition bind {A B} (x : outcome A) (f : A -> outcome B) : outcome B :=
  match x with Ok a => f a | Err e L => Err e L | Panic => Panic end.

(** ** Character classes *)
Definition in_range (lo hi c : Z) : bool := (lo <=? c) && (c <=? hi).

Definition is_ascii_digit (c : Z) : bool := in_range 48 57 c.
Definition is_ascii_alpha (c : Z) : bool := in_range 65 90 c || in_range 97 122 c.
Definition is_ascii_alnum (c : Z) : bool := is_ascii_digit c || is_ascii_alpha c.

(** [char::is_whitespace] = Unicode White_Space. *)
Definition ws_ranges : list (Z * Z) :=
  [(9, 13); (32, 32); (133, 133); (160, 160); (5760, 5760); (8192, 8202); (8232, 8233);
   (8239, 8239); (8287, 8287); (12288, 12288)].
Definition in_ranges (rs : list (Z * Z)) (c : Z) : bool :=
  existsb (fun r => in_range (fst r) (snd r) c) rs.
Definition is_ws (c : Z) : bool := in_ranges ws_ranges c.

Definition ascii_upper (c : Z) : Z := if in_range 97 122 c then c - 32 else c.

(** ** keywords.rs: [map_keyword] over the generated literal table *)
Fixpoint codes_eqb (a b : list Z) : bool :=
  match a, b with
  | [], [] => true
  | x :: a', y :: b' => (x =? y) && codes_eqb a' b'
  | _, _ => false
  end.

Fixpoint lookup_keyword (tbl : list (list Z * list Z)) (s : list Z) : option (list Z) :=
  match tbl with
  | [] => None
  | (k, v) :: r => if codes_eqb k s then Some v else lookup_keyword r s
  end.

Definition map_keyword (upper_text : list Z) : token :=
  match lookup_keyword lex_keyword_table upper_text with
  | Some name => TKeyword name
  | None => TIdent upper_text
  end.

Section Lexer.
  Variable uni_alnum : Z -> bool.    (* char::is_alphanumeric, consulted for c >= 128 *)
  Variable uni_upper : Z -> list Z.  (* char::to_uppercase,    consulted for c >= 128 *)
  Variable input : list Z.           (* Lexer.input *)
  Variable len : nat.                (* input.len(); always instantiated with [length input] *)

  Definition char_is_alphanumeric (c : Z) : bool :=
    if c <? 128 then is_ascii_alnum c else uni_alnum c.
  Definition char_to_uppercase (c : Z) : list Z :=
    if c <? 128 then [ascii_upper c] else uni_upper c.
  (** [str::to_uppercase] maps char by char (no context-sensitive rule, unlike to_lowercase). *)
  Definition str_to_uppercase (s : list Z) : list Z := flat_map char_to_uppercase s.

  Definition fuel0 : nat := S len.

  (** mod.rs: is_eof / current_char / peek / advance *)
  Definition is_eof (L : lexer) : bool := Nat.leb len (position L).
  Definition current_char (L : lexer) : Z :=
    if is_eof L then 0 else nth (position L) input 0.
  Definition peek (L : lexer) (n : nat) : option Z :=
    let p := (position L + n)%nat in
    if Nat.ltb p len then Some (nth p input 0) else None.
  Definition advance (L : lexer) : lexer :=
    if is_eof L then L else mkL (S (position L)) (ticks L).
  Definition tick (L : lexer) : lexer := mkL (position L) (S (ticks L)).

  (** [self.input[a..b].iter().collect()]: panics unless a <= b <= input.len() *)
  Definition slice (a b : nat) : outcome (list Z) :=
    if Nat.leb a b && Nat.leb b (length input) then Ok (firstn (b - a) (skipn a input)) else Panic.

  Definition opt_is (o : option Z) (c : Z) : bool :=
    match o with Some x => x =? c | None => false end.

  (** *** mod.rs: skip_whitespace *)
  Fixpoint skip_whitespace (fuel : nat) (L : lexer) : outcome lexer :=
    match fuel with
    | O => Err EOutOfFuel L
    | S f =>
        if is_eof L then Ok L
        else if is_ws (current_char L) then skip_whitespace f (advance (tick L))
        else Ok L
    end.

  (** [while !self.is_eof() && self.current_char() != '\n' { self.advance(); }] *)
  Fixpoint skip_to_eol (fuel : nat) (L : lexer) : outcome lexer :=
    match fuel with
    | O => Err EOutOfFuel L
    | S f =>
        if negb (is_eof L) && negb (current_char L =? 10) then skip_to_eol f (advance (tick L))
        else Ok L
    end.

  (** mod.rs: skip_whitespace_and_comments *)
  Fixpoint skip_ws_and_comments (fuel : nat) (L : lexer) : outcome lexer :=
    match fuel with
    | O => Err EOutOfFuel L
    | S f =>
        bind (skip_whitespace fuel0 (tick L)) (fun L1 =>
        if is_eof L1 then Ok L1
        else if (current_char L1 =? 45) && opt_is (peek L1 1) 45 then
          bind (skip_to_eol fuel0 L1) (fun L2 => skip_ws_and_comments f L2)
        else Ok L1)
    end.

  (** *** strings.rs tokenize_string; identifiers.rs tokenize_delimited_identifier and
      tokenize_backtick_identifier: three copies of the same loop, differing in the quote
      character.  Returns the unescaped content and the lexer after the closing quote; [None] when
      the input ends first. *)
  Fixpoint quoted_loop (fuel : nat) (quote : Z) (acc : list Z) (L : lexer)
    : outcome (option (list Z) * lexer) :=
    match fuel with
    | O => Err EOutOfFuel L
    | S f =>
        if is_eof L then Ok (None, L)
        else
          let L := tick L in
          let ch := current_char L in
          if ch =? quote then
            let L1 := advance L in
            if negb (is_eof L1) && (current_char L1 =? quote)
            then quoted_loop f quote (quote :: acc) (advance L1)
            else Ok (Some (rev acc), L1)
          else quoted_loop f quote (ch :: acc) (advance L)
    end.

  Definition tokenize_string (L : lexer) : outcome (token * lexer) :=
    let quote := current_char L in
    bind (quoted_loop fuel0 quote [] (advance L)) (fun r =>
    match r with
    | (Some s, L') => Ok (TString s, L')
    | (None, L') => Err EUnterminatedString L'
    end).

  Definition tokenize_delimited (quote : Z) (L : lexer) : outcome (token * lexer) :=
    bind (quoted_loop fuel0 quote [] (advance L)) (fun r =>
    match r with
    | (Some [], L') => Err EEmptyDelimited L'
    | (Some s, L') => Ok (TDelim s, L')
    | (None, L') => Err EUnterminatedDelimited L'
    end).

  (** *** numbers.rs tokenize_number *)
  Fixpoint number_body (fuel : nat) (has_dot : bool) (L : lexer) : outcome lexer :=
    match fuel with
    | O => Err EOutOfFuel L
    | S f =>
        if is_eof L then Ok L
        else
          let ch := current_char L in
          if is_ascii_digit ch then number_body f has_dot (advance (tick L))
          else if (ch =? 46) && negb has_dot then number_body f true (advance (tick L))
          else Ok L
    end.

  Fixpoint digits_loop (fuel : nat) (L : lexer) : outcome lexer :=
    match fuel with
    | O => Err EOutOfFuel L
    | S f =>
        if negb (is_eof L) && is_ascii_digit (current_char L) then digits_loop f (advance (tick L))
        else Ok L
    end.

  Definition number_exponent (L : lexer) : outcome lexer :=
    if is_eof L then Ok L
    else
      let ch := current_char L in
      if (ch =? 69) || (ch =? 101) then
        let L1 := advance L in
        let L2 :=
          if is_eof L1 then L1
          else let sign := current_char L1 in
               if (sign =? 43) || (sign =? 45) then advance L1 else L1 in
        let exp_start := position L2 in
        bind (digits_loop fuel0 L2) (fun L3 =>
        if Nat.eqb (position L3) exp_start then Err EBadExponent L3 else Ok L3)
      else Ok L.

  Definition tokenize_number (L : lexer) : outcome (token * lexer) :=
    let start := position L in
    let '(has_dot, L0) :=
      if negb (is_eof L) && (current_char L =? 46) then (true, advance L) else (false, L) in
    bind (number_body fuel0 has_dot L0) (fun L1 =>
    bind (number_exponent L1) (fun L2 =>
    bind (slice start (position L2)) (fun text =>
    Ok (TNumber text, L2)))).

  (** *** identifiers.rs tokenize_identifier_or_keyword *)
  Fixpoint ident_loop (fuel : nat) (L : lexer) : outcome lexer :=
    match fuel with
    | O => Err EOutOfFuel L
    | S f =>
        if is_eof L then Ok L
        else
          let ch := current_char L in
          if char_is_alphanumeric ch || (ch =? 95) then ident_loop f (advance (tick L))
          else Ok L
    end.

  Definition tokenize_identifier_or_keyword (L : lexer) : outcome (token * lexer) :=
    let start := position L in
    bind (ident_loop fuel0 L) (fun L1 =>
    bind (slice start (position L1)) (fun text =>
    Ok (map_keyword (str_to_uppercase text), L1))).

  (** *** mod.rs tokenize_session_variable / tokenize_user_variable: the name is accumulated with
      [String::push]; [allow_dot] distinguishes the two loops. *)
  Fixpoint var_loop (fuel : nat) (allow_dot : bool) (acc : list Z) (L : lexer)
    : outcome (list Z * lexer) :=
    match fuel with
    | O => Err EOutOfFuel L
    | S f =>
        if is_eof L then Ok (rev acc, L)
        else
          let ch := current_char L in
          if is_ascii_alnum ch || (ch =? 95) || (allow_dot && (ch =? 46))
          then var_loop f allow_dot (ch :: acc) (advance (tick L))
          else Ok (rev acc, L)
    end.

  Definition tokenize_session_variable (L : lexer) : outcome (token * lexer) :=
    bind (var_loop fuel0 true [] (advance (advance L))) (fun r =>
    match r with
    | ([], L') => Err EEmptyVarName L'
    | (name, L') => Ok (TSessionVar name, L')
    end).

  Definition tokenize_user_variable (L : lexer) : outcome (token * lexer) :=
    bind (var_loop fuel0 false [] (advance L)) (fun r =>
    match r with
    | ([], L') => Err EEmptyVarName L'
    | (name, L') => Ok (TUserVar name, L')
    end).

  (** *** operators.rs tokenize_operator ([ch] is one of = < > ! |) *)
  Definition tokenize_operator (ch : Z) (L : lexer) : outcome (token * lexer) :=
    if (ch =? 61) || (ch =? 60) || (ch =? 62) || (ch =? 33) then
      let L1 := advance L in
      if is_eof L1 then Ok (TSymbol ch, L1)
      else
        let next_ch := current_char L1 in
        if (ch =? 60) && (next_ch =? 61) then Ok (TOperator [60; 61], advance L1)
        else if (ch =? 62) && (next_ch =? 61) then Ok (TOperator [62; 61], advance L1)
        else if (ch =? 33) && (next_ch =? 61) then Ok (TOperator [33; 61], advance L1)
        else if (ch =? 60) && (next_ch =? 62) then Ok (TOperator [60; 62], advance L1)
        else Ok (TSymbol ch, L1)
    else if ch =? 124 then
      let L1 := advance L in
      if negb (is_eof L1) && (current_char L1 =? 124) then Ok (TOperator [124; 124], advance L1)
      else
        (* LexerError { position: self.position - 1 }: usize subtraction *)
        match position L1 with
        | O => Panic
        | S _ => Err ELonePipe L1
        end
    else Ok (TSymbol ch, advance L).

  (** *** mod.rs next_token (called only when not at eof) *)
  Definition next_token (L0 : lexer) : outcome (token * lexer) :=
    let L := tick L0 in
    let ch := current_char L in
    if ch =? 59 then Ok (TSemicolon, advance L)
    else if ch =? 44 then Ok (TComma, advance L)
    else if ch =? 40 then Ok (TLParen, advance L)
    else if ch =? 41 then Ok (TRParen, advance L)
    else if (ch =? 61) || (ch =? 60) || (ch =? 62) || (ch =? 33) || (ch =? 124)
      then tokenize_operator ch L
    else if ch =? 64 then
      if opt_is (peek L 1) 64 then tokenize_session_variable L else tokenize_user_variable L
    else if ch =? 46 then
      if negb (is_eof L) && match peek L 1 with Some c => is_ascii_digit c | None => false end
      then tokenize_number L
      else Ok (TSymbol 46, advance L)
    else if (ch =? 43) || (ch =? 45) || (ch =? 42) || (ch =? 47) then Ok (TSymbol ch, advance L)
    else if ch =? 39 then tokenize_string L
    else if ch =? 34 then tokenize_delimited 34 L
    else if ch =? 96 then tokenize_delimited 96 L
    else if is_ascii_digit ch then tokenize_number L
    else if is_ascii_alpha ch || (ch =? 95) then tokenize_identifier_or_keyword L
    else Err EUnexpectedChar L.

  (** *** mod.rs tokenize *)
  Fixpoint tokenize_loop (fuel : nat) (acc : list token) (L : lexer)
    : outcome (list token * lexer) :=
    match fuel with
    | O => Err EOutOfFuel L
    | S f =>
        bind (skip_ws_and_comments fuel0 (tick L)) (fun L1 =>
        if is_eof L1 then Ok (rev (TEof :: acc), L1)
        else bind (next_token L1) (fun r => tokenize_loop f (fst r :: acc) (snd r)))
    end.

  Definition tokenize_run : outcome (list token * lexer) :=
    tokenize_loop fuel0 [] (mkL 0 0).
End Lexer.

(** ** Entry points: [Lexer::new(text).tokenize()] *)
Definition tokenize_full (uni_alnum : Z -> bool) (uni_upper : Z -> list Z) (cs : list Z)
  : outcome (list token * lexer) :=
  tokenize_run uni_alnum uni_upper cs (length cs).

Definition tokenize (uni_alnum : Z -> bool) (uni_upper : Z -> list Z) (cs : list Z)
  : outcome (list token) :=
  match tokenize_full uni_alnum uni_upper cs with
  | Ok (ts, _) => Ok ts
  | Err e L => Err e L
  | Panic => Panic
  end.

(** cost of a run, successful or failing: loop iterations + next_token calls *)
Definition lex_ticks (uni_alnum : Z -> bool) (uni_upper : Z -> list Z) (cs : list Z) : nat :=
  match tokenize_full uni_alnum uni_upper cs with
  | Ok (_, L) => ticks L
  | Err _ L => ticks L
  | Panic => O
  end.

(** ASCII-only instance (every code point >= 128 is "not alphanumeric", upper-cases to itself);
    used for examples. *)
Definition ascii_only_alnum (_ : Z) : bool := false.
Definition ascii_only_upper (c : Z) : list Z := [c].
Definition tokenize_ascii := tokenize ascii_only_alnum ascii_only_upper.

(** doubled-quote escaping of a string literal body *)
Definition double_quotes (q : Z) (s : list Z) : list Z :=
  flat_map (fun c => if c =? q then [q; q] else [c]) s.
