(** Model of the two standard-library conversions that [substitute_placeholders]
    (crates/vibesql-python-bindings/src/conversions.rs) and the literal reader rely on for [f64]:

    - [fmt_f64]      = [impl Display for f64] ([f.to_string()]), i.e. core::fmt::float
                       [float_to_decimal_common_shortest(.., Sign::Minus, 0)]:
                       flt2dec::decode, strategy::dragon::format_shortest (the reference algorithm; the
                       Grisu fast path returns the same digits or falls back to it), digits_to_dec_str
                       with frac_digits = 0.  No exponent notation is ever produced.
    - [f64_of_ratio] = correctly rounded (nearest, ties to even) conversion of a non-negative rational to
                       binary64: what [str::parse::<f64>] computes for a decimal numeral and what CPython's
                       [PyLong_AsDouble] computes for an int.

    A binary64 value is represented by its bit pattern (a [Z] in [0, 2^64)).
    Executable definitions only; no proofs in this file. *)
From Coq Require Import List ZArith Bool.
Import ListNotations.
Open Scope Z_scope.

Definition two52 : Z := 4503599627370496.
Definition two53 : Z := 9007199254740992.
Definition two63 : Z := 9223372036854775808.
Definition two64 : Z := 18446744073709551616.
Definition f64_inf_bits : Z := 9218868437227405312.  (* 0x7FF0_0000_0000_0000 *)

Definition f64_neg (bits : Z) : bool := two63 <=? bits.
Definition f64_expf (bits : Z) : Z := (bits / two52) mod 2048.
Definition f64_frac (bits : Z) : Z := bits mod two52.
Definition f64_finite (bits : Z) : bool := negb (f64_expf bits =? 2047).
Definition f64_is_nan (bits : Z) : bool := (f64_expf bits =? 2047) && negb (f64_frac bits =? 0).
Definition f64_negate (bits : Z) : Z := if f64_neg bits then bits - two63 else bits + two63.

(** core::num::flt2dec::decoder::decode (with f64::integer_decode inlined) *)
Inductive decoded : Type :=
| DNan | DInf | DZero
| DFinite (mant minus plus exp : Z) (inclusive : bool).

Definition f64_decode (bits : Z) : decoded :=
  let e := f64_expf bits in
  let f := f64_frac bits in
  if e =? 2047 then (if f =? 0 then DInf else DNan)
  else if e =? 0 then
    (if f =? 0 then DZero
     else (* subnormal: integer_decode gives mantissa f << 1, exponent -1075 *)
       let mant := 2 * f in DFinite mant 1 1 (-1075) (Z.even mant))
  else
    let mant := f + two52 in
    let exp := e - 1075 in
    if mant =? two52
    then DFinite (4 * mant) 1 2 (exp - 2) (Z.even mant)
    else DFinite (2 * mant) 1 1 (exp - 1) (Z.even mant).

(** number of significant bits: [64 - x.leading_zeros()] *)
Definition bitlen (x : Z) : Z := if x <=? 0 then 0 else Z.log2 x + 1.

(** flt2dec::estimator::estimate_scaling_factor: [(nbits + exp) * 1292913986 >> 32] in i64 *)
Definition estimate_scaling_factor (mant exp : Z) : Z :=
  Z.shiftr ((bitlen (mant - 1) + exp) * 1292913986) 32.

(** the digit generation loop of dragon::format_shortest; digits are accumulated in reverse.
    Result: (reversed digits, remainder, down, up); [None] = fuel exhausted *)
Fixpoint dragon_loop (fuel : nat) (mant minus plus scale : Z) (incl : bool) (acc : list Z)
  : option (list Z * Z * bool * bool) :=
  match fuel with
  | O => None
  | S f =>
    let d := mant / scale in
    let mant := mant mod scale in
    let acc := d :: acc in
    let down := if incl then mant <=? minus else mant <? minus in
    let up := if incl then scale <=? mant + plus else scale <? mant + plus in
    if down || up then Some (acc, mant, down, up)
    else dragon_loop f (mant * 10) (minus * 10) (plus * 10) scale incl acc
  end.

(** flt2dec::round_up on the reversed digit list; the flag tells that every digit was 9 *)
Fixpoint round_up_rev (ds : list Z) : list Z * bool :=
  match ds with
  | [] => ([], true)
  | d :: r =>
    if d =? 9 then let (r', c) := round_up_rev r in (0 :: r', c)
    else ((d + 1) :: r, false)
  end.

Definition dragon_fuel : nat := 1100.

(** dragon::format_shortest: the shortest digit string [ds] and exponent [k] with
    value = 0.d1d2.. * 10^k inside the rounding interval of the float *)
Definition dragon_shortest (mant0 minus0 plus0 exp : Z) (incl : bool) : option (list Z * Z) :=
  let k0 := estimate_scaling_factor (mant0 + plus0) exp in
  let '(mant, minus, plus, scale) :=
    if exp <? 0 then (mant0, minus0, plus0, 2 ^ (- exp))
    else (mant0 * 2 ^ exp, minus0 * 2 ^ exp, plus0 * 2 ^ exp, 1) in
  let '(mant, minus, plus, scale) :=
    if k0 <? 0 then (mant * 10 ^ (- k0), minus * 10 ^ (- k0), plus * 10 ^ (- k0), scale)
    else (mant, minus, plus, scale * 10 ^ k0) in
  let bump := if incl then scale <=? mant + plus else scale <? mant + plus in
  let '(k, mant, minus, plus) :=
    if bump then (k0 + 1, mant, minus, plus) else (k0, mant * 10, minus * 10, plus * 10) in
  match dragon_loop dragon_fuel mant minus plus scale incl [] with
  | None => None
  | Some (racc, rem, down, up) =>
    if up && (negb down || (scale <=? 2 * rem)) then
      let (r', carry) := round_up_rev racc in
      if carry then Some (1 :: rev r', k + 1) else Some (rev r', k)
    else Some (rev racc, k)
  end.

Definition digit_chars (ds : list Z) : list Z := map (fun d => 48 + d) ds.
Definition zeros (n : Z) : list Z := repeat 48 (Z.to_nat n).

(** flt2dec::digits_to_dec_str with frac_digits = 0 *)
Definition digits_to_dec_str (ds : list Z) (k : Z) : list Z :=
  let n := Z.of_nat (length ds) in
  if k <=? 0 then [48; 46] ++ zeros (- k) ++ digit_chars ds
  else if k <? n then
    digit_chars (firstn (Z.to_nat k) ds) ++ [46] ++ digit_chars (skipn (Z.to_nat k) ds)
  else digit_chars ds ++ zeros (k - n).

(** [-1] (not a code point) marks fuel exhaustion of the digit loop; every theorem that
    talks about float text excludes it through [plain_ok] *)
Definition fmt_f64 (bits : Z) : list Z :=
  let sign := if f64_neg bits then [45] else [] in
  match f64_decode bits with
  | DNan => [78; 97; 78]                    (* "NaN", never signed *)
  | DInf => sign ++ [105; 110; 102]         (* "inf" *)
  | DZero => sign ++ [48]
  | DFinite m mi pl e incl =>
    match dragon_shortest m mi pl e incl with
    | Some (ds, k) => sign ++ digits_to_dec_str ds k
    | None => [-1]
    end
  end.

(** nearest binary64 (ties to even) of the rational n/d, n >= 0, d > 0; overflow gives +inf *)
Definition f64_of_ratio (n d : Z) : Z :=
  if n <=? 0 then 0 else
  let e_est := Z.log2 n - Z.log2 d in
  let ge := if 0 <=? e_est then d * 2 ^ e_est <=? n else d <=? n * 2 ^ (- e_est) in
  let e := if ge then e_est else e_est - 1 in      (* 2^e <= n/d < 2^(e+1) *)
  let e := Z.max e (-1022) in
  let q := e - 52 in
  let '(num, den) := if 0 <=? q then (n, d * 2 ^ q) else (n * 2 ^ (- q), d) in
  let m0 := num / den in
  let r := num mod den in
  let m := if (den <? 2 * r) || ((2 * r =? den) && Z.odd m0) then m0 + 1 else m0 in
  let '(m, e) := if m =? two53 then (two52, e + 1) else (m, e) in
  if 1023 <? e then f64_inf_bits
  else if m <? two52 then m
  else (e + 1023) * two52 + (m - two52).

(** CPython [PyLong_AsDouble]: OverflowError ([None]) when the rounded value is not finite *)
Definition f64_of_Z (z : Z) : option Z :=
  let b := f64_of_ratio (Z.abs z) 1 in
  if b =? f64_inf_bits then None
  else Some (if z <? 0 then b + two63 else b).
