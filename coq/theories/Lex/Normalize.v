(** * Lex/Normalize.v — executable model of the query-signature normaliser
    (crates/vibesql-executor/src/cache/query_signature.rs, [QuerySignature::normalize] and
    [QuerySignature::from_sql]).

    Rust:
<<
    fn normalize(sql: &str) -> String {
        sql.split_whitespace().collect::<Vec<_>>().join(" ").to_lowercase()
    }
>>
    over the WHOLE statement text: string literals, quoted identifiers and comments included.
    Texts are [list Z] of Unicode scalar values.

    - [is_ws] is [char::is_whitespace] (the Unicode White_Space set, spelled out completely);
    - [split_ws] is [str::split_whitespace]: maximal runs of non-whitespace, never an empty piece;
    - [join_sp] is [[&str]::join(" ")];
    - [to_lower] is [str::to_lowercase]: [char::to_lowercase] char by char (plus the final-sigma rule
      for U+03A3, which is outside the modelled range).  [lower_cp] spells out Basic Latin,
      Latin-1 Supplement and Latin Extended-A (code points below U+0180, including the one
      two-code-point expansion U+0130 -> "i" U+0307); every other code point is mapped to itself, and
      the predicate [in_scope] says for which texts that is what Rust does (code points below U+0180,
      White_Space, and three caseless blocks used by the generators: Combining Diacritical Marks,
      CJK Unified Ideographs and Emoticons).  The harness compares [lower_cp] with [char::to_lowercase] on every code point of
      that range on every run.

    The second half of the file is the *specification* side used by the laws: a scanner [classify]
    that marks the code points lying inside a protected region of the SQL text -- a '...' string
    literal, a "..." or `...` delimited identifier (doubling the quote escapes it: the lexer's
    strings.rs / identifiers.rs have no backslash escapes), or a [--] line comment up to and
    including its newline (lexer/mod.rs [skip_whitespace_and_comments]) -- and the quote-aware
    normaliser [normalize_q] (the proposed repair, fixes/C25-signature-quote-aware.patch) that
    collapses white space and folds case only outside protected regions.
    No proofs in this file. *)
From Coq Require Import List ZArith Bool.
Import ListNotations.
Open Scope Z_scope.

(** ** Character classes *)
Definition in_range (lo hi c : Z) : bool := (lo <=? c) && (c <=? hi).

(** [char::is_whitespace] = White_Space: U+0009..U+000D, U+0020, U+0085, U+00A0, U+1680,
    U+2000..U+200A, U+2028, U+2029, U+202F, U+205F, U+3000. *)
Definition is_ws (c : Z) : bool :=
  in_range 9 13 c || (c =? 32) || (c =? 133) || (c =? 160) || (c =? 5760) || in_range 8192 8202 c
  || in_range 8232 8233 c || (c =? 8239) || (c =? 8287) || (c =? 12288).

(** [char::to_lowercase] on the modelled range. *)
Definition lower_cp (c : Z) : list Z :=
  if in_range 65 90 c then [c + 32]                                   (* A-Z *)
  else if in_range 192 222 c then (if c =? 215 then [c] else [c + 32]) (* U+00C0..U+00DE except U+00D7 *)
  else if in_range 256 303 c then (if Z.even c then [c + 1] else [c])  (* U+0100..U+012F *)
  else if c =? 304 then [105; 775]                                     (* U+0130 -> i, U+0307 *)
  else if in_range 306 311 c then (if Z.even c then [c + 1] else [c])  (* U+0132..U+0137 *)
  else if in_range 313 328 c then (if Z.odd c then [c + 1] else [c])   (* U+0139..U+0148 *)
  else if in_range 330 375 c then (if Z.even c then [c + 1] else [c])  (* U+014A..U+0177 *)
  else if c =? 376 then [255]                                          (* U+0178 -> U+00FF *)
  else if in_range 377 382 c then (if Z.odd c then [c + 1] else [c])   (* U+0179..U+017E *)
  else [c].

(** the texts on which [lower_cp] is claimed to be [char::to_lowercase] *)
Definition cp_in_scope (c : Z) : bool :=
  in_range 0 383 c || in_range 768 879 c || is_ws c || in_range 19968 40959 c || in_range 128512 128591 c.
Definition in_scope (s : list Z) : bool := forallb cp_in_scope s.

(** ** Generic splitting (used for plain texts and for marked texts) *)
Section Split.
  Context {A : Type}.
  Variable sep : A -> bool.

  (** [rsplit s = (first field, remaining fields)]: like [str::split], empty fields are kept. *)
  Fixpoint rsplit (s : list A) : list A * list (list A) :=
    match s with
    | [] => ([], [])
    | c :: r => let '(w, ws) := rsplit r in if sep c then ([], w :: ws) else (c :: w, ws)
    end.
  Definition fields (s : list A) : list (list A) := let '(w, ws) := rsplit s in w :: ws.
  Definition nonempty (w : list A) : bool := match w with [] => false | _ => true end.
  (** maximal runs of non-separators *)
  Definition words (s : list A) : list (list A) := filter nonempty (fields s).

  Fixpoint join (sp : A) (ws : list (list A)) : list A :=
    match ws with
    | [] => []
    | [w] => w
    | w :: r => w ++ sp :: join sp r
    end.
End Split.

(** ** The normaliser as coded *)
Definition split_ws (s : list Z) : list (list Z) := words is_ws s.
Definition join_sp (ws : list (list Z)) : list Z := join 32 ws.
Definition to_lower (s : list Z) : list Z := flat_map lower_cp s.

Definition normalize (s : list Z) : list Z := to_lower (join_sp (split_ws s)).

(** ** UTF-8 encoding of a scalar value (what [str::as_bytes] yields) *)
Definition utf8_cp (c : Z) : list Z :=
  if c <? 128 then [c]
  else if c <? 2048 then [192 + c / 64; 128 + c mod 64]
  else if c <? 65536 then [224 + c / 4096; 128 + (c / 64) mod 64; 128 + c mod 64]
  else [240 + c / 262144; 128 + (c / 4096) mod 64; 128 + (c / 64) mod 64; 128 + c mod 64].
Definition utf8 (s : list Z) : list Z := flat_map utf8_cp s.

(** ** Protected regions of a SQL text (specification side) *)
Inductive region : Type := Code | InSQ | InDQ | InBQ | InComment.

(** a code point together with "lies in a protected region" *)
Definition item : Type := (Z * bool)%type.

Fixpoint classify_from (st : region) (s : list Z) : list item :=
  match s with
  | [] => []
  | c :: r =>
    match st with
    | Code =>
      if c =? 39 then (c, true) :: classify_from InSQ r
      else if c =? 34 then (c, true) :: classify_from InDQ r
      else if c =? 96 then (c, true) :: classify_from InBQ r
      else if (c =? 45) && (match r with d :: _ => d =? 45 | [] => false end)
           then (c, true) :: classify_from InComment r
      else (c, false) :: classify_from Code r
    | InSQ => (c, true) :: classify_from (if c =? 39 then Code else InSQ) r
    | InDQ => (c, true) :: classify_from (if c =? 34 then Code else InDQ) r
    | InBQ => (c, true) :: classify_from (if c =? 96 then Code else InBQ) r
    | InComment => (c, true) :: classify_from (if c =? 10 then Code else InComment) r
    end
  end.
Definition classify (s : list Z) : list item := classify_from Code s.

(** does the text contain any protected code point? *)
Definition has_protected (s : list Z) : bool := existsb snd (classify s).

Definition unprot (c : Z) : item := (c, false).
(** separator of a marked text: white space outside protected regions *)
Definition msep (it : item) : bool := negb (snd it) && is_ws (fst it).
(** case folding of a marked text: only outside protected regions *)
Definition mlower_item (it : item) : list item :=
  if snd it then [it] else map unprot (lower_cp (fst it)).
Definition mlower (m : list item) : list item := flat_map mlower_item m.

(** the quote-aware normaliser on marked texts, and its plain-string rendering (the repair) *)
Definition mnormalize (m : list item) : list item := mlower (join (32, false) (words msep m)).
Definition normalize_qm (s : list Z) : list item := mnormalize (classify s).
Definition normalize_q (s : list Z) : list Z := map fst (normalize_qm s).

(** ** "The same query up to white space and keyword case" (the property's notion):
    the two texts split into the same number of words at unprotected white space, and
    corresponding words agree exactly on protected code points and up to case elsewhere. *)
Definition word_equiv (w1 w2 : list item) : Prop := mlower w1 = mlower w2.
Definition same_query (s1 s2 : list Z) : Prop :=
  Forall2 word_equiv (words msep (classify s1)) (words msep (classify s2)).
