(** The float round trip: for a finite binary64 b the text [f64::to_string] prints is read back by the SQL
    reader as a value equal to b as a double (as the same Numeric double, or as the integer literal whose
    conversion to binary64 is b).  Printer: Dragon4 ([F64DragonLaws.dragon_in_interval]); reader:
    nearest-even ([F64RoundLaws.f64_of_ratio_decoded]); this file links them through the decimal text. *)
From Coq Require Import Decimal DecimalZ.
From Coq Require Import List ZArith Bool Lia.
From VibeSQL Require Import Lex.F64Display Lex.F64DisplayLaws Lex.F64RoundLaws Lex.F64DragonLaws
  Lex.Placeholder Lex.PlaceholderLaws Lex.FloatTextLaws Lex.PlaceholderFixed Lex.PlaceholderFixedLaws.
Import ListNotations.
Open Scope Z_scope.

(** Horner value, most significant digit first *)
Fixpoint hv (ds : list Z) (acc : Z) : Z := match ds with [] => acc | d :: r => hv r (acc * 10 + d) end.

Lemma hv_app : forall a b acc, hv (a ++ b) acc = hv b (hv a acc).
Proof. induction a as [|d a IH]; intros b acc; cbn [app hv]; [reflexivity|apply IH]. Qed.

Lemma rv_hv : forall ds acc, hv ds acc = acc * 10 ^ Z.of_nat (length ds) + rv (rev ds).
Proof.
  induction ds as [|d ds IH]; intros acc; cbn [hv rev length].
  - cbn. lia.
  - rewrite IH, rv_app_one, rev_length, Nat2Z.inj_succ, Z.pow_succ_r by lia. ring.
Qed.

Lemma hv_dv : forall ds, hv ds 0 = dv ds.
Proof. intros ds. rewrite rv_hv. unfold dv. lia. Qed.

Lemma hv_zeros : forall n acc, hv (repeat 0 n) acc = acc * 10 ^ Z.of_nat n.
Proof.
  induction n as [|n IH]; intros acc; cbn [repeat hv].
  - cbn. lia.
  - rewrite IH, Nat2Z.inj_succ, Z.pow_succ_r by lia. ring.
Qed.

Lemma zeros_digit_chars : forall n, zeros n = digit_chars (repeat 0 (Z.to_nat n)).
Proof. intros n. unfold zeros, digit_chars. induction (Z.to_nat n) as [|j IH]; [reflexivity|]. cbn [repeat map]. now rewrite IH. Qed.

Lemma digit_of_char : forall d, digit_ok d -> digit_of (48 + d) = Some d.
Proof.
  intros d [H0 H9]. unfold digit_of.
  assert (E1 : (48 <=? 48 + d) = true) by (apply Z.leb_le; lia).
  assert (E2 : (48 + d <=? 57) = true) by (apply Z.leb_le; lia).
  rewrite E1, E2. cbn [andb]. f_equal. lia.
Qed.

Lemma read_digits_chars : forall ds rest acc, Forall digit_ok ds ->
  read_digits (digit_chars ds ++ rest) acc = read_digits rest (hv ds acc).
Proof.
  induction ds as [|d ds IH]; intros rest acc H; [reflexivity|].
  inversion H as [|? ? Hd Hds]; subst. unfold digit_chars in *. cbn [map app read_digits hv].
  rewrite (digit_of_char d Hd). apply IH. exact Hds.
Qed.

Lemma read_digits_nil : forall acc, read_digits [] acc = Some (acc, []).
Proof. reflexivity. Qed.

Lemma read_digits_dot : forall fr acc, read_digits (46 :: fr) acc = Some (acc, 46 :: fr).
Proof. reflexivity. Qed.

Lemma all_digits_chars : forall ds, Forall digit_ok ds -> all_digits (digit_chars ds) = true.
Proof.
  induction 1 as [|d ds Hd _ IH]; [reflexivity|]. unfold digit_chars in *. cbn [map all_digits].
  now rewrite (digit_of_char d Hd), IH.
Qed.

Lemma Forall_repeat0 : forall n, Forall digit_ok (repeat 0 n).
Proof. induction n; cbn [repeat]; constructor; [unfold digit_ok; lia|assumption]. Qed.

Lemma digit_chars_app : forall a b, digit_chars (a ++ b) = digit_chars a ++ digit_chars b.
Proof. intros. unfold digit_chars. apply map_app. Qed.

Lemma digit_chars_length : forall ds, length (digit_chars ds) = length ds.
Proof. intros. unfold digit_chars. apply map_length. Qed.

(** what the number reader makes of the three layouts of [digits_to_dec_str] *)
Definition read_ratio (n d : Z) : rval :=
  if (d =? 1) && (n <=? i64_max) then RInt n else RFloat (f64_of_ratio n d).

Lemma read_number_dec_str : forall ds k, Forall digit_ok ds -> ds <> [] ->
  let j := k - Z.of_nat (length ds) in
  read_number (digits_to_dec_str ds k) =
  Some (if 0 <=? j then (if dv ds * 10 ^ j <=? i64_max then RInt (dv ds * 10 ^ j) else RFloat (f64_of_ratio (dv ds * 10 ^ j) 1))
        else RFloat (f64_of_ratio (dv ds) (10 ^ (- j)))).
Proof.
  intros ds k Hd Hne j.
  assert (Hl : 0 < Z.of_nat (length ds)) by (destruct ds; [contradiction|cbn [length]; lia]).
  unfold digits_to_dec_str.
  destruct (k <=? 0) eqn:Ek0; [apply Z.leb_le in Ek0|apply Z.leb_gt in Ek0].
  - (* 0.000ddd *)
    assert (Ej : (0 <=? j) = false) by (apply Z.leb_gt; unfold j; lia).
    rewrite Ej. rewrite zeros_digit_chars. rewrite <- digit_chars_app.
    set (fr := digit_chars (repeat 0 (Z.to_nat (- k)) ++ ds)).
    assert (Hfr : Forall digit_ok (repeat 0 (Z.to_nat (- k)) ++ ds)).
    { apply Forall_app. split; [apply Forall_repeat0|exact Hd]. }
    unfold read_number. cbn [app read_digits]. change (digit_of 48) with (Some 0). cbn iota.
    change (digit_of 46) with (@None Z). cbn iota.
    change (46 =? c_dot) with true. cbn [andb].
    unfold fr. rewrite (all_digits_chars _ Hfr).
    rewrite <- (app_nil_r (digit_chars (repeat 0 (Z.to_nat (- k)) ++ ds))) at 1.
    rewrite (read_digits_chars _ [] _ Hfr), read_digits_nil.
    rewrite hv_app, hv_zeros. replace (0 * 10 + 0) with 0 by lia. rewrite Z.mul_0_l, hv_dv.
    rewrite digit_chars_length, app_length, repeat_length.
    do 4 f_equal. unfold j. rewrite Nat2Z.inj_add, Z2Nat.id by lia. lia.
  - destruct (k <? Z.of_nat (length ds)) eqn:Ekn; [apply Z.ltb_lt in Ekn|apply Z.ltb_ge in Ekn].
    + (* dd.ddd *)
      assert (Ej : (0 <=? j) = false) by (apply Z.leb_gt; unfold j; lia). rewrite Ej.
      set (a := firstn (Z.to_nat k) ds). set (b := skipn (Z.to_nat k) ds).
      assert (Hab : ds = a ++ b) by (unfold a, b; now rewrite firstn_skipn).
      assert (Ha : Forall digit_ok a) by (unfold a; now apply Forall_firstn).
      assert (Hb : Forall digit_ok b) by (unfold b; now apply Forall_skipn').
      assert (Hane : a <> []).
      { unfold a. destruct ds as [|d0 ds']; [contradiction|]. destruct (Z.to_nat k) eqn:Ez; [lia|]. cbn [firstn]. discriminate. }
      unfold read_number.
      destruct (digit_chars a ++ [46] ++ digit_chars b) as [|c0 t0] eqn:Et.
      { destruct a; [contradiction|]. discriminate. }
      rewrite <- Et. rewrite (read_digits_chars a _ 0 Ha). cbn [app]. rewrite read_digits_dot.
      change (46 =? c_dot) with true. cbn [andb]. rewrite (all_digits_chars b Hb).
      rewrite <- (app_nil_r (digit_chars b)) at 1. rewrite (read_digits_chars b [] _ Hb), read_digits_nil.
      rewrite <- hv_app, <- Hab, hv_dv. rewrite digit_chars_length.
      do 4 f_equal. unfold j, b. rewrite skipn_length. lia.
    + (* ddd000 *)
      assert (Ej : (0 <=? j) = true) by (apply Z.leb_le; unfold j; lia). rewrite Ej.
      rewrite zeros_digit_chars, <- digit_chars_app.
      assert (Hall : Forall digit_ok (ds ++ repeat 0 (Z.to_nat (k - Z.of_nat (length ds))))).
      { apply Forall_app. split; [exact Hd|apply Forall_repeat0]. }
      unfold read_number.
      destruct (digit_chars (ds ++ repeat 0 (Z.to_nat (k - Z.of_nat (length ds))))) as [|c0 t0] eqn:Et.
      { destruct ds; [contradiction|]. discriminate. }
      rewrite <- Et. rewrite <- (app_nil_r (digit_chars _)) at 1.
      rewrite (read_digits_chars _ [] 0 Hall), read_digits_nil.
      rewrite hv_app, hv_zeros, hv_dv. rewrite Z2Nat.id by lia. fold j. now destruct (dv ds * 10 ^ j <=? i64_max).
Qed.

(** * assembling printer and reader *)
Definition as_double (r : rval) : option Z :=
  match r with
  | RFloat b => Some b
  | RInt z => f64_of_Z z
  | _ => None
  end.

Lemma dec_str_first : forall ds k, Forall digit_ok ds -> ds <> [] ->
  exists d r, digits_to_dec_str ds k = (48 + d) :: r /\ digit_ok d.
Proof.
  intros ds k Hd Hne. unfold digits_to_dec_str. destruct (k <=? 0) eqn:Ek0.
  - exists 0, (46 :: zeros (- k) ++ digit_chars ds). split; [reflexivity|unfold digit_ok; lia].
  - apply Z.leb_gt in Ek0. destruct (k <? Z.of_nat (length ds)).
    + destruct ds as [|d0 ds']; [contradiction|]. inversion Hd; subst.
      destruct (Z.to_nat k) eqn:Ez; [lia|]. cbn [firstn digit_chars map app].
      eexists d0, _. split; [reflexivity|assumption].
    + destruct ds as [|d0 ds']; [contradiction|]. inversion Hd; subst. cbn [digit_chars map app].
      eexists d0, _. split; [reflexivity|assumption].
Qed.

Lemma within_pos : forall incl a x b y n d, 0 < a -> 0 < d -> within incl a x b y n d -> 0 < n.
Proof.
  intros incl a x b y n d Ha Hd H. unfold within in H.
  assert (Hl : rle a x n d).
  { destruct incl; destruct H as [H _]; [exact H|]. unfold rlt, rle in *. destruct (0 <=? x); lia. }
  unfold rle in Hl. destruct (0 <=? x) eqn:E; [apply Z.leb_le in E|apply Z.leb_gt in E].
  - pose proof (pow2_pos x E). nia.
  - pose proof (pow2_pos (- x) ltac:(lia)). nia.
Qed.

Lemma dec_ratio_den_pos : forall D j, 0 < snd (dec_ratio D j).
Proof.
  intros D j. unfold dec_ratio. destruct (0 <=? j) eqn:E; cbn [snd]; [lia|].
  apply Z.leb_gt in E. apply Z.pow_pos_nonneg; lia.
Qed.

Lemma finite_not_inf : forall b, f64_finite b = true -> (b =? f64_inf_bits) = false.
Proof.
  intros b H. destruct (b =? f64_inf_bits) eqn:E; [|reflexivity]. apply Z.eqb_eq in E. subst b. vm_compute in H. discriminate.
Qed.

(** positive, finite, non-zero *)
Theorem float_roundtrip_pos : forall b, 0 < b < two63 -> f64_finite b = true ->
  exists r, read_unsigned (fmt_f64 b) = Some r /\ read_literal (fmt_f64 b) = Some r /\
    ((exists n, 0 < n /\ r = RInt n /\ f64_of_ratio n 1 = b) \/ r = RFloat b).
Proof.
  intros b Hb Hf.
  assert (Hb64 : 0 <= b < two64) by (unfold two63, two64 in *; lia).
  destruct (decode_nonfinite b Hf) as [Hn Hi].
  assert (Hneg : f64_neg b = false) by (unfold f64_neg; apply Z.leb_gt; lia).
  unfold fmt_f64. rewrite Hneg.
  destruct (f64_decode b) as [| | |m mi pl e incl] eqn:Hd; try contradiction.
  - (* zero is excluded *)
    exfalso. destruct (bits_decomp b ltac:(lia)) as [Hbits [He Hfr]].
    unfold f64_decode in Hd. destruct (f64_expf b =? 2047); [destruct (f64_frac b =? 0); discriminate|].
    destruct (f64_expf b =? 0) eqn:E0.
    + destruct (f64_frac b =? 0) eqn:Ef; [|discriminate]. apply Z.eqb_eq in E0. apply Z.eqb_eq in Ef. lia.
    + destruct (f64_frac b + two52 =? two52); discriminate.
  - destruct (decode_bounds b m mi pl e incl Hb64 Hd) as [B1 [B2 [B3 [B4 B5]]]].
    destruct (dragon_shortest_digits m mi pl e incl B1 B2 B3 B4 B5) as [ds [k [Hs [Hdig Hne]]]].
    rewrite Hs. cbn [app].
    pose proof (dragon_in_interval m mi pl e incl ds k B1 B2 B3 B4 B5 Hs) as Hw. cbv zeta in Hw.
    set (j := k - Z.of_nat (length ds)) in *.
    set (n := fst (dec_ratio (dv ds) j)) in *. set (d := snd (dec_ratio (dv ds) j)) in *.
    assert (Hdpos : 0 < d) by apply dec_ratio_den_pos.
    assert (Hmi1 : mi <= m - 1).
    { unfold f64_decode in Hd. destruct (f64_expf b =? 2047); [destruct (f64_frac b =? 0); discriminate|].
      destruct (f64_expf b =? 0); [destruct (f64_frac b =? 0); [discriminate|]|destruct (f64_frac b + two52 =? two52)];
        dfinite_eqs Hd; lia. }
    assert (Hnpos : 0 < n) by (apply (within_pos incl (m - mi) e (m + pl) e n d); [lia|assumption|assumption]).
    assert (Hround : f64_of_ratio n d = b).
    { destruct (Z.eq_dec (f64_expf b) 0) as [Hsubn|Hnorm].
      - (* subnormal: the interval is marked inclusive whatever the parity; the printed decimal has far
           fewer than 1075 fraction digits, so it is strictly inside *)
        destruct (dragon_digit_count m mi pl e incl ds k B1 B2 B3 B4 B5 Hs) as [_ Hjlow]. fold j in Hjlow.
        assert (Hdec : m = 2 * f64_frac b /\ mi = 1 /\ pl = 1 /\ e = -1075 /\ incl = true /\ 1 <= f64_frac b < two52).
        { destruct (bits_decomp b ltac:(lia)) as [Hbits [_ Hfr]].
          unfold f64_decode in Hd. rewrite Hsubn in Hd. change (0 =? 2047) with false in Hd. change (0 =? 0) with true in Hd. cbv iota in Hd.
          destruct (f64_frac b =? 0) eqn:Ef0; [discriminate|]. apply Z.eqb_neq in Ef0.
          pose proof (f_equal (fun x => match x with DFinite _ _ _ _ i => i | _ => false end) Hd) as Hi'. cbn beta iota in Hi'.
          dfinite_eqs Hd. repeat split; try lia.
          rewrite <- Hi'. rewrite Z.even_mul. reflexivity. }
        destruct Hdec as [-> [-> [-> [-> [-> HT]]]]].
        replace (2 * f64_frac b - 1) with (2 * f64_frac b - 1) in Hw by lia.
        assert (HD : 0 < dv ds).
        { unfold n, dec_ratio in Hnpos. destruct (0 <=? j) eqn:Ej; cbn [fst] in Hnpos; [|exact Hnpos].
          apply Z.leb_le in Ej. pose proof (pow10_pos j Ej). nia. }
        apply f64_of_ratio_subnormal_strict; try assumption.
        unfold n, d. apply subnormal_strict; try assumption; lia.
      - apply (f64_of_ratio_decoded b n d m mi pl e incl Hb Hd); try assumption. intros E. contradiction. }
    (* the reader *)
    destruct (dec_str_first ds k Hdig Hne) as [d0 [r0 [Et Hd0]]].
    assert (E45 : (48 + d0 =? c_dash) = false) by (apply Z.eqb_neq; unfold c_dash, digit_ok in *; lia).
    assert (E39 : (48 + d0 =? c_quote) = false) by (apply Z.eqb_neq; unfold c_quote, digit_ok in *; lia).
    assert (Hlit : read_literal (digits_to_dec_str ds k) = read_unsigned (digits_to_dec_str ds k)).
    { unfold read_literal. rewrite Et, E45. reflexivity. }
    rewrite Hlit.
    assert (Hun : read_unsigned (digits_to_dec_str ds k) = read_number (digits_to_dec_str ds k)).
    { unfold read_unsigned. rewrite Et, E39, (digit_of_char d0 Hd0). reflexivity. }
    rewrite Hun, (read_number_dec_str ds k Hdig Hne). cbv zeta. fold j.
    unfold n, d, dec_ratio in Hround, Hnpos.
    destruct (0 <=? j) eqn:Ej; cbn [fst snd] in Hround, Hnpos.
    + destruct (dv ds * 10 ^ j <=? i64_max).
      * eexists. split; [reflexivity|]. split; [reflexivity|]. left. eexists. split; [exact Hnpos|]. split; [reflexivity|exact Hround].
      * eexists. split; [reflexivity|]. split; [reflexivity|]. right. now rewrite Hround.
    + eexists. split; [reflexivity|]. split; [reflexivity|]. right. now rewrite Hround.
Qed.

(** the sign bit does not take part in decoding *)
Lemma decode_sign : forall b, two63 <= b < two64 ->
  f64_expf b = f64_expf (b - two63) /\ f64_frac b = f64_frac (b - two63).
Proof.
  intros b Hb. unfold f64_expf, f64_frac, two63, two64, two52 in *.
  replace b with ((b - 9223372036854775808) + 2048 * 4503599627370496) at 1 3 by lia.
  rewrite Z.div_add by lia. rewrite Z.mod_add by lia.
  split; [|reflexivity].
  rewrite <- Z.add_mod_idemp_r by lia. rewrite Z.mod_same by lia. now rewrite Z.add_0_r.
Qed.

Lemma fmt_neg : forall b, two63 <= b < two64 -> f64_finite b = true -> fmt_f64 b = 45 :: fmt_f64 (b - two63).
Proof.
  intros b Hb Hf. destruct (decode_sign b Hb) as [He Hfr].
  assert (Hd : f64_decode b = f64_decode (b - two63)) by (unfold f64_decode; now rewrite He, Hfr).
  destruct (decode_nonfinite b Hf) as [Hn Hi].
  unfold fmt_f64. rewrite <- Hd.
  assert (E1 : f64_neg b = true) by (unfold f64_neg; apply Z.leb_le; lia).
  assert (E2 : f64_neg (b - two63) = false) by (unfold f64_neg, two63, two64 in *; apply Z.leb_gt; lia).
  rewrite E1, E2. destruct (f64_decode b) as [| | |m mi pl e incl] eqn:Hdb; try contradiction; [reflexivity|].
  destruct (fmt_digits_ok b m mi pl e incl ltac:(unfold two63, two64 in *; lia) Hdb) as [ds [k [Hs _]]].
  rewrite Hs. reflexivity.
Qed.

Definition f64_is_zero (b : Z) : bool := (b =? 0) || (b =? two63).

Local Opaque dragon_loop fmt_f64.

(** every finite binary64 is read back as the same double; the sign of zero is lost *)
Theorem float_roundtrip : forall b, 0 <= b < two64 -> f64_finite b = true ->
  exists r, read_back (PFloat b) = Some r /\ as_double r = Some (if f64_is_zero b then 0 else b).
Proof.
  intros b Hb Hf. unfold read_back. cbn [py_to_sqlvalue print_value].
  destruct (Z.eq_dec b 0) as [E0|E0]; [subst b; exists (RInt 0); split; vm_compute; reflexivity|].
  destruct (Z.eq_dec b two63) as [E1|E1]; [subst b; exists (RInt 0); split; vm_compute; reflexivity|].
  assert (Ez : f64_is_zero b = false).
  { unfold f64_is_zero. apply orb_false_iff. split; now apply Z.eqb_neq. }
  rewrite Ez.
  destruct (Z.lt_ge_cases b two63) as [Hlt|Hge].
  - destruct (float_roundtrip_pos b ltac:(lia) Hf) as [r [_ [Hr Hshape]]].
    exists r. split; [exact Hr|].
    destruct Hshape as [[n [Hn [-> Hv]]]| ->]; [|reflexivity].
    cbn [as_double]. unfold f64_of_Z. rewrite Z.abs_eq by lia. rewrite Hv, (finite_not_inf b Hf).
    assert (E : (n <? 0) = false) by (apply Z.ltb_ge; lia). now rewrite E.
  - set (b' := b - two63).
    destruct (decode_sign b ltac:(lia)) as [He Hfr].
    assert (Hf' : f64_finite b' = true) by (unfold f64_finite in *; unfold b'; now rewrite <- He).
    assert (Hb' : 0 < b' < two63) by (unfold b', two63, two64 in *; lia).
    destruct (float_roundtrip_pos b' Hb' Hf') as [r [Hun [_ Hshape]]].
    rewrite (fmt_neg b ltac:(lia) Hf). fold b'.
    unfold read_literal. rewrite Z.eqb_refl. rewrite Hun.
    destruct Hshape as [[n [Hn [-> Hv]]]| ->].
    + eexists. split; [reflexivity|]. cbn [as_double]. unfold f64_of_Z.
      rewrite Z.abs_neq by lia. rewrite Z.opp_involutive, Hv, (finite_not_inf b' Hf').
      assert (E : (- n <? 0) = true) by (apply Z.ltb_lt; lia). rewrite E. f_equal. unfold b'. lia.
    + eexists. split; [reflexivity|]. cbn [as_double]. f_equal. unfold f64_negate.
      assert (E : f64_neg b' = false) by (unfold f64_neg; apply Z.leb_gt; lia). rewrite E. unfold b'. lia.
Qed.

Local Transparent dragon_loop fmt_f64.

Example float_roundtrip_ex :
  read_back (PFloat 4599075939470750516) = Some (RFloat 4599075939470750516) /\
  read_back (PFloat 13826050856027422720 (* -0.5 *)) = Some (RFloat 13826050856027422720) /\
  read_back (PFloat 4890909195324358656 (* 2^63 *)) = Some (RFloat 4890909195324358656) /\
  read_back (PFloat 4621819117588971520 (* 10.0 *)) = Some (RInt 10) /\ f64_of_Z 10 = Some 4621819117588971520.
Proof. vm_compute. repeat split. Qed.

(** the same for the code as it is now (finite floats are converted as before) *)
Theorem float_roundtrip_now : forall b, 0 <= b < two64 -> f64_finite b = true ->
  exists r, read_back_now (PFloat b) = Some r /\ as_double r = Some (if f64_is_zero b then 0 else b).
Proof. intros b Hb Hf. rewrite read_back_now_same by exact Hf. now apply float_roundtrip. Qed.
