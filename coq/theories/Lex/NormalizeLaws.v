(** * Lex/NormalizeLaws.v — laws of the signature normaliser (Lex/Normalize.v).

    - [normalize_char]: two texts have the same normal form exactly when they split into the same
      words (at ANY white space, inside literals too) up to case folding of EVERY code point;
    - [normalize_qm_char]: the quote-aware normaliser identifies two texts exactly when they are the
      same query up to white space and case outside protected regions ([same_query]);
    - [normalize_sound_plain]: on texts without protected regions the coded normaliser is sound and
      complete for [same_query];
    - [normalize_sound_refuted]: in general it is not (string literals, delimited identifiers and the
      newline that ends a line comment are folded / collapsed as well): four witnesses;
    - [same_query_share_entry]: the other direction holds for all texts: the same query up to white
      space and case always gets the same signature text. *)
From Coq Require Import List ZArith Bool Lia.
From VibeSQL Require Import Lex.Normalize.
Import ListNotations.
Open Scope Z_scope.

(** ** Splitting and joining, generically *)
Section SplitLaws.
  Context {A : Type}.
  Variable sep : A -> bool.

  Lemma fields_cons : forall c r,
    fields sep (c :: r) =
    if sep c then [] :: fields sep r
    else match fields sep r with w :: ws => (c :: w) :: ws | [] => [[c]] end.
  Proof.
    intros c r. unfold fields. cbn [rsplit]. destruct (rsplit sep r) as [w ws]. destruct (sep c); reflexivity.
  Qed.

  Lemma fields_nonnil : forall s, fields sep s <> [].
  Proof. intros s. unfold fields. destruct (rsplit sep s). discriminate. Qed.

  Lemma fields_nosep : forall s w, In w (fields sep s) -> forall c, In c w -> sep c = false.
  Proof.
    induction s as [|a r IH]; intros w Hw c Hc.
    - unfold fields in Hw. cbn in Hw. destruct Hw as [Hw|Hw]; [subst; contradiction|contradiction].
    - rewrite fields_cons in Hw. destruct (sep a) eqn:Ea.
      + destruct Hw as [Hw|Hw]; [subst; contradiction|]. exact (IH w Hw c Hc).
      + destruct (fields sep r) as [|w0 ws] eqn:Ef.
        * exfalso. exact (fields_nonnil r Ef).
        * destruct Hw as [Hw|Hw].
          -- subst w. destruct Hc as [Hc|Hc]; [subst; exact Ea|].
             apply (IH w0); [left; reflexivity|exact Hc].
          -- apply (IH w); [right; exact Hw|exact Hc].
  Qed.

  Lemma words_spec : forall s w, In w (words sep s) -> w <> [] /\ forall c, In c w -> sep c = false.
  Proof.
    intros s w H. unfold words in H. apply filter_In in H. destruct H as [Hin Hne]. split.
    - intro Hn. subst. discriminate.
    - exact (fields_nosep s w Hin).
  Qed.

  (** [words] on a concatenation around one separator *)
  Lemma fields_app_sep : forall a b x, sep x = true ->
    fields sep (a ++ x :: b) = fields sep a ++ fields sep b.
  Proof.
    induction a as [|c a IH]; intros b x Hx.
    - cbn [app]. rewrite fields_cons, Hx. reflexivity.
    - cbn [app]. rewrite !fields_cons. rewrite (IH b x Hx). destruct (sep c); [reflexivity|].
      destruct (fields sep a) as [|w ws] eqn:Ef; [exfalso; exact (fields_nonnil a Ef)|]. reflexivity.
  Qed.

  Lemma words_app_sep : forall a b x, sep x = true ->
    words sep (a ++ x :: b) = words sep a ++ words sep b.
  Proof. intros. unfold words. rewrite fields_app_sep by assumption. apply filter_app. Qed.

  Lemma fields_nosep_id : forall w, (forall c, In c w -> sep c = false) -> fields sep w = [w].
  Proof.
    induction w as [|c w IH]; intro H; [reflexivity|].
    rewrite fields_cons. rewrite (H c (or_introl eq_refl)).
    rewrite IH; [reflexivity|]. intros d Hd. apply H. right. exact Hd.
  Qed.

  Lemma words_nosep_id : forall w, w <> [] -> (forall c, In c w -> sep c = false) -> words sep w = [w].
  Proof.
    intros w Hne H. unfold words. rewrite fields_nosep_id by exact H. cbn.
    destruct w; [contradiction|reflexivity].
  Qed.

  (** ** join *)
  Variable sp : A.

  Lemma join_cons2 : forall w w' r, join sp (w :: w' :: r) = w ++ sp :: join sp (w' :: r).
  Proof. reflexivity. Qed.

  Lemma app_sep_inj : forall w1 w2 r1 r2,
    ~ In sp w1 -> ~ In sp w2 -> w1 ++ sp :: r1 = w2 ++ sp :: r2 -> w1 = w2 /\ r1 = r2.
  Proof.
    induction w1 as [|a w1 IH]; intros w2 r1 r2 H1 H2 H; destruct w2 as [|b w2]; cbn in H.
    - inversion H. split; reflexivity.
    - inversion H. subst. exfalso. apply H2. left. reflexivity.
    - inversion H. subst. exfalso. apply H1. left. reflexivity.
    - inversion H. subst. destruct (IH w2 r1 r2) as [Hw Hr].
      + intro Hin. apply H1. right. exact Hin.
      + intro Hin. apply H2. right. exact Hin.
      + assumption.
      + subst. split; reflexivity.
  Qed.

  Definition goodword (w : list A) : Prop := w <> [] /\ ~ In sp w.

  Lemma join_nonempty : forall w r, w <> [] -> join sp (w :: r) <> [].
  Proof.
    intros w r Hne. destruct r; cbn; [exact Hne|]. destruct w; [contradiction|discriminate].
  Qed.

  Lemma join_inj : forall ws1 ws2,
    Forall goodword ws1 -> Forall goodword ws2 -> join sp ws1 = join sp ws2 -> ws1 = ws2.
  Proof.
    induction ws1 as [|w1 r1 IH]; intros ws2 H1 H2 H.
    - destruct ws2 as [|w2 r2]; [reflexivity|]. inversion H2 as [|? ? [Hne _] _]. subst.
      exfalso. change (join sp []) with (@nil A) in H. symmetry in H. exact (join_nonempty w2 r2 Hne H).
    - inversion H1 as [|? ? [Hne1 Hs1] H1']. subst.
      destruct ws2 as [|w2 r2].
      + exfalso. exact (join_nonempty w1 r1 Hne1 H).
      + inversion H2 as [|? ? [Hne2 Hs2] H2']. subst.
        destruct r1 as [|w1' r1]; destruct r2 as [|w2' r2].
        * cbn in H. subst. reflexivity.
        * cbn [join] in H. exfalso. apply Hs1. rewrite H. apply in_app_iff. right. left. reflexivity.
        * cbn [join] in H. exfalso. apply Hs2. rewrite <- H. apply in_app_iff. right. left. reflexivity.
        * rewrite !join_cons2 in H. apply app_sep_inj in H; [|assumption|assumption].
          destruct H as [Hw Hr]. subst. f_equal. apply IH; assumption.
  Qed.
End SplitLaws.

(** splitting commutes with a map that preserves the separator test *)
Lemma rsplit_map {A B} (f : A -> B) (sa : A -> bool) (sb : B -> bool) :
  (forall a, sb (f a) = sa a) ->
  forall s, rsplit sb (map f s) = (map f (fst (rsplit sa s)), map (map f) (snd (rsplit sa s))).
Proof.
  intros Hs. induction s as [|c r IH]; [reflexivity|].
  cbn [map rsplit]. rewrite IH. destruct (rsplit sa r) as [w ws]. rewrite Hs.
  destruct (sa c); reflexivity.
Qed.

Lemma words_map {A B} (f : A -> B) (sa : A -> bool) (sb : B -> bool) :
  (forall a, sb (f a) = sa a) -> forall s, words sb (map f s) = map (map f) (words sa s).
Proof.
  intros Hs s. unfold words, fields. rewrite (rsplit_map f sa sb Hs).
  destruct (rsplit sa s) as [w ws]. cbn [fst snd].
  change (map f w :: map (map f) ws) with (map (map f) (w :: ws)).
  generalize (w :: ws). intro l. induction l as [|x l IH]; [reflexivity|].
  cbn [map filter]. destruct x; cbn; rewrite IH; reflexivity.
Qed.

(** ** Normal forms, generically: case folding after joining the words *)
Section NormalForm.
  Context {A : Type}.
  Variable sep : A -> bool.
  Variable sp : A.
  Variable lw : A -> list A.
  Hypothesis lw_sp : lw sp = [sp].
  Hypothesis lw_nonnil : forall a, lw a <> [].
  Hypothesis lw_nosp : forall a, sep a = false -> ~ In sp (lw a).

  Definition lwr (s : list A) : list A := flat_map lw s.

  Lemma lwr_app : forall a b, lwr (a ++ b) = lwr a ++ lwr b.
  Proof. intros. unfold lwr. apply flat_map_app. Qed.

  Lemma lwr_join : forall ws, lwr (join sp ws) = join sp (map lwr ws).
  Proof.
    induction ws as [|w r IH]; [reflexivity|].
    destruct r as [|w' r]; [reflexivity|].
    rewrite join_cons2. cbn [map]. rewrite join_cons2. rewrite lwr_app.
    change (sp :: join sp (w' :: r)) with ([sp] ++ join sp (w' :: r)). rewrite lwr_app.
    rewrite IH. cbn [map]. unfold lwr at 2. cbn [flat_map]. rewrite lw_sp. reflexivity.
  Qed.

  Lemma lwr_goodword : forall w, w <> [] -> (forall c, In c w -> sep c = false) -> goodword sp (lwr w).
  Proof.
    intros w Hne Hs. split.
    - destruct w as [|c w]; [contradiction|]. unfold lwr. cbn [flat_map].
      intro H. apply app_eq_nil in H. destruct H as [H _]. exact (lw_nonnil c H).
    - intro Hin. unfold lwr in Hin. apply in_flat_map in Hin. destruct Hin as [c [Hc Hin]].
      exact (lw_nosp c (Hs c Hc) Hin).
  Qed.

  Definition nf (s : list A) : list A := lwr (join sp (words sep s)).

  Theorem nf_char : forall s1 s2,
    nf s1 = nf s2 <-> map lwr (words sep s1) = map lwr (words sep s2).
  Proof.
    intros s1 s2. unfold nf. rewrite !lwr_join. split.
    - intro H. apply (join_inj sp) in H; [exact H| |].
      + apply Forall_forall. intros w Hw. apply in_map_iff in Hw. destruct Hw as [w0 [Hw0 Hin]]. subst.
        destruct (words_spec sep s1 w0 Hin) as [Hne Hs]. apply lwr_goodword; assumption.
      + apply Forall_forall. intros w Hw. apply in_map_iff in Hw. destruct Hw as [w0 [Hw0 Hin]]. subst.
        destruct (words_spec sep s2 w0 Hin) as [Hne Hs]. apply lwr_goodword; assumption.
    - intro H. rewrite H. reflexivity.
  Qed.
End NormalForm.

(** ** Facts about [lower_cp] and [is_ws] *)
Lemma in_range_false : forall lo hi c, c < lo \/ hi < c -> in_range lo hi c = false.
Proof.
  intros lo hi c H. unfold in_range. destruct H as [H|H].
  - assert (E : lo <=? c = false) by (apply Z.leb_gt; lia). rewrite E. reflexivity.
  - assert (E : c <=? hi = false) by (apply Z.leb_gt; lia). rewrite E. apply andb_false_r.
Qed.

Lemma lower_cp_outside : forall c, c < 65 \/ 382 < c -> lower_cp c = [c].
Proof.
  intros c H. unfold lower_cp.
  rewrite !in_range_false by lia.
  assert (E1 : c =? 304 = false) by (apply Z.eqb_neq; lia).
  assert (E2 : c =? 376 = false) by (apply Z.eqb_neq; lia).
  rewrite E1, E2. reflexivity.
Qed.

Definition zrange (n : nat) : list Z := map Z.of_nat (seq 0 n).

Lemma in_zrange : forall n c, 0 <= c < Z.of_nat n -> In c (zrange n).
Proof.
  intros n c H. unfold zrange. apply in_map_iff. exists (Z.to_nat c). split; [lia|].
  apply in_seq. lia.
Qed.

(** the per-code-point facts the normal form argument needs, checked on the whole table *)
Definition lower_cp_ok (c : Z) : bool :=
  negb (match lower_cp c with [] => true | _ => false end)
  && (if is_ws c then (match lower_cp c with [d] => d =? c | _ => false end)
      else forallb (fun d => negb (is_ws d)) (lower_cp c))
  && (match flat_map lower_cp (lower_cp c), lower_cp c with
      | [a], [b] => a =? b
      | [a; a'], [b; b'] => (a =? b) && (a' =? b')
      | _, _ => false
      end).

Lemma lower_cp_table_ok : forallb lower_cp_ok (zrange 400) = true.
Proof. vm_compute. reflexivity. Qed.

Lemma lower_cp_ok_all : forall c, lower_cp_ok c = true.
Proof.
  intro c. destruct (Z_lt_le_dec c 0) as [Hneg|Hpos].
  - unfold lower_cp_ok. rewrite (lower_cp_outside c) by lia. cbn [flat_map app]. rewrite (lower_cp_outside c) by lia.
    cbn. rewrite Z.eqb_refl. destruct (is_ws c) eqn:E; cbn; rewrite ?E; reflexivity.
  - destruct (Z_lt_le_dec c 400) as [Hlt|Hge].
    + pose proof lower_cp_table_ok as H. rewrite forallb_forall in H. apply H. apply in_zrange. lia.
    + unfold lower_cp_ok. rewrite (lower_cp_outside c) by lia. cbn [flat_map app]. rewrite (lower_cp_outside c) by lia.
      cbn. rewrite Z.eqb_refl. destruct (is_ws c) eqn:E; cbn; rewrite ?E; reflexivity.
Qed.

Lemma lower_cp_nonnil : forall c, lower_cp c <> [].
Proof.
  intros c H. pose proof (lower_cp_ok_all c) as Hok. unfold lower_cp_ok in Hok. rewrite H in Hok.
  cbn in Hok. discriminate.
Qed.

Lemma lower_cp_ws : forall c, is_ws c = true -> lower_cp c = [c].
Proof.
  intros c Hw. pose proof (lower_cp_ok_all c) as Hok. unfold lower_cp_ok in Hok. rewrite Hw in Hok.
  apply andb_true_iff in Hok. destruct Hok as [Hok _]. apply andb_true_iff in Hok. destruct Hok as [_ Hok].
  destruct (lower_cp c) as [|d [|d' r]]; try discriminate. apply Z.eqb_eq in Hok. subst. reflexivity.
Qed.

Lemma lower_cp_nonws : forall c d, is_ws c = false -> In d (lower_cp c) -> is_ws d = false.
Proof.
  intros c d Hw Hin. pose proof (lower_cp_ok_all c) as Hok. unfold lower_cp_ok in Hok. rewrite Hw in Hok.
  apply andb_true_iff in Hok. destruct Hok as [Hok _]. apply andb_true_iff in Hok. destruct Hok as [_ Hok].
  rewrite forallb_forall in Hok. specialize (Hok d Hin). destruct (is_ws d); [discriminate|reflexivity].
Qed.

Lemma lower_cp_idem : forall c, flat_map lower_cp (lower_cp c) = lower_cp c.
Proof.
  intro c. pose proof (lower_cp_ok_all c) as Hok. unfold lower_cp_ok in Hok.
  apply andb_true_iff in Hok. destruct Hok as [_ Hok].
  destruct (flat_map lower_cp (lower_cp c)) as [|a [|a' [|a'' r]]]; destruct (lower_cp c) as [|b [|b' [|b'' r']]];
    try discriminate.
  - apply Z.eqb_eq in Hok. subst. reflexivity.
  - apply andb_true_iff in Hok. destruct Hok as [H1 H2]. apply Z.eqb_eq in H1. apply Z.eqb_eq in H2. subst. reflexivity.
Qed.

Lemma to_lower_idem : forall s, to_lower (to_lower s) = to_lower s.
Proof.
  induction s as [|c s IH]; [reflexivity|]. unfold to_lower in *. cbn [flat_map].
  rewrite flat_map_app. rewrite lower_cp_idem. rewrite IH. reflexivity.
Qed.

Lemma is_ws_32 : is_ws 32 = true.
Proof. reflexivity. Qed.

Lemma lower_cp_no32 : forall c, is_ws c = false -> ~ In 32 (lower_cp c).
Proof. intros c Hw Hin. pose proof (lower_cp_nonws c 32 Hw Hin) as H. rewrite is_ws_32 in H. discriminate. Qed.

(** ** The coded normaliser *)
Theorem normalize_char : forall s1 s2,
  normalize s1 = normalize s2 <-> map to_lower (split_ws s1) = map to_lower (split_ws s2).
Proof.
  intros s1 s2. unfold normalize, to_lower, join_sp, split_ws.
  exact (nf_char is_ws 32 lower_cp (lower_cp_ws 32 is_ws_32) lower_cp_nonnil lower_cp_no32 s1 s2).
Qed.

(** ** The quote-aware normaliser *)
Lemma mlower_item_sp : mlower_item (32, false) = [(32, false)].
Proof. reflexivity. Qed.

Lemma mlower_item_nonnil : forall it, mlower_item it <> [].
Proof.
  intros [c p]. unfold mlower_item. cbn [fst snd]. destruct p; [discriminate|].
  intro H. apply map_eq_nil in H. exact (lower_cp_nonnil c H).
Qed.

Lemma mlower_item_nosp : forall it, msep it = false -> ~ In (32, false) (mlower_item it).
Proof.
  intros [c p] Hs Hin. unfold mlower_item, msep in *. cbn [fst snd] in *. destruct p.
  - destruct Hin as [H|[]]. discriminate.
  - cbn in Hs. apply in_map_iff in Hin. destruct Hin as [d [Hd Hin]]. unfold unprot in Hd.
    inversion Hd. subst. exact (lower_cp_no32 c Hs Hin).
Qed.

Theorem mnormalize_char : forall m1 m2,
  mnormalize m1 = mnormalize m2 <-> map mlower (words msep m1) = map mlower (words msep m2).
Proof.
  intros m1 m2. unfold mnormalize, mlower.
  exact (nf_char msep (32, false) mlower_item mlower_item_sp mlower_item_nonnil mlower_item_nosp m1 m2).
Qed.

Lemma forall2_eq_map {A B} (f : A -> B) : forall l1 l2,
  Forall2 (fun a b => f a = f b) l1 l2 <-> map f l1 = map f l2.
Proof.
  induction l1 as [|a l1 IH]; intros l2; split; intro H.
  - inversion H. reflexivity.
  - destruct l2; [constructor|discriminate].
  - inversion H. subst. cbn. f_equal; [assumption|]. apply IH. assumption.
  - destruct l2 as [|b l2]; [discriminate|]. cbn in H. inversion H. constructor; [assumption|].
    apply IH. assumption.
Qed.

Lemma same_query_iff_map : forall s1 s2,
  same_query s1 s2 <-> map mlower (words msep (classify s1)) = map mlower (words msep (classify s2)).
Proof. intros. unfold same_query, word_equiv. apply forall2_eq_map. Qed.

(** the repair specification: sound and complete for every pair of texts *)
Theorem normalize_qm_char : forall s1 s2, normalize_qm s1 = normalize_qm s2 <-> same_query s1 s2.
Proof.
  intros s1 s2. unfold normalize_qm. rewrite mnormalize_char. symmetry. apply same_query_iff_map.
Qed.

(** ** Texts without protected regions *)
Lemma classify_plain : forall s, has_protected s = false -> classify s = map unprot s.
Proof.
  unfold has_protected, classify.
  induction s as [|c r IH]; intro H; [reflexivity|].
  cbn [classify_from] in *.
  destruct (c =? 39); [cbn in H; discriminate|].
  destruct (c =? 34); [cbn in H; discriminate|].
  destruct (c =? 96); [cbn in H; discriminate|].
  destruct ((c =? 45) && match r with d :: _ => d =? 45 | [] => false end); [cbn in H; discriminate|].
  cbn [existsb snd] in H. cbn [orb] in H. cbn [map]. rewrite (IH H). reflexivity.
Qed.

Lemma msep_unprot : forall c, msep (unprot c) = is_ws c.
Proof. reflexivity. Qed.

Lemma mlower_unprot : forall w, mlower (map unprot w) = map unprot (to_lower w).
Proof.
  induction w as [|c w IH]; [reflexivity|].
  unfold mlower, to_lower in *. cbn [map flat_map]. rewrite map_app. rewrite IH. reflexivity.
Qed.

Lemma map_unprot_inj : forall a b, map unprot a = map unprot b -> a = b.
Proof.
  induction a as [|x a IH]; intros [|y b] H; try discriminate; [reflexivity|].
  cbn in H. inversion H. f_equal. apply IH. assumption.
Qed.

Lemma plain_words_lower : forall s, has_protected s = false ->
  map mlower (words msep (classify s)) = map (map unprot) (map to_lower (split_ws s)).
Proof.
  intros s H. rewrite (classify_plain s H). unfold split_ws.
  rewrite (words_map unprot is_ws msep msep_unprot). rewrite !map_map.
  apply map_ext. intro w. apply mlower_unprot.
Qed.

Lemma map_map_unprot_inj : forall a b, map (map unprot) a = map (map unprot) b -> a = b.
Proof.
  induction a as [|x a IH]; intros [|y b] H; try discriminate; [reflexivity|].
  cbn in H. inversion H. f_equal; [apply map_unprot_inj; assumption|apply IH; assumption].
Qed.

Theorem normalize_sound_plain : forall s1 s2,
  has_protected s1 = false -> has_protected s2 = false ->
  (normalize s1 = normalize s2 <-> same_query s1 s2).
Proof.
  intros s1 s2 H1 H2. rewrite normalize_char, same_query_iff_map.
  rewrite (plain_words_lower s1 H1), (plain_words_lower s2 H2). split.
  - intro H. rewrite H. reflexivity.
  - apply map_map_unprot_inj.
Qed.

(** ** The other direction holds for every pair of texts: the same query always gets the same
    signature text (the coded normaliser identifies more, never less) *)
Section Refine.
  Context {A : Type}.
  Variables sepC sepF : A -> bool.
  Hypothesis coarser : forall x, sepC x = true -> sepF x = true.

  Lemma fields_refine : forall s, flat_map (fields sepF) (fields sepC s) = fields sepF s.
  Proof.
    induction s as [|c r IH]; [reflexivity|].
    rewrite (fields_cons sepC c r). destruct (sepC c) eqn:Ec.
    - cbn [flat_map]. rewrite IH. rewrite (fields_cons sepF c r). rewrite (coarser c Ec). reflexivity.
    - destruct (fields sepC r) as [|w ws] eqn:Ef; [exfalso; exact (fields_nonnil sepC r Ef)|].
      cbn [flat_map] in *. rewrite (fields_cons sepF c w). rewrite (fields_cons sepF c r).
      destruct (sepF c).
      + cbn [app]. rewrite IH. reflexivity.
      + destruct (fields sepF w) as [|w0 ws0] eqn:Ew; [exfalso; exact (fields_nonnil sepF w Ew)|].
        cbn [app] in *. rewrite <- IH. reflexivity.
  Qed.

  Lemma filter_flat_map {B C} (p : C -> bool) (f : B -> list C) (l : list B) :
    filter p (flat_map f l) = flat_map (fun x => filter p (f x)) l.
  Proof. induction l as [|x l IH]; [reflexivity|]. cbn. rewrite filter_app, IH. reflexivity. Qed.

  Lemma flat_map_filter_nonempty {C} (f : list A -> list C) (l : list (list A)) :
    f [] = [] -> flat_map f (filter nonempty l) = flat_map f l.
  Proof.
    intro Hf. induction l as [|x l IH]; [reflexivity|]. cbn [filter flat_map].
    destruct x as [|a x]; cbn [nonempty].
    - rewrite Hf. exact IH.
    - cbn [flat_map]. rewrite IH. reflexivity.
  Qed.

  Lemma words_refine : forall s, words sepF s = flat_map (words sepF) (words sepC s).
  Proof.
    intro s. unfold words at 1. rewrite <- fields_refine. rewrite filter_flat_map.
    unfold words at 2. symmetry.
    apply (flat_map_filter_nonempty (fun x => filter nonempty (fields sepF x))). reflexivity.
  Qed.
End Refine.

Lemma fields_app_nosep {A} (sep : A -> bool) : forall p r,
  (forall d, In d p -> sep d = false) ->
  fields sep (p ++ r) = match fields sep r with w :: ws => (p ++ w) :: ws | [] => [p] end.
Proof.
  induction p as [|c p IH]; intros r H.
  - cbn [app]. destruct (fields sep r) as [|w ws] eqn:Ef; [|reflexivity].
    exfalso. exact (fields_nonnil sep r Ef).
  - cbn [app]. rewrite fields_cons. rewrite (H c (or_introl eq_refl)).
    rewrite IH by (intros d Hd; apply H; right; exact Hd).
    destruct (fields sep r); reflexivity.
Qed.

Lemma fields_to_lower : forall x, fields is_ws (to_lower x) = map to_lower (fields is_ws x).
Proof.
  induction x as [|c x IH]; [reflexivity|].
  unfold to_lower in *. cbn [flat_map]. rewrite (fields_cons is_ws c x).
  destruct (is_ws c) eqn:Ec.
  - rewrite (lower_cp_ws c Ec). cbn [app]. rewrite fields_cons, Ec. rewrite IH. reflexivity.
  - rewrite (fields_app_nosep is_ws (lower_cp c) (flat_map lower_cp x)).
    + rewrite IH. destruct (fields is_ws x) as [|w ws] eqn:Ef; [exfalso; exact (fields_nonnil is_ws x Ef)|].
      cbn [map flat_map]. reflexivity.
    + intros d Hd. exact (lower_cp_nonws c d Ec Hd).
Qed.

Lemma nonempty_to_lower : forall w, nonempty (to_lower w) = nonempty w.
Proof.
  intros [|c w]; [reflexivity|]. unfold to_lower. cbn [flat_map nonempty].
  destruct (lower_cp c) eqn:E; [exfalso; exact (lower_cp_nonnil c E)|]. reflexivity.
Qed.

Lemma words_to_lower : forall x, words is_ws (to_lower x) = map to_lower (words is_ws x).
Proof.
  intro x. unfold words. rewrite fields_to_lower. generalize (fields is_ws x). intro l.
  induction l as [|w l IH]; [reflexivity|]. cbn [map filter]. rewrite nonempty_to_lower.
  destruct (nonempty w); cbn [map]; rewrite IH; reflexivity.
Qed.

Lemma classify_from_fst : forall s st, map fst (classify_from st s) = s.
Proof.
  induction s as [|c r IH]; intro st; [reflexivity|].
  destruct st; cbn [classify_from].
  - destruct (c =? 39); [cbn; rewrite IH; reflexivity|].
    destruct (c =? 34); [cbn; rewrite IH; reflexivity|].
    destruct (c =? 96); [cbn; rewrite IH; reflexivity|].
    destruct ((c =? 45) && match r with d :: _ => d =? 45 | [] => false end); cbn; rewrite IH; reflexivity.
  - cbn. rewrite IH. reflexivity.
  - cbn. rewrite IH. reflexivity.
  - cbn. rewrite IH. reflexivity.
  - cbn. rewrite IH. reflexivity.
Qed.

Lemma classify_fst : forall s, map fst (classify s) = s.
Proof. intro s. apply classify_from_fst. Qed.

Lemma to_lower_app : forall a b, to_lower (a ++ b) = to_lower a ++ to_lower b.
Proof. intros. unfold to_lower. apply flat_map_app. Qed.

Lemma to_lower_mlower_item : forall it, to_lower (map fst (mlower_item it)) = lower_cp (fst it).
Proof.
  intros [c p]. unfold mlower_item. cbn [fst snd]. destruct p.
  - cbn [map fst]. unfold to_lower. cbn [flat_map]. apply app_nil_r.
  - rewrite map_map. cbn [unprot fst]. rewrite map_id. unfold to_lower. apply lower_cp_idem.
Qed.

Lemma to_lower_mlower : forall w, to_lower (map fst (mlower w)) = to_lower (map fst w).
Proof.
  induction w as [|it w IH]; [reflexivity|].
  change (mlower (it :: w)) with (mlower_item it ++ mlower w).
  rewrite map_app. rewrite to_lower_app.
  change (to_lower (map fst (it :: w))) with (lower_cp (fst it) ++ to_lower (map fst w)).
  f_equal; [apply to_lower_mlower_item|exact IH].
Qed.

Definition fine_words (y : list item) : list (list Z) := words is_ws (to_lower (map fst y)).

Lemma msep_is_ws : forall it : item, msep it = true -> is_ws (fst it) = true.
Proof. intros [c p] H. unfold msep in H. cbn in *. apply andb_true_iff in H. exact (proj2 H). Qed.

Definition isw_item (it : item) : bool := is_ws (fst it).

Lemma fine_words_word : forall w : list item,
  map to_lower (map (map fst) (words isw_item w)) = fine_words (mlower w).
Proof.
  intro w. unfold fine_words. rewrite to_lower_mlower. rewrite words_to_lower.
  rewrite (words_map fst isw_item is_ws) by reflexivity. reflexivity.
Qed.

Lemma fine_words_list : forall l : list (list item),
  map to_lower (map (map fst) (flat_map (words isw_item) l)) = flat_map fine_words (map mlower l).
Proof.
  induction l as [|w l IH]; [reflexivity|].
  cbn [flat_map map]. rewrite !map_app. f_equal; [apply fine_words_word|exact IH].
Qed.

Lemma normal_words_via_marked : forall s,
  map to_lower (split_ws s) = flat_map fine_words (map mlower (words msep (classify s))).
Proof.
  intro s. unfold split_ws.
  transitivity (map to_lower (words is_ws (map fst (classify s)))).
  - rewrite classify_fst. reflexivity.
  - rewrite (words_map fst isw_item is_ws) by reflexivity.
    rewrite (words_refine msep isw_item msep_is_ws).
    apply fine_words_list.
Qed.

Theorem same_query_share_entry : forall s1 s2, same_query s1 s2 -> normalize s1 = normalize s2.
Proof.
  intros s1 s2 H. apply normalize_char. rewrite !normal_words_via_marked.
  apply same_query_iff_map in H. rewrite H. reflexivity.
Qed.

(** ** The coded normaliser is not sound in general: four witnesses *)
Definition t_sel_A : list Z := [83;69;76;69;67;84;32;39;65;39].              (* SELECT 'A' *)
Definition t_sel_a : list Z := [83;69;76;69;67;84;32;39;97;39].              (* SELECT 'a' *)
Definition t_sel_a2b : list Z := [83;69;76;69;67;84;32;39;97;32;32;98;39].   (* SELECT 'a  b' *)
Definition t_sel_a1b : list Z := [83;69;76;69;67;84;32;39;97;32;98;39].      (* SELECT 'a b' *)
Definition t_sel_qx : list Z := [83;69;76;69;67;84;32;34;120;34;32;70;82;79;77;32;116;51].  (* SELECT "x" FROM t3 *)
Definition t_sel_qX : list Z := [83;69;76;69;67;84;32;34;88;34;32;70;82;79;77;32;116;51].   (* SELECT "X" FROM t3 *)
Definition t_cmt_nl : list Z := [83;69;76;69;67;84;32;49;32;45;45;32;99;10;43;32;49].       (* SELECT 1 -- c<LF>+ 1 *)
Definition t_cmt_sp : list Z := [83;69;76;69;67;84;32;49;32;45;45;32;99;32;43;32;49].       (* SELECT 1 -- c + 1 *)

Definition refuting_pair (s1 s2 : list Z) : Prop := normalize s1 = normalize s2 /\ ~ same_query s1 s2.

Lemma refute : forall s1 s2,
  normalize s1 = normalize s2 ->
  map mlower (words msep (classify s1)) <> map mlower (words msep (classify s2)) -> refuting_pair s1 s2.
Proof. intros s1 s2 H1 H2. split; [exact H1|]. intro H. apply same_query_iff_map in H. contradiction. Qed.

Theorem normalize_sound_refuted :
  refuting_pair t_sel_A t_sel_a /\ refuting_pair t_sel_a2b t_sel_a1b /\
  refuting_pair t_sel_qx t_sel_qX /\ refuting_pair t_cmt_nl t_cmt_sp.
Proof.
  repeat split; try (vm_compute; reflexivity);
    intro H; apply same_query_iff_map in H; vm_compute in H; discriminate.
Qed.

(** all four pairs contain protected code points (so they are outside [normalize_sound_plain]) *)
Example refuting_pairs_protected :
  has_protected t_sel_A = true /\ has_protected t_sel_a2b = true /\ has_protected t_sel_qx = true
  /\ has_protected t_cmt_nl = true.
Proof. repeat split; reflexivity. Qed.

(** hypotheses of [normalize_sound_plain] are satisfiable by a non-trivial pair *)
Example plain_pair_example :
  let s1 := [83;69;76;69;67;84;32;32;42;9;70;82;79;77;10;116;49;32] in   (* "SELECT  *<TAB>FROM<LF>t1 " *)
  let s2 := [115;101;108;101;99;116;32;42;32;102;114;111;109;32;84;49] in (* "select * from T1" *)
  has_protected s1 = false /\ has_protected s2 = false /\ normalize s1 = normalize s2 /\ s1 <> s2.
Proof. cbv zeta. repeat split; try reflexivity. discriminate. Qed.
