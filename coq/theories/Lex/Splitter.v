(** Model of [vibesql_storage::parse_sql_statements]
    (crates/vibesql-storage/src/persistence/load.rs), the line-based statement splitter that
    [vibesql_executor::load_sql_dump] (crates/vibesql-executor/src/persistence.rs) runs on the
    text of a SQL dump before handing each piece to the SQL parser.

    Strings are lists of Unicode scalar values ([str] of Value/Dec.v).  The transcription is
    line by line; the Rust text is quoted next to each definition.  Definitions only
    (proofs: Lex/SplitterLaws.v). *)
From Coq Require Import List ZArith Bool.
From VibeSQL Require Import Value.Dec Value.RStr.
Import ListNotations.
Open Scope Z_scope.

(** * [str::lines]

    [self.split_inclusive('\n').map(|line| { let Some(line) = line.strip_suffix('\n') else
    { return line }; let Some(line) = line.strip_suffix('\r') else { return line }; line })]:
    lines end at '\n'; one '\r' directly before that '\n' is removed as well; a final piece
    without '\n' is a line (kept as it is, a trailing '\r' included) unless it is empty. *)
Fixpoint lines (s : str) : list str :=
  match s with
  | [] => []
  | c :: r =>
      if c =? 10 then [] :: lines r
      else
        let keep := match lines r with [] => [[c]] | l :: ls => (c :: l) :: ls end in
        if c =? 13 then
          match r with
          | c2 :: r' => if c2 =? 10 then [] :: lines r' else keep
          | [] => keep
          end
        else keep
  end.

(** [trimmed.starts_with(DASHDASH)], DASHDASH = the two-character string of two hyphens *)
Definition starts_dashes (s : str) : bool :=
  match s with 45 :: 45 :: _ => true | _ => false end.

(** * The scanner state: the five [let mut] variables of the function *)
Record sst : Type := mk_sst {
  s_out : list str;      (* statements *)
  s_cur : str;           (* current_statement *)
  s_in : bool;           (* in_string *)
  s_ch : Z;              (* string_char *)
  s_esc : bool           (* escape_next *)
}.

(** [Vec::new(), String::new(), false, ' ', false] *)
Definition sst_init : sst := mk_sst [] [] false 32 false.

Definition push (st : sst) (ch : Z) : sst :=
  mk_sst (s_out st) (s_cur st ++ [ch]) (s_in st) (s_ch st) (s_esc st).

(** [current_statement.trim_end_matches(';')] *)
Definition trim_end_semis (s : str) : str := trim_end_by (Z.eqb 59) s.

(** the body of [for ch in line.chars()] (DQUOTE stands for the double-quote character literal):
<<
    if escape_next { current_statement.push(ch); escape_next = false; continue; }
    match ch {
        '\\' if in_string && string_char == '\'' => { push; escape_next = true; }
        '\'' | DQUOTE if !in_string => { in_string = true; string_char = ch; push; }
        c if in_string && c == string_char => { in_string = false; push; }
        ';' if !in_string => { push;
             if !current_statement.trim().is_empty() {
                 statements.push(current_statement.trim_end_matches(';').to_string()); }
             current_statement.clear(); }
        _ => { push; }
    }
>> *)
Definition step (st : sst) (ch : Z) : sst :=
  if s_esc st then
    mk_sst (s_out st) (s_cur st ++ [ch]) (s_in st) (s_ch st) false
  else if (ch =? 92) && s_in st && (s_ch st =? 39) then
    mk_sst (s_out st) (s_cur st ++ [ch]) (s_in st) (s_ch st) true
  else if ((ch =? 39) || (ch =? 34)) && negb (s_in st) then
    mk_sst (s_out st) (s_cur st ++ [ch]) true ch (s_esc st)
  else if s_in st && (ch =? s_ch st) then
    mk_sst (s_out st) (s_cur st ++ [ch]) false (s_ch st) (s_esc st)
  else if (ch =? 59) && negb (s_in st) then
    let cur' := s_cur st ++ [ch] in
    mk_sst (if is_nil (trim cur') then s_out st else s_out st ++ [trim_end_semis cur'])
           [] (s_in st) (s_ch st) (s_esc st)
  else push st ch.

Definition run_chars (st : sst) (l : str) : sst := fold_left step l st.

(** the body of [for line in content.lines()]:
<<
    let trimmed = line.trim();
    if trimmed.starts_with(DASHDASH) || trimmed.is_empty() { continue; }
    for ch in line.chars() { .. }
    if !in_string { current_statement.push(' '); }
>> *)
Definition do_line (st : sst) (line : str) : sst :=
  let t := trim line in
  if starts_dashes t || is_nil t then st
  else
    let st' := run_chars st line in
    if s_in st' then st' else push st' 32.

Definition run_lines (st : sst) (ls : list str) : sst := fold_left do_line ls st.

(** the state after the loop over all lines *)
Definition split_run (content : str) : sst := run_lines sst_init (lines content).

(** [if !current_statement.trim().is_empty() { statements.push(current_statement.trim().to_string()); }] *)
Definition finish (st : sst) : list str :=
  if is_nil (trim (s_cur st)) then s_out st else s_out st ++ [trim (s_cur st)].

(** [parse_sql_statements] (it never returns [Err]) *)
Definition parse_sql_statements (content : str) : list str := finish (split_run content).

(** the scanner ended outside every string literal with no pending escape *)
Definition ends_clean (content : str) : bool :=
  negb (s_in (split_run content)) && negb (s_esc (split_run content)).

(** * Vocabulary of the theorems about string literals (used by Lex/SplitterLaws.v and
    Codec/SqlDumpSpec.v)

    the splitter's view of the body of a ['...'] literal: [e] = "the previous character was an
    unescaped backslash".  A quote of the value (written doubled) or the closing quote must never
    be met in that state. *)
Fixpoint esc_scan (e : bool) (s : str) : bool :=
  match s with
  | [] => negb e
  | c :: r =>
      if e then negb (c =? 39) && esc_scan false r
      else if c =? 92 then esc_scan true r
      else esc_scan false r
  end.
(** every run of backslashes that is followed by a quote or ends the value has even length *)
Definition esc_safe (s : str) : bool := esc_scan false s.
Definition has_nl (s : str) : bool := existsb (Z.eqb 10) s.
