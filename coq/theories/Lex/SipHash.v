(** * Lex/SipHash.v — executable model of [std::collections::hash_map::DefaultHasher] as used by
    [QuerySignature::from_sql] (crates/vibesql-executor/src/cache/query_signature.rs):
<<
    let mut hasher = DefaultHasher::new();   // SipHasher13 with keys (0, 0)
    normalized.hash(&mut hasher);            // impl Hash for str: write(bytes); write_u8(0xff)
    let hash = hasher.finish();
>>
    SipHash-1-3 (one compression round per 8-byte little-endian word, three finalisation rounds) over
    the byte stream [utf8(normalized) ++ [0xff]]; the streaming [write] calls of the Rust hasher are
    equivalent to hashing the concatenation.  All arithmetic is on [Z] reduced modulo 2^64.
    The harness compares [signature] with [QuerySignature::from_sql(text).hash()] on every generated
    text.  No proofs in this file. *)
From Coq Require Import List ZArith Bool.
From VibeSQL Require Import Lex.Normalize.
Import ListNotations.
Open Scope Z_scope.

Definition m64 : Z := 18446744073709551616.
Definition w64 (x : Z) : Z := x mod m64.
Definition add64 (a b : Z) : Z := w64 (a + b).
Definition rotl64 (x b : Z) : Z := Z.lor (w64 (Z.shiftl x b)) (Z.shiftr x (64 - b)).

Record sipstate : Type := mkSip { v0 : Z; v1 : Z; v2 : Z; v3 : Z }.

Definition sipround (s : sipstate) : sipstate :=
  let a0 := add64 (v0 s) (v1 s) in
  let a1 := Z.lxor (rotl64 (v1 s) 13) a0 in
  let a0 := rotl64 a0 32 in
  let a2 := add64 (v2 s) (v3 s) in
  let a3 := Z.lxor (rotl64 (v3 s) 16) a2 in
  let a0 := add64 a0 a3 in
  let a3 := Z.lxor (rotl64 a3 21) a0 in
  let a2 := add64 a2 a1 in
  let a1 := Z.lxor (rotl64 a1 17) a2 in
  let a2 := rotl64 a2 32 in
  mkSip a0 a1 a2 a3.

(** little-endian value of at most eight bytes *)
Fixpoint le_word (bs : list Z) : Z :=
  match bs with [] => 0 | b :: r => b + 256 * le_word r end.

Definition compress (s : sipstate) (m : Z) : sipstate :=
  let s1 := mkSip (v0 s) (v1 s) (v2 s) (Z.lxor (v3 s) m) in
  let s2 := sipround s1 in
  mkSip (Z.lxor (v0 s2) m) (v1 s2) (v2 s2) (v3 s2).

(** absorb full 8-byte words; returns the state and the (< 8) trailing bytes.  [fuel] bounds the
    number of words; [length bs] always suffices. *)
Fixpoint absorb (fuel : nat) (s : sipstate) (bs : list Z) : sipstate * list Z :=
  match fuel with
  | O => (s, bs)
  | S f =>
    match bs with
    | b0 :: b1 :: b2 :: b3 :: b4 :: b5 :: b6 :: b7 :: r =>
      absorb f (compress s (le_word [b0; b1; b2; b3; b4; b5; b6; b7])) r
    | _ => (s, bs)
    end
  end.

Definition sip_init (k0 k1 : Z) : sipstate :=
  mkSip (Z.lxor k0 8317987319222330741) (Z.lxor k1 7237128888997146477)
        (Z.lxor k0 7816392313619706465) (Z.lxor k1 8387220255154660723).

Definition siphash13 (k0 k1 : Z) (bytes : list Z) : Z :=
  let len := Z.of_nat (length bytes) in
  let '(s, tail) := absorb (length bytes) (sip_init k0 k1) bytes in
  let b := Z.lor (Z.shiftl (len mod 256) 56) (le_word tail) in
  let s := compress s b in
  let s := mkSip (v0 s) (v1 s) (Z.lxor (v2 s) 255) (v3 s) in
  let s := sipround (sipround (sipround s)) in
  Z.lxor (Z.lxor (v0 s) (v1 s)) (Z.lxor (v2 s) (v3 s)).

(** [DefaultHasher::new()] then [str::hash] then [finish] *)
Definition default_hash_str (s : list Z) : Z := siphash13 0 0 (utf8 s ++ [255]).

(** [QuerySignature::from_sql(sql).hash()] *)
Definition signature (sql : list Z) : Z := default_hash_str (normalize sql).
