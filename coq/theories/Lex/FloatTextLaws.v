(** The text [f64::to_string] produces for a FINITE float is a plain literal: decimal digits and at most
    one '.', optionally preceded by '-' - no quote, no second '-', never the fuel marker.  Hence the
    lock-step condition [safe] of the structure theorem can only fail for a float when a negative one is
    bound right after a '-'. *)
From Coq Require Import List ZArith Bool Lia.
From VibeSQL Require Import Lex.F64Display Lex.F64DisplayLaws Lex.Placeholder Lex.PlaceholderLaws.
Import ListNotations.
Open Scope Z_scope.

Lemma digit_char_plain : forall d, digit_ok d -> plain_char (48 + d) = true.
Proof.
  intros d [H0 H9]. unfold plain_char, is_quote_char, c_quote, c_dquote, c_btick, c_dash.
  assert (E1 : (48 + d =? 39) = false) by (apply Z.eqb_neq; lia).
  assert (E2 : (48 + d =? 34) = false) by (apply Z.eqb_neq; lia).
  assert (E3 : (48 + d =? 96) = false) by (apply Z.eqb_neq; lia).
  assert (E4 : (48 + d =? 45) = false) by (apply Z.eqb_neq; lia).
  assert (E5 : (0 <=? 48 + d) = true) by (apply Z.leb_le; lia).
  now rewrite E1, E2, E3, E4, E5.
Qed.

Lemma digit_chars_plain : forall ds, Forall digit_ok ds -> forallb plain_char (digit_chars ds) = true.
Proof.
  induction 1 as [|d ds Hd _ IH]; [reflexivity|]. unfold digit_chars in *. cbn [map forallb].
  now rewrite (digit_char_plain d Hd), IH.
Qed.

Lemma zeros_plain : forall n, forallb plain_char (zeros n) = true.
Proof. intros n. unfold zeros. induction (Z.to_nat n) as [|k IH]; [reflexivity|]. cbn [repeat forallb]. now rewrite IH. Qed.

Lemma Forall_skipn' : forall (A : Type) (P : A -> Prop) n (l : list A), Forall P l -> Forall P (skipn n l).
Proof.
  intros A P n. induction n as [|n IH]; intros l H; cbn [skipn]; [assumption|].
  destruct l as [|x l]; [constructor|]. inversion H; subst. now apply IH.
Qed.

Lemma forallb_app' : forall (A : Type) (f : A -> bool) a b, forallb f a = true -> forallb f b = true -> forallb f (a ++ b) = true.
Proof. intros. rewrite forallb_app. now rewrite H, H0. Qed.

Lemma dec_str_plain : forall ds k, Forall digit_ok ds -> ds <> [] ->
  forallb plain_char (digits_to_dec_str ds k) = true /\ digits_to_dec_str ds k <> [].
Proof.
  intros ds k Hd Hne. unfold digits_to_dec_str.
  destruct (k <=? 0).
  - split; [|discriminate]. cbn [app forallb]. change (plain_char 48 && (plain_char 46 && _)) with
      (forallb plain_char (zeros (- k) ++ digit_chars ds)).
    apply forallb_app'; [apply zeros_plain|now apply digit_chars_plain].
  - destruct (k <? Z.of_nat (length ds)).
    + split.
      * apply forallb_app'; [apply digit_chars_plain; now apply Forall_firstn|].
        cbn [app forallb]. change (plain_char 46) with true. cbn [andb].
        apply digit_chars_plain. now apply Forall_skipn'.
      * intros E. apply app_eq_nil in E. destruct E as [_ E]. discriminate.
    + split.
      * apply forallb_app'; [now apply digit_chars_plain|apply zeros_plain].
      * intros E. apply app_eq_nil in E. destruct E as [E _].
        destruct ds; [contradiction|discriminate].
Qed.

Lemma plain_ok_signed : forall (neg : bool) body, forallb plain_char body = true -> body <> [] ->
  plain_ok ((if neg then [45] else []) ++ body) = true.
Proof.
  intros neg body Hb Hne. destruct neg; cbn [app plain_ok].
  - change (45 =? c_dash) with true. cbv iota. destruct body; [contradiction|]. now rewrite Hb.
  - destruct body as [|c r]; [contradiction|]. cbn [forallb] in Hb. apply andb_true_iff in Hb. destruct Hb as [Hc Hr].
    cbn [plain_ok]. destruct (c =? c_dash) eqn:E.
    + unfold plain_char in Hc. rewrite E in Hc. rewrite andb_false_r in Hc. discriminate.
    + now rewrite Hc, Hr.
Qed.

Lemma decode_nonfinite : forall b, f64_finite b = true -> f64_decode b <> DNan /\ f64_decode b <> DInf.
Proof.
  intros b H. unfold f64_finite in H. apply negb_true_iff in H. unfold f64_decode. rewrite H.
  destruct (f64_expf b =? 0).
  - destruct (f64_frac b =? 0); split; discriminate.
  - destruct (f64_frac b + two52 =? two52); split; discriminate.
Qed.

(** every finite binary64 prints as a plain literal *)
Theorem fmt_f64_plain : forall b, 0 <= b < two64 -> f64_finite b = true -> plain_ok (fmt_f64 b) = true.
Proof.
  intros b Hb Hf. destruct (decode_nonfinite b Hf) as [Hn Hi]. unfold fmt_f64.
  destruct (f64_decode b) as [| | |m mi pl e incl] eqn:Hd; try contradiction.
  - now destruct (f64_neg b).
  - destruct (fmt_digits_ok b m mi pl e incl Hb Hd) as [ds [k [Hs [Hdig Hne]]]]. rewrite Hs.
    destruct (dec_str_plain ds k Hdig Hne) as [Hp Hnn]. now apply plain_ok_signed.
Qed.

(** ... so for a finite float the only way to fail [lit_start_ok] is a leading '-' right after a '-' *)
Corollary float_lit_start_ok : forall b st', 0 <= b < two64 -> f64_finite b = true ->
  lit_start_ok st' (lit_of_bval (BDouble b)) = false ->
  st' = SDash /\ f64_neg b = true.
Proof.
  intros b st' Hb Hf H. cbn [lit_of_bval print_value lit_start_ok] in H.
  rewrite (fmt_f64_plain b Hb Hf) in H. cbn [andb] in H.
  destruct st'; try discriminate. split; [reflexivity|].
  destruct (f64_neg b) eqn:En; [reflexivity|]. exfalso.
  destruct (decode_nonfinite b Hf) as [Hn Hi]. unfold fmt_f64 in H. rewrite En in H.
  destruct (f64_decode b) as [| | |m mi pl e incl] eqn:Hd; try contradiction.
  - discriminate.
  - destruct (fmt_digits_ok b m mi pl e incl Hb Hd) as [ds [k [Hs [Hdig Hne]]]]. rewrite Hs in H.
    destruct (dec_str_plain ds k Hdig Hne) as [Hp Hnn]. cbn [app] in H.
    destruct (digits_to_dec_str ds k) as [|c r]; [contradiction|].
    cbn [forallb] in Hp. apply andb_true_iff in Hp. destruct Hp as [Hc _].
    apply negb_false_iff in H. unfold plain_char in Hc. rewrite H in Hc. rewrite andb_false_r in Hc. discriminate.
Qed.

Example fmt_f64_plain_ex :
  fmt_f64 13836183955189006336 (* -2.5 *) = [45; 50; 46; 53] /\ plain_ok (fmt_f64 13836183955189006336) = true.
Proof. vm_compute. split; reflexivity. Qed.

(** * no printed number contains a '?' *)
Definition not_qm (c : Z) : bool := negb (c =? c_qm).

Lemma count_qm_forallb : forall t, forallb not_qm t = true -> count_qm t = O.
Proof.
  induction t as [|c r IH]; [reflexivity|]. cbn [forallb count_qm]. intros H. apply andb_true_iff in H.
  destruct H as [Hc Hr]. unfold not_qm in Hc. apply negb_true_iff in Hc. rewrite Hc. now apply IH.
Qed.

Lemma dec_str_not_qm : forall ds k, Forall digit_ok ds -> forallb not_qm (digits_to_dec_str ds k) = true.
Proof.
  assert (Hdc : forall ds, Forall digit_ok ds -> forallb not_qm (digit_chars ds) = true).
  { induction 1 as [|d ds [H0 H9] _ IH]; [reflexivity|]. unfold digit_chars in *. cbn [map forallb]. rewrite IH.
    unfold not_qm, c_qm. assert (E : (48 + d =? 63) = false) by (apply Z.eqb_neq; lia). now rewrite E. }
  assert (Hz : forall n, forallb not_qm (zeros n) = true).
  { intros n. unfold zeros. induction (Z.to_nat n) as [|j IH]; [reflexivity|]. cbn [repeat forallb]. now rewrite IH. }
  intros ds k Hd. unfold digits_to_dec_str. destruct (k <=? 0).
  - cbn [app forallb]. change (not_qm 48 && (not_qm 46 && _)) with (forallb not_qm (zeros (- k) ++ digit_chars ds)).
    apply forallb_app'; [apply Hz|now apply Hdc].
  - destruct (k <? Z.of_nat (length ds)).
    + apply forallb_app'; [apply Hdc; now apply Forall_firstn|]. cbn [app forallb]. change (not_qm 46) with true.
      cbn [andb]. apply Hdc. now apply Forall_skipn'.
    + apply forallb_app'; [now apply Hdc|apply Hz].
Qed.

Theorem fmt_f64_no_qm : forall b, 0 <= b < two64 -> count_qm (fmt_f64 b) = O.
Proof.
  intros b Hb. apply count_qm_forallb. unfold fmt_f64.
  destruct (f64_decode b) as [| | |m mi pl e incl] eqn:Hd.
  - reflexivity.
  - now destruct (f64_neg b).
  - now destruct (f64_neg b).
  - destruct (fmt_digits_ok b m mi pl e incl Hb Hd) as [ds [k [Hs [Hdig Hne]]]]. rewrite Hs.
    apply forallb_app'; [now destruct (f64_neg b)|now apply dec_str_not_qm].
Qed.

(** what a printed value contributes to the '?' of the bound text: only the '?' of a bound string *)
Definition bval_in_range (v : bval) : Prop :=
  match v with BDouble b | BNumeric b => 0 <= b < two64 | _ => True end.

Theorem print_value_count_qm : forall v, bval_in_range v ->
  count_qm (print_value v) = match v with BVarchar s | BCharacter s => count_qm s | _ => O end.
Proof.
  intros v Hv. destruct v; cbn [print_value bval_in_range] in *;
    try apply count_qm_dec_Z; try (now apply fmt_f64_no_qm); try apply count_qm_quote; try reflexivity.
  now destruct b.
Qed.
