(** * Lex/NormalizeEdits.v — adequacy of the notion "the same text up to white space and case".

    [Lex/Normalize.v] defines [same_query] through word lists and normal forms.  This file gives the
    independent, elementary reading and proves that the two coincide: two (marked) texts have the same
    normal form exactly when one can be turned into the other by a finite sequence of the following
    edits and their inverses, applied anywhere in the text:
    - replace a separator (unprotected white space) by another separator;
    - duplicate a separator next to itself (with any separator);
    - add a separator at the very beginning or at the very end of the text;
    - replace a non-separator by its case-folded expansion.
    The development is generic in the alphabet (plain code points for [normalize], marked code points
    for [normalize_qm]/[same_query]) and is instantiated twice at the end. *)
From Coq Require Import List ZArith Bool Lia Relations.
From VibeSQL Require Import Lex.Normalize Lex.NormalizeLaws.
Import ListNotations.
Open Scope Z_scope.

Section Edits.
  Context {A : Type}.
  Variable sep : A -> bool.
  Variable sp : A.
  Variable lw : A -> list A.
  Hypothesis sp_sep : sep sp = true.
  Hypothesis lw_sep : forall a, sep a = true -> lw a = [a].
  Hypothesis lw_nonnil : forall a, lw a <> [].
  Hypothesis lw_nosep : forall a, sep a = false -> forall d, In d (lw a) -> sep d = false.
  Hypothesis lw_idem : forall a, flat_map lw (lw a) = lw a.

  (** edits that may be applied below any prefix *)
  Inductive stepR : list A -> list A -> Prop :=
  | s_swap : forall l r x y, sep x = true -> sep y = true -> stepR (l ++ x :: r) (l ++ y :: r)
  | s_dup : forall l r x y, sep x = true -> sep y = true -> stepR (l ++ x :: r) (l ++ x :: y :: r)
  | s_trail : forall s x, sep x = true -> stepR s (s ++ [x])
  | s_case : forall l r c, sep c = false -> stepR (l ++ c :: r) (l ++ lw c ++ r).

  (** all edits *)
  Inductive step1 : list A -> list A -> Prop :=
  | s_right : forall a b, stepR a b -> step1 a b
  | s_lead : forall s x, sep x = true -> step1 s (x :: s).

  Definition eqvR : list A -> list A -> Prop := clos_refl_sym_trans _ stepR.
  Definition eqv : list A -> list A -> Prop := clos_refl_sym_trans _ step1.

  Lemma eqvR_eqv : forall a b, eqvR a b -> eqv a b.
  Proof.
    intros a b H. induction H.
    - apply rst_step. apply s_right. assumption.
    - apply rst_refl.
    - apply rst_sym. assumption.
    - eapply rst_trans; eassumption.
  Qed.

  Lemma stepR_prefix : forall p a b, stepR a b -> stepR (p ++ a) (p ++ b).
  Proof.
    intros p a b H. destruct H.
    - rewrite !app_assoc. apply s_swap; assumption.
    - rewrite !app_assoc. apply s_dup; assumption.
    - rewrite app_assoc. apply s_trail. assumption.
    - rewrite (app_assoc p l (c :: r)). rewrite (app_assoc p l (lw c ++ r)). apply s_case. assumption.
  Qed.

  Lemma eqvR_prefix : forall p a b, eqvR a b -> eqvR (p ++ a) (p ++ b).
  Proof.
    intros p a b H. induction H.
    - apply rst_step. apply stepR_prefix. assumption.
    - apply rst_refl.
    - apply rst_sym. assumption.
    - eapply rst_trans; eassumption.
  Qed.

  Lemma eqvR_cons : forall c a b, eqvR a b -> eqvR (c :: a) (c :: b).
  Proof. intros c a b H. exact (eqvR_prefix [c] a b H). Qed.

  (** ** Soundness: every edit preserves the normal form *)
  Notation lwr := (lwr lw).
  Notation nf := (nf sep sp lw).

  Lemma lw_sp : lw sp = [sp].
  Proof. apply lw_sep. exact sp_sep. Qed.

  Lemma lw_nosp : forall a, sep a = false -> ~ In sp (lw a).
  Proof. intros a Ha Hin. pose proof (lw_nosep a Ha sp Hin) as H. rewrite sp_sep in H. discriminate. Qed.

  Lemma nf_iff : forall s1 s2, nf s1 = nf s2 <-> map lwr (words sep s1) = map lwr (words sep s2).
  Proof. exact (nf_char sep sp lw lw_sp lw_nonnil lw_nosp). Qed.

  Lemma words_nil : words sep [] = [].
  Proof. reflexivity. Qed.

  Lemma words_cons_sep : forall c r, sep c = true -> words sep (c :: r) = words sep r.
  Proof. intros c r H. change (c :: r) with ([] ++ c :: r). rewrite words_app_sep by exact H. reflexivity. Qed.

  Lemma words_snoc_sep : forall s x, sep x = true -> words sep (s ++ [x]) = words sep s.
  Proof. intros s x H. rewrite words_app_sep by exact H. rewrite words_nil. apply app_nil_r. Qed.

  Definition F (s : list A) : list (list A) := map lwr (fields sep s).

  Lemma lwr_nonempty : forall w, nonempty (lwr w) = nonempty w.
  Proof.
    intros [|c w]; [reflexivity|]. unfold NormalizeLaws.lwr. cbn [flat_map nonempty].
    destruct (lw c) eqn:E; [exfalso; exact (lw_nonnil c E)|]. reflexivity.
  Qed.

  Lemma words_F : forall s, map lwr (words sep s) = filter nonempty (F s).
  Proof.
    intro s. unfold words, F. generalize (fields sep s). intro l.
    induction l as [|w l IH]; [reflexivity|]. cbn [map filter]. rewrite lwr_nonempty.
    destruct (nonempty w); cbn [map]; rewrite IH; reflexivity.
  Qed.

  Lemma F_cons : forall a s,
    F (a :: s) = if sep a then [] :: F s
                 else match F s with f0 :: fs => (lw a ++ f0) :: fs | [] => [lw a ++ []] end.
  Proof.
    intros a s. unfold F. rewrite fields_cons. destruct (sep a); [reflexivity|].
    destruct (fields sep s) as [|w ws]; reflexivity.
  Qed.

  Lemma F_prefix : forall l s1 s2, F s1 = F s2 -> F (l ++ s1) = F (l ++ s2).
  Proof.
    induction l as [|a l IH]; intros s1 s2 H; [exact H|].
    cbn [app]. rewrite !F_cons. rewrite (IH s1 s2 H). reflexivity.
  Qed.

  Lemma lwr_lw : forall c, lwr (lw c) = lw c.
  Proof. intro c. unfold NormalizeLaws.lwr. apply lw_idem. Qed.

  Lemma F_case : forall c r, sep c = false -> F (c :: r) = F (lw c ++ r).
  Proof.
    intros c r Hc. rewrite F_cons, Hc. unfold F.
    rewrite (fields_app_nosep sep (lw c) r (lw_nosep c Hc)).
    destruct (fields sep r) as [|w ws] eqn:Ef; [exfalso; exact (fields_nonnil sep r Ef)|].
    cbn [map]. rewrite (lwr_app lw). rewrite lwr_lw. reflexivity.
  Qed.

  Lemma stepR_sound : forall a b, stepR a b -> nf a = nf b.
  Proof.
    intros a b H. apply nf_iff. destruct H.
    - rewrite !words_app_sep by assumption. reflexivity.
    - rewrite (words_app_sep sep l r x) by assumption.
      change (l ++ x :: y :: r) with (l ++ x :: ([] ++ y :: r)).
      rewrite (words_app_sep sep l ([] ++ y :: r) x) by assumption.
      rewrite (words_app_sep sep [] r y) by assumption. reflexivity.
    - rewrite words_snoc_sep by assumption. reflexivity.
    - rewrite !words_F. f_equal. apply F_prefix. apply F_case. assumption.
  Qed.

  Lemma step1_sound : forall a b, step1 a b -> nf a = nf b.
  Proof.
    intros a b H. destruct H.
    - apply stepR_sound. assumption.
    - apply nf_iff. rewrite words_cons_sep by assumption. reflexivity.
  Qed.

  Theorem eqv_sound : forall a b, eqv a b -> nf a = nf b.
  Proof.
    intros a b H. induction H.
    - apply step1_sound. assumption.
    - reflexivity.
    - symmetry. assumption.
    - etransitivity; eassumption.
  Qed.

  (** ** Completeness: every text can be edited into its normal form *)
  Lemma eqvR_lwr_prefix : forall x pre, eqvR (pre ++ x) (pre ++ lwr x).
  Proof.
    induction x as [|c x IH]; intro pre; [apply rst_refl|].
    unfold NormalizeLaws.lwr. cbn [flat_map]. fold (lwr x).
    destruct (sep c) eqn:Ec.
    - rewrite (lw_sep c Ec). cbn [app].
      change (pre ++ c :: x) with (pre ++ [c] ++ x). change (pre ++ c :: lwr x) with (pre ++ [c] ++ lwr x).
      rewrite !app_assoc. apply IH.
    - eapply rst_trans.
      + apply rst_step. apply s_case. exact Ec.
      + rewrite !app_assoc. apply IH.
  Qed.

  Lemma eqvR_lwr : forall x, eqvR x (lwr x).
  Proof. intro x. exact (eqvR_lwr_prefix x []). Qed.

  Definition hd_sep (s : list A) : bool := match s with c :: _ => sep c | [] => false end.
  Definition canon (s : list A) : list A := join sp (words sep s).
  Definition canonL (s : list A) : list A := if hd_sep s then sp :: canon s else canon s.

  Lemma words_cons_nosep_sep : forall c r, sep c = false -> hd_sep r = true ->
    words sep (c :: r) = [c] :: words sep r.
  Proof.
    intros c r Hc Hr. destruct r as [|d r]; [discriminate|]. cbn in Hr.
    unfold words. rewrite (fields_cons sep c (d :: r)), Hc. rewrite (fields_cons sep d r), Hr.
    reflexivity.
  Qed.

  Lemma words_cons_nosep_nosep : forall c d r, sep c = false -> sep d = false ->
    exists w ws, words sep (d :: r) = w :: ws /\ words sep (c :: d :: r) = (c :: w) :: ws.
  Proof.
    intros c d r Hc Hd. unfold words.
    rewrite (fields_cons sep c (d :: r)), Hc. rewrite (fields_cons sep d r), Hd.
    destruct (fields sep r) as [|w0 ws0] eqn:Ef; [exfalso; exact (fields_nonnil sep r Ef)|].
    cbn [filter nonempty]. eexists. eexists. split; reflexivity.
  Qed.

  Lemma words_single : forall c, sep c = false -> words sep [c] = [[c]].
  Proof. intros c Hc. unfold words. rewrite fields_cons, Hc. reflexivity. Qed.

  Lemma eqvR_canonL : forall s, eqvR s (canonL s).
  Proof.
    induction s as [|c r IH]; [apply rst_refl|].
    unfold canonL at 1. cbn [hd_sep]. destruct (sep c) eqn:Ec.
    - (* a separator in front *)
      unfold canon. rewrite (words_cons_sep c r Ec). fold (canon r).
      eapply rst_trans; [apply eqvR_cons; exact IH|].
      unfold canonL. destruct (hd_sep r).
      + (* c :: sp :: canon r  ~  sp :: canon r *)
        eapply rst_trans.
        * apply rst_sym. apply rst_step. exact (s_dup [] (canon r) c sp Ec sp_sep).
        * apply rst_step. exact (s_swap [] (canon r) c sp Ec sp_sep).
      + apply rst_step. exact (s_swap [] (canon r) c sp Ec sp_sep).
    - (* a non-separator in front *)
      eapply rst_trans; [apply eqvR_cons; exact IH|].
      unfold canonL. destruct (hd_sep r) eqn:Hr.
      + unfold canon. rewrite (words_cons_nosep_sep c r Ec Hr).
        destruct (words sep r) as [|w ws] eqn:Ew.
        * (* [c; sp] ~ [c] *)
          cbn [join]. apply rst_sym. apply rst_step. exact (s_trail [c] sp sp_sep).
        * cbn [join app]. apply rst_refl.
      + destruct r as [|d r'].
        * unfold canon. rewrite (words_single c Ec). cbn. apply rst_refl.
        * cbn in Hr.
          destruct (words_cons_nosep_nosep c d r' Ec Hr) as [w [ws [E1 E2]]].
          unfold canon. rewrite E1, E2. destruct ws; cbn [join app]; apply rst_refl.
  Qed.

  Lemma eqv_canon : forall s, eqv s (canon s).
  Proof.
    intro s. eapply rst_trans; [apply eqvR_eqv; apply eqvR_canonL|].
    unfold canonL. destruct (hd_sep s).
    - apply rst_sym. apply rst_step. apply s_lead. exact sp_sep.
    - apply rst_refl.
  Qed.

  Lemma eqv_nf : forall s, eqv s (nf s).
  Proof.
    intro s. eapply rst_trans; [apply eqv_canon|]. apply eqvR_eqv. apply eqvR_lwr.
  Qed.

  Theorem eqv_iff_nf : forall s1 s2, eqv s1 s2 <-> nf s1 = nf s2.
  Proof.
    intros s1 s2. split; [apply eqv_sound|].
    intro H. eapply rst_trans; [apply eqv_nf|]. rewrite H. apply rst_sym. apply eqv_nf.
  Qed.
End Edits.

(** ** Instance 1: plain texts and the coded normaliser: [normalize] identifies exactly the texts that are
    equal up to white space and case EVERYWHERE (inside literals and comments too) *)
Definition text_eqv : list Z -> list Z -> Prop := eqv is_ws lower_cp.

Theorem normalize_iff_edits : forall s1 s2, text_eqv s1 s2 <-> normalize s1 = normalize s2.
Proof.
  intros s1 s2. unfold text_eqv, normalize, to_lower, join_sp, split_ws.
  exact (eqv_iff_nf is_ws 32 lower_cp is_ws_32 lower_cp_ws lower_cp_nonnil
                    (fun a Ha d Hd => lower_cp_nonws a d Ha Hd) lower_cp_idem s1 s2).
Qed.

(** ** Instance 2: marked texts: [same_query] holds exactly when the two classified texts are connected by
    white-space and case edits OUTSIDE protected regions (a protected code point is never a separator
    and is its own case folding, so no edit touches it) *)
Definition marked_eqv : list item -> list item -> Prop := eqv msep mlower_item.

Lemma msep_sp : msep (32, false) = true.
Proof. reflexivity. Qed.

Lemma mlower_item_sep : forall it, msep it = true -> mlower_item it = [it].
Proof.
  intros [c p] H. unfold msep, mlower_item in *. cbn [fst snd] in *. destruct p; [discriminate|].
  cbn in H. rewrite (lower_cp_ws c H). reflexivity.
Qed.

Lemma mlower_item_nosep : forall it, msep it = false -> forall d, In d (mlower_item it) -> msep d = false.
Proof.
  intros [c p] H d Hd. unfold msep, mlower_item in *. cbn [fst snd] in *. destruct p.
  - destruct Hd as [Hd|[]]. subst. reflexivity.
  - cbn in H. apply in_map_iff in Hd. destruct Hd as [x [Hx Hin]]. subst d. unfold unprot. cbn.
    exact (lower_cp_nonws c x H Hin).
Qed.

Lemma mlower_item_idem : forall it, flat_map mlower_item (mlower_item it) = mlower_item it.
Proof.
  intros [c p]. unfold mlower_item at 2 3. cbn [fst snd]. destruct p.
  - cbn. reflexivity.
  - rewrite <- (lower_cp_idem c) at 2.
    generalize (lower_cp c). intro l. induction l as [|x l IH]; [reflexivity|].
    cbn [map flat_map]. rewrite IH. unfold mlower_item at 1. cbn [unprot fst snd]. rewrite map_app. reflexivity.
Qed.

Theorem same_query_iff_edits : forall s1 s2, same_query s1 s2 <-> marked_eqv (classify s1) (classify s2).
Proof.
  intros s1 s2. rewrite <- normalize_qm_char. unfold normalize_qm, mnormalize, mlower, marked_eqv. symmetry.
  exact (eqv_iff_nf msep (32, false) mlower_item msep_sp mlower_item_sep mlower_item_nonnil
                    mlower_item_nosep mlower_item_idem (classify s1) (classify s2)).
Qed.

(** protected code points are invariant under the edits: they are never separators and fold to themselves *)
Example protected_untouched : forall c, msep (c, true) = false /\ mlower_item (c, true) = [(c, true)].
Proof. intro c. split; reflexivity. Qed.

(** the hypotheses are satisfiable by a non-trivial pair: "SELECT  'a  B'" and " select 'a  B'" are
    connected by edits (same query), while "select 'a b'" is not connected to them *)
Example edits_example :
  same_query [83;69;76;69;67;84;32;32;39;97;32;32;66;39] [32;115;101;108;101;99;116;32;39;97;32;32;66;39]
  /\ ~ marked_eqv (classify [83;69;76;69;67;84;32;32;39;97;32;32;66;39])
                  (classify [115;101;108;101;99;116;32;39;97;32;98;39]).
Proof.
  split.
  - apply same_query_iff_map. vm_compute. reflexivity.
  - intro H. apply same_query_iff_edits in H. apply same_query_iff_map in H. vm_compute in H. discriminate.
Qed.
