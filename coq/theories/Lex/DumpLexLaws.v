(** Laws of the small lexer model (Lex/DumpLex.v): how the pieces a dump statement is made of are
    tokenised.  Each "chunk" lemma has the shape

      lex (S f) (chunk ++ rest) = tcons token (lex f rest)

    for every fuel [f]; [lexes] packages the fuel bookkeeping so that statement-level results
    compose by plain induction on the statement.  The headline fact is [scan_quoted_roundtrip]:
    a string literal written with doubled quotes reads back as the original string, for EVERY
    string (backslashes, newlines, semicolons and dashes included: the lexer has no escapes). *)
From Coq Require Import Strings.String.
From Coq Require Import List ZArith Bool Lia.
From VibeSQL Require Import Value.Dec Value.DecLaws Value.RStr Value.RStrLaws Generated.Consts.
From VibeSQL Require Import Lex.DumpLex.
Import ListNotations.
Open Scope Z_scope.

(** the value with its quotes doubled (the definition of [sql_quote], Codec/SqlLiteral.v) *)
Definition dq (s : str) : str := flat_map (fun c => if c =? 39 then [39; 39] else [c]) s.

Lemma dq_cons x r : dq (x :: r) = (if x =? 39 then [39; 39] else [x]) ++ dq r.
Proof. reflexivity. Qed.

(** * String literals: for every string *)
Theorem scan_quoted_roundtrip s : forall rest,
  (match rest with 39 :: _ => False | _ => True end) ->
  scan_quoted 39 (dq s ++ 39 :: rest) = Some (s, rest).
Proof.
  induction s as [|x s IH]; intros rest Hr.
  - cbn [dq flat_map app scan_quoted]. rewrite Z.eqb_refl.
    destruct rest as [|c2 r2]; [reflexivity|].
    destruct (Z.eqb_spec c2 39) as [->|N]; [contradiction | reflexivity].
  - rewrite dq_cons. destruct (Z.eqb_spec x 39) as [->|N].
    + cbn [app scan_quoted]. rewrite !Z.eqb_refl, IH by exact Hr. reflexivity.
    + cbn [app scan_quoted]. apply Z.eqb_neq in N. rewrite N, IH by exact Hr. reflexivity.
Qed.

Example scan_quoted_ex :
  scan_quoted 39 (dq [92; 39; 10; 45; 45; 59] ++ 39 :: [44; 32]) = Some ([92; 39; 10; 45; 45; 59], [44; 32]).
Proof. reflexivity. Qed.

(** without the side condition the statement is false: a following quote is read as a doubled one *)
Lemma scan_quoted_needs_boundary : scan_quoted 39 (dq [97] ++ 39 :: [39; 98; 39]) = Some ([97; 39; 98], []).
Proof. reflexivity. Qed.

(** * Fuel bookkeeping *)
Definition lexes (s : str) (ts : list tok) : Prop :=
  forall f, (length s <= f)%nat -> lex (S f) s = LOk ts.

Lemma lexes_nil : lexes [] [].
Proof. intros f _. reflexivity. Qed.

Lemma lexes_all s ts : lexes s ts -> lex_all s = LOk ts.
Proof. intros H. apply H. lia. Qed.

Lemma lexes_step chunk r t ts :
  chunk <> [] ->
  (forall f, lex (S f) (chunk ++ r) = tcons t (lex f r)) ->
  lexes r ts -> lexes (chunk ++ r) (t :: ts).
Proof.
  intros Hne Hstep Hr f Hf. rewrite Hstep.
  rewrite app_length in Hf. destruct chunk; [congruence|]. cbn [length] in Hf.
  destruct f as [|f']; [lia|]. rewrite Hr by lia. reflexivity.
Qed.

(** a blank before a token is skipped *)
Lemma lex_space f s : lex (S f) (32 :: s) = lex (S f) s.
Proof. reflexivity. Qed.

Lemma lexes_space s ts : lexes s ts -> lexes (32 :: s) ts.
Proof. intros H f Hf. rewrite lex_space. apply H. cbn [length] in Hf. lia. Qed.

(** * Punctuation *)
Lemma lex_comma f r : lex (S f) (44 :: r) = tcons TComma (lex f r).
Proof. reflexivity. Qed.
Lemma lex_lparen f r : lex (S f) (40 :: r) = tcons TLParen (lex f r).
Proof. reflexivity. Qed.
Lemma lex_rparen f r : lex (S f) (41 :: r) = tcons TRParen (lex f r).
Proof. reflexivity. Qed.
Lemma lex_semi f r : lex (S f) (59 :: r) = tcons TSemi (lex f r).
Proof. reflexivity. Qed.

Lemma lexes_comma r ts : lexes r ts -> lexes (44 :: r) (TComma :: ts).
Proof. apply (lexes_step [44]); [discriminate | intros; apply lex_comma]. Qed.
Lemma lexes_lparen r ts : lexes r ts -> lexes (40 :: r) (TLParen :: ts).
Proof. apply (lexes_step [40]); [discriminate | intros; apply lex_lparen]. Qed.
Lemma lexes_rparen r ts : lexes r ts -> lexes (41 :: r) (TRParen :: ts).
Proof. apply (lexes_step [41]); [discriminate | intros; apply lex_rparen]. Qed.

(** a minus sign that does not start a comment *)
Lemma lex_minus f r :
  (match r with 45 :: _ => False | _ => True end) -> lex (S f) (45 :: r) = tcons (TSym 45) (lex f r).
Proof.
  intros H. cbn [lex skip_wc]. cbn [is_ws Z.leb Z.eqb Z.compare Pos.compare Pos.compare_cont Pos.eqb andb orb].
  destruct r as [|c r']; [reflexivity|].
  destruct c; try reflexivity. destruct p; try reflexivity. repeat (destruct p; try reflexivity). contradiction.
Qed.

(** * Words (keywords and identifiers) *)

(** the character ends a word and is ASCII (or the text ends) *)
Definition word_stop (r : str) : Prop :=
  match r with [] => True | x :: _ => is_word_char x = false /\ x < 128 end.

Lemma span_app p w r :
  forallb p w = true -> (match r with [] => True | x :: _ => p x = false end) -> span p (w ++ r) = (w, r).
Proof.
  intros Hw Hr. induction w as [|c w IH].
  - cbn [app]. destruct r as [|x r']; [reflexivity|]. cbn [span]. rewrite Hr. reflexivity.
  - cbn [forallb] in Hw. apply andb_true_iff in Hw as [Hc Hw]. cbn [app span]. rewrite Hc, IH by exact Hw. reflexivity.
Qed.

Definition word_start (c : Z) : bool := is_ascii_alpha c || (c =? 95).

Lemma word_start_facts c : word_start c = true ->
  is_ws c = false /\ c <> 45 /\ c <> 59 /\ c <> 44 /\ c <> 40 /\ c <> 41 /\ c <> 46 /\ c <> 39 /\ c <> 34 /\ c <> 96
  /\ is_digit c = false
  /\ ((c =? 61) || (c =? 60) || (c =? 62) || (c =? 33) || (c =? 124) || (c =? 64)) = false
  /\ ((c =? 43) || (c =? 45) || (c =? 42) || (c =? 47)) = false
  /\ is_word_char c = true.
Proof.
  intros H.
  assert (R : (65 <= c <= 90) \/ (97 <= c <= 122) \/ c = 95).
  { unfold word_start, is_ascii_alpha in H.
    rewrite !orb_true_iff, !andb_true_iff, !Z.leb_le, Z.eqb_eq in H. tauto. }
  assert (E : forall k, (k < 65 \/ 90 < k < 95 \/ k = 96 \/ 122 < k) -> (c =? k) = false)
    by (intros k Hk; apply Z.eqb_neq; lia).
  split.
  { unfold is_ws. rewrite !(E 32), !(E 133), !(E 160), !(E 5760), !(E 8232), !(E 8233), !(E 8239), !(E 8287), !(E 12288) by lia.
    replace (c <=? 13) with false by (symmetry; apply Z.leb_gt; lia).
    replace (8192 <=? c) with false by (symmetry; apply Z.leb_gt; lia).
    rewrite !andb_false_r. reflexivity. }
  repeat (split; [lia|]).
  split. { unfold is_digit. replace (c <=? 57) with false by (symmetry; apply Z.leb_gt; lia). apply andb_false_r. }
  split. { rewrite !E by lia. reflexivity. }
  split. { rewrite !E by lia. reflexivity. }
  unfold is_word_char, is_ascii_alpha, is_digit.
  rewrite !orb_true_iff, !andb_true_iff, !Z.leb_le, Z.eqb_eq. lia.
Qed.

Lemma lex_word f c w r :
  word_start c = true -> forallb is_word_char w = true -> word_stop r ->
  lex (S f) ((c :: w) ++ r) = tcons (map_keyword (map ascii_upper (c :: w))) (lex f r).
Proof.
  intros Hc Hw Hr.
  destruct (word_start_facts c Hc) as (Hws & N45 & N59 & N44 & N40 & N41 & N46 & N39 & N34 & N96 & Hdig & Hop & Hsym & Hwc).
  cbn [app lex skip_wc]. rewrite Hws.
  replace ((c =? 45) && _) with false by (apply Z.eqb_neq in N45; rewrite N45; reflexivity).
  apply Z.eqb_neq in N59, N44, N40, N41, N46, N39, N34, N96.
  rewrite N59, N44, N40, N41, Hop, N46, Hsym, N39, N34, N96. cbn [orb]. rewrite Hdig.
  unfold word_start in Hc. rewrite Hc.
  assert (Sp : span is_word_char (c :: w ++ r) = (c :: w, r)).
  { apply (span_app is_word_char (c :: w) r).
    - cbn [forallb]. rewrite Hwc, Hw. reflexivity.
    - destruct r as [|x r']; [exact I | apply Hr]. }
  rewrite Sp. destruct r as [|x r']; [reflexivity|].
  destruct Hr as [_ Hx]. replace (128 <=? x) with false by (symmetry; apply Z.leb_gt; lia). reflexivity.
Qed.

Lemma lexes_word c w r ts :
  word_start c = true -> forallb is_word_char w = true -> word_stop r ->
  lexes r ts -> lexes ((c :: w) ++ r) (map_keyword (map ascii_upper (c :: w)) :: ts).
Proof.
  intros Hc Hw Hr. apply lexes_step; [discriminate|]. intros f. apply lex_word; assumption.
Qed.

(** * Numbers: digits, optionally a point and more digits *)

(** the next character cannot continue a number *)
Definition num_stop (r : str) : Prop :=
  match r with [] => True | x :: _ => is_digit x = false /\ x <> 46 /\ x <> 69 /\ x <> 101 end.

Lemma num_body_digits ds r hd :
  forallb is_digit ds = true ->
  (match r with [] => True | x :: _ => is_digit x = false /\ (x <> 46 \/ hd = true) end) ->
  num_body hd (ds ++ r) = (ds, r).
Proof.
  intros Hd Hr. induction ds as [|c ds IH].
  - cbn [app]. destruct r as [|x r']; [reflexivity|]. cbn [num_body]. destruct Hr as [Hx Hdot]. rewrite Hx.
    destruct Hdot as [N| ->].
    + apply Z.eqb_neq in N. rewrite N. reflexivity.
    + rewrite andb_false_r. reflexivity.
  - cbn [forallb] in Hd. apply andb_true_iff in Hd as [Hc Hd]. cbn [app num_body]. rewrite Hc, IH by exact Hd. reflexivity.
Qed.

(** the decimal texts: [ip] or [ip.fp] with non-empty digit strings *)
Definition is_decimal (s : str) : bool :=
  let '(ip, r) := span is_digit s in
  negb (is_nil ip) &&
  match r with
  | [] => true
  | c :: fp => (c =? 46) && negb (is_nil fp) && forallb is_digit fp
  end.

Lemma span_split p s : forall a b, span p s = (a, b) -> s = a ++ b /\ forallb p a = true
                                    /\ (match b with [] => True | x :: _ => p x = false end).
Proof.
  induction s as [|c s IH]; intros a b H.
  - cbn in H. inversion H; subst. repeat split.
  - cbn [span] in H. destruct (p c) eqn:Hc.
    + destruct (span p s) as [a' b'] eqn:E. inversion H; subst. destruct (IH a' b eq_refl) as (-> & Ha & Hb).
      repeat split; [cbn [forallb]; rewrite Hc, Ha; reflexivity | exact Hb].
    + inversion H; subst. repeat split. exact Hc.
Qed.

Lemma is_decimal_inv s : is_decimal s = true ->
  exists ip, ip <> [] /\ forallb is_digit ip = true
             /\ (s = ip \/ exists fp, fp <> [] /\ forallb is_digit fp = true /\ s = ip ++ 46 :: fp).
Proof.
  unfold is_decimal. destruct (span is_digit s) as [ip r] eqn:E. intros H.
  destruct (span_split _ _ _ _ E) as (-> & Hip & _).
  apply andb_true_iff in H as [Hne H]. exists ip. split; [destruct ip; [discriminate | discriminate]|].
  split; [exact Hip|]. destruct r as [|c fp].
  - left. rewrite app_nil_r. reflexivity.
  - apply andb_true_iff in H as [H Hfp]. apply andb_true_iff in H as [Hc Hne2]. apply Z.eqb_eq in Hc. subst c.
    right. exists fp. split; [destruct fp; [discriminate | discriminate]|]. split; [exact Hfp | reflexivity].
Qed.

Lemma num_body_frac ds fp r :
  forallb is_digit ds = true -> forallb is_digit fp = true -> num_stop r ->
  num_body false (ds ++ 46 :: fp ++ r) = (ds ++ 46 :: fp, r).
Proof.
  intros Hds Hfp Hr. induction ds as [|c ds IH].
  - cbn [app num_body]. change (is_digit 46) with false. cbn [Z.eqb Pos.eqb negb andb].
    rewrite (num_body_digits fp r true); [reflexivity | exact Hfp |].
    destruct r as [|x r']; [exact I|]. destruct Hr as (Hx & _). split; [exact Hx | right; reflexivity].
  - cbn [forallb] in Hds. apply andb_true_iff in Hds as [Hc Hds]. cbn [app num_body]. rewrite Hc, IH by exact Hds. reflexivity.
Qed.

Lemma num_body_decimal s r : is_decimal s = true -> num_stop r -> num_body false (s ++ r) = (s, r).
Proof.
  intros H Hr. destruct (is_decimal_inv s H) as (ip & Hne & Hip & [-> | (fp & Hfne & Hfp & ->)]).
  - apply num_body_digits; [exact Hip|]. destruct r as [|x r']; [exact I|].
    destruct Hr as (Hx & N46 & _). split; [exact Hx | left; exact N46].
  - rewrite <- app_assoc. cbn [app]. apply num_body_frac; assumption.
Qed.

Lemma is_decimal_head s : is_decimal s = true -> exists d t, s = d :: t /\ is_digit d = true.
Proof.
  intros H. destruct (is_decimal_inv s H) as (ip & Hne & Hip & Hs).
  destruct ip as [|d ip']; [congruence|]. cbn [forallb] in Hip. apply andb_true_iff in Hip as [Hd _].
  destruct Hs as [-> | (fp & _ & _ & ->)]; eexists _, _; (split; [reflexivity | exact Hd]).
Qed.

Lemma digit_facts d : is_digit d = true ->
  is_ws d = false /\ d <> 45 /\ d <> 59 /\ d <> 44 /\ d <> 40 /\ d <> 41 /\ d <> 46 /\ d <> 39 /\ d <> 34 /\ d <> 96
  /\ ((d =? 61) || (d =? 60) || (d =? 62) || (d =? 33) || (d =? 124) || (d =? 64)) = false
  /\ ((d =? 43) || (d =? 45) || (d =? 42) || (d =? 47)) = false.
Proof.
  unfold is_digit. rewrite andb_true_iff, !Z.leb_le. intros R.
  assert (E : forall k, (k < 48 \/ 57 < k) -> (d =? k) = false) by (intros k Hk; apply Z.eqb_neq; lia).
  split.
  { unfold is_ws. rewrite !(E 32), !(E 133), !(E 160), !(E 5760), !(E 8232), !(E 8233), !(E 8239), !(E 8287), !(E 12288) by lia.
    replace (d <=? 13) with false by (symmetry; apply Z.leb_gt; lia).
    replace (8192 <=? d) with false by (symmetry; apply Z.leb_gt; lia).
    rewrite !andb_false_r. reflexivity. }
  repeat (split; [lia|]).
  first [ lia | split; (rewrite !E by lia); reflexivity ].
Qed.

Lemma scan_number_decimal s r :
  is_decimal s = true -> num_stop r -> scan_number (s ++ r) = Some (s, r).
Proof.
  intros H Hr. destruct (is_decimal_head s H) as (d & t & E & Hd). subst s.
  destruct (digit_facts d Hd) as (_ & _ & _ & _ & _ & _ & N46 & _).
  pose proof (num_body_decimal (d :: t) r H Hr) as B. cbn [app] in B |- *.
  unfold scan_number. apply Z.eqb_neq in N46. rewrite N46, B.
  destruct r as [|e r']; [reflexivity|]. destruct Hr as (_ & _ & N69 & N101).
  apply Z.eqb_neq in N69, N101. rewrite N69, N101. reflexivity.
Qed.

Lemma lex_number f s r :
  is_decimal s = true -> num_stop r -> lex (S f) (s ++ r) = tcons (TNum s) (lex f r).
Proof.
  intros H Hr. destruct (is_decimal_head s H) as (d & t & E & Hd). subst s.
  destruct (digit_facts d Hd) as (Hws & N45 & N59 & N44 & N40 & N41 & N46 & N39 & N34 & N96 & Hop & Hsym).
  pose proof (scan_number_decimal (d :: t) r H Hr) as Sc. cbn [app] in Sc |- *.
  cbn [lex skip_wc]. rewrite Hws.
  replace ((d =? 45) && _) with false by (apply Z.eqb_neq in N45; rewrite N45; reflexivity).
  apply Z.eqb_neq in N59, N44, N40, N41, N46, N39, N34, N96.
  rewrite N59, N44, N40, N41, Hop, N46, Hsym, N39, N34, N96. cbn [orb]. rewrite Hd, Sc. reflexivity.
Qed.

Lemma lexes_number s r ts :
  is_decimal s = true -> num_stop r -> lexes r ts -> lexes (s ++ r) (TNum s :: ts).
Proof.
  intros H Hr. apply lexes_step; [|intros f; apply lex_number; assumption].
  destruct (is_decimal_head s H) as (d & t & -> & _). discriminate.
Qed.

(** * String literals *)
Lemma lex_string f s r :
  (match r with 39 :: _ => False | _ => True end) ->
  lex (S f) ((39 :: dq s ++ [39]) ++ r) = tcons (TStr s) (lex f r).
Proof.
  intros Hr. cbn [app]. rewrite <- app_assoc. cbn [app lex skip_wc].
  change (is_ws 39) with false. cbn [Z.eqb Pos.eqb andb orb].
  rewrite scan_quoted_roundtrip by exact Hr. reflexivity.
Qed.

Lemma lexes_string s r ts :
  (match r with 39 :: _ => False | _ => True end) ->
  lexes r ts -> lexes ((39 :: dq s ++ [39]) ++ r) (TStr s :: ts).
Proof. intros Hr. apply lexes_step; [discriminate | intros f; apply lex_string; exact Hr]. Qed.

(** * Keyword table facts used by the statement-level proofs (recomputed from the regenerated
    table on every build: if keywords.rs renames one of these variants the proofs stop) *)
Lemma kw_insert : map_keyword (map ascii_upper (lit "INSERT")) = TKw (lit "Insert"). Proof. vm_compute. reflexivity. Qed.
Lemma kw_into : map_keyword (map ascii_upper (lit "INTO")) = TKw (lit "Into"). Proof. vm_compute. reflexivity. Qed.
Lemma kw_values : map_keyword (map ascii_upper (lit "VALUES")) = TKw (lit "Values"). Proof. vm_compute. reflexivity. Qed.
Lemma kw_create : map_keyword (map ascii_upper (lit "CREATE")) = TKw (lit "Create"). Proof. vm_compute. reflexivity. Qed.
Lemma kw_table : map_keyword (map ascii_upper (lit "TABLE")) = TKw (lit "Table"). Proof. vm_compute. reflexivity. Qed.
Lemma kw_null : map_keyword (map ascii_upper (lit "NULL")) = TKw (lit "Null"). Proof. vm_compute. reflexivity. Qed.
Lemma kw_not : map_keyword (map ascii_upper (lit "NOT")) = TKw (lit "Not"). Proof. vm_compute. reflexivity. Qed.
Lemma kw_true : map_keyword (map ascii_upper (lit "TRUE")) = TKw (lit "True"). Proof. vm_compute. reflexivity. Qed.
Lemma kw_false : map_keyword (map ascii_upper (lit "FALSE")) = TKw (lit "False"). Proof. vm_compute. reflexivity. Qed.
Lemma kw_date : map_keyword (map ascii_upper (lit "DATE")) = TKw (lit "Date"). Proof. vm_compute. reflexivity. Qed.
Lemma kw_time : map_keyword (map ascii_upper (lit "TIME")) = TKw (lit "Time"). Proof. vm_compute. reflexivity. Qed.
Lemma kw_timestamp : map_keyword (map ascii_upper (lit "TIMESTAMP")) = TKw (lit "Timestamp"). Proof. vm_compute. reflexivity. Qed.
Lemma kw_with : map_keyword (map ascii_upper (lit "WITH")) = TKw (lit "With"). Proof. vm_compute. reflexivity. Qed.
Lemma kw_zone : map_keyword (map ascii_upper (lit "ZONE")) = TKw (lit "Zone"). Proof. vm_compute. reflexivity. Qed.
Lemma kw_boolean : map_keyword (map ascii_upper (lit "BOOLEAN")) = TKw (lit "Boolean"). Proof. vm_compute. reflexivity. Qed.
Lemma id_integer : map_keyword (map ascii_upper (lit "INTEGER")) = TIdent (lit "INTEGER"). Proof. vm_compute. reflexivity. Qed.
Lemma id_smallint : map_keyword (map ascii_upper (lit "SMALLINT")) = TIdent (lit "SMALLINT"). Proof. vm_compute. reflexivity. Qed.
Lemma id_bigint : map_keyword (map ascii_upper (lit "BIGINT")) = TIdent (lit "BIGINT"). Proof. vm_compute. reflexivity. Qed.
Lemma id_float : map_keyword (map ascii_upper (lit "FLOAT")) = TIdent (lit "FLOAT"). Proof. vm_compute. reflexivity. Qed.
Lemma id_real : map_keyword (map ascii_upper (lit "REAL")) = TIdent (lit "REAL"). Proof. vm_compute. reflexivity. Qed.
Lemma id_double : map_keyword (map ascii_upper (lit "DOUBLE")) = TIdent (lit "DOUBLE"). Proof. vm_compute. reflexivity. Qed.
Lemma id_precision : map_keyword (map ascii_upper (lit "PRECISION")) = TIdent (lit "PRECISION"). Proof. vm_compute. reflexivity. Qed.
Lemma id_varchar : map_keyword (map ascii_upper (lit "VARCHAR")) = TIdent (lit "VARCHAR"). Proof. vm_compute. reflexivity. Qed.
Lemma id_char : map_keyword (map ascii_upper (lit "CHAR")) = TIdent (lit "CHAR"). Proof. vm_compute. reflexivity. Qed.
Lemma id_numeric : map_keyword (map ascii_upper (lit "NUMERIC")) = TIdent (lit "NUMERIC"). Proof. vm_compute. reflexivity. Qed.
