(** Laws of the repaired binder ([Lex/PlaceholderFixed.v]).

    1. the switch with both repairs off is the code as it is;
    2. the repaired binder accepts exactly the calls the specification binder accepts and writes the
       same literals at the same placeholders, each between two spaces ([bind_fixed_spec]);
    3. with the literals between spaces the token structure is preserved for EVERY template and
       every list of literals ([structure_preserved_padded]): no side condition is left. *)
From Coq Require Import List ZArith Bool Lia.
From VibeSQL Require Import Lex.F64Display Lex.Placeholder Lex.PlaceholderLaws Lex.PlaceholderFixed.
Import ListNotations.
Open Scope Z_scope.

Lemma bind_parameters_v_off : forall sql ps, bind_parameters_v false false sql ps = bind_parameters sql ps.
Proof. reflexivity. Qed.

Lemma process_v_off : forall sql ps, process_v false false sql ps = process sql ps.
Proof. intros sql [ps|]; reflexivity. Qed.

(** * 2. same literals as the specification *)
Lemma slit_of_py_none : forall p, slit_of_py p = None <-> spec_literal p = None.
Proof.
  intros p. destruct p as [|z|b|b|s|]; cbn [slit_of_py spec_literal]; try (split; intros; congruence).
  - destruct (in_i64 z); split; intros; congruence.
  - destruct (f64_finite b); split; intros; congruence.
  - destruct (has_surrogate s); split; intros; congruence.
Qed.

Lemma slit_of_py_text : forall p l, slit_of_py p = Some l -> spec_literal p = Some (lit_text l).
Proof.
  intros p l H. destruct p as [|z|b|b|s|]; cbn [slit_of_py spec_literal] in *.
  - inversion H; reflexivity.
  - destruct (in_i64 z); inversion H; reflexivity.
  - inversion H; reflexivity.
  - destruct (f64_finite b); inversion H; reflexivity.
  - destruct (has_surrogate s); inversion H; reflexivity.
  - discriminate.
Qed.

Lemma slits_none_unbindable : forall ps, slits_of_py ps = None -> Exists unbindable ps.
Proof.
  induction ps as [|p r IH]; cbn [slits_of_py]; intros H; [discriminate|].
  destruct (slit_of_py p) as [l|] eqn:E.
  - destruct (slits_of_py r); [discriminate|]. apply Exists_cons_tl. now apply IH.
  - apply Exists_cons_hd. now apply slit_of_py_none.
Qed.

Lemma slits_length : forall ps ls, slits_of_py ps = Some ls -> length ls = length ps.
Proof.
  induction ps as [|p r IH]; cbn [slits_of_py]; intros ls H; [inversion H; reflexivity|].
  destruct (slit_of_py p); [|discriminate]. destruct (slits_of_py r) as [ls'|]; [|discriminate].
  inversion H; subst. cbn [length]. f_equal. now apply IH.
Qed.

Lemma bind_spec_go_few' : forall sql st ps,
  (length ps < count_ph st sql)%nat -> bind_spec_go st sql ps = None.
Proof.
  induction sql as [|c r IH]; intros st ps Hn; cbn [bind_spec_go count_ph] in *; [lia|].
  destruct ((c =? c_qm) && negb (protected st)).
  - destruct ps as [|p ps']; [reflexivity|]. cbn [length] in Hn.
    destruct (spec_literal p); [|reflexivity]. rewrite (IH (step st c) ps' ltac:(lia)). reflexivity.
  - rewrite (IH (step st c) ps Hn). reflexivity.
Qed.

Lemma bind_spec_go_splice : forall sql st ps ls,
  slits_of_py ps = Some ls -> (count_ph st sql <= length ps)%nat ->
  bind_spec_go st sql ps = Some (splice st sql ls, skipn (count_ph st sql) ps).
Proof.
  induction sql as [|c r IH]; intros st ps ls Hl Hn; cbn [bind_spec_go splice count_ph skipn] in *; [reflexivity|].
  destruct ((c =? c_qm) && negb (protected st)).
  - destruct ps as [|p ps']; cbn [length] in Hn; [lia|]. cbn [slits_of_py] in Hl.
    destruct (slit_of_py p) as [l|] eqn:El; [|discriminate].
    destruct (slits_of_py ps') as [ls'|] eqn:Els; [|discriminate]. inversion Hl; subst.
    rewrite (slit_of_py_text p l El). rewrite (IH (step st c) ps' ls' Els ltac:(lia)). reflexivity.
  - rewrite (IH (step st c) ps ls Hl Hn). reflexivity.
Qed.

(** the specification binder in closed form *)
Theorem bind_spec_closed : forall sql ps,
  bind_spec sql ps =
  match slits_of_py ps with
  | Some ls => if Nat.eqb (count_ph SCode sql) (length ps) then Some (splice SCode sql ls) else None
  | None => None
  end.
Proof.
  intros sql ps. destruct (slits_of_py ps) as [ls|] eqn:El.
  - unfold bind_spec. destruct (Nat.eqb (count_ph SCode sql) (length ps)) eqn:En.
    + apply Nat.eqb_eq in En. rewrite (bind_spec_go_splice sql SCode ps ls El ltac:(lia)).
      rewrite En, skipn_all. reflexivity.
    + apply Nat.eqb_neq in En. destruct (Nat.lt_ge_cases (length ps) (count_ph SCode sql)) as [Hlt|Hge].
      * now rewrite (bind_spec_go_few' sql SCode ps Hlt).
      * rewrite (bind_spec_go_splice sql SCode ps ls El Hge).
        destruct (skipn (count_ph SCode sql) ps) eqn:Es; [|reflexivity].
        assert (Hl : length (skipn (count_ph SCode sql) ps) = O) by now rewrite Es.
        rewrite skipn_length in Hl. lia.
  - apply bind_spec_bad. now apply slits_none_unbindable.
Qed.

Lemma convert_r_slits : forall ps,
  match convert_params_r ps, slits_of_py ps with
  | Some vals, Some ls => map lit_of_bval vals = ls
  | None, None => True
  | _, _ => False
  end.
Proof.
  induction ps as [|p r IH]; cbn [convert_params_r slits_of_py]; [reflexivity|].
  assert (Hp : match py_to_sqlvalue_r p, slit_of_py p with
               | Some v, Some l => lit_of_bval v = l | None, None => True | _, _ => False end).
  { destruct p as [|z|b|b|s|]; cbn [py_to_sqlvalue_r py_to_sqlvalue slit_of_py spec_literal]; try reflexivity.
    - destruct (in_i64 z); [|exact I].
      destruct ((i16_min <=? z) && (z <=? i16_max)); [reflexivity|].
      destruct ((i32_min <=? z) && (z <=? i32_max)); reflexivity.
    - destruct (f64_finite b); [reflexivity|exact I].
    - destruct (has_surrogate s); [exact I|reflexivity]. }
  destruct (py_to_sqlvalue_r p) as [v|]; destruct (slit_of_py p) as [l|]; try contradiction; [|exact I].
  destruct (convert_params_r r) as [vals|]; destruct (slits_of_py r) as [ls|]; try contradiction; [|exact I].
  cbn [map]. now subst.
Qed.

Lemma substitute_aware_splice : forall sql st vals,
  (count_ph st sql <= length vals)%nat ->
  substitute_aware st sql vals = splice_pad st sql (map lit_of_bval vals).
Proof.
  induction sql as [|c r IH]; intros st vals Hn; cbn [substitute_aware splice_pad count_ph] in *; [reflexivity|].
  destruct ((c =? c_qm) && negb (protected st)).
  - destruct vals as [|v vals']; cbn [length] in Hn; [lia|]. cbn [map].
    rewrite lit_of_bval_text. f_equal. apply IH. lia.
  - f_equal. now apply IH.
Qed.

Lemma convert_r_length : forall ps vals, convert_params_r ps = Some vals -> length vals = length ps.
Proof.
  induction ps as [|p r IH]; cbn [convert_params_r]; intros vals H; [inversion H; reflexivity|].
  destruct (py_to_sqlvalue_r p); [|discriminate]. destruct (convert_params_r r) as [vs|]; [|discriminate].
  inversion H; subst. cbn [length]. f_equal. now apply IH.
Qed.

(** the repaired binder in closed form: the same guard, the same literals, between spaces *)
Theorem bind_fixed_closed : forall sql ps,
  bind_parameters_v true true sql ps =
  match slits_of_py ps with
  | Some ls => if Nat.eqb (count_ph SCode sql) (length ps) then Some (splice_pad SCode sql ls) else None
  | None => None
  end.
Proof.
  intros sql ps. unfold bind_parameters_v. pose proof (convert_r_slits ps) as H.
  destruct (convert_params_r ps) as [vals|] eqn:Ec; destruct (slits_of_py ps) as [ls|]; try contradiction.
  - destruct (Nat.eqb (count_ph SCode sql) (length ps)) eqn:En; [|reflexivity].
    apply Nat.eqb_eq in En. rewrite substitute_aware_splice; [now subst|].
    rewrite (convert_r_length ps vals Ec). lia.
  - now destruct (Nat.eqb (count_ph SCode sql) (length ps)).
Qed.

(** hence: accepted by the one iff accepted by the other, and then both are splices of the same literals *)
Theorem bind_fixed_spec : forall sql ps,
  match bind_spec sql ps, bind_parameters_v true true sql ps with
  | Some t, Some t' => exists ls, slits_of_py ps = Some ls /\ t = splice SCode sql ls /\ t' = splice_pad SCode sql ls
  | None, None => True
  | _, _ => False
  end.
Proof.
  intros sql ps. rewrite bind_spec_closed, bind_fixed_closed.
  destruct (slits_of_py ps) as [ls|]; [|exact I].
  destruct (Nat.eqb (count_ph SCode sql) (length ps)); [|exact I]. now exists ls.
Qed.

Example bind_fixed_spec_ex :
  let sql := [53; 45; 63; 44; 39; 63; 39; 63] (* 5-?,'?'? *) in
  let ps := [PInt (-3); PStr [98]] in
  bind_spec sql ps = Some [53; 45; 45; 51; 44; 39; 63; 39; 39; 98; 39] /\
  bind_parameters_v true true sql ps = Some [53; 45; 32; 45; 51; 32; 44; 39; 63; 39; 32; 39; 98; 39; 32].
Proof. vm_compute. split; reflexivity. Qed.

(** * 3. between spaces nothing merges *)
Lemma space_plain : plain_char c_space = true.
Proof. reflexivity. Qed.

Lemma pad_scan : forall l st, protected st = false ->
  match l with LStr _ => True | LPlain t => plain_ok t = true end ->
  tscan st (pad (lit_text l)) = tscan SCode (pad (lit_text l)) /\ run st (pad (lit_text l)) = SCode.
Proof.
  intros l st Hu Hok. unfold pad. cbn [tscan run].
  rewrite (plain_char_step st c_space Hu space_plain), (plain_char_role st c_space Hu space_plain).
  change (step SCode c_space) with SCode. change (role_of SCode c_space) with RPlain.
  split; [reflexivity|].
  assert (Hs : lit_start_ok SCode l = true).
  { destruct l as [s|t]; cbn [lit_start_ok]; [reflexivity|]. rewrite Hok. reflexivity. }
  destruct (lit_scan l SCode eq_refl Hs) as [_ Hrun].
  rewrite run_app, Hrun. destruct l; reflexivity.
Qed.

Lemma structure_padded_go : forall sql st ls, plain_lits_ok ls ->
  tscan st (splice_pad st sql ls) = splice_t_pad (tscan st sql) ls.
Proof.
  induction sql as [|c r IH]; intros st ls Hpl; cbn [splice_pad tscan splice_t_pad]; [reflexivity|].
  destruct (c =? c_qm) eqn:Ec.
  - apply Z.eqb_eq in Ec. subst c. rewrite role_qm.
    destruct (protected st) eqn:Ep; cbn [andb negb].
    + cbn [tscan]. rewrite role_qm, Ep. f_equal. now apply IH.
    + destruct ls as [|l ls'].
      * cbn [tscan]. rewrite role_qm, Ep. f_equal. now apply IH.
      * assert (Hok : match l with LStr _ => True | LPlain t => plain_ok t = true end).
        { destruct l as [s|t]; [exact I|]. apply Hpl. now left. }
        destruct (pad_scan l st Ep Hok) as [Ht Hrun].
        rewrite tscan_app, Ht, Hrun, (step_qm_code st Ep). f_equal.
        apply IH. intros t Ht'. apply Hpl. now right.
  - cbn [andb tscan].
    replace ((c =? c_qm) && match role_of st c with RInside => false | _ => true end) with false
      by (now rewrite Ec).
    f_equal. now apply IH.
Qed.

(** every template, every list of binder literals: the roles of all template characters are unchanged
    and every literal (with its two spaces) is classified as on its own *)
Theorem structure_preserved_padded : forall sql ls, plain_lits_ok ls ->
  tscan SCode (splice_pad SCode sql ls) = splice_t_pad (tscan SCode sql) ls.
Proof. intros. now apply structure_padded_go. Qed.

Example structure_preserved_padded_ex :
  let sql := [53; 45; 63; 44; 39; 97; 39; 63] (* 5-?,'a'? : both merge situations *) in
  let ls := [LPlain [45; 51]; LStr [98]] in
  safe sql ls = false /\
  tscan SCode (splice_pad SCode sql ls) = splice_t_pad (tscan SCode sql) ls.
Proof. vm_compute. split; reflexivity. Qed.

(** * 4. the code as it is now (values refused as the specification refuses them, every '?' substituted) *)
Lemma agree_cases_r : forall p,
  (exists v, py_to_sqlvalue_r p = Some v /\ lit_rel p v) \/ (py_to_sqlvalue_r p = None /\ unbindable p).
Proof.
  intros p. unfold lit_rel, unbindable. destruct p as [|z|b|b|s|]; cbn [py_to_sqlvalue_r py_to_sqlvalue spec_literal].
  - left. exists BNull. split; reflexivity.
  - destruct (in_i64 z); [|right; split; reflexivity]. left.
    destruct ((i16_min <=? z) && (z <=? i16_max)); [eexists; split; reflexivity|].
    destruct ((i32_min <=? z) && (z <=? i32_max)); eexists; split; reflexivity.
  - left. eexists; split; reflexivity.
  - destruct (f64_finite b); [left; eexists; split; reflexivity|right; split; reflexivity].
  - destruct (has_surrogate s); [right; split; reflexivity|left; eexists; split; reflexivity].
  - right. split; reflexivity.
Qed.

Lemma convert_cases_r : forall ps,
  (exists vals, convert_params_r ps = Some vals /\ Forall2 lit_rel ps vals) \/
  (convert_params_r ps = None /\ Exists unbindable ps).
Proof.
  induction ps as [|p ps IH]; cbn [convert_params_r].
  - left. exists []. split; [reflexivity|constructor].
  - destruct (agree_cases_r p) as [[v [Hv Hl]]|[Hv Hl]]; rewrite Hv.
    + destruct IH as [[vals [Hc HF]]|[Hc HE]]; rewrite Hc.
      * left. exists (v :: vals). split; [reflexivity|]. constructor; assumption.
      * right. split; [reflexivity|]. now apply Exists_cons_tl.
    + right. split; [reflexivity|]. now apply Exists_cons_hd.
Qed.

(** with no '?' in a protected region the code's binder IS the specification binder, for EVERY tuple
    (the value side condition of [bind_parameters_eq_spec] is gone with the repair) *)
Theorem bind_now_eq_spec : forall sql ps,
  count_protected_qm SCode sql = O -> bind_now sql ps = bind_spec sql ps.
Proof.
  intros sql ps Hp. unfold bind_now, bind_parameters_v.
  destruct (convert_cases_r ps) as [[vals [Hc HF]]|[Hc HE]]; rewrite Hc.
  - destruct (Nat.eqb (count_qm sql) (length ps)) eqn:En.
    + apply Nat.eqb_eq in En. unfold bind_spec.
      rewrite (bind_spec_go_ok sql SCode ps vals Hp HF ltac:(lia)).
      rewrite En, skipn_all. reflexivity.
    + apply Nat.eqb_neq in En. unfold bind_spec.
      destruct (Nat.lt_ge_cases (length ps) (count_qm sql)) as [Hlt|Hge].
      * now rewrite (bind_spec_go_few sql SCode ps Hp Hlt).
      * rewrite (bind_spec_go_ok sql SCode ps vals Hp HF Hge).
        destruct (skipn (count_qm sql) ps) eqn:Es; [|reflexivity].
        assert (Hl : length (skipn (count_qm sql) ps) = O) by now rewrite Es.
        rewrite skipn_length in Hl. lia.
  - rewrite (bind_spec_bad sql ps HE). now destruct (Nat.eqb (count_qm sql) (length ps)).
Qed.

Theorem process_now_eq_spec : forall sql params,
  (forall ps, params = Some ps -> count_protected_qm SCode sql = O) ->
  process_now sql params = process_spec sql params.
Proof.
  intros sql [ps|] H; [|reflexivity]. cbn [process_now process_v process_spec].
  now apply bind_now_eq_spec, (H ps).
Qed.

Example bind_now_eq_spec_ex :
  bind_now [83; 69; 76; 32; 63; 44; 63] [PInt 9223372036854775808; PFloat 9218868437227405312] = None /\
  bind_spec [83; 69; 76; 32; 63; 44; 63] [PInt 9223372036854775808; PFloat 9218868437227405312] = None /\
  bind_now [83; 69; 76; 32; 63] [PInt (-7)] = Some [83; 69; 76; 32; 45; 55].
Proof. vm_compute. repeat split. Qed.

(** values read back, code as it is now *)
Lemma py_r_same : forall p, spec_agrees p = true -> py_to_sqlvalue_r p = py_to_sqlvalue p.
Proof.
  intros p H. destruct p as [|z|b|b|s|]; cbn [py_to_sqlvalue_r spec_agrees] in *; try reflexivity.
  - now rewrite H.
  - rewrite H. reflexivity.
Qed.

Lemma read_back_now_same : forall p, spec_agrees p = true -> read_back_now p = read_back p.
Proof. intros p H. unfold read_back_now, read_back. now rewrite (py_r_same p H). Qed.

Theorem value_roundtrip_now : forall v r, py_expected v = Some r -> read_back_now v = Some r.
Proof.
  intros v r H. rewrite read_back_now_same; [now apply value_roundtrip_py|].
  destruct v as [|z|b|b|s|]; cbn [py_expected spec_agrees] in *; try reflexivity; try discriminate.
  destruct ((i64_min <? z) && (z <=? i64_max)) eqn:E; [|discriminate].
  apply andb_true_iff in E. destruct E as [E1 E2]. apply Z.ltb_lt in E1. apply Z.leb_le in E2.
  unfold in_i64. apply andb_true_iff. split; apply Z.leb_le; lia.
Qed.

(** the two repaired classes, as positive statements: such values are refused, not altered *)
Theorem big_int_refused : forall z, in_i64 z = false -> py_to_sqlvalue_r (PInt z) = None /\ read_back_now (PInt z) = None.
Proof. intros z H. unfold read_back_now. cbn [py_to_sqlvalue_r]. rewrite H. split; reflexivity. Qed.

Theorem nonfinite_refused : forall b, f64_finite b = false -> py_to_sqlvalue_r (PFloat b) = None /\ read_back_now (PFloat b) = None.
Proof. intros b H. unfold read_back_now. cbn [py_to_sqlvalue_r]. rewrite H. split; reflexivity. Qed.

Lemma bind_now_count : forall sql ps t, bind_now sql ps = Some t -> count_qm sql = length ps.
Proof.
  intros sql ps t H. unfold bind_now, bind_parameters_v in H.
  destruct (Nat.eqb (count_qm sql) (length ps)) eqn:E; [now apply Nat.eqb_eq in E|discriminate].
Qed.

Theorem roundtrip_i64_min_now : read_back_now (PInt i64_min) = Some (RFloat 14114281232179134464).
Proof. vm_compute. reflexivity. Qed.
