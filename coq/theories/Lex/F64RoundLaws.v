(** The reader side of the float round trip: [f64_of_ratio] (the model of [str::parse::<f64>] and of
    CPython's int -> float conversion) returns b for EVERY rational inside the rounding interval that
    [flt2dec::decode] gives for the positive finite binary64 b (bounds included when decode says so and the
    mantissa is even).  Integer arithmetic only: a * 2^x is compared with n / d by cross-multiplication,
    all exponents made non-negative by a common shift. *)
From Coq Require Import List ZArith Bool Lia.
From VibeSQL Require Import Lex.F64Display Lex.F64DisplayLaws.
Import ListNotations.
Open Scope Z_scope.

(** the rounding decision of [f64_of_ratio] on x/y *)
Definition round_q (x y : Z) : Z :=
  let m0 := x / y in
  let r := x mod y in
  if (y <? 2 * r) || ((2 * r =? y) && Z.odd m0) then m0 + 1 else m0.

(** any x/y strictly within half a unit of the integer T rounds to T *)
Lemma round_half_strict : forall x y T, 0 < y -> (2 * T - 1) * y < 2 * x < (2 * T + 1) * y -> round_q x y = T.
Proof.
  intros x y T Hy [Hlo Hhi]. unfold round_q.
  pose proof (Z.div_mod x y ltac:(lia)) as Hdm. pose proof (Z.mod_pos_bound x y Hy) as Hr.
  set (m0 := x / y) in *. set (r := x mod y) in *.
  assert (Hm : m0 = T - 1 \/ m0 = T).
  { assert (T - 2 < m0) by nia. assert (m0 < T + 1) by nia. lia. }
  destruct Hm as [Hm|Hm].
  - assert (E : (y <? 2 * r) = true) by (apply Z.ltb_lt; nia). rewrite E. cbn [orb]. lia.
  - assert (E1 : (y <? 2 * r) = false) by (apply Z.ltb_ge; nia).
    assert (E2 : (2 * r =? y) = false) by (apply Z.eqb_neq; nia). rewrite E1, E2. cbn [orb andb]. exact Hm.
Qed.

(** with the bounds included the ties go to T when T is even *)
Lemma round_half_incl : forall x y T, 0 < y -> Z.even T = true ->
  (2 * T - 1) * y <= 2 * x <= (2 * T + 1) * y -> round_q x y = T.
Proof.
  intros x y T Hy He [Hlo Hhi]. unfold round_q.
  pose proof (Z.div_mod x y ltac:(lia)) as Hdm. pose proof (Z.mod_pos_bound x y Hy) as Hr.
  set (m0 := x / y) in *. set (r := x mod y) in *.
  assert (Hm : m0 = T - 1 \/ m0 = T).
  { assert (T - 2 < m0) by nia. assert (m0 < T + 1) by nia. lia. }
  destruct Hm as [Hm|Hm].
  - assert (Hodd : Z.odd m0 = true).
    { rewrite Hm. rewrite Z.odd_sub. rewrite <- Z.negb_even, He. reflexivity. }
    rewrite Hodd, andb_true_r.
    destruct (y <? 2 * r) eqn:E1; cbn [orb]; [lia|]. apply Z.ltb_ge in E1.
    assert (E2 : (2 * r =? y) = true) by (apply Z.eqb_eq; nia). rewrite E2. lia.
  - assert (Hodd : Z.odd m0 = false) by (rewrite Hm, <- Z.negb_even, He; reflexivity).
    rewrite Hodd, andb_false_r, orb_false_r.
    assert (E1 : (y <? 2 * r) = false) by (apply Z.ltb_ge; nia). rewrite E1. exact Hm.
Qed.

(** * comparing a * 2^x with n / d without leaving the integers *)
Definition rlt (a x n d : Z) : Prop := if 0 <=? x then a * 2 ^ x * d < n else a * d < n * 2 ^ (- x).
Definition rle (a x n d : Z) : Prop := if 0 <=? x then a * 2 ^ x * d <= n else a * d <= n * 2 ^ (- x).
Definition rgt (a x n d : Z) : Prop := if 0 <=? x then n < a * 2 ^ x * d else n * 2 ^ (- x) < a * d.
Definition rge (a x n d : Z) : Prop := if 0 <=? x then n <= a * 2 ^ x * d else n * 2 ^ (- x) <= a * d.

Lemma pow2_pos : forall z, 0 <= z -> 0 < 2 ^ z.
Proof. intros. apply Z.pow_pos_nonneg; lia. Qed.

Lemma pow2_split : forall x K, 0 <= x -> 0 <= K -> 2 ^ (x + K) = 2 ^ x * 2 ^ K.
Proof. intros. apply Z.pow_add_r; lia. Qed.

Lemma pow2_split_neg : forall x K, x < 0 -> 0 <= x + K -> 2 ^ K = 2 ^ (- x) * 2 ^ (x + K).
Proof. intros. rewrite <- Z.pow_add_r by lia. f_equal. lia. Qed.

(** the shifted forms: every exponent is made non-negative by a common shift K *)
Lemma rlt_shift : forall a x n d K, 0 <= K -> 0 <= x + K ->
  (rlt a x n d <-> a * 2 ^ (x + K) * d < n * 2 ^ K).
Proof.
  intros a x n d K HK HxK. unfold rlt. destruct (0 <=? x) eqn:E; [apply Z.leb_le in E|apply Z.leb_gt in E].
  - rewrite (pow2_split x K E HK). pose proof (pow2_pos K HK). split; nia.
  - rewrite (pow2_split_neg x K E HxK). pose proof (pow2_pos (x + K) HxK). pose proof (pow2_pos (- x) ltac:(lia)). split; nia.
Qed.

Lemma rle_shift : forall a x n d K, 0 <= K -> 0 <= x + K ->
  (rle a x n d <-> a * 2 ^ (x + K) * d <= n * 2 ^ K).
Proof.
  intros a x n d K HK HxK. unfold rle. destruct (0 <=? x) eqn:E; [apply Z.leb_le in E|apply Z.leb_gt in E].
  - rewrite (pow2_split x K E HK). pose proof (pow2_pos K HK). split; nia.
  - rewrite (pow2_split_neg x K E HxK). pose proof (pow2_pos (x + K) HxK). pose proof (pow2_pos (- x) ltac:(lia)). split; nia.
Qed.

Lemma rgt_shift : forall a x n d K, 0 <= K -> 0 <= x + K ->
  (rgt a x n d <-> n * 2 ^ K < a * 2 ^ (x + K) * d).
Proof.
  intros a x n d K HK HxK. unfold rgt. destruct (0 <=? x) eqn:E; [apply Z.leb_le in E|apply Z.leb_gt in E].
  - rewrite (pow2_split x K E HK). pose proof (pow2_pos K HK). split; nia.
  - rewrite (pow2_split_neg x K E HxK). pose proof (pow2_pos (x + K) HxK). pose proof (pow2_pos (- x) ltac:(lia)). split; nia.
Qed.

Lemma rge_shift : forall a x n d K, 0 <= K -> 0 <= x + K ->
  (rge a x n d <-> n * 2 ^ K <= a * 2 ^ (x + K) * d).
Proof.
  intros a x n d K HK HxK. unfold rge. destruct (0 <=? x) eqn:E; [apply Z.leb_le in E|apply Z.leb_gt in E].
  - rewrite (pow2_split x K E HK). pose proof (pow2_pos K HK). split; nia.
  - rewrite (pow2_split_neg x K E HxK). pose proof (pow2_pos (x + K) HxK). pose proof (pow2_pos (- x) ltac:(lia)). split; nia.
Qed.

(** * the pieces of [f64_of_ratio] *)
Definition ratio_log2 (n d : Z) : Z :=
  let e_est := Z.log2 n - Z.log2 d in
  let ge := if 0 <=? e_est then d * 2 ^ e_est <=? n else d <=? n * 2 ^ (- e_est) in
  if ge then e_est else e_est - 1.

Definition numden (n d q : Z) : Z * Z := if 0 <=? q then (n, d * 2 ^ q) else (n * 2 ^ (- q), d).

Definition encode_pos (m e : Z) : Z :=
  let '(m, e) := if m =? two53 then (two52, e + 1) else (m, e) in
  if 1023 <? e then f64_inf_bits
  else if m <? two52 then m
  else (e + 1023) * two52 + (m - two52).

Lemma f64_of_ratio_unfold : forall n d, 0 < n ->
  f64_of_ratio n d =
  let e := Z.max (ratio_log2 n d) (-1022) in
  let '(num, den) := numden n d (e - 52) in
  encode_pos (round_q num den) e.
Proof.
  intros n d Hn. unfold f64_of_ratio. assert (E : (n <=? 0) = false) by (apply Z.leb_gt; lia). rewrite E.
  unfold ratio_log2, numden, round_q, encode_pos. cbv zeta.
  destruct (0 <=? Z.max _ (-1022) - 52); reflexivity.
Qed.

(** 2^e <= n/d < 2^(e+1) for e = ratio_log2 n d *)
Lemma ratio_log2_spec : forall n d, 0 < n -> 0 < d ->
  rle 1 (ratio_log2 n d) n d /\ rgt 1 (ratio_log2 n d + 1) n d.
Proof.
  intros n d Hn Hd.
  pose proof (Z.log2_spec n Hn) as [Ha1 Ha2]. pose proof (Z.log2_spec d Hd) as [Hb1 Hb2].
  pose proof (Z.log2_nonneg n) as Ha0. pose proof (Z.log2_nonneg d) as Hb0.
  set (a := Z.log2 n) in *. set (b := Z.log2 d) in *.
  set (K := b + 2).
  assert (HK : 0 <= K) by (unfold K; lia).
  unfold ratio_log2. fold a b. set (ee := a - b).
  assert (HeK : 0 <= ee - 1 + K) by (unfold ee, K; lia).
  (* shifted facts about n and d *)
  assert (Hn1 : 2 ^ (a + K) <= n * 2 ^ K) by (rewrite (pow2_split a K Ha0 HK); pose proof (pow2_pos K HK); nia).
  assert (Hn2 : n * 2 ^ K < 2 ^ (a + 1 + K)).
  { rewrite (pow2_split (a + 1) K ltac:(lia) HK). replace (a + 1) with (Z.succ a) by lia.
    pose proof (pow2_pos K HK). nia. }
  assert (Hd1 : forall z, 0 <= z -> 2 ^ (b + z) <= d * 2 ^ z).
  { intros z Hz. rewrite (pow2_split b z Hb0 Hz). pose proof (pow2_pos z Hz). nia. }
  assert (Hd2 : forall z, 0 <= z -> d * 2 ^ z < 2 ^ (b + 1 + z)).
  { intros z Hz. rewrite (pow2_split (b + 1) z ltac:(lia) Hz). replace (b + 1) with (Z.succ b) by lia.
    pose proof (pow2_pos z Hz). nia. }
  destruct (if 0 <=? ee then d * 2 ^ ee <=? n else d <=? n * 2 ^ (- ee)) eqn:Ege.
  - split.
    + destruct (0 <=? ee) eqn:E0.
      * apply Z.leb_le in Ege. unfold rle. rewrite E0. lia.
      * apply Z.leb_le in Ege. unfold rle. rewrite E0. lia.
    + apply (rgt_shift 1 (ee + 1) n d K HK ltac:(lia)).
      specialize (Hd1 (ee + 1 + K) ltac:(lia)). replace (b + (ee + 1 + K)) with (a + 1 + K) in Hd1 by (unfold ee; lia). lia.
  - split.
    + apply (rle_shift 1 (ee - 1) n d K HK HeK).
      specialize (Hd2 (ee - 1 + K) HeK). replace (b + 1 + (ee - 1 + K)) with (a + K) in Hd2 by (unfold ee; lia). lia.
    + replace (ee - 1 + 1) with ee by lia. apply (rgt_shift 1 ee n d K HK ltac:(lia)).
      destruct (0 <=? ee) eqn:E0; [apply Z.leb_le in E0|apply Z.leb_gt in E0].
      * apply Z.leb_gt in Ege. rewrite (pow2_split ee K E0 HK). pose proof (pow2_pos K HK). nia.
      * apply Z.leb_gt in Ege. rewrite (pow2_split_neg ee K E0 ltac:(lia)).
        pose proof (pow2_pos (ee + K) ltac:(lia)). nia.
Qed.

Definition KS : Z := 1300.   (* common shift: every exponent of interest plus KS is non-negative *)

Lemma numden_spec : forall n d q, 0 < n -> 0 < d -> 0 <= q + KS ->
  let '(x, y) := numden n d q in 0 < y /\ x * (d * 2 ^ (q + KS)) = y * (n * 2 ^ KS).
Proof.
  intros n d q Hn Hd Hq. unfold numden. destruct (0 <=? q) eqn:E; [apply Z.leb_le in E|apply Z.leb_gt in E].
  - pose proof (pow2_pos q E). split; [nia|]. rewrite (pow2_split q KS E ltac:(unfold KS; lia)). ring.
  - split; [lia|]. rewrite (pow2_split_neg q KS E Hq). ring.
Qed.

(** rounding at quantum 2^q gives T when n/d is within half a quantum of T * 2^q *)
Lemma round_at_strict : forall n d q T, 0 < n -> 0 < d -> 0 <= q + KS ->
  (2 * T - 1) * (d * 2 ^ (q + KS)) < 2 * (n * 2 ^ KS) ->
  2 * (n * 2 ^ KS) < (2 * T + 1) * (d * 2 ^ (q + KS)) ->
  round_q (fst (numden n d q)) (snd (numden n d q)) = T.
Proof.
  intros n d q T Hn Hd Hq Hlo Hhi. pose proof (numden_spec n d q Hn Hd Hq) as H.
  destruct (numden n d q) as [x y]. destruct H as [Hy Hxy]. cbn [fst snd].
  pose proof (pow2_pos (q + KS) Hq) as HP.
  set (D := d * 2 ^ (q + KS)) in *. set (N := n * 2 ^ KS) in *.
  assert (HD : 0 < D) by (unfold D; nia).
  apply round_half_strict; [exact Hy|]. split.
  - assert (((2 * T - 1) * y - 2 * x) * D < 0) by nia. nia.
  - assert ((2 * x - (2 * T + 1) * y) * D < 0) by nia. nia.
Qed.

Lemma round_at_incl : forall n d q T, 0 < n -> 0 < d -> 0 <= q + KS -> Z.even T = true ->
  (2 * T - 1) * (d * 2 ^ (q + KS)) <= 2 * (n * 2 ^ KS) ->
  2 * (n * 2 ^ KS) <= (2 * T + 1) * (d * 2 ^ (q + KS)) ->
  round_q (fst (numden n d q)) (snd (numden n d q)) = T.
Proof.
  intros n d q T Hn Hd Hq He Hlo Hhi. pose proof (numden_spec n d q Hn Hd Hq) as H.
  destruct (numden n d q) as [x y]. destruct H as [Hy Hxy]. cbn [fst snd].
  pose proof (pow2_pos (q + KS) Hq) as HP.
  set (D := d * 2 ^ (q + KS)) in *. set (N := n * 2 ^ KS) in *.
  assert (HD : 0 < D) by (unfold D; nia).
  apply round_half_incl; [exact Hy|exact He|]. split.
  - assert (((2 * T - 1) * y - 2 * x) * D <= 0) by nia. nia.
  - assert ((2 * x - (2 * T + 1) * y) * D <= 0) by nia. nia.
Qed.

(** 2^x' <= n/d < 2^x is impossible for x <= x' *)
Lemma pow_order_contra : forall x x' n d, 0 < d -> rgt 1 x n d -> rle 1 x' n d -> x <= x' -> False.
Proof.
  intros x x' n d Hd Hg Hl Hxx.
  set (K := Z.abs x + Z.abs x' + 1).
  assert (HK : 0 <= K) by (unfold K; lia).
  apply (rgt_shift 1 x n d K HK ltac:(unfold K; lia)) in Hg.
  apply (rle_shift 1 x' n d K HK ltac:(unfold K; lia)) in Hl.
  assert (2 ^ (x + K) <= 2 ^ (x' + K)) by (apply Z.pow_le_mono_r; unfold K; lia).
  pose proof (pow2_pos (x + K) ltac:(unfold K; lia)). nia.
Qed.

(** the binade of n/d is determined by any power-of-two bracket *)
Lemma ratio_log2_unique : forall n d L, 0 < n -> 0 < d -> rle 1 L n d -> rgt 1 (L + 1) n d -> ratio_log2 n d = L.
Proof.
  intros n d L Hn Hd Hl Hg. destruct (ratio_log2_spec n d Hn Hd) as [Hl' Hg'].
  destruct (Z.lt_trichotomy (ratio_log2 n d) L) as [Hlt|[Heq|Hgt]]; [|exact Heq|].
  - exfalso. apply (pow_order_contra (ratio_log2 n d + 1) L n d Hd Hg' Hl). lia.
  - exfalso. apply (pow_order_contra (L + 1) (ratio_log2 n d) n d Hd Hg Hl'). lia.
Qed.

Lemma ratio_log2_below : forall n d L, 0 < n -> 0 < d -> rgt 1 L n d -> ratio_log2 n d < L.
Proof.
  intros n d L Hn Hd Hg. destruct (ratio_log2_spec n d Hn Hd) as [Hl' _].
  destruct (Z.lt_ge_cases (ratio_log2 n d) L) as [H|H]; [exact H|].
  exfalso. apply (pow_order_contra L (ratio_log2 n d) n d Hd Hg Hl'). lia.
Qed.

(** "n/d is within half a quantum 2^q of T * 2^q" (bounds included only when allowed and T even) *)
Definition near (incl : bool) (n d q T : Z) : Prop :=
  if incl then
    Z.even T = true /\
    (2 * T - 1) * (d * 2 ^ (q + KS)) <= 2 * (n * 2 ^ KS) /\ 2 * (n * 2 ^ KS) <= (2 * T + 1) * (d * 2 ^ (q + KS))
  else
    (2 * T - 1) * (d * 2 ^ (q + KS)) < 2 * (n * 2 ^ KS) /\ 2 * (n * 2 ^ KS) < (2 * T + 1) * (d * 2 ^ (q + KS)).

Lemma round_near : forall incl n d q T, 0 < n -> 0 < d -> 0 <= q + KS -> near incl n d q T ->
  round_q (fst (numden n d q)) (snd (numden n d q)) = T.
Proof.
  intros incl n d q T Hn Hd Hq H. unfold near in H. destruct incl.
  - destruct H as [He [Hlo Hhi]]. now apply round_at_incl.
  - destruct H as [Hlo Hhi]. now apply round_at_strict.
Qed.

Lemma unfold_at : forall n d e, 0 < n ->
  Z.max (ratio_log2 n d) (-1022) = e ->
  f64_of_ratio n d = encode_pos (round_q (fst (numden n d (e - 52))) (snd (numden n d (e - 52)))) e.
Proof.
  intros n d e Hn He. rewrite (f64_of_ratio_unfold n d Hn). cbv zeta. rewrite He.
  destruct (numden n d (e - 52)) as [x y]. reflexivity.
Qed.

(** a value in the binade [2^(q+52), 2^(q+53)) that rounds to the normal mantissa T at quantum q *)
Lemma core_same_binade : forall incl n d T q, 0 < n -> 0 < d ->
  -1074 <= q <= 971 -> two52 <= T < two53 ->
  rle 1 (q + 52) n d -> rgt 1 (q + 53) n d -> near incl n d q T ->
  f64_of_ratio n d = (q + 1075) * two52 + (T - two52).
Proof.
  intros incl n d T q Hn Hd Hq HT Hl Hg Hnear.
  assert (Hlog : ratio_log2 n d = q + 52) by (apply ratio_log2_unique; try assumption; now replace (q + 52 + 1) with (q + 53) by lia).
  rewrite (unfold_at n d (q + 52) Hn ltac:(rewrite Hlog; lia)).
  replace (q + 52 - 52) with q by lia.
  rewrite (round_near incl n d q T Hn Hd ltac:(unfold KS; lia) Hnear).
  unfold encode_pos. unfold two52, two53 in *.
  assert (E1 : (T =? 9007199254740992) = false) by (apply Z.eqb_neq; lia). rewrite E1.
  assert (E2 : (1023 <? q + 52) = false) by (apply Z.ltb_ge; lia). rewrite E2.
  assert (E3 : (T <? 4503599627370496) = false) by (apply Z.ltb_ge; lia). rewrite E3. lia.
Qed.

(** a value below 2^-1022 that rounds to T <= 2^52 at the subnormal quantum *)
Lemma core_clamped : forall incl n d T, 0 < n -> 0 < d -> 0 <= T <= two52 ->
  rgt 1 (-1022) n d -> near incl n d (-1074) T -> f64_of_ratio n d = T.
Proof.
  intros incl n d T Hn Hd HT Hg Hnear.
  pose proof (ratio_log2_below n d (-1022) Hn Hd Hg) as Hlog.
  rewrite (unfold_at n d (-1022) Hn ltac:(lia)).
  replace (-1022 - 52) with (-1074) by lia.
  rewrite (round_near incl n d (-1074) T Hn Hd ltac:(unfold KS; lia) Hnear).
  unfold encode_pos. unfold two52, two53 in *.
  assert (E1 : (T =? 9007199254740992) = false) by (apply Z.eqb_neq; lia). rewrite E1.
  change (1023 <? -1022) with false. cbv iota.
  destruct (T <? 4503599627370496) eqn:E3; [reflexivity|]. apply Z.ltb_ge in E3. lia.
Qed.

(** a value in the binade below a power of two that rounds up to it *)
Lemma core_carry : forall incl n d q, 0 < n -> 0 < d -> -1074 <= q <= 970 ->
  rle 1 (q + 52) n d -> rgt 1 (q + 53) n d -> near incl n d q two53 ->
  f64_of_ratio n d = (q + 1076) * two52.
Proof.
  intros incl n d q Hn Hd Hq Hl Hg Hnear.
  assert (Hlog : ratio_log2 n d = q + 52) by (apply ratio_log2_unique; try assumption; now replace (q + 52 + 1) with (q + 53) by lia).
  rewrite (unfold_at n d (q + 52) Hn ltac:(rewrite Hlog; lia)).
  replace (q + 52 - 52) with q by lia.
  rewrite (round_near incl n d q two53 Hn Hd ltac:(unfold KS; lia) Hnear).
  unfold encode_pos. rewrite Z.eqb_refl.
  assert (E2 : (1023 <? q + 52 + 1) = false) by (apply Z.ltb_ge; lia). rewrite E2.
  change (two52 <? two52) with false. cbv iota. unfold two52. lia.
Qed.

Definition within (incl : bool) (lo_m lo_e hi_m hi_e n d : Z) : Prop :=
  if incl then rle lo_m lo_e n d /\ rge hi_m hi_e n d else rlt lo_m lo_e n d /\ rgt hi_m hi_e n d.

Lemma pow2_shift_mul : forall z c, 0 <= z -> 0 <= c -> 2 ^ (z + c) = 2 ^ c * 2 ^ z.
Proof. intros. rewrite Z.pow_add_r by lia. ring. Qed.

(** normal numbers above the bottom of their binade: rounding interval (T -+ 1/2) * 2^q *)
Lemma class_normal : forall incl n d T q, 0 < n -> 0 < d -> -1074 <= q <= 971 -> two52 < T < two53 ->
  (incl = true -> Z.even T = true) ->
  within incl (2 * T - 1) (q - 1) (2 * T + 1) (q - 1) n d ->
  f64_of_ratio n d = (q + 1075) * two52 + (T - two52).
Proof.
  intros incl n d T q Hn Hd Hq HT Hev Hw.
  assert (HK : 0 <= KS) by (unfold KS; lia).
  assert (HqK : 0 <= q - 1 + KS) by (unfold KS; lia).
  pose proof (pow2_pos (q - 1 + KS) HqK) as HP.
  assert (E1 : 2 ^ (q + KS) = 2 * 2 ^ (q - 1 + KS)).
  { replace (q + KS) with (q - 1 + KS + 1) by lia. rewrite (pow2_shift_mul (q - 1 + KS) 1 HqK ltac:(lia)). reflexivity. }
  assert (E52 : 2 ^ (q + 52 + KS) = 9007199254740992 * 2 ^ (q - 1 + KS)).
  { replace (q + 52 + KS) with (q - 1 + KS + 53) by lia. rewrite (pow2_shift_mul (q - 1 + KS) 53 HqK ltac:(lia)). reflexivity. }
  assert (E53 : 2 ^ (q + 53 + KS) = 18014398509481984 * 2 ^ (q - 1 + KS)).
  { replace (q + 53 + KS) with (q - 1 + KS + 54) by lia. rewrite (pow2_shift_mul (q - 1 + KS) 54 HqK ltac:(lia)). reflexivity. }
  unfold two52, two53 in *.
  set (P := 2 ^ (q - 1 + KS)) in *. set (N := n * 2 ^ KS).
  assert (HPd : 0 < P * d) by nia.
  assert (Hlo : (2 * T - 1) * P * d <= N /\ N <= (2 * T + 1) * P * d /\
                (incl = false -> (2 * T - 1) * P * d < N /\ N < (2 * T + 1) * P * d)).
  { unfold within in Hw. destruct incl.
    - destruct Hw as [H1 H2]. apply (rle_shift _ _ n d KS HK HqK) in H1. apply (rge_shift _ _ n d KS HK HqK) in H2.
      fold P N in H1, H2. split; [exact H1|split; [exact H2|discriminate]].
    - destruct Hw as [H1 H2]. apply (rlt_shift _ _ n d KS HK HqK) in H1. apply (rgt_shift _ _ n d KS HK HqK) in H2.
      fold P N in H1, H2. split; [lia|split; [lia|intros _; split; assumption]]. }
  destruct Hlo as [Hlo [Hhi Hstrict]].
  apply (core_same_binade incl); try assumption; unfold two52, two53; try lia.
  - apply (rle_shift 1 (q + 52) n d KS HK ltac:(unfold KS; lia)). rewrite E52. fold N. nia.
  - apply (rgt_shift 1 (q + 53) n d KS HK ltac:(unfold KS; lia)). rewrite E53. fold N. nia.
  - unfold near. rewrite E1. fold N. destruct incl.
    + split; [now apply Hev|]. split; nia.
    + destruct (Hstrict eq_refl) as [S1 S2]. split; nia.
Qed.

(** subnormals: quantum 2^-1074, T < 2^52 *)
Lemma class_subnormal : forall incl n d T, 0 < n -> 0 < d -> 1 <= T < two52 ->
  (incl = true -> Z.even T = true) ->
  within incl (2 * T - 1) (-1075) (2 * T + 1) (-1075) n d ->
  f64_of_ratio n d = T.
Proof.
  intros incl n d T Hn Hd HT Hev Hw.
  assert (HK : 0 <= KS) by (unfold KS; lia).
  assert (HqK : 0 <= -1075 + KS) by (unfold KS; lia).
  pose proof (pow2_pos (-1075 + KS) HqK) as HP.
  assert (E1 : 2 ^ (-1074 + KS) = 2 * 2 ^ (-1075 + KS)).
  { replace (-1074 + KS) with (-1075 + KS + 1) by lia. rewrite (pow2_shift_mul (-1075 + KS) 1 HqK ltac:(lia)). reflexivity. }
  assert (E22 : 2 ^ (-1022 + KS) = 9007199254740992 * 2 ^ (-1075 + KS)).
  { replace (-1022 + KS) with (-1075 + KS + 53) by lia. rewrite (pow2_shift_mul (-1075 + KS) 53 HqK ltac:(lia)). reflexivity. }
  unfold two52 in *.
  set (P := 2 ^ (-1075 + KS)) in *. set (N := n * 2 ^ KS).
  assert (HPd : 0 < P * d) by nia.
  assert (Hlo : (2 * T - 1) * P * d <= N /\ N <= (2 * T + 1) * P * d /\
                (incl = false -> (2 * T - 1) * P * d < N /\ N < (2 * T + 1) * P * d)).
  { unfold within in Hw. destruct incl.
    - destruct Hw as [H1 H2]. apply (rle_shift _ _ n d KS HK HqK) in H1. apply (rge_shift _ _ n d KS HK HqK) in H2.
      fold P N in H1, H2. split; [exact H1|split; [exact H2|discriminate]].
    - destruct Hw as [H1 H2]. apply (rlt_shift _ _ n d KS HK HqK) in H1. apply (rgt_shift _ _ n d KS HK HqK) in H2.
      fold P N in H1, H2. split; [lia|split; [lia|intros _; split; assumption]]. }
  destruct Hlo as [Hlo [Hhi Hstrict]].
  apply (core_clamped incl); try assumption; unfold two52; try lia.
  - apply (rgt_shift 1 (-1022) n d KS HK ltac:(unfold KS; lia)). rewrite E22. fold N. nia.
  - unfold near. rewrite E1. fold N. destruct incl.
    + split; [now apply Hev|]. split; nia.
    + destruct (Hstrict eq_refl) as [S1 S2]. split; nia.
Qed.

(** the bottom of a binade (mantissa 2^52): the interval is (T - 1/4, T + 1/2) * 2^q, and a value below
    T * 2^q lies in the binade underneath *)
Lemma class_bottom : forall incl n d q, 0 < n -> 0 < d -> -1074 <= q <= 971 ->
  within incl (2 ^ 54 - 1) (q - 2) (2 ^ 54 + 2) (q - 2) n d ->
  f64_of_ratio n d = (q + 1075) * two52.
Proof.
  intros incl n d q Hn Hd Hq Hw.
  assert (HK : 0 <= KS) by (unfold KS; lia).
  assert (HqK : 0 <= q - 2 + KS) by (unfold KS; lia).
  pose proof (pow2_pos (q - 2 + KS) HqK) as HP.
  assert (Eq1 : 2 ^ (q - 1 + KS) = 2 * 2 ^ (q - 2 + KS)).
  { replace (q - 1 + KS) with (q - 2 + KS + 1) by lia. rewrite (pow2_shift_mul _ 1 HqK ltac:(lia)). reflexivity. }
  assert (Eq0 : 2 ^ (q + KS) = 4 * 2 ^ (q - 2 + KS)).
  { replace (q + KS) with (q - 2 + KS + 2) by lia. rewrite (pow2_shift_mul _ 2 HqK ltac:(lia)). reflexivity. }
  assert (E51 : 2 ^ (q + 51 + KS) = 9007199254740992 * 2 ^ (q - 2 + KS)).
  { replace (q + 51 + KS) with (q - 2 + KS + 53) by lia. rewrite (pow2_shift_mul _ 53 HqK ltac:(lia)). reflexivity. }
  assert (E52 : 2 ^ (q + 52 + KS) = 18014398509481984 * 2 ^ (q - 2 + KS)).
  { replace (q + 52 + KS) with (q - 2 + KS + 54) by lia. rewrite (pow2_shift_mul _ 54 HqK ltac:(lia)). reflexivity. }
  assert (E53 : 2 ^ (q + 53 + KS) = 36028797018963968 * 2 ^ (q - 2 + KS)).
  { replace (q + 53 + KS) with (q - 2 + KS + 55) by lia. rewrite (pow2_shift_mul _ 55 HqK ltac:(lia)). reflexivity. }
  change (2 ^ 54 - 1) with 18014398509481983 in Hw. change (2 ^ 54 + 2) with 18014398509481986 in Hw.
  set (P := 2 ^ (q - 2 + KS)) in *. set (N := n * 2 ^ KS).
  assert (HPd : 0 < P * d) by nia.
  assert (Hlo : 18014398509481983 * P * d <= N /\ N <= 18014398509481986 * P * d /\
                (incl = false -> 18014398509481983 * P * d < N /\ N < 18014398509481986 * P * d)).
  { unfold within in Hw. destruct incl.
    - destruct Hw as [H1 H2]. apply (rle_shift _ _ n d KS HK HqK) in H1. apply (rge_shift _ _ n d KS HK HqK) in H2.
      fold P N in H1, H2. split; [exact H1|split; [exact H2|discriminate]].
    - destruct Hw as [H1 H2]. apply (rlt_shift _ _ n d KS HK HqK) in H1. apply (rgt_shift _ _ n d KS HK HqK) in H2.
      fold P N in H1, H2. split; [lia|split; [lia|intros _; split; assumption]]. }
  destruct Hlo as [Hlo [Hhi Hstrict]].
  destruct (Z.le_gt_cases (18014398509481984 * P * d) N) as [Hge|Hlt].
  - (* at or above T * 2^q: same binade *)
    replace ((q + 1075) * two52) with ((q + 1075) * two52 + (two52 - two52)) by lia.
    apply (core_same_binade incl); try assumption; unfold two52, two53; try lia.
    + apply (rle_shift 1 (q + 52) n d KS HK ltac:(unfold KS; lia)). rewrite E52. fold N. nia.
    + apply (rgt_shift 1 (q + 53) n d KS HK ltac:(unfold KS; lia)). rewrite E53. fold N. nia.
    + unfold near. rewrite Eq0. fold N. destruct incl.
      * split; [reflexivity|]. split; nia.
      * destruct (Hstrict eq_refl) as [S1 S2]. split; nia.
  - destruct (Z.eq_dec q (-1074)) as [Hq74|Hq74].
    + (* the smallest normal number: the binade underneath is the subnormal range, same quantum *)
      subst q. replace ((-1074 + 1075) * two52) with two52 by (unfold two52; lia).
      apply (core_clamped incl); try assumption; unfold two52; try lia.
      * apply (rgt_shift 1 (-1022) n d KS HK ltac:(unfold KS; lia)).
        replace (-1022 + KS) with (-1074 + 52 + KS) by lia. rewrite E52. fold N. nia.
      * unfold near. rewrite Eq0. fold N. destruct incl.
        -- split; [reflexivity|]. split; nia.
        -- destruct (Hstrict eq_refl) as [S1 S2]. split; nia.
    + (* the binade underneath has half the quantum; the value rounds up to 2^53 quanta *)
      replace ((q + 1075) * two52) with ((q - 1 + 1076) * two52) by lia.
      apply (core_carry incl); try assumption; try lia.
      * replace (q - 1 + 52) with (q + 51) by lia.
        apply (rle_shift 1 (q + 51) n d KS HK ltac:(unfold KS; lia)). rewrite E51. fold N. nia.
      * replace (q - 1 + 53) with (q + 52) by lia.
        apply (rgt_shift 1 (q + 52) n d KS HK ltac:(unfold KS; lia)). rewrite E52. fold N. nia.
      * unfold near, two53. rewrite Eq1. fold N. destruct incl.
        -- split; [reflexivity|]. split; nia.
        -- destruct (Hstrict eq_refl) as [S1 S2]. split; nia.
Qed.

(** * the reader returns b for every rational in the rounding interval [flt2dec::decode] gives for b *)
Lemma bits_decomp : forall b, 0 <= b < two63 -> b = f64_expf b * two52 + f64_frac b /\ 0 <= f64_expf b < 2048
  /\ 0 <= f64_frac b < two52.
Proof.
  intros b Hb. unfold f64_expf, f64_frac, two63, two52 in *.
  pose proof (Z.div_mod b 4503599627370496 ltac:(lia)) as Hdm.
  pose proof (Z.mod_pos_bound b 4503599627370496 ltac:(lia)) as Hm.
  assert (Hq : 0 <= b / 4503599627370496 < 2048).
  { split; [apply Z.div_pos; lia|apply Z.div_lt_upper_bound; lia]. }
  rewrite (Z.mod_small _ 2048 Hq). lia.
Qed.

Theorem f64_of_ratio_decoded : forall b n d mant minus plus exp incl,
  0 < b < two63 -> f64_decode b = DFinite mant minus plus exp incl ->
  (f64_expf b = 0 -> Z.even (f64_frac b) = true) ->
  0 < n -> 0 < d ->
  within incl (mant - minus) exp (mant + plus) exp n d ->
  f64_of_ratio n d = b.
Proof.
  intros b n d mant minus plus exp incl Hb Hdec Hsub Hn Hd Hw.
  destruct (bits_decomp b ltac:(lia)) as [Hbits [He Hf]].
  unfold f64_decode in Hdec.
  destruct (f64_expf b =? 2047) eqn:E47.
  { destruct (f64_frac b =? 0); discriminate. }
  apply Z.eqb_neq in E47.
  destruct (f64_expf b =? 0) eqn:E0.
  - apply Z.eqb_eq in E0. destruct (f64_frac b =? 0) eqn:Ef0; [discriminate|]. apply Z.eqb_neq in Ef0.
    dfinite_eqs Hdec. subst mant minus plus exp.
    assert (Hincl : incl = true -> Z.even (f64_frac b) = true) by (intros _; now apply Hsub).
    replace (2 * f64_frac b - 1) with (2 * f64_frac b - 1) in Hw by lia.
    rewrite Hbits, E0. replace (0 * two52 + f64_frac b) with (f64_frac b) by lia.
    apply (class_subnormal incl); try assumption; lia.
  - apply Z.eqb_neq in E0.
    destruct (f64_frac b + two52 =? two52) eqn:Emin.
    + apply Z.eqb_eq in Emin. assert (Hf0 : f64_frac b = 0) by lia.
      dfinite_eqs Hdec. subst mant minus plus exp.
      rewrite Hbits, Hf0. replace (f64_expf b * two52 + 0) with ((f64_expf b - 1075 + 1075) * two52) by lia.
      apply (class_bottom incl); try assumption; try lia.
      rewrite Hf0 in Hw. unfold two52 in Hw.
      change (4 * (0 + 4503599627370496) - 1) with (2 ^ 54 - 1) in Hw.
      change (4 * (0 + 4503599627370496) + 2) with (2 ^ 54 + 2) in Hw. exact Hw.
    + apply Z.eqb_neq in Emin.
      dfinite_eqs Hdec. subst mant minus plus exp.
      assert (Hincl : incl = true -> Z.even (f64_frac b + two52) = true).
      { intros Hi. pose proof (f_equal (fun x => match x with DFinite _ _ _ _ i => i | _ => false end) Hdec) as Hi'.
        cbn beta iota in Hi'. rewrite Hi in Hi'. exact Hi'. }
      rewrite Hbits at 1.
      replace (f64_expf b * two52 + f64_frac b) with ((f64_expf b - 1075 + 1075) * two52 + (f64_frac b + two52 - two52)) by lia.
      apply (class_normal incl); try assumption; unfold two53; unfold two52 in *; try lia.
Qed.
