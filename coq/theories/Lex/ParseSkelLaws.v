(** * Lex/ParseSkelLaws.v — laws of the parser's recursion skeleton [Lex/ParseSkel.v]

    - [skel_total] / [depth_linear_upper]: with the fuel [skel_fuel] the skeleton always returns, never
      hands back more tokens than it was given, and the native depth it induces is at most
      [13 * length ts + 3] (every recursion cycle of the parser consumes a token);
    - [depth_unbounded]: the depth is NOT bounded by any constant: [d] nested parentheses (a token
      stream of length [2*d+3]) induce a depth of at least [10*d]; [d] unary minus signs
      ([d+3] tokens) induce at least [d].  Together: stack use is Theta(input length), no cut-off;
    - [depth_bounded_with_limit]: the repaired parser (nesting limit [l]) never exceeds the depth
      [12 * l + 14], whatever the input. *)
From Coq Require Import List ZArith Bool Arith Lia.
From VibeSQL Require Import Lex.Lexer Lex.ParseSkel.
Import ListNotations.
Local Open Scope nat_scope.

(** ** Generic bookkeeping *)
Definition good (B len : nat) (r : option pres) : Prop :=
  match r with
  | None => False
  | Some (POk ts' m') => length ts' <= len /\ m' <= B
  | Some (PErr m') => m' <= B
  end.

Lemma adv_len ts : length (adv ts) <= length ts.
Proof. destruct ts; cbn; lia. Qed.

Lemma at_true_len t ts : at_ t ts = true -> t <> SEof -> S (length (adv ts)) <= length ts.
Proof.
  unfold at_, peek. destruct ts as [|x r]; cbn [adv length].
  - intros H Hne. exfalso. apply Hne. destruct t; cbn in H; try discriminate. reflexivity.
  - intros _ _. lia.
Qed.

Lemma good_ok B len ts m : length ts <= len -> m <= B -> good B len (ok ts m).
Proof. cbn. auto. Qed.

Lemma good_err B len m : m <= B -> good B len (err m).
Proof. cbn. auto. Qed.

Lemma good_expect B len t ts m : length ts <= len -> m <= B -> good B len (expect t ts m).
Proof.
  intros H1 H2. unfold expect. destruct (at_ t ts).
  - apply good_ok; [pose proof (adv_len ts); lia | exact H2].
  - apply good_err; exact H2.
Qed.

Lemma good_bind B len len1 x k :
  good B len1 x ->
  (forall ts' m', length ts' <= len1 -> m' <= B -> good B len (k ts' m')) ->
  good B len (bindP x k).
Proof.
  intros Hx Hk. destruct x as [[ts' m'|m']|]; cbn in *.
  - destruct Hx. apply Hk; assumption.
  - exact Hx.
  - exact Hx.
Qed.

Lemma good_weaken B' len' B len r : good B' len' r -> B' <= B -> len' <= len -> good B len r.
Proof. destruct r as [[ts' m'|m']|]; cbn; intros; [lia | lia | tauto]. Qed.

(** facts about token-list lengths that the arithmetic needs *)
Ltac len_facts :=
  repeat match goal with
         | H : (_ || _) = true |- _ => apply orb_true_iff in H; destruct H
         | H : (_ && _) = true |- _ => apply andb_prop in H; destruct H
         end;
  repeat match goal with
         | H : at_ ?t ?ts = true |- _ =>
             lazymatch goal with
             | _ : S (length (adv ts)) <= length ts |- _ => fail
             | _ => pose proof (at_true_len t ts H ltac:(discriminate))
             end
         end;
  repeat match goal with
         | |- context [adv ?x] =>
             lazymatch goal with
             | _ : length (adv x) <= length x |- _ => fail
             | _ => pose proof (adv_len x)
             end
         | _ : context [adv ?x] |- _ =>
             lazymatch goal with
             | _ : length (adv x) <= length x |- _ => fail
             | _ => pose proof (adv_len x)
             end
         end.

Ltac arith := len_facts; cbn [length] in *; lia.

(** ** Part 1: the code as it is ([lim = None]).  Every cycle consumes a token. *)

(** [rk n]: longest chain of calls below [n] that consumes no token *)
Definition rk (n : nt) : nat :=
  match n with
  | NSpecial | NFunc | NParen | NMulLoop | NAddLoop | NExprListLoop | NAndLoop | NOrLoop
  | NCondLoop | NWhenFirst | NWhenRest | NTableRef | NFromLoop | NSelectInt => 0
  | NPrimary => 1 | NUnary => 2 | NMul => 3 | NAdd => 4 | NCmp => 5 | NNot => 6 | NAnd => 7
  | NOr => 8 | NExpr => 9
  | NExprList | NArgLoop | NSelItem => 10
  | NSelListLoop => 11 | NSelList => 12
  | NFrom => 1 | NSelect => 1 | NStatement => 2
  end.

Definition KT : nat := 13.

Ltac run_step IH :=
  match goal with
  | |- good _ _ (bindP (run _ _ _ _ _ ?t _) _) => apply (good_bind _ _ (length t)); [| intros ? ? ? ?]
  | |- good _ _ (bindP (expect _ ?t _) _) => apply (good_bind _ _ (length t)); [| intros ? ? ? ?]
  | |- good _ _ (bindP (if _ then _ else ok ?t _) _) => apply (good_bind _ _ (length t)); [| intros ? ? ? ?]
  | |- good _ _ (bindP (if _ then ok ?t _ else _) _) => apply (good_bind _ _ (length t)); [| intros ? ? ? ?]
  | |- good _ _ (ok _ _) => apply good_ok; arith
  | |- good _ _ (err _) => apply good_err; arith
  | |- good _ _ (expect _ _ _) => apply good_expect; arith
  | |- good _ _ (run _ _ _ _ _ _ _) =>
      eapply good_weaken; [apply IH; cbn [rk]; unfold KT in *; arith
                          | cbn [rk]; unfold KT in *; arith | arith]
  | |- good _ _ (if ?c then _ else _) => destruct c eqn:?
  | |- good _ _ (let _ := _ in _) => cbv zeta
  | |- context [if ?c then _ else _] => destruct c eqn:?
  end.

Lemma run_good lim : forall fuel n d g ts m,
  rk n + KT * length ts < fuel ->
  good (Nat.max m (d + S (rk n) + KT * length ts)) (length ts) (run lim fuel n d g ts m).
Proof.
  induction fuel as [|f IH]; intros n d g ts m Hf; [lia|].
  destruct n; cbn [run is_frame is_guarded andb]; cbv zeta; cbn [rk] in *; unfold KT in *;
    repeat run_step IH.
Qed.

(** the skeleton is total and hands back a suffix-length token list *)
Theorem skel_total ts : skel_parse ts <> None.
Proof.
  unfold skel_parse, skel_parse_lim, skel_fuel.
  pose proof (run_good None (40 * length ts + 40) NStatement 0 0 ts 0) as H.
  cbn [rk] in H. unfold KT in H.
  intros E. rewrite E in H. apply H. lia.
Qed.

(** so is the repaired parser, for every limit *)
Theorem skel_total_lim l ts : skel_parse_lim (Some l) ts <> None.
Proof.
  unfold skel_parse_lim, skel_fuel.
  pose proof (run_good (Some l) (40 * length ts + 40) NStatement 0 0 ts 0) as H.
  cbn [rk] in H. unfold KT in H.
  intros E. rewrite E in H. apply H. lia.
Qed.

(** the depth is at most linear in the number of tokens *)
Theorem depth_linear_upper ts : skel_depth ts <= 13 * length ts + 3.
Proof.
  unfold skel_depth, skel_parse, skel_parse_lim, skel_fuel.
  pose proof (run_good None (40 * length ts + 40) NStatement 0 0 ts 0) as H.
  cbn [rk] in H. unfold KT in H.
  destruct (run None (40 * length ts + 40) NStatement 0 0 ts 0) as [[ts' m'|m']|];
    cbn [good pres_depth] in *; lia.
Qed.

(** ** Part 2: the repaired parser ([lim = Some l]).  Every cycle passes a guard. *)

Definition goodL (B : nat) (r : option pres) : Prop :=
  match r with
  | None => True
  | Some (POk _ m') => m' <= B
  | Some (PErr m') => m' <= B
  end.

Lemma goodL_bind B x k :
  goodL B x -> (forall ts' m', m' <= B -> goodL B (k ts' m')) -> goodL B (bindP x k).
Proof.
  intros Hx Hk. destruct x as [[ts' m'|m']|]; cbn in *; auto.
Qed.

Lemma goodL_expect B t ts m : m <= B -> goodL B (expect t ts m).
Proof. intros H. unfold expect. destruct (at_ t ts); cbn; exact H. Qed.

Lemma goodL_weaken B' B r : goodL B' r -> B' <= B -> goodL B r.
Proof. destruct r as [[ts' m'|m']|]; cbn; intros; lia. Qed.

(** [dr n]: frames stacked below (and including) [n] before the next guard is passed *)
Definition dr (n : nt) : nat :=
  match n with
  | NSelectInt | NExpr | NFrom => 1
  | NWhenFirst | NWhenRest | NCondLoop | NArgLoop | NExprListLoop => 1
  | NSelect | NFunc | NExprList | NSelItem | NSelListLoop => 2
  | NStatement | NSpecial | NParen | NSelList | NTableRef | NFromLoop => 3
  | NPrimary => 4 | NUnary | NMulLoop => 5 | NMul | NAddLoop => 6 | NAdd => 7 | NCmp => 8
  | NNot | NAndLoop => 9 | NAnd | NOrLoop => 10 | NOr => 11
  end.

Definition KG : nat := 12.

Ltac ltb_facts :=
  repeat match goal with
         | H : (_ <? _) = false |- _ => apply Nat.ltb_ge in H
         | H : (_ <? _) = true |- _ => apply Nat.ltb_lt in H
         end.

Ltac lim_step IH :=
  match goal with
  | |- goodL _ (bindP _ _) => apply goodL_bind; [| intros ? ? ?]
  | |- goodL _ (ok _ _) => cbn [goodL ok]; ltb_facts; lia
  | |- goodL _ (err _) => cbn [goodL err]; ltb_facts; lia
  | |- goodL _ (expect _ _ _) => apply goodL_expect; ltb_facts; lia
  | |- goodL _ (run _ _ _ _ _ _ _) =>
      eapply goodL_weaken; [apply IH; ltb_facts; lia | cbn [dr]; unfold KG in *; ltb_facts; lia]
  | |- goodL _ (if ?c then _ else _) => destruct c eqn:?
  | |- context [if ?c then _ else _] => destruct c eqn:?
  end.

Lemma run_lim_good l : forall fuel n d g ts m,
  g <= l ->
  goodL (Nat.max m (d + dr n + KG * (l - g))) (run (Some l) fuel n d g ts m).
Proof.
  induction fuel as [|f IH]; intros n d g ts m Hg; [exact I|].
  destruct n; cbn [run is_frame is_guarded over andb]; cbv zeta; cbn [dr] in *; unfold KG in *;
    repeat lim_step IH.
Qed.

(** the repaired parser never nests deeper than [12 * l + 3] frames, for every token stream *)
Theorem depth_bounded_with_limit l ts : skel_depth_lim l ts <= 12 * l + 3.
Proof.
  unfold skel_depth_lim, skel_parse_lim.
  pose proof (run_lim_good l (skel_fuel ts) NStatement 0 0 ts 0 (Nat.le_0_l l)) as H.
  cbn [dr] in H. unfold KG in H.
  destruct (run (Some l) (skel_fuel ts) NStatement 0 0 ts 0) as [[ts' m'|m']|];
    cbn [goodL pres_depth] in *; lia.
Qed.

(** ** Part 3: the depth is unbounded (the property is refuted on the model) *)

Definition stopper (ts : list stok) : Prop := peek ts = SRParen \/ peek ts = SEof.

Ltac stop_at H := unfold at_; destruct H as [H|H]; rewrite H; cbn [stok_eqb stok_code Nat.eqb orb].

Lemma loop_stop n f d g ts m :
  In n [NOrLoop; NAndLoop; NAddLoop; NMulLoop] -> stopper ts ->
  run None (S f) n d g ts m = Some (POk ts (Nat.max m d)).
Proof.
  intros Hn H. cbn [In] in Hn.
  destruct Hn as [<-|[<-|[<-|[<-|[]]]]]; cbn [run is_frame is_guarded andb]; cbv zeta;
    stop_at H; reflexivity.
Qed.

(** one binary-operator level: callee, then a loop that stops at once *)
Lemma level_stop n sub lp f1 f2 d g ts ts' m m' :
  In (n, sub, lp) [(NOr, NAnd, NOrLoop); (NAnd, NNot, NAndLoop); (NAdd, NMul, NAddLoop);
                   (NMul, NUnary, NMulLoop)] ->
  f1 = S f2 ->
  run None f1 sub (S d) g ts (Nat.max m (S d)) = Some (POk ts' m') -> stopper ts' ->
  run None (S f1) n d g ts m = Some (POk ts' (Nat.max m' (S d))).
Proof.
  intros Hn Hf Hs Hst. cbn [In] in Hn.
  destruct Hn as [E|[E|[E|[E|[]]]]]; inversion E; subst n sub lp; clear E;
    cbn [run is_frame is_guarded andb]; cbv zeta;
    rewrite Hs; cbn [bindP]; subst f1;
    (rewrite loop_stop; [reflexivity | cbn [In]; tauto | exact Hst]).
Qed.

Lemma cmp_stop f d g ts ts' m m' :
  run None f NAdd (S d) g ts (Nat.max m (S d)) = Some (POk ts' m') -> stopper ts' ->
  run None (S f) NCmp d g ts m = Some (POk ts' m').
Proof.
  intros Hs Hst. cbn [run is_frame is_guarded andb]; cbv zeta. rewrite Hs. cbn [bindP].
  stop_at Hst; cbn [bindP ok]; rewrite Hst; reflexivity.
Qed.

Lemma expr_step f d g ts m :
  run None (S f) NExpr d g ts m = run None f NOr (S d) (S g) ts (Nat.max m (S d)).
Proof. reflexivity. Qed.

Lemma not_step f d g ts m : at_ SNot ts = false ->
  run None (S f) NNot d g ts m = run None f NCmp (S d) g ts (Nat.max m (S d)).
Proof. intros H. cbn [run is_frame is_guarded andb]; cbv zeta. rewrite H. reflexivity. Qed.

Lemma unary_step f d g ts m : at_ SPlus ts = false -> at_ SMinus ts = false ->
  run None (S f) NUnary d g ts m = run None f NPrimary (S d) g ts (Nat.max m (S d)).
Proof. intros H1 H2. cbn [run is_frame is_guarded andb]; cbv zeta. rewrite H1, H2. reflexivity. Qed.

(** from [parse_expression] down to [parse_primary_expression]: 8 frames, when the next token
    starts neither a NOT nor a sign chain and the primary is followed by a closing token *)
Lemma expr_via_unary f d g ts ts' m D :
  at_ SNot ts = false -> stopper ts' -> d + 9 <= D ->
  (forall gg mm, run None (S f) NUnary (7 + d) gg ts mm
                 = Some (POk ts' (Nat.max (Nat.max mm (8 + d)) D))) ->
  run None (8 + f) NExpr d g ts m = Some (POk ts' (Nat.max m D)).
Proof.
  intros HN Hst HD HU.
  assert (HMul : forall gg mm, exists r, run None (S (S f)) NMul (6 + d) gg ts mm
                            = Some (POk ts' r) /\ r = Nat.max mm D).
  { intros gg mm. eexists. split.
    - eapply level_stop; [cbn [In]; tauto | reflexivity | apply HU | exact Hst].
    - lia. }
  assert (HAdd : forall gg mm, exists r, run None (S (S (S f))) NAdd (5 + d) gg ts mm
                            = Some (POk ts' r) /\ r = Nat.max mm D).
  { intros gg mm. destruct (HMul gg (Nat.max mm (S (5 + d)))) as (r & E & Hr).
    eexists. split; [eapply level_stop; [cbn [In]; tauto | reflexivity | exact E | exact Hst] | lia]. }
  assert (HCmp : forall gg mm, exists r, run None (S (S (S (S f)))) NCmp (4 + d) gg ts mm
                            = Some (POk ts' r) /\ r = Nat.max mm D).
  { intros gg mm. destruct (HAdd gg (Nat.max mm (S (4 + d)))) as (r & E & Hr).
    exists r. split; [eapply cmp_stop; [exact E | exact Hst] | lia]. }
  assert (HNot : forall gg mm, exists r, run None (S (S (S (S (S f))))) NNot (3 + d) gg ts mm
                            = Some (POk ts' r) /\ r = Nat.max mm D).
  { intros gg mm. destruct (HCmp gg (Nat.max mm (S (3 + d)))) as (r & E & Hr).
    exists r. split; [| lia]. rewrite not_step by assumption. exact E. }
  assert (HAnd : forall gg mm, exists r, run None (S (S (S (S (S (S f)))))) NAnd (2 + d) gg ts mm
                            = Some (POk ts' r) /\ r = Nat.max mm D).
  { intros gg mm. destruct (HNot gg (Nat.max mm (S (2 + d)))) as (r & E & Hr).
    eexists. split; [eapply level_stop; [cbn [In]; tauto | reflexivity | exact E | exact Hst] | lia]. }
  assert (HOr : forall gg mm, exists r, run None (S (S (S (S (S (S (S f))))))) NOr (1 + d) gg ts mm
                            = Some (POk ts' r) /\ r = Nat.max mm D).
  { intros gg mm. destruct (HAnd gg (Nat.max mm (S (1 + d)))) as (r & E & Hr).
    eexists. split; [eapply level_stop; [cbn [In]; tauto | reflexivity | exact E | exact Hst] | lia]. }
  destruct (HOr (S g) (Nat.max m (S d))) as (r & E & Hr).
  change (8 + f) with (S (S (S (S (S (S (S (S f)))))))).
  rewrite expr_step. change (S d) with (1 + d) at 1. rewrite E. repeat f_equal. lia.
Qed.


Lemma expr_via_primary f d g ts ts' m D :
  at_ SNot ts = false -> at_ SPlus ts = false -> at_ SMinus ts = false -> stopper ts' ->
  d + 9 <= D ->
  (forall gg mm, run None f NPrimary (8 + d) gg ts mm = Some (POk ts' (Nat.max mm D))) ->
  run None (8 + f) NExpr d g ts m = Some (POk ts' (Nat.max m D)).
Proof.
  intros HN HP HM Hst HD Hprim. apply expr_via_unary; try assumption.
  intros gg mm. rewrite unary_step by assumption. apply Hprim.
Qed.

Lemma primary_paren_step f d g ts m :
  run None (S f) NPrimary d g (SLParen :: ts) m
  = run None f NParen (S d) g (SLParen :: ts) (Nat.max m (S d)).
Proof. reflexivity. Qed.

Lemma paren_step f d g ts m : at_ SSelect ts = false ->
  run None (S f) NParen d g (SLParen :: ts) m
  = bindP (run None f NExpr (S d) g ts (Nat.max m (S d))) (expect SRParen).
Proof.
  intros H. cbn [run is_frame is_guarded andb]; cbv zeta.
  cbn [at_ peek adv stok_eqb stok_code Nat.eqb]. fold (at_ SSelect ts). rewrite H. reflexivity.
Qed.

Lemma primary_atom f d g rest m :
  run None (S f) NPrimary d g (SNum :: rest) m = Some (POk rest (Nat.max m (S d))).
Proof. reflexivity. Qed.

(** [k] opening parentheses, a literal, [k] closing parentheses *)
Definition parens (k : nat) (rest : list stok) : list stok :=
  repeat SLParen k ++ SNum :: repeat SRParen k ++ rest.

Lemma parens_S k rest : parens (S k) rest = SLParen :: parens k (SRParen :: rest).
Proof.
  unfold parens. cbn [repeat app]. f_equal. f_equal. f_equal.
  change (SRParen :: repeat SRParen k ++ rest) with ((SRParen :: repeat SRParen k) ++ rest).
  rewrite (repeat_cons k SRParen). rewrite <- app_assoc. reflexivity.
Qed.

Lemma parens_head k rest :
  at_ SSelect (parens k rest) = false /\ at_ SNot (parens k rest) = false /\
  at_ SPlus (parens k rest) = false /\ at_ SMinus (parens k rest) = false.
Proof. destruct k; cbn; auto. Qed.

Lemma paren_expr k : forall f d g rest m, stopper rest ->
  run None (10 * k + 9 + f) NExpr d g (parens k rest) m
  = Some (POk rest (Nat.max m (d + 10 * k + 9))).
Proof.
  induction k as [|k IH]; intros f d g rest m Hst.
  - change (10 * 0 + 9 + f) with (8 + S f).
    destruct (parens_head 0 rest) as (_ & H1 & H2 & H3).
    rewrite (expr_via_primary (S f) d g (parens 0 rest) rest m (d + 10 * 0 + 9));
      try assumption; [reflexivity | lia |].
    intros gg mm. unfold parens. cbn [repeat app]. rewrite primary_atom. do 2 f_equal. lia.
  - replace (10 * S k + 9 + f) with (8 + S (S (10 * k + 9 + f))) by lia.
    destruct (parens_head (S k) rest) as (_ & H1 & H2 & H3).
    rewrite (expr_via_primary _ d g (parens (S k) rest) rest m (d + 10 * S k + 9));
      try assumption; [reflexivity | lia |].
    intros gg mm. rewrite parens_S. rewrite primary_paren_step.
    destruct (parens_head k (SRParen :: rest)) as (H0 & _).
    rewrite (paren_step _ _ _ _ _ H0).
    rewrite IH by (left; reflexivity).
    cbn [bindP expect at_ peek adv stok_eqb stok_code Nat.eqb ok]. unfold ok. do 2 f_equal. lia.
Qed.

(** [SELECT <expr> <eof>]: six frames/levels above the expression *)
Lemma stmt_of_expr F ts D :
  at_ SStar ts = false -> 6 <= D ->
  (forall g m, run None F NExpr 5 g ts m = Some (POk [SEof] (Nat.max m D))) ->
  run None (6 + F) NStatement 0 0 (SSelect :: ts) 0 = Some (POk [SEof] D).
Proof.
  intros Hstar HD HE.
  change (6 + F) with (S (S (S (S (S (S F)))))).
  cbn [run is_frame is_guarded andb over at_ peek adv stok_eqb stok_code Nat.eqb]; cbv zeta.
  fold (at_ SStar ts). rewrite Hstar. rewrite HE.
  cbn [bindP ok at_ peek adv stok_eqb stok_code Nat.eqb]. unfold ok. do 2 f_equal. lia.
Qed.

(** *** the two witness families *)
Definition paren_stmt (k : nat) : list stok := SSelect :: parens k [SEof].
Definition minus_stmt (k : nat) : list stok := SSelect :: repeat SMinus k ++ [SNum; SEof].

Lemma paren_stmt_length k : length (paren_stmt k) = 2 * k + 3.
Proof.
  unfold paren_stmt, parens. cbn [length]. rewrite app_length. cbn [length].
  rewrite app_length, !repeat_length. cbn [length]. lia.
Qed.

Lemma paren_stmt_depth k : skel_parse (paren_stmt k) = Some (POk [SEof] (10 * k + 14)).
Proof.
  unfold skel_parse, skel_parse_lim, skel_fuel. rewrite paren_stmt_length.
  replace (40 * (2 * k + 3) + 40) with (6 + (10 * k + 9 + (70 * k + 145))) by lia.
  unfold paren_stmt. apply stmt_of_expr.
  - destruct k; reflexivity.
  - lia.
  - intros g m. rewrite paren_expr by (right; reflexivity). do 2 f_equal. lia.
Qed.

(** a chain of [k] unary minus signs: one frame per sign *)
Lemma unary_minus_step f d g ts m :
  run None (S f) NUnary d g (SMinus :: ts) m = run None f NUnary (S d) (S g) ts (Nat.max m (S d)).
Proof. reflexivity. Qed.

Lemma minus_unary k : forall f d g rest m,
  run None (k + 2 + f) NUnary d g (repeat SMinus k ++ SNum :: rest) m
  = Some (POk rest (Nat.max m (d + k + 2))).
Proof.
  induction k as [|k IH]; intros f d g rest m.
  - cbn [repeat app]. change (0 + 2 + f) with (S (S f)).
    rewrite unary_step by reflexivity. rewrite primary_atom. do 2 f_equal. lia.
  - cbn [repeat app]. change (S k + 2 + f) with (S (k + 2 + f)).
    rewrite unary_minus_step. rewrite IH. do 2 f_equal. lia.
Qed.

Lemma minus_stmt_length k : length (minus_stmt k) = k + 3.
Proof.
  unfold minus_stmt. cbn [length]. rewrite app_length, repeat_length. cbn [length]. lia.
Qed.

Lemma minus_stmt_depth k : skel_parse (minus_stmt k) = Some (POk [SEof] (k + 14)).
Proof.
  unfold skel_parse, skel_parse_lim, skel_fuel. rewrite minus_stmt_length.
  replace (40 * (k + 3) + 40) with (6 + (8 + (k + 1 + (39 * k + 145)))) by lia.
  unfold minus_stmt. apply stmt_of_expr.
  - destruct k; reflexivity.
  - lia.
  - intros g m.
    rewrite (expr_via_unary _ 5 g _ [SEof] m (k + 14));
      [reflexivity | destruct k; reflexivity | right; reflexivity | lia |].
    intros gg mm.
    replace (S (k + 1 + (39 * k + 145))) with (k + 2 + (39 * k + 145)) by lia.
    rewrite minus_unary. do 2 f_equal. lia.
Qed.

(** [depth_unbounded]: for every [d] there is a token stream of length at most [2*d+3] (indeed
    [d+3]) that drives the parser to at least [d] simultaneously active frames.  No constant
    bounds the native stack the parser needs: the property "never overflows the stack" is false of
    the faithful model. *)
Theorem depth_unbounded : forall d, exists ts, length ts <= 2 * d + 3 /\ d <= skel_depth ts.
Proof.
  intros d. exists (paren_stmt d). split.
  - rewrite paren_stmt_length. lia.
  - unfold skel_depth. rewrite paren_stmt_depth. cbn [pres_depth]. lia.
Qed.

(** the exact growth rates of the two families (ten frames per parenthesis level, one per sign) *)
Theorem depth_parens_exact k : skel_depth (paren_stmt k) = 10 * k + 14.
Proof. unfold skel_depth. rewrite paren_stmt_depth. reflexivity. Qed.

Theorem depth_minus_exact k : skel_depth (minus_stmt k) = k + 14.
Proof. unfold skel_depth. rewrite minus_stmt_depth. reflexivity. Qed.

(** the witnesses are ACCEPTED statements (well-formed SQL, not garbage) *)
Theorem witnesses_accepted k :
  skel_accepts (paren_stmt k) = Some true /\ skel_accepts (minus_stmt k) = Some true.
Proof. unfold skel_accepts. rewrite paren_stmt_depth, minus_stmt_depth. auto. Qed.

(** with the repair, the same witnesses are rejected once they nest deeper than the limit allows,
    instead of growing the stack: concrete instance *)
Example repaired_rejects_deep :
  skel_accepts (paren_stmt 3) = Some true /\
  skel_parse_lim (Some 2) (paren_stmt 3) = Some (PErr 16) /\
  skel_parse_lim (Some 5) (paren_stmt 3) = skel_parse (paren_stmt 3).
Proof. vm_compute. auto. Qed.

Example depth_unbounded_nontrivial : skel_depth (paren_stmt 50) = 514 /\ length (paren_stmt 50) = 103.
Proof. vm_compute. auto. Qed.

Example depth_linear_upper_nontrivial :
  skel_depth (minus_stmt 7) = 21 /\ 13 * length (minus_stmt 7) + 3 = 133.
Proof. vm_compute. auto. Qed.

Example depth_bounded_with_limit_nontrivial :
  skel_depth_lim 5 (paren_stmt 40) = 46 /\ skel_depth (paren_stmt 40) = 414.
Proof. vm_compute. auto. Qed.

(** ** Part 4: the repair is conservative.  Whatever the repaired parser (any limit) accepts, the
    current parser accepts with the same remaining tokens and the same depth: the guard only ever
    turns a result into a ParseError, it never accepts anything new or changes an accepted parse. *)
Definition refines (a b : option pres) : Prop :=
  match a with Some (POk _ _) => b = a | _ => True end.

Lemma refines_refl a : refines a a.
Proof. destruct a as [[? ?|?]|]; cbn; auto. Qed.

Lemma refines_bind x x' k k' :
  refines x x' -> (forall ts m, refines (k ts m) (k' ts m)) -> refines (bindP x k) (bindP x' k').
Proof.
  intros Hx Hk. destruct x as [[ts m|m]|]; cbn in *; auto.
  subst x'. cbn. apply Hk.
Qed.

Ltac ref_step IH :=
  match goal with
  | |- refines ?a ?a => apply refines_refl
  | |- refines (run (Some _) ?f ?n ?d ?g ?ts ?m) (run None ?f ?n ?d ?g ?ts ?m) => apply IH
  | |- refines (bindP _ _) (bindP _ _) => apply refines_bind; [| intros ? ?; cbv beta zeta]
  | |- refines (if ?c then _ else _) (if ?c then _ else _) => destruct c
  | |- refines (if ?c then err _ else _) _ => destruct c; [exact I|]
  | |- refines (err _) _ => exact I
  end.

Lemma run_lim_refines l : forall fuel n d g ts m,
  refines (run (Some l) fuel n d g ts m) (run None fuel n d g ts m).
Proof.
  induction fuel as [|f IH]; intros n d g ts m; [exact I|].
  destruct n; cbn [run is_frame is_guarded over andb]; cbv zeta; repeat ref_step IH.
Qed.

Theorem repair_conservative l ts ts' m :
  skel_parse_lim (Some l) ts = Some (POk ts' m) -> skel_parse ts = Some (POk ts' m).
Proof.
  unfold skel_parse, skel_parse_lim. intros H.
  pose proof (run_lim_refines l (skel_fuel ts) NStatement 0 0 ts 0) as R.
  rewrite H in R. exact R.
Qed.

Example repair_conservative_nontrivial :
  skel_parse_lim (Some 9) (paren_stmt 7) = Some (POk [SEof] 84) /\
  skel_parse (paren_stmt 7) = Some (POk [SEof] 84).
Proof. vm_compute. auto. Qed.

(** ** Statements pinned in Props/C23.v *)
Theorem depth_witnesses k :
  skel_depth (paren_stmt k) = 10 * k + 14 /\ skel_depth (minus_stmt k) = k + 14 /\
  skel_accepts (paren_stmt k) = Some true /\ skel_accepts (minus_stmt k) = Some true.
Proof.
  destruct (witnesses_accepted k) as (A & B).
  repeat split; [apply depth_parens_exact | apply depth_minus_exact | exact A | exact B].
Qed.

(** an input on which the repaired parser (limit [l]) behaves exactly like the current one is not
    deeper than [12*l+3] frames in the current parser *)
Theorem depth_bounded_outside_known_class l ts :
  skel_parse_lim (Some l) ts = skel_parse ts -> skel_depth ts <= 12 * l + 3.
Proof.
  intros H. unfold skel_depth. rewrite <- H. apply depth_bounded_with_limit.
Qed.

Example depth_bounded_outside_known_class_nontrivial :
  skel_parse_lim (Some 5) (paren_stmt 3) = skel_parse (paren_stmt 3) /\
  skel_depth (paren_stmt 3) = 44 /\ 12 * 5 + 3 = 63.
Proof. vm_compute. auto. Qed.

Theorem parser_total_repaired l ts :
  skel_parse_lim (Some l) ts <> None /\ skel_depth_lim l ts <= 12 * l + 3.
Proof. split; [apply skel_total_lim | apply depth_bounded_with_limit]. Qed.
