(** The printer side of the float round trip: the decimal that Dragon4 ([dragon_shortest]) produces lies
    inside the rounding interval of the float it prints (bounds included exactly when the algorithm was
    told they may be). *)
From Coq Require Import List ZArith Bool Lia.
From VibeSQL Require Import Lex.F64Display Lex.F64DisplayLaws Lex.F64RoundLaws.
Import ListNotations.
Open Scope Z_scope.

(** value of a reversed digit list (least significant digit first) *)
Fixpoint rv (acc : list Z) : Z := match acc with [] => 0 | d :: r => 10 * rv r + d end.

Lemma pow10_pos : forall z, 0 <= z -> 0 < 10 ^ z.
Proof. intros. apply Z.pow_pos_nonneg; lia. Qed.

(** what the digit loop has established when it stops after i further rounds *)
Lemma dragon_loop_inv : forall fuel mant minus plus scale incl acc racc rem down up,
  0 < scale ->
  dragon_loop fuel mant minus plus scale incl acc = Some (racc, rem, down, up) ->
  exists i : nat,
    length racc = (length acc + i + 1)%nat /\
    rem + scale * rv racc = 10 ^ Z.of_nat i * (mant + 10 * scale * rv acc) /\
    0 <= rem < scale /\
    down = (if incl then rem <=? minus * 10 ^ Z.of_nat i else rem <? minus * 10 ^ Z.of_nat i) /\
    up = (if incl then scale <=? rem + plus * 10 ^ Z.of_nat i else scale <? rem + plus * 10 ^ Z.of_nat i) /\
    down || up = true.
Proof.
  induction fuel as [|f IH]; intros mant minus plus scale incl acc racc rem down up Hs H;
    cbn [dragon_loop] in H; [discriminate|].
  pose proof (Z.div_mod mant scale ltac:(lia)) as Hdm.
  pose proof (Z.mod_pos_bound mant scale Hs) as Hr.
  destruct ((if incl then mant mod scale <=? minus else mant mod scale <? minus)
            || (if incl then scale <=? mant mod scale + plus else scale <? mant mod scale + plus)) eqn:Ex.
  - inversion H; subst. exists O. cbn [Z.of_nat]. rewrite Z.pow_0_r, !Z.mul_1_r, Z.mul_1_l.
    repeat split; try lia; try assumption.
    + cbn [length]. lia.
    + cbn [rv]. lia.
  - destruct (IH _ _ _ _ _ _ _ _ _ _ Hs H) as [i [Hlen [Hval [Hrem [Hdown [Hup Hex]]]]]].
    exists (S i). rewrite Nat2Z.inj_succ, Z.pow_succ_r by lia.
    repeat split; try lia; try assumption.
    + cbn [length] in Hlen. lia.
    + rewrite Hval. cbn [rv]. nia.
    + rewrite Hdown. replace (minus * 10 * 10 ^ Z.of_nat i) with (minus * (10 * 10 ^ Z.of_nat i)) by ring. reflexivity.
    + rewrite Hup. replace (plus * 10 * 10 ^ Z.of_nat i) with (plus * (10 * 10 ^ Z.of_nat i)) by ring. reflexivity.
Qed.

(** all nines: the carry of [round_up_rev] *)
Lemma round_up_rev_val : forall ds r c, Forall digit_ok ds -> round_up_rev ds = (r, c) ->
  length r = length ds /\
  (if c then rv ds + 1 = 10 ^ Z.of_nat (length ds) /\ rv r = 0 else rv r = rv ds + 1).
Proof.
  induction ds as [|d ds IH]; intros r c Hd H; cbn [round_up_rev] in H.
  - inversion H; subst. split; [reflexivity|]. cbn. split; reflexivity.
  - inversion Hd as [|? ? Hd0 Hds]; subst. destruct (d =? 9) eqn:E.
    + apply Z.eqb_eq in E. subst d. destruct (round_up_rev ds) as [r' c'] eqn:Er. inversion H; subst.
      destruct (IH r' c Hds eq_refl) as [Hl Hv]. split; [cbn [length]; lia|].
      destruct c.
      * destruct Hv as [Hv1 Hv2]. cbn [rv length]. rewrite Nat2Z.inj_succ, Z.pow_succ_r by lia. split; lia.
      * cbn [rv]. lia.
    + inversion H; subst. split; [reflexivity|]. cbn [rv]. lia.
Qed.

Lemma dragon_loop_len : forall fuel mant minus plus scale incl acc racc rem down up,
  dragon_loop fuel mant minus plus scale incl acc = Some (racc, rem, down, up) ->
  (length racc <= length acc + fuel)%nat.
Proof.
  induction fuel as [|f IH]; intros mant minus plus scale incl acc racc rem down up H;
    cbn [dragon_loop] in H; [discriminate|].
  destruct ((if incl then mant mod scale <=? minus else mant mod scale <? minus)
            || (if incl then scale <=? mant mod scale + plus else scale <? mant mod scale + plus)).
  - injection H as <- _ _ _. cbn [length]. lia.
  - apply IH in H. cbn [length] in H. lia.
Qed.

(** value of a digit list, most significant digit first *)
Definition dv (ds : list Z) : Z := rv (rev ds).

Lemma rv_app_one : forall l x, rv (l ++ [x]) = rv l + x * 10 ^ Z.of_nat (length l).
Proof.
  induction l as [|d l IH]; intros x; cbn [app rv length].
  - cbn. lia.
  - rewrite IH, Nat2Z.inj_succ, Z.pow_succ_r by lia. ring.
Qed.

Lemma dv_rev : forall l, dv (rev l) = rv l.
Proof. intros l. unfold dv. now rewrite rev_involutive. Qed.

(** the end of [dragon_shortest]: which number the chosen digits denote, and where it lies *)
Lemma finish_bounds : forall mant minus plus scale incl k ds k',
  0 < scale -> 0 < minus -> 0 < plus ->
  match dragon_loop dragon_fuel mant minus plus scale incl [] with
  | None => None
  | Some (racc, rem, down, up) =>
    if up && (negb down || (scale <=? 2 * rem)) then
      let (r', carry) := round_up_rev racc in
      if carry then Some (1 :: rev r', k + 1) else Some (rev r', k)
    else Some (rev racc, k)
  end = Some (ds, k') ->
  (forall racc rem down up, dragon_loop dragon_fuel mant minus plus scale incl [] = Some (racc, rem, down, up) ->
     Forall digit_ok racc) ->
  exists i : nat,
    (i < dragon_fuel)%nat /\
    k' - Z.of_nat (length ds) = k - (Z.of_nat i + 1) /\
    (if incl
     then 10 ^ Z.of_nat i * (mant - minus) <= dv ds * scale /\ dv ds * scale <= 10 ^ Z.of_nat i * (mant + plus)
     else 10 ^ Z.of_nat i * (mant - minus) < dv ds * scale /\ dv ds * scale < 10 ^ Z.of_nat i * (mant + plus)).
Proof.
  intros mant minus plus scale incl k ds k' Hs Hmi Hpl H Hdig.
  destruct (dragon_loop dragon_fuel mant minus plus scale incl []) as [[[[racc rem] down] up]|] eqn:El; [|discriminate].
  specialize (Hdig racc rem down up eq_refl).
  destruct (dragon_loop_inv _ _ _ _ _ _ _ _ _ _ _ Hs El) as [i [Hlen [Hval [Hrem [Hdown [Hup Hex]]]]]].
  cbn [length rv] in Hlen, Hval. rewrite Z.mul_0_r, Z.add_0_r in Hval.
  pose proof (pow10_pos (Z.of_nat i) ltac:(lia)) as Hp.
  set (P := 10 ^ Z.of_nat i) in *.
  exists i. split; [pose proof (dragon_loop_len _ _ _ _ _ _ _ _ _ _ _ El) as Hll; cbn [length] in Hll; lia|].
  destruct (up && (negb down || (scale <=? 2 * rem))) eqn:Esel.
  - (* rounded up: [up] holds *)
    apply andb_true_iff in Esel. destruct Esel as [Eup _]. rewrite Eup in Hup. symmetry in Hup.
    destruct (round_up_rev racc) as [r' carry] eqn:Er.
    destruct (round_up_rev_val racc r' carry Hdig Er) as [Hl' Hv'].
    assert (Hbound : if incl
      then P * (mant - minus) <= (rv racc + 1) * scale /\ (rv racc + 1) * scale <= P * (mant + plus)
      else P * (mant - minus) < (rv racc + 1) * scale /\ (rv racc + 1) * scale < P * (mant + plus)).
    { destruct incl; [apply Z.leb_le in Hup|apply Z.ltb_lt in Hup]; split; nia. }
    destruct carry.
    + injection H as <- <-. destruct Hv' as [Hv1 Hv2].
      assert (Hdv : dv (1 :: rev r') = rv racc + 1).
      { unfold dv. cbn [rev]. rewrite rev_involutive, rv_app_one, Hv2, Hl', Hv1. lia. }
      rewrite Hdv. split; [|exact Hbound]. cbn [length]. rewrite rev_length, Hl'. lia.
    + injection H as <- <-. rewrite dv_rev, Hv'. split; [|exact Hbound]. rewrite rev_length, Hl'. lia.
  - (* not rounded up: [down] holds *)
    assert (Hd : down = true).
    { destruct down; [reflexivity|]. cbn [orb] in Hex. rewrite Hex in Esel. cbn in Esel. discriminate. }
    rewrite Hd in Hdown. symmetry in Hdown.
    injection H as <- <-. rewrite dv_rev. split; [rewrite rev_length; lia|].
    destruct incl; [apply Z.leb_le in Hdown|apply Z.ltb_lt in Hdown]; split; nia.
Qed.

(** the number D * 10^j as a fraction *)
Definition dec_ratio (D j : Z) : Z * Z := if 0 <=? j then (D * 10 ^ j, 1) else (D, 10 ^ (- j)).

Definition KT : Z := 1600.   (* common shift for the powers of ten *)

Lemma pow10_split : forall x K, 0 <= x -> 0 <= K -> 10 ^ (x + K) = 10 ^ x * 10 ^ K.
Proof. intros. apply Z.pow_add_r; lia. Qed.

Lemma pow10_split_neg : forall x K, x < 0 -> 0 <= x + K -> 10 ^ K = 10 ^ (- x) * 10 ^ (x + K).
Proof. intros. rewrite <- Z.pow_add_r by lia. f_equal. lia. Qed.

(** (G) -> the comparison of X * 2^e with D * 10^j *)
Lemma G_to_rle : forall X e D j, 0 <= e + KS -> 0 <= j + KT ->
  X * 2 ^ (e + KS) * 10 ^ KT <= D * 2 ^ KS * 10 ^ (j + KT) ->
  rle X e (fst (dec_ratio D j)) (snd (dec_ratio D j)).
Proof.
  intros X e D j He Hj G. assert (HK : 0 <= KS) by (unfold KS; lia). assert (HT : 0 <= KT) by (unfold KT; lia).
  pose proof (pow10_pos KT HT) as HTK.
  unfold dec_ratio. destruct (0 <=? j) eqn:Ej; [apply Z.leb_le in Ej|apply Z.leb_gt in Ej]; cbn [fst snd];
    apply (rle_shift _ _ _ _ KS HK He).
  - rewrite (pow10_split j KT Ej HT) in G. pose proof (pow10_pos j Ej).
    apply (Z.mul_le_mono_pos_r _ _ (10 ^ KT) HTK). nia.
  - rewrite (pow10_split_neg j KT Ej Hj) in G. pose proof (pow10_pos (j + KT) Hj) as HJ. pose proof (pow10_pos (- j) ltac:(lia)).
    apply (Z.mul_le_mono_pos_r _ _ (10 ^ (j + KT)) HJ). nia.
Qed.

Lemma G_to_rlt : forall X e D j, 0 <= e + KS -> 0 <= j + KT ->
  X * 2 ^ (e + KS) * 10 ^ KT < D * 2 ^ KS * 10 ^ (j + KT) ->
  rlt X e (fst (dec_ratio D j)) (snd (dec_ratio D j)).
Proof.
  intros X e D j He Hj G. assert (HK : 0 <= KS) by (unfold KS; lia). assert (HT : 0 <= KT) by (unfold KT; lia).
  pose proof (pow10_pos KT HT) as HTK.
  unfold dec_ratio. destruct (0 <=? j) eqn:Ej; [apply Z.leb_le in Ej|apply Z.leb_gt in Ej]; cbn [fst snd];
    apply (rlt_shift _ _ _ _ KS HK He).
  - rewrite (pow10_split j KT Ej HT) in G. pose proof (pow10_pos j Ej).
    apply (Z.mul_lt_mono_pos_r (10 ^ KT) _ _ HTK). nia.
  - rewrite (pow10_split_neg j KT Ej Hj) in G. pose proof (pow10_pos (j + KT) Hj) as HJ. pose proof (pow10_pos (- j) ltac:(lia)).
    apply (Z.mul_lt_mono_pos_r (10 ^ (j + KT)) _ _ HJ). nia.
Qed.

Lemma G_to_rge : forall X e D j, 0 <= e + KS -> 0 <= j + KT ->
  D * 2 ^ KS * 10 ^ (j + KT) <= X * 2 ^ (e + KS) * 10 ^ KT ->
  rge X e (fst (dec_ratio D j)) (snd (dec_ratio D j)).
Proof.
  intros X e D j He Hj G. assert (HK : 0 <= KS) by (unfold KS; lia). assert (HT : 0 <= KT) by (unfold KT; lia).
  pose proof (pow10_pos KT HT) as HTK.
  unfold dec_ratio. destruct (0 <=? j) eqn:Ej; [apply Z.leb_le in Ej|apply Z.leb_gt in Ej]; cbn [fst snd];
    apply (rge_shift _ _ _ _ KS HK He).
  - rewrite (pow10_split j KT Ej HT) in G. pose proof (pow10_pos j Ej).
    apply (Z.mul_le_mono_pos_r _ _ (10 ^ KT) HTK). nia.
  - rewrite (pow10_split_neg j KT Ej Hj) in G. pose proof (pow10_pos (j + KT) Hj) as HJ. pose proof (pow10_pos (- j) ltac:(lia)).
    apply (Z.mul_le_mono_pos_r _ _ (10 ^ (j + KT)) HJ). nia.
Qed.

Lemma G_to_rgt : forall X e D j, 0 <= e + KS -> 0 <= j + KT ->
  D * 2 ^ KS * 10 ^ (j + KT) < X * 2 ^ (e + KS) * 10 ^ KT ->
  rgt X e (fst (dec_ratio D j)) (snd (dec_ratio D j)).
Proof.
  intros X e D j He Hj G. assert (HK : 0 <= KS) by (unfold KS; lia). assert (HT : 0 <= KT) by (unfold KT; lia).
  pose proof (pow10_pos KT HT) as HTK.
  unfold dec_ratio. destruct (0 <=? j) eqn:Ej; [apply Z.leb_le in Ej|apply Z.leb_gt in Ej]; cbn [fst snd];
    apply (rgt_shift _ _ _ _ KS HK He).
  - rewrite (pow10_split j KT Ej HT) in G. pose proof (pow10_pos j Ej).
    apply (Z.mul_lt_mono_pos_r (10 ^ KT) _ _ HTK). nia.
  - rewrite (pow10_split_neg j KT Ej Hj) in G. pose proof (pow10_pos (j + KT) Hj) as HJ. pose proof (pow10_pos (- j) ltac:(lia)).
    apply (Z.mul_lt_mono_pos_r (10 ^ (j + KT)) _ _ HJ). nia.
Qed.

(** from the loop's bound (in the loop's scaled integers) to (G) *)
Lemma bound_to_G_le : forall x X e scale i D kk j,
  0 < scale -> 0 <= i -> j = kk - (i + 1) -> 0 <= j + KT ->
  x * 2 ^ KS * 10 ^ (kk - 1 + KT) = X * 2 ^ (e + KS) * 10 ^ KT * scale ->
  10 ^ i * x <= D * scale ->
  X * 2 ^ (e + KS) * 10 ^ KT <= D * 2 ^ KS * 10 ^ (j + KT).
Proof.
  intros x X e scale i D kk j Hs Hi Hj HjT Hrel Hb.
  replace (kk - 1 + KT) with (i + (j + KT)) in Hrel by lia.
  rewrite (pow10_split i (j + KT) Hi HjT) in Hrel.
  pose proof (pow10_pos i Hi) as Hti. pose proof (pow10_pos (j + KT) HjT) as Htj.
  pose proof (pow2_pos KS ltac:(unfold KS; lia)) as Hp2.
  set (Ti := 10 ^ i) in *. set (Tj := 10 ^ (j + KT)) in *. set (P2 := 2 ^ KS) in *.
  set (R := X * 2 ^ (e + KS) * 10 ^ KT) in *.
  apply (Z.mul_le_mono_pos_r _ _ scale Hs).
  assert (H1 : Ti * x * (P2 * Tj) <= D * scale * (P2 * Tj)) by (apply Z.mul_le_mono_nonneg_r; nia).
  nia.
Qed.

Lemma bound_to_G_lt : forall x X e scale i D kk j,
  0 < scale -> 0 <= i -> j = kk - (i + 1) -> 0 <= j + KT ->
  x * 2 ^ KS * 10 ^ (kk - 1 + KT) = X * 2 ^ (e + KS) * 10 ^ KT * scale ->
  10 ^ i * x < D * scale ->
  X * 2 ^ (e + KS) * 10 ^ KT < D * 2 ^ KS * 10 ^ (j + KT).
Proof.
  intros x X e scale i D kk j Hs Hi Hj HjT Hrel Hb.
  replace (kk - 1 + KT) with (i + (j + KT)) in Hrel by lia.
  rewrite (pow10_split i (j + KT) Hi HjT) in Hrel.
  pose proof (pow10_pos i Hi) as Hti. pose proof (pow10_pos (j + KT) HjT) as Htj.
  pose proof (pow2_pos KS ltac:(unfold KS; lia)) as Hp2.
  set (Ti := 10 ^ i) in *. set (Tj := 10 ^ (j + KT)) in *. set (P2 := 2 ^ KS) in *.
  set (R := X * 2 ^ (e + KS) * 10 ^ KT) in *.
  apply (Z.mul_lt_mono_pos_r scale _ _ Hs).
  assert (H1 : Ti * x * (P2 * Tj) < D * scale * (P2 * Tj)) by (apply Z.mul_lt_mono_pos_r; nia).
  nia.
Qed.

Lemma bound_to_G_ge : forall x X e scale i D kk j,
  0 < scale -> 0 <= i -> j = kk - (i + 1) -> 0 <= j + KT ->
  x * 2 ^ KS * 10 ^ (kk - 1 + KT) = X * 2 ^ (e + KS) * 10 ^ KT * scale ->
  D * scale <= 10 ^ i * x ->
  D * 2 ^ KS * 10 ^ (j + KT) <= X * 2 ^ (e + KS) * 10 ^ KT.
Proof.
  intros x X e scale i D kk j Hs Hi Hj HjT Hrel Hb.
  replace (kk - 1 + KT) with (i + (j + KT)) in Hrel by lia.
  rewrite (pow10_split i (j + KT) Hi HjT) in Hrel.
  pose proof (pow10_pos i Hi) as Hti. pose proof (pow10_pos (j + KT) HjT) as Htj.
  pose proof (pow2_pos KS ltac:(unfold KS; lia)) as Hp2.
  set (Ti := 10 ^ i) in *. set (Tj := 10 ^ (j + KT)) in *. set (P2 := 2 ^ KS) in *.
  set (R := X * 2 ^ (e + KS) * 10 ^ KT) in *.
  apply (Z.mul_le_mono_pos_r _ _ scale Hs).
  assert (H1 : D * scale * (P2 * Tj) <= Ti * x * (P2 * Tj)) by (apply Z.mul_le_mono_nonneg_r; nia).
  nia.
Qed.

Lemma bound_to_G_gt : forall x X e scale i D kk j,
  0 < scale -> 0 <= i -> j = kk - (i + 1) -> 0 <= j + KT ->
  x * 2 ^ KS * 10 ^ (kk - 1 + KT) = X * 2 ^ (e + KS) * 10 ^ KT * scale ->
  D * scale < 10 ^ i * x ->
  D * 2 ^ KS * 10 ^ (j + KT) < X * 2 ^ (e + KS) * 10 ^ KT.
Proof.
  intros x X e scale i D kk j Hs Hi Hj HjT Hrel Hb.
  replace (kk - 1 + KT) with (i + (j + KT)) in Hrel by lia.
  rewrite (pow10_split i (j + KT) Hi HjT) in Hrel.
  pose proof (pow10_pos i Hi) as Hti. pose proof (pow10_pos (j + KT) HjT) as Htj.
  pose proof (pow2_pos KS ltac:(unfold KS; lia)) as Hp2.
  set (Ti := 10 ^ i) in *. set (Tj := 10 ^ (j + KT)) in *. set (P2 := 2 ^ KS) in *.
  set (R := X * 2 ^ (e + KS) * 10 ^ KT) in *.
  apply (Z.mul_lt_mono_pos_r scale _ _ Hs).
  assert (H1 : D * scale * (P2 * Tj) < Ti * x * (P2 * Tj)) by (apply Z.mul_lt_mono_pos_r; nia).
  nia.
Qed.

(** * the state at the entry of the digit loop *)
Definition finish (mant minus plus scale : Z) (incl : bool) (k : Z) : option (list Z * Z) :=
  match dragon_loop dragon_fuel mant minus plus scale incl [] with
  | None => None
  | Some (racc, rem, down, up) =>
    if up && (negb down || (scale <=? 2 * rem)) then
      let (r', carry) := round_up_rev racc in
      if carry then Some (1 :: rev r', k + 1) else Some (rev r', k)
    else Some (rev racc, k)
  end.

(** x1 / scale = x0 * 2^e * 10^(-k0) *)
Definition pre_rel (x1 x0 e scale k0 : Z) : Prop :=
  x1 * 2 ^ KS * 10 ^ (k0 + KT) = x0 * 2 ^ (e + KS) * 10 ^ KT * scale.
(** x_e / scale = x0 * 2^e * 10^(1-kk) *)
Definition entry_rel (x_e x0 e scale kk : Z) : Prop :=
  x_e * 2 ^ KS * 10 ^ (kk - 1 + KT) = x0 * 2 ^ (e + KS) * 10 ^ KT * scale.

Lemma pre_to_entry_bump : forall x1 x0 e scale k0, pre_rel x1 x0 e scale k0 -> entry_rel x1 x0 e scale (k0 + 1).
Proof. intros x1 x0 e scale k0 H. unfold entry_rel. replace (k0 + 1 - 1 + KT) with (k0 + KT) by lia. exact H. Qed.

Lemma pre_to_entry_nobump : forall x1 x0 e scale k0, 0 <= k0 - 1 + KT ->
  pre_rel x1 x0 e scale k0 -> entry_rel (x1 * 10) x0 e scale k0.
Proof.
  intros x1 x0 e scale k0 Hk H. unfold entry_rel, pre_rel in *.
  replace (k0 + KT) with (Z.succ (k0 - 1 + KT)) in H by lia. rewrite Z.pow_succ_r in H by lia.
  rewrite <- H. ring.
Qed.

Lemma pre_rel_A : forall x0 e k0, e < 0 -> k0 < 0 -> 0 <= e + KS -> 0 <= k0 + KT ->
  pre_rel (x0 * 10 ^ (- k0)) x0 e (2 ^ (- e)) k0.
Proof.
  intros x0 e k0 He Hk HeK HkT. unfold pre_rel.
  rewrite (pow10_split_neg k0 KT Hk HkT). rewrite (pow2_split_neg e KS He HeK). ring.
Qed.

Lemma pre_rel_B : forall x0 e k0, e < 0 -> 0 <= k0 -> 0 <= e + KS ->
  pre_rel x0 x0 e (2 ^ (- e) * 10 ^ k0) k0.
Proof.
  intros x0 e k0 He Hk HeK. unfold pre_rel.
  rewrite (pow10_split k0 KT Hk ltac:(unfold KT; lia)). rewrite (pow2_split_neg e KS He HeK). ring.
Qed.

Lemma pre_rel_C : forall x0 e k0, 0 <= e -> k0 < 0 -> 0 <= k0 + KT ->
  pre_rel (x0 * 2 ^ e * 10 ^ (- k0)) x0 e 1 k0.
Proof.
  intros x0 e k0 He Hk HkT. unfold pre_rel.
  rewrite (pow10_split_neg k0 KT Hk HkT). rewrite (pow2_split e KS He ltac:(unfold KS; lia)). ring.
Qed.

Lemma pre_rel_D : forall x0 e k0, 0 <= e -> 0 <= k0 ->
  pre_rel (x0 * 2 ^ e) x0 e (1 * 10 ^ k0) k0.
Proof.
  intros x0 e k0 He Hk. unfold pre_rel.
  rewrite (pow10_split k0 KT Hk ltac:(unfold KT; lia)). rewrite (pow2_split e KS He ltac:(unfold KS; lia)). ring.
Qed.

Record entry_ok (m mi pl e : Z) (mant_e minus_e plus_e scale kk : Z) : Prop := {
  eo_scale : 0 < scale;
  eo_mant : 0 <= mant_e < 10 * scale;
  eo_minus : 0 < minus_e;
  eo_plus : 0 < plus_e;
  eo_fuel : scale < fuel_bound;
  eo_kk : -401 <= kk <= 401;
  eo_rel_mant : entry_rel mant_e m e scale kk;
  eo_rel_minus : entry_rel minus_e mi e scale kk;
  eo_rel_plus : entry_rel plus_e pl e scale kk;
  eo_low : scale <= mant_e + plus_e
}.

Lemma bumped_le : forall (incl : bool) S M P,
  (if incl then S <=? M + P else S <? M + P) = true -> S <= M + P.
Proof. intros incl S M P H. destruct incl; [apply Z.leb_le in H|apply Z.ltb_lt in H]; lia. Qed.

Local Opaque dragon_loop.

Lemma dragon_entry : forall m mi pl e incl,
  2 <= m -> m + pl <= 2 ^ 55 -> 0 < mi -> 0 < pl -> -1077 <= e <= 970 ->
  exists mant_e minus_e plus_e scale kk,
    dragon_shortest m mi pl e incl = finish mant_e minus_e plus_e scale incl kk /\
    entry_ok m mi pl e mant_e minus_e plus_e scale kk.
Proof.
  intros m mi pl e incl Hm Hx Hmi Hpl He.
  destruct (bitlen_spec (m + pl) ltac:(lia)) as [Hnb1 Hxn].
  pose proof (bitlen_upper (m + pl) 55 ltac:(lia) ltac:(lia)) as Hnb2.
  destruct (estimate_upper (m + pl) e (bitlen (m + pl - 1)) ltac:(lia) Hxn Hnb1 ltac:(lia))
    as [Hk [F1 [F2 [F3 F4]]]].
  destruct (estimate_lower (m + pl) e (bitlen (m + pl - 1)) ltac:(lia) (bitlen_lower (m + pl) ltac:(lia)) Hnb1 ltac:(lia))
    as [G1 [G2 G4]].
  unfold dragon_shortest. unfold estimate_scaling_factor. fold (est (bitlen (m + pl - 1) + e)).
  set (k0 := est (bitlen (m + pl - 1) + e)) in *.
  clearbody k0. clear Hxn Hnb1 Hnb2 Hx.
  assert (H10 : forall n, 0 <= n -> 0 < 10 ^ n) by (intros; apply Z.pow_pos_nonneg; lia).
  assert (H2 : forall n, 0 <= n -> 0 < 2 ^ n) by (intros; apply Z.pow_pos_nonneg; lia).
  assert (HeK : 0 <= e + KS) by (unfold KS; lia).
  assert (HkT : 0 <= k0 + KT) by (unfold KT; lia).
  assert (HkT' : 0 <= k0 - 1 + KT) by (unfold KT; lia).
  destruct (e <? 0) eqn:Ee; [apply Z.ltb_lt in Ee|apply Z.ltb_ge in Ee];
    destruct (k0 <? 0) eqn:Ek; [apply Z.ltb_lt in Ek|apply Z.ltb_ge in Ek|apply Z.ltb_lt in Ek|apply Z.ltb_ge in Ek];
    cbv beta iota.
  - (* A *)
    specialize (F1 Ee Ek). clear F2 F3 F4. specialize (G1 Ee Ek). clear G2 G4.
    replace ((m + pl) * 10 ^ (- k0) * 10) with ((m * 10 ^ (- k0) + pl * 10 ^ (- k0)) * 10) in G1 by ring.
    pose proof (H2 (- e) ltac:(lia)) as Hs. pose proof (H10 (- k0) ltac:(lia)) as Ht.
    pose proof (pow2_lt_bound (- e) ltac:(lia)) as Hsb.
    pose proof (pre_rel_A m e k0 Ee Ek HeK HkT) as Rm. pose proof (pre_rel_A mi e k0 Ee Ek HeK HkT) as Rmi.
    pose proof (pre_rel_A pl e k0 Ee Ek HeK HkT) as Rpl.
    replace ((m + pl) * 10 ^ (- k0)) with (m * 10 ^ (- k0) + pl * 10 ^ (- k0)) in F1 by ring.
    assert (HM : 0 < m * 10 ^ (- k0)) by (apply Z.mul_pos_pos; lia).
    assert (HP : 0 < pl * 10 ^ (- k0)) by (apply Z.mul_pos_pos; lia).
    assert (HMI : 0 < mi * 10 ^ (- k0)) by (apply Z.mul_pos_pos; lia).
    remember (2 ^ (- e)) as S eqn:ES. remember (m * 10 ^ (- k0)) as M eqn:EM.
    remember (pl * 10 ^ (- k0)) as P eqn:EP. remember (mi * 10 ^ (- k0)) as MI eqn:EMI.
    clear ES EM EP EMI H10 H2 Ht.
    destruct (if incl then S <=? M + P else S <? M + P) eqn:Eb; cbv beta iota.
    + exists M, MI, P, S, (k0 + 1). split; [unfold finish; reflexivity|].
      assert (Hbump := bumped_le _ _ _ _ Eb).
      constructor; try lia; now apply pre_to_entry_bump.
    + destruct (entry_not_bumped incl M P S ltac:(lia) HP Eb) as [Hm1 Hp1].
      exists (M * 10), (MI * 10), (P * 10), S, k0. split; [unfold finish; reflexivity|].
      constructor; try lia; now apply pre_to_entry_nobump.
  - (* B *)
    specialize (F2 Ee Ek). clear F1 F3 F4. specialize (G2 Ee Ek). clear G1 G4.
    pose proof (H2 (- e) ltac:(lia)) as Hs. pose proof (H10 k0 ltac:(lia)) as Ht.
    pose proof (prod_lt_bound (- e) k0 ltac:(lia) ltac:(lia)) as Hsb.
    assert (HS : 0 < 2 ^ (- e) * 10 ^ k0) by (apply Z.mul_pos_pos; lia).
    pose proof (pre_rel_B m e k0 Ee Ek HeK) as Rm. pose proof (pre_rel_B mi e k0 Ee Ek HeK) as Rmi.
    pose proof (pre_rel_B pl e k0 Ee Ek HeK) as Rpl.
    remember (2 ^ (- e) * 10 ^ k0) as S eqn:ES. clear ES H10 H2 Ht Hs.
    destruct (if incl then S <=? m + pl else S <? m + pl) eqn:Eb; cbv beta iota.
    + exists m, mi, pl, S, (k0 + 1). split; [unfold finish; reflexivity|].
      assert (Hbump := bumped_le _ _ _ _ Eb).
      constructor; try lia; now apply pre_to_entry_bump.
    + destruct (entry_not_bumped incl m pl S ltac:(lia) Hpl Eb) as [Hm1 Hp1].
      exists (m * 10), (mi * 10), (pl * 10), S, k0. split; [unfold finish; reflexivity|].
      constructor; try lia; now apply pre_to_entry_nobump.
  - (* C *)
    specialize (F3 Ee Ek). clear F1 F2 F4 G1 G2 G4.
    pose proof (H2 e ltac:(lia)) as Hs. pose proof (H10 (- k0) ltac:(lia)) as Ht.
    pose proof (pre_rel_C m e k0 Ee Ek HkT) as Rm. pose proof (pre_rel_C mi e k0 Ee Ek HkT) as Rmi.
    pose proof (pre_rel_C pl e k0 Ee Ek HkT) as Rpl.
    replace ((m + pl) * 2 ^ e * 10 ^ (- k0)) with (m * 2 ^ e * 10 ^ (- k0) + pl * 2 ^ e * 10 ^ (- k0)) in F3 by ring.
    assert (HM : 0 < m * 2 ^ e * 10 ^ (- k0)) by (apply Z.mul_pos_pos; [apply Z.mul_pos_pos|]; lia).
    assert (HP : 0 < pl * 2 ^ e * 10 ^ (- k0)) by (apply Z.mul_pos_pos; [apply Z.mul_pos_pos|]; lia).
    assert (HMI : 0 < mi * 2 ^ e * 10 ^ (- k0)) by (apply Z.mul_pos_pos; [apply Z.mul_pos_pos|]; lia).
    pose proof fuel_bound_pos as Hfb.
    remember (m * 2 ^ e * 10 ^ (- k0)) as M eqn:EM. remember (pl * 2 ^ e * 10 ^ (- k0)) as P eqn:EP.
    remember (mi * 2 ^ e * 10 ^ (- k0)) as MI eqn:EMI. clear EM EP EMI H10 H2 Ht Hs.
    destruct (if incl then 1 <=? M + P else 1 <? M + P) eqn:Eb; cbv beta iota.
    + exists M, MI, P, 1, (k0 + 1). split; [unfold finish; reflexivity|].
      assert (Hbump := bumped_le _ _ _ _ Eb).
      constructor; try lia; now apply pre_to_entry_bump.
    + destruct (entry_not_bumped incl M P 1 ltac:(lia) HP Eb) as [Hm1 Hp1].
      exists (M * 10), (MI * 10), (P * 10), 1, k0. split; [unfold finish; reflexivity|].
      constructor; try lia; now apply pre_to_entry_nobump.
  - (* D *)
    specialize (F4 Ee Ek). clear F1 F2 F3. specialize (G4 Ee Ek). clear G1 G2.
    replace ((m + pl) * 2 ^ e * 10) with ((m * 2 ^ e + pl * 2 ^ e) * 10) in G4 by ring.
    pose proof (H2 e ltac:(lia)) as Hs. pose proof (H10 k0 ltac:(lia)) as Ht.
    pose proof (pow10_lt_bound k0 ltac:(lia)) as Hsb.
    pose proof (pre_rel_D m e k0 Ee Ek) as Rm. pose proof (pre_rel_D mi e k0 Ee Ek) as Rmi.
    pose proof (pre_rel_D pl e k0 Ee Ek) as Rpl.
    replace ((m + pl) * 2 ^ e) with (m * 2 ^ e + pl * 2 ^ e) in F4 by ring.
    assert (HM : 0 < m * 2 ^ e) by (apply Z.mul_pos_pos; lia).
    assert (HP : 0 < pl * 2 ^ e) by (apply Z.mul_pos_pos; lia).
    assert (HMI : 0 < mi * 2 ^ e) by (apply Z.mul_pos_pos; lia).
    assert (E1 : 1 * 10 ^ k0 = 10 ^ k0) by lia. rewrite E1 in *.
    remember (10 ^ k0) as S eqn:ES. remember (m * 2 ^ e) as M eqn:EM. remember (pl * 2 ^ e) as P eqn:EP.
    remember (mi * 2 ^ e) as MI eqn:EMI. clear ES EM EP EMI H10 H2 Hs E1.
    destruct (if incl then S <=? M + P else S <? M + P) eqn:Eb; cbv beta iota.
    + exists M, MI, P, S, (k0 + 1). split; [unfold finish; reflexivity|].
      assert (Hbump := bumped_le _ _ _ _ Eb).
      constructor; try lia; now apply pre_to_entry_bump.
    + destruct (entry_not_bumped incl M P S ltac:(lia) HP Eb) as [Hm1 Hp1].
      exists (M * 10), (MI * 10), (P * 10), S, k0. split; [unfold finish; reflexivity|].
      constructor; try lia; now apply pre_to_entry_nobump.
Qed.

Local Transparent dragon_loop.

(** * Dragon4's decimal lies in the rounding interval it was given *)
Local Opaque dragon_loop.

Theorem dragon_in_interval : forall m mi pl e incl ds k,
  2 <= m -> m + pl <= 2 ^ 55 -> 0 < mi -> 0 < pl -> -1077 <= e <= 970 ->
  dragon_shortest m mi pl e incl = Some (ds, k) ->
  let j := k - Z.of_nat (length ds) in
  within incl (m - mi) e (m + pl) e (fst (dec_ratio (dv ds) j)) (snd (dec_ratio (dv ds) j)).
Proof.
  intros m mi pl e incl ds k Hm Hx Hmi Hpl He Hds j.
  destruct (dragon_entry m mi pl e incl Hm Hx Hmi Hpl He) as [mant_e [minus_e [plus_e [scale [kk [Heq Hok]]]]]].
  rewrite Heq in Hds. destruct Hok as [Hs Hme Hmie Hple Hfb Hkk Rm Rmi Rpl].
  assert (Hlen : forall racc rem down up, dragon_loop dragon_fuel mant_e minus_e plus_e scale incl [] = Some (racc, rem, down, up) ->
            Forall digit_ok racc /\ (length racc <= dragon_fuel)%nat).
  { intros racc rem down up Hl. split.
    - now destruct (dragon_loop_digits _ _ _ _ _ _ _ _ _ _ _ Hs Hme (Forall_nil _) Hl).
    - apply dragon_loop_len in Hl. cbn [length] in Hl. lia. }
  unfold finish in Hds.
  destruct (finish_bounds mant_e minus_e plus_e scale incl kk ds k Hs Hmie Hple Hds
              (fun racc rem down up Hl => proj1 (Hlen racc rem down up Hl))) as [i [Hi [Hj Hb]]].
  fold j in Hj.
  assert (HjT : 0 <= j + KT) by (unfold KT, dragon_fuel in *; lia).
  assert (HeK : 0 <= e + KS) by (unfold KS; lia).
  assert (Hi0 : 0 <= Z.of_nat i) by lia.
  assert (Rlo : (mant_e - minus_e) * 2 ^ KS * 10 ^ (kk - 1 + KT) = (m - mi) * 2 ^ (e + KS) * 10 ^ KT * scale).
  { unfold entry_rel in Rm, Rmi.
    replace ((mant_e - minus_e) * 2 ^ KS * 10 ^ (kk - 1 + KT)) with
      (mant_e * 2 ^ KS * 10 ^ (kk - 1 + KT) - minus_e * 2 ^ KS * 10 ^ (kk - 1 + KT)) by ring.
    rewrite Rm, Rmi. ring. }
  assert (Rhi : (mant_e + plus_e) * 2 ^ KS * 10 ^ (kk - 1 + KT) = (m + pl) * 2 ^ (e + KS) * 10 ^ KT * scale).
  { unfold entry_rel in Rm, Rpl.
    replace ((mant_e + plus_e) * 2 ^ KS * 10 ^ (kk - 1 + KT)) with
      (mant_e * 2 ^ KS * 10 ^ (kk - 1 + KT) + plus_e * 2 ^ KS * 10 ^ (kk - 1 + KT)) by ring.
    rewrite Rm, Rpl. ring. }
  unfold within. destruct incl; destruct Hb as [Hlo Hhi]; split.
  - apply G_to_rle; try assumption.
    apply (bound_to_G_le (mant_e - minus_e) (m - mi) e scale (Z.of_nat i) (dv ds) kk j); try assumption; lia.
  - apply G_to_rge; try assumption.
    apply (bound_to_G_ge (mant_e + plus_e) (m + pl) e scale (Z.of_nat i) (dv ds) kk j); try assumption; lia.
  - apply G_to_rlt; try assumption.
    apply (bound_to_G_lt (mant_e - minus_e) (m - mi) e scale (Z.of_nat i) (dv ds) kk j); try assumption; lia.
  - apply G_to_rgt; try assumption.
    apply (bound_to_G_gt (mant_e + plus_e) (m + pl) e scale (Z.of_nat i) (dv ds) kk j); try assumption; lia.
Qed.

Local Transparent dragon_loop.

(** * Dragon4 stops after at most 18 rounds: at most 19 digits *)
Lemma dragon_loop_fuel_mono : forall f g mant minus plus scale incl acc r,
  dragon_loop f mant minus plus scale incl acc = Some r ->
  dragon_loop (f + g) mant minus plus scale incl acc = Some r.
Proof.
  induction f as [|f IH]; intros g mant minus plus scale incl acc r H; cbn [dragon_loop] in H; [discriminate|].
  cbn [Nat.add dragon_loop].
  destruct ((if incl then mant mod scale <=? minus else mant mod scale <? minus)
            || (if incl then scale <=? mant mod scale + plus else scale <? mant mod scale + plus)); [exact H|].
  now apply IH.
Qed.

Local Opaque dragon_loop.

Lemma two55_lt_pow10 : 2 ^ 55 < 10 ^ 17.
Proof. reflexivity. Qed.

Lemma entry_short : forall m mi pl e mant_e minus_e plus_e scale kk incl,
  2 <= m -> m + pl <= 2 ^ 55 -> 0 < pl ->
  entry_ok m mi pl e mant_e minus_e plus_e scale kk ->
  exists r, dragon_loop 18 mant_e minus_e plus_e scale incl [] = Some r /\
            dragon_loop dragon_fuel mant_e minus_e plus_e scale incl [] = Some r.
Proof.
  intros m mi pl e mant_e minus_e plus_e scale kk incl Hm Hx Hpl Hok.
  destruct Hok as [Hs Hme Hmie Hple Hfb Hkk Rm Rmi Rpl Hlow].
  (* plus_e / (mant_e + plus_e) = pl / (m + pl) *)
  assert (Hcross : plus_e * (m + pl) = pl * (mant_e + plus_e)).
  { unfold entry_rel in Rm, Rpl.
    pose proof (pow2_pos KS ltac:(unfold KS; lia)) as H2. pose proof (pow10_pos (kk - 1 + KT) ltac:(unfold KT; lia)) as H10.
    set (C := 2 ^ KS * 10 ^ (kk - 1 + KT)).
    assert (HC : 0 < C) by (unfold C; nia).
    set (R := 2 ^ (e + KS) * 10 ^ KT * scale).
    assert (E1 : mant_e * C = m * R) by (unfold C, R; rewrite !Z.mul_assoc; rewrite <- Rm; ring).
    assert (E2 : plus_e * C = pl * R) by (unfold C, R; rewrite !Z.mul_assoc; rewrite <- Rpl; ring).
    apply (Z.mul_reg_r _ _ C ltac:(lia)). nia. }
  assert (Hb : scale < plus_e * 10 ^ (Z.of_nat 18 - 1)).
  { change (Z.of_nat 18 - 1) with 17. pose proof two55_lt_pow10 as H55.
    assert (scale * pl <= plus_e * 2 ^ 55) by nia.
    assert (scale <= scale * pl) by nia. nia. }
  pose proof (dragon_loop_terminates 18 mant_e minus_e plus_e scale incl [] Hs ltac:(lia) Hple ltac:(lia) Hb) as Ht.
  destruct (dragon_loop 18 mant_e minus_e plus_e scale incl []) as [r|] eqn:El; [|contradiction].
  exists r. split; [reflexivity|].
  change dragon_fuel with (18 + 1082)%nat. now apply dragon_loop_fuel_mono.
Qed.

Theorem dragon_digit_count : forall m mi pl e incl ds k,
  2 <= m -> m + pl <= 2 ^ 55 -> 0 < mi -> 0 < pl -> -1077 <= e <= 970 ->
  dragon_shortest m mi pl e incl = Some (ds, k) ->
  (length ds <= 19)%nat /\ -421 <= k - Z.of_nat (length ds).
Proof.
  intros m mi pl e incl ds k Hm Hx Hmi Hpl He Hds.
  destruct (dragon_entry m mi pl e incl Hm Hx Hmi Hpl He) as [mant_e [minus_e [plus_e [scale [kk [Heq Hok]]]]]].
  rewrite Heq in Hds.
  destruct (entry_short m mi pl e mant_e minus_e plus_e scale kk incl Hm Hx Hpl Hok) as [[[[racc rem] down] up] [H18 Hfull]].
  destruct Hok as [Hs Hme Hmie Hple Hfb Hkk Rm Rmi Rpl Hlow].
  unfold finish in Hds. rewrite Hfull in Hds.
  pose proof (dragon_loop_len _ _ _ _ _ _ _ _ _ _ _ H18) as Hlen. cbn [length] in Hlen.
  destruct (dragon_loop_digits _ _ _ _ _ _ _ _ _ _ _ Hs Hme (Forall_nil _) H18) as [Hdig _].
  destruct (up && (negb down || (scale <=? 2 * rem))).
  - destruct (round_up_rev racc) as [r' c] eqn:Er.
    destruct (round_up_rev_val racc r' c Hdig Er) as [Hl' _].
    destruct c; injection Hds as <- <-; cbn [length]; rewrite rev_length; lia.
  - injection Hds as <- <-. rewrite rev_length. lia.
Qed.

Local Transparent dragon_loop.

(** * subnormals: the printed decimal never hits an end point of the interval *)
Lemma odd_pow5 : forall t, 0 <= t -> Z.odd (5 ^ t) = true.
Proof.
  intros t Ht. destruct (Z.eq_dec t 0) as [->|Hn]; [reflexivity|]. rewrite Z.odd_pow by lia. reflexivity.
Qed.

(** an odd multiple of 10^t is not a multiple of 2^c for t < c *)
Lemma odd_pow10_ne : forall a t D c, Z.odd a = true -> 0 <= t < c -> a * 10 ^ t <> D * 2 ^ c.
Proof.
  intros a t D c Ha Ht E.
  change 10 with (2 * 5) in E. rewrite Z.pow_mul_l in E.
  replace c with (t + (c - t)) in E by lia. rewrite Z.pow_add_r in E by lia.
  pose proof (pow2_pos t ltac:(lia)) as H2.
  assert (E' : a * 5 ^ t = D * 2 ^ (c - t)).
  { apply (Z.mul_reg_r _ _ (2 ^ t) ltac:(lia)).
    transitivity (a * (2 ^ t * 5 ^ t)); [ring|]. rewrite E. ring. }
  assert (Hodd : Z.odd (a * 5 ^ t) = true) by (rewrite Z.odd_mul, Ha, (odd_pow5 t ltac:(lia)); reflexivity).
  rewrite E' in Hodd. replace (c - t) with (Z.succ (c - t - 1)) in Hodd by lia.
  rewrite Z.pow_succ_r in Hodd by lia. rewrite Z.odd_mul, Z.odd_mul in Hodd. cbn in Hodd.
  rewrite andb_false_r in Hodd. discriminate.
Qed.

(** with fewer than 1075 fraction digits the bounds of a subnormal's interval are not attained *)
Lemma subnormal_strict : forall T D j, 1 <= T < two52 -> -1075 < j -> 0 < D ->
  within true (2 * T - 1) (-1075) (2 * T + 1) (-1075) (fst (dec_ratio D j)) (snd (dec_ratio D j)) ->
  within false (2 * T - 1) (-1075) (2 * T + 1) (-1075) (fst (dec_ratio D j)) (snd (dec_ratio D j)).
Proof.
  intros T D j HT Hj HD H. unfold within in *. destruct H as [Hlo Hhi].
  unfold rle, rge, rlt, rgt in *. change (0 <=? -1075) with false in *. cbv iota in *.
  change (- -1075) with 1075 in *.
  unfold dec_ratio in *. destruct (0 <=? j) eqn:Ej; [apply Z.leb_le in Ej|apply Z.leb_gt in Ej]; cbn [fst snd] in *.
  - (* an integer >= 1 is far above every subnormal *)
    exfalso. pose proof (pow10_pos j Ej). unfold two52 in HT.
    assert (9007199254740992 < 2 ^ 1075) by (apply Z.ltb_lt; vm_compute; reflexivity).
    assert (1 * 2 ^ 1075 <= D * 10 ^ j * 2 ^ 1075) by (apply Z.mul_le_mono_nonneg_r; [apply Z.pow_nonneg; lia|nia]).
    lia.
  - assert (Ho1 : Z.odd (2 * T - 1) = true).
    { rewrite Z.odd_sub, Z.odd_mul. reflexivity. }
    assert (Ho2 : Z.odd (2 * T + 1) = true).
    { rewrite Z.odd_add, Z.odd_mul. reflexivity. }
    pose proof (odd_pow10_ne (2 * T - 1) (- j) D 1075 Ho1 ltac:(lia)) as N1.
    pose proof (odd_pow10_ne (2 * T + 1) (- j) D 1075 Ho2 ltac:(lia)) as N2.
    split; lia.
Qed.

(** the reader on subnormals with the bounds excluded: no parity condition *)
Lemma f64_of_ratio_subnormal_strict : forall b n d, 0 < b < two63 -> f64_expf b = 0 -> 0 < n -> 0 < d ->
  within false (2 * f64_frac b - 1) (-1075) (2 * f64_frac b + 1) (-1075) n d ->
  f64_of_ratio n d = b.
Proof.
  intros b n d Hb He Hn Hd Hw.
  destruct (bits_decomp b ltac:(lia)) as [Hbits [_ Hf]].
  rewrite Hbits, He. replace (0 * two52 + f64_frac b) with (f64_frac b) by lia.
  apply (class_subnormal false); try assumption; [|discriminate].
  rewrite He in Hbits. lia.
Qed.
