(** A small, self-contained model of the SQL lexer (crates/vibesql-parser/src/lexer/{mod,strings,
    numbers,identifiers,keywords}.rs) covering what [load_sql_dump] meets in the statements of a
    dump: white space and [--] comments, the punctuation tokens, numbers, ['...'] string literals
    with doubled quotes (a backslash is an ordinary character), ["..."] / [`...`] delimited
    identifiers, and ASCII identifiers / keywords (the keyword table is the one regenerated from
    keywords.rs into Generated/Consts.v).

    It is a faithful RESTRICTION of the real lexer: wherever the real lexer would need something
    this model does not describe (multi-character operators, [@] variables, an identifier that
    continues with a non-ASCII character, whose [char::is_alphanumeric] is not modelled) the
    result is [LAbstain], never a guess.  [LErr] is returned only where the real lexer returns
    [Err].  Definitions only (proofs: Lex/DumpLexLaws.v). *)
From Coq Require Import List ZArith Bool.
From VibeSQL Require Import Value.Dec Value.RStr Generated.Consts.
Import ListNotations.
Open Scope Z_scope.

Inductive tok : Type :=
| TNum (text : str)          (* Token::Number *)
| TStr (text : str)          (* Token::String *)
| TIdent (text : str)        (* Token::Identifier (upper-cased) *)
| TKw (name : str)           (* Token::Keyword(k): [name] is the Debug name of the variant *)
| TDelim (text : str)        (* Token::DelimitedIdentifier *)
| TSym (c : Z)               (* Token::Symbol *)
| TComma | TLParen | TRParen | TSemi.

Inductive lres (A : Type) : Type :=
| LOk (a : A)
| LErr          (* the real lexer returns Err(LexerError) *)
| LAbstain.     (* outside the modelled fragment *)
Arguments LOk {A} a.
Arguments LErr {A}.
Arguments LAbstain {A}.

Definition tcons (t : tok) (r : lres (list tok)) : lres (list tok) :=
  match r with LOk ts => LOk (t :: ts) | LErr => LErr | LAbstain => LAbstain end.

(** [skip_whitespace_and_comments]: white space ([char::is_whitespace]) and [--] comments up to
    (not including) the next newline, which is then skipped as white space.  [cm] = inside a
    comment. *)
Fixpoint skip_wc (cm : bool) (s : str) : str :=
  match s with
  | [] => []
  | c :: r =>
      if cm then (if c =? 10 then skip_wc false r else skip_wc true r)
      else if is_ws c then skip_wc false r
      else if (c =? 45) && (match r with c2 :: _ => c2 =? 45 | [] => false end) then skip_wc true r
      else s
  end.

(** longest prefix satisfying [p], and the rest *)
Fixpoint span (p : Z -> bool) (s : str) : str * str :=
  match s with
  | [] => ([], [])
  | c :: r => if p c then (let '(a, b) := span p r in (c :: a, b)) else ([], s)
  end.

(** [tokenize_string] / [tokenize_delimited_identifier] after the opening quote [q]: content
    with [qq] read as [q], up to the closing quote; [None] = unterminated *)
Fixpoint scan_quoted (q : Z) (s : str) : option (str * str) :=
  match s with
  | [] => None
  | c :: r =>
      if c =? q then
        match r with
        | c2 :: r2 =>
            if c2 =? q then
              match scan_quoted q r2 with Some (t, rest) => Some (q :: t, rest) | None => None end
            else Some ([], r)
        | [] => Some ([], [])
        end
      else match scan_quoted q r with Some (t, rest) => Some (c :: t, rest) | None => None end
  end.

(** the digit / single-dot loop of [tokenize_number] *)
Fixpoint num_body (has_dot : bool) (s : str) : str * str :=
  match s with
  | [] => ([], [])
  | c :: r =>
      if is_digit c then (let '(a, b) := num_body has_dot r in (c :: a, b))
      else if (c =? 46) && negb has_dot then (let '(a, b) := num_body true r in (c :: a, b))
      else ([], s)
  end.

(** [tokenize_number]: [None] = "Invalid scientific notation" *)
Definition scan_number (s : str) : option (str * str) :=
  let '(lead, s1, dot0) := match s with
                           | c :: r => if c =? 46 then ([46], r, true) else ([], s, false)
                           | [] => ([], s, false)
                           end in
  let '(body, s2) := num_body dot0 s1 in
  match s2 with
  | e :: r =>
      if (e =? 69) || (e =? 101) then
        let '(sg, r1) := match r with
                         | c :: r' => if (c =? 43) || (c =? 45) then ([c], r') else ([], r)
                         | [] => ([], r)
                         end in
        let '(ds, r2) := span is_digit r1 in
        if is_nil ds then None else Some (lead ++ body ++ [e] ++ sg ++ ds, r2)
      else Some (lead ++ body, s2)
  | [] => Some (lead ++ body, [])
  end.

Definition is_ascii_alpha (c : Z) : bool := ((65 <=? c) && (c <=? 90)) || ((97 <=? c) && (c <=? 122)).
(** an ASCII character on which [is_alphanumeric() || c == '_'] holds *)
Definition is_word_char (c : Z) : bool := is_ascii_alpha c || is_digit c || (c =? 95).
Definition ascii_upper (c : Z) : Z := if (97 <=? c) && (c <=? 122) then c - 32 else c.

(** [keywords::map_keyword] on the regenerated table *)
Fixpoint kw_lookup (tbl : list (str * str)) (w : str) : option str :=
  match tbl with
  | [] => None
  | (t, v) :: r => if str_eqb t w then Some v else kw_lookup r w
  end.
Definition map_keyword (upper : str) : tok :=
  match kw_lookup lex_keyword_table upper with Some v => TKw v | None => TIdent upper end.

(** [Lexer::tokenize]: the [Eof] token is left implicit (end of the list).  [fuel] bounds the
    number of tokens; [S (length s)] always suffices (every token consumes a character). *)
Fixpoint lex (fuel : nat) (s : str) : lres (list tok) :=
  match fuel with
  | O => LAbstain
  | S f =>
      match skip_wc false s with
      | [] => LOk []
      | c :: r =>
          if c =? 59 then tcons TSemi (lex f r)
          else if c =? 44 then tcons TComma (lex f r)
          else if c =? 40 then tcons TLParen (lex f r)
          else if c =? 41 then tcons TRParen (lex f r)
          else if (c =? 61) || (c =? 60) || (c =? 62) || (c =? 33) || (c =? 124) || (c =? 64) then LAbstain
          else if c =? 46 then
            match r with
            | d :: _ => if is_digit d then
                          match scan_number (c :: r) with
                          | Some (t, rest) => tcons (TNum t) (lex f rest)
                          | None => LErr
                          end
                        else tcons (TSym 46) (lex f r)
            | [] => tcons (TSym 46) (lex f r)
            end
          else if (c =? 43) || (c =? 45) || (c =? 42) || (c =? 47) then tcons (TSym c) (lex f r)
          else if c =? 39 then
            match scan_quoted 39 r with
            | Some (t, rest) => tcons (TStr t) (lex f rest)
            | None => LErr
            end
          else if (c =? 34) || (c =? 96) then
            match scan_quoted c r with
            | Some (t, rest) => if is_nil t then LErr else tcons (TDelim t) (lex f rest)
            | None => LErr
            end
          else if is_digit c then
            match scan_number (c :: r) with
            | Some (t, rest) => tcons (TNum t) (lex f rest)
            | None => LErr
            end
          else if is_ascii_alpha c || (c =? 95) then
            let '(w, rest) := span is_word_char (c :: r) in
            match rest with
            | x :: _ => if 128 <=? x then LAbstain
                        else tcons (map_keyword (map ascii_upper w)) (lex f rest)
            | [] => tcons (map_keyword (map ascii_upper w)) (lex f rest)
            end
          else LErr
      end
  end.

Definition lex_all (s : str) : lres (list tok) := lex (S (length s)) s.
