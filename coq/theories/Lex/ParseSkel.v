(** * Lex/ParseSkel.v — the recursion skeleton of the recursive-descent parser
    (crates/vibesql-parser/src/parser/: mod.rs parse_statement; select/{statement,list,from_clause}.rs;
     expressions/{mod,operators,special_forms,subqueries}.rs; expressions/functions/mod.rs).

    The parser is ~9 kLoC; what is modelled here is the part of it that recurses: SELECT statements
    with a select list, FROM (tables, derived tables, parenthesised from-clauses) and WHERE, and the
    complete expression grammar over the token alphabet [stok] (literals, identifiers, function
    calls, parentheses and scalar subqueries, unary + - NOT, the binary operator levels, IN lists
    and IN subqueries, BETWEEN, LIKE, IS [NOT] NULL, CASE, EXISTS).  On that alphabet the skeleton
    accepts exactly what [Parser::parse_sql] accepts (checked on every run by the harness), and it
    computes the quantity the property is about: the number of simultaneously active Rust call
    frames of the parser's recursive functions (the native stack depth, in frames).

    One Gallina function [run] interprets all the Rust functions; a value of [nt] names the Rust
    function (or the loop inside a Rust function) being executed.  [run lim fuel n d g ts m]:
    [lim]/[g] = nesting limit and counter of the REPAIRED parser ([lim = None]: the code as it is),
    [d] = number of frames active in the caller, [ts] = remaining tokens ([Parser.tokens] from
    [Parser.position] on; reading past the end yields Eof exactly like [Parser::peek]),
    [m] = maximal depth seen so far.  A nonterminal that is a Rust function ([is_frame]) runs at
    depth [d+1]; a loop nonterminal runs inside its function's frame.  Fuel bounds the Gallina
    recursion only; [None] = out of fuel.  There is NO depth limit anywhere in the Rust code
    (grep for depth/recursion/limit in parser/: only paren counters for skipping tokens), so there is
    none in the model.  No proofs in this file. *)
From Coq Require Import List ZArith Bool Arith.
From VibeSQL Require Import Lex.Lexer.
Import ListNotations.

(** ** The token alphabet of the skeleton *)
Inductive stok : Type :=
| SLParen | SRParen | SComma | SSemi | SEof
| SPlus | SMinus | SStar | SSlash
| SCmp            (* = < > <= >= != <> *)
| SConcat         (* || *)
| SSelect | SFrom | SWhere | SAnd | SOr | SNot | SIs | SNull | SIn | SBetween | SLike | SExists
| SCase | SWhen | SThen | SElse | SEnd
| SNum | SStr | SBool   (* number / string literal / TRUE FALSE *)
| SIdent                (* identifier without a special meaning to the parser *)
| SOther.               (* any token outside the modelled alphabet *)

Definition stok_code (t : stok) : nat :=
  match t with
  | SLParen => 0 | SRParen => 1 | SComma => 2 | SSemi => 3 | SEof => 4
  | SPlus => 5 | SMinus => 6 | SStar => 7 | SSlash => 8 | SCmp => 9 | SConcat => 10
  | SSelect => 11 | SFrom => 12 | SWhere => 13 | SAnd => 14 | SOr => 15 | SNot => 16
  | SIs => 17 | SNull => 18 | SIn => 19 | SBetween => 20 | SLike => 21 | SExists => 22
  | SCase => 23 | SWhen => 24 | SThen => 25 | SElse => 26 | SEnd => 27
  | SNum => 28 | SStr => 29 | SBool => 30 | SIdent => 31 | SOther => 32
  end.
Definition stok_eqb (a b : stok) : bool := Nat.eqb (stok_code a) (stok_code b).

(** [Parser::peek] / [Parser::advance] on the remaining tokens *)
Definition peek (ts : list stok) : stok := match ts with [] => SEof | t :: _ => t end.
Definition adv (ts : list stok) : list stok := match ts with [] => [] | _ :: r => r end.
Definition at_ (t : stok) (ts : list stok) : bool := stok_eqb (peek ts) t.

(** result of a (sub)parse: Ok with the remaining tokens, or a ParseError; both carry the maximal
    depth reached *)
Inductive pres : Type :=
| POk (ts : list stok) (m : nat)
| PErr (m : nat).

Definition bindP (x : option pres) (k : list stok -> nat -> option pres) : option pres :=
  match x with
  | None => None
  | Some (PErr m) => Some (PErr m)
  | Some (POk ts m) => k ts m
  end.
Definition ok (ts : list stok) (m : nat) : option pres := Some (POk ts m).
Definition err (m : nat) : option pres := Some (PErr m).
(** [expect_token(t)] / [expect_keyword(k)] as a continuation *)
Definition expect (t : stok) (ts : list stok) (m : nat) : option pres :=
  if at_ t ts then ok (adv ts) m else err m.

(** ** Nonterminals = Rust functions (frames) and the loops inside them *)
Inductive nt : Type :=
| NStatement     (* mod.rs parse_statement *)
| NSelect        (* select/statement.rs parse_select_statement *)
| NSelectInt     (* parse_select_statement_internal *)
| NSelList       (* select/list.rs parse_select_list *)
| NSelListLoop   (*   its loop *)
| NSelItem       (* parse_select_item *)
| NFrom          (* select/from_clause.rs parse_from_clause *)
| NFromLoop      (*   its while loop *)
| NTableRef      (* parse_table_reference *)
| NExpr          (* expressions/mod.rs parse_expression *)
| NOr | NOrLoop  (* operators.rs parse_or_expression + loop *)
| NAnd | NAndLoop
| NNot           (* parse_not_expression *)
| NCmp           (* parse_comparison_expression *)
| NExprList | NExprListLoop   (* parse_expression_list + loop *)
| NAdd | NAddLoop | NMul | NMulLoop
| NUnary         (* parse_unary_expression *)
| NPrimary       (* expressions/mod.rs parse_primary_expression *)
| NSpecial       (* special_forms.rs parse_special_form: CASE / EXISTS / NOT *)
| NWhenFirst | NWhenRest | NCondLoop   (* loops of the CASE arm *)
| NFunc | NArgLoop                     (* functions/mod.rs parse_function_call + argument loop *)
| NParen.        (* subqueries.rs parse_parenthesized *)

Definition is_frame (n : nt) : bool :=
  match n with
  | NSelListLoop | NFromLoop | NOrLoop | NAndLoop | NExprListLoop | NAddLoop | NMulLoop
  | NWhenFirst | NWhenRest | NCondLoop | NArgLoop => false
  | _ => true
  end.

(** The repaired parser (fixes/C23-depth-limit.patch) keeps a nesting counter in [Parser]:
    [parse_expression], [parse_select_statement_internal] and [parse_from_clause] increment it on
    entry (and decrement it on exit), and so do the three self-recursive edges that do not pass
    through them (unary +/- chain, NOT chain, NOT inside parse_special_form); exceeding the limit is
    a ParseError.  [lim = None] is the code as it is now (no guard at all); [lim = Some l] is the
    repaired code.  [g] is the value of the counter. *)
Definition is_guarded (n : nt) : bool :=
  match n with NExpr | NSelectInt | NFrom => true | _ => false end.

Definition over (lim : option nat) (g : nat) : bool :=
  match lim with None => false | Some l => Nat.ltb l g end.

Fixpoint run (lim : option nat) (fuel : nat) (n : nt) (d g : nat) (ts : list stok) (m : nat)
  {struct fuel} : option pres :=
  match fuel with
  | O => None
  | S f =>
    let d1 := if is_frame n then S d else d in
    let m1 := Nat.max m d1 in
    let g1 := if is_guarded n then S g else g in
    let call := fun n' ts' m' => run lim f n' d1 g1 ts' m' in
    (* a self-recursive edge that the repaired code guards explicitly *)
    let call_g := fun n' ts' m' =>
      if over lim (S g1) then err m' else run lim f n' d1 (S g1) ts' m' in
    if is_guarded n && over lim g1 then err m1 else
    match n with
    | NStatement =>
        (* match self.peek() { Keyword(Select) | Keyword(With) => parse_select_statement, .. _ => Err } *)
        if at_ SSelect ts then call NSelect ts m1 else err m1
    | NSelect => call NSelectInt ts m1
    | NSelectInt =>
        if at_ SSelect ts then
          bindP (call NSelList (adv ts) m1) (fun ts m =>
          bindP (if at_ SFrom ts then call NFrom (adv ts) m else ok ts m) (fun ts m =>
          bindP (if at_ SWhere ts then call NExpr (adv ts) m else ok ts m) (fun ts m =>
          ok (if at_ SSemi ts then adv ts else ts) m)))
        else err m1
    | NSelList => call NSelListLoop ts m1
    | NSelListLoop =>
        bindP (call NSelItem ts m1) (fun ts m =>
        if at_ SComma ts then call NSelListLoop (adv ts) m else ok ts m)
    | NSelItem =>
        (* qualified wildcard needs '.', not in the alphabet; '*' => Wildcard; else expr [alias] *)
        if at_ SStar ts then ok (adv ts) m1
        else bindP (call NExpr ts m1) (fun ts m => ok (if at_ SIdent ts then adv ts else ts) m)
    | NFrom => bindP (call NTableRef ts m1) (fun ts m => call NFromLoop ts m)
    | NFromLoop =>
        if at_ SComma ts then bindP (call NTableRef (adv ts) m1) (fun ts m => call NFromLoop ts m)
        else ok ts m1
    | NTableRef =>
        if at_ SLParen ts then
          let ts := adv ts in
          if at_ SSelect ts then
            bindP (call NSelect ts m1) (fun ts m =>
            if at_ SRParen ts then
              let ts := adv ts in
              if at_ SIdent ts then ok (adv ts) m else err m   (* derived table must have an alias *)
            else err m)
          else bindP (call NFrom ts m1) (expect SRParen)
        else if at_ SIdent ts then
          let ts := adv ts in ok (if at_ SIdent ts then adv ts else ts) m1
        else err m1
    | NExpr => call NOr ts m1
    | NOr => bindP (call NAnd ts m1) (fun ts m => call NOrLoop ts m)
    | NOrLoop =>
        if at_ SOr ts then bindP (call NAnd (adv ts) m1) (fun ts m => call NOrLoop ts m) else ok ts m1
    | NAnd => bindP (call NNot ts m1) (fun ts m => call NAndLoop ts m)
    | NAndLoop =>
        if at_ SAnd ts then bindP (call NNot (adv ts) m1) (fun ts m => call NAndLoop ts m) else ok ts m1
    | NNot =>
        if at_ SNot ts then
          let ts1 := adv ts in
          if at_ SIn ts1 || at_ SBetween ts1 || at_ SLike ts1 || at_ SExists ts1
          then call NCmp ts m1       (* position restored *)
          else call_g NNot ts1 m1
        else call NCmp ts m1
    | NCmp =>
        bindP (call NAdd ts m1) (fun ts m =>
        let in_tail := fun ts m =>
          if at_ SLParen ts then
            let ts := adv ts in
            if at_ SSelect ts then bindP (call NSelect ts m) (expect SRParen)
            else bindP (call NExprList ts m) (expect SRParen)
          else err m in
        let between_tail := fun ts m =>
          bindP (call NAdd ts m) (fun ts m => if at_ SAnd ts then call NAdd (adv ts) m else err m) in
        let like_tail := fun ts m => call NAdd ts m in
        let cmp_rest := fun ts m =>
          bindP (if at_ SCmp ts then call NAdd (adv ts) m else ok ts m) (fun ts m =>
          if at_ SIs ts then
            let ts := adv ts in
            let ts := if at_ SNot ts then adv ts else ts in
            expect SNull ts m
          else ok ts m) in
        if at_ SNot ts then
          let ts1 := adv ts in
          if at_ SIn ts1 then in_tail (adv ts1) m
          else if at_ SBetween ts1 then between_tail (adv ts1) m
          else if at_ SLike ts1 then like_tail (adv ts1) m
          else cmp_rest ts m                 (* position restored *)
        else if at_ SIn ts then in_tail (adv ts) m
        else if at_ SBetween ts then between_tail (adv ts) m
        else if at_ SLike ts then like_tail (adv ts) m
        else cmp_rest ts m)
    | NExprList =>
        if at_ SRParen ts then ok ts m1
        else bindP (call NExpr ts m1) (fun ts m => call NExprListLoop ts m)
    | NExprListLoop =>
        if at_ SComma ts then bindP (call NExpr (adv ts) m1) (fun ts m => call NExprListLoop ts m)
        else ok ts m1
    | NAdd => bindP (call NMul ts m1) (fun ts m => call NAddLoop ts m)
    | NAddLoop =>
        if at_ SPlus ts || at_ SMinus ts || at_ SConcat ts
        then bindP (call NMul (adv ts) m1) (fun ts m => call NAddLoop ts m) else ok ts m1
    | NMul => bindP (call NUnary ts m1) (fun ts m => call NMulLoop ts m)
    | NMulLoop =>
        if at_ SStar ts || at_ SSlash ts
        then bindP (call NUnary (adv ts) m1) (fun ts m => call NMulLoop ts m) else ok ts m1
    | NUnary =>
        if at_ SPlus ts || at_ SMinus ts then call_g NUnary (adv ts) m1 else call NPrimary ts m1
    | NPrimary =>
        if at_ SNum ts || at_ SStr ts || at_ SBool ts || at_ SNull ts then ok (adv ts) m1  (* parse_literal *)
        else if at_ SCase ts || at_ SExists ts || at_ SNot ts then call NSpecial ts m1
        else if at_ SIdent ts then
          if at_ SLParen (adv ts) then call NFunc ts m1   (* parse_function_call *)
          else ok (adv ts) m1                              (* parse_identifier_expression *)
        else if at_ SLParen ts then call NParen ts m1
        else err m1
    | NSpecial =>
        if at_ SCase ts then
          let ts := adv ts in
          bindP (if at_ SWhen ts then ok ts m1 else call NExpr ts m1) (fun ts m =>
          bindP (call NWhenFirst ts m) (fun ts m =>
          bindP (if at_ SElse ts then call NExpr (adv ts) m else ok ts m) (fun ts m =>
          expect SEnd ts m)))
        else if at_ SExists ts then
          bindP (expect SLParen (adv ts) m1) (fun ts m =>
          bindP (call NSelect ts m) (expect SRParen))
        else if at_ SNot ts then
          let ts := adv ts in
          if at_ SExists ts then
            bindP (expect SLParen (adv ts) m1) (fun ts m =>
            bindP (call NSelect ts m) (expect SRParen))
          else call_g NUnary ts m1
        else err m1   (* not reached from NPrimary *)
    | NWhenFirst =>
        (* first iteration of [while self.peek_keyword(When)]; no WHEN at all is an error *)
        if at_ SWhen ts then
          bindP (call NExpr (adv ts) m1) (fun ts m =>
          bindP (call NCondLoop ts m) (fun ts m =>
          bindP (expect SThen ts m) (fun ts m =>
          bindP (call NExpr ts m) (fun ts m => call NWhenRest ts m))))
        else err m1
    | NWhenRest =>
        if at_ SWhen ts then
          bindP (call NExpr (adv ts) m1) (fun ts m =>
          bindP (call NCondLoop ts m) (fun ts m =>
          bindP (expect SThen ts m) (fun ts m =>
          bindP (call NExpr ts m) (fun ts m => call NWhenRest ts m))))
        else ok ts m1
    | NCondLoop =>
        if at_ SComma ts then bindP (call NExpr (adv ts) m1) (fun ts m => call NCondLoop ts m)
        else ok ts m1
    | NFunc =>
        (* Identifier | DelimitedIdentifier, then '(' -- otherwise rewind and return Ok(None), which
           parse_primary_expression (reached only with these two tokens in front) never sees *)
        if at_ SIdent ts && at_ SLParen (adv ts) then
          let ts := adv (adv ts) in
          if at_ SRParen ts then ok (adv ts) m1
          else if at_ SStar ts then expect SRParen (adv ts) m1
          else bindP (call NArgLoop ts m1) (expect SRParen)
        else err m1
    | NArgLoop =>
        bindP (call NExpr ts m1) (fun ts m =>
        if at_ SComma ts then call NArgLoop (adv ts) m else ok ts m)
    | NParen =>
        (* match self.peek() { Token::LParen => .., _ => Ok(None) } ; Ok(None) makes
           parse_primary_expression fail with "Expected expression" *)
        if at_ SLParen ts then
          let ts := adv ts in
          if at_ SSelect ts then bindP (call NSelect ts m1) (expect SRParen)
          else bindP (call NExpr ts m1) (expect SRParen)
        else err m1
    end
  end.

(** fuel that is always enough (proved in ParseSkelLaws: [skel_total]) *)
Definition skel_fuel (ts : list stok) : nat := 40 * length ts + 40.

(** [Parser::new(tokens).parse_statement()] on the skeleton ([lim = None]: the code as it is) *)
Definition skel_parse_lim (lim : option nat) (ts : list stok) : option pres :=
  run lim (skel_fuel ts) NStatement 0 0 ts 0.
Definition skel_parse (ts : list stok) : option pres := skel_parse_lim None ts.

(** accept / reject *)
Definition skel_accepts (ts : list stok) : option bool :=
  match skel_parse ts with
  | Some (POk _ _) => Some true
  | Some (PErr _) => Some false
  | None => None
  end.

(** maximal number of simultaneously active parser frames the token stream induces *)
Definition pres_depth (r : option pres) : nat :=
  match r with
  | Some (POk _ m) => m
  | Some (PErr m) => m
  | None => 0
  end.
Definition skel_depth (ts : list stok) : nat := pres_depth (skel_parse ts).
(** the same for the repaired parser with nesting limit [l] *)
Definition skel_depth_lim (l : nat) (ts : list stok) : nat := pres_depth (skel_parse_lim (Some l) ts).

(** ** From lexer tokens to skeleton tokens *)
Definition codes_in (s : list Z) (l : list (list Z)) : bool := existsb (codes_eqb s) l.

(** identifiers with a meaning of their own in parse_primary_expression (hex/binary literal
    prefixes, SQL-syntax functions): outside the skeleton's alphabet *)
Definition special_idents : list (list Z) :=
  [ [88%Z]; [66%Z];                                                   (* X B *)
    [80;79;83;73;84;73;79;78]%Z;                                      (* POSITION *)
    [84;82;73;77]%Z;                                                  (* TRIM *)
    [83;85;66;83;84;82;73;78;71]%Z;                                   (* SUBSTRING *)
    [86;65;76;85;69;83]%Z;                                            (* VALUES *)
    [67;85;82;82;69;78;84;95;68;65;84;69]%Z;                          (* CURRENT_DATE *)
    [67;85;82;82;69;78;84;95;84;73;77;69]%Z;                          (* CURRENT_TIME *)
    [67;85;82;82;69;78;84;95;84;73;77;69;83;84;65;77;80]%Z ].         (* CURRENT_TIMESTAMP *)

Definition keyword_stok (name : list Z) : stok :=
  let is := codes_eqb name in
  if is [83;101;108;101;99;116]%Z then SSelect
  else if is [70;114;111;109]%Z then SFrom
  else if is [87;104;101;114;101]%Z then SWhere
  else if is [65;110;100]%Z then SAnd
  else if is [79;114]%Z then SOr
  else if is [78;111;116]%Z then SNot
  else if is [73;115]%Z then SIs
  else if is [78;117;108;108]%Z then SNull
  else if is [73;110]%Z then SIn
  else if is [66;101;116;119;101;101;110]%Z then SBetween
  else if is [76;105;107;101]%Z then SLike
  else if is [69;120;105;115;116;115]%Z then SExists
  else if is [67;97;115;101]%Z then SCase
  else if is [87;104;101;110]%Z then SWhen
  else if is [84;104;101;110]%Z then SThen
  else if is [69;108;115;101]%Z then SElse
  else if is [69;110;100]%Z then SEnd
  else if is [84;114;117;101]%Z || is [70;97;108;115;101]%Z then SBool
  else SOther.

Definition skel_of_token (t : token) : stok :=
  match t with
  | TKeyword name => keyword_stok name
  | TIdent s => if codes_in s special_idents then SOther else SIdent
  | TDelim _ => SOther
  | TNumber _ => SNum
  | TString _ => SStr
  | TSymbol c =>
      if (c =? 43)%Z then SPlus else if (c =? 45)%Z then SMinus
      else if (c =? 42)%Z then SStar else if (c =? 47)%Z then SSlash
      else if ((c =? 61) || (c =? 60) || (c =? 62))%Z then SCmp else SOther
  | TOperator s =>
      if codes_eqb s [124;124]%Z then SConcat
      else if codes_eqb s [60;61]%Z || codes_eqb s [62;61]%Z || codes_eqb s [33;61]%Z
              || codes_eqb s [60;62]%Z then SCmp
      else SOther
  | TSessionVar _ | TUserVar _ => SOther
  | TSemicolon => SSemi
  | TComma => SComma
  | TLParen => SLParen
  | TRParen => SRParen
  | TEof => SEof
  end.

Definition in_alphabet (ts : list stok) : bool :=
  forallb (fun t => negb (stok_eqb t SOther)) ts.
