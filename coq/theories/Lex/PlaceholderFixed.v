(** STATUS (working tree of /repo as of the last run): fixes/C30-reject-unrepresentable-values.patch and
    fixes/C30-cache-key-bound-text.patch ARE applied, fixes/C30-literal-aware-substitution.patch is NOT.
    The code as it is now is therefore [py_to_sqlvalue_r] / [convert_params_r] with the all-'?'
    [substitute] of Lex/Placeholder.v, i.e. [bind_now] = [bind_parameters_v false true] below, inside the
    bound-key cursor [execute_now] of Store/Cursor.v.  [py_to_sqlvalue] / [bind_parameters] of
    Lex/Placeholder.v describe the code BEFORE these two fix commits and are kept as the record the
    "fixed:" findings refer to; the harness reads from the source which shapes are present and passes the
    flags to the runner, so the shards always use the model of the code they ran.

    Model of the REPAIRED binder, i.e. of conversions.rs / cursor.rs after
      fixes/C30-literal-aware-substitution.patch   ([count_placeholders], scanner-aware
                                                    [substitute_placeholders], every literal between spaces)
      fixes/C30-reject-unrepresentable-values.patch ([py_to_sqlvalue] refuses ints outside i64 and
                                                    non-finite floats)
    and the switch [bind_parameters_v] between the code as it is and each repair, used by the runner:
    the harness reads from the source which repairs are present ([false false] = the code as it is,
    definitionally [bind_parameters]).  The patch's [ScanState] is the nine-state scanner of
    [Lex/Placeholder.v] ([Quoted(q)] / [QuotedEnd(q)] for the three delimiters).
    Executable definitions only; no proofs in this file. *)
From Coq Require Import List ZArith Bool.
From VibeSQL Require Import Lex.F64Display Lex.Placeholder.
Import ListNotations.
Open Scope Z_scope.

Definition c_space : Z := 32.
Definition pad (t : text) : text := c_space :: t ++ [c_space].

(** patched [py_to_sqlvalue] *)
Definition py_to_sqlvalue_r (v : pyval) : option bval :=
  match v with
  | PInt z => if in_i64 z then py_to_sqlvalue v else None
  | PFloat b => if f64_finite b then Some (BDouble b) else None
  | _ => py_to_sqlvalue v
  end.

Fixpoint convert_params_r (ps : list pyval) : option (list bval) :=
  match ps with
  | [] => Some []
  | p :: r =>
    match py_to_sqlvalue_r p with
    | None => None
    | Some v => match convert_params_r r with None => None | Some vs => Some (v :: vs) end
    end
  end.

(** patched [substitute_placeholders] *)
Fixpoint substitute_aware (st : sstate) (sql : text) (vals : list bval) : text :=
  match sql with
  | [] => []
  | ch :: rest =>
    if (ch =? c_qm) && negb (protected st) then
      match vals with
      | v :: vals' => pad (print_value v) ++ substitute_aware (step st ch) rest vals'
      | [] => substitute_aware (step st ch) rest []
      end
    else ch :: substitute_aware (step st ch) rest vals
  end.

(** [bind_parameters] with either repair switched on *)
Definition bind_parameters_v (literal_aware reject : bool) (sql : text) (params : list pyval) : option text :=
  let conv := if reject then convert_params_r else convert_params in
  if literal_aware then
    if Nat.eqb (count_ph SCode sql) (length params) then
      match conv params with
      | Some vals => Some (substitute_aware SCode sql vals)
      | None => None
      end
    else None
  else
    if Nat.eqb (count_qm sql) (length params) then
      match conv params with
      | Some vals => Some (substitute sql vals)
      | None => None
      end
    else None.

Definition process_v (literal_aware reject : bool) (sql : text) (params : option (list pyval)) : option text :=
  match params with
  | Some ps => bind_parameters_v literal_aware reject sql ps
  | None => Some sql
  end.

(** the code as it is now: every '?' substituted, unrepresentable values refused *)
Definition bind_now : text -> list pyval -> option text := bind_parameters_v false true.
Definition process_now : text -> option (list pyval) -> option text := process_v false true.

(** what [SELECT ?] reads back for a Python value bound by the code as it is now *)
Definition read_back_now (v : pyval) : option rval :=
  match py_to_sqlvalue_r v with
  | Some b => read_literal (print_value b)
  | None => None
  end.

(** * specification side: the splice with every literal between spaces *)
Fixpoint splice_pad (st : sstate) (sql : text) (ls : list slit) : text :=
  match sql with
  | [] => []
  | c :: rest =>
    if (c =? c_qm) && negb (protected st) then
      match ls with
      | l :: ls' => pad (lit_text l) ++ splice_pad (step st c) rest ls'
      | [] => c :: splice_pad (step st c) rest []
      end
    else c :: splice_pad (step st c) rest ls
  end.

Fixpoint splice_t_pad (l : list (Z * role)) (ls : list slit) : list (Z * role) :=
  match l with
  | [] => []
  | (c, p) :: rest =>
    if (c =? c_qm) && (match p with RInside => false | _ => true end) then
      match ls with
      | x :: ls' => tscan SCode (pad (lit_text x)) ++ splice_t_pad rest ls'
      | [] => (c, p) :: splice_t_pad rest []
      end
    else (c, p) :: splice_t_pad rest ls
  end.

(** the literal of a Python value as a [slit] *)
Definition slit_of_py (v : pyval) : option slit :=
  match v with
  | PStr s => if has_surrogate s then None else Some (LStr s)
  | _ => match spec_literal v with Some t => Some (LPlain t) | None => None end
  end.

Fixpoint slits_of_py (ps : list pyval) : option (list slit) :=
  match ps with
  | [] => Some []
  | p :: r =>
    match slit_of_py p with
    | None => None
    | Some l => match slits_of_py r with None => None | Some ls => Some (l :: ls) end
    end
  end.
