(** Laws of the placeholder substitution model ([Lex/Placeholder.v]).

    Part 1  text equality, counting
    Part 2  substitution lemmas (induction on the text): what is consumed, length, '?' left, single pass
    Part 3  printed values: digits, quoting lemma
    Part 4  the coded binder equals the literal-aware binder when no '?' is protected (and values agree)
    Part 5  structure preservation (lock-step scanner argument) and its two refutations
    Part 6  values read back *)
From Coq Require Import Decimal DecimalZ DecimalPos.
From Coq Require Import List ZArith Bool Lia.
From VibeSQL Require Import Lex.F64Display Lex.Placeholder.
Import ListNotations.
Open Scope Z_scope.

(** * Part 1 *)
Lemma text_eqb_refl : forall a, text_eqb a a = true.
Proof. induction a as [|x a IH]; cbn [text_eqb]; [reflexivity|]. now rewrite Z.eqb_refl, IH. Qed.

Lemma text_eqb_eq : forall a b, text_eqb a b = true <-> a = b.
Proof.
  induction a as [|x a IH]; intros [|y b]; cbn [text_eqb]; split; intros H; try reflexivity; try discriminate.
  - apply andb_true_iff in H. destruct H as [H1 H2]. apply Z.eqb_eq in H1. apply IH in H2. now subst.
  - inversion H; subst. now rewrite Z.eqb_refl, text_eqb_refl.
Qed.

Lemma text_eqb_neq : forall a b, text_eqb a b = false <-> a <> b.
Proof.
  intros a b. split; intros H.
  - intros E. apply text_eqb_eq in E. congruence.
  - destruct (text_eqb a b) eqn:E; [|reflexivity]. apply text_eqb_eq in E. contradiction.
Qed.

Lemma count_qm_app : forall a b, count_qm (a ++ b) = (count_qm a + count_qm b)%nat.
Proof.
  induction a as [|c a IH]; intros b; cbn [count_qm app]; [reflexivity|].
  destruct (c =? c_qm); rewrite IH; reflexivity.
Qed.

Lemma count_split : forall sql st,
  count_qm sql = (count_ph st sql + count_protected_qm st sql)%nat.
Proof.
  induction sql as [|c r IH]; intros st; cbn [count_qm count_ph count_protected_qm]; [reflexivity|].
  destruct (c =? c_qm); cbn [andb].
  - destruct (protected st); cbn [negb]; rewrite (IH (step st c)); lia.
  - apply IH.
Qed.

(** * Part 2: substitution *)

(** compositionality: the second half continues with the values the first half left over *)
Lemma substitute_app : forall a b vals,
  substitute (a ++ b) vals = substitute a vals ++ substitute b (skipn (count_qm a) vals).
Proof.
  induction a as [|c a IH]; intros b vals; cbn [substitute count_qm app skipn]; [reflexivity|].
  destruct (c =? c_qm).
  - destruct vals as [|v vals'].
    + rewrite IH. now rewrite skipn_nil.
    + rewrite IH. cbn [skipn]. now rewrite app_assoc.
  - rewrite IH. reflexivity.
Qed.

Lemma substitute_no_qm : forall sql vals, count_qm sql = O -> substitute sql vals = sql.
Proof.
  induction sql as [|c r IH]; intros vals H; cbn [substitute count_qm] in *; [reflexivity|].
  destruct (c =? c_qm); [discriminate|]. now rewrite IH.
Qed.

(** a '?' beyond the values disappears *)
Lemma substitute_nil : forall sql, substitute sql [] = filter (fun c => negb (c =? c_qm)) sql.
Proof.
  induction sql as [|c r IH]; cbn [substitute filter]; [reflexivity|].
  destruct (c =? c_qm); cbn [negb]; now rewrite IH.
Qed.

Definition total_len (vs : list bval) : nat := fold_right (fun v n => (length (print_value v) + n)%nat) O vs.
Definition total_qm (vs : list bval) : nat := fold_right (fun v n => (count_qm (print_value v) + n)%nat) O vs.

(** exactly the first [count_qm sql] values are consumed (all of them if there are fewer) *)
Lemma substitute_length : forall sql vals,
  (length (substitute sql vals) + count_qm sql = length sql + total_len (firstn (count_qm sql) vals))%nat.
Proof.
  induction sql as [|c r IH]; intros vals; cbn [substitute count_qm length]; [reflexivity|].
  destruct (c =? c_qm).
  - destruct vals as [|v vals'].
    + specialize (IH []). rewrite firstn_nil in *. cbn [total_len fold_right] in *. lia.
    + cbn [firstn total_len fold_right]. rewrite app_length. specialize (IH vals'). unfold total_len in IH. lia.
  - cbn [length]. specialize (IH vals). lia.
Qed.

(** the only '?' of the result are those inside the printed values: one pass, no re-scan *)
Lemma substitute_count_qm : forall sql vals,
  count_qm (substitute sql vals) = total_qm (firstn (count_qm sql) vals).
Proof.
  induction sql as [|c r IH]; intros vals; cbn [substitute count_qm]; [reflexivity|].
  destruct (c =? c_qm) eqn:E.
  - destruct vals as [|v vals'].
    + rewrite IH. now rewrite !firstn_nil.
    + cbn [firstn total_qm fold_right]. rewrite count_qm_app, IH. reflexivity.
  - cbn [count_qm]. rewrite E. apply IH.
Qed.

Lemma total_qm_zero : forall vs, Forall (fun v => count_qm (print_value v) = O) vs -> total_qm vs = O.
Proof. induction 1 as [|v vs Hv _ IH]; cbn [total_qm fold_right]; [reflexivity|]. unfold total_qm in IH. lia. Qed.

Lemma Forall_firstn : forall (A : Type) (P : A -> Prop) n (l : list A), Forall P l -> Forall P (firstn n l).
Proof.
  intros A P n. induction n as [|n IH]; intros l H; cbn [firstn]; [constructor|].
  destruct l as [|x l]; [constructor|]. inversion H; subst. constructor; auto.
Qed.

(** no '?' is left when no printed value contains one (whatever the number of values) *)
Lemma substitute_no_qm_left : forall sql vals,
  Forall (fun v => count_qm (print_value v) = O) vals -> count_qm (substitute sql vals) = O.
Proof. intros sql vals H. rewrite substitute_count_qm. apply total_qm_zero. now apply Forall_firstn. Qed.

(** * Part 3: printed values *)
Lemma count_qm_uint : forall u, count_qm (uint_text u) = O.
Proof. induction u; cbn [uint_text count_qm]; try reflexivity; exact IHu. Qed.

Lemma count_qm_dec_Z : forall z, count_qm (dec_Z z) = O.
Proof.
  intros z. unfold dec_Z. destruct (Z.to_int z) as [u|u]; [apply count_qm_uint|].
  change (count_qm (c_dash :: uint_text u)) with (count_qm (uint_text u)). apply count_qm_uint.
Qed.

Lemma count_qm_double_quotes : forall s, count_qm (double_quotes s) = count_qm s.
Proof.
  induction s as [|c s IH]; [reflexivity|]. unfold double_quotes in *. cbn [flat_map].
  rewrite count_qm_app, IH. cbn [count_qm].
  destruct (c =? c_quote) eqn:E.
  - apply Z.eqb_eq in E. subst c. reflexivity.
  - cbn [count_qm]. destruct (c =? c_qm); reflexivity.
Qed.

Lemma count_qm_quote : forall s, count_qm (quote s) = count_qm s.
Proof. intros s. unfold quote. cbn [count_qm]. rewrite count_qm_app, count_qm_double_quotes. cbn. lia. Qed.

(** scanner over a doubled string body stays inside the string *)
Lemma run_double_quotes : forall s, run SStr (double_quotes s) = SStr.
Proof.
  induction s as [|c s IH]; [reflexivity|]. unfold double_quotes in *. cbn [flat_map].
  destruct (c =? c_quote) eqn:E.
  - apply Z.eqb_eq in E. subst c. cbn. exact IH.
  - cbn [app run step]. rewrite E. exact IH.
Qed.

Lemma run_app : forall a b st, run st (a ++ b) = run (run st a) b.
Proof. induction a as [|c a IH]; intros b st; cbn [run app]; [reflexivity|apply IH]. Qed.

Lemma tscan_app : forall a b st, tscan st (a ++ b) = tscan st a ++ tscan (run st a) b.
Proof. induction a as [|c a IH]; intros b st; cbn [tscan run app]; [reflexivity|]. now rewrite IH. Qed.

(** the quoting lemma: a string printed with doubled quotes is read back as exactly that string *)
Lemma read_string_body_quote : forall s, read_string_body (double_quotes s ++ [c_quote]) = Some s.
Proof.
  induction s as [|c s IH]; [reflexivity|]. unfold double_quotes in *. cbn [flat_map].
  destruct (c =? c_quote) eqn:E.
  - apply Z.eqb_eq in E. subst c. cbn [app read_string_body]. rewrite Z.eqb_refl.
    rewrite IH. reflexivity.
  - cbn [app read_string_body]. rewrite E, IH. reflexivity.
Qed.

Lemma read_literal_quote : forall s, read_literal (quote s) = Some (RStr s).
Proof.
  intros s. unfold quote, read_literal. change (c_quote =? c_dash) with false. cbn iota.
  unfold read_unsigned. rewrite Z.eqb_refl. now rewrite read_string_body_quote.
Qed.

(** * Part 4: the coded binder against the literal-aware binder *)

(** values on which the code's conversion + printing is the specification's literal *)
Definition spec_agrees (p : pyval) : bool :=
  match p with
  | PInt z => in_i64 z
  | PFloat b => f64_finite b
  | _ => true
  end.

Definition lit_rel (p : pyval) (v : bval) : Prop := spec_literal p = Some (print_value v).
Definition unbindable (p : pyval) : Prop := spec_literal p = None.

Lemma agree_cases : forall p, spec_agrees p = true ->
  (exists v, py_to_sqlvalue p = Some v /\ lit_rel p v) \/ (py_to_sqlvalue p = None /\ unbindable p).
Proof.
  intros p H. unfold lit_rel, unbindable. destruct p as [|z|b|b|s|]; cbn [spec_agrees] in H.
  - left. exists BNull. split; reflexivity.
  - left. cbn [py_to_sqlvalue spec_literal]. rewrite H.
    destruct ((i16_min <=? z) && (z <=? i16_max)); [eexists; split; reflexivity|].
    destruct ((i32_min <=? z) && (z <=? i32_max)); eexists; split; reflexivity.
  - left. eexists; split; reflexivity.
  - left. cbn [py_to_sqlvalue spec_literal]. rewrite H. eexists; split; reflexivity.
  - cbn [py_to_sqlvalue spec_literal]. destruct (has_surrogate s).
    + right. split; reflexivity.
    + left. eexists; split; reflexivity.
  - right. split; reflexivity.
Qed.

Lemma convert_cases : forall ps, forallb spec_agrees ps = true ->
  (exists vals, convert_params ps = Some vals /\ Forall2 lit_rel ps vals) \/
  (convert_params ps = None /\ Exists unbindable ps).
Proof.
  induction ps as [|p ps IH]; intros H; cbn [forallb convert_params] in *.
  - left. exists []. split; [reflexivity|constructor].
  - apply andb_true_iff in H. destruct H as [Hp Hps].
    destruct (agree_cases p Hp) as [[v [Hv Hl]]|[Hv Hl]]; rewrite Hv.
    + destruct (IH Hps) as [[vals [Hc HF]]|[Hc HE]]; rewrite Hc.
      * left. exists (v :: vals). split; [reflexivity|]. constructor; assumption.
      * right. split; [reflexivity|]. now apply Exists_cons_tl.
    + right. split; [reflexivity|]. now apply Exists_cons_hd.
Qed.

Lemma bind_spec_go_ok : forall sql st ps vals,
  count_protected_qm st sql = O ->
  Forall2 lit_rel ps vals ->
  (count_qm sql <= length ps)%nat ->
  bind_spec_go st sql ps = Some (substitute sql vals, skipn (count_qm sql) ps).
Proof.
  induction sql as [|c r IH]; intros st ps vals Hp HF Hn;
    cbn [bind_spec_go substitute count_qm count_protected_qm skipn] in *; [reflexivity|].
  destruct (c =? c_qm) eqn:E; cbn [andb] in *.
  - destruct (protected st); cbn [negb] in *; [discriminate|].
    destruct HF as [|p v ps' vals' Hl HF']; cbn [length] in Hn; [lia|].
    unfold lit_rel in Hl. rewrite Hl. rewrite (IH (step st c) ps' vals' Hp HF' ltac:(lia)). reflexivity.
  - rewrite (IH (step st c) ps vals Hp HF Hn). reflexivity.
Qed.

Lemma bind_spec_go_few : forall sql st ps,
  count_protected_qm st sql = O -> (length ps < count_qm sql)%nat -> bind_spec_go st sql ps = None.
Proof.
  induction sql as [|c r IH]; intros st ps Hp Hn;
    cbn [bind_spec_go count_qm count_protected_qm] in *; [lia|].
  destruct (c =? c_qm) eqn:E; cbn [andb] in *.
  - destruct (protected st); cbn [negb] in *; [discriminate|].
    destruct ps as [|p ps']; [reflexivity|]. cbn [length] in Hn.
    destruct (spec_literal p); [|reflexivity]. rewrite (IH (step st c) ps' Hp ltac:(lia)). reflexivity.
  - rewrite (IH (step st c) ps Hp Hn). reflexivity.
Qed.

(** an unbindable parameter is either reached (error) or left over (count error) *)
Lemma bind_spec_go_bad : forall sql st ps,
  Exists unbindable ps ->
  match bind_spec_go st sql ps with Some (_, r) => Exists unbindable r | None => True end.
Proof.
  induction sql as [|c r IH]; intros st ps HE; cbn [bind_spec_go]; [assumption|].
  destruct ((c =? c_qm) && negb (protected st)).
  - destruct ps as [|p ps']; [exact I|].
    destruct (spec_literal p) eqn:El; [|exact I].
    assert (HE' : Exists unbindable ps').
    { inversion HE as [? ? Hb|? ? Hb]; subst; [unfold unbindable in Hb; congruence|assumption]. }
    specialize (IH (step st c) ps' HE'). destruct (bind_spec_go (step st c) r ps') as [[t0 r0]|]; [assumption|exact I].
  - specialize (IH (step st c) ps HE). destruct (bind_spec_go (step st c) r ps) as [[t0 r0]|]; [assumption|exact I].
Qed.

Lemma bind_spec_bad : forall sql ps, Exists unbindable ps -> bind_spec sql ps = None.
Proof.
  intros sql ps HE. unfold bind_spec. pose proof (bind_spec_go_bad sql SCode ps HE) as H.
  destruct (bind_spec_go SCode sql ps) as [[t r]|]; [|reflexivity].
  destruct r; [inversion H|reflexivity].
Qed.

(** when no '?' is protected and the values are in the common domain, [bind_parameters]
    (count every '?', substitute every '?') IS the literal-aware binder *)
Theorem bind_parameters_eq_spec : forall sql ps,
  count_protected_qm SCode sql = O -> forallb spec_agrees ps = true ->
  bind_parameters sql ps = bind_spec sql ps.
Proof.
  intros sql ps Hp Ha. unfold bind_parameters.
  destruct (convert_cases ps Ha) as [[vals [Hc HF]]|[Hc HE]]; rewrite Hc.
  - destruct (Nat.eqb (count_qm sql) (length ps)) eqn:En.
    + apply Nat.eqb_eq in En. unfold bind_spec.
      rewrite (bind_spec_go_ok sql SCode ps vals Hp HF ltac:(lia)).
      rewrite En, skipn_all. reflexivity.
    + apply Nat.eqb_neq in En. unfold bind_spec.
      destruct (Nat.lt_ge_cases (length ps) (count_qm sql)) as [Hlt|Hge].
      * now rewrite (bind_spec_go_few sql SCode ps Hp Hlt).
      * rewrite (bind_spec_go_ok sql SCode ps vals Hp HF Hge).
        destruct (skipn (count_qm sql) ps) eqn:Es; [|reflexivity].
        assert (Hl : length (skipn (count_qm sql) ps) = O) by now rewrite Es.
        rewrite skipn_length in Hl. lia.
  - rewrite (bind_spec_bad sql ps HE). now destruct (Nat.eqb (count_qm sql) (length ps)).
Qed.

Theorem process_eq_spec : forall sql params,
  (forall ps, params = Some ps -> count_protected_qm SCode sql = O /\ forallb spec_agrees ps = true) ->
  process sql params = process_spec sql params.
Proof.
  intros sql [ps|] H; [|reflexivity]. destruct (H ps eq_refl) as [H1 H2].
  cbn [process process_spec]. now apply bind_parameters_eq_spec.
Qed.

(** the count check of [bind_parameters] *)
Lemma bind_parameters_count : forall sql ps t, bind_parameters sql ps = Some t -> count_qm sql = length ps.
Proof.
  intros sql ps t H. unfold bind_parameters in H.
  destruct (Nat.eqb (count_qm sql) (length ps)) eqn:E; [now apply Nat.eqb_eq in E|discriminate].
Qed.

Example bind_parameters_eq_spec_ex :
  let sql := [83; 69; 76; 32; 63; 44; 39; 120; 39; 44; 63] (* SEL ?,'x',? *) in
  let ps := [PInt (-7); PStr [105; 39; 115]] in
  count_protected_qm SCode sql = O /\ forallb spec_agrees ps = true /\
  bind_parameters sql ps = Some [83; 69; 76; 32; 45; 55; 44; 39; 120; 39; 44; 39; 105; 39; 39; 115; 39].
Proof. vm_compute. repeat split. Qed.

(** * Part 5: bound values do not change the token structure (outside two merge situations) *)

Definition unprotected (st : sstate) : Prop := protected st = false.

(** the two scanners are in step, or the bound text has just closed a bound string literal *)
Definition in_step (st st' : sstate) : Prop := st' = st \/ (st = SCode /\ st' = SStrQ).

Lemma plain_char_step : forall st c, protected st = false -> plain_char c = true -> step st c = SCode.
Proof.
  intros st c Hu Hc. unfold plain_char, is_quote_char in Hc.
  apply andb_true_iff in Hc. destruct Hc as [Hc _]. apply andb_true_iff in Hc. destruct Hc as [Hq Hd].
  apply negb_true_iff in Hq. apply negb_true_iff in Hd.
  apply orb_false_iff in Hq. destruct Hq as [Hq H3]. apply orb_false_iff in Hq. destruct Hq as [H1 H2].
  destruct st; cbn [protected] in Hu; try discriminate; cbn [step]; unfold code_step;
    rewrite ?H1, ?H2, ?H3, ?Hd; reflexivity.
Qed.

Lemma plain_char_role : forall st c, protected st = false -> plain_char c = true -> role_of st c = RPlain.
Proof.
  intros st c Hu Hc. unfold plain_char, is_quote_char in Hc.
  apply andb_true_iff in Hc. destruct Hc as [Hc _]. apply andb_true_iff in Hc. destruct Hc as [Hq Hd].
  apply negb_true_iff in Hq. apply negb_true_iff in Hd.
  apply orb_false_iff in Hq. destruct Hq as [Hq H3]. apply orb_false_iff in Hq. destruct Hq as [H1 H2].
  destruct st; cbn [protected] in Hu; try discriminate; cbn [role_of];
    rewrite ?H1, ?H2, ?H3, ?Hd; reflexivity.
Qed.

Lemma plain_chars_scan : forall r, forallb plain_char r = true ->
  run SCode r = SCode /\ forall st, st = SCode -> tscan st r = tscan SCode r.
Proof.
  intros r H. split; [|intros st ->; reflexivity].
  induction r as [|c r IH]; [reflexivity|]. cbn [forallb] in H. apply andb_true_iff in H. destruct H as [Hc Hr].
  cbn [run]. rewrite (plain_char_step SCode c eq_refl Hc). now apply IH.
Qed.

(** a plain literal scans the same from every unprotected state (but a signed one after a '-') *)
Lemma plain_lit_scan : forall t st',
  protected st' = false -> lit_start_ok st' (LPlain t) = true ->
  tscan st' t = tscan SCode t /\ run st' t = SCode.
Proof.
  intros t st' Hu H. cbn [lit_start_ok] in H. apply andb_true_iff in H. destruct H as [Hok Hd].
  destruct t as [|c r]; [discriminate|]. cbn [plain_ok] in Hok.
  destruct (c =? c_dash) eqn:Ec.
  - apply Z.eqb_eq in Ec. subst c. apply andb_true_iff in Hok. destruct Hok as [Hne Hr].
    assert (Hst : st' <> SDash).
    { intros ->. cbn in Hd. discriminate. }
    assert (Hs : step st' c_dash = SDash /\ role_of st' c_dash = RPlain).
    { destruct st'; cbn [protected] in Hu; try discriminate; try (now split); contradiction. }
    destruct Hs as [Hs Hrole]. cbn [tscan run]. rewrite Hs, Hrole. split; [reflexivity|].
    destruct r as [|x r']; [discriminate|]. cbn [forallb] in Hr. apply andb_true_iff in Hr. destruct Hr as [Hx Hr'].
    cbn [run]. rewrite (plain_char_step SDash x eq_refl Hx). now apply plain_chars_scan.
  - apply andb_true_iff in Hok. destruct Hok as [Hc Hr].
    cbn [tscan run]. rewrite (plain_char_step st' c Hu Hc), (plain_char_role st' c Hu Hc).
    rewrite (plain_char_step SCode c eq_refl Hc). split; [reflexivity|]. now apply plain_chars_scan.
Qed.

(** a quoted string scans as one literal from every unprotected state except right after a closing quote *)
Lemma str_lit_scan : forall s st',
  protected st' = false -> lit_start_ok st' (LStr s) = true ->
  tscan st' (quote s) = tscan SCode (quote s) /\ run st' (quote s) = SStrQ.
Proof.
  intros s st' Hu H. cbn [lit_start_ok] in H.
  assert (Hs : step st' c_quote = SStr /\ role_of st' c_quote = RPlain).
  { destruct st'; cbn [protected] in Hu; try discriminate; try (now split). }
  destruct Hs as [Hs Hrole]. unfold quote. cbn [tscan run]. rewrite Hs, Hrole. split; [reflexivity|].
  change (step SCode c_quote) with SStr.
  rewrite run_app, run_double_quotes. reflexivity.
Qed.

Lemma lit_scan : forall l st',
  protected st' = false -> lit_start_ok st' l = true ->
  tscan st' (lit_text l) = tscan SCode (lit_text l) /\
  run st' (lit_text l) = match l with LStr _ => SStrQ | LPlain _ => SCode end.
Proof. intros [s|t] st' Hu H; cbn [lit_text]; [now apply str_lit_scan|now apply plain_lit_scan]. Qed.

Lemma in_step_unprotected : forall st st', in_step st st' -> protected st = false -> protected st' = false.
Proof. intros st st' [->|[-> ->]] H; [assumption|reflexivity]. Qed.

Lemma step_qm_code : forall st, protected st = false -> step st c_qm = SCode.
Proof. intros st H. destruct st; cbn [protected] in H; try discriminate; reflexivity. Qed.

Lemma role_qm : forall st, role_of st c_qm = if protected st then RInside else RPlain.
Proof. intros st. destruct st; reflexivity. Qed.

(** the structure theorem, generalised over the scanner states *)
Lemma structure_go : forall sql st st' ls,
  in_step st st' -> safe_go st st' sql ls = true ->
  tscan st' (splice st sql ls) = splice_t (tscan st sql) ls.
Proof.
  induction sql as [|c r IH]; intros st st' ls HR Hs; cbn [splice tscan splice_t safe_go] in *; [reflexivity|].
  destruct (c =? c_qm) eqn:Ec.
  - apply Z.eqb_eq in Ec. subst c. rewrite role_qm.
    destruct (protected st) eqn:Ep; cbn [andb negb] in *.
    + (* a protected '?' is ordinary text *)
      apply andb_true_iff in Hs. destruct Hs as [Hq Hs].
      assert (st' = st) as -> by (destruct HR as [->|[-> _]]; [reflexivity|discriminate]).
      cbn [tscan]. rewrite role_qm, Ep. f_equal. apply IH; [now left|assumption].
    + destruct ls as [|l ls'].
      * cbn [tscan].
        pose proof (in_step_unprotected _ _ HR Ep) as Ep'.
        rewrite role_qm, Ep'. f_equal.
        apply IH; [|assumption]. left. now rewrite !step_qm_code.
      * apply andb_true_iff in Hs. destruct Hs as [Hl Hs].
        pose proof (in_step_unprotected _ _ HR Ep) as Ep'.
        destruct (lit_scan l st' Ep' Hl) as [Ht Hrun].
        rewrite tscan_app, Ht. f_equal.
        apply IH; [|assumption]. rewrite step_qm_code by assumption. rewrite Hrun.
        destruct l; [right; now split|now left].
  - cbn [andb] in *. apply andb_true_iff in Hs. destruct Hs as [Hq Hs]. cbn [tscan].
    assert (Hsame : role_of st' c = role_of st c /\ in_step (step st c) (step st' c)).
    { destruct HR as [->|[-> ->]]; [split; [reflexivity|now left]|].
      cbn in Hq. apply negb_true_iff in Hq. cbn [role_of step]. rewrite Hq. split; [reflexivity|now left]. }
    destruct Hsame as [Hrole HR']. rewrite Hrole.
    replace ((c =? c_qm) && match role_of st c with RInside => false | _ => true end) with false
      by (now rewrite Ec).
    f_equal. now apply IH.
Qed.

(** for every template and every list of literals that passes the lock-step check, the roles of all
    template characters are unchanged and every literal is classified as it is on its own *)
Theorem structure_preserved_splice : forall sql ls,
  safe sql ls = true -> tscan SCode (splice SCode sql ls) = splice_t (tscan SCode sql) ls.
Proof. intros sql ls H. apply structure_go; [now left|exact H]. Qed.

(** * the lock-step condition is exact: when it fails, the classification of the bound text differs *)
Definition plain_lits_ok (ls : list slit) : Prop :=
  forall t, In (LPlain t) ls -> plain_ok t = true.

Lemma diverged_dec : forall st st' c,
  (match st, st' with SCode, SStrQ => c =? c_quote | _, _ => false end) = true ->
  st = SCode /\ st' = SStrQ /\ c = c_quote.
Proof.
  intros st st' c H. destruct st; try discriminate. destruct st'; try discriminate.
  apply Z.eqb_eq in H. auto.
Qed.

Lemma in_step_step : forall st st' c, in_step st st' ->
  (match st, st' with SCode, SStrQ => c =? c_quote | _, _ => false end) = false ->
  role_of st' c = role_of st c /\ in_step (step st c) (step st' c).
Proof.
  intros st st' c [->|[-> ->]] H; [split; [reflexivity|now left]|].
  cbn [role_of step]. rewrite H. split; [reflexivity|now left].
Qed.

Lemma structure_go_conv : forall sql st st' ls,
  in_step st st' -> plain_lits_ok ls -> safe_go st st' sql ls = false ->
  tscan st' (splice st sql ls) <> splice_t (tscan st sql) ls.
Proof.
  induction sql as [|c r IH]; intros st st' ls HR Hpl Hs; cbn [splice tscan splice_t safe_go] in *; [discriminate|].
  destruct (c =? c_qm) eqn:Ec.
  - apply Z.eqb_eq in Ec. subst c. rewrite role_qm.
    destruct (protected st) eqn:Ep; cbn [andb negb] in *.
    + assert (st' = st) as -> by (destruct HR as [->|[-> _]]; [reflexivity|discriminate]).
      assert (Hq : (match st, st with SCode, SStrQ => c_qm =? c_quote | _, _ => false end) = false) by (now destruct st).
      rewrite Hq in Hs. cbn [negb andb] in Hs.
      cbn [tscan]. rewrite role_qm, Ep. intros E. inversion E as [E']. revert E'. apply IH; [now left|assumption|assumption].
    + pose proof (in_step_unprotected _ _ HR Ep) as Ep'.
      destruct ls as [|l ls'].
      * cbn [tscan]. rewrite role_qm, Ep'. intros E. inversion E as [E']. revert E'.
        apply IH; [|assumption|assumption]. left. now rewrite !step_qm_code.
      * assert (Hpl' : plain_lits_ok ls') by (intros t Ht; apply Hpl; now right).
        destruct (lit_start_ok st' l) eqn:El; cbn [andb] in Hs.
        -- destruct (lit_scan l st' Ep' El) as [Ht Hrun].
           rewrite tscan_app, Ht. intros E. apply app_inv_head in E. revert E.
           apply IH; [|assumption|assumption]. rewrite step_qm_code by assumption. rewrite Hrun.
           destruct l; [right; now split|now left].
        -- (* the literal itself is classified differently from its first character on *)
           destruct l as [s|t]; cbn [lit_start_ok lit_text] in *.
           ++ destruct st'; discriminate.
           ++ assert (Hok : plain_ok t = true) by (apply Hpl; now left). rewrite Hok in El. cbn [andb] in El.
              destruct st'; try discriminate. destruct t as [|c0 t0]; [discriminate|].
              apply negb_false_iff in El. apply Z.eqb_eq in El. subst c0. discriminate.
  - cbn [andb] in *. cbn [tscan].
    replace ((c =? c_qm) && match role_of st c with RInside => false | _ => true end) with false
      by (now rewrite Ec).
    destruct (match st, st' with SCode, SStrQ => c =? c_quote | _, _ => false end) eqn:Hd; cbn [negb andb] in Hs.
    + apply diverged_dec in Hd. destruct Hd as [-> [-> ->]]. cbn [role_of]. rewrite Z.eqb_refl.
      intros E. inversion E.
    + destruct (in_step_step st st' c HR Hd) as [Hrole HR']. rewrite Hrole.
      intros E. inversion E as [E']. revert E'. now apply IH.
Qed.

(** for literals a binder can emit (quoted strings, plain words / numbers) the lock-step condition is
    exactly the condition under which the bound text keeps the template's token structure *)
Theorem structure_preserved_iff : forall sql ls, plain_lits_ok ls ->
  (safe sql ls = true <-> tscan SCode (splice SCode sql ls) = splice_t (tscan SCode sql) ls).
Proof.
  intros sql ls Hpl. split; [apply structure_preserved_splice|].
  intros E. destruct (safe sql ls) eqn:Hs; [reflexivity|]. exfalso.
  exact (structure_go_conv sql SCode SCode ls (or_introl eq_refl) Hpl Hs E).
Qed.

Lemma lit_of_bval_text : forall v, lit_text (lit_of_bval v) = print_value v.
Proof. intros []; reflexivity. Qed.

(** without protected '?' and with enough values, the coded substitution is the splice *)
Lemma substitute_eq_splice : forall sql st vals,
  count_protected_qm st sql = O -> (count_qm sql <= length vals)%nat ->
  substitute sql vals = splice st sql (map lit_of_bval vals).
Proof.
  induction sql as [|c r IH]; intros st vals Hp Hn;
    cbn [substitute splice count_qm count_protected_qm] in *; [reflexivity|].
  destruct (c =? c_qm) eqn:E; cbn [andb] in *.
  - destruct (protected st); cbn [negb] in *; [discriminate|].
    destruct vals as [|v vals']; cbn [length] in Hn; [lia|]. cbn [map].
    rewrite lit_of_bval_text. f_equal. apply IH; [assumption|lia].
  - f_equal. now apply IH.
Qed.

Theorem structure_preserved : forall sql vals,
  count_protected_qm SCode sql = O -> count_qm sql = length vals ->
  safe sql (map lit_of_bval vals) = true ->
  tscan SCode (substitute sql vals) = splice_t (tscan SCode sql) (map lit_of_bval vals).
Proof.
  intros sql vals Hp Hn Hs. rewrite (substitute_eq_splice sql SCode vals Hp ltac:(lia)).
  now apply structure_preserved_splice.
Qed.

(** refutations: a negative number bound right after a '-' starts a comment; a string bound right
    after a closing quote continues that literal *)
Theorem structure_refuted_dash : exists sql vals,
  count_protected_qm SCode sql = O /\ count_qm sql = length vals /\
  tscan SCode (substitute sql vals) <> splice_t (tscan SCode sql) (map lit_of_bval vals).
Proof.
  exists [53; 45; 63; 43; 49] (* 5-?+1 *), [BSmallint (-3)]. repeat split. vm_compute. discriminate.
Qed.

Theorem structure_refuted_quote : exists sql vals,
  count_protected_qm SCode sql = O /\ count_qm sql = length vals /\
  tscan SCode (substitute sql vals) <> splice_t (tscan SCode sql) (map lit_of_bval vals).
Proof.
  exists [39; 97; 39; 63] (* 'a'? *), [BVarchar [98]]. repeat split. vm_compute. discriminate.
Qed.

Example structure_preserved_ex :
  let sql := [120; 32; 45; 32; 63; 44; 63; 32; 45; 45; 63] (* x - ?,? --? *) in
  let vals := [BSmallint (-3); BVarchar [97; 39]] in
  safe sql (map lit_of_bval vals) = true /\
  tscan SCode (splice SCode sql (map lit_of_bval vals)) = splice_t (tscan SCode sql) (map lit_of_bval vals).
Proof. vm_compute. split; reflexivity. Qed.

(** printed integers, NULL and booleans are plain literals *)
Lemma uint_plain : forall u, forallb plain_char (uint_text u) = true.
Proof. induction u; cbn [uint_text forallb]; try reflexivity; rewrite IHu; reflexivity. Qed.

Lemma uint_text_nonnil : forall u, u <> Nil -> uint_text u <> [].
Proof. intros [] H; cbn [uint_text]; try discriminate. contradiction. Qed.

Lemma to_int_nonnil : forall z, match Z.to_int z with Pos u | Neg u => u <> Nil end.
Proof.
  intros [|p|p]; cbn [Z.to_int]; try apply Unsigned.to_uint_nonnil. discriminate.
Qed.

Lemma dec_Z_plain : forall z, plain_ok (dec_Z z) = true.
Proof.
  intros z. unfold dec_Z. pose proof (to_int_nonnil z) as Hn. destruct (Z.to_int z) as [u|u].
  - pose proof (uint_plain u) as Hp. pose proof (uint_text_nonnil u Hn) as Hne.
    destruct (uint_text u) as [|c r] eqn:E; [contradiction|]. cbn [forallb] in Hp.
    apply andb_true_iff in Hp. destruct Hp as [Hc Hr]. cbn [plain_ok].
    destruct (c =? c_dash) eqn:Ec.
    + unfold plain_char in Hc. rewrite Ec in Hc. rewrite andb_false_r in Hc. discriminate.
    + now rewrite Hc, Hr.
  - cbn [plain_ok]. rewrite Z.eqb_refl. pose proof (uint_text_nonnil u Hn) as Hne.
    destruct (uint_text u) eqn:E; [contradiction|]. rewrite <- E. now rewrite uint_plain.
Qed.

Lemma print_value_plain : forall v,
  match v with BDouble _ | BNumeric _ | BVarchar _ | BCharacter _ => True | _ => plain_ok (print_value v) = true end.
Proof. intros []; try exact I; cbn [print_value]; try apply dec_Z_plain; try reflexivity. now destruct b. Qed.

(** * Part 6: values read back *)

(** Horner value of a decimal numeral *)
Fixpoint uint_val (u : Decimal.uint) (acc : Z) : Z :=
  match u with
  | Nil => acc
  | D0 u => uint_val u (acc * 10 + 0) | D1 u => uint_val u (acc * 10 + 1) | D2 u => uint_val u (acc * 10 + 2)
  | D3 u => uint_val u (acc * 10 + 3) | D4 u => uint_val u (acc * 10 + 4) | D5 u => uint_val u (acc * 10 + 5)
  | D6 u => uint_val u (acc * 10 + 6) | D7 u => uint_val u (acc * 10 + 7) | D8 u => uint_val u (acc * 10 + 8)
  | D9 u => uint_val u (acc * 10 + 9)
  end.

Lemma read_digits_uint : forall u acc, read_digits (uint_text u) acc = Some (uint_val u acc, []).
Proof. induction u; intros acc; cbn [uint_text uint_val]; [reflexivity| | | | | | | | | | ]; apply IHu. Qed.

Lemma of_uint_acc_val : forall u p, Z.pos (Pos.of_uint_acc u p) = uint_val u (Z.pos p).
Proof.
  induction u; intros p; cbn [Pos.of_uint_acc uint_val]; [reflexivity| | | | | | | | | | ];
    rewrite IHu; f_equal; lia.
Qed.

Lemma of_uint_val : forall u, Z.of_uint u = uint_val u 0.
Proof.
  unfold Z.of_uint. induction u; cbn [Pos.of_uint uint_val]; [reflexivity|exact IHu| | | | | | | | | ];
    cbn [Z.of_N]; rewrite of_uint_acc_val; reflexivity.
Qed.

Lemma uint_first_digit : forall u c r, uint_text u = c :: r ->
  (c =? c_quote) = false /\ (c =? c_dash) = false /\ exists d, digit_of c = Some d.
Proof.
  intros u c r H. destruct u; cbn [uint_text] in H; [discriminate| | | | | | | | | | ];
    inversion H; subst; (split; [reflexivity|split; [reflexivity|eexists; reflexivity]]).
Qed.

Lemma read_unsigned_uint : forall u, u <> Nil ->
  read_unsigned (uint_text u) =
  Some (if Z.of_uint u <=? i64_max then RInt (Z.of_uint u) else RFloat (f64_of_ratio (Z.of_uint u) 1)).
Proof.
  intros u Hn. pose proof (uint_text_nonnil u Hn) as Hne.
  destruct (uint_text u) as [|c r] eqn:E; [contradiction|].
  destruct (uint_first_digit u c r E) as [Hq [_ [d Hd]]].
  unfold read_unsigned. rewrite Hq, Hd. unfold read_number. rewrite <- E.
  rewrite read_digits_uint, <- of_uint_val. now destruct (Z.of_uint u <=? i64_max).
Qed.

(** what the reader returns for a printed integer *)
Lemma read_literal_dec_Z : forall z,
  read_literal (dec_Z z) =
  Some (if 0 <=? z then (if z <=? i64_max then RInt z else RFloat (f64_of_ratio z 1))
        else (if - z <=? i64_max then RInt z else RFloat (f64_negate (f64_of_ratio (- z) 1)))).
Proof.
  intros z. unfold dec_Z. pose proof (DecimalZ.of_to z) as Hz. pose proof (to_int_nonnil z) as Hn.
  destruct (Z.to_int z) as [u|u] eqn:Ei; cbn [Z.of_int] in Hz.
  - assert (H0 : 0 <= z) by (destruct z; cbn in Ei; try discriminate; lia).
    pose proof (uint_text_nonnil u Hn) as Hne.
    destruct (uint_text u) as [|c r] eqn:E; [contradiction|].
    destruct (uint_first_digit u c r E) as [_ [Hd _]].
    unfold read_literal. rewrite Hd. rewrite <- E. rewrite (read_unsigned_uint u Hn), Hz.
    destruct (0 <=? z) eqn:E0; [reflexivity|]. apply Z.leb_gt in E0. lia.
  - assert (H0 : z < 0) by (destruct z; cbn in Ei; try discriminate; lia).
    unfold read_literal. rewrite Z.eqb_refl. rewrite (read_unsigned_uint u Hn).
    replace (Z.of_uint u) with (- z) by lia.
    destruct (0 <=? z) eqn:E0; [apply Z.leb_le in E0; lia|].
    destruct (- z <=? i64_max); [|reflexivity]. now rewrite Z.opp_involutive.
Qed.

(** ints strictly above i64::MIN come back as the same int *)
Theorem roundtrip_int : forall z, i64_min < z <= i64_max -> read_back (PInt z) = Some (RInt z).
Proof.
  intros z [Hlo Hhi]. unfold read_back. cbn [py_to_sqlvalue].
  assert (Hin : in_i64 z = true).
  { unfold in_i64. apply andb_true_iff. split; apply Z.leb_le; lia. }
  rewrite Hin.
  assert (Hr : read_literal (dec_Z z) = Some (RInt z)).
  { rewrite read_literal_dec_Z. destruct (0 <=? z) eqn:E0.
    - apply Z.leb_le in Hhi. now rewrite Hhi.
    - assert (H : - z <=? i64_max = true) by (apply Z.leb_le; unfold i64_min, i64_max in *; lia). now rewrite H. }
  destruct ((i16_min <=? z) && (z <=? i16_max)); [exact Hr|].
  destruct ((i32_min <=? z) && (z <=? i32_max)); exact Hr.
Qed.

(** i64::MIN is printed as -9223372036854775808; the reader sees unary minus applied to a numeral
    that does not fit i64, i.e. a float: the value is kept (-2^63 is a binary64), the type is not *)
Theorem roundtrip_i64_min : read_back (PInt i64_min) = Some (RFloat 14114281232179134464 (* 0xC3E0.. = -2^63 *)).
Proof. vm_compute. reflexivity. Qed.

Theorem roundtrip_bool : forall b, read_back (PBool b) = Some (RInt (if b then 1 else 0)).
Proof. intros []; vm_compute; reflexivity. Qed.

Theorem roundtrip_none : read_back PNone = Some RNull.
Proof. vm_compute. reflexivity. Qed.

Theorem roundtrip_str : forall s, has_surrogate s = false -> read_back (PStr s) = Some (RStr s).
Proof. intros s H. unfold read_back. cbn [py_to_sqlvalue]. rewrite H. cbn [print_value]. apply read_literal_quote. Qed.

(** ints outside i64 are bound as the nearest binary64: the value read back differs from the value bound *)
Theorem roundtrip_big_int_refuted : exists z, read_back (PInt z) = Some (RFloat 4890909195324358656 (* 2^63 *))
  /\ z <> 9223372036854775808.
Proof. exists 9223372036854775809. split; [vm_compute; reflexivity|discriminate]. Qed.

(** infinities and NaN are printed as the words inf / -inf / NaN: the reader sees a column reference *)
Theorem roundtrip_nonfinite_refuted : forall b, 0 <= b < two64 -> f64_finite b = false ->
  exists t, read_back (PFloat b) = Some (RIdent t).
Proof.
  intros b Hb H. unfold read_back. cbn [py_to_sqlvalue print_value]. unfold fmt_f64, f64_decode.
  unfold f64_finite in H. apply negb_false_iff in H. rewrite H.
  destruct (f64_frac b =? 0); [|eexists; vm_compute; reflexivity].
  destruct (f64_neg b); eexists; vm_compute; reflexivity.
Qed.

(** what holds for finite floats is validated per run, not proved: the printed decimal is read back as the
    same binary64 (or as the equal integer when it has no fraction).  Two facts that are provable by
    computation: the sign of zero is lost and an integral float comes back as an int *)
Example roundtrip_float_examples :
  read_back (PFloat 4609434218613702656 (* 1.5 *)) = Some (RFloat 4609434218613702656) /\
  read_back (PFloat 4607182418800017408 (* 1.0 *)) = Some (RInt 1) /\
  read_back (PFloat two63 (* -0.0 *)) = Some (RInt 0) /\
  read_back (PFloat 4599075939470750516 (* 0.30000000000000004 *)) = Some (RFloat 4599075939470750516) /\
  read_back (PFloat 1 (* 5e-324 *)) = Some (RFloat 1) /\
  read_back (PFloat 9218868437227405311 (* f64::MAX *)) = Some (RFloat 9218868437227405311).
Proof. vm_compute. repeat split. Qed.

(** the read-back property for the value kinds it holds for, in one statement *)
Definition py_expected (v : pyval) : option rval :=
  match v with
  | PNone => Some RNull
  | PInt z => if (i64_min <? z) && (z <=? i64_max) then Some (RInt z) else None
  | PBool b => Some (RInt (if b then 1 else 0))
  | PStr s => if has_surrogate s then None else Some (RStr s)
  | PFloat _ | POther => None
  end.

Theorem value_roundtrip_py : forall v r, py_expected v = Some r -> read_back v = Some r.
Proof.
  intros [|z|b|b|s|] r H; cbn [py_expected] in H; try discriminate.
  - inversion H; subst. apply roundtrip_none.
  - destruct ((i64_min <? z) && (z <=? i64_max)) eqn:E; [|discriminate]. inversion H; subst.
    apply andb_true_iff in E. destruct E as [E1 E2]. apply Z.ltb_lt in E1. apply Z.leb_le in E2.
    apply roundtrip_int. lia.
  - inversion H; subst. apply roundtrip_bool.
  - destruct (has_surrogate s) eqn:E; [discriminate|]. inversion H; subst. now apply roundtrip_str.
Qed.

Example value_roundtrip_py_ex :
  py_expected (PInt (-9223372036854775807)) = Some (RInt (-9223372036854775807)) /\
  py_expected (PStr [39; 63; 233; 128512]) = Some (RStr [39; 63; 233; 128512]).
Proof. split; reflexivity. Qed.

(** a float of 2^53 or more whose shortest decimal has trailing zeros is read back as an int that is
    NOT the exact value of the double (it is equal to it only after conversion to binary64) *)
Example roundtrip_large_integral_float :
  read_back (PFloat 4861130398305394689 (* 1.0000000000000002e17 = 100000000000000016 *)) = Some (RInt 100000000000000020).
Proof. vm_compute. reflexivity. Qed.
