(** Laws of the statement splitter (Lex/Splitter.v).

    Main results, for a file made of comment / blank lines and statement lines of the shape
    written by [save_sql_dump] (plain text interleaved with ['...'] literals whose quotes are
    doubled, terminated by [;]):

      [split_safe]      when no literal contains a newline and every literal is [esc_safe], the
                        splitter returns exactly the statement texts and ends outside any string;
      [split_unsafe]    when no literal contains a newline but some literal is not [esc_safe], the
                        splitter ends INSIDE a string (the scanner state is wrong from that literal
                        to the end of the file);
      [split_no_nl]     no piece returned by the splitter ever contains a newline;
      [split_dump_iff]  hence: pieces = statements and ends outside a string
                        IFF every literal is newline-free and [esc_safe]. *)
From Coq Require Import List ZArith Bool Lia.
From VibeSQL Require Import Value.Dec Value.RStr Value.RStrLaws Lex.Splitter.
Import ListNotations.
Open Scope Z_scope.

(** * Vocabulary *)

(** the value with its quotes doubled, and the quoted literal (the same definitions as
    [sql_quote] / [str_lit] of Codec/SqlLiteral.v) *)
Definition quote2 (s : str) : str := flat_map (fun c => if c =? 39 then [39; 39] else [c]) s.
Definition quoted (s : str) : str := 39 :: quote2 s ++ [39].

(** characters that mean nothing to the splitter: not the quote, the double quote, the backslash, the semicolon, the newline *)
Definition plainc (c : Z) : bool :=
  negb (c =? 39) && negb (c =? 34) && negb (c =? 92) && negb (c =? 59) && negb (c =? 10).

Inductive seg : Type := SPlain (p : str) | SLit (s : str).
Definition render_seg (g : seg) : str := match g with SPlain p => p | SLit s => quoted s end.
Definition render (gs : list seg) : str := flat_map render_seg gs.
Definition seg_wf (g : seg) : bool := match g with SPlain p => forallb plainc p | SLit _ => true end.
Definition seg_lits (g : seg) : list str := match g with SPlain _ => [] | SLit s => [s] end.
Definition lits (gs : list seg) : list str := flat_map seg_lits gs.

(** a statement: first character, segments, last character; its text is followed by [;] *)
Record stmt : Type := mk_stmt { st_hd : Z; st_segs : list seg; st_fin : Z }.
Definition stmt_text (s : stmt) : str := st_hd s :: render (st_segs s) ++ [st_fin s].
Definition stmt_wf (s : stmt) : bool :=
  plainc (st_hd s) && negb (is_ws (st_hd s)) && negb (st_hd s =? 45)
  && forallb seg_wf (st_segs s) && plainc (st_fin s).

(** a line that is kept intact by [str::lines]: no newline in it and no carriage return at its end *)
Fixpoint line_ok (l : str) : bool :=
  match l with
  | [] => true
  | c :: r => negb (c =? 10) && (match r with [] => negb (c =? 13) | _ => line_ok r end)
  end.

Inductive dline : Type := LSkip (l : str) | LStmt (s : stmt).
Definition dline_text (d : dline) : str :=
  match d with LSkip l => l | LStmt s => stmt_text s ++ [59] end.
Definition dline_wf (d : dline) : bool :=
  match d with
  | LSkip l => line_ok l && (starts_dashes (trim l) || is_nil (trim l))
  | LStmt s => stmt_wf s
  end.
Definition dline_lits (d : dline) : list str :=
  match d with LSkip _ => [] | LStmt s => lits (st_segs s) end.
Definition file_text (ds : list dline) : str := flat_map (fun d => dline_text d ++ [10]) ds.
Definition file_lits (ds : list dline) : list str := flat_map dline_lits ds.

(** what the splitter should return: the statement texts; every one but the first carries the
    blank that replaced the preceding line break *)
Fixpoint expected (pre : str) (ds : list dline) : list str :=
  match ds with
  | [] => []
  | LSkip _ :: r => expected pre r
  | LStmt s :: r => (pre ++ stmt_text s) :: expected [32] r
  end.

Definition lit_ok (s : str) : bool := negb (has_nl s) && esc_safe s.

(** * [lines] *)
Lemma lines_line l rest : line_ok l = true -> lines (l ++ 10 :: rest) = l :: lines rest.
Proof.
  induction l as [|c l IH]; intros H.
  - reflexivity.
  - cbn [line_ok] in H. apply andb_true_iff in H as [Hc H].
    apply negb_true_iff in Hc. cbn [app lines]. rewrite Hc.
    destruct l as [|c2 l'].
    + apply negb_true_iff in H. rewrite H. cbn [app lines]. rewrite Z.eqb_refl. reflexivity.
    + rewrite IH by exact H.
      destruct (c =? 13); [|reflexivity].
      cbn [app]. cbn [line_ok] in H. apply andb_true_iff in H as [Hc2 _].
      apply negb_true_iff in Hc2. rewrite Hc2. reflexivity.
Qed.

Lemma lines_file (ls : list str) :
  forallb line_ok ls = true -> lines (flat_map (fun l => l ++ [10]) ls) = ls.
Proof.
  induction ls as [|l ls IH]; intros H; [reflexivity|].
  cbn [forallb] in H. apply andb_true_iff in H as [Hl H].
  cbn [flat_map]. rewrite <- app_assoc. cbn [app]. rewrite lines_line by exact Hl.
  rewrite IH by exact H. reflexivity.
Qed.

(** no line contains a newline *)
Lemma lines_no_nl s : Forall (fun l => has_nl l = false) (lines s).
Proof.
  induction s as [|c r IH]; [constructor|].
  cbn [lines]. destruct (Z.eqb_spec c 10) as [->|N].
  - constructor; [reflexivity | exact IH].
  - assert (K : Forall (fun l => has_nl l = false)
                 (match lines r with [] => [[c]] | l :: ls => (c :: l) :: ls end)).
    { destruct (lines r) as [|l ls].
      - constructor; [|constructor]. unfold has_nl. cbn [existsb].
        apply Z.eqb_neq in N. rewrite Z.eqb_sym, N. reflexivity.
      - inversion IH; subst. constructor; [|assumption]. unfold has_nl in *. cbn [existsb].
        apply Z.eqb_neq in N. rewrite Z.eqb_sym, N. assumption. }
    destruct (c =? 13); [|exact K].
    destruct r as [|c2 r']; [exact K|].
    destruct (Z.eqb_spec c2 10) as [->|N2]; [|exact K].
    constructor; [reflexivity|].
    cbn [lines] in IH. rewrite Z.eqb_refl in IH. inversion IH; assumption.
Qed.

(** * One character at a time *)
Lemma run_chars_app st a b : run_chars st (a ++ b) = run_chars (run_chars st a) b.
Proof. unfold run_chars. apply fold_left_app. Qed.

Lemma plainc_inv c : plainc c = true -> c <> 39 /\ c <> 34 /\ c <> 92 /\ c <> 59 /\ c <> 10.
Proof.
  unfold plainc. rewrite !andb_true_iff, !negb_true_iff, !Z.eqb_neq. tauto.
Qed.

Ltac neq_rw :=
  repeat match goal with
         | H : ?a <> ?b |- _ => apply Z.eqb_neq in H; try rewrite H
         end.

(** plain text is appended, whatever the (escape-free) state, as long as an open string was
    opened by one of the two quote characters *)
Lemma run_plain p : forall o c i ch,
  forallb plainc p = true -> (i = true -> ch = 39 \/ ch = 34) ->
  run_chars (mk_sst o c i ch false) p = mk_sst o (c ++ p) i ch false.
Proof.
  induction p as [|x p IH]; intros o c i ch Hp Hch.
  - cbn. rewrite app_nil_r. reflexivity.
  - cbn [forallb] in Hp. apply andb_true_iff in Hp as [Hx Hp].
    apply plainc_inv in Hx as (N39 & N34 & N92 & N59 & _).
    change (run_chars ?s (x :: p)) with (run_chars (step s x) p).
    assert (S1 : step (mk_sst o c i ch false) x = mk_sst o (c ++ [x]) i ch false).
    { unfold step. cbn [s_esc s_in s_ch s_out s_cur].
      apply Z.eqb_neq in N39, N34, N92, N59. rewrite N39, N34, N92, N59. cbn [andb orb].
      destruct i; cbn [andb negb]; [|reflexivity].
      destruct (Hch eq_refl) as [-> | ->].
      - rewrite N39. reflexivity.
      - rewrite N34. reflexivity. }
    rewrite S1, IH by assumption. rewrite <- app_assoc. reflexivity.
Qed.

(** ** single steps on the state shapes that occur *)
Lemma quote2_cons x r : quote2 (x :: r) = (if x =? 39 then [39; 39] else [x]) ++ quote2 r.
Proof. reflexivity. Qed.

Lemma run_cons st x t : run_chars st (x :: t) = run_chars (step st x) t.
Proof. reflexivity. Qed.

Lemma step_sq_esc o c x : step (mk_sst o c true 39 true) x = mk_sst o (c ++ [x]) true 39 false.
Proof. reflexivity. Qed.
Lemma step_sq_bs o c : step (mk_sst o c true 39 false) 92 = mk_sst o (c ++ [92]) true 39 true.
Proof. reflexivity. Qed.
Lemma step_sq_q o c : step (mk_sst o c true 39 false) 39 = mk_sst o (c ++ [39]) false 39 false.
Proof. reflexivity. Qed.
Lemma step_out_q o c ch : step (mk_sst o c false ch false) 39 = mk_sst o (c ++ [39]) true 39 false.
Proof. reflexivity. Qed.
Lemma step_sq_other o c x : x <> 92 -> x <> 39 ->
  step (mk_sst o c true 39 false) x = mk_sst o (c ++ [x]) true 39 false.
Proof.
  intros N92 N39. apply Z.eqb_neq in N92, N39. unfold step. cbn [s_esc s_in s_ch s_out s_cur].
  rewrite N92, N39. cbn [andb orb negb]. rewrite !andb_false_r. reflexivity.
Qed.

(** ** a literal read from inside a ['...'] string: state [(true, 39, e)] *)
Lemma run_body_safe s : forall e o c,
  esc_scan e s = true ->
  run_chars (mk_sst o c true 39 e) (quote2 s ++ [39]) = mk_sst o (c ++ quote2 s ++ [39]) false 39 false.
Proof.
  induction s as [|x r IH]; intros e o c H.
  - cbn [esc_scan] in H. apply negb_true_iff in H. subst e. reflexivity.
  - cbn [esc_scan] in H. rewrite quote2_cons. destruct e.
    + apply andb_true_iff in H as [Hx H]. apply negb_true_iff in Hx. rewrite Hx.
      cbn [app]. rewrite run_cons, step_sq_esc, (IH false) by exact H.
      rewrite <- app_assoc. reflexivity.
    + destruct (Z.eqb_spec x 92) as [->|N92].
      * cbn [Z.eqb Pos.eqb app]. rewrite run_cons, step_sq_bs, (IH true) by exact H.
        rewrite <- app_assoc. reflexivity.
      * destruct (Z.eqb_spec x 39) as [->|N39].
        -- cbn [app]. rewrite !run_cons, step_sq_q, step_out_q, (IH false) by exact H.
           rewrite <- !app_assoc. reflexivity.
        -- cbn [app]. rewrite run_cons, step_sq_other, (IH false) by assumption.
           rewrite <- app_assoc. reflexivity.
Qed.

Lemma run_quoted_safe s o c ch :
  esc_safe s = true ->
  run_chars (mk_sst o c false ch false) (quoted s) = mk_sst o (c ++ quoted s) false 39 false.
Proof.
  intros H. unfold quoted. rewrite run_cons, step_out_q, run_body_safe by exact H.
  rewrite <- app_assoc. reflexivity.
Qed.

(** ** the wrong states *)

(** not inside a ['...'] string (outside, or inside a string opened by a double quote), no pending escape *)
Definition inv (st : sst) : Prop := s_esc st = false /\ (s_in st = false \/ s_ch st = 34).
(** inside a string opened by one of the quote characters, no pending escape *)
Definition bad (st : sst) : Prop := s_in st = true /\ s_esc st = false /\ (s_ch st = 39 \/ s_ch st = 34).

Lemma inv_value_char st x : inv st -> inv (run_chars st (if x =? 39 then [39; 39] else [x])).
Proof.
  destruct st as [o c i ch e]. unfold inv. cbn [s_esc s_in s_ch]. intros [-> Hi].
  destruct (Z.eqb_spec x 39) as [->|N39].
  - cbn [run_chars fold_left]. destruct Hi as [-> | ->].
    + unfold step. cbn. auto.
    + destruct i; unfold step; cbn; auto.
  - cbn [run_chars fold_left]. unfold step. cbn [s_esc s_in s_ch s_out s_cur].
    apply Z.eqb_neq in N39. rewrite N39. cbn [orb].
    destruct Hi as [-> | ->].
    + cbn [andb negb]. rewrite andb_false_r.
      destruct (x =? 34) eqn:E34; cbn [andb orb]; [cbn; apply Z.eqb_eq in E34; auto|].
      destruct (x =? 59); cbn; auto.
    + destruct i; cbn [andb negb].
      * rewrite !andb_false_r. cbn [andb]. destruct (x =? 34) eqn:E34; cbn; auto.
      * rewrite andb_false_r. destruct (x =? 34) eqn:E34; cbn [andb orb]; [cbn; apply Z.eqb_eq in E34; auto|].
        destruct (x =? 59); cbn; auto.
Qed.

Lemma inv_body st r : inv st -> inv (run_chars st (quote2 r)).
Proof.
  revert st. induction r as [|x r IH]; intros st H; [exact H|].
  rewrite quote2_cons, run_chars_app. apply IH, inv_value_char, H.
Qed.

Lemma inv_close st : inv st -> bad (step st 39).
Proof.
  destruct st as [o c i ch e]. unfold inv, bad. cbn [s_esc s_in s_ch]. intros [-> Hi].
  destruct Hi as [-> | ->].
  - unfold step. cbn. auto.
  - destruct i; unfold step; cbn; auto.
Qed.

Lemma inv_tail st r : inv st -> bad (run_chars st (quote2 r ++ [39])).
Proof.
  intros H. rewrite run_chars_app. cbn [run_chars fold_left]. apply inv_close, inv_body, H.
Qed.

Lemma bad_open st : bad st -> inv (step st 39).
Proof.
  destruct st as [o c i ch e]. unfold inv, bad. cbn [s_esc s_in s_ch]. intros (-> & -> & [-> | ->]);
    unfold step; cbn; auto.
Qed.

(** a literal that is not [esc_safe] leaves the scanner inside a string *)
Lemma run_body_unsafe s : forall e o c,
  esc_scan e s = false -> bad (run_chars (mk_sst o c true 39 e) (quote2 s ++ [39])).
Proof.
  induction s as [|x r IH]; intros e o c H.
  - cbn [esc_scan] in H. apply negb_false_iff in H. subst e.
    cbn [quote2 flat_map app]. rewrite run_cons, step_sq_esc. unfold bad. cbn. auto.
  - cbn [esc_scan] in H. rewrite quote2_cons. destruct e.
    + destruct (Z.eqb_spec x 39) as [->|N39].
      * (* the escaped character is the first of the doubled quote: the second one closes *)
        cbn [app]. rewrite !run_cons, step_sq_esc, step_sq_q.
        apply inv_tail. unfold inv. cbn. auto.
      * cbn [negb andb] in H. cbn [app]. rewrite run_cons, step_sq_esc. apply (IH false), H.
    + destruct (Z.eqb_spec x 92) as [->|N92].
      * cbn [Z.eqb Pos.eqb app]. rewrite run_cons, step_sq_bs. apply (IH true), H.
      * destruct (Z.eqb_spec x 39) as [->|N39].
        -- cbn [app]. rewrite !run_cons, step_sq_q, step_out_q. apply (IH false), H.
        -- cbn [app]. rewrite run_cons, step_sq_other by assumption. apply (IH false), H.
Qed.

Lemma run_quoted_unsafe s o c ch :
  esc_safe s = false -> bad (run_chars (mk_sst o c false ch false) (quoted s)).
Proof.
  intros H. unfold quoted. rewrite run_cons, step_out_q. apply run_body_unsafe, H.
Qed.

(** once wrong, always wrong: plain text and whole literals keep the scanner inside a string *)
Lemma bad_plain st p : forallb plainc p = true -> bad st -> bad (run_chars st p).
Proof.
  destruct st as [o c i ch e]. unfold bad at 1. cbn [s_esc s_in s_ch]. intros Hp (-> & -> & Hch).
  rewrite run_plain by (assumption || auto). unfold bad. cbn. auto.
Qed.

Lemma bad_quoted st s : bad st -> bad (run_chars st (quoted s)).
Proof.
  intros H. unfold quoted.
  change (run_chars ?s0 (39 :: ?t)) with (run_chars (step s0 39) t).
  apply inv_tail, bad_open, H.
Qed.

Lemma render_cons' g gs : render (g :: gs) = render_seg g ++ render gs.
Proof. reflexivity. Qed.

Lemma bad_render st gs : forallb seg_wf gs = true -> bad st -> bad (run_chars st (render gs)).
Proof.
  revert st. induction gs as [|g gs IH]; intros st Hw H; [exact H|].
  cbn [forallb] in Hw. apply andb_true_iff in Hw as [Hg Hw].
  rewrite render_cons', run_chars_app. apply IH; [exact Hw|].
  destruct g as [p|s]; cbn [render_seg]; [apply bad_plain; assumption | apply bad_quoted; assumption].
Qed.

(** * Segments *)
Lemma render_cons g gs : render (g :: gs) = render_seg g ++ render gs.
Proof. reflexivity. Qed.
Lemma lits_cons g gs : lits (g :: gs) = seg_lits g ++ lits gs.
Proof. reflexivity. Qed.
Lemma file_lits_cons d ds : file_lits (d :: ds) = dline_lits d ++ file_lits ds.
Proof. reflexivity. Qed.
Lemma forallb_lit_app (f : str -> bool) a b : forallb f (a ++ b) = forallb f a && forallb f b.
Proof. apply forallb_app. Qed.

Lemma run_render_safe gs : forall o c ch,
  forallb seg_wf gs = true -> forallb esc_safe (lits gs) = true ->
  exists ch', run_chars (mk_sst o c false ch false) (render gs) = mk_sst o (c ++ render gs) false ch' false.
Proof.
  induction gs as [|g gs IH]; intros o c ch Hw Hs.
  - exists ch. cbn. rewrite app_nil_r. reflexivity.
  - cbn [forallb] in Hw. apply andb_true_iff in Hw as [Hg Hw].
    rewrite lits_cons, forallb_app in Hs. apply andb_true_iff in Hs as [Hs1 Hs].
    rewrite render_cons, run_chars_app.
    destruct g as [p|s]; cbn [render_seg seg_wf seg_lits forallb] in *.
    + rewrite run_plain by (assumption || discriminate).
      destruct (IH o (c ++ p) ch Hw Hs) as (ch' & E). exists ch'. rewrite E, <- app_assoc. reflexivity.
    + apply andb_true_iff in Hs1 as [Hs1 _]. rewrite run_quoted_safe by exact Hs1.
      destruct (IH o (c ++ quoted s) 39 Hw Hs) as (ch' & E). exists ch'. rewrite E, <- app_assoc. reflexivity.
Qed.

Lemma run_render_unsafe gs : forall o c ch,
  forallb seg_wf gs = true -> forallb esc_safe (lits gs) = false ->
  bad (run_chars (mk_sst o c false ch false) (render gs)).
Proof.
  induction gs as [|g gs IH]; intros o c ch Hw Hs; [discriminate|].
  cbn [forallb] in Hw. apply andb_true_iff in Hw as [Hg Hw].
  rewrite lits_cons, forallb_app in Hs.
  rewrite render_cons, run_chars_app.
  destruct g as [p|s]; cbn [render_seg seg_wf seg_lits forallb] in *.
  - rewrite run_plain by (assumption || discriminate). apply IH; assumption.
  - destruct (esc_safe s) eqn:E.
    + rewrite run_quoted_safe by exact E. apply IH; assumption.
    + apply bad_render; [exact Hw | apply run_quoted_unsafe, E].
Qed.

(** * Trimming facts *)
Lemma trim_cons_nonws c r : is_ws c = false -> exists t, trim (c :: r) = c :: t.
Proof.
  intros H. unfold trim. rewrite drop_while_id by exact H. unfold trim_end_by.
  cbn [rev]. assert (D : forall a, drop_while is_ws (a ++ [c]) = drop_while is_ws a ++ [c]).
  { induction a as [|x a IHa]; cbn [app drop_while]; [rewrite H; reflexivity|].
    destruct (is_ws x); [exact IHa | reflexivity]. }
  rewrite D, rev_app_distr. cbn [rev app]. eexists. reflexivity.
Qed.

Lemma trim_not_nil s x : In x s -> is_ws x = false -> is_nil (trim s) = false.
Proof.
  intros Hin Hx. destruct (trim_split s) as (a & z & E & Ha & Hz).
  destruct (trim s) as [|t ts]; [|reflexivity]. exfalso.
  rewrite E in Hin. cbn [app] in Hin. apply in_app_or in Hin.
  rewrite forallb_forall in Ha, Hz. destruct Hin as [Hin|Hin]; [apply Ha in Hin | apply Hz in Hin]; congruence.
Qed.

Lemma trim_end_semis_fin u f : f <> 59 -> trim_end_semis (u ++ [f] ++ [59]) = u ++ [f].
Proof.
  intros N. unfold trim_end_semis, trim_end_by. rewrite !rev_app_distr. cbn [rev app drop_while].
  rewrite Z.eqb_refl. apply Z.eqb_neq in N. rewrite Z.eqb_sym in N. cbn [drop_while]. rewrite N.
  cbn [rev]. rewrite rev_involutive. reflexivity.
Qed.

(** * Lines of the file *)

(** a statement line is never taken for a comment or a blank line *)
Lemma stmt_line_kept s : stmt_wf s = true ->
  starts_dashes (trim (stmt_text s ++ [59])) || is_nil (trim (stmt_text s ++ [59])) = false.
Proof.
  unfold stmt_wf. rewrite !andb_true_iff, !negb_true_iff. intros ((((_ & Hws) & H45) & _) & _).
  unfold stmt_text. cbn [app]. destruct (trim_cons_nonws (st_hd s) (render (st_segs s) ++ [st_fin s] ++ [59]) Hws) as (t & E).
  rewrite <- app_assoc. rewrite E. cbn [is_nil orb starts_dashes].
  apply Z.eqb_neq in H45. destruct (st_hd s); try reflexivity.
  destruct p; try reflexivity. repeat (destruct p; try reflexivity). exfalso. apply H45. reflexivity.
Qed.

Lemma do_line_skip st l : (starts_dashes (trim l) || is_nil (trim l)) = true -> do_line st l = st.
Proof. intros H. unfold do_line. rewrite H. reflexivity. Qed.

(** a safe statement line, read from outside any string *)
Lemma do_line_stmt_safe s o c ch :
  stmt_wf s = true -> forallb esc_safe (lits (st_segs s)) = true ->
  exists ch', do_line (mk_sst o c false ch false) (stmt_text s ++ [59])
              = mk_sst (o ++ [c ++ stmt_text s]) [32] false ch' false.
Proof.
  intros Hw Hs. unfold do_line. rewrite (stmt_line_kept s Hw).
  pose proof Hw as Hw'. unfold stmt_wf in Hw'. rewrite !andb_true_iff in Hw'.
  destruct Hw' as ((((Hhd & _) & _) & Hsegs) & Hfin).
  unfold stmt_text. cbn [app]. rewrite <- app_assoc.
  change (run_chars ?st (st_hd s :: ?t)) with (run_chars (run_chars st [st_hd s]) t).
  rewrite (run_plain [st_hd s]) by (cbn [forallb]; try rewrite Hhd; reflexivity || discriminate).
  rewrite run_chars_app.
  destruct (run_render_safe (st_segs s) o (c ++ [st_hd s]) ch Hsegs Hs) as (ch' & E). rewrite E.
  change (run_chars ?st ([st_fin s] ++ [59])) with (run_chars (run_chars st [st_fin s]) [59]).
  rewrite (run_plain [st_fin s]) by (cbn [forallb]; try rewrite Hfin; reflexivity || discriminate).
  cbn [run_chars fold_left]. unfold step. cbn [s_esc s_in s_ch s_out s_cur Z.eqb Pos.eqb andb orb negb].
  exists ch'.
  set (body := (c ++ [st_hd s]) ++ render (st_segs s)).
  assert (NN : is_nil (trim ((body ++ [st_fin s]) ++ [59])) = false).
  { apply (trim_not_nil _ 59); [apply in_or_app; right; left; reflexivity | reflexivity]. }
  rewrite NN. cbn [s_in]. unfold push. cbn [s_esc s_in s_ch s_out s_cur app].
  apply plainc_inv in Hfin as (_ & _ & _ & N59 & _).
  rewrite <- app_assoc. rewrite (trim_end_semis_fin body (st_fin s) N59).
  unfold body. rewrite <- !app_assoc. reflexivity.
Qed.

(** any statement line keeps a wrong scanner wrong *)
Lemma do_line_stmt_bad s st : stmt_wf s = true -> bad st -> bad (do_line st (stmt_text s ++ [59])).
Proof.
  intros Hw Hb. unfold do_line. rewrite (stmt_line_kept s Hw).
  pose proof Hw as Hw'. unfold stmt_wf in Hw'. rewrite !andb_true_iff in Hw'.
  destruct Hw' as ((((Hhd & _) & _) & Hsegs) & Hfin).
  assert (B : bad (run_chars st (stmt_text s ++ [59]))).
  { unfold stmt_text. cbn [app]. rewrite <- app_assoc.
    change (run_chars ?st0 (st_hd s :: ?t)) with (run_chars (run_chars st0 [st_hd s]) t).
    rewrite run_chars_app.
    change (run_chars ?st0 ([st_fin s] ++ [59])) with (run_chars (run_chars st0 [st_fin s]) [59]).
    assert (B1 : bad (run_chars st [st_hd s])) by (apply bad_plain; [cbn [forallb]; rewrite Hhd; reflexivity | exact Hb]).
    assert (B2 := bad_render _ _ Hsegs B1).
    assert (B3 : bad (run_chars (run_chars (run_chars st [st_hd s]) (render (st_segs s))) [st_fin s]))
      by (apply bad_plain; [cbn [forallb]; rewrite Hfin; reflexivity | exact B2]).
    revert B3. generalize (run_chars (run_chars (run_chars st [st_hd s]) (render (st_segs s))) [st_fin s]).
    intros [o c i ch e]. unfold bad. cbn [s_esc s_in s_ch]. intros (-> & -> & [-> | ->]);
      cbn [run_chars fold_left]; unfold step; cbn; auto. }
  destruct B as (Bi & Be & Bc). rewrite Bi. unfold bad. auto.
Qed.

(** an unsafe statement line, read from outside any string, leaves the scanner wrong *)
Lemma do_line_stmt_unsafe s o c ch :
  stmt_wf s = true -> forallb esc_safe (lits (st_segs s)) = false ->
  bad (do_line (mk_sst o c false ch false) (stmt_text s ++ [59])).
Proof.
  intros Hw Hs. unfold do_line. rewrite (stmt_line_kept s Hw).
  pose proof Hw as Hw'. unfold stmt_wf in Hw'. rewrite !andb_true_iff in Hw'.
  destruct Hw' as ((((Hhd & _) & _) & Hsegs) & Hfin).
  assert (B : bad (run_chars (mk_sst o c false ch false) (stmt_text s ++ [59]))).
  { unfold stmt_text. cbn [app]. rewrite <- app_assoc.
    change (run_chars ?st0 (st_hd s :: ?t)) with (run_chars (run_chars st0 [st_hd s]) t).
    rewrite (run_plain [st_hd s]) by (cbn [forallb]; try rewrite Hhd; reflexivity || discriminate).
    rewrite run_chars_app.
    change (run_chars ?st0 ([st_fin s] ++ [59])) with (run_chars (run_chars st0 [st_fin s]) [59]).
    assert (B2 := run_render_unsafe (st_segs s) o (c ++ [st_hd s]) ch Hsegs Hs).
    assert (B3 : bad (run_chars (run_chars (mk_sst o (c ++ [st_hd s]) false ch false) (render (st_segs s))) [st_fin s]))
      by (apply bad_plain; [cbn [forallb]; rewrite Hfin; reflexivity | exact B2]).
    revert B3. generalize (run_chars (run_chars (mk_sst o (c ++ [st_hd s]) false ch false) (render (st_segs s))) [st_fin s]).
    intros [o' c' i ch' e]. unfold bad. cbn [s_esc s_in s_ch]. intros (-> & -> & [-> | ->]);
      cbn [run_chars fold_left]; unfold step; cbn; auto. }
  destruct B as (Bi & Be & Bc). rewrite Bi. unfold bad. auto.
Qed.

(** * Whole files *)
Definition dline_line (d : dline) : str := dline_text d.

Lemma run_lines_safe ds : forall o c ch,
  forallb dline_wf ds = true -> forallb esc_safe (file_lits ds) = true ->
  (c = [] \/ c = [32]) ->
  exists ch' c', run_lines (mk_sst o c false ch false) (map dline_text ds)
                 = mk_sst (o ++ expected c ds) c' false ch' false /\ (c' = [] \/ c' = [32]).
Proof.
  induction ds as [|d ds IH]; intros o c ch Hw Hs Hc.
  - exists ch, c. cbn. rewrite app_nil_r. auto.
  - cbn [forallb] in Hw. apply andb_true_iff in Hw as [Hd Hw].
    rewrite file_lits_cons, forallb_app in Hs. apply andb_true_iff in Hs as [Hs1 Hs].
    cbn [map run_lines fold_left]. destruct d as [l|s]; cbn [dline_text dline_wf dline_lits expected] in *.
    + apply andb_true_iff in Hd as [_ Hk]. rewrite do_line_skip by exact Hk. apply IH; assumption.
    + destruct (do_line_stmt_safe s o c ch Hd Hs1) as (ch1 & E). rewrite E.
      destruct (IH (o ++ [c ++ stmt_text s]) [32] ch1 Hw Hs (or_intror eq_refl)) as (ch' & c' & E2 & Hc').
      exists ch', c'. split; [|exact Hc']. unfold run_lines in E2. rewrite E2, <- app_assoc. reflexivity.
Qed.

Lemma run_lines_bad ds : forall st, forallb dline_wf ds = true -> bad st -> bad (run_lines st (map dline_text ds)).
Proof.
  induction ds as [|d ds IH]; intros st Hw Hb; [exact Hb|].
  cbn [forallb] in Hw. apply andb_true_iff in Hw as [Hd Hw].
  cbn [map run_lines fold_left]. apply IH; [exact Hw|].
  destruct d as [l|s]; cbn [dline_text dline_wf] in *.
  - apply andb_true_iff in Hd as [_ Hk]. rewrite do_line_skip by exact Hk. exact Hb.
  - apply do_line_stmt_bad; assumption.
Qed.

Lemma run_lines_unsafe ds : forall o c ch,
  forallb dline_wf ds = true -> forallb esc_safe (file_lits ds) = false ->
  bad (run_lines (mk_sst o c false ch false) (map dline_text ds)).
Proof.
  induction ds as [|d ds IH]; intros o c ch Hw Hs; [discriminate|].
  cbn [forallb] in Hw. apply andb_true_iff in Hw as [Hd Hw].
  rewrite file_lits_cons, forallb_app in Hs.
  cbn [map run_lines fold_left]. destruct d as [l|s]; cbn [dline_text dline_wf dline_lits] in *.
  - apply andb_true_iff in Hd as [_ Hk]. rewrite do_line_skip by exact Hk. apply IH; assumption.
  - destruct (forallb esc_safe (lits (st_segs s))) eqn:E1.
    + destruct (do_line_stmt_safe s o c ch Hd E1) as (ch1 & E). rewrite E. apply IH; assumption.
    + apply (run_lines_bad ds); [exact Hw|]. apply do_line_stmt_unsafe; assumption.
Qed.

(** the lines of a file whose literals are newline-free are the lines it was built from *)
Lemma no_nl_plain p : forallb plainc p = true -> has_nl p = false.
Proof.
  induction p as [|x p IH]; intros H; [reflexivity|].
  cbn [forallb] in H. apply andb_true_iff in H as [Hx H]. apply plainc_inv in Hx as (_ & _ & _ & _ & N).
  unfold has_nl in *. cbn [existsb]. apply Z.eqb_neq in N. rewrite Z.eqb_sym, N. apply IH, H.
Qed.

Lemma has_nl_app a b : has_nl (a ++ b) = has_nl a || has_nl b.
Proof. apply existsb_app. Qed.

Lemma has_nl_quote2 s : has_nl (quote2 s) = has_nl s.
Proof.
  induction s as [|x s IH]; [reflexivity|]. cbn [quote2 flat_map]. rewrite has_nl_app.
  fold (quote2 s). rewrite IH. unfold has_nl at 3. cbn [existsb]. fold (has_nl s).
  destruct (Z.eqb_spec x 39) as [->|N]; [reflexivity|]. unfold has_nl at 1. cbn [existsb]. rewrite orb_false_r. reflexivity.
Qed.

Lemma has_nl_render gs :
  forallb seg_wf gs = true -> has_nl (render gs) = existsb has_nl (lits gs).
Proof.
  induction gs as [|g gs IH]; intros Hw; [reflexivity|].
  cbn [forallb] in Hw. apply andb_true_iff in Hw as [Hg Hw].
  rewrite render_cons, lits_cons, has_nl_app, existsb_app, IH by exact Hw.
  f_equal. destruct g as [p|s]; cbn [render_seg seg_lits seg_wf existsb] in *.
  - apply no_nl_plain, Hg.
  - unfold quoted. change (39 :: quote2 s ++ [39]) with ([39] ++ quote2 s ++ [39]).
    rewrite !has_nl_app, has_nl_quote2. cbn. rewrite !orb_false_r. reflexivity.
Qed.

Lemma line_ok_of_no_nl l f : has_nl l = false -> f <> 10 -> f <> 13 -> line_ok (l ++ [f]) = true.
Proof.
  intros H N10 N13. induction l as [|x l IH].
  - cbn. apply Z.eqb_neq in N10, N13. rewrite N10, N13. reflexivity.
  - unfold has_nl in H. cbn [existsb] in H. apply orb_false_iff in H as [Hx H].
    cbn [app line_ok]. rewrite Z.eqb_sym in Hx. rewrite Hx. cbn [negb andb].
    destruct (l ++ [f]) eqn:E; [destruct l; discriminate|]. apply IH, H.
Qed.

Lemma dline_line_ok d :
  dline_wf d = true -> existsb has_nl (dline_lits d) = false -> line_ok (dline_text d) = true.
Proof.
  destruct d as [l|s]; cbn [dline_wf dline_lits dline_text]; intros Hw Hn.
  - apply andb_true_iff in Hw as [H _]. exact H.
  - apply line_ok_of_no_nl; try discriminate.
    unfold stmt_wf in Hw. rewrite !andb_true_iff in Hw. destruct Hw as ((((Hhd & _) & _) & Hsegs) & Hfin).
    unfold stmt_text. change (st_hd s :: render (st_segs s) ++ [st_fin s]) with ([st_hd s] ++ render (st_segs s) ++ [st_fin s]).
    rewrite !has_nl_app, has_nl_render, Hn by exact Hsegs.
    rewrite (no_nl_plain [st_hd s]), (no_nl_plain [st_fin s]) by (cbn [forallb]; rewrite ?Hhd, ?Hfin; reflexivity).
    reflexivity.
Qed.

Lemma file_lines ds :
  forallb dline_wf ds = true -> existsb has_nl (file_lits ds) = false ->
  lines (file_text ds) = map dline_text ds.
Proof.
  intros Hw Hn. unfold file_text.
  replace (flat_map (fun d => dline_text d ++ [10]) ds) with (flat_map (fun l => l ++ [10]) (map dline_text ds)).
  2:{ clear. induction ds as [|d ds IH]; [reflexivity|]. cbn [map flat_map]. rewrite IH. reflexivity. }
  apply lines_file. rewrite forallb_forall. intros l Hl. apply in_map_iff in Hl as (d & <- & Hd).
  apply dline_line_ok.
  - rewrite forallb_forall in Hw. apply Hw, Hd.
  - destruct (existsb has_nl (dline_lits d)) eqn:E; [|reflexivity].
    exfalso. apply existsb_exists in E as (x & Hx & Hnl).
    assert (K : existsb has_nl (file_lits ds) = true).
    { apply existsb_exists. exists x. split; [|exact Hnl]. unfold file_lits. apply in_flat_map. exists d. auto. }
    congruence.
Qed.

(** ** the three theorems *)
Theorem split_safe_thm ds :
  forallb dline_wf ds = true -> forallb lit_ok (file_lits ds) = true ->
  parse_sql_statements (file_text ds) = expected [] ds /\ ends_clean (file_text ds) = true.
Proof.
  intros Hw Hs.
  assert (Hn : existsb has_nl (file_lits ds) = false).
  { destruct (existsb has_nl (file_lits ds)) eqn:E; [|reflexivity]. exfalso.
    apply existsb_exists in E as (x & Hx & Hnl). rewrite forallb_forall in Hs. specialize (Hs x Hx).
    unfold lit_ok in Hs. rewrite Hnl in Hs. discriminate. }
  assert (He : forallb esc_safe (file_lits ds) = true).
  { rewrite forallb_forall in *. intros x Hx. specialize (Hs x Hx). unfold lit_ok in Hs.
    apply andb_true_iff in Hs as [_ H]. exact H. }
  unfold parse_sql_statements, ends_clean, split_run. rewrite file_lines by assumption.
  destruct (run_lines_safe ds [] [] 32 Hw He (or_introl eq_refl)) as (ch' & c' & E & Hc').
  unfold sst_init. rewrite E. cbn [s_in s_esc negb andb app]. split; [|reflexivity].
  unfold finish. cbn [s_cur s_out]. destruct Hc' as [-> | ->]; reflexivity.
Qed.

Theorem split_unsafe_thm ds :
  forallb dline_wf ds = true -> existsb has_nl (file_lits ds) = false ->
  forallb esc_safe (file_lits ds) = false ->
  s_in (split_run (file_text ds)) = true /\ ends_clean (file_text ds) = false.
Proof.
  intros Hw Hn He. unfold ends_clean, split_run. rewrite file_lines by assumption.
  destruct (run_lines_unsafe ds [] [] 32 Hw He) as (Bi & _ & _). unfold sst_init. rewrite Bi.
  split; reflexivity.
Qed.

(** ** nothing the splitter returns contains a newline *)
Definition st_no_nl (st : sst) : Prop :=
  Forall (fun s => has_nl s = false) (s_out st) /\ has_nl (s_cur st) = false.

Lemma has_nl_infix x s : infix x s -> has_nl s = false -> has_nl x = false.
Proof.
  intros (a & b & ->) H. rewrite !has_nl_app in H. apply orb_false_iff in H as [_ H].
  apply orb_false_iff in H as [H _]. exact H.
Qed.

Lemma trim_end_by_infix p s : infix (trim_end_by p s) s.
Proof. destruct (trim_end_by_split p s) as (z & E & _). exists [], z. exact E. Qed.

Lemma step_no_nl st ch : ch <> 10 -> st_no_nl st -> st_no_nl (step st ch).
Proof.
  intros N [Ho Hc].
  assert (P : has_nl (s_cur st ++ [ch]) = false).
  { rewrite has_nl_app, Hc. unfold has_nl. cbn [existsb]. apply Z.eqb_neq in N. rewrite Z.eqb_sym, N. reflexivity. }
  unfold step, st_no_nl, push.
  repeat match goal with |- context [if ?b then _ else _] => destruct b end; cbn [s_out s_cur]; auto.
  split; [|reflexivity]. apply Forall_app. split; [exact Ho|]. constructor; [|constructor].
  apply (has_nl_infix _ (s_cur st ++ [ch])); [apply trim_end_by_infix | exact P].
Qed.

Lemma run_chars_no_nl l : forall st, has_nl l = false -> st_no_nl st -> st_no_nl (run_chars st l).
Proof.
  induction l as [|x l IH]; intros st Hl H; [exact H|].
  unfold has_nl in Hl. cbn [existsb] in Hl. apply orb_false_iff in Hl as [Hx Hl].
  change (run_chars st (x :: l)) with (run_chars (step st x) l). apply IH; [exact Hl|].
  apply step_no_nl; [|exact H]. apply Z.eqb_neq. rewrite Z.eqb_sym. exact Hx.
Qed.

Lemma do_line_no_nl st l : has_nl l = false -> st_no_nl st -> st_no_nl (do_line st l).
Proof.
  intros Hl H. unfold do_line. destruct (starts_dashes (trim l) || is_nil (trim l)); [exact H|].
  pose proof (run_chars_no_nl l st Hl H) as [Ho Hc].
  destruct (s_in (run_chars st l)); [split; assumption|].
  unfold push, st_no_nl. cbn [s_out s_cur]. split; [exact Ho|]. rewrite has_nl_app, Hc. reflexivity.
Qed.

Theorem split_no_nl_thm content : Forall (fun s => has_nl s = false) (parse_sql_statements content).
Proof.
  unfold parse_sql_statements, split_run.
  assert (G : forall ls st, Forall (fun l => has_nl l = false) ls -> st_no_nl st -> st_no_nl (run_lines st ls)).
  { induction ls as [|l ls IH]; intros st Hl H; [exact H|]. inversion Hl; subst.
    cbn [run_lines fold_left]. apply IH; [assumption|]. apply do_line_no_nl; assumption. }
  destruct (G (lines content) sst_init (lines_no_nl content)) as [Ho Hc].
  { split; [constructor | reflexivity]. }
  unfold finish. destruct (is_nil (trim (s_cur (run_lines sst_init (lines content))))); [exact Ho|].
  apply Forall_app. split; [exact Ho|]. constructor; [|constructor].
  apply (has_nl_infix _ _ (trim_infix _) Hc).
Qed.

(** a literal with a newline puts that newline into the expected statement text *)
Lemma expected_has_nl ds : forall pre,
  forallb dline_wf ds = true -> existsb has_nl (file_lits ds) = true ->
  Exists (fun s => has_nl s = true) (expected pre ds).
Proof.
  induction ds as [|d ds IH]; intros pre Hw Hn; [discriminate|].
  cbn [forallb] in Hw. apply andb_true_iff in Hw as [Hd Hw].
  rewrite file_lits_cons, existsb_app in Hn.
  destruct d as [l|s]; cbn [dline_lits dline_wf expected existsb orb] in *.
  - apply IH; assumption.
  - destruct (existsb has_nl (lits (st_segs s))) eqn:E.
    + apply Exists_cons_hd. unfold stmt_wf in Hd. rewrite !andb_true_iff in Hd.
      destruct Hd as ((((_ & _) & _) & Hsegs) & _).
      unfold stmt_text. change (st_hd s :: render (st_segs s) ++ [st_fin s]) with ([st_hd s] ++ render (st_segs s) ++ [st_fin s]).
      rewrite !has_nl_app, has_nl_render, E by exact Hsegs. rewrite orb_true_r. cbn. apply orb_true_r.
    + apply Exists_cons_tl. apply IH; assumption.
Qed.

(** ** the equivalence *)
Theorem split_dump_iff_thm ds :
  forallb dline_wf ds = true ->
  (parse_sql_statements (file_text ds) = expected [] ds /\ ends_clean (file_text ds) = true
   <-> forallb lit_ok (file_lits ds) = true).
Proof.
  intros Hw. split.
  - intros [Hout Hclean].
    destruct (existsb has_nl (file_lits ds)) eqn:Hn.
    + exfalso. pose proof (expected_has_nl ds [] Hw Hn) as Ex. rewrite <- Hout in Ex.
      apply Exists_exists in Ex as (x & Hx & Hnl).
      pose proof (split_no_nl_thm (file_text ds)) as F. rewrite Forall_forall in F. rewrite (F x Hx) in Hnl. discriminate.
    + destruct (forallb esc_safe (file_lits ds)) eqn:He.
      * rewrite forallb_forall in *. intros x Hx. unfold lit_ok. rewrite (He x Hx), andb_true_r.
        apply negb_true_iff. destruct (has_nl x) eqn:E; [|reflexivity].
        assert (K : existsb has_nl (file_lits ds) = true) by (apply existsb_exists; exists x; auto). congruence.
      * destruct (split_unsafe_thm ds Hw Hn He) as [_ K]. congruence.
  - apply split_safe_thm, Hw.
Qed.

(** * The equivalence on the returned pieces alone

    [split_dump_iff_thm] pairs "pieces = statements" with "ends outside a string".  The pieces alone
    already decide: when some literal is not [esc_safe], the piece at the position of the first
    such statement is wrong.  From that statement on the scanner state is wrong; the statement's
    text stays in [current_statement] (now followed by its own [;]) until something is emitted,
    and whatever is emitted first is either a strict prefix cut at a [;] inside a value, or longer
    than the statement, or stripped of the leading blank. *)
Section WrongPiece.
Variable o : list str.     (* the pieces emitted before the first unsafe statement *)
Variable c : str.          (* the pending blank, [] or [32] *)
Variable hd : Z.
Variable body : str.
Hypothesis c_shape : c = [] \/ c = [32].
Hypothesis hd_nonws : is_ws hd = false.

Let tgt : str := c ++ hd :: body.          (* the piece that should come next *)

Definition non59 (u : str) : bool := existsb (fun x => negb (x =? 59)) u.

(** nothing emitted yet; the statement and its own [;] are still in [current_statement] *)
Definition pend (st : sst) : Prop :=
  s_out st = o /\ (s_in st = true -> s_ch st = 39 \/ s_ch st = 34)
  /\ exists u, s_cur st = tgt ++ 59 :: u /\ (s_in st = true \/ non59 u = true).
(** a wrong piece has been emitted at the statement's position *)
Definition wrong (st : sst) : Prop := exists x rest, s_out st = o ++ x :: rest /\ x <> tgt.

Lemma non59_app u v : non59 (u ++ v) = non59 u || non59 v.
Proof. apply existsb_app. Qed.

Lemma trim_end_semis_keeps w u : non59 u = true -> trim_end_semis ((w ++ 59 :: u) ++ [59]) <> w.
Proof.
  intros Hu Heq. unfold non59 in Hu. apply existsb_exists in Hu as (q & Hq & Nq). apply negb_true_iff in Nq.
  (* the trimmed text still contains [q], which sits after position |w| *)
  destruct (trim_end_by_split (Z.eqb 59) ((w ++ 59 :: u) ++ [59])) as (z & E & Hz).
  fold (trim_end_semis ((w ++ 59 :: u) ++ [59])) in E. rewrite Heq in E.
  rewrite <- app_assoc in E. apply app_inv_head in E. cbn [app] in E.
  (* z = 59 :: u ++ [59] consists of 59 only, but contains q *)
  rewrite <- E in Hz. cbn [forallb] in Hz. apply andb_true_iff in Hz as [_ Hz].
  rewrite forallb_app in Hz. apply andb_true_iff in Hz as [Hz _]. rewrite forallb_forall in Hz.
  specialize (Hz q Hq). rewrite Z.eqb_sym in Hz. congruence.
Qed.

Lemma step_out_grows st ch : s_out (step st ch) = s_out st \/ exists p, s_out (step st ch) = s_out st ++ [p].
Proof.
  unfold step, push. repeat match goal with |- context [if ?b then _ else _] => destruct b end; cbn [s_out]; eauto.
Qed.

Lemma wrong_step st ch : wrong st -> wrong (step st ch).
Proof.
  intros (x & rest & E & N). destruct (step_out_grows st ch) as [E2 | (p & E2)].
  - exists x, rest. rewrite E2, E. auto.
  - exists x, (rest ++ [p]). rewrite E2, E, <- app_assoc. auto.
Qed.

Lemma pend_step st ch : pend st -> pend (step st ch) \/ wrong (step st ch).
Proof.
  intros (Ho & Hch & u & Hc & Hu).
  assert (Push : forall i' ch' e', (i' = true -> ch' = 39 \/ ch' = 34) ->
            (i' = true \/ non59 (u ++ [ch]) = true) ->
            pend (mk_sst (s_out st) (s_cur st ++ [ch]) i' ch' e')).
  { intros i' ch' e' H1 H2. split; [exact Ho|]. split; [exact H1|]. exists (u ++ [ch]). split; [|exact H2].
    cbn [s_cur]. rewrite Hc, <- app_assoc. reflexivity. }
  assert (Keep : s_in st = true \/ non59 (u ++ [ch]) = true).
  { destruct Hu as [Hi | Hn]; [left; exact Hi | right; rewrite non59_app, Hn; reflexivity]. }
  unfold step.
  destruct (s_esc st).
  { left. apply Push; [exact Hch | exact Keep]. }
  destruct ((ch =? 92) && s_in st && (s_ch st =? 39)) eqn:B1.
  { left. apply Push; [exact Hch | exact Keep]. }
  destruct (((ch =? 39) || (ch =? 34)) && negb (s_in st)) eqn:B2.
  { left. apply andb_true_iff in B2 as [B2 _]. apply Push; [|left; reflexivity].
    intros _. apply orb_true_iff in B2 as [B2 | B2]; apply Z.eqb_eq in B2; auto. }
  destruct (s_in st && (ch =? s_ch st)) eqn:B3.
  { (* the open string is closed by a quote character, which is not a semicolon *)
    left. apply andb_true_iff in B3 as [Bi Bc]. apply Z.eqb_eq in Bc.
    apply Push; [discriminate|]. right. rewrite non59_app. apply orb_true_iff. right.
    unfold non59. cbn [existsb]. destruct (Hch Bi) as [E | E]; rewrite Bc, E; reflexivity. }
  destruct ((ch =? 59) && negb (s_in st)) eqn:B4.
  { (* an emission: the statement, its own semicolon and more *)
    right. apply andb_true_iff in B4 as [B59 Bi]. apply negb_true_iff in Bi. apply Z.eqb_eq in B59. subst ch.
    destruct Hu as [Hi | Hn]; [congruence|].
    assert (NN : is_nil (trim (s_cur st ++ [59])) = false)
      by (apply (trim_not_nil _ 59); [apply in_or_app; right; left; reflexivity | reflexivity]).
    rewrite NN. cbn [s_out]. exists (trim_end_semis (s_cur st ++ [59])), []. rewrite Ho. split; [reflexivity|].
    rewrite Hc. apply trim_end_semis_keeps, Hn. }
  left. unfold push. apply Push; [exact Hch | exact Keep].
Qed.

Lemma pw_step st ch : pend st \/ wrong st -> pend (step st ch) \/ wrong (step st ch).
Proof. intros [H | H]; [apply pend_step, H | right; apply wrong_step, H]. Qed.

Lemma pw_run l : forall st, pend st \/ wrong st -> pend (run_chars st l) \/ wrong (run_chars st l).
Proof. induction l as [|x l IH]; intros st H; [exact H|]. rewrite run_cons. apply IH, pw_step, H. Qed.

Lemma pw_do_line st l : pend st \/ wrong st -> pend (do_line st l) \/ wrong (do_line st l).
Proof.
  intros H. unfold do_line. destruct (starts_dashes (trim l) || is_nil (trim l)); [exact H|].
  pose proof (pw_run l st H) as H1. destruct (s_in (run_chars st l)) eqn:Ei; [exact H1|].
  destruct H1 as [(Ho & Hch & u & Hc & Hu) | (x & rest & E & N)].
  - left. unfold push. split; [exact Ho|]. split; [cbn [s_in]; rewrite Ei; discriminate|].
    exists (u ++ [32]). cbn [s_cur s_in]. split; [rewrite Hc, <- app_assoc; reflexivity|].
    right. destruct Hu as [Hi | Hn]; [congruence | rewrite non59_app, Hn; reflexivity].
  - right. exists x, rest. unfold push. cbn [s_out]. auto.
Qed.

Lemma pw_run_lines ls : forall st, pend st \/ wrong st -> pend (run_lines st ls) \/ wrong (run_lines st ls).
Proof. induction ls as [|l ls IH]; intros st H; [exact H|]. cbn [run_lines fold_left]. apply IH, pw_do_line, H. Qed.

(** the piece at the statement's position is not the statement *)
Lemma pw_finish st : pend st \/ wrong st -> nth_error (finish st) (length o) <> Some tgt.
Proof.
  intros [(Ho & _ & u & Hc & _) | (x & rest & E & N)].
  - assert (T : trim (s_cur st) <> tgt /\ is_nil (trim (s_cur st)) = false).
    { rewrite Hc. unfold tgt. rewrite <- app_assoc. cbn [app].
      set (w := hd :: body ++ 59 :: u).
      assert (Tw : trim (c ++ w) = trim w) by (destruct c_shape as [-> | ->]; reflexivity).
      rewrite Tw. destruct (trim_cons_nonws hd (body ++ 59 :: u) hd_nonws) as (t & Et). fold w in Et.
      split; [|rewrite Et; reflexivity].
      intros Heq. destruct c_shape as [-> | ->]; cbn [app] in Heq.
      + (* c = []: the trimmed text keeps the semicolon *)
        destruct (trim_split w) as (a & z & Es & Ha & Hz). rewrite Heq in Es.
        destruct a as [|a0 a'].
        * cbn [app] in Es. unfold w in Es. injection Es as Es. apply app_inv_head in Es.
          rewrite <- Es in Hz. cbn [forallb] in Hz. discriminate.
        * unfold w in Es. cbn [app] in Es. inversion Es; subst a0. cbn [forallb] in Ha. rewrite hd_nonws in Ha. discriminate.
      + (* c = [32]: the trimmed text starts with the statement, the expected piece with a blank *)
        rewrite Et in Heq. inversion Heq; subst hd. discriminate. }
    destruct T as [T1 T2]. unfold finish. rewrite T2, Ho, nth_error_app2, Nat.sub_diag by lia. cbn. congruence.
  - unfold finish. destruct (is_nil (trim (s_cur st))); rewrite E.
    + rewrite nth_error_app2, Nat.sub_diag by lia. cbn. congruence.
    + rewrite <- app_assoc. rewrite nth_error_app2, Nat.sub_diag by lia. cbn. congruence.
Qed.

(** ** the line of the first unsafe statement: nothing right can have been emitted during it *)
Definition within (a : str) (st : sst) : Prop :=
  (s_out st = o /\ s_cur st = c ++ a)
  \/ exists x rest, s_out st = o ++ x :: rest /\ (length x < length c + length a)%nat.

Lemma trim_end_semis_shorter (w : str) : (length (trim_end_semis (w ++ [59%Z])) <= length w)%nat.
Proof.
  unfold trim_end_semis, trim_end_by. rewrite rev_app_distr. cbn [rev app drop_while]. rewrite Z.eqb_refl.
  rewrite rev_length. destruct (drop_while_split (Z.eqb 59) (rev w)) as (a & E & _).
  assert (L : length (rev w) = (length a + length (drop_while (Z.eqb 59) (rev w)))%nat)
    by (rewrite E at 1; apply app_length).
  rewrite rev_length in L. lia.
Qed.

Lemma within_step a st ch : within a st -> within (a ++ [ch]) (step st ch).
Proof.
  intros [(Ho & Hc) | (x & rest & E & L)].
  - assert (Push : forall i' ch' e', within (a ++ [ch]) (mk_sst (s_out st) (s_cur st ++ [ch]) i' ch' e')).
    { intros i' ch' e'. left. cbn [s_out s_cur]. split; [exact Ho | rewrite Hc, <- app_assoc; reflexivity]. }
    unfold step, push.
    destruct (s_esc st); [apply Push|].
    destruct ((ch =? 92) && s_in st && (s_ch st =? 39)); [apply Push|].
    destruct (((ch =? 39) || (ch =? 34)) && negb (s_in st)); [apply Push|].
    destruct (s_in st && (ch =? s_ch st)); [apply Push|].
    destruct ((ch =? 59) && negb (s_in st)) eqn:B4; [|apply Push].
    apply andb_true_iff in B4 as [B59 _]. apply Z.eqb_eq in B59. subst ch.
    assert (NN : is_nil (trim (s_cur st ++ [59])) = false)
      by (apply (trim_not_nil _ 59); [apply in_or_app; right; left; reflexivity | reflexivity]).
    rewrite NN. right. cbn [s_out].
    exists (trim_end_semis (s_cur st ++ [59])), []. rewrite Ho. split; [reflexivity|].
    pose proof (trim_end_semis_shorter (s_cur st)) as K. rewrite Hc in K at 2. rewrite !app_length in *. cbn [length]. lia.
  - right. destruct (step_out_grows st ch) as [E2 | (p & E2)].
    + exists x, rest. rewrite E2, E. split; [reflexivity|]. rewrite app_length. lia.
    + exists x, (rest ++ [p]). rewrite E2, E, <- app_assoc. split; [reflexivity|]. rewrite app_length. lia.
Qed.

Lemma within_run l : forall a st, within a st -> within (a ++ l) (run_chars st l).
Proof.
  induction l as [|x l IH]; intros a st H; [rewrite app_nil_r; exact H|].
  rewrite run_cons. replace (a ++ x :: l) with ((a ++ [x]) ++ l) by (rewrite <- app_assoc; reflexivity).
  apply IH, within_step, H.
Qed.
End WrongPiece.

Lemma bad_after_stmt_text s o c ch :
  stmt_wf s = true -> forallb esc_safe (lits (st_segs s)) = false ->
  bad (run_chars (mk_sst o c false ch false) (stmt_text s)).
Proof.
  intros Hw Hs. unfold stmt_wf in Hw. rewrite !andb_true_iff in Hw.
  destruct Hw as ((((Hhd & _) & _) & Hsegs) & Hfin).
  unfold stmt_text. rewrite run_cons.
  assert (S1 : step (mk_sst o c false ch false) (st_hd s) = mk_sst o (c ++ [st_hd s]) false ch false).
  { pose proof (run_plain [st_hd s] o c false ch) as R. cbn [run_chars fold_left forallb app] in R.
    apply R; [rewrite Hhd; reflexivity | discriminate]. }
  rewrite S1, run_chars_app.
  apply bad_plain; [cbn [forallb]; rewrite Hfin; reflexivity|].
  apply run_render_unsafe; assumption.
Qed.

Lemma do_line_unsafe_pw s o c ch :
  stmt_wf s = true -> forallb esc_safe (lits (st_segs s)) = false ->
  let st := do_line (mk_sst o c false ch false) (stmt_text s ++ [59]) in
  pend o c (st_hd s) (render (st_segs s) ++ [st_fin s]) st \/ wrong o c (st_hd s) (render (st_segs s) ++ [st_fin s]) st.
Proof.
  intros Hw Hs st. subst st. unfold do_line. rewrite (stmt_line_kept s Hw). rewrite run_chars_app.
  pose proof (bad_after_stmt_text s o c ch Hw Hs) as (Bi & Be & Bc).
  pose proof (within_run o c (stmt_text s) [] (mk_sst o c false ch false)) as W.
  cbn [app] in W. specialize (W (or_introl (conj eq_refl (eq_sym (app_nil_r c))))).
  set (st1 := run_chars (mk_sst o c false ch false) (stmt_text s)) in *.
  assert (S59 : run_chars st1 [59] = mk_sst (s_out st1) (s_cur st1 ++ [59]) true (s_ch st1) false).
  { cbn [run_chars fold_left]. unfold step, push. rewrite Be, Bi.
    destruct Bc as [E | E]; rewrite E; reflexivity. }
  rewrite S59. cbn [s_in].
  destruct W as [(Ho & Hc) | (x & rest & E & L)].
  - left. split; [exact Ho|]. split; [intros _; exact Bc|]. exists []. cbn [s_cur s_in]. split; [|left; reflexivity].
    rewrite Hc. unfold stmt_text. rewrite <- !app_assoc. reflexivity.
  - right. exists x, rest. cbn [s_out]. split; [exact E|]. intros ->.
    unfold stmt_text in L. rewrite !app_length in L. cbn [length] in L. rewrite app_length in L. cbn [length] in L. lia.
Qed.

Lemma run_lines_unsafe_out ds : forall o c ch,
  forallb dline_wf ds = true -> forallb esc_safe (file_lits ds) = false -> (c = [] \/ c = [32]) ->
  finish (run_lines (mk_sst o c false ch false) (map dline_text ds)) <> o ++ expected c ds.
Proof.
  induction ds as [|d ds IH]; intros o c ch Hw Hs Hc; [discriminate|].
  cbn [forallb] in Hw. apply andb_true_iff in Hw as [Hd Hw].
  rewrite file_lits_cons, forallb_app in Hs.
  cbn [map run_lines fold_left]. destruct d as [l|s]; cbn [dline_text dline_wf dline_lits expected] in *.
  - apply andb_true_iff in Hd as [_ Hk]. rewrite do_line_skip by exact Hk. apply IH; assumption.
  - destruct (forallb esc_safe (lits (st_segs s))) eqn:E1.
    + destruct (do_line_stmt_safe s o c ch Hd E1) as (ch1 & E). rewrite E.
      intros Heq. apply (IH (o ++ [c ++ stmt_text s]) [32] ch1 Hw Hs (or_intror eq_refl)).
      unfold run_lines in *. rewrite Heq, <- app_assoc. reflexivity.
    + assert (Hws : is_ws (st_hd s) = false).
      { unfold stmt_wf in Hd. rewrite !andb_true_iff, !negb_true_iff in Hd. tauto. }
      pose proof (do_line_unsafe_pw s o c ch Hd E1) as PW. cbv zeta in PW.
      pose proof (pw_run_lines o c (st_hd s) (render (st_segs s) ++ [st_fin s]) (map dline_text ds) _ PW) as PW2.
      pose proof (pw_finish o c (st_hd s) (render (st_segs s) ++ [st_fin s]) Hc Hws _ PW2) as N.
      intros Heq. apply N. unfold run_lines in *. rewrite Heq.
      rewrite nth_error_app2, Nat.sub_diag by lia. reflexivity.
Qed.

(** ** the equivalence, on the pieces alone *)
Theorem split_output_iff_thm ds :
  forallb dline_wf ds = true ->
  (parse_sql_statements (file_text ds) = expected [] ds <-> forallb lit_ok (file_lits ds) = true).
Proof.
  intros Hw. split.
  - intros Hout.
    destruct (existsb has_nl (file_lits ds)) eqn:Hn.
    + exfalso. pose proof (expected_has_nl ds [] Hw Hn) as Ex. rewrite <- Hout in Ex.
      apply Exists_exists in Ex as (x & Hx & Hnl).
      pose proof (split_no_nl_thm (file_text ds)) as F. rewrite Forall_forall in F. rewrite (F x Hx) in Hnl. discriminate.
    + destruct (forallb esc_safe (file_lits ds)) eqn:He.
      * rewrite forallb_forall in *. intros x Hx. unfold lit_ok. rewrite (He x Hx), andb_true_r.
        apply negb_true_iff. destruct (has_nl x) eqn:E; [|reflexivity].
        assert (K : existsb has_nl (file_lits ds) = true) by (apply existsb_exists; exists x; auto). congruence.
      * exfalso. unfold parse_sql_statements, split_run in Hout. rewrite file_lines in Hout by assumption.
        exact (run_lines_unsafe_out ds [] [] 32 Hw He (or_introl eq_refl) Hout).
  - intros H. apply split_safe_thm; assumption.
Qed.

(** * Examples: the hypotheses are satisfiable, and the three failure classes *)
Definition ex_stmt (body : list seg) : stmt := mk_stmt 73 (SPlain [78; 83; 32; 40] :: body) 41.   (* I, then NS and an opening parenthesis, ..., then a closing parenthesis *)

Example split_safe_ex :
  let ds := [LSkip [45; 45; 32; 120]; LStmt (ex_stmt [SLit [105; 116; 39; 115; 59; 92; 92]]); LSkip []; LStmt (ex_stmt [SLit [45; 45]])] in
  forallb dline_wf ds = true /\ forallb lit_ok (file_lits ds) = true
  /\ parse_sql_statements (file_text ds) = expected [] ds.
Proof. cbv zeta. repeat split; vm_compute; reflexivity. Qed.

(** a value ending in a backslash: the closing quote is taken for an escaped character and the
    next statement is glued to this one *)
Lemma split_refuted_backslash :
  exists ds, forallb dline_wf ds = true /\ existsb has_nl (file_lits ds) = false
             /\ parse_sql_statements (file_text ds) <> expected [] ds
             /\ length (parse_sql_statements (file_text ds)) = 1%nat /\ length (expected [] ds) = 2%nat.
Proof.
  exists [LStmt (ex_stmt [SLit [97; 92]]); LStmt (ex_stmt [SLit [98]])].
  repeat split; try (vm_compute; reflexivity). vm_compute. discriminate.
Qed.

(** a value containing a newline: the newline is dropped from the statement text *)
Lemma split_refuted_newline :
  exists ds, forallb dline_wf ds = true
             /\ parse_sql_statements (file_text ds) <> expected [] ds
             /\ parse_sql_statements (file_text ds) = [stmt_text (ex_stmt [SLit [97; 98]])].
Proof.
  exists [LStmt (ex_stmt [SLit [97; 10; 98]])].
  repeat split; try (vm_compute; reflexivity). vm_compute. discriminate.
Qed.

(** a value with a line starting with two hyphens: that line, closing quote included, is thrown
    away as a comment and the following statement is swallowed by the open string *)
Lemma split_refuted_comment_line :
  exists ds, forallb dline_wf ds = true
             /\ parse_sql_statements (file_text ds) <> expected [] ds
             /\ length (parse_sql_statements (file_text ds)) = 1%nat /\ length (expected [] ds) = 2%nat
             /\ s_in (split_run (file_text ds)) = true.
Proof.
  exists [LStmt (ex_stmt [SLit [97; 10; 45; 45; 98]]); LStmt (ex_stmt [SLit [99]])].
  repeat split; try (vm_compute; reflexivity). vm_compute. discriminate.
Qed.
