(** * Lex/LexerLaws.v — laws of the lexer model [Lex/Lexer.v]

    - progress lemmas, one per loop and per token class: with fuel [> len - position] the loop
      returns (never [EOutOfFuel], never [Panic]), the cursor never moves backwards, never passes
      [len], and the number of ticks spent is bounded by the number of characters consumed;
    - [lex_total]: [tokenize] never panics and never runs out of the fuel [length input + 1];
    - [lex_linear]: the cost of a run (successful or failing) is at most [4 * length input + 3];
    - token-boundary lemmas: a quoted literal with doubled quotes lexes to exactly one token, in any
      context ([next_token_quoted]) and as a whole input ([lex_string_literal], [lex_delimited]). *)
From Coq Require Import List ZArith Bool Lia Arith.
From VibeSQL Require Import Generated.Consts Lex.Lexer.
Import ListNotations.
Open Scope Z_scope.

(** ** Bookkeeping: [step_le a b L L'] -- the cursor moved forward from [L] to [L'], stays within
    the input, and the ticks spent are at most [a * (chars consumed) + b]. *)
Definition step_le (len a b : nat) (L L' : lexer) : Prop :=
  (position L <= position L')%nat /\ (position L' <= len)%nat /\
  (ticks L' + a * position L <= ticks L + a * position L' + b)%nat.

Lemma step_le_refl len a b L : (position L <= len)%nat -> step_le len a b L L.
Proof. unfold step_le; lia. Qed.

Lemma step_le_trans len a b1 b2 L1 L2 L3 :
  step_le len a b1 L1 L2 -> step_le len a b2 L2 L3 -> step_le len a (b1 + b2) L1 L3.
Proof. unfold step_le; lia. Qed.

Lemma step_le_weaken len a a' b b' L L' :
  (a <= a')%nat -> (b <= b')%nat -> step_le len a b L L' -> step_le len a' b' L L'.
Proof. unfold step_le; intros Ha Hb (H1 & H2 & H3); repeat split; try lia. nia. Qed.

(** what a well-behaved outcome is: no panic, no fuel exhaustion, [step_le] on both the success and
    the error path, and (when [strict]) at least one character consumed on success *)
Definition okL {A} (len : nat) (pr : A -> lexer) (a b : nat) (strict : bool) (L : lexer)
  (o : outcome A) : Prop :=
  match o with
  | Ok x => step_le len a b L (pr x) /\ (strict = true -> (position L < position (pr x))%nat)
  | Err e L' => e <> EOutOfFuel /\ step_le len a b L L'
  | Panic => False
  end.

Ltac pos_eq :=
  match goal with
  | |- Ok (_, {| position := ?a; ticks := _ |}) = Ok (_, {| position := ?b; ticks := _ |}) =>
      replace b with a by (cbn [length app double_quotes flat_map position ticks tick]; lia); reflexivity
  end.

Section Laws.
  Variable ua : Z -> bool.
  Variable uu : Z -> list Z.
  Variable input : list Z.
  Let len := length input.

  Local Notation eof := (is_eof len).
  Local Notation cur := (current_char input len).
  Local Notation adv := (advance len).
  Local Notation F0 := (fuel0 len).

  Lemma eof_false_lt L : eof L = false -> (position L < len)%nat.
  Proof. unfold is_eof. intros H. apply Nat.leb_gt in H. exact H. Qed.

  Lemma eof_true_ge L : eof L = true -> (len <= position L)%nat.
  Proof. unfold is_eof. intros H. apply Nat.leb_le in H. exact H. Qed.

  Lemma adv_noteof L : eof L = false -> adv L = mkL (S (position L)) (ticks L).
  Proof. unfold advance. intros ->. reflexivity. Qed.

  Lemma adv_eof L : eof L = true -> adv L = L.
  Proof. unfold advance. intros ->. reflexivity. Qed.

  Lemma eof_tick L : eof (tick L) = eof L.
  Proof. reflexivity. Qed.

  Lemma cur_tick L : cur (tick L) = cur L.
  Proof. reflexivity. Qed.

  (** [advance] never moves backwards, never passes [len], costs nothing *)
  Lemma adv_step L : (position L <= len)%nat -> step_le len 1 0 L (adv L).
  Proof.
    intros H. unfold advance. destruct (eof L) eqn:E; unfold step_le; cbn.
    - lia.
    - apply eof_false_lt in E. lia.
  Qed.

  Lemma adv_tick_step L : eof L = false -> step_le len 1 0 L (adv (tick L)).
  Proof.
    intros E. rewrite adv_noteof by exact E. apply eof_false_lt in E.
    unfold step_le; cbn. lia.
  Qed.

  Lemma adv_tick_pos L : eof L = false -> position (adv (tick L)) = S (position L).
  Proof. intros E. rewrite adv_noteof by exact E. reflexivity. Qed.

  Lemma F0_enough L : (position L <= len)%nat -> (len - position L < F0)%nat.
  Proof. unfold fuel0. lia. Qed.

  (** ** Loops *)

  Lemma skip_whitespace_ok fuel : forall L,
    (position L <= len)%nat -> (len - position L < fuel)%nat ->
    exists L', skip_whitespace input len fuel L = Ok L' /\ step_le len 1 0 L L'.
  Proof.
    induction fuel as [|f IH]; intros L Hwf Hf; [lia|].
    cbn [skip_whitespace].
    destruct (eof L) eqn:He.
    - exists L. split; [reflexivity | apply step_le_refl; exact Hwf].
    - destruct (is_ws (cur L)).
      + pose proof (adv_tick_step L He) as Hs.
        pose proof (adv_tick_pos L He) as Hp.
        pose proof (eof_false_lt L He) as Hlt.
        destruct (IH (adv (tick L))) as (L' & E & S'); [lia | lia |].
        exists L'. split; [exact E|].
        exact (step_le_trans len 1 0 0 _ _ _ Hs S').
      + exists L. split; [reflexivity | apply step_le_refl; exact Hwf].
  Qed.

  Lemma skip_to_eol_ok fuel : forall L,
    (position L <= len)%nat -> (len - position L < fuel)%nat ->
    exists L', skip_to_eol input len fuel L = Ok L' /\ step_le len 1 0 L L'.
  Proof.
    induction fuel as [|f IH]; intros L Hwf Hf; [lia|].
    cbn [skip_to_eol].
    destruct (eof L) eqn:He; cbn [negb andb].
    - exists L. split; [reflexivity | apply step_le_refl; exact Hwf].
    - destruct (cur L =? 10); cbn [negb].
      + exists L. split; [reflexivity | apply step_le_refl; exact Hwf].
      + pose proof (adv_tick_step L He) as Hs.
        pose proof (adv_tick_pos L He) as Hp.
        pose proof (eof_false_lt L He) as Hlt.
        destruct (IH (adv (tick L))) as (L' & E & S'); [lia | lia |].
        exists L'. split; [exact E|].
        exact (step_le_trans len 1 0 0 _ _ _ Hs S').
  Qed.

  (** a comment start is consumed: [skip_to_eol] from a ['-'] advances by at least one *)
  Lemma skip_to_eol_strict L L' :
    eof L = false -> (cur L =? 45) = true ->
    skip_to_eol input len F0 L = Ok L' -> (position L < position L')%nat.
  Proof.
    intros He Hc. unfold fuel0. cbn [skip_to_eol]. rewrite He. cbn [negb andb].
    apply Z.eqb_eq in Hc. rewrite Hc. cbn [Z.eqb Pos.eqb negb].
    intros H.
    pose proof (adv_tick_pos L He) as Hp.
    pose proof (eof_false_lt L He) as Hlt.
    destruct (skip_to_eol_ok len (adv (tick L))) as (L2 & E & S'); [lia | lia |].
    rewrite E in H. inversion H; subst. destruct S' as (S1 & _). lia.
  Qed.

  Lemma skip_ws_and_comments_ok fuel : forall L,
    (position L <= len)%nat -> (len - position L < fuel)%nat ->
    exists L', skip_ws_and_comments input len fuel L = Ok L' /\ step_le len 2 1 L L'.
  Proof.
    induction fuel as [|f IH]; intros L Hwf Hf; [lia|].
    cbn [skip_ws_and_comments].
    destruct (skip_whitespace_ok F0 (tick L)) as (L1 & E1 & S1);
      [exact Hwf | apply F0_enough; exact Hwf |].
    rewrite E1. cbn [bind].
    assert (St : step_le len 1 1 L L1).
    { destruct S1 as (A & B & C). unfold step_le in *. cbn in *. lia. }
    destruct (eof L1) eqn:He1.
    - exists L1. split; [reflexivity|]. eapply step_le_weaken; [| |exact St]; lia.
    - destruct ((cur L1 =? 45) && opt_is (peek input len L1 1) 45) eqn:Hc.
      + apply andb_prop in Hc. destruct Hc as (Hc & _).
        destruct St as (A & B & C).
        destruct (skip_to_eol_ok F0 L1) as (L2 & E2 & S2); [exact B | apply F0_enough; exact B |].
        rewrite E2. cbn [bind].
        pose proof (skip_to_eol_strict L1 L2 He1 Hc E2) as Hstrict.
        destruct S2 as (A2 & B2 & C2).
        destruct (IH L2) as (L3 & E3 & S3); [exact B2 | lia |].
        exists L3. split; [exact E3|].
        destruct S3 as (A3 & B3 & C3). unfold step_le. cbn in *. lia.
      + exists L1. split; [reflexivity|]. eapply step_le_weaken; [| |exact St]; lia.
  Qed.

  Lemma quoted_loop_ok fuel q : forall acc L,
    (position L <= len)%nat -> (len - position L < fuel)%nat ->
    exists r L', quoted_loop input len fuel q acc L = Ok (r, L') /\ step_le len 1 0 L L'.
  Proof.
    induction fuel as [|f IH]; intros acc L Hwf Hf; [lia|].
    cbn [quoted_loop].
    destruct (eof L) eqn:He.
    - exists None, L. split; [reflexivity | apply step_le_refl; exact Hwf].
    - pose proof (eof_false_lt L He) as Hlt.
      rewrite cur_tick.
      assert (Ha : adv (tick L) = mkL (S (position L)) (S (ticks L))).
      { rewrite adv_noteof by exact He. reflexivity. }
      destruct (cur L =? q).
      + rewrite Ha.
        destruct (negb (eof {| position := S (position L); ticks := S (ticks L) |})
                  && (cur {| position := S (position L); ticks := S (ticks L) |} =? q)) eqn:Hq.
        * apply andb_prop in Hq. destruct Hq as (Hq & _).
          apply negb_true_iff in Hq.
          rewrite (adv_noteof _ Hq). cbn [position ticks].
          apply eof_false_lt in Hq. cbn [position] in Hq.
          destruct (IH (q :: acc) {| position := S (S (position L)); ticks := S (ticks L) |})
            as (r & L' & E & S'); [cbn; lia | cbn; lia |].
          exists r, L'. split; [exact E|].
          destruct S' as (A & B & C). unfold step_le in *. cbn in *. lia.
        * exists (Some (rev acc)), {| position := S (position L); ticks := S (ticks L) |}.
          split; [reflexivity|]. unfold step_le; cbn. lia.
      + rewrite Ha.
        destruct (IH (cur L :: acc) {| position := S (position L); ticks := S (ticks L) |})
          as (r & L' & E & S'); [cbn; lia | cbn; lia |].
        exists r, L'. split; [exact E|].
        destruct S' as (A & B & C). unfold step_le in *. cbn in *. lia.
  Qed.

  Lemma number_body_ok fuel : forall hd L,
    (position L <= len)%nat -> (len - position L < fuel)%nat ->
    exists L', number_body input len fuel hd L = Ok L' /\ step_le len 1 0 L L'.
  Proof.
    induction fuel as [|f IH]; intros hd L Hwf Hf; [lia|].
    cbn [number_body].
    destruct (eof L) eqn:He.
    - exists L. split; [reflexivity | apply step_le_refl; exact Hwf].
    - pose proof (adv_tick_step L He) as Hs.
      pose proof (adv_tick_pos L He) as Hp.
      pose proof (eof_false_lt L He) as Hlt.
      destruct (is_ascii_digit (cur L)).
      + destruct (IH hd (adv (tick L))) as (L' & E & S'); [lia | lia |].
        exists L'. split; [exact E|]. exact (step_le_trans len 1 0 0 _ _ _ Hs S').
      + destruct ((cur L =? 46) && negb hd).
        * destruct (IH true (adv (tick L))) as (L' & E & S'); [lia | lia |].
          exists L'. split; [exact E|]. exact (step_le_trans len 1 0 0 _ _ _ Hs S').
        * exists L. split; [reflexivity | apply step_le_refl; exact Hwf].
  Qed.

  (** a leading digit is consumed *)
  Lemma number_body_strict hd L L' :
    eof L = false -> is_ascii_digit (cur L) = true ->
    number_body input len F0 hd L = Ok L' -> (position L < position L')%nat.
  Proof.
    intros He Hd. unfold fuel0. cbn [number_body]. rewrite He, Hd. intros H.
    pose proof (adv_tick_pos L He) as Hp.
    pose proof (eof_false_lt L He) as Hlt.
    destruct (number_body_ok len hd (adv (tick L))) as (L2 & E & S'); [lia | lia |].
    rewrite E in H. inversion H; subst. destruct S' as (S1 & _). lia.
  Qed.

  Lemma digits_loop_ok fuel : forall L,
    (position L <= len)%nat -> (len - position L < fuel)%nat ->
    exists L', digits_loop input len fuel L = Ok L' /\ step_le len 1 0 L L'.
  Proof.
    induction fuel as [|f IH]; intros L Hwf Hf; [lia|].
    cbn [digits_loop].
    destruct (eof L) eqn:He; cbn [negb andb].
    - exists L. split; [reflexivity | apply step_le_refl; exact Hwf].
    - destruct (is_ascii_digit (cur L)).
      + pose proof (adv_tick_step L He) as Hs.
        pose proof (adv_tick_pos L He) as Hp.
        pose proof (eof_false_lt L He) as Hlt.
        destruct (IH (adv (tick L))) as (L' & E & S'); [lia | lia |].
        exists L'. split; [exact E|]. exact (step_le_trans len 1 0 0 _ _ _ Hs S').
      + exists L. split; [reflexivity | apply step_le_refl; exact Hwf].
  Qed.

  Lemma ident_loop_ok fuel : forall L,
    (position L <= len)%nat -> (len - position L < fuel)%nat ->
    exists L', ident_loop ua input len fuel L = Ok L' /\ step_le len 1 0 L L'.
  Proof.
    induction fuel as [|f IH]; intros L Hwf Hf; [lia|].
    cbn [ident_loop].
    destruct (eof L) eqn:He.
    - exists L. split; [reflexivity | apply step_le_refl; exact Hwf].
    - destruct (char_is_alphanumeric ua (cur L) || (cur L =? 95)).
      + pose proof (adv_tick_step L He) as Hs.
        pose proof (adv_tick_pos L He) as Hp.
        pose proof (eof_false_lt L He) as Hlt.
        destruct (IH (adv (tick L))) as (L' & E & S'); [lia | lia |].
        exists L'. split; [exact E|]. exact (step_le_trans len 1 0 0 _ _ _ Hs S').
      + exists L. split; [reflexivity | apply step_le_refl; exact Hwf].
  Qed.

  Lemma ident_loop_strict L L' :
    eof L = false -> (char_is_alphanumeric ua (cur L) || (cur L =? 95)) = true ->
    ident_loop ua input len F0 L = Ok L' -> (position L < position L')%nat.
  Proof.
    intros He Hd. unfold fuel0. cbn [ident_loop]. rewrite He, Hd. intros H.
    pose proof (adv_tick_pos L He) as Hp.
    pose proof (eof_false_lt L He) as Hlt.
    destruct (ident_loop_ok len (adv (tick L))) as (L2 & E & S'); [lia | lia |].
    rewrite E in H. inversion H; subst. destruct S' as (S1 & _). lia.
  Qed.

  Lemma var_loop_ok fuel dot : forall acc L,
    (position L <= len)%nat -> (len - position L < fuel)%nat ->
    exists r L', var_loop input len fuel dot acc L = Ok (r, L') /\ step_le len 1 0 L L'.
  Proof.
    induction fuel as [|f IH]; intros acc L Hwf Hf; [lia|].
    cbn [var_loop].
    destruct (eof L) eqn:He.
    - exists (rev acc), L. split; [reflexivity | apply step_le_refl; exact Hwf].
    - destruct (is_ascii_alnum (cur L) || (cur L =? 95) || dot && (cur L =? 46)).
      + pose proof (adv_tick_step L He) as Hs.
        pose proof (adv_tick_pos L He) as Hp.
        pose proof (eof_false_lt L He) as Hlt.
        destruct (IH (cur L :: acc) (adv (tick L))) as (r & L' & E & S'); [lia | lia |].
        exists r, L'. split; [exact E|]. exact (step_le_trans len 1 0 0 _ _ _ Hs S').
      + exists (rev acc), L. split; [reflexivity | apply step_le_refl; exact Hwf].
  Qed.

  (** [slice] cannot panic between two cursor positions of a run *)
  Lemma slice_ok a b : (a <= b)%nat -> (b <= len)%nat -> exists s, slice input a b = Ok s.
  Proof.
    intros H1 H2. unfold slice.
    assert (E1 : Nat.leb a b = true) by (apply Nat.leb_le; exact H1).
    assert (E2 : Nat.leb b (length input) = true) by (apply Nat.leb_le; exact H2).
    rewrite E1, E2. cbn. eexists; reflexivity.
  Qed.

  (** ** Token classes.  All statements: from a cursor that is not at eof the tokenizer returns a
      token having consumed at least one character, or a lexer error -- never a panic, never fuel
      exhaustion -- and spends at most one tick per character consumed. *)
  Local Notation okT := (okL len (@snd token lexer) 1 0 true).

  Lemma tokenize_string_ok L : eof L = false -> okT L (tokenize_string input len L).
  Proof.
    intros He. unfold tokenize_string.
    pose proof (eof_false_lt L He) as Hlt.
    pose proof (adv_noteof L He) as Ha.
    destruct (quoted_loop_ok F0 (cur L) [] (adv L)) as (r & L' & E & S').
    { rewrite Ha; cbn; lia. } { apply F0_enough. rewrite Ha; cbn; lia. }
    rewrite E. cbn [bind].
    assert (S2 : step_le len 1 0 L L' /\ (position L < position L')%nat).
    { rewrite Ha in S'. destruct S' as (A & B & C). unfold step_le. cbn in *. lia. }
    destruct r as [s|]; cbn [okL snd].
    - split; [tauto | intros _; tauto].
    - split; [discriminate | tauto].
  Qed.

  Lemma tokenize_delimited_ok q L : eof L = false -> okT L (tokenize_delimited input len q L).
  Proof.
    intros He. unfold tokenize_delimited.
    pose proof (eof_false_lt L He) as Hlt.
    pose proof (adv_noteof L He) as Ha.
    destruct (quoted_loop_ok F0 q [] (adv L)) as (r & L' & E & S').
    { rewrite Ha; cbn; lia. } { apply F0_enough. rewrite Ha; cbn; lia. }
    rewrite E. cbn [bind].
    assert (S2 : step_le len 1 0 L L' /\ (position L < position L')%nat).
    { rewrite Ha in S'. destruct S' as (A & B & C). unfold step_le. cbn in *. lia. }
    destruct r as [[|c s]|]; cbn [okL snd].
    - split; [discriminate | tauto].
    - split; [tauto | intros _; tauto].
    - split; [discriminate | tauto].
  Qed.

  Lemma number_exponent_ok L :
    (position L <= len)%nat ->
    okL len (fun x : lexer => x) 1 0 false L (number_exponent input len L).
  Proof.
    intros Hwf. unfold number_exponent.
    destruct (eof L) eqn:He.
    - cbn. split; [apply step_le_refl; exact Hwf | discriminate].
    - destruct ((cur L =? 69) || (cur L =? 101)).
      2:{ cbn. split; [apply step_le_refl; exact Hwf | discriminate]. }
      pose proof (eof_false_lt L He) as Hlt.
      pose proof (adv_noteof L He) as Ha.
      set (L1 := adv L) in *.
      assert (H1 : position L1 = S (position L) /\ ticks L1 = ticks L) by (rewrite Ha; split; reflexivity).
      set (L2 := if eof L1 then L1 else
                   if (cur L1 =? 43) || (cur L1 =? 45) then adv L1 else L1).
      assert (H2 : step_le len 1 0 L1 L2).
      { subst L2. destruct (eof L1) eqn:He1.
        - apply step_le_refl. lia.
        - destruct ((cur L1 =? 43) || (cur L1 =? 45)).
          + apply adv_step. lia.
          + apply step_le_refl. lia. }
      destruct H2 as (A2 & B2 & C2).
      destruct (digits_loop_ok F0 L2) as (L3 & E3 & S3); [exact B2 | apply F0_enough; exact B2 |].
      rewrite E3. cbn [bind].
      destruct S3 as (A3 & B3 & C3).
      destruct (Nat.eqb (position L3) (position L2)); cbn [okL].
      + split; [discriminate|]. unfold step_le. lia.
      + split; [unfold step_le; lia | discriminate].
  Qed.

  Lemma tokenize_number_ok L :
    eof L = false -> ((cur L =? 46) || is_ascii_digit (cur L)) = true ->
    okT L (tokenize_number input len L).
  Proof.
    intros He Hc. unfold tokenize_number.
    pose proof (eof_false_lt L He) as Hlt.
    rewrite He. cbn [negb andb].
    destruct (cur L =? 46) eqn:Hdot.
    - (* leading '.' *)
      pose proof (adv_noteof L He) as Ha.
      destruct (number_body_ok F0 true (adv L)) as (L1 & E1 & S1).
      { rewrite Ha; cbn; lia. } { apply F0_enough. rewrite Ha; cbn; lia. }
      rewrite E1. cbn [bind].
      rewrite Ha in S1. destruct S1 as (A1 & B1 & C1). cbn in A1, C1.
      pose proof (number_exponent_ok L1 B1) as H2.
      destruct (number_exponent input len L1) as [L2|e L2|]; cbn [okL] in H2; cbn [bind].
      + destruct H2 as ((A2 & B2 & C2) & _).
        destruct (slice_ok (position L) (position L2)) as (s & Es); [lia | exact B2 |].
        rewrite Es. cbn [bind okL snd]. split; [unfold step_le; lia | intros _; lia].
      + destruct H2 as (Hne & A2 & B2 & C2). cbn [okL]. split; [exact Hne | unfold step_le; lia].
      + contradiction.
    - (* leading digit *)
      cbn [orb] in Hc.
      destruct (number_body_ok F0 false L) as (L1 & E1 & S1); [lia | apply F0_enough; lia |].
      rewrite E1. cbn [bind].
      pose proof (number_body_strict false L L1 He Hc E1) as Hst.
      destruct S1 as (A1 & B1 & C1).
      pose proof (number_exponent_ok L1 B1) as H2.
      destruct (number_exponent input len L1) as [L2|e L2|]; cbn [okL] in H2; cbn [bind].
      + destruct H2 as ((A2 & B2 & C2) & _).
        destruct (slice_ok (position L) (position L2)) as (s & Es); [lia | exact B2 |].
        rewrite Es. cbn [bind okL snd]. split; [unfold step_le; lia | intros _; lia].
      + destruct H2 as (Hne & A2 & B2 & C2). cbn [okL]. split; [exact Hne | unfold step_le; lia].
      + contradiction.
  Qed.

  Lemma ascii_alpha_is_alphanumeric c :
    (is_ascii_alpha c || (c =? 95)) = true -> (char_is_alphanumeric ua c || (c =? 95)) = true.
  Proof.
    intros H. apply orb_true_iff in H. destruct H as [H|H].
    - apply orb_true_iff. left. unfold char_is_alphanumeric, is_ascii_alnum.
      unfold is_ascii_alpha, in_range in H.
      assert (Hc : c <? 128 = true).
      { apply Z.ltb_lt. apply orb_true_iff in H. destruct H as [H|H];
        apply andb_prop in H; destruct H as (H1 & H2); apply Z.leb_le in H1, H2; lia. }
      rewrite Hc. unfold is_ascii_alpha, in_range. rewrite H. apply orb_true_r.
    - rewrite H. apply orb_true_r.
  Qed.

  Lemma tokenize_identifier_ok L :
    eof L = false -> (is_ascii_alpha (cur L) || (cur L =? 95)) = true ->
    okT L (tokenize_identifier_or_keyword ua uu input len L).
  Proof.
    intros He Hc. unfold tokenize_identifier_or_keyword.
    pose proof (eof_false_lt L He) as Hlt.
    destruct (ident_loop_ok F0 L) as (L1 & E1 & S1); [lia | apply F0_enough; lia |].
    rewrite E1. cbn [bind].
    pose proof (ident_loop_strict L L1 He (ascii_alpha_is_alphanumeric _ Hc) E1) as Hst.
    destruct S1 as (A1 & B1 & C1).
    destruct (slice_ok (position L) (position L1)) as (s & Es); [lia | exact B1 |].
    rewrite Es. cbn [bind okL snd]. split; [unfold step_le; lia | intros _; lia].
  Qed.

  Lemma tokenize_user_variable_ok L :
    eof L = false -> okT L (tokenize_user_variable input len L).
  Proof.
    intros He. unfold tokenize_user_variable.
    pose proof (eof_false_lt L He) as Hlt.
    pose proof (adv_noteof L He) as Ha.
    destruct (var_loop_ok F0 false [] (adv L)) as (r & L' & E & S').
    { rewrite Ha; cbn; lia. } { apply F0_enough. rewrite Ha; cbn; lia. }
    rewrite E. cbn [bind].
    assert (S2 : step_le len 1 0 L L' /\ (position L < position L')%nat).
    { rewrite Ha in S'. destruct S' as (A & B & C). unfold step_le. cbn in *. lia. }
    destruct r as [|c s]; cbn [okL snd].
    - split; [discriminate | tauto].
    - split; [tauto | intros _; tauto].
  Qed.

  Lemma tokenize_session_variable_ok L :
    eof L = false -> okT L (tokenize_session_variable input len L).
  Proof.
    intros He. unfold tokenize_session_variable.
    pose proof (eof_false_lt L He) as Hlt.
    pose proof (adv_noteof L He) as Ha.
    assert (H1 : step_le len 1 0 (adv L) (adv (adv L))).
    { apply adv_step. rewrite Ha; cbn; lia. }
    destruct H1 as (A1 & B1 & C1).
    destruct (var_loop_ok F0 true [] (adv (adv L))) as (r & L' & E & S');
      [exact B1 | apply F0_enough; exact B1 |].
    rewrite E. cbn [bind].
    assert (S2 : step_le len 1 0 L L' /\ (position L < position L')%nat).
    { assert (P1 : position (adv L) = S (position L)) by (rewrite Ha; reflexivity).
      assert (T1 : ticks (adv L) = ticks L) by (rewrite Ha; reflexivity).
      destruct S' as (A & B & C). unfold step_le. lia. }
    destruct r as [|c s]; cbn [okL snd].
    - split; [discriminate | tauto].
    - split; [tauto | intros _; tauto].
  Qed.

  Lemma tokenize_operator_ok ch L :
    eof L = false -> okT L (tokenize_operator input len ch L).
  Proof.
    intros He. unfold tokenize_operator.
    pose proof (eof_false_lt L He) as Hlt.
    pose proof (adv_noteof L He) as Ha.
    assert (H1 : step_le len 1 0 L (adv L) /\ (position L < position (adv L))%nat).
    { rewrite Ha. unfold step_le; cbn. lia. }
    assert (H2 : step_le len 1 0 L (adv (adv L)) /\ (position L < position (adv (adv L)))%nat).
    { destruct H1 as ((A & B & C) & D).
      destruct (adv_step (adv L) B) as (A' & B' & C'). unfold step_le. lia. }
    destruct ((ch =? 61) || (ch =? 60) || (ch =? 62) || (ch =? 33)).
    - destruct (eof (adv L)).
      + cbn [okL snd]. tauto.
      + repeat match goal with
               | |- context [if ?b then _ else _] => destruct b
               end; cbn [okL snd]; tauto.
    - destruct (ch =? 124).
      + destruct (negb (eof (adv L)) && (cur (adv L) =? 124)).
        * cbn [okL snd]. tauto.
        * rewrite Ha. cbn [position okL]. split; [discriminate|].
          rewrite <- Ha. tauto.
      + cbn [okL snd]. tauto.
  Qed.

  (** *** next_token: strict progress, at most [consumed + 1] ticks *)
  Lemma next_token_ok L :
    eof L = false -> okL len (@snd token lexer) 1 1 true L (next_token ua uu input len L).
  Proof.
    intros He.
    assert (Het : eof (tick L) = false) by exact He.
    pose proof (eof_false_lt L He) as Hlt.
    assert (Lift : forall o, okT (tick L) o -> okL len (@snd token lexer) 1 1 true L o).
    { intros [[t L']|e L'|]; cbn [okL snd position ticks tick].
      - intros ((A & B & C) & D). cbn in *. split; [unfold step_le; cbn; lia | exact D].
      - intros (N & A & B & C). cbn in *. split; [exact N | unfold step_le; cbn; lia].
      - tauto. }
    assert (One : forall t, okT (tick L) (Ok (t, adv (tick L)))).
    { intros t. cbn [okL snd]. rewrite (adv_noteof _ Het). unfold step_le; cbn. lia. }
    unfold next_token. apply Lift.
    set (ch := cur (tick L)).
    destruct (ch =? 59); [apply One|].
    destruct (ch =? 44); [apply One|].
    destruct (ch =? 40); [apply One|].
    destruct (ch =? 41); [apply One|].
    destruct ((ch =? 61) || (ch =? 60) || (ch =? 62) || (ch =? 33) || (ch =? 124));
      [apply tokenize_operator_ok; exact Het|].
    destruct (ch =? 64).
    { destruct (opt_is (peek input len (tick L) 1) 64);
        [apply tokenize_session_variable_ok | apply tokenize_user_variable_ok]; exact Het. }
    destruct (ch =? 46) eqn:Hdot.
    { destruct (negb (eof (tick L)) && _).
      - apply tokenize_number_ok; [exact Het|]. subst ch. rewrite Hdot. reflexivity.
      - apply One. }
    destruct ((ch =? 43) || (ch =? 45) || (ch =? 42) || (ch =? 47)); [apply One|].
    destruct (ch =? 39); [apply tokenize_string_ok; exact Het|].
    destruct (ch =? 34); [apply tokenize_delimited_ok; exact Het|].
    destruct (ch =? 96); [apply tokenize_delimited_ok; exact Het|].
    destruct (is_ascii_digit ch) eqn:Hdig.
    { apply tokenize_number_ok; [exact Het|]. subst ch. rewrite Hdig. apply orb_true_r. }
    destruct (is_ascii_alpha ch || (ch =? 95)) eqn:Hal.
    { apply tokenize_identifier_ok; [exact Het | exact Hal]. }
    cbn [okL]. split; [discriminate | apply step_le_refl; cbn; lia].
  Qed.

  (** *** the main loop *)
  Lemma tokenize_loop_ok fuel : forall acc L,
    (position L <= len)%nat -> (len - position L < fuel)%nat ->
    okL len (@snd (list token) lexer) 4 3 false L (tokenize_loop ua uu input len fuel acc L).
  Proof.
    induction fuel as [|f IH]; intros acc L Hwf Hf; [lia|].
    cbn [tokenize_loop].
    destruct (skip_ws_and_comments_ok F0 (tick L)) as (L1 & E1 & S1);
      [exact Hwf | apply F0_enough; exact Hwf |].
    rewrite E1. cbn [bind].
    destruct S1 as (A1 & B1 & C1). cbn [position ticks tick] in A1, C1.
    destruct (eof L1) eqn:He1.
    - cbn [okL snd]. split; [unfold step_le; lia | discriminate].
    - pose proof (next_token_ok L1 He1) as Hn.
      destruct (next_token ua uu input len L1) as [[t L2]|e L2|]; cbn [okL snd] in Hn; cbn [bind].
      + destruct Hn as ((A2 & B2 & C2) & D2). specialize (D2 eq_refl).
        cbn [fst snd].
        specialize (IH (t :: acc) L2 B2).
        assert (Hf2 : (len - position L2 < f)%nat) by lia.
        specialize (IH Hf2).
        destruct (tokenize_loop ua uu input len f (t :: acc) L2) as [[ts L3]|e L3|]; cbn [okL snd] in *.
        * destruct IH as ((A3 & B3 & C3) & _). split; [unfold step_le; lia | discriminate].
        * destruct IH as (N & A3 & B3 & C3). split; [exact N | unfold step_le; lia].
        * contradiction.
      + destruct Hn as (N & A2 & B2 & C2). cbn [okL]. split; [exact N | unfold step_le; lia].
      + contradiction.
  Qed.

  (** the token list of a successful run: what was accumulated, then at most one token per
      remaining character, then [TEof] *)
  Lemma tokenize_loop_shape fuel : forall acc L ts L',
    (position L <= len)%nat ->
    tokenize_loop ua uu input len fuel acc L = Ok (ts, L') ->
    exists mid, ts = rev acc ++ mid ++ [TEof] /\ (length mid + position L <= len)%nat.
  Proof.
    induction fuel as [|f IH]; intros acc L ts L' Hwf H; [discriminate|].
    cbn [tokenize_loop] in H.
    destruct (skip_ws_and_comments_ok F0 (tick L)) as (L1 & E1 & S1);
      [exact Hwf | apply F0_enough; exact Hwf |].
    rewrite E1 in H. cbn [bind] in H.
    destruct S1 as (A1 & B1 & C1). cbn [position ticks tick] in A1, C1.
    destruct (eof L1) eqn:He1.
    - inversion H; subst. exists []. cbn [rev app length]. split; [reflexivity | lia].
    - pose proof (next_token_ok L1 He1) as Hn.
      destruct (next_token ua uu input len L1) as [[t L2]|e L2|]; cbn [okL snd] in Hn;
        cbn [bind fst snd] in H; try discriminate.
      destruct Hn as ((A2 & B2 & C2) & D2). specialize (D2 eq_refl).
      destruct (IH (t :: acc) L2 ts L' B2 H) as (mid & Ets & Hm).
      exists (t :: mid). cbn [rev] in Ets. rewrite <- app_assoc in Ets. cbn [app] in Ets.
      split; [exact Ets | cbn [length]; lia].
  Qed.

  (** ** Token boundaries: the suffix view.  [rest L] is what the cursor still has in front of it;
      the primitives read it exactly like a list. *)
  Definition rest (L : lexer) : list Z := skipn (position L) input.

  Lemma skipn_cons_nth (l : list Z) : forall p c r,
    skipn p l = c :: r -> nth p l 0 = c /\ (p < length l)%nat /\ skipn (S p) l = r.
  Proof.
    induction l as [|x l IH]; intros p c r H.
    - destruct p; discriminate.
    - destruct p as [|p].
      + cbn in H. inversion H; subst. cbn. repeat split. lia.
      + cbn [skipn] in H. destruct (IH p c r H) as (A & B & C).
        cbn [nth length]. repeat split; [exact A | lia | exact C].
  Qed.

  Lemma skipn_nil_len (l : list Z) : forall p, skipn p l = [] -> (length l <= p)%nat.
  Proof.
    induction l as [|x l IH]; intros p H; [cbn; lia|].
    destruct p as [|p]; [discriminate|]. cbn [skipn] in H. apply IH in H. cbn; lia.
  Qed.

  Lemma rest_cons L c r :
    rest L = c :: r ->
    eof L = false /\ cur L = c /\ adv L = mkL (S (position L)) (ticks L) /\ rest (adv L) = r.
  Proof.
    unfold rest. intros H. destruct (skipn_cons_nth input _ _ _ H) as (A & B & C).
    assert (He : eof L = false) by (unfold is_eof; apply Nat.leb_gt; exact B).
    repeat split.
    - exact He.
    - unfold current_char. rewrite He. exact A.
    - apply adv_noteof; exact He.
    - rewrite (adv_noteof L He). cbn [position]. exact C.
  Qed.

  Lemma rest_nil L : rest L = [] -> eof L = true.
  Proof. unfold rest, is_eof. intros H. apply skipn_nil_len in H. apply Nat.leb_le. exact H. Qed.

  Lemma rest_tick L : rest (tick L) = rest L.
  Proof. reflexivity. Qed.

  Lemma rest_len L : length (rest L) = (len - position L)%nat.
  Proof. unfold rest. rewrite skipn_length. reflexivity. Qed.

  (** the quote test after a closing quote: false at eof and in front of any other character *)
  Lemma not_quote_next L q post :
    rest L = post -> hd_error post <> Some q ->
    (negb (eof L) && (cur L =? q)) = false.
  Proof.
    intros HR Hq. destruct post as [|c r].
    - rewrite (rest_nil L HR). reflexivity.
    - destruct (rest_cons L c r HR) as (He & Hc & _). rewrite He, Hc. cbn [negb andb].
      apply Z.eqb_neq. intros ->. apply Hq. reflexivity.
  Qed.

  Lemma double_quotes_length q s : (length s <= length (double_quotes q s))%nat.
  Proof.
    induction s as [|c s IH]; [cbn; lia|].
    change (double_quotes q (c :: s)) with ((if c =? q then [q; q] else [c]) ++ double_quotes q s).
    rewrite app_length. destruct (c =? q); cbn [length]; lia.
  Qed.

  (** The body of a quoted literal: from a cursor in front of [double_quotes q s ++ q :: post],
      where [post] does not begin with another [q], the loop returns exactly [s] and stops just
      behind the closing quote. *)
  Lemma quoted_loop_dq q : forall s fuel acc L post,
    rest L = double_quotes q s ++ q :: post -> hd_error post <> Some q ->
    (length s < fuel)%nat ->
    exists t, quoted_loop input len fuel q acc L =
              Ok (Some (rev acc ++ s), mkL (position L + length (double_quotes q s) + 1) t).
  Proof.
    induction s as [|c s IH]; intros fuel acc L post HR Hq Hf.
    - destruct fuel as [|f]; [cbn in Hf; lia|].
      cbn [double_quotes flat_map app] in HR.
      destruct (rest_cons L q post HR) as (He & Hc & Ha & HR1).
      cbn [quoted_loop]. rewrite He, cur_tick, Hc, Z.eqb_refl.
      assert (Ha' : adv (tick L) = mkL (S (position L)) (S (ticks L))).
      { rewrite adv_noteof by exact He. reflexivity. }
      rewrite Ha'.
      assert (HR1' : rest {| position := S (position L); ticks := S (ticks L) |} = post).
      { rewrite Ha in HR1. exact HR1. }
      rewrite (not_quote_next _ q post HR1' Hq).
      exists (S (ticks L)). rewrite app_nil_r. cbn [length]. pos_eq.
    - destruct fuel as [|f]; [cbn in Hf; lia|].
      cbn [length] in Hf.
      cbn [double_quotes flat_map] in HR. fold (double_quotes q s) in HR.
      destruct (c =? q) eqn:Hcq.
      + apply Z.eqb_eq in Hcq. subst c.
        cbn [app] in HR.
        destruct (rest_cons L q _ HR) as (He & Hc & Ha & HR1).
        cbn [quoted_loop]. rewrite He, cur_tick, Hc, Z.eqb_refl.
        assert (Ha' : adv (tick L) = mkL (S (position L)) (S (ticks L))).
        { rewrite adv_noteof by exact He. reflexivity. }
        rewrite Ha'.
        set (L1 := {| position := S (position L); ticks := S (ticks L) |}).
        assert (HR1' : rest L1 = q :: double_quotes q s ++ q :: post).
        { rewrite Ha in HR1. exact HR1. }
        destruct (rest_cons L1 q _ HR1') as (He1 & Hc1 & Ha1 & HR2).
        rewrite He1, Hc1, Z.eqb_refl. cbn [negb andb].
        destruct (IH f (q :: acc) (adv L1) post HR2 Hq) as (t & E); [lia|].
        exists t. rewrite E. rewrite Ha1. cbn [position rev]. rewrite <- app_assoc. cbn [app].
        cbn [double_quotes flat_map]. fold (double_quotes q s). rewrite Z.eqb_refl.
        cbn [app length]. subst L1. cbn [position]. pos_eq.
      + cbn [app] in HR.
        destruct (rest_cons L c _ HR) as (He & Hc & Ha & HR1).
        cbn [quoted_loop]. rewrite He, cur_tick, Hc, Hcq.
        assert (Ha' : adv (tick L) = mkL (S (position L)) (S (ticks L))).
        { rewrite adv_noteof by exact He. reflexivity. }
        rewrite Ha'.
        set (L1 := {| position := S (position L); ticks := S (ticks L) |}).
        assert (HR1' : rest L1 = double_quotes q s ++ q :: post).
        { rewrite Ha in HR1. exact HR1. }
        destruct (IH f (c :: acc) L1 post HR1' Hq) as (t & E); [lia|].
        exists t. rewrite E. cbn [rev]. rewrite <- app_assoc. cbn [app].
        cbn [double_quotes flat_map]. fold (double_quotes q s). rewrite Hcq.
        cbn [app length]. subst L1. cbn [position]. pos_eq.
  Qed.

  (** [next_token] in front of a single-quoted literal, in any context: exactly one [TString]
      token carrying the unescaped text, and the cursor ends just behind the closing quote. *)
  Lemma next_token_string L s post :
    rest L = 39 :: double_quotes 39 s ++ 39 :: post -> hd_error post <> Some 39 ->
    exists t, next_token ua uu input len L =
              Ok (TString s, mkL (position L + length (double_quotes 39 s) + 2) t).
  Proof.
    intros HR Hq.
    destruct (rest_cons (tick L) 39 _ HR) as (He & Hc & Ha & HR1).
    unfold next_token. rewrite Hc. cbn [Z.eqb Pos.eqb orb].
    unfold tokenize_string. rewrite Hc.
    pose proof (rest_len (adv (tick L))) as Hlen. rewrite HR1 in Hlen.
    rewrite app_length in Hlen. cbn [length] in Hlen.
    pose proof (double_quotes_length 39 s) as Hdq.
    destruct (quoted_loop_dq 39 s F0 [] (adv (tick L)) post HR1 Hq) as (t & E).
    { unfold fuel0. lia. }
    rewrite E. cbn [bind rev app]. exists t. rewrite Ha. cbn [position]. pos_eq.
  Qed.

  (** same for the two delimited-identifier styles (the empty identifier is a lexer error) *)
  Lemma next_token_delimited q L s post :
    q = 34 \/ q = 96 -> s <> [] ->
    rest L = q :: double_quotes q s ++ q :: post -> hd_error post <> Some q ->
    exists t, next_token ua uu input len L =
              Ok (TDelim s, mkL (position L + length (double_quotes q s) + 2) t).
  Proof.
    intros Hq0 Hne HR Hq.
    destruct (rest_cons (tick L) q _ HR) as (He & Hc & Ha & HR1).
    pose proof (rest_len (adv (tick L))) as Hlen. rewrite HR1 in Hlen.
    rewrite app_length in Hlen. cbn [length] in Hlen.
    pose proof (double_quotes_length q s) as Hdq.
    destruct (quoted_loop_dq q s F0 [] (adv (tick L)) post HR1 Hq) as (t & E).
    { unfold fuel0. lia. }
    unfold next_token. rewrite Hc.
    destruct Hq0 as [-> | ->]; cbn [Z.eqb Pos.eqb orb]; unfold tokenize_delimited;
      rewrite E; cbn [bind rev app]; (destruct s as [|c s]; [congruence|]);
      exists t; rewrite Ha; cbn [position]; pos_eq.
  Qed.

  (** skipping in front of a character that is neither whitespace nor ['-'], and at eof *)
  Lemma skip_ws_noop L c r :
    rest L = c :: r -> is_ws c = false -> (c =? 45) = false ->
    skip_ws_and_comments input len F0 L = Ok (tick L).
  Proof.
    intros HR Hw Hm.
    destruct (rest_cons (tick L) c r HR) as (He & Hc & _).
    unfold fuel0. cbn [skip_ws_and_comments]. unfold fuel0. cbn [skip_whitespace].
    rewrite He, Hc, Hw. cbn [bind]. rewrite He, Hc, Hm. reflexivity.
  Qed.

  Lemma skip_ws_eof L :
    rest L = [] -> skip_ws_and_comments input len F0 L = Ok (tick L).
  Proof.
    intros HR. pose proof (rest_nil (tick L) HR) as He.
    unfold fuel0. cbn [skip_ws_and_comments]. unfold fuel0. cbn [skip_whitespace].
    rewrite He. cbn [bind]. rewrite He. reflexivity.
  Qed.

  Lemma skipn_all_nil {A} (l : list A) : skipn (length l) l = [].
  Proof. induction l; cbn; auto. Qed.

  (** an input that [next_token] consumes completely as one token lexes to that token + [TEof] *)
  Lemma tokenize_loop_single fuel tok c r :
    input = c :: r -> is_ws c = false -> (c =? 45) = false ->
    (forall L, position L = O ->
               exists t, next_token ua uu input len L = Ok (tok, mkL len t)) ->
    (2 <= fuel)%nat ->
    exists L', tokenize_loop ua uu input len fuel [] (mkL 0 0) = Ok ([tok; TEof], L').
  Proof.
    intros Hin Hw Hm Hnt Hf.
    destruct fuel as [|[|f]]; try lia.
    cbn [tokenize_loop].
    assert (R0 : rest (tick (mkL 0 0)) = c :: r) by (unfold rest; cbn [tick position skipn]; exact Hin).
    rewrite (skip_ws_noop _ c r R0 Hw Hm). cbn [bind].
    destruct (rest_cons _ _ _ R0) as (He & _). rewrite eof_tick. rewrite He.
    destruct (Hnt (tick (tick (mkL 0 0))) eq_refl) as (t & E).
    rewrite E. cbn [bind fst snd].
    assert (R2 : rest (tick (mkL len t)) = []).
    { unfold rest. cbn [tick position]. apply skipn_all_nil. }
    rewrite (skip_ws_eof _ R2). cbn [bind].
    rewrite (rest_nil (tick (tick (mkL len t))) R2). eexists. reflexivity.
  Qed.

  (** ** Stepping [tokenize_loop] token by token (used for the end-to-end witness in Lex/EndToEnd.v) *)

  Lemma rest_mk_S L c r t : rest L = c :: r -> rest (mkL (S (position L)) t) = r.
  Proof.
    unfold rest. cbn [position]. intros H. destruct (skipn_cons_nth input _ _ _ H) as (_ & _ & C). exact C.
  Qed.

  (** one iteration of the main loop in front of a character that is neither whitespace nor '-' *)
  Lemma tokenize_loop_emit f acc L c r t L2 :
    rest L = c :: r -> is_ws c = false -> (c =? 45) = false ->
    next_token ua uu input len (tick (tick L)) = Ok (t, L2) ->
    tokenize_loop ua uu input len (S f) acc L = tokenize_loop ua uu input len f (t :: acc) L2.
  Proof.
    intros HR Hw Hm Hn. cbn [tokenize_loop].
    rewrite (skip_ws_noop (tick L) c r HR Hw Hm). cbn [bind].
    destruct (rest_cons (tick (tick L)) c r HR) as (He & _). rewrite He, Hn. reflexivity.
  Qed.

  Lemma tokenize_loop_finish f acc L :
    rest L = [] ->
    tokenize_loop ua uu input len (S f) acc L = Ok (rev (TEof :: acc), tick (tick L)).
  Proof.
    intros HR. cbn [tokenize_loop]. rewrite (skip_ws_eof (tick L) HR). cbn [bind].
    rewrite (rest_nil (tick (tick L)) HR). reflexivity.
  Qed.

  Lemma next_token_paren L c r :
    rest L = c :: r -> c = 40 \/ c = 41 ->
    next_token ua uu input len L =
    Ok (if c =? 40 then TLParen else TRParen, mkL (S (position L)) (S (ticks L))).
  Proof.
    intros HR Hc. destruct (rest_cons (tick L) c r HR) as (He & Hcur & Ha & _).
    unfold next_token. rewrite Hcur, Ha.
    destruct Hc as [-> | ->]; reflexivity.
  Qed.

  (** the one-digit number [1] followed by [)] or by the end of the input *)
  Lemma next_token_one L r :
    rest L = 49 :: r -> (r = [] \/ exists r', r = 41 :: r') ->
    exists t, next_token ua uu input len L = Ok (TNumber [49], mkL (S (position L)) t).
  Proof.
    intros HR Hr. destruct (rest_cons (tick L) 49 r HR) as (He & Hcur & Ha & HR1).
    pose proof (rest_len L) as Hlen. rewrite HR in Hlen. cbn [length] in Hlen.
    unfold next_token. rewrite Hcur. cbn [Z.eqb Pos.eqb orb is_ascii_digit in_range Z.leb Z.compare Pos.compare Pos.compare_cont andb is_ascii_alpha].
    unfold tokenize_number. rewrite He, Hcur. cbn [negb andb Z.eqb Pos.eqb].
    assert (Hf : fuel0 len = S (S (len - 1))) by (unfold fuel0; lia).
    rewrite Hf. cbn [number_body]. rewrite He, Hcur.
    cbn [is_ascii_digit in_range Z.leb Z.compare Pos.compare Pos.compare_cont andb].
    assert (Ha' : adv (tick (tick L)) = mkL (S (position L)) (S (S (ticks L)))).
    { rewrite adv_noteof by exact He. reflexivity. }
    rewrite Ha'. set (L1 := {| position := S (position L); ticks := S (S (ticks L)) |}).
    assert (HR1' : rest L1 = r) by (apply (rest_mk_S (tick L) 49 r _ HR)).
    assert (Hsl : slice input (position L) (S (position L)) = Ok [49]).
    { unfold slice.
      assert (E1 : Nat.leb (position L) (S (position L)) = true) by (apply Nat.leb_le; lia).
      assert (E2 : Nat.leb (S (position L)) (length input) = true) by (apply Nat.leb_le; subst len; lia).
      rewrite E1, E2. cbn [andb]. replace (S (position L) - position L)%nat with 1%nat by lia.
      unfold rest in HR. cbn [tick position] in HR. rewrite HR. reflexivity. }
    destruct Hr as [-> | (r' & ->)].
    - pose proof (rest_nil L1 HR1') as He1. rewrite He1. cbn [bind].
      unfold number_exponent. rewrite He1. cbn [bind position tick]. subst L1. cbn [position].
      rewrite Hsl. cbn [bind]. eexists. reflexivity.
    - destruct (rest_cons L1 41 r' HR1') as (He1 & Hc1 & _). rewrite He1, Hc1.
      cbn [is_ascii_digit in_range Z.leb Z.compare Pos.compare Pos.compare_cont andb Z.eqb Pos.eqb negb bind].
      unfold number_exponent. rewrite He1, Hc1. cbn [Z.eqb Pos.eqb orb bind position tick]. subst L1. cbn [position].
      rewrite Hsl. cbn [bind]. eexists. reflexivity.
  Qed.

  Lemma ident_loop_step f L c r :
    rest L = c :: r -> (char_is_alphanumeric ua c || (c =? 95)) = true ->
    ident_loop ua input len (S f) L = ident_loop ua input len f (mkL (S (position L)) (S (ticks L))).
  Proof.
    intros HR Hc. destruct (rest_cons L c r HR) as (He & Hcur & _ & _).
    cbn [ident_loop]. rewrite He, Hcur, Hc. rewrite adv_noteof by exact He. reflexivity.
  Qed.

  Lemma ident_loop_stop f L c r :
    rest L = c :: r -> (char_is_alphanumeric ua c || (c =? 95)) = false ->
    ident_loop ua input len (S f) L = Ok L.
  Proof.
    intros HR Hc. destruct (rest_cons L c r HR) as (He & Hcur & _ & _).
    cbn [ident_loop]. rewrite He, Hcur, Hc. reflexivity.
  Qed.

  (** the keyword SELECT directly followed by an opening parenthesis *)
  Lemma next_token_select L r :
    rest L = 83 :: 69 :: 76 :: 69 :: 67 :: 84 :: 40 :: r ->
    exists t, next_token ua uu input len L =
              Ok (TKeyword [83; 101; 108; 101; 99; 116], mkL (position L + 6) t).
  Proof.
    intros HR. destruct (rest_cons (tick L) _ _ HR) as (He & Hcur & _ & _).
    pose proof (rest_len L) as Hlen. rewrite HR in Hlen. cbn [length] in Hlen.
    unfold next_token. rewrite Hcur.
    cbn [Z.eqb Pos.eqb orb is_ascii_digit is_ascii_alpha in_range Z.leb Z.compare Pos.compare Pos.compare_cont andb].
    unfold tokenize_identifier_or_keyword.
    assert (Hf : fuel0 len = S (S (S (S (S (S (S (len - 6)))))))) by (unfold fuel0; lia).
    rewrite Hf.
    set (p := position L). set (t0 := ticks L).
    assert (R0 : rest (mkL p (S t0)) = 83 :: 69 :: 76 :: 69 :: 67 :: 84 :: 40 :: r) by exact HR.
    rewrite (ident_loop_step _ _ _ _ R0 eq_refl). cbn [position ticks].
    pose proof (rest_mk_S _ _ _ (S (S t0)) R0) as R1. cbn [position] in R1.
    rewrite (ident_loop_step _ _ _ _ R1 eq_refl). cbn [position ticks].
    pose proof (rest_mk_S _ _ _ (S (S (S t0))) R1) as R2. cbn [position] in R2.
    rewrite (ident_loop_step _ _ _ _ R2 eq_refl). cbn [position ticks].
    pose proof (rest_mk_S _ _ _ (S (S (S (S t0)))) R2) as R3. cbn [position] in R3.
    rewrite (ident_loop_step _ _ _ _ R3 eq_refl). cbn [position ticks].
    pose proof (rest_mk_S _ _ _ (S (S (S (S (S t0))))) R3) as R4. cbn [position] in R4.
    rewrite (ident_loop_step _ _ _ _ R4 eq_refl). cbn [position ticks].
    pose proof (rest_mk_S _ _ _ (S (S (S (S (S (S t0)))))) R4) as R5. cbn [position] in R5.
    rewrite (ident_loop_step _ _ _ _ R5 eq_refl). cbn [position ticks].
    pose proof (rest_mk_S _ _ _ (S (S (S (S (S (S (S t0))))))) R5) as R6. cbn [position] in R6.
    rewrite (ident_loop_stop _ _ _ _ R6 eq_refl). cbn [bind position tick].
    assert (Hsl : slice input p (S (S (S (S (S (S p)))))) = Ok [83; 69; 76; 69; 67; 84]).
    { unfold slice.
      assert (E1 : Nat.leb p (S (S (S (S (S (S p)))))) = true) by (apply Nat.leb_le; lia).
      assert (E2 : Nat.leb (S (S (S (S (S (S p)))))) (length input) = true)
        by (apply Nat.leb_le; subst len p; lia).
      rewrite E1, E2. cbn [andb]. replace (S (S (S (S (S (S p))))) - p)%nat with 6%nat by lia.
      unfold rest in R0. cbn [position] in R0. rewrite R0. reflexivity. }
    fold p. rewrite Hsl. cbn [bind].
    exists (S (S (S (S (S (S (S t0))))))).
    replace (p + 6)%nat with (S (S (S (S (S (S p)))))) by lia.
    reflexivity.
  Qed.

  (** a quote that is never closed: the loop runs to the end of the input and reports [None] *)
  Lemma quoted_loop_unterminated q : forall s fuel acc L,
    rest L = s -> ~ In q s -> (length s < fuel)%nat ->
    exists L', quoted_loop input len fuel q acc L = Ok (None, L').
  Proof.
    induction s as [|c s IH]; intros fuel acc L HR Hq Hf.
    - destruct fuel as [|f]; [cbn in Hf; lia|]. cbn [quoted_loop]. rewrite (rest_nil L HR).
      eexists. reflexivity.
    - destruct fuel as [|f]; [cbn in Hf; lia|]. cbn [length] in Hf.
      destruct (rest_cons L c s HR) as (He & Hc & _ & _).
      cbn [quoted_loop]. rewrite He, cur_tick, Hc.
      assert (Hcq : (c =? q) = false).
      { apply Z.eqb_neq. intros ->. apply Hq. left. reflexivity. }
      rewrite Hcq.
      assert (Ha' : adv (tick L) = mkL (S (position L)) (S (ticks L))).
      { rewrite adv_noteof by exact He. reflexivity. }
      rewrite Ha'.
      apply (IH f (c :: acc)); [apply (rest_mk_S L c s _ HR) | intros H; apply Hq; right; exact H | lia].
  Qed.

  Lemma repeat_app_cons {A} (x : A) k l : repeat x k ++ x :: l = x :: repeat x k ++ l.
  Proof. induction k as [|k IH]; cbn; [reflexivity | rewrite IH; reflexivity]. Qed.

  (** a run of [k] parentheses: [k] iterations of the main loop, [k] tokens *)
  Lemma tokenize_loop_parens c : c = 40 \/ c = 41 ->
    forall k f acc L r, rest L = repeat c k ++ r ->
    exists L', rest L' = r /\
      tokenize_loop ua uu input len (k + f) acc L =
      tokenize_loop ua uu input len f (repeat (if c =? 40 then TLParen else TRParen) k ++ acc) L'.
  Proof.
    intros Hc. induction k as [|k IH]; intros f acc L r HR.
    - exists L. split; [exact HR | reflexivity].
    - cbn [repeat app] in HR.
      assert (Hw : is_ws c = false) by (destruct Hc as [-> | ->]; reflexivity).
      assert (Hm : (c =? 45) = false) by (destruct Hc as [-> | ->]; reflexivity).
      pose proof (next_token_paren (tick (tick L)) c _ HR Hc) as Hn.
      cbn [Nat.add].
      rewrite (tokenize_loop_emit _ acc L c _ _ _ HR Hw Hm Hn).
      pose proof (rest_mk_S (tick (tick L)) c _ (S (ticks (tick (tick L)))) HR) as HR2.
      destruct (IH f ((if c =? 40 then TLParen else TRParen) :: acc) _ r HR2) as (L' & HR' & E).
      exists L'. split; [exact HR'|]. rewrite E. cbn [repeat app].
      rewrite repeat_app_cons. reflexivity.
  Qed.

End Laws.

(** ** The theorems about [tokenize] *)

Lemma tokenize_full_ok ua uu cs :
  okL (length cs) (@snd (list token) lexer) 4 3 false (mkL 0 0) (tokenize_full ua uu cs).
Proof.
  unfold tokenize_full, tokenize_run.
  apply tokenize_loop_ok; unfold fuel0; cbn; lia.
Qed.

(** [lex_total]: for every Unicode table and every input, the lexer neither panics nor exhausts
    the fuel [length input + 1] (so it returns tokens or a lexer error). *)
Theorem lex_total ua uu (cs : list Z) :
  tokenize ua uu cs <> Panic /\ forall L, tokenize ua uu cs <> Err EOutOfFuel L.
Proof.
  pose proof (tokenize_full_ok ua uu cs) as H. unfold tokenize.
  destruct (tokenize_full ua uu cs) as [[ts L']|e L'|]; cbn [okL] in H.
  - split; [discriminate | intros L; discriminate].
  - destruct H as (N & _). split; [discriminate | intros L E; inversion E; congruence].
  - contradiction.
Qed.

(** [lex_linear]: the run costs at most [4 * length input + 3] ticks (loop iterations +
    [next_token] calls), whether it succeeds or fails. *)
Theorem lex_linear ua uu (cs : list Z) : (lex_ticks ua uu cs <= 4 * length cs + 3)%nat.
Proof.
  pose proof (tokenize_full_ok ua uu cs) as H. unfold lex_ticks.
  destruct (tokenize_full ua uu cs) as [[ts L']|e L'|]; cbn [okL snd] in H.
  - destruct H as ((A & B & C) & _). cbn in *. lia.
  - destruct H as (_ & A & B & C). cbn in *. lia.
  - lia.
Qed.

(** a successful run yields at most one token per input character, followed by [TEof] *)
Theorem lex_token_count ua uu (cs : list Z) ts :
  tokenize ua uu cs = Ok ts ->
  exists mid, ts = mid ++ [TEof] /\ (length mid <= length cs)%nat.
Proof.
  unfold tokenize, tokenize_full, tokenize_run.
  destruct (tokenize_loop ua uu cs (length cs) (fuel0 (length cs)) [] (mkL 0 0))
    as [[ts' L']|e L'|] eqn:E; intros H; inversion H; subst.
  destruct (tokenize_loop_shape ua uu cs _ [] (mkL 0 0) _ _ (Nat.le_0_l _) E) as (mid & Ets & Hm).
  exists mid. cbn [rev app position] in *. split; [exact Ets | lia].
Qed.

(** ** Whole-input boundary theorems *)

(** a quoted literal alone: ['...'] with every embedded quote doubled lexes to the single token
    [TString s] for EVERY character list [s] (quotes, newlines, NUL, comment starts included). *)
Theorem lex_string_literal ua uu (s : list Z) :
  tokenize ua uu (39 :: double_quotes 39 s ++ [39]) = Ok [TString s; TEof].
Proof.
  set (cs := 39 :: double_quotes 39 s ++ [39]).
  assert (Hlen : length cs = (length (double_quotes 39 s) + 2)%nat).
  { subst cs. cbn [length]. rewrite app_length. cbn. lia. }
  destruct (tokenize_loop_single ua uu cs (fuel0 (length cs)) (TString s) 39
              (double_quotes 39 s ++ [39])) as (L' & E);
    [reflexivity | reflexivity | reflexivity | | unfold fuel0; lia |].
  - intros L HL.
    destruct (next_token_string ua uu cs L s []) as (t & E); [| discriminate |].
    + unfold rest. rewrite HL. reflexivity.
    + exists t. rewrite E. rewrite HL, Hlen. reflexivity.
  - unfold tokenize, tokenize_full, tokenize_run. rewrite E. reflexivity.
Qed.

Theorem lex_delimited ua uu (q : Z) (s : list Z) :
  q = 34 \/ q = 96 -> s <> [] ->
  tokenize ua uu (q :: double_quotes q s ++ [q]) = Ok [TDelim s; TEof].
Proof.
  intros Hq Hne.
  set (cs := q :: double_quotes q s ++ [q]).
  assert (Hlen : length cs = (length (double_quotes q s) + 2)%nat).
  { subst cs. cbn [length]. rewrite app_length. cbn. lia. }
  assert (Hw : is_ws q = false) by (destruct Hq as [-> | ->]; reflexivity).
  assert (Hm : (q =? 45) = false) by (destruct Hq as [-> | ->]; reflexivity).
  destruct (tokenize_loop_single ua uu cs (fuel0 (length cs)) (TDelim s) q
              (double_quotes q s ++ [q])) as (L' & E);
    [reflexivity | exact Hw | exact Hm | | unfold fuel0; lia |].
  - intros L HL.
    destruct (next_token_delimited ua uu cs q L s [] Hq Hne) as (t & E); [| discriminate |].
    + unfold rest. rewrite HL. reflexivity.
    + exists t. rewrite E. rewrite HL, Hlen. reflexivity.
  - unfold tokenize, tokenize_full, tokenize_run. rewrite E. reflexivity.
Qed.

(** ** Examples: the hypotheses of the theorems are satisfiable by non-trivial inputs *)

(* "SELECT a,'it''s' -- c\n FROM t WHERE x<=.5e+3||@@a.b;" *)
Definition ex_sql : list Z :=
  [83;69;76;69;67;84;32;97;44;39;105;116;39;39;115;39;32;45;45;32;99;10;32;70;82;79;77;32;116;32;
   87;72;69;82;69;32;120;60;61;46;53;101;43;51;124;124;64;64;97;46;98;59].

Example lex_total_nontrivial :
  tokenize_ascii ex_sql =
  Ok [TKeyword [83;101;108;101;99;116]; TIdent [65]; TComma; TString [105;116;39;115];
      TKeyword [70;114;111;109]; TIdent [84]; TKeyword [87;104;101;114;101]; TIdent [88];
      TOperator [60;61]; TNumber [46;53;101;43;51]; TOperator [124;124]; TSessionVar [97;46;98];
      TSemicolon; TEof].
Proof. vm_compute. reflexivity. Qed.

(* truncated / malformed inputs end in a lexer error, not in a panic or a loop *)
Example lex_total_errors :
  (exists L, tokenize_ascii [39;97;98] = Err EUnterminatedString L) /\        (* 'ab        *)
  (exists L, tokenize_ascii [34;34] = Err EEmptyDelimited L) /\              (* ""         *)
  (exists L, tokenize_ascii [49;101;43] = Err EBadExponent L) /\             (* 1e+        *)
  (exists L, tokenize_ascii [97;32;124;32;98] = Err ELonePipe L) /\          (* a | b      *)
  (exists L, tokenize_ascii [64] = Err EEmptyVarName L) /\                   (* @          *)
  (exists L, tokenize_ascii [35] = Err EUnexpectedChar L) /\                 (* #          *)
  (exists L, tokenize_ascii [0] = Err EUnexpectedChar L) /\                  (* NUL        *)
  tokenize_ascii [45;45;32;120] = Ok [TEof].                                 (* -- x       *)
Proof. vm_compute. repeat split; eexists; reflexivity. Qed.

Example lex_linear_nontrivial :
  lex_ticks ascii_only_alnum ascii_only_upper ex_sql = 81%nat /\ length ex_sql = 52%nat.
Proof. vm_compute. split; reflexivity. Qed.

(* the bound of [lex_linear] is approached: "(a(a(a(a" costs 7 ticks per 2 characters + 2 *)
Example lex_linear_near_tight :
  lex_ticks ascii_only_alnum ascii_only_upper [40;97;40;97;40;97;40;97] = 30%nat.
Proof. vm_compute. reflexivity. Qed.

(* the string  a'b''c  written as the literal  'a''b''''c'  *)
Example lex_string_literal_nontrivial :
  double_quotes 39 [97;39;98;39;39;99] = [97;39;39;98;39;39;39;39;99] /\
  tokenize_ascii (39 :: double_quotes 39 [97;39;98;39;39;99] ++ [39]) = Ok [TString [97;39;98;39;39;99]; TEof].
Proof. vm_compute. split; reflexivity. Qed.

Example lex_delimited_nontrivial :
  tokenize_ascii (34 :: double_quotes 34 [115;101;108;101;99;116;34;120] ++ [34])
  = Ok [TDelim [115;101;108;101;99;116;34;120]; TEof].
Proof. vm_compute. reflexivity. Qed.

Example lex_token_count_nontrivial :
  exists ts, tokenize_ascii [40;40;49;41;41] = Ok ts /\ length ts = 6%nat.
Proof. eexists. vm_compute. split; reflexivity. Qed.

(** ** A whole statement text: [SELECT((..(1)..))] with [k >= 1] parentheses *)
Definition paren_text (k : nat) : list Z :=
  [83; 69; 76; 69; 67; 84] ++ repeat 40 k ++ 49 :: repeat 41 k.

Lemma rev_repeat {A} (x : A) k : rev (repeat x k) = repeat x k.
Proof.
  induction k as [|k IH]; [reflexivity|]. cbn [repeat rev]. rewrite IH.
  symmetry. apply repeat_cons.
Qed.

Theorem lex_paren_text ua uu k :
  tokenize ua uu (paren_text (S k)) =
  Ok (TKeyword [83; 101; 108; 101; 99; 116] :: repeat TLParen (S k) ++ TNumber [49] :: repeat TRParen (S k) ++ [TEof]).
Proof.
  set (cs := paren_text (S k)).
  assert (Hlen : length cs = (2 * k + 9)%nat).
  { subst cs. unfold paren_text. rewrite !app_length. cbn [length]. rewrite !repeat_length. lia. }
  unfold tokenize, tokenize_full, tokenize_run.
  assert (Hf : fuel0 (length cs) = S (S k + S (S k + S 5))) by (unfold fuel0; rewrite Hlen; lia).
  rewrite Hf.
  (* SELECT *)
  assert (R0 : rest cs (mkL 0 0) = 83 :: 69 :: 76 :: 69 :: 67 :: 84 :: 40 :: (repeat 40 k ++ 49 :: repeat 41 (S k)))
    by reflexivity.
  destruct (next_token_select ua uu cs (tick (tick (mkL 0 0))) _ R0) as (t1 & E1).
  rewrite (tokenize_loop_emit ua uu cs _ [] (mkL 0 0) 83 _ _ _ R0 eq_refl eq_refl E1).
  change (position (tick (tick {| position := 0; ticks := 0 |})) + 6)%nat with 6%nat.
  (* opening parentheses *)
  assert (R1 : rest cs (mkL 6 t1) = repeat 40 (S k) ++ 49 :: repeat 41 (S k)) by reflexivity.
  destruct (tokenize_loop_parens ua uu cs 40 (or_introl eq_refl) (S k) (S (S k + S 5))
              [TKeyword [83; 101; 108; 101; 99; 116]] _ _ R1)
    as (L2 & R2 & E2).
  rewrite E2. cbn [Z.eqb Pos.eqb].
  (* the literal *)
  destruct (next_token_one ua uu cs (tick (tick L2)) _ R2) as (t3 & E3).
  { right. exists (repeat 41 k). reflexivity. }
  rewrite (tokenize_loop_emit ua uu cs _ _ L2 49 _ _ _ R2 eq_refl eq_refl E3).
  pose proof (rest_mk_S cs (tick (tick L2)) 49 _ t3 R2) as R3.
  (* closing parentheses *)
  assert (R3' : rest cs {| position := S (position (tick (tick L2))); ticks := t3 |} = repeat 41 (S k) ++ [])
    by (rewrite app_nil_r; exact R3).
  destruct (tokenize_loop_parens ua uu cs 41 (or_intror eq_refl) (S k) (S 5)
              (TNumber [49] :: repeat TLParen (S k) ++ [TKeyword [83; 101; 108; 101; 99; 116]]) _ [] R3')
    as (L4 & R4 & E4).
  rewrite E4. cbn [Z.eqb Pos.eqb].
  rewrite (tokenize_loop_finish ua uu cs _ _ L4 R4).
  f_equal.
  cbn [rev].
  rewrite rev_app_distr. cbn [rev]. rewrite rev_app_distr. cbn [rev app].
  rewrite !rev_repeat. rewrite <- !app_assoc. cbn [app]. reflexivity.
Qed.

Example lex_paren_text_nontrivial :
  tokenize_ascii (paren_text 2) =
  Ok [TKeyword [83; 101; 108; 101; 99; 116]; TLParen; TLParen; TNumber [49]; TRParen; TRParen; TEof].
Proof. vm_compute. reflexivity. Qed.

(** truncated input: an opening quote that is never closed is a lexer error (not a panic, not a loop),
    whatever follows it *)
Theorem lex_unterminated_string ua uu (s : list Z) :
  ~ In 39 s -> exists L, tokenize ua uu (39 :: s) = Err EUnterminatedString L.
Proof.
  intros Hq. set (cs := 39 :: s).
  unfold tokenize, tokenize_full, tokenize_run. unfold fuel0 at 1. cbn [tokenize_loop].
  assert (R0 : rest cs (tick (mkL 0 0)) = 39 :: s) by reflexivity.
  rewrite (skip_ws_noop cs _ 39 s R0 eq_refl eq_refl). cbn [bind].
  destruct (rest_cons cs _ _ _ R0) as (He & _). rewrite eof_tick, He.
  assert (R1 : rest cs (tick (tick (tick (mkL 0 0)))) = 39 :: s) by reflexivity.
  destruct (rest_cons cs _ _ _ R1) as (He1 & Hc1 & Ha1 & HR1).
  unfold next_token. rewrite Hc1. cbn [Z.eqb Pos.eqb orb].
  unfold tokenize_string. rewrite Hc1.
  destruct (quoted_loop_unterminated cs 39 s (fuel0 (length cs)) [] _ HR1 Hq) as (L' & E).
  { unfold fuel0. subst cs. cbn [length]. lia. }
  rewrite E. cbn [bind]. eexists. reflexivity.
Qed.

Example lex_unterminated_string_nontrivial :
  exists L, tokenize_ascii [39; 83; 69; 76; 69; 67; 84; 32; 45; 45; 10; 34] = Err EUnterminatedString L.
Proof. eexists. vm_compute. reflexivity. Qed.
