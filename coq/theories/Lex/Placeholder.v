(** Model of crates/vibesql-python-bindings/src/conversions.rs
      [py_to_sqlvalue], [convert_params_to_sql_values], [substitute_placeholders]
    and of crates/vibesql-python-bindings/src/cursor.rs [Cursor::bind_parameters].

    Text is a list of Unicode scalar values ([str::chars()]).  The code is transcribed as it is:
    EVERY '?' of the text is a placeholder for [substitute_placeholders] and for the count check
    ([sql.matches('?').count()]), also inside '...' literals, "..." / `...` identifiers and -- comments.

    Specification side (not code): [step]/[protected] = a nine-state scanner for the lexer's protected regions
    (crates/vibesql-parser/src/lexer/{mod,strings,identifiers}.rs: '' "" `` doubled-delimiter escapes,
    no backslash escapes, [--] comments up to the newline, no block comments), [bind_spec] = substitution
    of the placeholders OUTSIDE those regions only, [read_literal] = how the SQL reader gets a value back
    from a literal.  Executable definitions only; no proofs in this file. *)
From Coq Require Import Decimal DecimalZ.
From Coq Require Import List ZArith Bool.
From VibeSQL Require Import Lex.F64Display.
Import ListNotations.
Open Scope Z_scope.

Definition text := list Z.

Definition c_qm : Z := 63.       (* ? *)
Definition c_quote : Z := 39.    (* ' *)
Definition c_dquote : Z := 34.   (* double quote *)
Definition c_btick : Z := 96.    (* ` *)
Definition c_dash : Z := 45.     (* - *)
Definition c_nl : Z := 10.
Definition c_dot : Z := 46.

Fixpoint text_eqb (a b : text) : bool :=
  match a, b with
  | [], [] => true
  | x :: a', y :: b' => (x =? y) && text_eqb a' b'
  | _, _ => false
  end.

(** * Python values as [py_to_sqlvalue] sees them *)
Inductive pyval : Type :=
| PNone
| PInt (z : Z)            (* int: arbitrary precision *)
| PBool (b : bool)        (* bool is a subclass of int *)
| PFloat (bits : Z)       (* float: binary64 bit pattern *)
| PStr (s : text)         (* str: code points, lone surrogates possible *)
| POther.                 (* bytes, list, ...: no conversion *)

(** the SqlValue variants that reach [substitute_placeholders] through the Python API, plus the
    other variants whose printing is a plain [to_string] (Unsigned, Numeric, Character, Boolean).
    Not modelled (unreachable from Python values): Float/Real (f32), Date/Time/Timestamp/Interval *)
Inductive bval : Type :=
| BNull
| BSmallint (z : Z)
| BInteger (z : Z)
| BBigint (z : Z)
| BUnsigned (z : Z)
| BDouble (bits : Z)
| BNumeric (bits : Z)
| BVarchar (s : text)
| BCharacter (s : text)
| BBoolean (b : bool).

Definition i16_min : Z := -32768.
Definition i16_max : Z := 32767.
Definition i32_min : Z := -2147483648.
Definition i32_max : Z := 2147483647.
Definition i64_min : Z := -9223372036854775808.
Definition i64_max : Z := 9223372036854775807.
Definition in_i64 (z : Z) : bool := (i64_min <=? z) && (z <=? i64_max).

Definition is_surrogate (c : Z) : bool := (55296 <=? c) && (c <=? 57343).
Definition has_surrogate (s : text) : bool := existsb is_surrogate s.

(** [py_to_sqlvalue]: None; then [extract::<i64>] (succeeds for bool: True -> 1, so the final
    [extract::<bool>] arm is dead; fails with OverflowError for ints outside i64), then [extract::<f64>]
    (PyFloat_AsDouble: accepts an int, OverflowError beyond the binary64 range), then [extract::<String>]
    (fails on lone surrogates), then bool, else ProgrammingError ([None]) *)
Definition py_to_sqlvalue (v : pyval) : option bval :=
  match v with
  | PNone => Some BNull
  | PInt z =>
    if in_i64 z then
      if (i16_min <=? z) && (z <=? i16_max) then Some (BSmallint z)
      else if (i32_min <=? z) && (z <=? i32_max) then Some (BInteger z)
      else Some (BBigint z)
    else match f64_of_Z z with Some b => Some (BDouble b) | None => None end
  | PBool b => Some (BSmallint (if b then 1 else 0))
  | PFloat b => Some (BDouble b)
  | PStr s => if has_surrogate s then None else Some (BVarchar s)
  | POther => None
  end.

(** [convert_params_to_sql_values]: first failing parameter aborts *)
Fixpoint convert_params (ps : list pyval) : option (list bval) :=
  match ps with
  | [] => Some []
  | p :: r =>
    match py_to_sqlvalue p with
    | None => None
    | Some v => match convert_params r with None => None | Some vs => Some (v :: vs) end
    end
  end.

(** * Printing *)
Fixpoint uint_text (u : Decimal.uint) : text :=
  match u with
  | Nil => []
  | D0 u => 48 :: uint_text u | D1 u => 49 :: uint_text u | D2 u => 50 :: uint_text u
  | D3 u => 51 :: uint_text u | D4 u => 52 :: uint_text u | D5 u => 53 :: uint_text u
  | D6 u => 54 :: uint_text u | D7 u => 55 :: uint_text u | D8 u => 56 :: uint_text u
  | D9 u => 57 :: uint_text u
  end.

(** [i64::to_string] / [u64::to_string] *)
Definition dec_Z (z : Z) : text :=
  match Z.to_int z with
  | Pos u => uint_text u
  | Neg u => c_dash :: uint_text u
  end.

(** [s.replace('\'', "''")] *)
Definition double_quotes (s : text) : text :=
  flat_map (fun c => if c =? c_quote then [c_quote; c_quote] else [c]) s.

Definition quote (s : text) : text := c_quote :: double_quotes s ++ [c_quote].

Definition kw_null : text := [78; 85; 76; 76].
Definition kw_true : text := [84; 82; 85; 69].
Definition kw_false : text := [70; 65; 76; 83; 69].

(** the [value_str] match of [substitute_placeholders] *)
Definition print_value (v : bval) : text :=
  match v with
  | BInteger z | BSmallint z | BBigint z | BUnsigned z => dec_Z z
  | BDouble b | BNumeric b => fmt_f64 b
  | BVarchar s | BCharacter s => quote s
  | BBoolean b => if b then kw_true else kw_false
  | BNull => kw_null
  end.

(** [substitute_placeholders]: one left-to-right pass; [param_idx] advances only when a value is
    available; a '?' beyond the values is dropped (nothing pushed); surplus values are ignored *)
Fixpoint substitute (sql : text) (vals : list bval) : text :=
  match sql with
  | [] => []
  | ch :: rest =>
    if ch =? c_qm then
      match vals with
      | v :: vals' => print_value v ++ substitute rest vals'
      | [] => substitute rest []
      end
    else ch :: substitute rest vals
  end.

(** [sql.matches('?').count()] *)
Fixpoint count_qm (sql : text) : nat :=
  match sql with
  | [] => O
  | c :: r => if c =? c_qm then S (count_qm r) else count_qm r
  end.

(** [Cursor::bind_parameters]: count check, conversion, substitution; [None] = ProgrammingError *)
Definition bind_parameters (sql : text) (params : list pyval) : option text :=
  if Nat.eqb (count_qm sql) (length params) then
    match convert_params params with
    | Some vals => Some (substitute sql vals)
    | None => None
    end
  else None.

(** the [processed_sql] of [Cursor::execute]'s miss path *)
Definition process (sql : text) (params : option (list pyval)) : option text :=
  match params with
  | Some ps => bind_parameters sql ps
  | None => Some sql
  end.

(** * Specification side: protected regions of the lexer *)
Inductive sstate : Type :=
| SCode            (* between tokens / inside an unquoted token *)
| SDash            (* just read one '-' in code *)
| SStr | SStrQ     (* inside '...'; just read a ' inside '...' (escape or end) *)
| SDq | SDqQ       (* the same for "..." *)
| SBt | SBtQ       (* the same for `...` *)
| SCom.            (* inside a -- comment *)

Definition code_step (c : Z) : sstate :=
  if c =? c_quote then SStr
  else if c =? c_dquote then SDq
  else if c =? c_btick then SBt
  else if c =? c_dash then SDash
  else SCode.

Definition step (st : sstate) (c : Z) : sstate :=
  match st with
  | SCode => code_step c
  | SDash => if c =? c_dash then SCom else code_step c
  | SStr => if c =? c_quote then SStrQ else SStr
  | SStrQ => if c =? c_quote then SStr else code_step c
  | SDq => if c =? c_dquote then SDqQ else SDq
  | SDqQ => if c =? c_dquote then SDq else code_step c
  | SBt => if c =? c_btick then SBtQ else SBt
  | SBtQ => if c =? c_btick then SBt else code_step c
  | SCom => if c =? c_nl then SCode else SCom
  end.

(** a character read in one of these states belongs to a literal / delimited identifier / comment *)
Definition protected (st : sstate) : bool :=
  match st with SStr | SDq | SBt | SCom => true | _ => false end.

Fixpoint run (st : sstate) (l : text) : sstate :=
  match l with [] => st | c :: r => run (step st c) r end.

(** the role of a character for the token structure: inside a protected region; continuing the
    previous token (the second quote of a doubled delimiter, the second '-' of a comment start);
    or plain (code, including an opening delimiter) *)
Inductive role : Type := RPlain | RInside | RCont.

Definition role_of (st : sstate) (c : Z) : role :=
  match st with
  | SStr | SDq | SBt | SCom => RInside
  | SStrQ => if c =? c_quote then RCont else RPlain
  | SDqQ => if c =? c_dquote then RCont else RPlain
  | SBtQ => if c =? c_btick then RCont else RPlain
  | SDash => if c =? c_dash then RCont else RPlain
  | SCode => RPlain
  end.

(** every character with its role *)
Fixpoint tscan (st : sstate) (l : text) : list (Z * role) :=
  match l with [] => [] | c :: r => (c, role_of st c) :: tscan (step st c) r end.

(** number of real placeholders / of '?' inside protected regions *)
Fixpoint count_ph (st : sstate) (sql : text) : nat :=
  match sql with
  | [] => O
  | c :: r => if (c =? c_qm) && negb (protected st) then S (count_ph (step st c) r) else count_ph (step st c) r
  end.

Fixpoint count_protected_qm (st : sstate) (sql : text) : nat :=
  match sql with
  | [] => O
  | c :: r => if (c =? c_qm) && protected st then S (count_protected_qm (step st c) r)
              else count_protected_qm (step st c) r
  end.

(** the literal a correct binder writes for a Python value; [None] = the value is not a value of the
    engine or has no SQL literal (no conversion, lone surrogate, int outside the engine's 64-bit
    integers, infinity / NaN).  bool is bound as the int it is in Python. *)
Definition spec_literal (v : pyval) : option text :=
  match v with
  | PNone => Some kw_null
  | PInt z => if in_i64 z then Some (dec_Z z) else None
  | PBool b => Some (dec_Z (if b then 1 else 0))
  | PFloat b => if f64_finite b then Some (fmt_f64 b) else None
  | PStr s => if has_surrogate s then None else Some (quote s)
  | POther => None
  end.

(** substitution of the placeholders outside protected regions (classified on the TEMPLATE);
    result = bound text and unused parameters; [None] = too few parameters or an unbindable one *)
Fixpoint bind_spec_go (st : sstate) (sql : text) (ps : list pyval) : option (text * list pyval) :=
  match sql with
  | [] => Some ([], ps)
  | c :: rest =>
    if (c =? c_qm) && negb (protected st) then
      match ps with
      | [] => None
      | p :: ps' =>
        match spec_literal p with
        | None => None
        | Some l =>
          match bind_spec_go (step st c) rest ps' with
          | Some (t, r) => Some (l ++ t, r)
          | None => None
          end
        end
      end
    else
      match bind_spec_go (step st c) rest ps with
      | Some (t, r) => Some (c :: t, r)
      | None => None
      end
  end.

(** [None] = ProgrammingError (count mismatch or unbindable value) *)
Definition bind_spec (sql : text) (ps : list pyval) : option text :=
  match bind_spec_go SCode sql ps with
  | Some (t, []) => Some t
  | _ => None
  end.

Definition process_spec (sql : text) (params : option (list pyval)) : option text :=
  match params with
  | Some ps => bind_spec sql ps
  | None => Some sql
  end.

(** * Structure preservation (specification side) *)

(** a literal as a binder emits it: a quoted string or a plain word / number *)
Inductive slit : Type := LStr (s : text) | LPlain (t : text).
Definition lit_text (l : slit) : text := match l with LStr s => quote s | LPlain t => t end.

Definition is_quote_char (c : Z) : bool := (c =? c_quote) || (c =? c_dquote) || (c =? c_btick).
Definition plain_char (c : Z) : bool := negb (is_quote_char c) && negb (c =? c_dash) && (0 <=? c).

(** a non-empty word without quote characters whose only '-' is a leading sign followed by something *)
Definition plain_ok (t : text) : bool :=
  match t with
  | [] => false
  | c :: r =>
    if c =? c_dash then (match r with [] => false | _ => true end) && forallb plain_char r
    else plain_char c && forallb plain_char r
  end.

Definition lit_of_bval (v : bval) : slit :=
  match v with
  | BVarchar s | BCharacter s => LStr s
  | _ => LPlain (print_value v)
  end.

(** textual splice of literals at the unprotected placeholders (too few literals: the '?' stays) *)
Fixpoint splice (st : sstate) (sql : text) (ls : list slit) : text :=
  match sql with
  | [] => []
  | c :: rest =>
    if (c =? c_qm) && negb (protected st) then
      match ls with
      | l :: ls' => lit_text l ++ splice (step st c) rest ls'
      | [] => c :: splice (step st c) rest []
      end
    else c :: splice (step st c) rest ls
  end.

(** the same on the classified template: every literal is classified as it is on its own *)
Fixpoint splice_t (l : list (Z * role)) (ls : list slit) : list (Z * role) :=
  match l with
  | [] => []
  | (c, p) :: rest =>
    if (c =? c_qm) && (match p with RInside => false | _ => true end) then
      match ls with
      | x :: ls' => tscan SCode (lit_text x) ++ splice_t rest ls'
      | [] => (c, p) :: splice_t rest []
      end
    else (c, p) :: splice_t rest ls
  end.

(** may a literal be written when the scanner of the BOUND text is in state [st']? *)
Definition lit_start_ok (st' : sstate) (l : slit) : bool :=
  match l with
  | LStr _ => match st' with SStrQ => false | _ => true end
  | LPlain t =>
    plain_ok t &&
    match st', t with
    | SDash, c :: _ => negb (c =? c_dash)
    | _, _ => true
    end
  end.

(** lock-step walk: [st] scans the template, [st'] the bound text.  [false] as soon as a literal would
    merge with its left neighbour (a closing quote, a '-') or its right neighbour (a quote right after a
    bound string) *)
Fixpoint safe_go (st st' : sstate) (sql : text) (ls : list slit) : bool :=
  match sql with
  | [] => true
  | c :: rest =>
    if (c =? c_qm) && negb (protected st) then
      match ls with
      | l :: ls' => lit_start_ok st' l && safe_go (step st c) (run st' (lit_text l)) rest ls'
      | [] => safe_go (step st c) (step st' c) rest []
      end
    else
      negb (match st, st' with SCode, SStrQ => c =? c_quote | _, _ => false end)
      && safe_go (step st c) (step st' c) rest ls
  end.

Definition safe (sql : text) (ls : list slit) : bool := safe_go SCode SCode sql ls.

(** * Reading a literal back (specification of lexer + parse_literal + unary minus, for the
    literals a binder writes) *)
Inductive rval : Type :=
| RNull
| RInt (z : Z)           (* SqlValue::Integer -> Python int *)
| RFloat (bits : Z)      (* SqlValue::Numeric -> Python float *)
| RStr (s : text)
| RBool (b : bool)
| RIdent (t : text).     (* not a value: a column reference *)

(** content of a '...' literal that must end exactly at the end of the text *)
Fixpoint read_string_body (l : text) : option text :=
  match l with
  | [] => None                                     (* unterminated *)
  | c :: r =>
    if c =? c_quote then
      match r with
      | [] => Some []                              (* closing quote *)
      | c2 :: r2 =>
        if c2 =? c_quote then
          match read_string_body r2 with Some s => Some (c_quote :: s) | None => None end
        else None                                  (* text continues after the literal *)
      end
    else match read_string_body r with Some s => Some (c :: s) | None => None end
  end.

Definition digit_of (c : Z) : option Z := if (48 <=? c) && (c <=? 57) then Some (c - 48) else None.

(** digits before an optional '.', accumulated as (integer value of all digits, number of fraction digits) *)
Fixpoint read_digits (l : text) (acc : Z) : option (Z * text) :=
  match l with
  | [] => Some (acc, [])
  | c :: r =>
    match digit_of c with
    | Some d => read_digits r (acc * 10 + d)
    | None => Some (acc, l)
    end
  end.

Fixpoint all_digits (l : text) : bool :=
  match l with [] => true | c :: r => (match digit_of c with Some _ => true | None => false end) && all_digits r end.

(** [Token::Number]: [parse::<i64>] first, else [parse::<f64>] -> Numeric *)
Definition read_number (l : text) : option rval :=
  match l with
  | [] => None
  | _ =>
    match read_digits l 0 with
    | Some (ip, []) =>
      if ip <=? i64_max then Some (RInt ip) else Some (RFloat (f64_of_ratio ip 1))
    | Some (ip, c :: fr) =>
      if (c =? c_dot) && all_digits fr then
        match read_digits fr ip with
        | Some (n, _) => Some (RFloat (f64_of_ratio n (10 ^ Z.of_nat (length fr))))
        | None => None
        end
      else None
    | None => None
    end
  end.

Definition is_letter (c : Z) : bool := ((65 <=? c) && (c <=? 90)) || ((97 <=? c) && (c <=? 122)) || (c =? 95).

Definition read_word (l : text) : option rval :=
  if text_eqb l kw_null then Some RNull
  else if text_eqb l kw_true then Some (RBool true)
  else if text_eqb l kw_false then Some (RBool false)
  else match l with
       | c :: _ => if is_letter c && forallb (fun x => is_letter x || (match digit_of x with Some _ => true | None => false end)) l
                   then Some (RIdent l) else None
       | [] => None
       end.

Definition read_unsigned (l : text) : option rval :=
  match l with
  | [] => None
  | c :: r =>
    if c =? c_quote then match read_string_body r with Some s => Some (RStr s) | None => None end
    else match digit_of c with
         | Some _ => read_number l
         | None => read_word l
         end
  end.

(** a leading '-' is the unary minus operator applied to the value of the rest *)
Definition read_literal (l : text) : option rval :=
  match l with
  | c :: r =>
    if c =? c_dash then
      match read_unsigned r with
      | Some (RInt z) => Some (RInt (- z))
      | Some (RFloat b) => Some (RFloat (f64_negate b))
      | Some (RIdent t) => Some (RIdent t)
      | _ => None
      end
    else read_unsigned l
  | [] => None
  end.

(** what [SELECT ?] reads back for a Python value bound by the code *)
Definition read_back (v : pyval) : option rval :=
  match py_to_sqlvalue v with
  | Some b => read_literal (print_value b)
  | None => None
  end.
