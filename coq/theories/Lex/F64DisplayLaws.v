(** Laws of the [f64::to_string] model ([Lex/F64Display.v]): for every finite non-zero binary64 the
    Dragon4 digit generation terminates within its fuel and produces a non-empty list of decimal digits
    (each in 0..9).  The only fact about the scaling estimate that is needed - 2^s <= 10^(est s + 1) on the
    range of exponents a binary64 can produce - is a finite statement and is checked by computation. *)
From Coq Require Import List ZArith Bool Lia.
From VibeSQL Require Import Lex.F64Display.
Import ListNotations.
Open Scope Z_scope.

Definition digit_ok (d : Z) : Prop := 0 <= d <= 9.

(** * the digit loop *)
Lemma dragon_loop_digits : forall fuel mant minus plus scale incl acc racc rem down up,
  0 < scale -> 0 <= mant < 10 * scale -> Forall digit_ok acc ->
  dragon_loop fuel mant minus plus scale incl acc = Some (racc, rem, down, up) ->
  Forall digit_ok racc /\ racc <> [].
Proof.
  induction fuel as [|f IH]; intros mant minus plus scale incl acc racc rem down up Hs Hm Hacc H;
    cbn [dragon_loop] in H; [discriminate|].
  assert (Hd : digit_ok (mant / scale)).
  { split; [apply Z.div_pos; lia|]. assert (mant / scale < 10); [|lia].
    apply Z.div_lt_upper_bound; lia. }
  pose proof (Z.mod_pos_bound mant scale Hs) as Hr.
  destruct ((if incl then mant mod scale <=? minus else mant mod scale <? minus)
            || (if incl then scale <=? mant mod scale + plus else scale <? mant mod scale + plus)).
  - inversion H; subst. split; [constructor; assumption|discriminate].
  - eapply IH; [exact Hs| |constructor; [exact Hd|exact Hacc]|exact H]. lia.
Qed.

Lemma dragon_loop_terminates : forall fuel mant minus plus scale incl acc,
  0 < scale -> 0 <= mant -> 0 < plus -> (1 <= fuel)%nat -> scale < plus * 10 ^ (Z.of_nat fuel - 1) ->
  dragon_loop fuel mant minus plus scale incl acc <> None.
Proof.
  induction fuel as [|f IH]; intros mant minus plus scale incl acc Hs Hm Hp Hf Hb; [lia|].
  cbn [dragon_loop].
  pose proof (Z.mod_pos_bound mant scale Hs) as Hr.
  destruct (if incl then mant mod scale <=? minus else mant mod scale <? minus); cbn [orb]; [discriminate|].
  destruct (if incl then scale <=? mant mod scale + plus else scale <? mant mod scale + plus) eqn:Eup; [discriminate|].
  destruct f as [|f'].
  - (* last unit of fuel: plus exceeds scale, so [up] must have fired *)
    exfalso. cbn in Hb. rewrite Z.mul_1_r in Hb.
    destruct incl; [apply Z.leb_gt in Eup|apply Z.ltb_ge in Eup]; lia.
  - apply IH; try lia.
    replace (Z.of_nat (S (S f')) - 1) with (Z.succ (Z.of_nat (S f') - 1)) in Hb by lia.
    rewrite Z.pow_succ_r in Hb by lia. lia.
Qed.

Lemma round_up_digits : forall ds r c, Forall digit_ok ds -> round_up_rev ds = (r, c) -> Forall digit_ok r.
Proof.
  induction ds as [|d ds IH]; intros r c Hds H; cbn [round_up_rev] in H.
  - inversion H; subst. constructor.
  - inversion Hds as [|? ? Hd Hds']; subst. destruct (d =? 9) eqn:E.
    + destruct (round_up_rev ds) as [r' c'] eqn:Er. inversion H; subst.
      constructor; [unfold digit_ok; lia|]. eapply IH; [exact Hds'|reflexivity].
    + inversion H; subst. apply Z.eqb_neq in E. constructor; [unfold digit_ok in *; lia|exact Hds'].
Qed.

Lemma Forall_rev' : forall (A : Type) (P : A -> Prop) (l : list A), Forall P l -> Forall P (rev l).
Proof.
  intros A P l H. apply Forall_forall. intros x Hx. apply in_rev in Hx.
  rewrite Forall_forall in H. now apply H.
Qed.

(** * the scaling estimate on the exponent range of binary64 *)
Definition est (s : Z) : Z := Z.shiftr (s * 1292913986) 32.

(** 2^s <= 10^k, for integers s, k of either sign *)
Definition pow2_le_pow10 (s k : Z) : bool :=
  if 0 <=? s then
    (if 0 <=? k then 2 ^ s <=? 10 ^ k else 2 ^ s * 10 ^ (- k) <=? 1)
  else
    (if 0 <=? k then true else 10 ^ (- k) <=? 2 ^ (- s)).

Definition est_ok (s : Z) : bool :=
  (-400 <=? est s) && (est s <=? 400) && pow2_le_pow10 s (est s + 1).

Definition s_range : list Z := map (fun i => Z.of_nat i - 1100) (seq 0 2201).

Lemma est_ok_all : forallb est_ok s_range = true.
Proof. vm_compute. reflexivity. Qed.

Lemma est_ok_range : forall s, -1100 <= s <= 1100 -> est_ok s = true.
Proof.
  intros s Hs. pose proof est_ok_all as H. rewrite forallb_forall in H. apply H.
  unfold s_range. apply in_map_iff. exists (Z.to_nat (s + 1100)). split; [cbn beta; lia|].
  apply in_seq. lia.
Qed.

(** * decoding *)
Definition d_mant (d : decoded) : Z := match d with DFinite m _ _ _ _ => m | _ => 0 end.
Definition d_minus (d : decoded) : Z := match d with DFinite _ m _ _ _ => m | _ => 0 end.
Definition d_plus (d : decoded) : Z := match d with DFinite _ _ m _ _ => m | _ => 0 end.
Definition d_exp (d : decoded) : Z := match d with DFinite _ _ _ m _ => m | _ => 0 end.

Ltac dfinite_eqs H :=
  let Hm := fresh "Hm" in let Hmi := fresh "Hmi" in let Hpl := fresh "Hpl" in let He := fresh "Hex" in
  pose proof (f_equal d_mant H) as Hm; pose proof (f_equal d_minus H) as Hmi;
  pose proof (f_equal d_plus H) as Hpl; pose proof (f_equal d_exp H) as He;
  cbn [d_mant d_minus d_plus d_exp] in Hm, Hmi, Hpl, He.

Lemma decode_bounds : forall b m mi pl e incl, 0 <= b < two64 ->
  f64_decode b = DFinite m mi pl e incl ->
  2 <= m /\ m + pl <= 2 ^ 55 /\ 0 < mi /\ 0 < pl /\ -1077 <= e <= 970.
Proof.
  intros b m mi pl e incl Hb H. unfold f64_decode, f64_expf, f64_frac in H.
  assert (He : 0 <= (b / two52) mod 2048 < 2048) by (apply Z.mod_pos_bound; lia).
  assert (Hf : 0 <= b mod two52 < two52) by (apply Z.mod_pos_bound; reflexivity).
  unfold two52 in *.
  destruct ((b / 4503599627370496) mod 2048 =? 2047) eqn:E1.
  { destruct (b mod 4503599627370496 =? 0); discriminate. }
  apply Z.eqb_neq in E1.
  destruct ((b / 4503599627370496) mod 2048 =? 0) eqn:E0.
  - destruct (b mod 4503599627370496 =? 0) eqn:Ef; [discriminate|]. apply Z.eqb_neq in Ef.
    dfinite_eqs H. change (2 ^ 55) with 36028797018963968. lia.
  - apply Z.eqb_neq in E0.
    destruct (b mod 4503599627370496 + 4503599627370496 =? 4503599627370496);
      dfinite_eqs H; change (2 ^ 55) with 36028797018963968; lia.
Qed.

Lemma bitlen_spec : forall x, 2 <= x -> 1 <= bitlen (x - 1) /\ x <= 2 ^ bitlen (x - 1).
Proof.
  intros x Hx. unfold bitlen. destruct (x - 1 <=? 0) eqn:E; [apply Z.leb_le in E; lia|].
  pose proof (Z.log2_nonneg (x - 1)) as Hn.
  pose proof (Z.log2_spec (x - 1) ltac:(lia)) as [_ Hhi].
  split; [lia|]. replace (Z.log2 (x - 1) + 1) with (Z.succ (Z.log2 (x - 1))) by lia. lia.
Qed.

Lemma bitlen_upper : forall x n, 0 <= n -> 2 <= x <= 2 ^ n -> bitlen (x - 1) <= n.
Proof.
  intros x n Hn Hx. unfold bitlen. destruct (x - 1 <=? 0) eqn:E; [lia|].
  assert (Z.log2 (x - 1) < n); [|lia]. apply Z.log2_lt_pow2; lia.
Qed.

(** * the first digit: after the fix-up the scaled mantissa is below ten times the scale *)

(** [x * 2^exp <= 10^(k+1)] in the four sign combinations in which the algorithm scales its integers *)
Lemma estimate_upper : forall x exp nbits,
  2 <= x -> x <= 2 ^ nbits -> 1 <= nbits -> -1100 <= nbits + exp <= 1100 ->
  let k0 := est (nbits + exp) in
  -400 <= k0 <= 400 /\
  (exp < 0 -> k0 < 0 -> x * 10 ^ (- k0) <= 10 * 2 ^ (- exp)) /\
  (exp < 0 -> 0 <= k0 -> x <= 10 * (2 ^ (- exp) * 10 ^ k0)) /\
  (0 <= exp -> k0 < 0 -> x * 2 ^ exp * 10 ^ (- k0) <= 10) /\
  (0 <= exp -> 0 <= k0 -> x * 2 ^ exp <= 10 * 10 ^ k0).
Proof.
  intros x exp nbits Hx Hxn Hnb Hs k0.
  pose proof (est_ok_range (nbits + exp) Hs) as Hok. unfold est_ok in Hok. fold k0 in Hok.
  apply andb_true_iff in Hok. destruct Hok as [Hok Hp]. apply andb_true_iff in Hok. destruct Hok as [Hlo Hhi].
  apply Z.leb_le in Hlo. apply Z.leb_le in Hhi. split; [lia|].
  set (s := nbits + exp) in *.
  unfold pow2_le_pow10 in Hp.
  assert (H10 : forall n, 0 <= n -> 0 < 10 ^ n) by (intros; apply Z.pow_pos_nonneg; lia).
  assert (H2 : forall n, 0 <= n -> 0 < 2 ^ n) by (intros; apply Z.pow_pos_nonneg; lia).
  repeat split.
  - (* exp < 0, k0 < 0 *)
    intros He Hk.
    destruct (0 <=? s) eqn:Es; [apply Z.leb_le in Es|apply Z.leb_gt in Es].
    + destruct (0 <=? k0 + 1) eqn:Ek; [apply Z.leb_le in Ek|apply Z.leb_gt in Ek]; apply Z.leb_le in Hp.
      * (* k0 = -1 *) assert (k0 = -1) by lia. replace (- k0) with 1 by lia. replace (k0 + 1) with 0 in Hp by lia.
        rewrite Z.pow_0_r in Hp. assert (2 ^ s = 1) by (pose proof (H2 s Es); lia).
        assert (Hn : 2 ^ nbits = 2 ^ s * 2 ^ (- exp)) by (rewrite <- Z.pow_add_r by lia; f_equal; unfold s; lia).
        rewrite Z.pow_1_r. nia.
      * assert (Hn : 2 ^ nbits = 2 ^ s * 2 ^ (- exp)) by (rewrite <- Z.pow_add_r by lia; f_equal; unfold s; lia).
        assert (Hk' : 10 ^ (- k0) = 10 * 10 ^ (- (k0 + 1))).
        { replace (- k0) with (Z.succ (- (k0 + 1))) by lia. rewrite Z.pow_succ_r by lia. reflexivity. }
        pose proof (H10 (- (k0 + 1)) ltac:(lia)). pose proof (H2 (- exp) ltac:(lia)). pose proof (H2 s Es).
        rewrite Hk'. nia.
    + destruct (0 <=? k0 + 1) eqn:Ek; [apply Z.leb_le in Ek|apply Z.leb_gt in Ek].
      * assert (k0 = -1) by lia. replace (- k0) with 1 by lia. rewrite Z.pow_1_r.
        assert (2 ^ nbits <= 2 ^ (- exp)) by (apply Z.pow_le_mono_r; unfold s in Es; lia). lia.
      * apply Z.leb_le in Hp.
        assert (Hn : 2 ^ (- exp) = 2 ^ nbits * 2 ^ (- s)) by (rewrite <- Z.pow_add_r by lia; f_equal; unfold s; lia).
        assert (Hk' : 10 ^ (- k0) = 10 * 10 ^ (- (k0 + 1))).
        { replace (- k0) with (Z.succ (- (k0 + 1))) by lia. rewrite Z.pow_succ_r by lia. reflexivity. }
        pose proof (H10 (- (k0 + 1)) ltac:(lia)). pose proof (H2 nbits ltac:(lia)).
        rewrite Hk', Hn. nia.
  - (* exp < 0, 0 <= k0 *)
    intros He Hk. assert (Ek : (0 <=? k0 + 1) = true) by (apply Z.leb_le; lia). rewrite Ek in Hp.
    assert (Hk' : 10 * 10 ^ k0 = 10 ^ (k0 + 1)) by (replace (k0 + 1) with (Z.succ k0) by lia; rewrite Z.pow_succ_r by lia; reflexivity).
    pose proof (H2 (- exp) ltac:(lia)). pose proof (H10 k0 Hk).
    destruct (0 <=? s) eqn:Es; [apply Z.leb_le in Es; apply Z.leb_le in Hp|apply Z.leb_gt in Es].
    + assert (Hn : 2 ^ nbits = 2 ^ s * 2 ^ (- exp)) by (rewrite <- Z.pow_add_r by lia; f_equal; unfold s; lia). nia.
    + assert (2 ^ nbits <= 2 ^ (- exp)) by (apply Z.pow_le_mono_r; unfold s in Es; lia). nia.
  - (* 0 <= exp, k0 < 0 *)
    intros He Hk. assert (Es : (0 <=? s) = true) by (apply Z.leb_le; unfold s; lia). rewrite Es in Hp.
    assert (Hn : 2 ^ s = 2 ^ nbits * 2 ^ exp) by (unfold s; rewrite Z.pow_add_r by lia; reflexivity).
    pose proof (H2 exp He).
    destruct (0 <=? k0 + 1) eqn:Ek; [apply Z.leb_le in Ek|apply Z.leb_gt in Ek]; apply Z.leb_le in Hp.
    + assert (k0 = -1) by lia. replace (- k0) with 1 by lia. replace (k0 + 1) with 0 in Hp by lia.
      rewrite Z.pow_0_r in Hp. rewrite Z.pow_1_r. nia.
    + assert (Hk' : 10 ^ (- k0) = 10 * 10 ^ (- (k0 + 1))).
      { replace (- k0) with (Z.succ (- (k0 + 1))) by lia. rewrite Z.pow_succ_r by lia. reflexivity. }
      pose proof (H10 (- (k0 + 1)) ltac:(lia)). rewrite Hk'. nia.
  - (* 0 <= exp, 0 <= k0 *)
    intros He Hk. assert (Es : (0 <=? s) = true) by (apply Z.leb_le; unfold s; lia). rewrite Es in Hp.
    assert (Ek : (0 <=? k0 + 1) = true) by (apply Z.leb_le; lia). rewrite Ek in Hp. apply Z.leb_le in Hp.
    assert (Hn : 2 ^ s = 2 ^ nbits * 2 ^ exp) by (unfold s; rewrite Z.pow_add_r by lia; reflexivity).
    assert (Hk' : 10 * 10 ^ k0 = 10 ^ (k0 + 1)) by (replace (k0 + 1) with (Z.succ k0) by lia; rewrite Z.pow_succ_r by lia; reflexivity).
    pose proof (H2 exp He). nia.
Qed.

(** * the lower side of the scaling estimate: 10^(est s - 1) <= 2^(s - 1) *)
Definition pow10_le_pow2 (k s : Z) : bool :=
  if 0 <=? k then
    (if 0 <=? s then 10 ^ k <=? 2 ^ s else 10 ^ k * 2 ^ (- s) <=? 1)
  else
    (if 0 <=? s then true else 2 ^ (- s) <=? 10 ^ (- k)).

Definition est_ok2 (s : Z) : bool := pow10_le_pow2 (est s - 1) (s - 1).

Lemma est_ok2_all : forallb est_ok2 s_range = true.
Proof. vm_compute. reflexivity. Qed.

Lemma est_ok2_range : forall s, -1100 <= s <= 1100 -> est_ok2 s = true.
Proof.
  intros s Hs. pose proof est_ok2_all as H. rewrite forallb_forall in H. apply H.
  unfold s_range. apply in_map_iff. exists (Z.to_nat (s + 1100)). split; [cbn beta; lia|].
  apply in_seq. lia.
Qed.

Lemma bitlen_lower : forall x, 2 <= x -> 2 ^ (bitlen (x - 1) - 1) < x.
Proof.
  intros x Hx. unfold bitlen. destruct (x - 1 <=? 0) eqn:E; [apply Z.leb_le in E; lia|].
  pose proof (Z.log2_spec (x - 1) ltac:(lia)) as [Hlo _].
  replace (Z.log2 (x - 1) + 1 - 1) with (Z.log2 (x - 1)) by lia. lia.
Qed.

(** [10^(k0-1) <= x * 2^exp] in the sign combinations in which it is needed: without the bump of the
    exponent, ten times the scaled upper bound is at least the scale *)
Lemma estimate_lower : forall x exp nbits,
  2 <= x -> 2 ^ (nbits - 1) < x -> 1 <= nbits -> -1100 <= nbits + exp <= 1100 ->
  let k0 := est (nbits + exp) in
  (exp < 0 -> k0 < 0 -> 2 ^ (- exp) <= x * 10 ^ (- k0) * 10) /\
  (exp < 0 -> 0 <= k0 -> 2 ^ (- exp) * 10 ^ k0 <= x * 10) /\
  (0 <= exp -> 0 <= k0 -> 10 ^ k0 <= x * 2 ^ exp * 10).
Proof.
  intros x exp nbits Hx Hxn Hnb Hs k0.
  pose proof (est_ok2_range (nbits + exp) Hs) as Hok. unfold est_ok2 in Hok. fold k0 in Hok.
  set (s := nbits + exp) in *. unfold pow10_le_pow2 in Hok.
  assert (H10 : forall n, 0 <= n -> 0 < 10 ^ n) by (intros; apply Z.pow_pos_nonneg; lia).
  assert (H2 : forall n, 0 <= n -> 0 < 2 ^ n) by (intros; apply Z.pow_pos_nonneg; lia).
  repeat split.
  - (* exp < 0, k0 < 0 *)
    intros He Hk. assert (Ek : (0 <=? k0 - 1) = false) by (apply Z.leb_gt; lia). rewrite Ek in Hok.
    assert (Hk' : 10 ^ (- (k0 - 1)) = 10 ^ (- k0) * 10).
    { replace (- (k0 - 1)) with (Z.succ (- k0)) by lia. rewrite Z.pow_succ_r by lia. ring. }
    pose proof (H10 (- k0) ltac:(lia)) as Ht.
    destruct (0 <=? s - 1) eqn:Es; [apply Z.leb_le in Es|apply Z.leb_gt in Es].
    + (* 2^(s-1) >= 1: 2^-exp <= 2^(nbits-1) < x *)
      assert (2 ^ (- exp) <= 2 ^ (nbits - 1)) by (apply Z.pow_le_mono_r; unfold s in Es; lia). nia.
    + apply Z.leb_le in Hok. rewrite Hk' in Hok.
      assert (Hn : 2 ^ (- exp) = 2 ^ (nbits - 1) * 2 ^ (- (s - 1))) by (rewrite <- Z.pow_add_r by lia; f_equal; unfold s; lia).
      pose proof (H2 (nbits - 1) ltac:(lia)). pose proof (H2 (- (s - 1)) ltac:(lia)). rewrite Hn. nia.
  - (* exp < 0, 0 <= k0 *)
    intros He Hk. pose proof (H2 (- exp) ltac:(lia)) as Hs2.
    destruct (Z.eq_dec k0 0) as [Hk0|Hk0].
    + subst k0. rewrite Hk0, Z.pow_0_r, Z.mul_1_r.
      (* est s = 0 gives s - 1 >= -1 ... use the check with k0 - 1 = -1 *)
      rewrite Hk0 in Hok. change (0 <=? 0 - 1) with false in Hok. cbv iota in Hok.
      destruct (0 <=? s - 1) eqn:Es; [apply Z.leb_le in Es|apply Z.leb_gt in Es].
      * assert (2 ^ (- exp) <= 2 ^ (nbits - 1)) by (apply Z.pow_le_mono_r; unfold s in Es; lia). nia.
      * apply Z.leb_le in Hok. change (- (0 - 1)) with 1 in Hok. rewrite Z.pow_1_r in Hok.
        assert (Hn : 2 ^ (- exp) = 2 ^ (nbits - 1) * 2 ^ (- (s - 1))) by (rewrite <- Z.pow_add_r by lia; f_equal; unfold s; lia).
        pose proof (H2 (nbits - 1) ltac:(lia)). rewrite Hn. nia.
    + assert (Ek : (0 <=? k0 - 1) = true) by (apply Z.leb_le; lia). rewrite Ek in Hok.
      assert (Hk' : 10 ^ k0 = 10 ^ (k0 - 1) * 10).
      { replace k0 with (Z.succ (k0 - 1)) at 1 by lia. rewrite Z.pow_succ_r by lia. ring. }
      pose proof (H10 (k0 - 1) ltac:(lia)) as Ht.
      destruct (0 <=? s - 1) eqn:Es; [apply Z.leb_le in Es|apply Z.leb_gt in Es]; apply Z.leb_le in Hok.
      * assert (Hn : 2 ^ (nbits - 1) = 2 ^ (s - 1) * 2 ^ (- exp)) by (rewrite <- Z.pow_add_r by lia; f_equal; unfold s; lia).
        rewrite Hk'. nia.
      * (* 10^(k0-1) * 2^-(s-1) <= 1 forces both factors to be 1 *)
        assert (Hn : 2 ^ (- exp) = 2 ^ (nbits - 1) * 2 ^ (- (s - 1))) by (rewrite <- Z.pow_add_r by lia; f_equal; unfold s; lia).
        pose proof (H2 (nbits - 1) ltac:(lia)). pose proof (H2 (- (s - 1)) ltac:(lia)). rewrite Hk', Hn. nia.
  - (* 0 <= exp, 0 <= k0 *)
    intros He Hk. pose proof (H2 exp He) as Hs2.
    destruct (Z.eq_dec k0 0) as [Hk0|Hk0].
    + rewrite Hk0, Z.pow_0_r. nia.
    + assert (Ek : (0 <=? k0 - 1) = true) by (apply Z.leb_le; lia). rewrite Ek in Hok.
      assert (Es : (0 <=? s - 1) = true) by (apply Z.leb_le; unfold s; lia). rewrite Es in Hok. apply Z.leb_le in Hok.
      assert (Hk' : 10 ^ k0 = 10 ^ (k0 - 1) * 10).
      { replace k0 with (Z.succ (k0 - 1)) at 1 by lia. rewrite Z.pow_succ_r by lia. ring. }
      assert (Hn : 2 ^ (s - 1) = 2 ^ (nbits - 1) * 2 ^ exp) by (rewrite <- Z.pow_add_r by lia; f_equal; unfold s; lia).
      pose proof (H2 (nbits - 1) ltac:(lia)). rewrite Hk'. nia.
Qed.

(** * the whole of [dragon_shortest] *)

(** the fuel of the digit loop (1100) covers every scale a binary64 can produce: [plus] is multiplied by
    ten in every round and the loop stops as soon as it exceeds the scale *)
Definition fuel_bound : Z := 10 ^ 1099.

Lemma fuel_bound_pos : 1 < fuel_bound.
Proof. apply Z.ltb_lt. vm_compute. reflexivity. Qed.

Lemma scale_bound : 2 ^ 1077 * 10 ^ 400 < fuel_bound.
Proof. apply Z.ltb_lt. vm_compute. reflexivity. Qed.

Lemma fuel_bound_eq : 10 ^ (Z.of_nat dragon_fuel - 1) = fuel_bound.
Proof. reflexivity. Qed.

Lemma prod_lt_bound : forall a b, 0 <= a <= 1077 -> 0 <= b <= 400 -> 2 ^ a * 10 ^ b < fuel_bound.
Proof.
  intros a b Ha Hb. eapply Z.le_lt_trans; [|exact scale_bound].
  apply Z.mul_le_mono_nonneg.
  - apply Z.pow_nonneg. lia.
  - apply Z.pow_le_mono_r; lia.
  - apply Z.pow_nonneg. lia.
  - apply Z.pow_le_mono_r; lia.
Qed.

Lemma pow2_lt_bound : forall a, 0 <= a <= 1077 -> 2 ^ a < fuel_bound.
Proof. intros a Ha. pose proof (prod_lt_bound a 0 Ha ltac:(lia)) as H. rewrite Z.pow_0_r, Z.mul_1_r in H. exact H. Qed.

Lemma pow10_lt_bound : forall b, 0 <= b <= 400 -> 10 ^ b < fuel_bound.
Proof. intros b Hb. pose proof (prod_lt_bound 0 b ltac:(lia) Hb) as H. rewrite Z.pow_0_r, Z.mul_1_l in H. exact H. Qed.

Global Opaque fuel_bound.

Lemma finish_ok : forall mant minus plus scale incl k,
  0 < scale -> 0 <= mant < 10 * scale -> 0 < plus -> scale < fuel_bound ->
  exists ds k',
    match dragon_loop dragon_fuel mant minus plus scale incl [] with
    | None => None
    | Some (racc, rem, down, up) =>
      if up && (negb down || (scale <=? 2 * rem)) then
        let (r', carry) := round_up_rev racc in
        if carry then Some (1 :: rev r', k + 1) else Some (rev r', k)
      else Some (rev racc, k)
    end = Some (ds, k') /\ Forall digit_ok ds /\ ds <> [].
Proof.
  intros mant minus plus scale incl k Hs Hm Hp Hb.
  assert (Hterm : dragon_loop dragon_fuel mant minus plus scale incl [] <> None).
  { apply dragon_loop_terminates; try lia; [unfold dragon_fuel; lia|].
    rewrite fuel_bound_eq. pose proof fuel_bound_pos as Hfb.
    assert (1 * fuel_bound <= plus * fuel_bound) by (apply Z.mul_le_mono_nonneg_r; lia). lia. }
  destruct (dragon_loop dragon_fuel mant minus plus scale incl []) as [[[[racc rem] down] up]|] eqn:El; [|contradiction].
  destruct (dragon_loop_digits _ _ _ _ _ _ _ _ _ _ _ Hs Hm (Forall_nil _) El) as [Hd Hne].
  assert (Hrev : rev racc <> []).
  { intros E. apply Hne. rewrite <- (rev_involutive racc), E. reflexivity. }
  destruct (up && (negb down || (scale <=? 2 * rem))).
  - destruct (round_up_rev racc) as [r' carry] eqn:Er.
    pose proof (round_up_digits racc r' carry Hd Er) as Hr'.
    destruct carry.
    + eexists _, _. split; [reflexivity|]. split; [|discriminate].
      constructor; [unfold digit_ok; lia|]. now apply Forall_rev'.
    + eexists _, _. split; [reflexivity|]. split; [now apply Forall_rev'|].
      assert (Hlen : r' <> []).
      { destruct racc as [|d0 t]; [contradiction|]. cbn [round_up_rev] in Er.
        destruct (d0 =? 9); [destruct (round_up_rev t); inversion Er; discriminate|inversion Er; discriminate]. }
      intros E. apply Hlen. rewrite <- (rev_involutive r'), E. reflexivity.
  - eexists _, _. split; [reflexivity|]. split; [now apply Forall_rev'|exact Hrev].
Qed.

(** the state at the entry of the digit loop, in the abstract: from "mant + plus <= 10 * scale" when the
    exponent was bumped, from the failed bump test otherwise *)
Lemma entry_bumped : forall mant plus scale, 0 <= mant -> 0 < plus -> mant + plus <= 10 * scale ->
  0 <= mant < 10 * scale.
Proof. intros. lia. Qed.

Lemma entry_not_bumped : forall (incl : bool) mant plus scale, 0 <= mant -> 0 < plus ->
  (if incl then scale <=? mant + plus else scale <? mant + plus) = false ->
  0 <= mant * 10 < 10 * scale /\ 0 < plus * 10.
Proof.
  intros incl mant plus scale Hm Hp H.
  destruct incl; [apply Z.leb_gt in H|apply Z.ltb_ge in H]; lia.
Qed.

Theorem dragon_shortest_digits : forall m mi pl e incl,
  2 <= m -> m + pl <= 2 ^ 55 -> 0 < mi -> 0 < pl -> -1077 <= e <= 970 ->
  exists ds k, dragon_shortest m mi pl e incl = Some (ds, k) /\ Forall digit_ok ds /\ ds <> [].
Proof.
  intros m mi pl e incl Hm Hx Hmi Hpl He.
  destruct (bitlen_spec (m + pl) ltac:(lia)) as [Hnb1 Hxn].
  pose proof (bitlen_upper (m + pl) 55 ltac:(lia) ltac:(lia)) as Hnb2.
  destruct (estimate_upper (m + pl) e (bitlen (m + pl - 1)) ltac:(lia) Hxn Hnb1 ltac:(lia))
    as [Hk [F1 [F2 [F3 F4]]]].
  unfold dragon_shortest. unfold estimate_scaling_factor. fold (est (bitlen (m + pl - 1) + e)).
  set (k0 := est (bitlen (m + pl - 1) + e)) in *.
  clearbody k0. clear Hxn Hnb1 Hnb2 Hx.
  assert (H10 : forall n, 0 <= n -> 0 < 10 ^ n) by (intros; apply Z.pow_pos_nonneg; lia).
  assert (H2 : forall n, 0 <= n -> 0 < 2 ^ n) by (intros; apply Z.pow_pos_nonneg; lia).
  destruct (e <? 0) eqn:Ee; [apply Z.ltb_lt in Ee|apply Z.ltb_ge in Ee];
    destruct (k0 <? 0) eqn:Ek; [apply Z.ltb_lt in Ek|apply Z.ltb_ge in Ek|apply Z.ltb_lt in Ek|apply Z.ltb_ge in Ek];
    cbv beta iota.
  - (* e < 0, k0 < 0 : scale = 2^-e, the integers are multiplied by 10^-k0 *)
    specialize (F1 Ee Ek). clear F2 F3 F4.
    pose proof (H2 (- e) ltac:(lia)) as Hs. pose proof (H10 (- k0) ltac:(lia)) as Ht.
    pose proof (pow2_lt_bound (- e) ltac:(lia)) as Hsb.
    replace ((m + pl) * 10 ^ (- k0)) with (m * 10 ^ (- k0) + pl * 10 ^ (- k0)) in F1 by ring.
    assert (HM : 0 < m * 10 ^ (- k0)) by (apply Z.mul_pos_pos; lia).
    assert (HP : 0 < pl * 10 ^ (- k0)) by (apply Z.mul_pos_pos; lia).
    remember (2 ^ (- e)) as S eqn:ES. remember (m * 10 ^ (- k0)) as M eqn:EM.
    remember (pl * 10 ^ (- k0)) as P eqn:EP. remember (mi * 10 ^ (- k0)) as MI eqn:EMI.
    clear ES EM EP EMI H10 H2 Ht.
    destruct (if incl then S <=? M + P else S <? M + P) eqn:Eb; cbv beta iota.
    + apply finish_ok; lia.
    + destruct (entry_not_bumped incl M P S ltac:(lia) HP Eb) as [Hm1 Hp1]. apply finish_ok; lia.
  - (* e < 0, 0 <= k0 : scale = 2^-e * 10^k0 *)
    specialize (F2 Ee Ek). clear F1 F3 F4.
    pose proof (H2 (- e) ltac:(lia)) as Hs. pose proof (H10 k0 ltac:(lia)) as Ht.
    pose proof (prod_lt_bound (- e) k0 ltac:(lia) ltac:(lia)) as Hsb.
    assert (HS : 0 < 2 ^ (- e) * 10 ^ k0) by (apply Z.mul_pos_pos; lia).
    remember (2 ^ (- e) * 10 ^ k0) as S eqn:ES. clear ES H10 H2 Ht Hs.
    destruct (if incl then S <=? m + pl else S <? m + pl) eqn:Eb; cbv beta iota.
    + apply finish_ok; lia.
    + destruct (entry_not_bumped incl m pl S ltac:(lia) Hpl Eb) as [Hm1 Hp1]. apply finish_ok; lia.
  - (* 0 <= e, k0 < 0 : scale = 1 *)
    specialize (F3 Ee Ek). clear F1 F2 F4.
    pose proof (H2 e ltac:(lia)) as Hs. pose proof (H10 (- k0) ltac:(lia)) as Ht.
    replace ((m + pl) * 2 ^ e * 10 ^ (- k0)) with (m * 2 ^ e * 10 ^ (- k0) + pl * 2 ^ e * 10 ^ (- k0)) in F3 by ring.
    assert (HM : 0 < m * 2 ^ e * 10 ^ (- k0)) by (apply Z.mul_pos_pos; [apply Z.mul_pos_pos|]; lia).
    assert (HP : 0 < pl * 2 ^ e * 10 ^ (- k0)) by (apply Z.mul_pos_pos; [apply Z.mul_pos_pos|]; lia).
    pose proof fuel_bound_pos as Hfb.
    remember (m * 2 ^ e * 10 ^ (- k0)) as M eqn:EM. remember (pl * 2 ^ e * 10 ^ (- k0)) as P eqn:EP.
    remember (mi * 2 ^ e * 10 ^ (- k0)) as MI eqn:EMI. clear EM EP EMI H10 H2 Ht Hs.
    destruct (if incl then 1 <=? M + P else 1 <? M + P) eqn:Eb; cbv beta iota.
    + apply finish_ok; lia.
    + destruct (entry_not_bumped incl M P 1 ltac:(lia) HP Eb) as [Hm1 Hp1]. apply finish_ok; lia.
  - (* 0 <= e, 0 <= k0 : scale = 10^k0 *)
    specialize (F4 Ee Ek). clear F1 F2 F3.
    pose proof (H2 e ltac:(lia)) as Hs. pose proof (H10 k0 ltac:(lia)) as Ht.
    pose proof (pow10_lt_bound k0 ltac:(lia)) as Hsb.
    replace ((m + pl) * 2 ^ e) with (m * 2 ^ e + pl * 2 ^ e) in F4 by ring.
    assert (HM : 0 < m * 2 ^ e) by (apply Z.mul_pos_pos; lia).
    assert (HP : 0 < pl * 2 ^ e) by (apply Z.mul_pos_pos; lia).
    rewrite Z.mul_1_l.
    remember (10 ^ k0) as S eqn:ES. remember (m * 2 ^ e) as M eqn:EM. remember (pl * 2 ^ e) as P eqn:EP.
    remember (mi * 2 ^ e) as MI eqn:EMI. clear ES EM EP EMI H10 H2 Hs.
    destruct (if incl then S <=? M + P else S <? M + P) eqn:Eb; cbv beta iota.
    + apply finish_ok; lia.
    + destruct (entry_not_bumped incl M P S ltac:(lia) HP Eb) as [Hm1 Hp1]. apply finish_ok; lia.
Qed.

(** for every finite non-zero binary64 the digit generation succeeds with decimal digits *)
Theorem fmt_digits_ok : forall b m mi pl e incl, 0 <= b < two64 ->
  f64_decode b = DFinite m mi pl e incl ->
  exists ds k, dragon_shortest m mi pl e incl = Some (ds, k) /\ Forall digit_ok ds /\ ds <> [].
Proof.
  intros b m mi pl e incl Hb Hd. destruct (decode_bounds b m mi pl e incl Hb Hd) as [H1 [H2 [H3 [H4 H5]]]].
  now apply dragon_shortest_digits.
Qed.

Example fmt_digits_ok_ex : dragon_shortest (2 * 6755399441055744) 1 1 (-53) true = Some ([1; 5], 1).
Proof. vm_compute. reflexivity. Qed.
