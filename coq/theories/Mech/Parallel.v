(** Parallel operators (C04): rayon splits an input into chunks whose boundaries depend on the
    schedule (work stealing), processes the chunks independently and recombines the partial results in
    input order.  The models below are parameterised by an ARBITRARY chunking — a list of chunks whose
    concatenation is the input — which is how "every schedule" is quantified over:
    par_iter().filter / filter_map / map .collect()  (select/filter.rs, scan/predicates.rs,
    index_scan/execution.rs, parallel.rs), par_sort_by (select/order.rs: a parallel stable merge sort),
    par_chunks hash-table build with ordered merge (join/hash_join/build.rs, hash_semi_join.rs,
    hash_anti_join.rs), and merge of partial aggregate accumulators (grouping/aggregates.rs combine).
    Executable definitions only. *)
From Coq Require Import List ZArith Bool.
From VibeSQL Require Import Base.LexOrd Sem.Syntax Sem.Rel Mech.Join Mech.Accumulator.
Import ListNotations.
Open Scope Z_scope.

Definition par_filter {A} (p : A -> bool) (chunks : list (list A)) : list A :=
  concat (map (filter p) chunks).

Definition par_map {A B} (f : A -> B) (chunks : list (list A)) : list B :=
  concat (map (map f) chunks).

Definition par_filter_map {A B} (f : A -> option B) (chunks : list (list A)) : list B :=
  concat (map (fun c => flat_map (fun x => match f x with Some y => [y] | None => [] end) c) chunks).

(** stable (left-biased) merge of two sorted runs *)
Fixpoint merge (le : row -> row -> bool) (a : list row) : list row -> list row :=
  fix inner (b : list row) : list row :=
    match a, b with
    | [], _ => b
    | _, [] => a
    | x :: a', y :: b' => if le x y then x :: merge le a' b else y :: inner b'
    end.

(** par_sort_by: sort every chunk, merge the runs left to right *)
Definition par_sort (le : row -> row -> bool) (chunks : list (list row)) : list row :=
  fold_left (fun acc c => merge le acc (sort_rows le c)) chunks [].

(** partitioned hash-table build: one table per chunk; a probe concatenates the buckets in chunk order *)
Definition par_ht_lookup (kr : row -> value) (k : value) (chunks : list (list row)) : list row :=
  concat (map (fun c => ht_lookup k (ht_build kr c)) chunks).

(** partial aggregation: one accumulator per chunk, merged left to right *)
Definition par_acc (f : accfn) (chunks : list (list value)) : option acc :=
  fold_left (fun a c => match a with
                        | Some a' => acc_combine a' (fold_left acc_step c (acc_new f false))
                        | None => None
                        end) chunks (Some (acc_new f false)).
