(** C24 — executable model of the arithmetic of statement execution, with Rust's failure modes explicit.

    Transcribed (function by function, branch by branch) from
      crates/vibesql-executor/src/evaluator/operators/arithmetic/{mod,addition,subtraction,
          multiplication,division,modulo}.rs        (coerce_numeric_values, approximate_result, Addition::add, ...)
      crates/vibesql-executor/src/evaluator/operators/mod.rs     (OperatorRegistry::eval_binary_op)
      crates/vibesql-executor/src/evaluator/casting.rs           (to_i64, to_f64, boolean_to_i64)
      crates/vibesql-executor/src/evaluator/expressions/operators.rs (eval_unary_op)
      crates/vibesql-executor/src/evaluator/functions/numeric/basic.rs (abs, mod_fn)
      crates/vibesql-executor/src/evaluator/functions/string/substring.rs (substring)
      crates/vibesql-executor/src/select/grouping/aggregates.rs  (AggregateAccumulator SUM/AVG)
      crates/vibesql-executor/src/simd/aggregation.rs            (simd_sum_i64, simd_sum_f64)
      crates/vibesql-executor/src/select/columnar/{simd_aggregate,aggregate}.rs
      crates/vibesql-storage/src/database/indexes/{range_scan,range_bounds,value_normalization}.rs
      crates/vibesql-types/src/sql_mode/types.rs                 (division_result_type)

    Rust semantics made explicit:
    - an UNCHECKED [a + b] on a machine integer is [Panic POverflow] under profile [Debug] (overflow
      checks on) and the two's-complement wrapped value under profile [Release]; after the C24 fix
      commits the operators use [checked_*] (an out-of-range result is an error in every build) and
      the only unchecked additions left are the row counters of the aggregates and the dead
      [i + 1] of calculate_next_value;
    - [as] casts: [f64 as i64] truncates and saturates (NaN to 0), [f64 as f32] rounds to nearest even;
      [u64 -> i64] is [i64::try_from] (an error above i64::MAX);
    - [unreachable!()] is [Panic PUnreachable];
    - slicing a [str] at a byte index inside a character is [Panic PCharBoundary];
    - [BTreeMap::range] panics when its precheck fails ([PRangeOrder], [PRangeEqualExcluded]).

    Values are the shared [sqlvalue] of Value/SqlValue.v (floats by bit pattern, strings by UTF-8
    bytes).  Float arithmetic is computed by Mech/F64.v (SpecFloat, round-to-nearest-even).
    No proofs in this file. *)
From Coq Require Import ZArith List Bool.
From VibeSQL Require Import Base.LexOrd Value.SqlValue Mech.F64.
Import ListNotations.
Open Scope Z_scope.

(** * Results *)
Inductive err := ETypeMismatch | EDivisionByZero | EUnsupported | EConversion.   (* EConversion: TypeConversionError *)
Inductive panic :=
| POverflow             (* "attempt to add/subtract/multiply/negate with overflow", "... remainder with overflow" *)
| PDivZero              (* "attempt to calculate the remainder with a divisor of zero" *)
| PUnreachable          (* unreachable!() *)
| PCharBoundary         (* "byte index N is not a char boundary" *)
| PSliceIndex           (* "slice index starts at A but ends at B" / out of range *)
| PRangeOrder           (* "range start is greater than range end in BTreeMap" *)
| PRangeEqualExcluded.  (* "range start and end are equal and excluded in BTreeMap" *)

Inductive res (A : Type) : Type :=
| Ok (v : A)
| Err (e : err)
| Panic (p : panic).
Arguments Ok {A} v.
Arguments Err {A} e.
Arguments Panic {A} p.

Definition bind {A B : Type} (m : res A) (k : A -> res B) : res B :=
  match m with
  | Ok v => k v
  | Err e => Err e
  | Panic p => Panic p
  end.
Notation "'do' x <- m ; k" := (bind m (fun x => k)) (at level 200, x name, m at level 100, k at level 200).

(** build profile of the binary: overflow checks on (dev) or off (release) *)
Inductive profile := Debug | Release.

(** * Machine integers *)
Definition i64_min : Z := - 2 ^ 63.
Definition i64_max : Z := 2 ^ 63 - 1.
Definition fits (lo hi z : Z) : bool := (lo <=? z) && (z <=? hi).
Definition fits_i64 (z : Z) : bool := fits i64_min i64_max z.
Definition fits_i16 (z : Z) : bool := fits (- 2 ^ 15) (2 ^ 15 - 1) z.
Definition fits_u64 (z : Z) : bool := fits 0 (2 ^ 64 - 1) z.
(** two's-complement wrap to a signed [2^bits] window *)
Definition wrap_s (half : Z) (z : Z) : Z := (z + half) mod (2 * half) - half.
Definition wrap64 (z : Z) : Z := wrap_s (2 ^ 63) z.
Definition wrap16 (z : Z) : Z := wrap_s (2 ^ 15) z.

(** the result of an UNCHECKED Rust operator whose exact mathematical result is [z] *)
Definition i64_op (p : profile) (z : Z) : res Z :=
  if fits_i64 z then Ok z else match p with Debug => Panic POverflow | Release => Ok (wrap64 z) end.
Definition i16_op (p : profile) (z : Z) : res Z :=
  if fits_i16 z then Ok z else match p with Debug => Panic POverflow | Release => Ok (wrap16 z) end.
Definition u64_op (p : profile) (z : Z) : res Z :=
  if fits_u64 z then Ok z else match p with Debug => Panic POverflow | Release => Ok (z mod 2 ^ 64) end.
(** [checked_add/sub/mul/neg/abs(..)] mapped to an error by the callers: the exact result or
    [Err(UnsupportedFeature "... out of range")], in every build *)
Definition checked_i64 (z : Z) : res Z := if fits_i64 z then Ok z else Err EUnsupported.
Definition checked_i16 (z : Z) : res Z := if fits_i16 z then Ok z else Err EUnsupported.
(** [a.checked_rem(b).unwrap_or(0)]: [None] for a zero divisor and for [i64::MIN % -1] *)
Definition i64_rem (a b : Z) : Z :=
  if (b =? 0) || ((a =? i64_min) && (b =? -1)) then 0 else Z.rem a b.
(** [a.checked_div(b)] mapped to an out-of-range error ([None] for b = 0 and for [i64::MIN / -1]) *)
Definition int_div (a b : Z) : res Z :=
  if (b =? 0) || ((a =? i64_min) && (b =? -1)) then Err EUnsupported else Ok (Z.quot a b).

(** * casting.rs *)
Definition is_null (v : sqlvalue) : bool := match v with VNull => true | _ => false end.
Definition is_boolean (v : sqlvalue) : bool := match v with VBoolean _ => true | _ => false end.
Definition is_exact_numeric (v : sqlvalue) : bool :=
  match v with VSmallint _ | VInteger _ | VBigint _ | VUnsigned _ => true | _ => false end.
Definition is_approximate_numeric (v : sqlvalue) : bool :=
  match v with VFloat _ | VReal _ | VDouble _ => true | _ => false end.
(** [Integer(_) | Smallint(_) | Bigint(_)] (no Unsigned) as spelled out in coerce_numeric_values *)
Definition is_int3 (v : sqlvalue) : bool :=
  match v with VInteger _ | VSmallint _ | VBigint _ => true | _ => false end.
Definition is_numeric_variant (v : sqlvalue) : bool := match v with VNumeric _ => true | _ => false end.

(** [to_i64] *)
Definition to_i64 (v : sqlvalue) : res Z :=
  match v with
  | VSmallint n => Ok n
  | VInteger n => Ok n
  | VBigint n => Ok n
  | VUnsigned n => if n <=? i64_max then Ok n else Err EConversion   (* i64::try_from of the value *)
  | VNumeric f => Ok (f_to_i64 b64 f)
  | VFloat f => Ok (f_to_i64 b32 f)
  | VReal f => Ok (f_to_i64 b32 f)
  | VDouble f => Ok (f_to_i64 b64 f)
  | VBoolean b => Ok (if b then 1 else 0)
  | _ => Err ETypeMismatch
  end.
Definition res_ok {A} (r : res A) : option A := match r with Ok v => Some v | _ => None end.   (* [.ok()] *)

(** [to_f64] (bit pattern of the f64) *)
Definition to_f64 (v : sqlvalue) : option Z :=
  match v with
  | VFloat n => Some (f64_of_f32 n)
  | VReal n => Some (f64_of_f32 n)
  | VDouble n => Some n
  | VInteger n => Some (f_of_Z b64 n)
  | VSmallint n => Some (f_of_Z b64 n)
  | VBigint n => Some (f_of_Z b64 n)
  | VUnsigned n => Some (f_of_Z b64 n)
  | VNumeric f => Some f
  | VBoolean b => Some (if b then f64_one else 0)
  | _ => None
  end.

Definition boolean_to_i64 (v : sqlvalue) : option Z :=
  match v with VBoolean true => Some 1 | VBoolean false => Some 0 | _ => None end.

(** * arithmetic/mod.rs: coerce_numeric_values *)
Inductive coerced :=
| CExact (a b : Z)          (* ExactNumeric(i64, i64) *)
| CApprox (a b : Z)         (* ApproximateNumeric(f64, f64), bit patterns *)
| CNumeric (a b : Z).       (* Numeric(f64, f64) *)

Definition opt_or {A} (a b : option A) : option A := match a with Some _ => a | None => b end.

Definition coerce_numeric_values (l r : sqlvalue) : res coerced :=
  if is_boolean l || is_boolean r then
    match opt_or (boolean_to_i64 l) (res_ok (to_i64 l)) with
    | None => Err ETypeMismatch
    | Some li =>
        match opt_or (boolean_to_i64 r) (res_ok (to_i64 r)) with
        | None => Err ETypeMismatch
        | Some ri => Ok (CExact li ri)
        end
    end
  else if is_exact_numeric l && is_exact_numeric r then
    do li <- to_i64 l; do ri <- to_i64 r; Ok (CExact li ri)
  else if is_approximate_numeric l && is_approximate_numeric r then
    match to_f64 l, to_f64 r with
    | Some lf, Some rf => Ok (CApprox lf rf)
    | _, _ => Err ETypeMismatch
    end
  else if (is_approximate_numeric l && is_int3 r) || (is_int3 l && is_approximate_numeric r) then
    match to_f64 l, to_f64 r with
    | Some lf, Some rf => Ok (CApprox lf rf)
    | _, _ => Err ETypeMismatch
    end
  else if (is_numeric_variant l && (is_int3 r || is_approximate_numeric r || is_numeric_variant r))
          || ((is_int3 l || is_approximate_numeric l) && is_numeric_variant r) then
    match to_f64 l, to_f64 r with
    | Some lf, Some rf => Ok (CNumeric lf rf)
    | _, _ => Err ETypeMismatch
    end
  else Err ETypeMismatch.

(** arithmetic/mod.rs: approximate_result — DOUBLE PRECISION operands keep double precision,
    FLOAT / REAL operands give a single-precision result ([value as f32]) *)
Definition is_double (v : sqlvalue) : bool := match v with VDouble _ => true | _ => false end.
Definition approximate_result (l r : sqlvalue) (value : Z) : sqlvalue :=
  if is_double l || is_double r then VDouble value else VFloat (f32_of_f64 value).

(** * sql_mode/types.rs: division_result_type (for non-NULL operands) *)
Inductive sqlmode := MySQL | SQLite.
Inductive value_type := TNumeric | TInteger | TFloat.
Definition is_float_value (v : sqlvalue) : bool :=
  match v with VFloat _ | VReal _ | VDouble _ | VNumeric _ => true | _ => false end.
Definition division_result_type (m : sqlmode) (l r : sqlvalue) : value_type :=
  match m with
  | MySQL => TNumeric
  | SQLite => if is_float_value l || is_float_value r then TFloat else TInteger
  end.

Inductive binop := BPlus | BMinus | BMultiply | BDivide | BIntegerDivide | BModulo.

Section Operators.
  (** DATE/TIMESTAMP/VARCHAR (+|-) INTERVAL is delegated to [date_add_subtract] (C22's territory):
      an explicit parameter.  [temporal is_addition left right]. *)
  Variable temporal : bool -> sqlvalue -> sqlvalue -> res sqlvalue.

  Definition is_interval (v : sqlvalue) : bool := match v with VInterval _ _ _ => true | _ => false end.
  Definition is_datelike (v : sqlvalue) : bool :=
    match v with VDate _ _ _ | VTimestamp _ _ _ _ _ _ _ | VVarchar _ | VCharacter _ => true | _ => false end.

  (** ** addition.rs: Addition::add *)
  Definition add (l r : sqlvalue) : res sqlvalue :=
    if is_null l || is_null r then Ok VNull
    else
      match l, r with
      | VInteger a, VInteger b => do z <- checked_i64 (a + b); Ok (VInteger z)
      | _, _ =>
          if (is_datelike l && is_interval r) || (is_interval l && is_datelike r) then temporal true l r
          else
            do c <- coerce_numeric_values l r;
            match c with
            | CExact a b => do z <- checked_i64 (a + b); Ok (VInteger z)
            | CApprox a b => Ok (approximate_result l r (fadd b64 a b))
            | CNumeric a b => Ok (VNumeric (fadd b64 a b))
            end
      end.

  (** ** subtraction.rs: Subtraction::subtract *)
  Definition subtract (l r : sqlvalue) : res sqlvalue :=
    if is_null l || is_null r then Ok VNull
    else
      match l, r with
      | VInteger a, VInteger b => do z <- checked_i64 (a - b); Ok (VInteger z)
      | _, _ =>
          if is_datelike l && is_interval r then temporal false l r
          else if is_interval l && is_datelike r then Err EUnsupported
          else
            do c <- coerce_numeric_values l r;
            match c with
            | CExact a b => do z <- checked_i64 (a - b); Ok (VInteger z)
            | CApprox a b => Ok (approximate_result l r (fsub b64 a b))
            | CNumeric a b => Ok (VNumeric (fsub b64 a b))
            end
      end.

  (** ** multiplication.rs: Multiplication::multiply *)
  Definition multiply (l r : sqlvalue) : res sqlvalue :=
    if is_null l || is_null r then Ok VNull
    else
      match l, r with
      | VInteger a, VInteger b => do z <- checked_i64 (a * b); Ok (VInteger z)
      | _, _ =>
          do c <- coerce_numeric_values l r;
          match c with
          | CExact a b => do z <- checked_i64 (a * b); Ok (VInteger z)
          | CApprox a b => Ok (approximate_result l r (fmul b64 a b))
          | CNumeric a b => Ok (VNumeric (fmul b64 a b))
          end
      end.


  Definition coerced_right_is_zero (c : coerced) : bool :=
    match c with
    | CExact _ r => r =? 0
    | CApprox _ r => fis_zero b64 r
    | CNumeric _ r => fis_zero b64 r
    end.

  (** ** division.rs: Division::divide *)
  Definition divide (m : sqlmode) (l r : sqlvalue) : res sqlvalue :=
    if is_null l || is_null r then Ok VNull
    else
      match l, r with
      | VInteger a, VInteger b =>
          if b =? 0 then Ok VNull
          else
            match division_result_type m l r with
            | TNumeric => Ok (VNumeric (fdiv b64 (f_of_Z b64 a) (f_of_Z b64 b)))
            | TInteger => do z <- int_div a b; Ok (VInteger z)
            | TFloat => Panic PUnreachable
            end
      | _, _ =>
          do c <- coerce_numeric_values l r;
          if coerced_right_is_zero c then Ok VNull
          else
            match c, division_result_type m l r with
            | CExact a b, TNumeric => Ok (VNumeric (fdiv b64 (f_of_Z b64 a) (f_of_Z b64 b)))
            | CExact a b, TInteger => do z <- int_div a b; Ok (VInteger z)
            | CApprox a b, TFloat => Ok (approximate_result l r (fdiv b64 a b))
            | CNumeric a b, TNumeric => Ok (VNumeric (fdiv b64 a b))
            | CNumeric a b, TFloat => Ok (VNumeric (fdiv b64 a b))
            | CApprox a b, TNumeric => Ok (VNumeric (fdiv b64 a b))
            | CExact a b, TFloat => Ok (VFloat (f32_of_f64 (fdiv b64 (f_of_Z b64 a) (f_of_Z b64 b))))
            | _, _ => Err ETypeMismatch
            end
      end.

  (** ** division.rs: Division::integer_divide (DIV) *)
  Definition integer_divide (l r : sqlvalue) : res sqlvalue :=
    if is_null l || is_null r then Ok VNull
    else
      match l, r with
      | VInteger a, VInteger b =>
          if b =? 0 then Err EDivisionByZero else do z <- int_div a b; Ok (VInteger z)
      | _, _ =>
          do c <- coerce_numeric_values l r;
          if coerced_right_is_zero c then Err EDivisionByZero
          else
            match c with
            | CExact a b => do z <- int_div a b; Ok (VInteger z)
            | CApprox a b => Ok (VInteger (f_to_i64 b64 (ftrunc b64 (fdiv b64 a b))))
            | CNumeric a b => Ok (VInteger (f_to_i64 b64 (ftrunc b64 (fdiv b64 a b))))
            end
      end.

  (** ** modulo.rs: Modulo::modulo *)
  Definition modulo (l r : sqlvalue) : res sqlvalue :=
    if is_null l || is_null r then Ok VNull
    else
      match l, r with
      | VInteger a, VInteger b =>
          if b =? 0 then Ok VNull else Ok (VInteger (i64_rem a b))
      | _, _ =>
          do c <- coerce_numeric_values l r;
          if coerced_right_is_zero c then Ok VNull
          else
            match c with
            | CExact a b => Ok (VInteger (i64_rem a b))
            | CApprox a b => Ok (approximate_result l r (frem b64 a b))
            | CNumeric a b => Ok (VNumeric (frem b64 a b))
            end
      end.

  (** ** operators/mod.rs: OperatorRegistry::eval_binary_op, arithmetic operators *)
  Definition eval_binary_op (m : sqlmode) (l : sqlvalue) (op : binop) (r : sqlvalue) : res sqlvalue :=
    if is_null l || is_null r then Ok VNull
    else
      match op with
      | BPlus => add l r
      | BMinus => subtract l r
      | BMultiply => multiply l r
      | BDivide => divide m l r
      | BIntegerDivide => integer_divide l r
      | BModulo => modulo l r
      end.

  (** * select/grouping/aggregates.rs: SUM / AVG accumulation *)
  (** [add_sql_values]: the [+] operator in the default (MySQL) mode, an error becomes NULL *)
  Definition add_sql_values (a b : sqlvalue) : res sqlvalue :=
    match eval_binary_op MySQL a BPlus b with
    | Ok v => Ok v
    | Err _ => Ok VNull
    | Panic x => Panic x
    end.

  Definition is_numeric_value (v : sqlvalue) : bool :=
    match v with
    | VInteger _ | VSmallint _ | VBigint _ | VNumeric _ | VFloat _ | VReal _ | VDouble _ => true
    | _ => false
    end.

  Record acc := { a_sum : sqlvalue ; a_count : Z ; a_seen : list sqlvalue }.
  Definition acc0 : acc := {| a_sum := VInteger 0 ; a_count := 0 ; a_seen := [] |}.
  (** [HashSet::contains]: hash + [==]; equal values hash alike (C21_eq_hash), so membership is [==] *)
  Definition seen_contains (seen : list sqlvalue) (v : sqlvalue) : bool := existsb (fun w => eqb w v) seen.

  (** [accumulate] for the Sum and Avg accumulators (identical code) *)
  Definition sum_step (p : profile) (distinct : bool) (st : acc) (v : sqlvalue) : res acc :=
    if is_null v || negb (is_numeric_value v) then Ok st
    else if distinct && seen_contains (a_seen st) v then Ok st
    else
      do s <- add_sql_values (a_sum st) v;
      do c <- i64_op p (a_count st + 1);
      Ok {| a_sum := s ; a_count := c ; a_seen := if distinct then v :: a_seen st else a_seen st |}.

  Fixpoint sum_fold (p : profile) (distinct : bool) (st : acc) (vs : list sqlvalue) : res acc :=
    match vs with
    | [] => Ok st
    | v :: rest => do st' <- sum_step p distinct st v; sum_fold p distinct st' rest
    end.

  Definition sql_value_to_f64 (v : sqlvalue) : option Z :=
    match v with
    | VInteger x | VSmallint x | VBigint x => Some (f_of_Z b64 x)
    | VNumeric x | VDouble x => Some x
    | VFloat x | VReal x => Some (f64_of_f32 x)
    | _ => None
    end.

  (** [finalize] *)
  Definition sum_finalize (st : acc) : sqlvalue := if a_count st =? 0 then VNull else a_sum st.
  Definition avg_finalize (st : acc) : sqlvalue :=
    if a_count st =? 0 then VNull
    else match sql_value_to_f64 (a_sum st) with
         | Some f => VNumeric (fdiv b64 f (f_of_Z b64 (a_count st)))
         | None => VNull
         end.

  Definition agg_sum (p : profile) (distinct : bool) (vs : list sqlvalue) : res sqlvalue :=
    do st <- sum_fold p distinct acc0 vs; Ok (sum_finalize st).
  Definition agg_avg (p : profile) (distinct : bool) (vs : list sqlvalue) : res sqlvalue :=
    do st <- sum_fold p distinct acc0 vs; Ok (avg_finalize st).
End Operators.

(** * evaluator/expressions/operators.rs: eval_unary_op, [+] and [-] *)
Definition unary_plus (v : sqlvalue) : res sqlvalue :=
  match v with
  | VInteger _ | VSmallint _ | VBigint _ | VFloat _ | VReal _ | VDouble _ | VNumeric _ => Ok v
  | VNull => Ok VNull
  | VCharacter _ | VVarchar _ => Ok v
  | _ => Err ETypeMismatch
  end.

Definition unary_minus (v : sqlvalue) : res sqlvalue :=
  match v with
  | VInteger n => do z <- checked_i64 (- n); Ok (VInteger z)
  | VSmallint n => do z <- checked_i16 (- n); Ok (VSmallint z)
  | VBigint n => do z <- checked_i64 (- n); Ok (VBigint z)
  | VFloat n => Ok (VFloat (fneg b32 n))
  | VReal n => Ok (VReal (fneg b32 n))
  | VDouble n => Ok (VDouble (fneg b64 n))
  | VNumeric n => Ok (VNumeric (fneg b64 n))
  | VNull => Ok VNull
  | _ => Err ETypeMismatch
  end.

(** * functions/numeric/basic.rs: ABS (one argument) and MOD (two arguments) *)
Definition abs_fn (v : sqlvalue) : res sqlvalue :=
  match v with
  | VNull => Ok VNull
  | VInteger n => do z <- checked_i64 (Z.abs n); Ok (VInteger z)
  | VBigint n => do z <- checked_i64 (Z.abs n); Ok (VBigint z)
  | VSmallint n => do z <- checked_i16 (Z.abs n); Ok (VSmallint z)
  | VFloat n => Ok (VFloat (fabs b32 n))
  | VDouble n => Ok (VDouble (fabs b64 n))
  | VReal n => Ok (VReal (fabs b32 n))
  | _ => Err EUnsupported
  end.

Definition mod_fn (a b : sqlvalue) : res sqlvalue :=
  match a, b with
  | VNull, _ | _, VNull => Ok VNull
  | VInteger x, VInteger y => if y =? 0 then Ok VNull else Ok (VInteger (i64_rem x y))
  | VFloat x, VFloat y | VReal x, VReal y =>
      if fis_zero b32 y then Ok VNull else Ok (VFloat (frem b32 x y))
  | _, _ => Err EUnsupported
  end.

(** * simd/aggregation.rs and select/columnar/simd_aggregate.rs *)
(** [simd_sum_i64_wide]: [column.iter().map(|&v| v as i128).sum()] — exact: a sum of fewer than 2^64
    values of magnitude at most 2^63 stays within i128 *)
Definition simd_sum_i64_wide (col : list Z) : Z := fold_right Z.add 0 col.
(** [simd_sum_i64]: the wide sum, saturated at the i64 bounds *)
Definition simd_sum_i64 (col : list Z) : Z :=
  let wide := simd_sum_i64_wide col in
  if fits_i64 wide then wide else if wide <? 0 then i64_min else i64_max.

Fixpoint scalar_sum_f64 (sum : Z) (col : list Z) : Z :=
  match col with
  | [] => sum
  | x :: rest => scalar_sum_f64 (fadd b64 sum x) rest
  end.
Fixpoint simd_sum_f64_from (sum : Z) (col : list Z) {struct col} : Z :=
  match col with
  | a0 :: a1 :: a2 :: a3 :: rest =>
      simd_sum_f64_from (fadd b64 sum (fadd b64 (fadd b64 (fadd b64 a0 a1) a2) a3)) rest
  | _ => scalar_sum_f64 sum col
  end.
Definition simd_sum_f64 (col : list Z) : Z := simd_sum_f64_from 0 col.

Inductive aggop := AggSum | AggAvg.

Definition extract_i64 (v : sqlvalue) : res (option Z) :=
  match v with
  | VInteger z | VBigint z | VSmallint z => Ok (Some z)
  | VNull => Ok None
  | _ => Err EUnsupported
  end.

(** the streaming loop of [simd_aggregate_i64] for SUM/AVG without a filter bitmap ([sum] is an i128).
    [batch] is kept in reverse order; [bsize] is BATCH_SIZE (1024 in the source). *)
Fixpoint simd_agg_i64_loop (p : profile) (bsize : nat) (batch : list Z) (blen : nat) (sum count : Z)
         (vs : list sqlvalue) : res (list Z * Z * Z) :=
  match vs with
  | [] => Ok (batch, sum, count)
  | v :: rest =>
      do x <- extract_i64 v;
      match x with
      | None => simd_agg_i64_loop p bsize batch blen sum count rest
      | Some z =>
          do c <- i64_op p (count + 1);
          if Nat.leb bsize (S blen) then
            (* [sum: i128 += simd_sum_i64_wide(&batch)] *)
            simd_agg_i64_loop p bsize [] O (sum + simd_sum_i64_wide (rev (z :: batch))) c rest
          else simd_agg_i64_loop p bsize (z :: batch) (S blen) sum c rest
      end
  end.

Definition simd_aggregate_i64 (p : profile) (bsize : nat) (op : aggop) (vs : list sqlvalue) : res sqlvalue :=
  do st <- simd_agg_i64_loop p bsize [] O 0 0 vs;
  let '(batch, sum, count) := st in
  let sum' := match batch with
              | [] => sum
              | _ => sum + simd_sum_i64_wide (rev batch)
              end in
  if count =? 0 then Ok VNull
  else match op with
       | AggSum => Ok (VDouble (f_of_Z b64 sum'))
       | AggAvg => Ok (VDouble (fdiv b64 (f_of_Z b64 sum') (f_of_Z b64 count)))
       end.

Definition extract_f64 (v : sqlvalue) : res (option Z) :=
  match v with
  | VDouble x | VNumeric x => Ok (Some x)
  | VFloat x => Ok (Some (f64_of_f32 x))
  | VInteger z | VBigint z | VSmallint z => Ok (Some (f_of_Z b64 z))
  | VNull => Ok None
  | _ => Err EUnsupported
  end.

Fixpoint simd_agg_f64_loop (p : profile) (bsize : nat) (batch : list Z) (blen : nat) (sum : Z) (count : Z)
         (vs : list sqlvalue) : res (list Z * Z * Z) :=
  match vs with
  | [] => Ok (batch, sum, count)
  | v :: rest =>
      do x <- extract_f64 v;
      match x with
      | None => simd_agg_f64_loop p bsize batch blen sum count rest
      | Some z =>
          do c <- i64_op p (count + 1);
          if Nat.leb bsize (S blen) then
            simd_agg_f64_loop p bsize [] O (fadd b64 sum (simd_sum_f64 (rev (z :: batch)))) c rest
          else simd_agg_f64_loop p bsize (z :: batch) (S blen) sum c rest
      end
  end.

Definition simd_aggregate_f64 (p : profile) (bsize : nat) (op : aggop) (vs : list sqlvalue) : res sqlvalue :=
  do st <- simd_agg_f64_loop p bsize [] O 0 0 vs;
  let '(batch, sum, count) := st in
  let sum' := match batch with [] => sum | _ => fadd b64 sum (simd_sum_f64 (rev batch)) end in
  if count =? 0 then Ok VNull
  else match op with
       | AggSum => Ok (VDouble sum')
       | AggAvg => Ok (VDouble (fdiv b64 sum' (f_of_Z b64 count)))
       end.

(** [can_use_simd_for_column]: the first non-NULL value among the first 100 rows decides *)
Fixpoint can_use_simd (fuel : nat) (vs : list sqlvalue) : option bool :=
  match fuel, vs with
  | O, _ => None
  | _, [] => None
  | S fuel', v :: rest =>
      match v with
      | VInteger _ | VBigint _ | VSmallint _ => Some true
      | VDouble _ | VFloat _ | VNumeric _ => Some false
      | VNull => can_use_simd fuel' rest
      | _ => None
      end
  end.

(** scalar fallback [compute_sum] / [compute_avg] of columnar/aggregate.rs *)
Fixpoint compute_sum_loop (sum : Z) (count : Z) (vs : list sqlvalue) : res (Z * Z) :=
  match vs with
  | [] => Ok (sum, count)
  | v :: rest =>
      match v with
      | VInteger z | VBigint z | VSmallint z => compute_sum_loop (fadd b64 sum (f_of_Z b64 z)) (count + 1) rest
      | VFloat x | VReal x => compute_sum_loop (fadd b64 sum (f64_of_f32 x)) (count + 1) rest   (* Real: /repo bda84434 *)
      | VDouble x | VNumeric x => compute_sum_loop (fadd b64 sum x) (count + 1) rest
      | VNull => compute_sum_loop sum count rest
      | _ => Err EUnsupported
      end
  end.
Definition compute_sum (vs : list sqlvalue) : res sqlvalue :=
  do sc <- compute_sum_loop 0 0 vs;
  Ok (if 0 <? snd sc then VDouble (fst sc) else VNull).
Definition compute_avg (vs : list sqlvalue) : res sqlvalue :=
  do s <- compute_sum vs;
  let non_null := Z.of_nat (length (filter (fun v => negb (is_null v)) vs)) in
  match s with
  | VDouble sum => if 0 <? non_null then Ok (VDouble (fdiv b64 sum (f_of_Z b64 non_null)))
                   else Ok VNull
  | VNull => Ok VNull
  | _ => Err EUnsupported
  end.

(** [compute_columnar_aggregate] for SUM / AVG on a column (feature "simd" is a default feature) *)
Definition columnar_aggregate (p : profile) (bsize : nat) (op : aggop) (vs : list sqlvalue) : res sqlvalue :=
  match can_use_simd 100 vs with
  | Some true => simd_aggregate_i64 p bsize op vs
  | Some false => simd_aggregate_f64 p bsize op vs
  | None => match op with AggSum => compute_sum vs | AggAvg => compute_avg vs end
  end.

(** * functions/string/substring.rs: SUBSTRING(string, start [, length]) *)
Definition len (s : list Z) : Z := Z.of_nat (length s).
Definition is_cont_byte (b : Z) : bool := (128 <=? b) && (b <? 192).
(** [str::chars] on the UTF-8 bytes: a character is a lead byte followed by its continuation bytes *)
Fixpoint take_cont (s : list Z) : list Z * list Z :=
  match s with
  | b :: r => if is_cont_byte b then let '(c, r') := take_cont r in (b :: c, r') else ([], s)
  | [] => ([], [])
  end.
Fixpoint utf8_chars_fuel (n : nat) (s : list Z) : list (list Z) :=
  match n, s with
  | S n', b :: r => let '(c, r') := take_cont r in (b :: c) :: utf8_chars_fuel n' r'
  | _, _ => []
  end.
Definition utf8_chars (s : list Z) : list (list Z) := utf8_chars_fuel (length s) s.
(** [Iterator::skip(n)] / [take(n)] with a [usize] count *)
Fixpoint skipZ {A : Type} (n : Z) (l : list A) : list A :=
  match l with
  | [] => []
  | _ :: r => if 0 <? n then skipZ (n - 1) r else l
  end.
Fixpoint takeZ {A : Type} (n : Z) (l : list A) : list A :=
  match l with
  | [] => []
  | x :: r => if 0 <? n then x :: takeZ (n - 1) r else []
  end.

Definition str_of (v : sqlvalue) : option (list Z) :=
  match v with VVarchar s | VCharacter s => Some s | _ => None end.

Definition substring (args : list sqlvalue) : res sqlvalue :=
  let go (sv st : sqlvalue) (lv : option sqlvalue) : res sqlvalue :=
    if is_null sv || is_null st || (match lv with Some VNull => true | _ => false end) then Ok VNull
    else
      match str_of sv with
      | None => Err EUnsupported
      | Some s =>
          match st with
          | VInteger start =>
              do length <- match lv with
                           | None => Ok None
                           | Some (VInteger n) => Ok (Some n)
                           | Some _ => Err EUnsupported
                           end;
              (* [(start - 1) as usize] when start > 0, else 0 *)
              let start_idx := if 0 <? start then start - 1 else 0 in
              match length with
              | Some l =>
                  if l <=? 0 then Ok (VVarchar [])
                  else Ok (VVarchar (concat (takeZ l (skipZ start_idx (utf8_chars s)))))
              | None => Ok (VVarchar (concat (skipZ start_idx (utf8_chars s))))
              end
          | _ => Err EUnsupported
          end
      end in
  match args with
  | [sv; st] => go sv st None
  | [sv; st; lv] => go sv st (Some lv)
  | _ => Err EUnsupported
  end.

(** * storage indexes: value_normalization.rs, range_bounds.rs, range_scan.rs (InMemory) *)
Definition normalize_for_comparison (v : sqlvalue) : sqlvalue :=
  match v with
  | VInteger i | VSmallint i | VBigint i | VUnsigned i => VDouble (f_of_Z b64 i)
  | VFloat f | VReal f => VDouble (f64_of_f32 f)
  | VDouble d | VNumeric d => VDouble d
  | other => other
  end.

(** [f + f.abs() * EPSILON], kept only when [next > f && next.is_finite()] *)
Definition float_step (f : fmt) (eps x : Z) : option Z :=
  if fis_finite f x then
    let next := fadd f x (fmul f (fabs f x) eps) in
    if fgt f next x && fis_finite f next then Some next else None
  else None.

Definition try_increment_sqlvalue (v : sqlvalue) : option sqlvalue :=
  match v with
  | VInteger i => if i <? i64_max then Some (VInteger (i + 1)) else None
  | VSmallint i => if i <? 2 ^ 15 - 1 then Some (VSmallint (i + 1)) else None
  | VBigint i => if i <? i64_max then Some (VBigint (i + 1)) else None
  | VUnsigned u => if u <? 2 ^ 64 - 1 then Some (VUnsigned (u + 1)) else None
  | VFloat x => option_map VFloat (float_step b32 f32_epsilon x)
  | VReal x => option_map VReal (float_step b32 f32_epsilon x)
  | VDouble x => option_map VDouble (float_step b64 f64_epsilon x)
  | VNumeric x => option_map VNumeric (float_step b64 f64_epsilon x)
  | VVarchar s => Some (VVarchar (s ++ [0]))
  | VCharacter s => Some (VCharacter (s ++ [0]))
  | VBoolean false => Some (VBoolean true)
  | _ => None
  end.

Definition calculate_next_value (p : profile) (v : sqlvalue) : res (option sqlvalue) :=
  match v with
  | VDouble d => Ok (Some (VDouble (fadd b64 d f64_one)))
  | VInteger i => do z <- i64_op p (i + 1); Ok (Some (VInteger z))
  | VSmallint i => do z <- i16_op p (i + 1); Ok (Some (VSmallint z))
  | VBigint i => do z <- i64_op p (i + 1); Ok (Some (VBigint z))
  | VUnsigned u => do z <- u64_op p (u + 1); Ok (Some (VUnsigned z))
  | VFloat x => Ok (Some (VFloat (fadd b32 x f32_one)))
  | VReal x => Ok (Some (VReal (fadd b32 x f32_one)))
  | VNumeric n => Ok (Some (VNumeric (fadd b64 n f64_one)))
  | _ => Ok None
  end.

Definition smart_increment_value (p : profile) (v : sqlvalue) : res (option sqlvalue) :=
  match v with
  | VDouble _ | VNumeric _ | VFloat _ | VReal _ => Ok (try_increment_sqlvalue v)
  | _ => calculate_next_value p v
  end.

Inductive bound := BUnbounded | BIncluded (k : list sqlvalue) | BExcluded (k : list sqlvalue).

(** what [range_scan] does with the BTreeMap, as a function of the bounds alone *)
Inductive plan :=
| PlanEmpty                               (* an early [return Vec::new()] *)
| PlanPrefix (v : sqlvalue)               (* range(Included([v]), Unbounded), stop at the first other prefix *)
| PlanRange (sb eb : bound).              (* data.range((sb, eb)) *)

(** [PartialEq] and [PartialOrd] of key slices [[SqlValue]] *)
Fixpoint key_eqb (a b : list sqlvalue) : bool :=
  match a, b with
  | [], [] => true
  | x :: a', y :: b' => eqb x y && key_eqb a' b'
  | _, _ => false
  end.
Fixpoint key_pcmp (a b : list sqlvalue) : option comparison :=
  match a, b with
  | [], [] => Some Eq
  | [], _ :: _ => Some Lt
  | _ :: _, [] => Some Gt
  | x :: a', y :: b' =>
      match pcmp x y with
      | Some Eq => key_pcmp a' b'
      | o => o
      end
  end.
Definition key_gt (a b : list sqlvalue) : bool := match key_pcmp a b with Some Gt => true | _ => false end.
Definition value_gt (a b : sqlvalue) : bool := match pcmp a b with Some Gt => true | _ => false end.

Definition both_excluded_equal (sb eb : bound) : bool :=
  match sb, eb with BExcluded s, BExcluded e => key_eqb s e | _, _ => false end.

(** [start_slice > end_slice] on two bounded ends (the re-check of the multi-column path) *)
Definition bounds_inverted (sb eb : bound) : bool :=
  match sb, eb with
  | BIncluded s, BIncluded e | BIncluded s, BExcluded e | BExcluded s, BIncluded e | BExcluded s, BExcluded e => key_gt s e
  | _, _ => false
  end.

(** [multi]: the first key of the map has more than one element *)
Definition range_plan (p : profile) (multi : bool) (start end_ : option sqlvalue) (incl_s incl_e : bool) : res plan :=
  let ns := option_map normalize_for_comparison start in
  let ne := option_map normalize_for_comparison end_ in
  let both := match ns, ne with Some s, Some e => Some (s, e) | _, _ => None end in
  match both with
  | Some (s, e) =>
      if eqb s e && incl_s && incl_e then Ok (PlanPrefix s)
      else if eqb s e && (negb incl_s || negb incl_e) then Ok PlanEmpty
      else if value_gt s e then Ok PlanEmpty
      else
        if multi then
          do sk <- (if incl_s then Ok (BIncluded [s])
                    else do i <- smart_increment_value p s;
                         match i with Some s' => Ok (BIncluded [s']) | None => Ok (BExcluded [s]) end);
          let ek := if incl_e then match try_increment_sqlvalue e with
                                   | Some e' => BExcluded [e']
                                   | None => BUnbounded
                                   end
                    else BExcluded [e] in
          if both_excluded_equal sk ek then Ok PlanEmpty
          else if bounds_inverted sk ek then Ok PlanEmpty      (* re-check after the increment *)
          else Ok (PlanRange sk ek)
        else
          let sk := if incl_s then BIncluded [s] else BExcluded [s] in
          let ek := if incl_e then BIncluded [e] else BExcluded [e] in
          if both_excluded_equal sk ek then Ok PlanEmpty else Ok (PlanRange sk ek)
  | None =>
      match ns, ne with
      | None, None => Ok (PlanRange BUnbounded BUnbounded)
      | _, _ =>
          if multi then
            do sk <- match ns with
                     | None => Ok BUnbounded
                     | Some s =>
                         if incl_s then Ok (BIncluded [s])
                         else do i <- smart_increment_value p s;
                              match i with Some s' => Ok (BIncluded [s']) | None => Ok (BExcluded [s]) end
                     end;
            let ek := match ne with
                      | None => BUnbounded
                      | Some e =>
                          if incl_e then match try_increment_sqlvalue e with
                                         | Some e' => BExcluded [e']
                                         | None => BUnbounded
                                         end
                          else BExcluded [e]
                      end in
            Ok (PlanRange sk ek)
          else
            let sk := match ns with None => BUnbounded | Some s => if incl_s then BIncluded [s] else BExcluded [s] end in
            let ek := match ne with None => BUnbounded | Some e => if incl_e then BIncluded [e] else BExcluded [e] end in
            Ok (PlanRange sk ek)
      end
  end.

(** the precheck of [BTreeMap::range] (library/alloc btree/search.rs, search_tree_for_bifurcation):
    [s == e] and [s > e] are the [PartialEq]/[PartialOrd] of the borrowed key type [[SqlValue]] *)
Definition btree_range_check (sb eb : bound) : option panic :=
  match sb, eb with
  | BExcluded s, BExcluded e =>
      if key_eqb s e then Some PRangeEqualExcluded else if key_gt s e then Some PRangeOrder else None
  | BIncluded s, BIncluded e | BIncluded s, BExcluded e | BExcluded s, BIncluded e =>
      if key_gt s e then Some PRangeOrder else None
  | _, _ => None
  end.

(** the precondition of [BTreeMap::range] *)
Definition btree_range_ok (sb eb : bound) : bool :=
  match btree_range_check sb eb with None => true | Some _ => false end.

(** outcome of [IndexData::range_scan] on an InMemory index, as far as panics are concerned;
    [nonempty]: the map has a root node (the precheck is only run then) *)
Definition range_scan_outcome (p : profile) (multi nonempty : bool) (start end_ : option sqlvalue)
           (incl_s incl_e : bool) : res unit :=
  do pl <- range_plan p multi start end_ incl_s incl_e;
  match pl with
  | PlanRange sb eb =>
      if nonempty then match btree_range_check sb eb with Some pn => Panic pn | None => Ok tt end
      else Ok tt
  | _ => Ok tt
  end.
