(** IEEE-754 binary32 / binary64 arithmetic on BIT PATTERNS, as used by the arithmetic operators
    of the executor (Rust [f64]/[f32] [+ - * / %], [as] casts, [trunc]).

    Values are the bit patterns used by [Value/SqlValue.v] (a [Z] in [0, 2^w)).  Operations decode to
    the standard library's [SpecFloat.spec_float], use its round-to-nearest-even operations
    ([SFadd], [SFmul], [SFdiv], [binary_normalize]) and encode back.  No Flocq, no axioms.
    NaN results are encoded as the canonical quiet NaN; the sign / payload of a NaN is not
    specified by Rust and is never compared by the tie ([Run/C24Run.v] compares NaN as a class).

    No proofs in this file. *)
From Coq Require Import ZArith Bool List.
From Coq Require Import Floats.SpecFloat.
From VibeSQL Require Import Value.SqlValue.
Open Scope Z_scope.

(** * Formats *)
Record fmt := { mw : Z ; ew : Z }.            (* explicit mantissa bits, exponent bits *)
Definition b64 : fmt := {| mw := 52 ; ew := 11 |}.
Definition b32 : fmt := {| mw := 23 ; ew := 8 |}.
Definition fprec (f : fmt) : Z := mw f + 1.
Definition femax (f : fmt) : Z := 2 ^ (ew f - 1).
Definition fwidth (f : fmt) : Z := mw f + ew f + 1.
(** exponent of the unit in the last place is [E - fbias] for biased exponent [E >= 1] *)
Definition fbias (f : fmt) : Z := femax f - 1 + mw f.
Definition fsignbit (f : fmt) : Z := 2 ^ (fwidth f - 1).
Definition fexpmask (f : fmt) : Z := 2 ^ ew f - 1.

Definition decode (f : fmt) (b : Z) : spec_float :=
  let s := fsignbit f <=? b in
  let E := (b / 2 ^ mw f) mod 2 ^ ew f in
  let M := b mod 2 ^ mw f in
  if E =? 0 then
    match M with
    | Zpos m => S754_finite s m (1 - fbias f)
    | _ => S754_zero s
    end
  else if E =? fexpmask f then
    (if M =? 0 then S754_infinity s else S754_nan)
  else
    match M + 2 ^ mw f with
    | Zpos m => S754_finite s m (E - fbias f)
    | _ => S754_nan
    end.

Definition canon_nan (f : fmt) : Z := fexpmask f * 2 ^ mw f + 2 ^ (mw f - 1).

(** encoding of a CANONICAL [spec_float] (what the [SF*] operations return on canonical input) *)
Definition encode (f : fmt) (x : spec_float) : Z :=
  let sb (s : bool) := if s then fsignbit f else 0 in
  match x with
  | S754_zero s => sb s
  | S754_infinity s => sb s + fexpmask f * 2 ^ mw f
  | S754_nan => canon_nan f
  | S754_finite s m e =>
      if Zpos m <? 2 ^ mw f then sb s + Zpos m
      else sb s + (e + fbias f) * 2 ^ mw f + (Zpos m - 2 ^ mw f)
  end.

(** * Arithmetic (round to nearest, ties to even) *)
Definition fadd (f : fmt) (a b : Z) : Z := encode f (SFadd (fprec f) (femax f) (decode f a) (decode f b)).
Definition fsub (f : fmt) (a b : Z) : Z := encode f (SFsub (fprec f) (femax f) (decode f a) (decode f b)).
Definition fmul (f : fmt) (a b : Z) : Z := encode f (SFmul (fprec f) (femax f) (decode f a) (decode f b)).
Definition fdiv (f : fmt) (a b : Z) : Z := encode f (SFdiv (fprec f) (femax f) (decode f a) (decode f b)).

(** unary minus flips the sign bit (also of a NaN), [abs] clears it *)
Definition fneg (f : fmt) (a : Z) : Z := if fsignbit f <=? a then a - fsignbit f else a + fsignbit f.
Definition fabs (f : fmt) (a : Z) : Z := a mod fsignbit f.

Definition fis_nan (f : fmt) (a : Z) : bool := f_is_nan (fwidth f) a.
Definition fis_zero (f : fmt) (a : Z) : bool := a mod fsignbit f =? 0.            (* [x == 0.0] *)
Definition fis_finite (f : fmt) (a : Z) : bool := a mod fsignbit f <? fexpmask f * 2 ^ mw f.
(** [a > b] on floats, through the order key of [Value/SqlValue.v] *)
Definition fgt (f : fmt) (a b : Z) : bool :=
  match f_pcmp (fwidth f) a b with Some Gt => true | _ => false end.

(** * Casts *)
(** [i64 as f64], [u64 as f64], [i16 as f64] : nearest, ties to even *)
Definition f_of_Z (f : fmt) (z : Z) : Z := encode f (binary_normalize (fprec f) (femax f) z 0 false).

(** truncation toward zero of a finite value as an integer *)
Definition sf_trunc_Z (x : spec_float) : option Z :=
  match x with
  | S754_zero _ => Some 0
  | S754_finite s m e =>
      let mag := match e with
                 | Zneg p => Zpos m / 2 ^ Zpos p
                 | _ => Zpos m * 2 ^ e
                 end in
      Some (if s then - mag else mag)
  | _ => None
  end.

(** [f64 as i64] / [f32 as i64]: saturating, NaN to 0 (Rust >= 1.45) *)
Definition f_to_i64 (f : fmt) (a : Z) : Z :=
  match decode f a with
  | S754_nan => 0
  | S754_infinity s => if s then - 2 ^ 63 else 2 ^ 63 - 1
  | x => match sf_trunc_Z x with
         | Some z => Z.max (- 2 ^ 63) (Z.min (2 ^ 63 - 1) z)
         | None => 0
         end
  end.

(** change of format: exact when widening, nearest-even when narrowing *)
Definition fconv (src dst : fmt) (a : Z) : Z :=
  encode dst
    match decode src a with
    | S754_finite s m e => binary_round (fprec dst) (femax dst) s m e
    | x => x
    end.
Definition f64_of_f32 (a : Z) : Z := fconv b32 b64 a.
Definition f32_of_f64 (a : Z) : Z := fconv b64 b32 a.

(** [f64::trunc] *)
Definition ftrunc (f : fmt) (a : Z) : Z :=
  match decode f a with
  | S754_finite s m (Zneg p) =>
      match Zpos m / 2 ^ Zpos p with
      | Zpos q => encode f (binary_round (fprec f) (femax f) s q 0)
      | _ => encode f (S754_zero s)
      end
  | _ => a
  end.

(** [a % b] = C [fmod]: exact; the result has the sign of [a] *)
Definition frem (f : fmt) (a b : Z) : Z :=
  match decode f a, decode f b with
  | S754_nan, _ | _, S754_nan => canon_nan f
  | S754_infinity _, _ => canon_nan f
  | _, S754_zero _ => canon_nan f
  | _, S754_infinity _ => a
  | S754_zero _, _ => a
  | S754_finite sa ma ea, S754_finite _ mb eb =>
      let e := Z.min ea eb in
      let r := (Zpos ma * 2 ^ (ea - e)) mod (Zpos mb * 2 ^ (eb - e)) in
      match r with
      | Zpos q => encode f (binary_round (fprec f) (femax f) sa q e)
      | _ => encode f (S754_zero sa)
      end
  end.

(** constants *)
Definition f64_one : Z := 4607182418800017408.       (* 0x3FF0000000000000 *)
Definition f64_epsilon : Z := 4372995238176751616.   (* 0x3CB0000000000000 = 2^-52 *)
Definition f32_one : Z := 1065353216.                (* 0x3F800000 *)
Definition f32_epsilon : Z := 872415232.             (* 0x34000000 = 2^-23 *)
