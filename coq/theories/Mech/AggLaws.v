(** C24 — laws of the SUM accumulation models of Mech/Arith.v:
    the row-at-a-time [AggregateAccumulator] (sum_fold / agg_sum), [simd_sum_i64] and the streaming
    [simd_aggregate_i64] of the columnar path.

    For each path: the Release profile returns the two's-complement wrap of the exact sum (so a
    silent wrap happens exactly when some partial sum leaves i64), the Debug profile returns the
    exact sum whenever it returns, and both profiles return the exact sum when no partial sum
    (in the evaluation order of the code) overflows. *)
From Coq Require Import ZArith List Bool Lia.
From VibeSQL Require Import Base.LexOrd Value.SqlValue Mech.F64 Mech.Arith Mech.ArithLaws.
Import ListNotations.
Open Scope Z_scope.

Definition zsum (l : list Z) : Z := fold_right Z.add 0 l.

Lemma zsum_app a b : zsum (a ++ b) = zsum a + zsum b.
Proof. unfold zsum. induction a as [|x a IH]; cbn [fold_right app]; lia. Qed.
Lemma zsum_cons x a : zsum (x :: a) = x + zsum a.
Proof. reflexivity. Qed.
Lemma zsum_nil : zsum [] = 0.
Proof. reflexivity. Qed.
Lemma zsum_nonneg l : Forall (fun z => 0 <= z) l -> 0 <= zsum l.
Proof. induction 1; [rewrite zsum_nil; lia|rewrite zsum_cons; lia]. Qed.
Lemma zsum_rev a : zsum (rev a) = zsum a.
Proof.
  induction a as [|x a IH]; [reflexivity|]. cbn [rev]. rewrite zsum_app, IH, !zsum_cons, zsum_nil. lia.
Qed.

(** integer column: INTEGER / SMALLINT / BIGINT values and NULLs, each within its Rust type *)
Definition int_value (v : sqlvalue) : option Z :=
  match v with VInteger z | VSmallint z | VBigint z => Some z | _ => None end.
Definition int_cell (v : sqlvalue) : bool :=
  match v with VInteger _ | VSmallint _ | VBigint _ => wf v | VNull => true | _ => false end.
Definition int_col (vs : list sqlvalue) : bool := forallb int_cell vs.
Fixpoint ints_of (vs : list sqlvalue) : list Z :=
  match vs with
  | [] => []
  | v :: rest => match int_value v with Some z => z :: ints_of rest | None => ints_of rest end
  end.

Lemma int_cell_fits v z : int_cell v = true -> int_value v = Some z -> fits_i64 z = true.
Proof.
  destruct v; cbn [int_cell int_value wf]; try discriminate; intros W [= <-];
    unfold in_range in W; apply andb_true_iff in W as [W0 W1]; apply Z.leb_le in W0; apply Z.ltb_lt in W1;
    apply fits_i64_iff; pows; lia.
Qed.

(** * The accumulator on integers *)
(** every partial sum [s + z1 + ... + zk] (k >= 1) fits i64 *)
Fixpoint prefixes_fit (s : Z) (zs : list Z) : bool :=
  match zs with
  | [] => true
  | z :: rest => fits_i64 (s + z) && prefixes_fit (s + z) rest
  end.

(** the accumulator loop, on integers *)
Fixpoint int_fold (p : profile) (s c : Z) (zs : list Z) : res (Z * Z) :=
  match zs with
  | [] => Ok (s, c)
  | z :: rest => do s' <- i64_op p (s + z); do c' <- i64_op p (c + 1); int_fold p s' c' rest
  end.

Section Acc.
  Variable temporal : bool -> sqlvalue -> sqlvalue -> res sqlvalue.

  Lemma add_sql_values_int p s v z :
    int_cell v = true -> int_value v = Some z ->
    add_sql_values temporal p (VInteger s) v = (do s' <- i64_op p (s + z); Ok (VInteger s')).
  Proof.
    intros W Hz. unfold add_sql_values, eval_binary_op.
    assert (Hn : is_null v = false) by (destruct v; cbn in *; congruence).
    cbn [is_null orb]. rewrite Hn.
    assert (E : exact_pair (VInteger s) v = Some (s, z)).
    { unfold exact_pair. cbn [is_null orb]. rewrite Hn.
      destruct v; cbn [int_value] in Hz; try discriminate; injection Hz as <-; reflexivity. }
    pose proof (arith3_exact temporal OAdd p _ _ _ _ E) as A. cbn [arith3 z_op] in A. rewrite A.
    destruct (i64_op p (s + z)) eqn:Eo; cbn [bind]; try reflexivity.
    exfalso. eapply i64_op_never_err; eassumption.
  Qed.

  Lemma sum_fold_int p s c seen vs :
    int_col vs = true ->
    sum_fold temporal p false {| a_sum := VInteger s ; a_count := c ; a_seen := seen |} vs =
    (do sc <- int_fold p s c (ints_of vs);
     Ok {| a_sum := VInteger (fst sc) ; a_count := snd sc ; a_seen := seen |}).
  Proof.
    revert s c. induction vs as [|v vs IH]; intros s c H; [reflexivity|].
    cbn [int_col forallb] in H. apply andb_true_iff in H as [Hv Hvs].
    cbn [sum_fold ints_of]. unfold sum_step. cbn [andb a_sum a_count a_seen].
    destruct (int_value v) as [z|] eqn:Ez.
    - assert (Hn : is_null v = false) by (destruct v; cbn in *; congruence).
      assert (Hnum : is_numeric_value v = true) by (destruct v; cbn in *; try discriminate; reflexivity).
      rewrite Hn, Hnum. cbn [negb orb]. rewrite (add_sql_values_int p s v z Hv Ez).
      cbn [int_fold]. destruct (i64_op p (s + z)); cbn [bind]; try reflexivity.
      destruct (i64_op p (c + 1)); cbn [bind]; try reflexivity. apply IH. exact Hvs.
    - assert (Hn : is_null v = true) by (destruct v; cbn in *; congruence).
      rewrite Hn. cbn [orb bind]. apply IH. exact Hvs.
  Qed.
End Acc.

(** ** The integer loop *)
Lemma int_fold_release s c zs :
  exists s' c', int_fold Release s c zs = Ok (s', c') /\
                s' = (match zs with [] => s | _ => wrap64 (s + zsum zs) end) /\
                c' = (match zs with [] => c | _ => wrap64 (c + Z.of_nat (length zs)) end).
Proof.
  revert s c. induction zs as [|z zs IH]; intros s c; [exists s, c; auto|].
  cbn [int_fold]. rewrite !i64_op_release. cbn [bind].
  destruct (IH (wrap64 (s + z)) (wrap64 (c + 1))) as (s' & c' & E & Hs & Hc).
  exists s', c'. split; [exact E|]. rewrite Hs, Hc. destruct zs as [|z' zs'].
  - rewrite zsum_cons, zsum_nil. cbn [length]. split; f_equal; lia.
  - rewrite !wrap64_add_l, (zsum_cons z). split; f_equal; [lia|].
    change (length (z :: z' :: zs')) with (S (length (z' :: zs'))). lia.
Qed.

Lemma int_fold_debug_ok s c zs s' c' :
  int_fold Debug s c zs = Ok (s', c') ->
  s' = s + zsum zs /\ c' = c + Z.of_nat (length zs) /\ prefixes_fit s zs = true.
Proof.
  revert s c. induction zs as [|z zs IH]; intros s c H.
  - injection H as <- <-. cbn. repeat split; lia.
  - cbn [int_fold] in H.
    destruct (i64_op Debug (s + z)) eqn:E1; cbn [bind] in H; try discriminate.
    destruct (i64_op Debug (c + 1)) eqn:E2; cbn [bind] in H; try discriminate.
    apply i64_op_debug_ok in E1 as [-> F1]. apply i64_op_debug_ok in E2 as [-> F2].
    apply IH in H as (-> & -> & Hp). cbn [prefixes_fit]. rewrite F1, Hp. rewrite zsum_cons.
    repeat split; try lia. change (length (z :: zs)) with (S (length zs)). lia.
Qed.

Lemma int_fold_no_overflow p s c zs :
  prefixes_fit s zs = true -> 0 <= c -> c + Z.of_nat (length zs) < 2 ^ 63 ->
  int_fold p s c zs = Ok (s + zsum zs, c + Z.of_nat (length zs)).
Proof.
  revert s c. induction zs as [|z zs IH]; intros s c Hp Hc Hl.
  - cbn. f_equal. f_equal; lia.
  - cbn [prefixes_fit] in Hp. apply andb_true_iff in Hp as [F Hp].
    change (length (z :: zs)) with (S (length zs)) in *.
    cbn [int_fold]. rewrite (i64_op_fits p _ F). cbn [bind].
    rewrite i64_op_fits by (apply fits_i64_iff; lia). cbn [bind].
    rewrite IH by (try assumption; lia). rewrite zsum_cons. f_equal. f_equal; lia.
Qed.

Lemma int_fold_never_err p s c zs e : int_fold p s c zs <> Err e.
Proof.
  revert s c. induction zs as [|z zs IH]; intros s c; [discriminate|].
  cbn [int_fold]. destruct (i64_op p (s + z)) eqn:E1; cbn [bind]; [|exfalso; eapply i64_op_never_err; eauto|discriminate].
  destruct (i64_op p (c + 1)) eqn:E2; cbn [bind]; [apply IH|exfalso; eapply i64_op_never_err; eauto|discriminate].
Qed.

Lemma int_fold_debug_panic s c zs :
  0 <= c -> c + Z.of_nat (length zs) < 2 ^ 63 ->
  (int_fold Debug s c zs = Panic POverflow <-> prefixes_fit s zs = false).
Proof.
  intros Hc Hl. split.
  - intros H. destruct (prefixes_fit s zs) eqn:E; [|reflexivity].
    rewrite int_fold_no_overflow in H by assumption. discriminate.
  - intros H. destruct (int_fold Debug s c zs) as [[s' c']|e|x] eqn:E.
    + apply int_fold_debug_ok in E as (_ & _ & ?). congruence.
    + exfalso. eapply int_fold_never_err; eauto.
    + f_equal. clear H Hc Hl. revert s c E. induction zs as [|z zs IH]; intros s c E; [discriminate|].
      cbn [int_fold] in E.
      destruct (i64_op Debug (s + z)) eqn:E1; cbn [bind] in E; try discriminate.
      * destruct (i64_op Debug (c + 1)) eqn:E2; cbn [bind] in E; try discriminate.
        -- eapply IH; eassumption.
        -- injection E as <-. now apply i64_op_panic in E2.
      * injection E as <-. now apply i64_op_panic in E1.
Qed.

(** partial sums of non-negative (or non-positive) terms are monotone: the total decides *)
Lemma prefixes_fit_nonneg s zs :
  0 <= s -> Forall (fun z => 0 <= z) zs -> fits_i64 (s + zsum zs) = true -> prefixes_fit s zs = true.
Proof.
  revert s. induction zs as [|z zs IH]; intros s Hs Hall Hf; [reflexivity|].
  inversion Hall as [|? ? Hz Hzs]; subst. rewrite zsum_cons in Hf.
  pose proof (zsum_nonneg _ Hzs) as Hnn.
  cbn [prefixes_fit]. apply andb_true_iff. apply fits_i64_iff in Hf. split.
  - apply fits_i64_iff. pows. lia.
  - apply IH; [lia|assumption|]. apply fits_i64_iff. lia.
Qed.

Section AccTheorems.
  Variable temporal : bool -> sqlvalue -> sqlvalue -> res sqlvalue.

  Definition exact_sum_value (vs : list sqlvalue) : sqlvalue :=
    match ints_of vs with [] => VNull | zs => VInteger (zsum zs) end.

  Lemma length_ints_of vs : (length (ints_of vs) <= length vs)%nat.
  Proof. induction vs as [|v vs IH]; cbn [ints_of length]; [lia|]. destruct (int_value v); cbn [length]; lia. Qed.

  (** SUM in the Debug profile: whatever it returns is the exact sum *)
  Theorem sum_debug_exact vs v :
    int_col vs = true -> agg_sum temporal Debug false vs = Ok v -> v = exact_sum_value vs.
  Proof.
    intros Hc H. unfold agg_sum, acc0 in H. rewrite sum_fold_int in H by assumption.
    destruct (int_fold Debug 0 0 (ints_of vs)) as [[s' c']| |] eqn:E; cbn [bind] in H; try discriminate.
    injection H as <-. apply int_fold_debug_ok in E as (-> & -> & _).
    unfold sum_finalize, exact_sum_value. cbn [a_count a_sum fst snd].
    destruct (ints_of vs) as [|z zs]; [reflexivity|].
    change (length (z :: zs)) with (S (length zs)).
    destruct (Z.eqb_spec (0 + Z.of_nat (S (length zs))) 0); [lia|]. f_equal.
  Qed.

  (** SUM when no partial sum overflows: exact, in both profiles *)
  Theorem sum_no_wrap p vs :
    int_col vs = true -> Z.of_nat (length vs) < 2 ^ 63 -> prefixes_fit 0 (ints_of vs) = true ->
    agg_sum temporal p false vs = Ok (exact_sum_value vs).
  Proof.
    intros Hc Hl Hp. unfold agg_sum, acc0. rewrite sum_fold_int by assumption.
    pose proof (length_ints_of vs).
    rewrite int_fold_no_overflow by (try assumption; lia). cbn [bind].
    unfold sum_finalize, exact_sum_value. cbn [a_count a_sum fst snd].
    destruct (ints_of vs) as [|z zs]; [reflexivity|].
    change (length (z :: zs)) with (S (length zs)).
    destruct (Z.eqb_spec (0 + Z.of_nat (S (length zs))) 0); [lia|]. reflexivity.
  Qed.

  (** the Debug build panics exactly when a partial sum overflows *)
  Theorem sum_debug_panic_iff vs :
    int_col vs = true -> Z.of_nat (length vs) < 2 ^ 63 ->
    (agg_sum temporal Debug false vs = Panic POverflow <-> prefixes_fit 0 (ints_of vs) = false).
  Proof.
    intros Hc Hl. unfold agg_sum, acc0. rewrite sum_fold_int by assumption.
    pose proof (length_ints_of vs).
    rewrite <- (int_fold_debug_panic 0 0 (ints_of vs)) by lia.
    destruct (int_fold Debug 0 0 (ints_of vs)) as [[s' c']| |]; cbn [bind]; split; congruence.
  Qed.

  (** the Release build returns the wrapped sum: silently wrong exactly when the sum does not fit *)
  Theorem sum_release_wraps vs :
    int_col vs = true -> Z.of_nat (length vs) < 2 ^ 63 ->
    agg_sum temporal Release false vs =
    Ok (match ints_of vs with [] => VNull | zs => VInteger (wrap64 (zsum zs)) end).
  Proof.
    intros Hc Hl. unfold agg_sum, acc0. rewrite sum_fold_int by assumption.
    pose proof (length_ints_of vs) as Hle.
    destruct (int_fold_release 0 0 (ints_of vs)) as (s' & c' & E & Hs & Hcn). rewrite E. cbn [bind].
    unfold sum_finalize. cbn [a_count a_sum fst snd]. subst s' c'.
    destruct (ints_of vs) as [|z zs]; [reflexivity|].
    rewrite wrap64_id by (apply fits_i64_iff; pows; lia).
    change (length (z :: zs)) with (S (length zs)) in *.
    destruct (Z.eqb_spec (0 + Z.of_nat (S (length zs))) 0); [lia|]. reflexivity.
  Qed.
  (** AVG over an integer column: the same accumulation, then one f64 division *)
  Theorem avg_debug_exact vs v :
    int_col vs = true -> agg_avg temporal Debug false vs = Ok v ->
    v = match ints_of vs with
        | [] => VNull
        | zs => VNumeric (fdiv b64 (f_of_Z b64 (zsum zs)) (f_of_Z b64 (Z.of_nat (length zs))))
        end.
  Proof.
    intros Hc H. unfold agg_avg, acc0 in H. rewrite sum_fold_int in H by assumption.
    destruct (int_fold Debug 0 0 (ints_of vs)) as [[s' c']| |] eqn:E; cbn [bind] in H; try discriminate.
    injection H as <-. apply int_fold_debug_ok in E as (-> & -> & _).
    unfold avg_finalize. cbn [a_count a_sum fst snd sql_value_to_f64].
    destruct (ints_of vs) as [|z zs]; [reflexivity|].
    change (length (z :: zs)) with (S (length zs)).
    destruct (Z.eqb_spec (0 + Z.of_nat (S (length zs))) 0); [lia|]. rewrite !Z.add_0_l. reflexivity.
  Qed.

  Theorem avg_no_wrap p vs :
    int_col vs = true -> Z.of_nat (length vs) < 2 ^ 63 -> prefixes_fit 0 (ints_of vs) = true ->
    agg_avg temporal p false vs =
    Ok match ints_of vs with
       | [] => VNull
       | zs => VNumeric (fdiv b64 (f_of_Z b64 (zsum zs)) (f_of_Z b64 (Z.of_nat (length zs))))
       end.
  Proof.
    intros Hc Hl Hp. unfold agg_avg, acc0. rewrite sum_fold_int by assumption.
    pose proof (length_ints_of vs).
    rewrite int_fold_no_overflow by (try assumption; lia). cbn [bind].
    unfold avg_finalize. cbn [a_count a_sum fst snd sql_value_to_f64].
    destruct (ints_of vs) as [|z zs]; [reflexivity|].
    change (length (z :: zs)) with (S (length zs)).
    destruct (Z.eqb_spec (0 + Z.of_nat (S (length zs))) 0); [lia|]. rewrite !Z.add_0_l. reflexivity.
  Qed.
End AccTheorems.

(** [SELECT SUM(a)] over the rows 9223372036854775807 and 1 *)
Lemma sum_no_wrap_refuted :
  agg_sum no_temporal Debug false [VInteger i64_max; VInteger 1] = Panic POverflow /\
  agg_sum no_temporal Release false [VInteger i64_max; VInteger 1] = Ok (VInteger i64_min).
Proof. vm_compute. auto. Qed.

Example sum_example :
  agg_sum no_temporal Release false [VInteger 5; VNull; VSmallint (-7); VBigint 40] = Ok (VInteger 38) /\
  prefixes_fit 0 (ints_of [VInteger 5; VNull; VSmallint (-7); VBigint 40]) = true /\
  agg_sum no_temporal Debug true [VInteger 5; VInteger 5; VNull] = Ok (VInteger 5) /\
  agg_avg no_temporal Debug false [VInteger 1; VInteger 2] = Ok (VNumeric 4609434218613702656).
Proof. vm_compute. auto. Qed.

(** * simd_sum_i64 *)
Lemma list_ind4 {A} (P : list A -> Prop) :
  (forall l, (length l < 4)%nat -> P l) ->
  (forall a b c d r, P r -> P (a :: b :: c :: d :: r)) ->
  forall l, P l.
Proof.
  intros Hs H4.
  assert (G : forall n l, (length l <= n)%nat -> P l).
  { induction n as [|n IH]; intros l Hl.
    - apply Hs. lia.
    - destruct l as [|a [|b [|c [|d r]]]]; try (apply Hs; cbn; lia).
      apply H4. apply IH. cbn [length] in Hl. lia. }
  intros l. apply (G (length l)). lia.
Qed.

Lemma scalar_sum_release s col : scalar_sum_i64 Release s col = Ok (match col with [] => s | _ => wrap64 (s + zsum col) end).
Proof.
  revert s. induction col as [|x col IH]; intros s; [reflexivity|].
  cbn [scalar_sum_i64]. rewrite i64_op_release. cbn [bind]. rewrite IH.
  destruct col as [|y col']; [cbn; f_equal; f_equal; lia|].
  rewrite wrap64_add_l, (zsum_cons x). f_equal. f_equal. lia.
Qed.

Lemma scalar_sum_debug_ok s col v : scalar_sum_i64 Debug s col = Ok v -> v = s + zsum col.
Proof.
  revert s. induction col as [|x col IH]; intros s H; [injection H as <-; cbn; lia|].
  cbn [scalar_sum_i64] in H. destruct (i64_op Debug (s + x)) eqn:E; cbn [bind] in H; try discriminate.
  apply i64_op_debug_ok in E as [-> _]. apply IH in H. rewrite zsum_cons. lia.
Qed.

Lemma scalar_sum_nonneg p s col :
  0 <= s -> Forall (fun z => 0 <= z) col -> fits_i64 (s + zsum col) = true ->
  scalar_sum_i64 p s col = Ok (s + zsum col).
Proof.
  revert s. induction col as [|x col IH]; intros s Hs Hall Hf; [cbn; f_equal; lia|].
  inversion Hall as [|? ? Hx Hcol]; subst. rewrite zsum_cons in *.
  pose proof (zsum_nonneg _ Hcol) as Hnn.
  apply fits_i64_iff in Hf. cbn [scalar_sum_i64].
  rewrite i64_op_fits by (apply fits_i64_iff; pows; lia). cbn [bind].
  rewrite IH; [f_equal; lia|lia|assumption|apply fits_i64_iff; lia].
Qed.

(** wrapped arithmetic is a ring homomorphism: the Release result of [simd_sum_i64] is the wrap of
    the exact sum, whatever the chunking *)
Lemma simd_sum_from_release s col :
  fits_i64 s = true -> simd_sum_i64_from Release s col = Ok (wrap64 (s + zsum col)).
Proof.
  revert s. induction col as [l Hlen | a b c d r IHcol] using list_ind4; intros s Hs.
  - assert (E : simd_sum_i64_from Release s l = scalar_sum_i64 Release s l).
    { destruct l as [|a [|b [|c [|d r]]]]; try reflexivity. cbn [length] in Hlen. lia. }
    rewrite E, scalar_sum_release. destruct l; [cbn; now rewrite Z.add_0_r, wrap64_id|reflexivity].
  - cbn [simd_sum_i64_from]. rewrite !i64_op_release. cbn [bind]. rewrite i64_op_release. cbn [bind].
    rewrite i64_op_release. cbn [bind]. rewrite i64_op_release. cbn [bind].
    rewrite IHcol by apply wrap64_fits. f_equal. rewrite !zsum_cons. apply wrap64_ext.
    unwrap1 k1. unwrap1 k2. unwrap1 k3. unwrap1 k4. exists (k1 + k2 + k3 + k4). lia.
Qed.

Theorem simd_sum_release col : simd_sum_i64 Release col = Ok (wrap64 (zsum col)).
Proof. unfold simd_sum_i64. rewrite simd_sum_from_release by reflexivity. reflexivity. Qed.

Lemma simd_sum_from_debug_ok s col v : simd_sum_i64_from Debug s col = Ok v -> v = s + zsum col.
Proof.
  revert s. induction col as [l Hlen | a b c d r IHcol] using list_ind4; intros s Hv.
  - assert (E : simd_sum_i64_from Debug s l = scalar_sum_i64 Debug s l).
    { destruct l as [|a [|b [|c [|d r]]]]; try reflexivity. cbn [length] in Hlen. lia. }
    rewrite E in Hv. now apply scalar_sum_debug_ok.
  - cbn [simd_sum_i64_from] in Hv.
    destruct (i64_op Debug (a + b)) eqn:E1; cbn [bind] in Hv; try discriminate.
    destruct (i64_op Debug (v0 + c)) eqn:E2; cbn [bind] in Hv; try discriminate.
    destruct (i64_op Debug (v1 + d)) eqn:E3; cbn [bind] in Hv; try discriminate.
    destruct (i64_op Debug (s + v2)) eqn:E4; cbn [bind] in Hv; try discriminate.
    apply i64_op_debug_ok in E1 as [-> _]. apply i64_op_debug_ok in E2 as [-> _].
    apply i64_op_debug_ok in E3 as [-> _]. apply i64_op_debug_ok in E4 as [-> _].
    apply IHcol in Hv. rewrite !zsum_cons. lia.
Qed.

Theorem simd_sum_debug_exact col v : simd_sum_i64 Debug col = Ok v -> v = zsum col.
Proof. unfold simd_sum_i64. intros H. apply simd_sum_from_debug_ok in H. lia. Qed.

Lemma simd_sum_never_err p s col e : simd_sum_i64_from p s col <> Err e.
Proof.
  assert (Sc : forall s l, scalar_sum_i64 p s l <> Err e).
  { intros s' l. revert s'. induction l as [|x l IH]; intros s'; [discriminate|].
    cbn [scalar_sum_i64]. destruct (i64_op p (s' + x)) eqn:E; cbn [bind];
      [apply IH|exfalso; eapply i64_op_never_err; eauto|discriminate]. }
  revert s. induction col as [l Hlen | a b c d r IHcol] using list_ind4; intros s.
  - destruct l as [|a [|b [|c [|d r]]]]; try apply Sc. cbn [length] in Hlen. lia.
  - cbn [simd_sum_i64_from].
    repeat match goal with
           | |- bind (i64_op ?q ?z) _ <> _ =>
               let E := fresh "E" in destruct (i64_op q z) eqn:E; cbn [bind];
               [|exfalso; eapply i64_op_never_err; eauto|discriminate]
           end. apply IHcol.
Qed.

(** non-negative terms whose sum fits: no intermediate overflow, both profiles *)
Lemma simd_sum_from_nonneg p s col :
  0 <= s -> Forall (fun z => 0 <= z) col -> fits_i64 (s + zsum col) = true ->
  simd_sum_i64_from p s col = Ok (s + zsum col).
Proof.
  revert s. induction col as [l Hlen | a b c d r IHcol] using list_ind4; intros s Hs Hall Hf.
  - assert (E : simd_sum_i64_from p s l = scalar_sum_i64 p s l).
    { destruct l as [|a [|b [|c [|d r]]]]; try reflexivity. cbn [length] in Hlen. lia. }
    rewrite E. now apply scalar_sum_nonneg.
  - inversion Hall as [|? ? Ha Hall1]; subst. inversion Hall1 as [|? ? Hb Hall2]; subst.
    inversion Hall2 as [|? ? Hcc Hall3]; subst. inversion Hall3 as [|? ? Hd Hall4]; subst.
    pose proof (zsum_nonneg _ Hall4) as Hnn.
    rewrite !zsum_cons in *. apply fits_i64_iff in Hf. cbn [simd_sum_i64_from].
    rewrite (i64_op_fits p (a + b)) by (apply fits_i64_iff; pows; lia). cbn [bind].
    rewrite (i64_op_fits p (a + b + c)) by (apply fits_i64_iff; pows; lia). cbn [bind].
    rewrite (i64_op_fits p (a + b + c + d)) by (apply fits_i64_iff; pows; lia). cbn [bind].
    rewrite (i64_op_fits p (s + (a + b + c + d))) by (apply fits_i64_iff; pows; lia). cbn [bind].
    rewrite IHcol; [f_equal; lia|lia|assumption|apply fits_i64_iff; lia].
Qed.

Theorem simd_sum_nonneg p col :
  Forall (fun z => 0 <= z) col -> fits_i64 (zsum col) = true -> simd_sum_i64 p col = Ok (zsum col).
Proof. intros Ha Hf. unfold simd_sum_i64. rewrite simd_sum_from_nonneg; auto; lia. Qed.

(** the Debug build can panic on an INTERMEDIATE chunk sum although the total fits *)
Lemma simd_sum_intermediate_overflow_refuted :
  simd_sum_i64 Debug [i64_max; 1; -5; 0] = Panic POverflow /\
  fits_i64 (zsum [i64_max; 1; -5; 0]) = true /\
  simd_sum_i64 Release [i64_max; 1; -5; 0] = Ok (zsum [i64_max; 1; -5; 0]).
Proof. vm_compute. auto. Qed.

(** * simd_aggregate_i64 (SUM) *)
Lemma extract_i64_int_cell v : int_cell v = true -> extract_i64 v = Ok (int_value v).
Proof. destruct v; cbn; try discriminate; reflexivity. Qed.

(** Release: the loop keeps [sum + zsum batch] congruent to the exact running total *)
Lemma simd_agg_loop_release bsize batch blen sum count vs :
  int_col vs = true -> fits_i64 sum = true ->
  exists batch' sum' count',
    simd_agg_i64_loop Release bsize batch blen sum count vs = Ok (batch', sum', count') /\
    fits_i64 sum' = true /\
    wrap64 (sum' + zsum batch') = wrap64 (sum + zsum batch + zsum (ints_of vs)) /\
    wrap64 count' = wrap64 (count + Z.of_nat (length (ints_of vs))).
Proof.
  revert batch blen sum count. induction vs as [|v vs IH]; intros batch blen sum count Hc Hs.
  - exists batch, sum, count. cbn. repeat split; auto; f_equal; lia.
  - cbn [int_col forallb] in Hc. apply andb_true_iff in Hc as [Hv Hvs].
    cbn [simd_agg_i64_loop ints_of]. rewrite (extract_i64_int_cell v Hv). cbn [bind].
    destruct (int_value v) as [z|].
    + rewrite i64_op_release. cbn [bind]. destruct (Nat.leb bsize (S blen)).
      * rewrite simd_sum_release. cbn [bind]. rewrite i64_op_release. cbn [bind].
        destruct (IH [] O (wrap64 (sum + wrap64 (zsum (rev (z :: batch))))) (wrap64 (count + 1)) Hvs (wrap64_fits _))
          as (b' & s' & c' & E & F & Hsum & Hcnt).
        exists b', s', c'. split; [exact E|]. split; [exact F|]. split.
        -- rewrite Hsum, zsum_nil, zsum_rev, !zsum_cons. apply wrap64_ext.
           unwrap1 k1. unwrap1 k2. exists (k1 + k2). lia.
        -- rewrite Hcnt. change (length (z :: ints_of vs)) with (S (length (ints_of vs))).
           apply wrap64_ext. unwrap1 k1. exists k1. lia.
      * destruct (IH (z :: batch) (S blen) sum (wrap64 (count + 1)) Hvs Hs) as (b' & s' & c' & E & F & Hsum & Hcnt).
        exists b', s', c'. split; [exact E|]. split; [exact F|]. split.
        -- rewrite Hsum, !zsum_cons. f_equal. lia.
        -- rewrite Hcnt. change (length (z :: ints_of vs)) with (S (length (ints_of vs))).
           apply wrap64_ext. unwrap1 k1. exists k1. lia.
    + apply IH; assumption.
Qed.

Theorem simd_aggregate_release_wraps bsize vs :
  int_col vs = true -> Z.of_nat (length vs) < 2 ^ 63 ->
  simd_aggregate_i64 Release bsize AggSum vs =
  Ok (match ints_of vs with [] => VNull | zs => VDouble (f_of_Z b64 (wrap64 (zsum zs))) end).
Proof.
  intros Hc Hl. unfold simd_aggregate_i64.
  destruct (simd_agg_loop_release bsize [] O 0 0 vs Hc eq_refl) as (b' & s' & c' & E & F & Hsum & Hcnt).
  rewrite E. cbn [bind].
  assert (Hfin : (match b' with
                  | [] => Ok s'
                  | _ :: _ => do bs <- simd_sum_i64 Release (rev b'); i64_op Release (s' + bs)
                  end) = Ok (wrap64 (zsum (ints_of vs)))).
  { cbn [zsum fold_right] in Hsum. rewrite !Z.add_0_l in Hsum. destruct b' as [|x b''].
    - cbn [zsum fold_right] in Hsum. rewrite Z.add_0_r, wrap64_id in Hsum by assumption. now rewrite Hsum.
    - rewrite simd_sum_release. cbn [bind]. rewrite i64_op_release, wrap64_add_r, zsum_rev. now rewrite Hsum. }
  rewrite Hfin. cbn [bind].
  pose proof (length_ints_of vs) as Hle. rewrite Z.add_0_l in Hcnt.
  assert (Hc' : wrap64 c' = Z.of_nat (length (ints_of vs))).
  { rewrite Hcnt. apply wrap64_id. apply fits_i64_iff. pows. lia. }
  (* [count] itself is a wrapped value produced by i64_op, hence within range; we only need its zero test *)
  destruct (ints_of vs) as [|z zs] eqn:Ei.
  - assert (c' = 0).
    { clear -E Ei Hc. revert E.
      assert (G : forall batch blen sum count b s c,
                 simd_agg_i64_loop Release bsize batch blen sum count vs = Ok (b, s, c) -> c = count).
      { revert Hc Ei. induction vs as [|v vs IH]; intros Hc Ei batch blen sum count b s c H.
        - now injection H.
        - cbn [int_col forallb] in Hc. apply andb_true_iff in Hc as [Hv Hvs].
          cbn [simd_agg_i64_loop] in H. rewrite (extract_i64_int_cell v Hv) in H. cbn [bind] in H.
          cbn [ints_of] in Ei. destruct (int_value v); [discriminate|]. eapply IH; eassumption. }
      intros E. symmetry. eapply G in E. lia. }
    subst c'. reflexivity.
  - destruct (Z.eqb_spec c' 0) as [->|Hn]; [|reflexivity].
    exfalso. change (length (z :: zs)) with (S (length zs)) in Hc'. cbn in Hc'. lia.
Qed.

(** Debug: whatever the loop returns accounts exactly for every value *)
Lemma simd_agg_loop_debug_ok bsize batch blen sum count vs b' s' c' :
  int_col vs = true ->
  simd_agg_i64_loop Debug bsize batch blen sum count vs = Ok (b', s', c') ->
  s' + zsum b' = sum + zsum batch + zsum (ints_of vs) /\ c' = count + Z.of_nat (length (ints_of vs)).
Proof.
  revert batch blen sum count. induction vs as [|v vs IH]; intros batch blen sum count Hc H.
  - injection H as <- <- <-. cbn. lia.
  - cbn [int_col forallb] in Hc. apply andb_true_iff in Hc as [Hv Hvs].
    cbn [simd_agg_i64_loop ints_of] in *. rewrite (extract_i64_int_cell v Hv) in H. cbn [bind] in H.
    destruct (int_value v) as [z|]; [|now apply IH in H].
    destruct (i64_op Debug (count + 1)) eqn:E1; cbn [bind] in H; try discriminate.
    apply i64_op_debug_ok in E1 as [-> _].
    change (length (z :: ints_of vs)) with (S (length (ints_of vs))). rewrite zsum_cons.
    destruct (Nat.leb bsize (S blen)).
    + destruct (simd_sum_i64 Debug (rev (z :: batch))) eqn:E2; cbn [bind] in H; try discriminate.
      apply simd_sum_debug_exact in E2. subst v0.
      destruct (i64_op Debug (sum + zsum (rev (z :: batch)))) eqn:E3; cbn [bind] in H; try discriminate.
      apply i64_op_debug_ok in E3 as [-> _].
      apply IH in H as [Hs Hcn]; [|assumption]. rewrite zsum_rev, zsum_cons in Hs. cbn [zsum fold_right] in Hs. lia.
    + apply IH in H as [Hs Hcn]; [|assumption]. rewrite zsum_cons in Hs. lia.
Qed.

Theorem simd_aggregate_debug_exact bsize vs v :
  int_col vs = true ->
  simd_aggregate_i64 Debug bsize AggSum vs = Ok v ->
  v = match ints_of vs with [] => VNull | zs => VDouble (f_of_Z b64 (zsum zs)) end.
Proof.
  intros Hc H. unfold simd_aggregate_i64 in H.
  destruct (simd_agg_i64_loop Debug bsize [] O 0 0 vs) as [[[b' s'] c']| |] eqn:E; cbn [bind] in H; try discriminate.
  apply simd_agg_loop_debug_ok in E as [Hs Hcn]; [|assumption].
  cbn [zsum fold_right] in Hs. rewrite !Z.add_0_l in *.
  assert (Hfin : forall w, (match b' with
                  | [] => Ok s'
                  | _ :: _ => do bs <- simd_sum_i64 Debug (rev b'); i64_op Debug (s' + bs)
                  end) = Ok w -> w = zsum (ints_of vs)).
  { intros w. destruct b' as [|x b''].
    - intros [= <-]. cbn [zsum fold_right] in Hs. lia.
    - destruct (simd_sum_i64 Debug (rev (x :: b''))) eqn:E2; cbn [bind]; try discriminate.
      apply simd_sum_debug_exact in E2. subst v0. intros E3. apply i64_op_debug_ok in E3 as [-> _].
      rewrite zsum_rev. lia. }
  destruct (match b' with [] => Ok s' | _ :: _ => _ end) as [w| |] eqn:E4; cbn [bind] in H; try discriminate.
  specialize (Hfin w eq_refl). subst w c'.
  destruct (ints_of vs) as [|z zs].
  - cbn in H. now injection H.
  - change (length (z :: zs)) with (S (length zs)) in H.
    destruct (Z.eqb_spec (Z.of_nat (S (length zs))) 0); [lia|]. now injection H.
Qed.

(** * the f64 paths (simd_aggregate_f64, compute_sum) add in floating point: no panic, whatever the values *)
Lemma simd_agg_f64_loop_no_panic p bsize batch blen sum count vs x :
  0 <= count -> count + Z.of_nat (length vs) < 2 ^ 63 ->
  simd_agg_f64_loop p bsize batch blen sum count vs <> Panic x.
Proof.
  revert batch blen sum count. induction vs as [|v vs IH]; intros batch blen sum count H0 Hl; [discriminate|].
  change (length (v :: vs)) with (S (length vs)) in Hl.
  cbn [simd_agg_f64_loop]. destruct (extract_f64 v) as [[z|]| |] eqn:E; cbn [bind].
  - rewrite i64_op_fits by (apply fits_i64_iff; lia). cbn [bind].
    destruct (Nat.leb bsize (S blen)); apply IH; lia.
  - apply IH; lia.
  - discriminate.
  - destruct v; discriminate.
Qed.

Theorem simd_aggregate_f64_no_panic p bsize op vs x :
  Z.of_nat (length vs) < 2 ^ 63 -> simd_aggregate_f64 p bsize op vs <> Panic x.
Proof.
  intros Hl. unfold simd_aggregate_f64.
  destruct (simd_agg_f64_loop p bsize [] 0 0 0 vs) as [[[b s] c]| |] eqn:E; cbn [bind].
  - destruct (c =? 0); [discriminate|]. destruct op; discriminate.
  - discriminate.
  - exfalso. eapply simd_agg_f64_loop_no_panic; [| |exact E]; lia.
Qed.

Lemma compute_sum_loop_no_panic sum count vs x : compute_sum_loop sum count vs <> Panic x.
Proof.
  revert sum count. induction vs as [|v vs IH]; intros sum count; [discriminate|].
  cbn [compute_sum_loop]. destruct v; try apply IH; discriminate.
Qed.

Theorem compute_sum_no_panic vs x : compute_sum vs <> Panic x.
Proof.
  unfold compute_sum. destruct (compute_sum_loop 0 0 vs) eqn:E; cbn [bind]; try discriminate.
  exfalso. eapply compute_sum_loop_no_panic; eassumption.
Qed.

(** the columnar dispatcher: an integer first value within the first 100 rows selects the i64 path;
    consequently every panic of a columnar SUM/AVG is an i64 overflow of the simd path *)
Theorem columnar_aggregate_panic_only_i64_path p bsize op vs x :
  Z.of_nat (length vs) < 2 ^ 63 ->
  columnar_aggregate p bsize op vs = Panic x ->
  can_use_simd 100 vs = Some true /\ simd_aggregate_i64 p bsize op vs = Panic x.
Proof.
  intros Hl. unfold columnar_aggregate. destruct (can_use_simd 100 vs) as [[|]|]; intros H.
  - auto.
  - exfalso. eapply simd_aggregate_f64_no_panic; eassumption.
  - exfalso. destruct op.
    + eapply compute_sum_no_panic; eassumption.
    + unfold compute_avg in H. destruct (compute_sum vs) as [w| |] eqn:E; cbn [bind] in H; try discriminate.
      * destruct w; try discriminate. destruct (0 <? _); discriminate.
      * eapply compute_sum_no_panic; eassumption.
Qed.

Lemma simd_aggregate_refuted :
  simd_aggregate_i64 Debug 1024 AggSum [VInteger i64_max; VInteger 1] = Panic POverflow /\
  simd_aggregate_i64 Release 1024 AggSum [VInteger i64_max; VInteger 1] = Ok (VDouble 14114281232179134464). (* -2^63 as f64 *)
Proof. vm_compute. auto. Qed.

Example simd_aggregate_example :
  simd_aggregate_i64 Debug 2 AggSum [VInteger 1; VNull; VBigint 2; VSmallint 3; VInteger 4; VInteger 5]
  = Ok (VDouble 4624633867356078080) (* 15.0 *) /\
  int_col [VInteger 1; VNull; VBigint 2; VSmallint 3; VInteger 4; VInteger 5] = true.
Proof. vm_compute. auto. Qed.
