(** C24 — laws of the SUM accumulation models of Mech/Arith.v:
    the row-at-a-time [AggregateAccumulator] (sum_fold / agg_sum), [simd_sum_i64] and the streaming
    [simd_aggregate_i64] of the columnar path.

    After the C24 fix commits: the accumulator adds with the CHECKED [+] (an out-of-range partial sum
    makes the sum NULL: add_sql_values turns the error into NULL, and NULL is absorbing); the columnar
    path accumulates in i128 and is exact for every column. *)
From Coq Require Import ZArith List Bool Lia.
From VibeSQL Require Import Base.LexOrd Value.SqlValue Mech.F64 Mech.Arith Mech.ArithLaws.
Import ListNotations.
Open Scope Z_scope.

Definition zsum (l : list Z) : Z := fold_right Z.add 0 l.

Lemma zsum_app a b : zsum (a ++ b) = zsum a + zsum b.
Proof. unfold zsum. induction a as [|x a IH]; cbn [fold_right app]; lia. Qed.
Lemma zsum_cons x a : zsum (x :: a) = x + zsum a.
Proof. reflexivity. Qed.
Lemma zsum_nil : zsum [] = 0.
Proof. reflexivity. Qed.
Lemma zsum_nonneg l : Forall (fun z => 0 <= z) l -> 0 <= zsum l.
Proof. induction 1; [rewrite zsum_nil; lia|rewrite zsum_cons; lia]. Qed.
Lemma zsum_rev a : zsum (rev a) = zsum a.
Proof.
  induction a as [|x a IH]; [reflexivity|]. cbn [rev]. rewrite zsum_app, IH, !zsum_cons, zsum_nil. lia.
Qed.

(** integer column: INTEGER / SMALLINT / BIGINT values and NULLs, each within its Rust type *)
Definition int_value (v : sqlvalue) : option Z :=
  match v with VInteger z | VSmallint z | VBigint z => Some z | _ => None end.
Definition int_cell (v : sqlvalue) : bool :=
  match v with VInteger _ | VSmallint _ | VBigint _ => wf v | VNull => true | _ => false end.
Definition int_col (vs : list sqlvalue) : bool := forallb int_cell vs.
Fixpoint ints_of (vs : list sqlvalue) : list Z :=
  match vs with
  | [] => []
  | v :: rest => match int_value v with Some z => z :: ints_of rest | None => ints_of rest end
  end.

Lemma int_cell_fits v z : int_cell v = true -> int_value v = Some z -> fits_i64 z = true.
Proof.
  destruct v; cbn [int_cell int_value wf]; try discriminate; intros W [= <-];
    unfold in_range in W; apply andb_true_iff in W as [W0 W1]; apply Z.leb_le in W0; apply Z.ltb_lt in W1;
    apply fits_i64_iff; pows; lia.
Qed.

(** * The accumulator on integers *)
(** every partial sum [s + z1 + ... + zk] (k >= 1) fits i64 *)
Fixpoint prefixes_fit (s : Z) (zs : list Z) : bool :=
  match zs with
  | [] => true
  | z :: rest => fits_i64 (s + z) && prefixes_fit (s + z) rest
  end.

(** the accumulator loop on integers: [None] is the NULL the sum becomes after an out-of-range addition *)
Fixpoint int_fold (p : profile) (s : option Z) (c : Z) (zs : list Z) : res (option Z * Z) :=
  match zs with
  | [] => Ok (s, c)
  | z :: rest =>
      let s' := match s with
                | Some x => if fits_i64 (x + z) then Some (x + z) else None
                | None => None
                end in
      do c' <- i64_op p (c + 1); int_fold p s' c' rest
  end.

Definition sum_value (s : option Z) : sqlvalue := match s with Some x => VInteger x | None => VNull end.

Section Acc.
  Variable temporal : bool -> sqlvalue -> sqlvalue -> res sqlvalue.

  Lemma add_sql_values_int s v z :
    int_cell v = true -> int_value v = Some z ->
    add_sql_values temporal (VInteger s) v = Ok (if fits_i64 (s + z) then VInteger (s + z) else VNull).
  Proof.
    intros W Hz. unfold add_sql_values, eval_binary_op.
    assert (Hn : is_null v = false) by (destruct v; cbn in *; congruence).
    cbn [is_null orb]. rewrite Hn.
    assert (E : exact_pair (VInteger s) v = Some (s, z)).
    { unfold exact_pair. cbn [is_null orb]. rewrite Hn.
      destruct v; cbn [int_value] in Hz; try discriminate; injection Hz as <-; reflexivity. }
    pose proof (arith3_exact temporal OAdd _ _ _ _ E) as A. cbn [arith3 z_op] in A. rewrite A.
    unfold checked_i64. destruct (fits_i64 (s + z)); reflexivity.
  Qed.

  Lemma add_sql_values_null v : add_sql_values temporal VNull v = Ok VNull.
  Proof. reflexivity. Qed.

  Lemma sum_fold_int p s c seen vs :
    int_col vs = true ->
    sum_fold temporal p false {| a_sum := sum_value s ; a_count := c ; a_seen := seen |} vs =
    (do sc <- int_fold p s c (ints_of vs);
     Ok {| a_sum := sum_value (fst sc) ; a_count := snd sc ; a_seen := seen |}).
  Proof.
    revert s c. induction vs as [|v vs IH]; intros s c H; [reflexivity|].
    cbn [int_col forallb] in H. apply andb_true_iff in H as [Hv Hvs].
    cbn [sum_fold ints_of]. unfold sum_step. cbn [andb a_sum a_count a_seen].
    destruct (int_value v) as [z|] eqn:Ez.
    - assert (Hn : is_null v = false) by (destruct v; cbn in *; congruence).
      assert (Hnum : is_numeric_value v = true) by (destruct v; cbn in *; try discriminate; reflexivity).
      rewrite Hn, Hnum. cbn [negb orb int_fold].
      destruct s as [x|]; cbn [sum_value].
      + rewrite (add_sql_values_int x v z Hv Ez). cbn [bind].
        destruct (i64_op p (c + 1)); cbn [bind]; try reflexivity.
        destruct (fits_i64 (x + z)); [apply (IH (Some (x + z)))|apply (IH None)]; exact Hvs.
      + rewrite add_sql_values_null. cbn [bind].
        destruct (i64_op p (c + 1)); cbn [bind]; try reflexivity. apply (IH None). exact Hvs.
    - assert (Hn : is_null v = true) by (destruct v; cbn in *; congruence).
      rewrite Hn. cbn [orb bind]. apply IH. exact Hvs.
  Qed.
End Acc.

(** ** The integer loop: the exact sum while every partial sum fits, NULL from the first one that does not *)
Lemma int_fold_none p c zs :
  0 <= c -> c + Z.of_nat (length zs) < 2 ^ 63 ->
  int_fold p None c zs = Ok (None, c + Z.of_nat (length zs)).
Proof.
  revert c. induction zs as [|z zs IH]; intros c Hc Hl; [cbn; do 2 f_equal; lia|].
  change (length (z :: zs)) with (S (length zs)) in *. cbn [int_fold].
  rewrite i64_op_fits by (apply fits_i64_iff; lia). cbn [bind]. rewrite IH by lia. do 2 f_equal. lia.
Qed.

Lemma int_fold_spec p s c zs :
  0 <= c -> c + Z.of_nat (length zs) < 2 ^ 63 ->
  int_fold p (Some s) c zs =
  Ok (if prefixes_fit s zs then Some (s + zsum zs) else None, c + Z.of_nat (length zs)).
Proof.
  revert s c. induction zs as [|z zs IH]; intros s c Hc Hl.
  - cbn [int_fold prefixes_fit length]. rewrite zsum_nil. f_equal. f_equal; [f_equal; lia|lia].
  - change (length (z :: zs)) with (S (length zs)) in *. cbn [int_fold prefixes_fit].
    rewrite i64_op_fits by (apply fits_i64_iff; lia). cbn [bind].
    destruct (fits_i64 (s + z)); cbn [andb].
    + rewrite IH by lia. rewrite zsum_cons. f_equal. f_equal; [|lia].
      destruct (prefixes_fit (s + z) zs); [f_equal; lia|reflexivity].
    + rewrite int_fold_none by lia. do 2 f_equal. lia.
Qed.

(** partial sums of non-negative (or non-positive) terms are monotone: the total decides *)
Lemma prefixes_fit_nonneg s zs :
  0 <= s -> Forall (fun z => 0 <= z) zs -> fits_i64 (s + zsum zs) = true -> prefixes_fit s zs = true.
Proof.
  revert s. induction zs as [|z zs IH]; intros s Hs Hall Hf; [reflexivity|].
  inversion Hall as [|? ? Hz Hzs]; subst. rewrite zsum_cons in Hf.
  pose proof (zsum_nonneg _ Hzs) as Hnn.
  cbn [prefixes_fit]. apply andb_true_iff. apply fits_i64_iff in Hf. split.
  - apply fits_i64_iff. pows. lia.
  - apply IH; [lia|assumption|]. apply fits_i64_iff. lia.
Qed.

Section AccTheorems.
  Variable temporal : bool -> sqlvalue -> sqlvalue -> res sqlvalue.

  Definition exact_sum_value (vs : list sqlvalue) : sqlvalue :=
    match ints_of vs with [] => VNull | zs => VInteger (zsum zs) end.

  Lemma length_ints_of vs : (length (ints_of vs) <= length vs)%nat.
  Proof. induction vs as [|v vs IH]; cbn [ints_of length]; [lia|]. destruct (int_value v); cbn [length]; lia. Qed.

  (** SUM over an integer column, in every build: the exact sum when every partial sum (in row order)
      fits i64, NULL otherwise — never a wrapped value, never a panic *)
  Theorem sum_exact_or_null p vs :
    int_col vs = true -> Z.of_nat (length vs) < 2 ^ 63 ->
    agg_sum temporal p false vs =
    Ok (if prefixes_fit 0 (ints_of vs) then exact_sum_value vs else VNull).
  Proof.
    intros Hc Hl. unfold agg_sum, acc0. change (VInteger 0) with (sum_value (Some 0)).
    rewrite sum_fold_int by assumption. pose proof (length_ints_of vs).
    rewrite int_fold_spec by lia. cbn [bind]. unfold sum_finalize, exact_sum_value. cbn [a_count a_sum fst snd].
    destruct (ints_of vs) as [|z zs]; [reflexivity|].
    change (length (z :: zs)) with (S (length zs)).
    destruct (Z.eqb_spec (0 + Z.of_nat (S (length zs))) 0); [lia|].
    destruct (prefixes_fit 0 (z :: zs)); cbn [sum_value]; [rewrite Z.add_0_l|]; reflexivity.
  Qed.

  Theorem sum_no_wrap p vs :
    int_col vs = true -> Z.of_nat (length vs) < 2 ^ 63 -> prefixes_fit 0 (ints_of vs) = true ->
    agg_sum temporal p false vs = Ok (exact_sum_value vs).
  Proof. intros Hc Hl Hp. rewrite sum_exact_or_null by assumption. now rewrite Hp. Qed.

  (** AVG: the same accumulation, then one f64 division; NULL when the sum went out of range *)
  Theorem avg_exact_or_null p vs :
    int_col vs = true -> Z.of_nat (length vs) < 2 ^ 63 ->
    agg_avg temporal p false vs =
    Ok (match ints_of vs with
        | [] => VNull
        | zs => if prefixes_fit 0 zs
                then VNumeric (fdiv b64 (f_of_Z b64 (zsum zs)) (f_of_Z b64 (Z.of_nat (length zs))))
                else VNull
        end).
  Proof.
    intros Hc Hl. unfold agg_avg, acc0. change (VInteger 0) with (sum_value (Some 0)).
    rewrite sum_fold_int by assumption. pose proof (length_ints_of vs).
    rewrite int_fold_spec by lia. cbn [bind]. unfold avg_finalize. cbn [a_count a_sum fst snd].
    destruct (ints_of vs) as [|z zs]; [reflexivity|].
    change (length (z :: zs)) with (S (length zs)) in *.
    destruct (Z.eqb_spec (0 + Z.of_nat (S (length zs))) 0); [lia|].
    destruct (prefixes_fit 0 (z :: zs)); cbn [sum_value sql_value_to_f64]; [rewrite !Z.add_0_l|]; reflexivity.
  Qed.
End AccTheorems.

(** [SELECT SUM(a)] over the rows 9223372036854775807 and 1: NULL in every build (used to panic / wrap) *)
Lemma sum_former_witnesses :
  agg_sum no_temporal Debug false [VInteger i64_max; VInteger 1] = Ok VNull /\
  agg_sum no_temporal Release false [VInteger i64_max; VInteger 1] = Ok VNull /\
  agg_sum no_temporal Release false [VInteger i64_max; VInteger 1; VInteger (-5)] = Ok VNull.
Proof. vm_compute. repeat split. Qed.

Example sum_example :
  agg_sum no_temporal Release false [VInteger 5; VNull; VSmallint (-7); VBigint 40] = Ok (VInteger 38) /\
  prefixes_fit 0 (ints_of [VInteger 5; VNull; VSmallint (-7); VBigint 40]) = true /\
  agg_sum no_temporal Debug true [VInteger 5; VInteger 5; VNull] = Ok (VInteger 5) /\
  agg_avg no_temporal Debug false [VInteger 1; VInteger 2] = Ok (VNumeric 4609434218613702656).
Proof. vm_compute. repeat split. Qed.

(** * simd_sum_i64 (saturating) and simd_sum_i64_wide (exact) *)
Lemma simd_sum_wide_exact col : simd_sum_i64_wide col = zsum col.
Proof. reflexivity. Qed.

Theorem simd_sum_exact col : fits_i64 (zsum col) = true -> simd_sum_i64 col = zsum col.
Proof. intros H. unfold simd_sum_i64. rewrite simd_sum_wide_exact, H. reflexivity. Qed.

Theorem simd_sum_saturates col :
  fits_i64 (zsum col) = false -> simd_sum_i64 col = (if zsum col <? 0 then i64_min else i64_max).
Proof. intros H. unfold simd_sum_i64. rewrite simd_sum_wide_exact, H. reflexivity. Qed.

Lemma simd_sum_former_witness :
  simd_sum_i64 [i64_max; 1; -5; 0] = zsum [i64_max; 1; -5; 0] /\ simd_sum_i64 [i64_max; 1] = i64_max.
Proof. vm_compute. auto. Qed.

(** * simd_aggregate_i64: exact for every integer column *)
Lemma extract_i64_int_cell v : int_cell v = true -> extract_i64 v = Ok (int_value v).
Proof. destruct v; cbn; try discriminate; reflexivity. Qed.

Lemma simd_agg_loop_exact p bsize batch blen sum count vs :
  int_col vs = true -> 0 <= count -> count + Z.of_nat (length vs) < 2 ^ 63 ->
  exists batch' sum',
    simd_agg_i64_loop p bsize batch blen sum count vs = Ok (batch', sum', count + Z.of_nat (length (ints_of vs))) /\
    sum' + zsum batch' = sum + zsum batch + zsum (ints_of vs).
Proof.
  revert batch blen sum count. induction vs as [|v vs IH]; intros batch blen sum count Hc H0 Hl.
  - exists batch, sum. cbn [simd_agg_i64_loop ints_of length]. rewrite zsum_nil. split; [do 2 f_equal; lia|lia].
  - cbn [int_col forallb] in Hc. apply andb_true_iff in Hc as [Hv Hvs].
    change (length (v :: vs)) with (S (length vs)) in Hl.
    cbn [simd_agg_i64_loop ints_of]. rewrite (extract_i64_int_cell v Hv). cbn [bind].
    destruct (int_value v) as [z|].
    + rewrite i64_op_fits by (apply fits_i64_iff; lia). cbn [bind].
      change (length (z :: ints_of vs)) with (S (length (ints_of vs))).
      destruct (Nat.leb bsize (S blen)).
      * destruct (IH [] O (sum + simd_sum_i64_wide (rev (z :: batch))) (count + 1) Hvs ltac:(lia) ltac:(lia))
          as (b' & s' & E & Hs).
        exists b', s'. split; [rewrite E; do 2 f_equal; lia|].
        rewrite Hs, simd_sum_wide_exact, zsum_rev, zsum_nil, !zsum_cons. lia.
      * destruct (IH (z :: batch) (S blen) sum (count + 1) Hvs ltac:(lia) ltac:(lia)) as (b' & s' & E & Hs).
        exists b', s'. split; [rewrite E; do 2 f_equal; lia|]. rewrite Hs, !zsum_cons. lia.
    + destruct (IH batch blen sum count Hvs H0 ltac:(lia)) as (b' & s' & E & Hs). exists b', s'. auto.
Qed.

Theorem simd_aggregate_exact p bsize vs :
  int_col vs = true -> Z.of_nat (length vs) < 2 ^ 63 ->
  simd_aggregate_i64 p bsize AggSum vs =
  Ok (match ints_of vs with [] => VNull | zs => VDouble (f_of_Z b64 (zsum zs)) end).
Proof.
  intros Hc Hl. unfold simd_aggregate_i64.
  destruct (simd_agg_loop_exact p bsize [] O 0 0 vs Hc ltac:(lia) ltac:(lia)) as (b' & s' & E & Hs).
  rewrite E. cbn [bind]. rewrite zsum_nil, !Z.add_0_l in Hs.
  assert (Hfin : (match b' with [] => s' | _ :: _ => s' + simd_sum_i64_wide (rev b') end) = zsum (ints_of vs)).
  { destruct b'; [rewrite zsum_nil in Hs; lia|]. rewrite simd_sum_wide_exact, zsum_rev. lia. }
  rewrite Hfin. rewrite Z.add_0_l.
  destruct (ints_of vs) as [|z zs]; [reflexivity|].
  change (length (z :: zs)) with (S (length zs)).
  destruct (Z.eqb_spec (Z.of_nat (S (length zs))) 0); [lia|]. reflexivity.
Qed.

(** * the f64 paths (simd_aggregate_f64, compute_sum) add in floating point: no panic, whatever the values *)
Lemma simd_agg_f64_loop_no_panic p bsize batch blen sum count vs x :
  0 <= count -> count + Z.of_nat (length vs) < 2 ^ 63 ->
  simd_agg_f64_loop p bsize batch blen sum count vs <> Panic x.
Proof.
  revert batch blen sum count. induction vs as [|v vs IH]; intros batch blen sum count H0 Hl; [discriminate|].
  change (length (v :: vs)) with (S (length vs)) in Hl.
  cbn [simd_agg_f64_loop]. destruct (extract_f64 v) as [[z|]| |] eqn:E; cbn [bind].
  - rewrite i64_op_fits by (apply fits_i64_iff; lia). cbn [bind].
    destruct (Nat.leb bsize (S blen)); apply IH; lia.
  - apply IH; lia.
  - discriminate.
  - destruct v; discriminate.
Qed.

Theorem simd_aggregate_f64_no_panic p bsize op vs x :
  Z.of_nat (length vs) < 2 ^ 63 -> simd_aggregate_f64 p bsize op vs <> Panic x.
Proof.
  intros Hl. unfold simd_aggregate_f64.
  destruct (simd_agg_f64_loop p bsize [] 0 0 0 vs) as [[[b s] c]| |] eqn:E; cbn [bind].
  - destruct (c =? 0); [discriminate|]. destruct op; discriminate.
  - discriminate.
  - exfalso. eapply simd_agg_f64_loop_no_panic; [| |exact E]; lia.
Qed.

Lemma simd_agg_i64_loop_no_panic p bsize batch blen sum count vs x :
  0 <= count -> count + Z.of_nat (length vs) < 2 ^ 63 ->
  simd_agg_i64_loop p bsize batch blen sum count vs <> Panic x.
Proof.
  revert batch blen sum count. induction vs as [|v vs IH]; intros batch blen sum count H0 Hl; [discriminate|].
  change (length (v :: vs)) with (S (length vs)) in Hl.
  cbn [simd_agg_i64_loop]. destruct (extract_i64 v) as [[z|]| |] eqn:E; cbn [bind].
  - rewrite i64_op_fits by (apply fits_i64_iff; lia). cbn [bind].
    destruct (Nat.leb bsize (S blen)); apply IH; lia.
  - apply IH; lia.
  - discriminate.
  - destruct v; discriminate.
Qed.

Lemma compute_sum_loop_no_panic sum count vs x : compute_sum_loop sum count vs <> Panic x.
Proof.
  revert sum count. induction vs as [|v vs IH]; intros sum count; [discriminate|].
  cbn [compute_sum_loop]. destruct v; try apply IH; discriminate.
Qed.

Theorem compute_sum_no_panic vs x : compute_sum vs <> Panic x.
Proof.
  unfold compute_sum. destruct (compute_sum_loop 0 0 vs) eqn:E; cbn [bind]; try discriminate.
  exfalso. eapply compute_sum_loop_no_panic; eassumption.
Qed.

(** the columnar SUM / AVG of a column of ANY values never panics *)
Theorem columnar_aggregate_never_panics p bsize op vs x :
  Z.of_nat (length vs) < 2 ^ 63 -> columnar_aggregate p bsize op vs <> Panic x.
Proof.
  intros Hl. unfold columnar_aggregate. destruct (can_use_simd 100 vs) as [[|]|].
  - unfold simd_aggregate_i64.
    destruct (simd_agg_i64_loop p bsize [] 0 0 0 vs) as [[[b s] c]| |] eqn:E; cbn [bind].
    + destruct (c =? 0); [discriminate|]. destruct op; discriminate.
    + discriminate.
    + exfalso. eapply simd_agg_i64_loop_no_panic; [| |exact E]; lia.
  - apply simd_aggregate_f64_no_panic. exact Hl.
  - destruct op.
    + apply compute_sum_no_panic.
    + unfold compute_avg. destruct (compute_sum vs) as [w| |] eqn:E; cbn [bind]; try discriminate.
      * destruct w; try discriminate. destruct (0 <? _); discriminate.
      * exfalso. eapply compute_sum_no_panic; eassumption.
Qed.

Lemma simd_aggregate_former_witness :
  simd_aggregate_i64 Debug 1024 AggSum [VInteger i64_max; VInteger 1] = Ok (VDouble 4890909195324358656) /\   (* 2^63 *)
  simd_aggregate_i64 Release 1024 AggSum [VInteger i64_max; VInteger 1] = Ok (VDouble 4890909195324358656).
Proof. vm_compute. auto. Qed.

Example simd_aggregate_example :
  simd_aggregate_i64 Debug 2 AggSum [VInteger 1; VNull; VBigint 2; VSmallint 3; VInteger 4; VInteger 5]
  = Ok (VDouble 4624633867356078080) (* 15.0 *) /\
  int_col [VInteger 1; VNull; VBigint 2; VSmallint 3; VInteger 4; VInteger 5] = true.
Proof. vm_compute. auto. Qed.
