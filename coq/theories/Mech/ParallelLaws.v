(** C04: for EVERY chunking of the input (hence every schedule of the work-stealing pool and every
    thread count), the parallel operators compute what the sequential operators compute. *)
From Coq Require Import List ZArith Bool Lia Permutation Sorted.
From VibeSQL Require Import Base.LexOrd Sem.Syntax Sem.Rel Sem.Laws Sem.OrderLaws Mech.Join Mech.JoinLaws Mech.Accumulator Mech.AccumulatorLaws Mech.Parallel.
Import ListNotations.
Open Scope Z_scope.

(** * filter / map / filter_map: order-preserving, chunking-independent *)
Theorem par_filter_eq {A} (p : A -> bool) chunks : par_filter p chunks = filter p (concat chunks).
Proof.
  unfold par_filter. induction chunks as [|c cs IH]; cbn; [reflexivity|]. rewrite filter_app, IH. reflexivity.
Qed.

Theorem par_map_eq {A B} (f : A -> B) chunks : par_map f chunks = map f (concat chunks).
Proof.
  unfold par_map. induction chunks as [|c cs IH]; cbn; [reflexivity|]. rewrite map_app, IH. reflexivity.
Qed.

Theorem par_filter_map_eq {A B} (f : A -> option B) chunks :
  par_filter_map f chunks = flat_map (fun x => match f x with Some y => [y] | None => [] end) (concat chunks).
Proof.
  unfold par_filter_map. induction chunks as [|c cs IH]; cbn; [reflexivity|]. rewrite flat_map_app, IH. reflexivity.
Qed.

(** two chunkings of the same input give the same result *)
Corollary par_filter_chunking_irrelevant {A} (p : A -> bool) c1 c2 :
  concat c1 = concat c2 -> par_filter p c1 = par_filter p c2.
Proof. intros H. rewrite !par_filter_eq, H. reflexivity. Qed.

(** * sort: the merged runs are a sorted permutation of the input *)
Section Sort.
  Variable le : row -> row -> bool.
  Hypothesis le_total : forall a b, le a b = true \/ le b a = true.

  Lemma merge_perm a : forall b, Permutation (a ++ b) (merge le a b).
  Proof.
    induction a as [|x a IHa]; intros b; [destruct b; reflexivity|].
    induction b as [|y b IHb]; [cbn; rewrite app_nil_r; reflexivity|].
    cbn [merge]. destruct (le x y).
    - cbn. constructor. apply IHa.
    - rewrite <- IHb. cbn. apply Permutation_sym. apply Permutation_middle with (l1 := x :: a).
  Qed.

  Lemma merge_hd_rel a : forall b z,
    HdRel (fun u v => le u v = true) z a -> HdRel (fun u v => le u v = true) z b ->
    HdRel (fun u v => le u v = true) z (merge le a b).
  Proof.
    destruct a as [|x a]; intros b z Ha Hb; [destruct b; exact Hb|].
    destruct b as [|y b]; [exact Ha|]. cbn [merge]. destruct (le x y).
    - constructor. inversion Ha; assumption.
    - constructor. inversion Hb; assumption.
  Qed.

  Lemma merge_sorted a : forall b,
    Sorted (fun u v => le u v = true) a -> Sorted (fun u v => le u v = true) b ->
    Sorted (fun u v => le u v = true) (merge le a b).
  Proof.
    induction a as [|x a IHa]; intros b Sa Sb; [destruct b; exact Sb|].
    induction b as [|y b IHb]; [exact Sa|].
    cbn [merge]. destruct (le x y) eqn:E.
    - inversion Sa as [|? ? Sa' Ha]; subst. constructor; [apply IHa; assumption|].
      apply merge_hd_rel; [exact Ha|constructor; exact E].
    - inversion Sb as [|? ? Sb' Hb]; subst. constructor; [apply IHb; assumption|].
      assert (Eyx : le y x = true) by (destruct (le_total x y) as [H|H]; [congruence|exact H]).
      change ((fix inner (b0 : list row) : list row :=
                 match b0 with
                 | [] => x :: a
                 | y0 :: b' => if le x y0 then x :: merge le a b0 else y0 :: inner b'
                 end) b) with (merge le (x :: a) b).
      apply merge_hd_rel; [constructor; exact Eyx|exact Hb].
  Qed.

  Theorem par_sort_sorted_perm chunks :
    Sorted (fun u v => le u v = true) (par_sort le chunks) /\ Permutation (concat chunks) (par_sort le chunks).
  Proof.
    unfold par_sort.
    assert (G : forall cs acc, Sorted (fun u v => le u v = true) acc ->
              Sorted (fun u v => le u v = true) (fold_left (fun acc c => merge le acc (sort_rows le c)) cs acc)
              /\ Permutation (acc ++ concat cs) (fold_left (fun acc c => merge le acc (sort_rows le c)) cs acc)).
    { induction cs as [|c cs IH]; intros acc Sacc; cbn [fold_left concat].
      - rewrite app_nil_r. split; [exact Sacc|reflexivity].
      - destruct (IH (merge le acc (sort_rows le c))) as [S P].
        + apply merge_sorted; [exact Sacc|apply sort_rows_sorted; exact le_total].
        + split; [exact S|]. rewrite <- P. rewrite app_assoc. apply Permutation_app_tail.
          rewrite <- merge_perm. apply Permutation_app_head. apply sort_rows_perm. }
    destruct (G chunks [] (Sorted_nil _)) as [S P]. split; [exact S|exact P].
  Qed.
End Sort.

(** for the ORDER BY comparator: whatever the chunking, the parallel sort returns the key sequence of the
    sequential sort (the rows themselves may differ only inside ties) *)
Theorem par_sort_same_keys ks chunks :
  map (keyvec ks) (par_sort (row_le ks) chunks) = map (keyvec ks) (sort_rows (row_le ks) (concat chunks)).
Proof.
  destruct (par_sort_sorted_perm (row_le ks) (row_le_total ks) chunks) as [S P].
  apply any_sorted_perm_has_reference_keys; assumption.
Qed.

(** * partitioned hash-table build: a probe sees the same bucket, in the same order *)
Theorem par_ht_lookup_eq kr k chunks : is_null k = false ->
  par_ht_lookup kr k chunks = ht_lookup k (ht_build kr (concat chunks)).
Proof.
  intros Hk. unfold par_ht_lookup. rewrite (ht_lookup_build kr k (concat chunks) Hk).
  induction chunks as [|c cs IH]; cbn; [reflexivity|].
  rewrite filter_app, IH, (ht_lookup_build kr k c Hk). reflexivity.
Qed.

(** * partial aggregation: merging the per-chunk accumulators is accumulating the whole input *)
Lemma count_state l : forall c,
  fold_left acc_step l (AccCount c false []) = AccCount (c + Z.of_nat (length (non_null l))) false [].
Proof.
  induction l as [|v l IH]; intros c; cbn [fold_left]; [unfold non_null; cbn; f_equal; lia|].
  unfold acc_step at 2. unfold non_null. cbn [filter]. destruct (is_null v); cbn [negb].
  - apply IH.
  - rewrite IH. cbn [length]. fold (non_null l). f_equal. lia.
Qed.

Theorem par_count_eq chunks :
  par_acc FCount chunks = Some (fold_left acc_step (concat chunks) (acc_new FCount false)).
Proof.
  unfold par_acc, acc_new.
  assert (G : forall cs c, fold_left (fun a ch => match a with
                                                  | Some a' => acc_combine a' (fold_left acc_step ch (AccCount 0 false []))
                                                  | None => None end) cs (Some (AccCount c false []))
                           = Some (fold_left acc_step (concat cs) (AccCount c false []))).
  { induction cs as [|ch cs IH]; intros c; cbn [fold_left concat]; [reflexivity|].
    rewrite (count_state ch 0). cbn [acc_combine Bool.eqb negb]. rewrite IH.
    rewrite fold_left_app, (count_state ch c).
    replace (c + (0 + Z.of_nat (length (non_null ch)))) with (c + Z.of_nat (length (non_null ch))) by lia. reflexivity. }
  apply G.
Qed.

Theorem par_sum_eq chunks : all_ints (concat chunks) = true ->
  par_acc FSum chunks = Some (fold_left acc_step (concat chunks) (acc_new FSum false)).
Proof.
  unfold par_acc, acc_new.
  assert (G : forall cs s c, all_ints (concat cs) = true ->
              fold_left (fun a ch => match a with
                                     | Some a' => acc_combine a' (fold_left acc_step ch (AccSum (VInt 0) 0 false []))
                                     | None => None end) cs (Some (AccSum (VInt s) c false []))
              = Some (fold_left acc_step (concat cs) (AccSum (VInt s) c false []))).
  { induction cs as [|ch cs IH]; intros s c H; cbn [fold_left concat]; [reflexivity|].
    cbn [concat] in H. rewrite all_ints_app in H. apply andb_prop in H. destruct H as [H1 H2].
    rewrite (sum_fold false ch H1 0 0). cbn [dd acc_combine Bool.eqb negb add_values]. rewrite (IH _ _ H2).
    rewrite fold_left_app, (sum_fold false ch H1 s c). cbn [dd].
    replace (s + (0 + zsum_vals (non_null ch))) with (s + zsum_vals (non_null ch)) by lia.
    replace (c + (0 + Z.of_nat (length (non_null ch)))) with (c + Z.of_nat (length (non_null ch))) by lia. reflexivity. }
  apply G.
Qed.

Theorem par_avg_eq chunks : all_ints (concat chunks) = true ->
  par_acc FAvg chunks = Some (fold_left acc_step (concat chunks) (acc_new FAvg false)).
Proof.
  unfold par_acc, acc_new.
  assert (G : forall cs s c, all_ints (concat cs) = true ->
              fold_left (fun a ch => match a with
                                     | Some a' => acc_combine a' (fold_left acc_step ch (AccAvg (VInt 0) 0 false []))
                                     | None => None end) cs (Some (AccAvg (VInt s) c false []))
              = Some (fold_left acc_step (concat cs) (AccAvg (VInt s) c false []))).
  { induction cs as [|ch cs IH]; intros s c H; cbn [fold_left concat]; [reflexivity|].
    cbn [concat] in H. rewrite all_ints_app in H. apply andb_prop in H. destruct H as [H1 H2].
    rewrite (avg_fold false ch H1 0 0). cbn [dd acc_combine Bool.eqb negb add_values]. rewrite (IH _ _ H2).
    rewrite fold_left_app, (avg_fold false ch H1 s c). cbn [dd].
    replace (s + (0 + zsum_vals (non_null ch))) with (s + zsum_vals (non_null ch)) by lia.
    replace (c + (0 + Z.of_nat (length (non_null ch)))) with (c + Z.of_nat (length (non_null ch))) by lia. reflexivity. }
  apply G.
Qed.

(** * Non-vacuity: three different chunkings of one input *)
Example chunkings_agree :
  let p := fun r : row => match r with [VInt z] => z <? 3 | _ => false end in
  let le := row_le [(0%nat, false)] in
  let input := [[VInt 5]; [VInt 1]; [VNull]; [VInt 2]; [VInt 1]] in
  let c1 := [input] in
  let c2 := [[[VInt 5]; [VInt 1]]; [[VNull]]; [[VInt 2]; [VInt 1]]] in
  let c3 := [[[VInt 5]]; [[VInt 1]]; [[VNull]]; [[VInt 2]]; [[VInt 1]]] in
  par_filter p c1 = par_filter p c2 /\ par_filter p c2 = par_filter p c3
  /\ par_sort le c1 = par_sort le c2 /\ par_sort le c2 = par_sort le c3
  /\ par_sort le c3 = [[VInt 1]; [VInt 1]; [VInt 2]; [VInt 5]; [VNull]].
Proof. repeat split; reflexivity. Qed.
