(** The columnar aggregate fast path (C03): a model of select/columnar — predicate extraction
    (filter.rs extract_predicates_recursive), the filter bitmap (create_filter_bitmap /
    evaluate_predicate), the per-column aggregate loops (aggregate.rs compute_sum / compute_count /
    compute_avg / compute_min / compute_max and the expression variants; the SIMD variants compute the
    same function in batches), the empty-input early return (mod.rs execute_columnar_aggregate) — and of
    the row path it must agree with: WHERE under three-valued logic, then the accumulators of
    Mech/Accumulator.v.  Numbers are exact (scaled integers), as in C07.  Executable definitions only. *)
From Coq Require Import List ZArith Bool.
From VibeSQL Require Import Base.LexOrd Sem.Syntax Sem.Rel Mech.Accumulator.
Import ListNotations.
Open Scope Z_scope.

(** * WHERE as written: a conjunction of simple predicates *)
Inductive cpred : Type :=
| PCmp (col : nat) (op : binop) (k : value) (lit_left : bool)   (* [col op k], or [k op col] *)
| PBetween (col : nat) (lo hi : value).

(** * Row path: the predicate under three-valued logic *)
Definition pred3 (p : cpred) (r : row) : res value :=
  match p with
  | PCmp c op k false => eval_binop op (col_of r c) k
  | PCmp c op k true => eval_binop op k (col_of r c)
  | PBetween c lo hi =>
      do a <- eval_binop OGe (col_of r c) lo;
      do b <- eval_binop OLe (col_of r c) hi;
      tv_and a b
  end.

Fixpoint conj3 (ps : list cpred) (r : row) : res value :=
  match ps with
  | [] => Ok (VBool true)
  | p :: ps' => do a <- pred3 p r; do b <- conj3 ps' r; tv_and a b
  end.

Definition passes3 (ps : list cpred) (r : row) : bool :=
  match conj3 ps r with Ok v => is_true v | Err _ => false end.

(** * Columnar path *)
(** ColumnPredicate *)
Inductive xpred : Type :=
| XLt (col : nat) (k : value) | XGt (col : nat) (k : value)
| XGe (col : nat) (k : value) | XLe (col : nat) (k : value)
| XEq (col : nat) (k : value)
| XBetween (col : nat) (lo hi : value).

(** extract_predicates_recursive on one conjunct; [None] = too complex, the row path takes over *)
Definition extract1 (p : cpred) : option xpred :=
  match p with
  | PCmp c OLt k false => Some (XLt c k) | PCmp c OGt k false => Some (XGt c k)
  | PCmp c OLe k false => Some (XLe c k) | PCmp c OGe k false => Some (XGe c k)
  | PCmp c OEq k false => Some (XEq c k)
  (* literal op column: the comparison is reversed *)
  | PCmp c OLt k true => Some (XGt c k) | PCmp c OGt k true => Some (XLt c k)
  | PCmp c OLe k true => Some (XGe c k) | PCmp c OGe k true => Some (XLe c k)
  | PCmp c OEq k true => Some (XEq c k)
  | PCmp _ _ _ _ => None
  | PBetween c lo hi => Some (XBetween c lo hi)
  end.

Fixpoint extract (ps : list cpred) : option (list xpred) :=
  match ps with
  | [] => Some []
  | p :: ps' => match extract1 p, extract ps' with Some x, Some xs => Some (x :: xs) | _, _ => None end
  end.

(** compare_values (same type: exact comparison; other pairs: Equal) *)
Definition xcmp (a b : value) : comparison := acc_cmp a b.

Definition xcol (p : xpred) : nat :=
  match p with XLt c _ | XGt c _ | XGe c _ | XLe c _ | XEq c _ | XBetween c _ _ => c end.

(** evaluate_predicate: a NULL on either side never passes *)
Definition xeval (p : xpred) (v : value) : bool :=
  let null_operand := match p with
                      | XLt _ k | XGt _ k | XGe _ k | XLe _ k | XEq _ k => is_null k
                      | XBetween _ lo hi => is_null lo || is_null hi
                      end in
  if is_null v || null_operand then false
  else match p with
       | XLt _ k => match xcmp v k with Lt => true | _ => false end
       | XGt _ k => match xcmp v k with Gt => true | _ => false end
       | XGe _ k => match xcmp v k with Lt => false | _ => true end
       | XLe _ k => match xcmp v k with Gt => false | _ => true end
       | XEq _ k => match xcmp v k with Eq => true | _ => false end
       | XBetween _ lo hi =>
           (match xcmp v lo with Lt => false | _ => true end) && (match xcmp v hi with Gt => false | _ => true end)
       end.

(** create_filter_bitmap: one flag per row, the predicates ANDed *)
Definition bitmap (xs : list xpred) (rows : list row) : list bool :=
  map (fun r => forallb (fun p => xeval p (col_of r (xcol p))) xs) rows.

(** the per-column loops: visit the rows whose flag is set (no bitmap = all rows) *)
Fixpoint loop {A} (step : A -> value -> A) (a : A) (bm : option (list bool)) (vals : list value) : A :=
  match vals with
  | [] => a
  | v :: vals' =>
      match bm with
      | None => loop step (step a v) None vals'
      | Some [] => a                               (* bitmap.get(i) = None counts as false *)
      | Some (b :: bm') => loop step (if b then step a v else a) (Some bm') vals'
      end
  end.

(** compute_sum / the SUM arm of compute_expression_aggregate: (sum, count of non-NULL) *)
Definition sum_step (a : Z * Z) (v : value) : Z * Z :=
  match v with VInt x => (fst a + x, snd a + 1) | _ => a end.
Definition col_sum (bm : option (list bool)) (vals : list value) : ares :=
  let '(s, c) := loop sum_step (0, 0) bm vals in
  if 0 <? c then ARVal (VInt s) else ARVal VNull.

(** compute_count with a column source = COUNT( * ): the number of set flags / of rows *)
Definition col_count_star (bm : option (list bool)) (n : nat) : ares :=
  ARVal (VInt (match bm with
               | Some b => Z.of_nat (length (filter (fun x => x) b))
               | None => Z.of_nat n
               end)).

(** COUNT(expression): non-NULL results *)
Definition cnt_step (a : Z) (v : value) : Z := if is_null v then a else a + 1.
Definition col_count (bm : option (list bool)) (vals : list value) : ares :=
  ARVal (VInt (loop cnt_step 0 bm vals)).

(** compute_avg: the sum divided by the number of non-NULL values *)
Definition col_avg (bm : option (list bool)) (vals : list value) : ares :=
  let '(s, c) := loop sum_step (0, 0) bm vals in
  if 0 <? c then ARQuot s c else ARVal VNull.

(** compute_min / compute_max: compare_for_min_max (strictly smaller replaces) *)
Definition min_step (cur : option value) (v : value) : option value :=
  if is_null v then cur
  else match cur with
       | None => Some v
       | Some c => match acc_cmp v c with Lt => Some v | _ => Some c end
       end.
Definition max_step (cur : option value) (v : value) : option value :=
  if is_null v then cur
  else match cur with
       | None => Some v
       | Some c => match acc_cmp c v with Lt => Some v | _ => Some c end
       end.
Definition col_min (bm : option (list bool)) (vals : list value) : ares :=
  ARVal (match loop min_step None bm vals with Some v => v | None => VNull end).
Definition col_max (bm : option (list bool)) (vals : list value) : ares :=
  ARVal (match loop max_step None bm vals with Some v => v | None => VNull end).

(** the aggregate list of the SELECT *)
Inductive csel : Type :=
| CCountStar
| CAgg (f : accfn) (col : nat)
| CAggBin (f : accfn) (op : binop) (c1 c2 : nat).     (* aggregate of [c1 op c2], op in + - *)

Definition carg (s : csel) (r : row) : value :=
  match s with
  | CCountStar => VNull
  | CAgg _ c => col_of r c
  | CAggBin _ op c1 c2 =>
      match col_of r c1, col_of r c2 with
      | VInt x, VInt y => match op with OAdd => VInt (x + y) | OSub => VInt (x - y) | _ => VNull end
      | _, _ => VNull
      end
  end.

Definition col_agg (f : accfn) (bm : option (list bool)) (vals : list value) : ares :=
  match f with
  | FCount => col_count bm vals
  | FSum => col_sum bm vals
  | FAvg => col_avg bm vals
  | FMin => col_min bm vals
  | FMax => col_max bm vals
  end.

Definition columnar_sel (rows : list row) (bm : option (list bool)) (s : csel) : ares :=
  match s with
  | CCountStar => col_count_star bm (length rows)
  | CAgg f _ | CAggBin f _ _ _ => col_agg f bm (map (carg s) rows)
  end.

(** execute_columnar: [None] when the WHERE clause cannot be extracted (the row path runs instead) *)
Definition columnar_exec (rows : list row) (ps : list cpred) (sels : list csel) : option (list ares) :=
  match extract ps with
  | None => None
  | Some xs =>
      match rows with
      | [] => Some (map (fun s => match s with
                                  | CCountStar | CAgg FCount _ | CAggBin FCount _ _ _ => ARVal (VInt 0)
                                  | _ => ARVal VNull
                                  end) sels)                      (* the empty-input early return *)
      | _ => let bm := match xs with [] => None | _ => Some (bitmap xs rows) end in
             Some (map (columnar_sel rows bm) sels)
      end
  end.

(** * Row path: filter under 3VL, then one accumulator per aggregate *)
Definition row_sel (rs : list row) (s : csel) : ares :=
  match s with
  | CCountStar => ARVal (VInt (Z.of_nat (length rs)))
  | CAgg f _ | CAggBin f _ _ _ => acc_run f false (map (carg s) rs)
  end.

Definition row_exec (rows : list row) (ps : list cpred) (sels : list csel) : list ares :=
  let rs := filter (passes3 ps) rows in
  map (row_sel rs) sels.

(** typing: every comparison of the WHERE clause is between values of one type (or NULL) *)
Definition cmp_typed (a b : value) : bool :=
  match a, b with
  | VNull, _ | _, VNull => true
  | VInt _, VInt _ | VStr _, VStr _ => true
  | _, _ => false
  end.

Definition pred_typed (p : cpred) (r : row) : bool :=
  match p with
  | PCmp c _ k _ => cmp_typed (col_of r c) k
  | PBetween c lo hi => cmp_typed (col_of r c) lo && cmp_typed (col_of r c) hi
  end.

Definition where_typed (ps : list cpred) (rows : list row) : bool :=
  forallb (fun r => forallb (fun p => pred_typed p r) ps) rows.

(** the aggregated arguments are numbers (or NULL) for SUM / AVG *)
Definition sel_typed (rows : list row) (s : csel) : bool :=
  match s with
  | CCountStar => true
  | CAgg f _ | CAggBin f _ _ _ =>
      match f with
      | FSum | FAvg => all_ints (map (carg s) rows)
      | _ => true
      end
  end.
