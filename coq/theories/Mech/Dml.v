(** Reference meaning of INSERT / UPDATE / DELETE on one table (C09), on top of the reference
    expression semantics.  Executable definitions only. *)
From Coq Require Import List ZArith Bool.
From VibeSQL Require Import Base.LexOrd Sem.Syntax Sem.Rel Sem.Eval.
Import ListNotations.
Open Scope Z_scope.

Inductive dml : Type :=
| DDelete (where_ : option expr)
| DUpdate (sets : list (nat * expr)) (where_ : option expr)
| DInsert (rows : list (list expr)).

(** does the WHERE clause select this row?  (TRUE only; NULL and FALSE do not) *)
Definition selects (d : db) (w : option expr) (r : row) : res bool :=
  match w with
  | None => Ok true
  | Some e => do v <- eval_expr 64 d [r] e; Ok (is_true v)
  end.

Fixpoint set_nth (i : nat) (v : value) (r : row) : row :=
  match r, i with
  | [], _ => []
  | _ :: r', O => v :: r'
  | x :: r', S i' => x :: set_nth i' v r'
  end.

(** every SET expression is evaluated on the PRE-update row; then all assignments are applied *)
Definition apply_sets (d : db) (sets : list (nat * expr)) (r : row) : res row :=
  do vals <- mapM (fun s : nat * expr => do v <- eval_expr 64 d [r] (snd s); Ok (fst s, v)) sets;
  Ok (fold_left (fun acc iv => set_nth (fst iv) (snd iv) acc) vals r).

(** result: (new rows of the table in table order, number of affected rows) *)
Definition run_dml (d : db) (t : nat) (s : dml) : res (list row * Z) :=
  match nth_error d t with
  | None => Err 4
  | Some rows =>
      match s with
      | DDelete w =>
          do flags <- mapM (selects d w) rows;
          let kept := map snd (filter (fun fr => negb (fst fr)) (combine flags rows)) in
          Ok (kept, Z.of_nat (length rows) - Z.of_nat (length kept))
      | DUpdate sets w =>
          do new_rows <- mapM (fun r => do b <- selects d w r; if b then apply_sets d sets r else Ok r) rows;
          do flags <- mapM (selects d w) rows;
          Ok (new_rows, Z.of_nat (length (filter (fun b => b) flags)))
      | DInsert new_rows =>
          do vals <- mapM (fun r => mapM (eval_expr 64 d [[]]) r) new_rows;
          Ok (rows ++ vals, Z.of_nat (length vals))
      end
  end.

(** what SELECT * FROM t WHERE w returns, for comparison *)
Definition select_where (d : db) (t : nat) (w : option expr) : res (list row) :=
  match nth_error d t with
  | None => Err 4
  | Some rows => filterM (selects d w) rows
  end.
