(** C24 — laws of the SUBSTRING index arithmetic and of the [range_scan] guards (Mech/Arith.v). *)
From Coq Require Import ZArith List Bool Lia.
From VibeSQL Require Import Base.LexOrd Value.SqlValue Mech.F64 Mech.Arith Mech.ArithLaws.
Import ListNotations.
Open Scope Z_scope.

(** * SUBSTRING *)
(** a Rust [String] is at most [isize::MAX] bytes long; SQL integers are i64 *)
Definition str_ok (s : list Z) : Prop := len s < 2 ^ 63.
Definition i64_ok (z : Z) : Prop := - 2 ^ 63 <= z <= 2 ^ 63 - 1.

Definition start_index (start : Z) : Z := if 0 <? start then start - 1 else 0.

(** closed form of the three-argument call: the unchecked [usize] addition never overflows *)
Lemma substring3_spec p s start l :
  str_ok s -> i64_ok start -> i64_ok l ->
  substring p [VVarchar s; VInteger start; VInteger l] =
  (if len s <=? start_index start then Ok (VVarchar [])
   else if l <=? 0 then Ok (VVarchar [])
   else do r <- str_slice s (start_index start) (Z.min (start_index start + l) (len s)); Ok (VVarchar r)).
Proof.
  intros Hs Hst Hl. unfold substring, start_index. cbn [is_null orb str_of bind].
  destruct (Z.leb_spec (len s) (if 0 <? start then start - 1 else 0)) as [|Hlt]; [reflexivity|].
  destruct (Z.leb_spec l 0) as [|Hpos]; [reflexivity|].
  rewrite u64_op_fits; [reflexivity|]. apply fits_u64_iff. unfold str_ok, i64_ok in *. pows.
  destruct (0 <? start) eqn:E; [apply Z.ltb_lt in E|apply Z.ltb_ge in E]; lia.
Qed.

Lemma substring2_spec p s start :
  substring p [VVarchar s; VInteger start] =
  (if len s <=? start_index start then Ok (VVarchar [])
   else do r <- str_slice s (start_index start) (len s); Ok (VVarchar r)).
Proof. reflexivity. Qed.

Lemma start_index_nonneg start : 0 <= start_index start.
Proof. unfold start_index. destruct (0 <? start) eqn:E; [apply Z.ltb_lt in E|]; lia. Qed.

Lemma str_slice_panic s a b x :
  0 <= a <= b -> b <= len s -> str_slice s a b = Panic x ->
  x = PCharBoundary /\ (is_char_boundary s a && is_char_boundary s b = false).
Proof.
  intros Hab Hb. unfold str_slice.
  destruct (Z.ltb_spec b a); [lia|]. destruct (Z.ltb_spec (len s) b); [lia|]. destruct (Z.ltb_spec a 0); [lia|].
  cbn [orb]. destruct (is_char_boundary s a && is_char_boundary s b); [discriminate|]. intros [= <-]. auto.
Qed.

(** the only panic of SUBSTRING(varchar, integer [, integer]) is the byte-index-inside-a-character one:
    no integer overflow, no out-of-range or inverted slice *)
Theorem substring_panic_only_char_boundary p s start l x :
  str_ok s -> i64_ok start -> i64_ok l ->
  (substring p [VVarchar s; VInteger start; VInteger l] = Panic x \/
   substring p [VVarchar s; VInteger start] = Panic x) ->
  x = PCharBoundary.
Proof.
  intros Hs Hst Hl [H|H].
  - rewrite substring3_spec in H by assumption. pose proof (start_index_nonneg start).
    destruct (Z.leb_spec (len s) (start_index start)); [discriminate|].
    destruct (Z.leb_spec l 0); [discriminate|].
    destruct (str_slice _ _ _) eqn:E; cbn [bind] in H; try discriminate. injection H as <-.
    apply str_slice_panic in E as [-> _]; [reflexivity|lia|lia].
  - rewrite substring2_spec in H. pose proof (start_index_nonneg start).
    destruct (Z.leb_spec (len s) (start_index start)); [discriminate|].
    destruct (str_slice _ _ _) eqn:E; cbn [bind] in H; try discriminate. injection H as <-.
    apply str_slice_panic in E as [-> _]; [reflexivity|lia|lia].
Qed.


(** exact characterisation: SUBSTRING(s FROM start FOR l) panics iff the window is non-empty and its
    first or last byte offset falls inside a multi-byte character *)
Theorem substring3_panic_iff p s start l x :
  str_ok s -> i64_ok start -> i64_ok l ->
  (substring p [VVarchar s; VInteger start; VInteger l] = Panic x <->
   x = PCharBoundary /\ start_index start < len s /\ 0 < l /\
   is_char_boundary s (start_index start) && is_char_boundary s (Z.min (start_index start + l) (len s)) = false).
Proof.
  intros Hs Hst Hl. rewrite substring3_spec by assumption. pose proof (start_index_nonneg start) as Hn.
  destruct (Z.leb_spec (len s) (start_index start)) as [Hge|Hlt].
  { split; [discriminate|]. intros (_ & Hc & _). lia. }
  destruct (Z.leb_spec l 0) as [Hle|Hpos].
  { split; [discriminate|]. intros (_ & _ & Hc & _). lia. }
  unfold str_slice.
  destruct (Z.ltb_spec (Z.min (start_index start + l) (len s)) (start_index start)); [lia|].
  destruct (Z.ltb_spec (len s) (Z.min (start_index start + l) (len s))); [lia|].
  destruct (Z.ltb_spec (start_index start) 0); [lia|]. cbn [orb].
  destruct (is_char_boundary s (start_index start) && is_char_boundary s (Z.min (start_index start + l) (len s))); cbn [bind].
  - split; [discriminate|]. intros (_ & _ & _ & Hc). discriminate.
  - split; [intros [= <-]; auto|]. intros (-> & _). reflexivity.
Qed.

(** on ASCII text bytes are characters: SUBSTRING never panics and returns the requested window *)
Definition ascii (s : list Z) : Prop := Forall (fun b => 0 <= b < 128) s.

Lemma ascii_boundary s i : ascii s -> 0 <= i <= len s -> is_char_boundary s i = true.
Proof.
  intros Ha Hi. unfold is_char_boundary. destruct (Z.eqb_spec i 0); [reflexivity|]. cbn [orb].
  destruct (Z.ltb_spec i (len s)); [|apply Z.eqb_eq; lia].
  unfold ascii in Ha. rewrite Forall_forall in Ha.
  assert (Hin : In (nth (Z.to_nat i) s 0) s) by (apply nth_In; unfold len in *; lia).
  apply Ha in Hin. unfold is_cont_byte. destruct (Z.leb_spec 128 (nth (Z.to_nat i) s 0)); [lia|reflexivity].
Qed.

Lemma str_slice_ascii s a b :
  ascii s -> 0 <= a <= b -> b <= len s ->
  str_slice s a b = Ok (firstn (Z.to_nat (b - a)) (skipn (Z.to_nat a) s)).
Proof.
  intros Ha Hab Hb. unfold str_slice.
  destruct (Z.ltb_spec b a); [lia|]. destruct (Z.ltb_spec (len s) b); [lia|]. destruct (Z.ltb_spec a 0); [lia|].
  cbn [orb]. rewrite !ascii_boundary by (try assumption; lia). reflexivity.
Qed.

Theorem substring_ascii_no_panic p s start l :
  ascii s -> str_ok s -> i64_ok start -> i64_ok l ->
  substring p [VVarchar s; VInteger start; VInteger l] =
  Ok (VVarchar (if (len s <=? start_index start) || (l <=? 0) then []
                else firstn (Z.to_nat (Z.min (start_index start + l) (len s) - start_index start))
                            (skipn (Z.to_nat (start_index start)) s))).
Proof.
  intros Ha Hs Hst Hl. rewrite substring3_spec by assumption. pose proof (start_index_nonneg start).
  destruct (Z.leb_spec (len s) (start_index start)); [reflexivity|]. cbn [orb].
  destruct (Z.leb_spec l 0); [reflexivity|].
  rewrite str_slice_ascii by (try assumption; lia). reflexivity.
Qed.

(** [SELECT SUBSTRING('é', 2)], [SUBSTRING('héllo' FROM 2 FOR 1)] : both profiles *)
Lemma substring_no_panic_refuted :
  forall p,
    substring p [VVarchar [195; 169]; VInteger 2] = Panic PCharBoundary /\
    substring p [VVarchar [104; 195; 169; 108; 108; 111]; VInteger 2; VInteger 1] = Panic PCharBoundary.
Proof. intros []; vm_compute; auto. Qed.

Example substring_example :
  substring Debug [VVarchar [104; 101; 108; 108; 111]; VInteger (-5); VInteger 4611686018427387904]
    = Ok (VVarchar [104; 101; 108; 108; 111]) /\
  substring Release [VVarchar [104; 195; 169; 108]; VInteger 2; VInteger 2] = Ok (VVarchar [195; 169]) /\
  ascii [104; 101; 108; 108; 111].
Proof. split; [|split]; try (vm_compute; reflexivity). repeat constructor; lia. Qed.

(** * range_scan guards *)
Local Transparent fgt.

Lemma key_gt_singleton s e : key_gt [s] [e] = value_gt s e.
Proof. unfold key_gt, value_gt. cbn [key_pcmp]. destruct (pcmp s e) as [[]|]; reflexivity. Qed.
Lemma key_eqb_singleton s e : key_eqb [s] [e] = eqb s e.
Proof. cbn [key_eqb]. apply andb_true_r. Qed.

(** normalised bounds are never of an integer / f32 / NUMERIC variant, so the unchecked [i + 1] of
    calculate_next_value is dead code on this path *)
Lemma smart_increment_normalized p v x : smart_increment_value p (normalize_for_comparison v) <> Panic x.
Proof. destruct v; cbn; discriminate. Qed.

Theorem range_plan_never_panics p multi start end_ incl_s incl_e x :
  range_plan p multi start end_ incl_s incl_e <> Panic x.
Proof.
  unfold range_plan.
  destruct start as [s|], end_ as [e|]; cbn [option_map];
    repeat match goal with
           | |- context [if ?c then _ else _] => destruct c
           end; try discriminate;
    try (destruct (smart_increment_value p (normalize_for_comparison s)) as [[?|]| |] eqn:E; cbn [bind];
         try discriminate;
         try (exfalso; eapply smart_increment_normalized; eassumption);
         repeat match goal with |- context [if ?c then _ else _] => destruct c end; discriminate).
Qed.

(** ** single-column indexes: the guards establish the precondition of BTreeMap::range *)
Theorem range_guards_single_column p start end_ incl_s incl_e sb eb :
  range_plan p false start end_ incl_s incl_e = Ok (PlanRange sb eb) -> btree_range_ok sb eb = true.
Proof.
  unfold range_plan, btree_range_ok.
  destruct start as [s0|], end_ as [e0|]; cbn [option_map].
  - set (s := normalize_for_comparison s0). set (e := normalize_for_comparison e0).
    destruct (eqb s e && incl_s && incl_e) eqn:G1; [discriminate|].
    destruct (eqb s e && (negb incl_s || negb incl_e)) eqn:G2; [discriminate|].
    destruct (value_gt s e) eqn:G3; [discriminate|].
    destruct incl_s, incl_e; cbn [both_excluded_equal];
      try (destruct (key_eqb [s] [e]) eqn:G4; [discriminate|]);
      intros [= <- <-]; cbn [btree_range_check]; rewrite ?G4, key_gt_singleton, G3; reflexivity.
  - destruct incl_s; intros [= <- <-]; reflexivity.
  - destruct incl_e; intros [= <- <-]; reflexivity.
  - intros [= <- <-]. reflexivity.
Qed.

(** consequently a single-column range scan never panics, whatever the bounds (NaN, mixed types,
    inverted, degenerate) *)
Theorem range_scan_single_column_no_panic p nonempty start end_ incl_s incl_e :
  range_scan_outcome p false nonempty start end_ incl_s incl_e = Ok tt.
Proof.
  unfold range_scan_outcome.
  destruct (range_plan p false start end_ incl_s incl_e) as [pl|e|x] eqn:E; cbn [bind].
  - destruct pl as [| |sb eb]; try reflexivity. destruct nonempty; [|reflexivity].
    apply range_guards_single_column in E. unfold btree_range_ok in E.
    destruct (btree_range_check sb eb); [discriminate|reflexivity].
  - exfalso. revert E. unfold range_plan.
    destruct start as [s|], end_ as [e0|]; cbn [option_map];
      repeat match goal with |- context [if ?c then _ else _] => destruct c end; discriminate.
  - exfalso. eapply range_plan_never_panics; eassumption.
Qed.

(** ** multi-column indexes *)
(** incrementing an upper bound keeps every value that was not above it not above it *)
Lemma f_pcmp_not_gt_trans w a b c :
  f_pcmp w a b <> Some Gt -> f_pcmp w c b = Some Gt -> f_pcmp w a c <> Some Gt.
Proof.
  unfold f_pcmp. destruct (f_is_nan w a); cbn [orb]; [discriminate|].
  destruct (f_is_nan w c); cbn [orb]; [discriminate|]. destruct (f_is_nan w b); [discriminate|].
  intros H1 H2 H3. injection H2 as H2. injection H3 as H3.
  apply Z.compare_gt_iff in H2, H3. apply H1. f_equal. apply Z.compare_gt_iff. lia.
Qed.

Lemma float_step_gt f eps x y : float_step f eps x = Some y -> f_pcmp (fwidth f) y x = Some Gt.
Proof.
  unfold float_step. destruct (fis_finite f x); [|discriminate].
  destruct (fgt f _ x) eqn:G; cbn [andb]; [|discriminate].
  destruct (fis_finite f _); [|discriminate]. intros [= <-].
  unfold fgt in G. destruct (f_pcmp _ _ x) as [[]|]; try discriminate. reflexivity.
Qed.

Lemma lex_compare_snoc_lt (a : list Z) (x : Z) : lex_compare a (a ++ [x]) = Lt.
Proof. induction a as [|y a IH]; [reflexivity|]. cbn [app lex_compare]. rewrite Z.compare_refl. exact IH. Qed.

Lemma z_cmp_mono x z : (x ?= z) <> Gt -> (x ?= z + 1) <> Gt.
Proof. intros H G. apply H. apply Z.compare_gt_iff in G. apply Z.compare_gt_iff. lia. Qed.

Lemma try_increment_mono s e e' :
  try_increment_sqlvalue e = Some e' -> value_gt s e = false -> value_gt s e' = false.
Proof.
  unfold value_gt.
  destruct e; cbn [try_increment_sqlvalue]; try discriminate.
  - (* Integer *) destruct (z <? i64_max); [|discriminate]. intros [= <-].
    destruct s; cbn [pcmp]; auto. intros H. destruct (z0 ?= z + 1) eqn:C'; auto. exfalso.
    eapply (z_cmp_mono z0 z); [|exact C']. intros G. rewrite G in H. discriminate.
  - (* Smallint *) destruct (z <? 2 ^ 15 - 1); [|discriminate]. intros [= <-].
    destruct s; cbn [pcmp]; auto. intros H. destruct (z0 ?= z + 1) eqn:C'; auto. exfalso.
    eapply (z_cmp_mono z0 z); [|exact C']. intros G. rewrite G in H. discriminate.
  - (* Bigint *) destruct (z <? i64_max); [|discriminate]. intros [= <-].
    destruct s; cbn [pcmp]; auto. intros H. destruct (z0 ?= z + 1) eqn:C'; auto. exfalso.
    eapply (z_cmp_mono z0 z); [|exact C']. intros G. rewrite G in H. discriminate.
  - (* Unsigned *) destruct (z <? 2 ^ 64 - 1); [|discriminate]. intros [= <-].
    destruct s; cbn [pcmp]; auto. intros H. destruct (z0 ?= z + 1) eqn:C'; auto. exfalso.
    eapply (z_cmp_mono z0 z); [|exact C']. intros G. rewrite G in H. discriminate.
  - (* Numeric *) destruct (float_step b64 f64_epsilon bits) as [y|] eqn:F; [|discriminate]. intros [= <-].
    apply float_step_gt in F. destruct s; cbn [pcmp]; auto. intros H.
    destruct (f_pcmp 64 bits0 y) as [[]|] eqn:C; auto. exfalso.
    eapply (f_pcmp_not_gt_trans 64 bits0 bits y); [|exact F|exact C].
    intros G. change (fwidth b64) with 64 in *. rewrite G in H. discriminate.
  - (* Float *) destruct (float_step b32 f32_epsilon bits) as [y|] eqn:F; [|discriminate]. intros [= <-].
    apply float_step_gt in F. destruct s; cbn [pcmp]; auto. intros H.
    destruct (f_pcmp 32 bits0 y) as [[]|] eqn:C; auto. exfalso.
    eapply (f_pcmp_not_gt_trans 32 bits0 bits y); [|exact F|exact C].
    intros G. change (fwidth b32) with 32 in *. rewrite G in H. discriminate.
  - (* Real *) destruct (float_step b32 f32_epsilon bits) as [y|] eqn:F; [|discriminate]. intros [= <-].
    apply float_step_gt in F. destruct s; cbn [pcmp]; auto. intros H.
    destruct (f_pcmp 32 bits0 y) as [[]|] eqn:C; auto. exfalso.
    eapply (f_pcmp_not_gt_trans 32 bits0 bits y); [|exact F|exact C].
    intros G. change (fwidth b32) with 32 in *. rewrite G in H. discriminate.
  - (* Double *) destruct (float_step b64 f64_epsilon bits) as [y|] eqn:F; [|discriminate]. intros [= <-].
    apply float_step_gt in F. destruct s; cbn [pcmp]; auto. intros H.
    destruct (f_pcmp 64 bits0 y) as [[]|] eqn:C; auto. exfalso.
    eapply (f_pcmp_not_gt_trans 64 bits0 bits y); [|exact F|exact C].
    intros G. change (fwidth b64) with 64 in *. rewrite G in H. discriminate.
  - (* Character *) intros [= <-]. destruct s; cbn [pcmp]; auto. intros H.
    destruct (lex_compare s (s0 ++ [0])) eqn:C; auto. exfalso.
    refine (lex_compare_le_trans s s0 (s0 ++ [0]) _ _ C).
    + intros G. rewrite G in H. discriminate.
    + rewrite lex_compare_snoc_lt. discriminate.
  - (* Varchar *) intros [= <-]. destruct s; cbn [pcmp]; auto. intros H.
    destruct (lex_compare s (s0 ++ [0])) eqn:C; auto. exfalso.
    refine (lex_compare_le_trans s s0 (s0 ++ [0]) _ _ C).
    + intros G. rewrite G in H. discriminate.
    + rewrite lex_compare_snoc_lt. discriminate.
  - (* Boolean *) destruct b; [discriminate|]. intros [= <-].
    destruct s; cbn [pcmp]; auto. destruct b; reflexivity.
Qed.

(** the start bound the multi-column path hands to BTreeMap::range is the given one: inclusive start,
    or an exclusive start that could not be incremented *)
Definition multi_start_unchanged (p : profile) (start : option sqlvalue) (incl_s : bool) : bool :=
  match start with
  | None => true
  | Some s => incl_s || match smart_increment_value p (normalize_for_comparison s) with
                        | Ok None => true
                        | _ => false
                        end
  end.

Theorem range_guards_multi_column p start end_ incl_s incl_e sb eb :
  multi_start_unchanged p start incl_s = true ->
  range_plan p true start end_ incl_s incl_e = Ok (PlanRange sb eb) -> btree_range_ok sb eb = true.
Proof.
  unfold range_plan, btree_range_ok, multi_start_unchanged.
  destruct start as [s0|], end_ as [e0|]; cbn [option_map].
  - set (s := normalize_for_comparison s0). set (e := normalize_for_comparison e0). intros U.
    destruct (eqb s e && incl_s && incl_e) eqn:G1; [discriminate|].
    destruct (eqb s e && (negb incl_s || negb incl_e)) eqn:G2; [discriminate|].
    destruct (value_gt s e) eqn:G3; [discriminate|].
    assert (Hsk : (if incl_s then Ok (BIncluded [s])
                   else do i <- smart_increment_value p s;
                        match i with Some s' => Ok (BIncluded [s']) | None => Ok (BExcluded [s]) end)
                  = Ok (if incl_s then BIncluded [s] else BExcluded [s])).
    { destruct incl_s; [reflexivity|]. cbn [orb] in U.
      destruct (smart_increment_value p s) as [[?|]| |]; try discriminate. reflexivity. }
    rewrite Hsk. cbn [bind]. clear Hsk U.
    destruct incl_e.
    + destruct (try_increment_sqlvalue e) as [e'|] eqn:T.
      * pose proof (try_increment_mono s e e' T G3) as M.
        destruct incl_s; cbn [both_excluded_equal];
          try (destruct (key_eqb [s] [e']) eqn:G4; [discriminate|]);
          intros [= <- <-]; cbn [btree_range_check]; rewrite ?G4, key_gt_singleton, M; reflexivity.
      * destruct incl_s; cbn [both_excluded_equal]; intros [= <- <-]; reflexivity.
    + destruct incl_s; cbn [both_excluded_equal];
        try (destruct (key_eqb [s] [e]) eqn:G4; [discriminate|]);
        intros [= <- <-]; cbn [btree_range_check]; rewrite ?G4, key_gt_singleton, G3; reflexivity.
  - intros U. destruct incl_s.
    + intros [= <- <-]. reflexivity.
    + cbn [orb] in U. destruct (smart_increment_value p (normalize_for_comparison s0)) as [[?|]| |];
        try discriminate. cbn [bind]. intros [= <- <-]. reflexivity.
  - intros _. cbn [bind]. destruct incl_e; [destruct (try_increment_sqlvalue _)|]; intros [= <- <-]; reflexivity.
  - intros _ [= <- <-]. reflexivity.
Qed.

(** the full statement is false for multi-column indexes: [d > 1.5 AND d < 1.5000000000000002]
    (the exclusive start is moved up by two ulps, past the end bound) *)
Lemma range_guards_multi_column_refuted :
  forall p,
    range_plan p true (Some (VDouble 4609434218613702656)) (Some (VDouble 4609434218613702657)) false false
    = Ok (PlanRange (BIncluded [VDouble 4609434218613702658]) (BExcluded [VDouble 4609434218613702657])) /\
    btree_range_ok (BIncluded [VDouble 4609434218613702658]) (BExcluded [VDouble 4609434218613702657]) = false /\
    range_scan_outcome p true true (Some (VDouble 4609434218613702656)) (Some (VDouble 4609434218613702657)) false false
    = Panic PRangeOrder /\
    multi_start_unchanged p (Some (VDouble 4609434218613702656)) false = false.
Proof. intros []; vm_compute; auto. Qed.

Example range_example :
  range_plan Debug false (Some (VInteger 100)) (Some (VInteger 50)) true true = Ok PlanEmpty /\
  range_plan Debug true (Some (VInteger 5)) (Some (VInteger 5)) false false = Ok PlanEmpty /\
  range_plan Debug false (Some (VVarchar [120])) (Some (VInteger 5)) false false
    = Ok (PlanRange (BExcluded [VVarchar [120]]) (BExcluded [VDouble 4617315517961601024])) /\
  multi_start_unchanged Debug (Some (VInteger 3)) true = true.
Proof. vm_compute. auto. Qed.
