(** C24 — laws of SUBSTRING (by characters) and of the [range_scan] guards (Mech/Arith.v), for the code
    as repaired by the C24 fix commits. *)
From Coq Require Import ZArith List Bool Lia.
From VibeSQL Require Import Base.LexOrd Value.SqlValue Mech.F64 Mech.Arith Mech.ArithLaws.
Import ListNotations.
Open Scope Z_scope.

(** * SUBSTRING *)
Definition start_index (start : Z) : Z := if 0 <? start then start - 1 else 0.

(** SUBSTRING never panics: for arguments of any number, type and value *)
Theorem substring_never_panics args x : substring args <> Panic x.
Proof.
  unfold substring.
  destruct args as [|sv [|st [|lv [|? ?]]]]; try discriminate;
    repeat match goal with
           | |- context [if ?c then _ else _] => destruct c
           end; try discriminate;
    destruct (str_of sv); try discriminate; destruct st; try discriminate;
    try (destruct lv; cbn [bind]; try discriminate);
    cbn [bind]; repeat match goal with |- context [if ?c then _ else _] => destruct c end; discriminate.
Qed.

(** closed form: the window is counted in CHARACTERS of the UTF-8 text *)
Theorem substring3_spec s start l :
  substring [VVarchar s; VInteger start; VInteger l] =
  Ok (VVarchar (if l <=? 0 then [] else concat (takeZ l (skipZ (start_index start) (utf8_chars s))))).
Proof. unfold substring, start_index. cbn [is_null orb str_of bind]. destruct (l <=? 0); reflexivity. Qed.

Theorem substring2_spec s start :
  substring [VVarchar s; VInteger start] = Ok (VVarchar (concat (skipZ (start_index start) (utf8_chars s)))).
Proof. reflexivity. Qed.

(** the characters partition the bytes: nothing is lost or duplicated by [chars()] *)
Lemma take_cont_split s c r : take_cont s = (c, r) -> s = c ++ r /\ (length r <= length s)%nat.
Proof.
  revert c r. induction s as [|b s IH]; intros c r H; cbn [take_cont] in H.
  - injection H as <- <-. auto.
  - destruct (is_cont_byte b).
    + destruct (take_cont s) as [c' r'] eqn:E. injection H as <- <-.
      destruct (IH c' r' eq_refl) as [-> Hl]. cbn [app length]. split; [reflexivity|lia].
    + injection H as <- <-. cbn [app length]. split; [reflexivity|lia].
Qed.

Lemma utf8_chars_fuel_concat n s : (length s <= n)%nat -> concat (utf8_chars_fuel n s) = s.
Proof.
  revert s. induction n as [|n IH]; intros s H.
  - destruct s; [reflexivity|cbn in H; lia].
  - destruct s as [|b r]; [reflexivity|]. cbn [utf8_chars_fuel].
    destruct (take_cont r) as [c r'] eqn:E. apply take_cont_split in E as [-> Hl].
    cbn [concat]. rewrite IH; [reflexivity|].
    cbn [length] in H. rewrite app_length in H. lia.
Qed.

Theorem utf8_chars_concat s : concat (utf8_chars s) = s.
Proof. apply utf8_chars_fuel_concat. lia. Qed.

(** on ASCII text characters are bytes: SUBSTRING returns the byte window *)
Definition ascii (s : list Z) : Prop := Forall (fun b => 0 <= b < 128) s.

Lemma utf8_chars_fuel_ascii n s : ascii s -> (length s <= n)%nat -> utf8_chars_fuel n s = map (fun b => [b]) s.
Proof.
  revert s. induction n as [|n IH]; intros s Ha H.
  - destruct s; [reflexivity|cbn in H; lia].
  - destruct s as [|b r]; [reflexivity|]. inversion Ha as [|? ? Hb Hr]; subst.
    cbn [utf8_chars_fuel map].
    assert (E : take_cont r = ([], r)).
    { destruct r as [|b' r']; [reflexivity|]. inversion Hr as [|? ? Hb' _]; subst. cbn [take_cont].
      unfold is_cont_byte. destruct (Z.leb_spec 128 b'); [lia|reflexivity]. }
    rewrite E. f_equal. apply IH; [assumption|cbn [length] in H; lia].
Qed.

Lemma skipZ_map {A B} (f : A -> B) n l : skipZ n (map f l) = map f (skipZ n l).
Proof. revert n. induction l as [|x l IH]; intros n; [reflexivity|]. cbn [map skipZ]. destruct (0 <? n); [apply IH|reflexivity]. Qed.
Lemma takeZ_map {A B} (f : A -> B) n l : takeZ n (map f l) = map f (takeZ n l).
Proof. revert n. induction l as [|x l IH]; intros n; [reflexivity|]. cbn [map takeZ]. destruct (0 <? n); [cbn [map]; f_equal; apply IH|reflexivity]. Qed.
Lemma concat_singletons (l : list Z) : concat (map (fun b => [b]) l) = l.
Proof. induction l as [|x l IH]; [reflexivity|]. cbn [map concat app]. now rewrite IH. Qed.

Theorem substring_ascii s start l :
  ascii s ->
  substring [VVarchar s; VInteger start; VInteger l] =
  Ok (VVarchar (if l <=? 0 then [] else takeZ l (skipZ (start_index start) s))).
Proof.
  intros Ha. rewrite substring3_spec. destruct (l <=? 0); [reflexivity|].
  unfold utf8_chars. rewrite utf8_chars_fuel_ascii by (auto; lia).
  now rewrite skipZ_map, takeZ_map, concat_singletons.
Qed.

(** the inputs that used to panic *)
Lemma substring_former_witnesses :
  substring [VVarchar [195; 169]; VInteger 2] = Ok (VVarchar []) /\
  substring [VVarchar [104; 195; 169; 108; 108; 111]; VInteger 2; VInteger 1] = Ok (VVarchar [195; 169]) /\
  substring [VVarchar [104; 195; 169; 108; 108; 111]; VInteger 3; VInteger 2] = Ok (VVarchar [108; 108]).
Proof. vm_compute. repeat split. Qed.

Example substring_example :
  substring [VVarchar [104; 101; 108; 108; 111]; VInteger (-5); VInteger 4611686018427387904]
    = Ok (VVarchar [104; 101; 108; 108; 111]) /\
  substring [VVarchar [104; 195; 169; 108]; VInteger 2; VInteger 2] = Ok (VVarchar [195; 169; 108]) /\
  ascii [104; 101; 108; 108; 111].
Proof. split; [|split]; try (vm_compute; reflexivity). repeat constructor; lia. Qed.

(** * range_scan guards *)
Lemma key_gt_singleton s e : key_gt [s] [e] = value_gt s e.
Proof. unfold key_gt, value_gt. cbn [key_pcmp]. destruct (pcmp s e) as [[]|]; reflexivity. Qed.

(** normalised bounds are never of an integer / f32 / NUMERIC variant, so the unchecked [i + 1] of
    calculate_next_value is dead code on this path *)
Lemma smart_increment_normalized p v x : smart_increment_value p (normalize_for_comparison v) <> Panic x.
Proof. destruct v; cbn; discriminate. Qed.

Theorem range_plan_never_panics p multi start end_ incl_s incl_e x :
  range_plan p multi start end_ incl_s incl_e <> Panic x.
Proof.
  unfold range_plan.
  destruct start as [s|], end_ as [e|]; cbn [option_map];
    repeat match goal with
           | |- context [if ?c then _ else _] => destruct c
           end; try discriminate;
    try (destruct (smart_increment_value p (normalize_for_comparison s)) as [[?|]| |] eqn:E; cbn [bind];
         try discriminate;
         try (exfalso; eapply smart_increment_normalized; eassumption);
         repeat match goal with |- context [if ?c then _ else _] => destruct c end; discriminate).
Qed.

Lemma not_inverted_ok sb eb :
  both_excluded_equal sb eb = false -> bounds_inverted sb eb = false -> btree_range_ok sb eb = true.
Proof.
  unfold btree_range_ok. destruct sb as [|s|s], eb as [|e|e]; cbn [both_excluded_equal bounds_inverted btree_range_check];
    intros H1 H2; rewrite ?H1, ?H2; reflexivity.
Qed.

(** ** the guards establish the precondition of BTreeMap::range — for single-column AND multi-column
       indexes, for every pair of bounds (NaN, mixed types, inverted, degenerate, adjacent doubles) *)
Theorem range_guards_imply_precondition p multi start end_ incl_s incl_e sb eb :
  range_plan p multi start end_ incl_s incl_e = Ok (PlanRange sb eb) -> btree_range_ok sb eb = true.
Proof.
  unfold range_plan.
  destruct start as [s0|], end_ as [e0|]; cbn [option_map].
  - set (s := normalize_for_comparison s0). set (e := normalize_for_comparison e0).
    destruct (eqb s e && incl_s && incl_e) eqn:G1; [discriminate|].
    destruct (eqb s e && (negb incl_s || negb incl_e)) eqn:G2; [discriminate|].
    destruct (value_gt s e) eqn:G3; [discriminate|].
    destruct multi.
    + match goal with |- bind ?c _ = _ -> _ => destruct c as [sk| |] eqn:Esk end; cbn [bind]; try discriminate.
      match goal with |- context [both_excluded_equal sk ?ek] => set (ek0 := ek) end.
      destruct (both_excluded_equal sk ek0) eqn:G4; [discriminate|].
      destruct (bounds_inverted sk ek0) eqn:G5; [discriminate|].
      intros [= <- <-]. now apply not_inverted_ok.
    + match goal with |- context [both_excluded_equal ?sk ?ek] => set (sk0 := sk); set (ek0 := ek) end.
      destruct (both_excluded_equal sk0 ek0) eqn:G4; [discriminate|].
      intros [= <- <-]. apply not_inverted_ok; [exact G4|].
      subst sk0 ek0. destruct incl_s, incl_e; cbn [bounds_inverted]; rewrite key_gt_singleton; exact G3.
  - destruct multi.
    + destruct incl_s; cbn [bind].
      * intros [= <- <-]. reflexivity.
      * destruct (smart_increment_value p (normalize_for_comparison s0)) as [[?|]| |]; cbn [bind]; try discriminate;
          intros [= <- <-]; reflexivity.
    + destruct incl_s; intros [= <- <-]; reflexivity.
  - destruct multi; cbn [bind].
    + destruct incl_e; [destruct (try_increment_sqlvalue _)|]; intros [= <- <-]; reflexivity.
    + destruct incl_e; intros [= <- <-]; reflexivity.
  - intros [= <- <-]. reflexivity.
Qed.

(** consequently IndexData::range_scan (InMemory) never panics, whatever the index shape and the bounds *)
Theorem range_scan_never_panics p multi nonempty start end_ incl_s incl_e x :
  range_scan_outcome p multi nonempty start end_ incl_s incl_e <> Panic x.
Proof.
  unfold range_scan_outcome.
  destruct (range_plan p multi start end_ incl_s incl_e) as [pl|e|y] eqn:E; cbn [bind].
  - destruct pl as [| |sb eb]; try discriminate. destruct nonempty; [|discriminate].
    apply range_guards_imply_precondition in E. unfold btree_range_ok in E.
    destruct (btree_range_check sb eb); discriminate.
  - discriminate.
  - exfalso. eapply range_plan_never_panics; eassumption.
Qed.

(** [d > 1.5 AND d < 1.5000000000000002] on an index (d, a): the incremented start passes the end bound,
    the re-check returns the empty result (used to panic in BTreeMap::range) *)
Lemma range_former_witness :
  forall p,
    range_plan p true (Some (VDouble 4609434218613702656)) (Some (VDouble 4609434218613702657)) false false = Ok PlanEmpty /\
    range_scan_outcome p true true (Some (VDouble 4609434218613702656)) (Some (VDouble 4609434218613702657)) false false = Ok tt.
Proof. intros []; vm_compute; auto. Qed.

Example range_example :
  range_plan Debug false (Some (VInteger 100)) (Some (VInteger 50)) true true = Ok PlanEmpty /\
  range_plan Debug true (Some (VInteger 5)) (Some (VInteger 5)) false false = Ok PlanEmpty /\
  range_plan Debug true (Some (VInteger 5)) (Some (VInteger 9)) false true
    = Ok (PlanRange (BIncluded [VDouble 4617315517961601025]) (BExcluded [VDouble 4621256167635550209])) /\
  range_plan Debug false (Some (VVarchar [120])) (Some (VInteger 5)) false false
    = Ok (PlanRange (BExcluded [VVarchar [120]]) (BExcluded [VDouble 4617315517961601024])).
Proof. vm_compute. repeat split. Qed.
