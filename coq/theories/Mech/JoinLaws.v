(** Laws for C05: comma joins commute (up to column order), an inner join is a filter over the
    cross product, the hash join / semi join / anti join mechanisms equal the definitional nested
    evaluation, IN is EXISTS, and NOT IN is the NULL-aware anti join (and differs from NOT EXISTS
    exactly when a NULL is involved). *)
From Coq Require Import List ZArith Bool Lia Permutation.
From VibeSQL Require Import Base.LexOrd Sem.Syntax Sem.Rel Sem.Eval Sem.Laws Mech.Join.
Import ListNotations.
Open Scope Z_scope.

(** * Comma join: FROM a, b and FROM b, a hold the same combinations *)
Definition cross_swapped (l r : list row) : list row :=
  flat_map (fun y => map (fun x => x ++ y) l) r.

Lemma flat_map_cons_perm {A B} (f : A -> B) (g : A -> list B) (r : list A) :
  Permutation (flat_map (fun y => f y :: g y) r) (map f r ++ flat_map g r).
Proof.
  induction r as [|y r IH]; cbn; [constructor|].
  constructor. rewrite IH. rewrite !app_assoc. apply Permutation_app_tail. apply Permutation_app_comm.
Qed.

Theorem comma_join_perm l r : Permutation (cross l r) (cross_swapped l r).
Proof.
  unfold cross, cross_swapped.
  induction l as [|x l IH]; cbn.
  - induction r as [|y r IHr]; cbn; [constructor | exact IHr].
  - rewrite IH. symmetry.
    apply (flat_map_cons_perm (fun y => x ++ y) (fun y => map (fun x0 => x0 ++ y) l) r).
Qed.

(** * INNER JOIN ... ON c  is  WHERE c over the cross product *)
Lemma filter_map_app (c : row -> bool) x r :
  filter c (map (fun y => x ++ y) r) = map (fun y => x ++ y) (filter (fun y => c (x ++ y)) r).
Proof.
  induction r as [|y r IH]; cbn; [reflexivity|].
  destruct (c (x ++ y)); cbn; rewrite IH; reflexivity.
Qed.

Theorem inner_join_as_filter (c : row -> bool) l r :
  nested_loop_join (fun x y => c (x ++ y)) l r = filter c (cross l r).
Proof.
  unfold nested_loop_join, cross.
  induction l as [|x l IH]; cbn; [reflexivity|].
  rewrite filter_app, filter_map_app, IH. reflexivity.
Qed.

(** * The hash table is a multimap: lookup after build = the matching rows in input order *)
Lemma value_eqb_refl v : value_eqb v v = true.
Proof. apply value_eqb_eq. reflexivity. Qed.

Lemma value_eqb_false a b : value_eqb a b = false <-> a <> b.
Proof.
  split.
  - intros E H. apply value_eqb_eq in H. congruence.
  - intros N. destruct (value_eqb a b) eqn:E; [apply value_eqb_eq in E; contradiction | reflexivity].
Qed.

Lemma ht_lookup_insert k k' y t :
  ht_lookup k (ht_insert k' y t) = if value_eqb k k' then ht_lookup k t ++ [y] else ht_lookup k t.
Proof.
  induction t as [|[k'' ys] t IH]; cbn.
  - destruct (value_eqb k k'); reflexivity.
  - destruct (value_eqb k' k'') eqn:E1; cbn.
    + apply value_eqb_eq in E1. subst k''.
      destruct (value_eqb k k'); reflexivity.
    + rewrite IH. destruct (value_eqb k k'') eqn:E2; [|reflexivity].
      apply value_eqb_eq in E2. subst k''.
      destruct (value_eqb k k') eqn:E3; [|reflexivity].
      apply value_eqb_eq in E3. subst k'. rewrite value_eqb_refl in E1. discriminate.
Qed.

Lemma ht_lookup_fold kr k r t :
  ht_lookup k (fold_left (fun t y => if is_null (kr y) then t else ht_insert (kr y) y t) r t)
  = ht_lookup k t ++ filter (fun y => negb (is_null (kr y)) && value_eqb k (kr y)) r.
Proof.
  revert t; induction r as [|y r IH]; intros t; cbn; [rewrite app_nil_r; reflexivity|].
  rewrite IH. destruct (is_null (kr y)) eqn:N; cbn; [reflexivity|].
  rewrite ht_lookup_insert. destruct (value_eqb k (kr y)); cbn; [rewrite <- app_assoc|]; reflexivity.
Qed.

Theorem ht_lookup_build kr k r : is_null k = false ->
  ht_lookup k (ht_build kr r) = filter (fun y => key_eq k (kr y)) r.
Proof.
  intros Hk. unfold ht_build. rewrite ht_lookup_fold. cbn.
  apply filter_ext. intros y. unfold key_eq.
  destruct k; try discriminate; destruct (kr y); reflexivity.
Qed.

(** * Hash join = nested loop join on the equi-condition (NULL keys never match) *)
Lemma key_eq_null_l v : key_eq VNull v = false.
Proof. reflexivity. Qed.

Lemma is_null_true v : is_null v = true -> v = VNull.
Proof. destruct v; cbn; intros H; try discriminate; reflexivity. Qed.

Theorem hash_join_eq_nested kl kr l r :
  hash_join kl kr l r = nested_loop_join (fun x y => key_eq (kl x) (kr y)) l r.
Proof.
  unfold hash_join, nested_loop_join. apply flat_map_ext. intros x.
  destruct (is_null (kl x)) eqn:N.
  - apply is_null_true in N. rewrite N.
    replace (filter (key_eq VNull) (map kr nil)) with (@nil value) by reflexivity.
    assert (E : filter (fun y => key_eq VNull (kr y)) r = []).
    { induction r as [|y r IH]; cbn; [reflexivity | exact IH]. }
    rewrite E. reflexivity.
  - rewrite (ht_lookup_build kr (kl x) r N). reflexivity.
Qed.

Lemma filter_nil_existsb {A} (f : A -> bool) l :
  (match filter f l with [] => false | _ => true end) = existsb f l.
Proof.
  induction l as [|x l IH]; cbn; [reflexivity|]. destruct (f x); cbn; [reflexivity | exact IH].
Qed.

Theorem hash_semi_join_eq_nested kl kr l r :
  hash_semi_join kl kr l r = nested_semi_join (fun x y => key_eq (kl x) (kr y)) l r.
Proof.
  unfold hash_semi_join, nested_semi_join. apply filter_ext. intros x.
  destruct (is_null (kl x)) eqn:N.
  - apply is_null_true in N. rewrite N.
    induction r as [|y r IH]; cbn; [reflexivity | exact IH].
  - rewrite (ht_lookup_build kr (kl x) r N). apply filter_nil_existsb.
Qed.

Theorem hash_anti_join_eq_nested kl kr l r :
  hash_anti_join kl kr l r = nested_anti_join (fun x y => key_eq (kl x) (kr y)) l r.
Proof.
  unfold hash_anti_join, nested_anti_join. apply filter_ext. intros x.
  destruct (is_null (kl x)) eqn:N.
  - apply is_null_true in N. rewrite N.
    assert (E : existsb (fun y => key_eq VNull (kr y)) r = false).
    { induction r as [|y r IH]; cbn; [reflexivity | exact IH]. }
    rewrite E. reflexivity.
  - rewrite (ht_lookup_build kr (kl x) r N).
    rewrite <- (filter_nil_existsb (fun y => key_eq (kl x) (kr y)) r).
    destruct (filter (fun y => key_eq (kl x) (kr y)) r); reflexivity.
Qed.

(** * IN, EXISTS, NOT IN, NOT EXISTS *)
(** two values that SQL can compare (same type, or a NULL) *)
Definition comparable (a b : value) : bool :=
  match sql_compare a b with Ok _ => true | Err _ => false end.

Lemma compare_eq_key a b : comparable a b = true ->
  (match sql_compare a b with Ok (Some Eq) => true | _ => false end) = key_eq a b.
Proof.
  unfold comparable, key_eq.
  destruct a as [|x|sx|bx], b as [|y|sy|by_]; cbn; try discriminate; try reflexivity; intros _.
  - destruct (Z.compare_spec x y) as [H|H|H]; subst.
    + rewrite Z.eqb_refl. reflexivity.
    + symmetry. apply Z.eqb_neq. lia.
    + symmetry. apply Z.eqb_neq. lia.
  - destruct bx, by_; reflexivity.
Qed.

Lemma compare_none_null a b : comparable a b = true ->
  (match sql_compare a b with Ok None => true | _ => false end) = is_null a || is_null b.
Proof.
  unfold comparable. destruct a, b; cbn; try discriminate; reflexivity.
Qed.

(** [x IN (vs)] is TRUE exactly when some [v] equals [x] — i.e. when EXISTS (... WHERE v = x) *)
Theorem in_exists_equiv x vs sn r :
  forallb (comparable x) vs = true -> in_values x vs sn = Ok r ->
  is_true r = existsb (key_eq x) vs.
Proof.
  revert sn r; induction vs as [|v vs IH]; intros sn r C H; cbn in *.
  - inversion H; subst. destruct sn; reflexivity.
  - apply andb_true_iff in C. destruct C as [Cv C].
    pose proof (compare_eq_key x v Cv) as K.
    unfold comparable in Cv. destruct (sql_compare x v) as [[[| |]|]|] eqn:E; try discriminate; cbn in H.
    + inversion H; subst. rewrite <- K. reflexivity.
    + rewrite <- K. cbn. apply (IH sn r C H).
    + rewrite <- K. cbn. apply (IH sn r C H).
    + rewrite <- K. cbn. apply (IH true r C H).
Qed.

(** [x NOT IN (vs)] is TRUE exactly when every comparison is FALSE: this is the NULL-aware anti join *)
Lemma not_in_elem (kl kr : row -> value) (x y : row) : comparable (kl x) (kr y) = true ->
  (match sql_compare (kl x) (kr y) with Ok (Some Eq) => false | Ok (Some _) => true | _ => false end)
  = negb (not_in_cond kl kr x y).
Proof.
  intros C. unfold not_in_cond.
  rewrite <- (compare_eq_key _ _ C). rewrite <- orb_assoc. rewrite <- (compare_none_null _ _ C).
  unfold comparable in C.
  destruct (sql_compare (kl x) (kr y)) as [[[| |]|]|]; try discriminate; reflexivity.
Qed.

Lemma not_in_true_cond (kl kr : row -> value) (x : row) (r : list row) :
  forallb (fun y => comparable (kl x) (kr y)) r = true ->
  not_in_true (kl x) (map kr r) = negb (existsb (not_in_cond kl kr x) r).
Proof.
  unfold not_in_true.
  induction r as [|y r IH]; intros C; cbn [map forallb existsb]; [reflexivity|].
  cbn [forallb] in C. apply andb_true_iff in C. destruct C as [Cy C].
  rewrite (IH C), (not_in_elem kl kr x y Cy). rewrite negb_orb. reflexivity.
Qed.

Theorem not_in_is_null_aware_anti_join (kl kr : row -> value) (l r : list row) :
  (forall x, In x l -> forallb (fun y => comparable (kl x) (kr y)) r = true) ->
  nested_anti_join (not_in_cond kl kr) l r = filter (fun x => not_in_true (kl x) (map kr r)) l.
Proof.
  intros C. unfold nested_anti_join. induction l as [|x l IH]; cbn; [reflexivity|].
  rewrite (not_in_true_cond kl kr x r (C x (or_introl eq_refl))).
  rewrite IH; [reflexivity | intros x' H; apply C; right; exact H].
Qed.

(** NOT IN and NOT EXISTS agree when no NULL is involved ... *)
Theorem not_in_eq_not_exists_without_nulls (kl kr : row -> value) (x : row) (r : list row) :
  forallb (fun y => comparable (kl x) (kr y)) r = true ->
  is_null (kl x) = false -> forallb (fun y => negb (is_null (kr y))) r = true ->
  not_in_true (kl x) (map kr r) = negb (existsb (fun y => key_eq (kl x) (kr y)) r).
Proof.
  intros C Nx Nr. rewrite (not_in_true_cond kl kr x r C). f_equal.
  induction r as [|y r IH]; cbn; [reflexivity|].
  cbn in Nr, C. apply andb_true_iff in Nr. destruct Nr as [Ny Nr].
  apply andb_true_iff in C. destruct C as [_ C].
  unfold not_in_cond at 1. rewrite Nx. apply negb_true_iff in Ny. rewrite Ny.
  rewrite !orb_false_r. rewrite (IH C Nr). reflexivity.
Qed.

(** ... and differ otherwise: the witness *)
Theorem not_in_vs_not_exists_refuted :
  exists (x : value) (vs : list value),
    not_in_true x vs = false /\ negb (existsb (key_eq x) vs) = true.
Proof. exists (VInt 1), [VInt 2; VNull]. vm_compute. auto. Qed.

(** * Non-vacuity *)
Example join_laws_nonvacuous :
  let k := fun r : row => nth 0 r VNull in
  let l := [[VInt 1]; [VNull]; [VInt 2]; [VInt 2]] in
  let r := [[VInt 2; VStr [97]]; [VNull; VStr [98]]; [VInt 2; VStr [99]]; [VInt 3; VStr [100]]] in
  hash_join k k l r = [[VInt 2; VInt 2; VStr [97]]; [VInt 2; VInt 2; VStr [99]]; [VInt 2; VInt 2; VStr [97]]; [VInt 2; VInt 2; VStr [99]]]
  /\ hash_semi_join k k l r = [[VInt 2]; [VInt 2]]
  /\ hash_anti_join k k l r = [[VInt 1]; [VNull]]
  /\ nested_anti_join (not_in_cond k k) l r = [].
Proof. vm_compute. repeat split; reflexivity. Qed.
