(** Aggregate accumulators (C07): a model of [AggregateAccumulator] (select/grouping/aggregates.rs) —
    [new], [accumulate], [finalize], [combine] — over the reference value type, and the definitional
    meaning of the aggregates it is compared with.  Numbers are exact: the correspondence harness
    only feeds values on which the executor's arithmetic is exact (integers and quarter-valued
    doubles, scaled by 4 into [VInt]).  Executable definitions only. *)
From Coq Require Import List ZArith Bool.
From VibeSQL Require Import Base.LexOrd Sem.Syntax Sem.Rel.
Import ListNotations.
Open Scope Z_scope.

Inductive accfn := FCount | FSum | FAvg | FMin | FMax.

(** the result of [finalize]: a value, or (for AVG) the exact quotient sum / count that the
    executor rounds to a double *)
Inductive ares : Type :=
| ARVal (v : value)
| ARQuot (sum cnt : Z).

Inductive acc : Type :=
| AccCount (count : Z) (distinct : bool) (seen : list value)
| AccSum (sum : value) (count : Z) (distinct : bool) (seen : list value)
| AccAvg (sum : value) (count : Z) (distinct : bool) (seen : list value)
| AccMin (cur : option value) (distinct : bool) (seen : list value)
| AccMax (cur : option value) (distinct : bool) (seen : list value).

Definition acc_new (f : accfn) (distinct : bool) : acc :=
  match f with
  | FCount => AccCount 0 distinct []
  | FSum => AccSum (VInt 0) 0 distinct []
  | FAvg => AccAvg (VInt 0) 0 distinct []
  | FMin => AccMin None distinct []
  | FMax => AccMax None distinct []
  end.

Definition is_numeric (v : value) : bool := match v with VInt _ => true | _ => false end.
Definition is_comparable (v : value) : bool := match v with VNull => false | _ => true end.
Definition in_seen (v : value) (seen : list value) : bool := existsb (value_eqb v) seen.

(** add_sql_values: a failed addition yields NULL *)
Definition add_values (a b : value) : value :=
  match a, b with VInt x, VInt y => VInt (x + y) | _, _ => VNull end.

(** compare_sql_values on non-NULL values: PartialOrd, incomparable = Equal *)
Definition acc_cmp (a b : value) : comparison :=
  match a, b with
  | VInt x, VInt y => x ?= y
  | VStr x, VStr y => lex_compare x y
  | VBool x, VBool y => match x, y with false, true => Lt | true, false => Gt | _, _ => Eq end
  | _, _ => Eq
  end.

Definition acc_step (a : acc) (v : value) : acc :=
  match a with
  | AccCount count d seen =>
      if is_null v then a
      else if d then (if in_seen v seen then a else AccCount (count + 1) d (v :: seen))
           else AccCount (count + 1) d seen
  | AccSum sum count d seen =>
      if is_null v || negb (is_numeric v) then a
      else if d then (if in_seen v seen then a else AccSum (add_values sum v) (count + 1) d (v :: seen))
           else AccSum (add_values sum v) (count + 1) d seen
  | AccAvg sum count d seen =>
      if is_null v || negb (is_numeric v) then a
      else if d then (if in_seen v seen then a else AccAvg (add_values sum v) (count + 1) d (v :: seen))
           else AccAvg (add_values sum v) (count + 1) d seen
  | AccMin cur d seen =>
      if is_null v || negb (is_comparable v) then a
      else if d && in_seen v seen then a
      else let seen' := if d then v :: seen else seen in
           match cur with
           | Some c => match acc_cmp v c with Lt => AccMin (Some v) d seen' | _ => AccMin cur d seen' end
           | None => AccMin (Some v) d seen'
           end
  | AccMax cur d seen =>
      if is_null v || negb (is_comparable v) then a
      else if d && in_seen v seen then a
      else let seen' := if d then v :: seen else seen in
           match cur with
           | Some c => match acc_cmp v c with Gt => AccMax (Some v) d seen' | _ => AccMax cur d seen' end
           | None => AccMax (Some v) d seen'
           end
  end.

Definition acc_finalize (a : acc) : ares :=
  match a with
  | AccCount count _ _ => ARVal (VInt count)
  | AccSum sum count _ _ => if count =? 0 then ARVal VNull else ARVal sum
  | AccAvg sum count _ _ =>
      if count =? 0 then ARVal VNull
      else match sum with VInt s => ARQuot s count | _ => ARVal VNull end
  | AccMin cur _ _ => ARVal (match cur with Some v => v | None => VNull end)
  | AccMax cur _ _ => ARVal (match cur with Some v => v | None => VNull end)
  end.

Definition acc_run (f : accfn) (d : bool) (vals : list value) : ares :=
  acc_finalize (fold_left acc_step vals (acc_new f d)).

(** * combine (merge of two partial accumulators, used by parallel aggregation) *)
Fixpoint set_union (s1 s2 : list value) : list value :=
  match s2 with
  | [] => s1
  | x :: s2' => if in_seen x s1 then set_union s1 s2' else set_union (x :: s1) s2'
  end.

Definition extreme_of (want : comparison) (s : list value) : option value :=
  fold_left (fun cur v => match cur with
                          | None => Some v
                          | Some c => if match acc_cmp v c, want with Lt, Lt | Gt, Gt => true | _, _ => false end
                                      then Some v else cur
                          end) s None.

Definition acc_combine (a b : acc) : option acc :=
  match a, b with
  | AccCount c1 d1 s1, AccCount c2 d2 s2 =>
      if negb (Bool.eqb d1 d2) then None
      else if d1 then let s := set_union s1 s2 in Some (AccCount (Z.of_nat (length s)) d1 s)
           else Some (AccCount (c1 + c2) d1 s1)
  | AccSum x1 c1 d1 s1, AccSum x2 c2 d2 s2 =>
      if negb (Bool.eqb d1 d2) then None
      else if d1 then let s := set_union s1 s2 in
                      Some (AccSum (fold_left add_values s (VInt 0)) (Z.of_nat (length s)) d1 s)
           else Some (AccSum (add_values x1 x2) (c1 + c2) d1 s1)
  | AccAvg x1 c1 d1 s1, AccAvg x2 c2 d2 s2 =>
      if negb (Bool.eqb d1 d2) then None
      else if d1 then let s := set_union s1 s2 in
                      Some (AccAvg (fold_left add_values s (VInt 0)) (Z.of_nat (length s)) d1 s)
           else Some (AccAvg (add_values x1 x2) (c1 + c2) d1 s1)
  | AccMin v1 d1 s1, AccMin v2 d2 s2 =>
      if negb (Bool.eqb d1 d2) then None
      else if d1 then let s := set_union s1 s2 in Some (AccMin (extreme_of Lt s) d1 s)
           else Some (AccMin (match v1, v2 with
                              | Some c, Some n => match acc_cmp n c with Lt => Some n | _ => Some c end
                              | None, Some n => Some n
                              | _, _ => v1
                              end) d1 s1)
  | AccMax v1 d1 s1, AccMax v2 d2 s2 =>
      if negb (Bool.eqb d1 d2) then None
      else if d1 then let s := set_union s1 s2 in Some (AccMax (extreme_of Gt s) d1 s)
           else Some (AccMax (match v1, v2 with
                              | Some c, Some n => match acc_cmp n c with Gt => Some n | _ => Some c end
                              | None, Some n => Some n
                              | _, _ => v1
                              end) d1 s1)
  | _, _ => None
  end.

(** * The definitional meaning of the aggregates over the argument values of one group *)
Definition dd (d : bool) (seen : list value) (l : list value) : list value :=
  if d then distinct_values_acc seen l else l.

Definition zsum_vals (l : list value) : Z :=
  fold_right (fun v s => match v with VInt x => x + s | _ => s end) 0 l.

Definition all_ints (l : list value) : bool := forallb (fun v => match v with VInt _ | VNull => true | _ => false end) l.
Definition all_strs (l : list value) : bool := forallb (fun v => match v with VStr _ | VNull => true | _ => false end) l.

(** COUNT(x), SUM(x), AVG(x) of the argument values [l] *)
Definition spec_count (d : bool) (l : list value) : Z := Z.of_nat (length (dd d [] (non_null l))).
Definition spec_sum (d : bool) (l : list value) : value :=
  match dd d [] (non_null l) with [] => VNull | vs => VInt (zsum_vals vs) end.
Definition spec_avg (d : bool) (l : list value) : ares :=
  match dd d [] (non_null l) with [] => ARVal VNull | vs => ARQuot (zsum_vals vs) (Z.of_nat (length vs)) end.

(** * A whole single-table aggregate query: optional filter [col op const], GROUP BY columns,
    aggregate list.  Result rows: key values ++ aggregate results. *)
Inductive aggsel :=
| SCountStar
| SAgg (f : accfn) (distinct : bool) (col : nat)
| SAggSum2 (f : accfn) (distinct : bool) (c1 c2 : nat).   (* aggregate of the expression c1 + c2 *)

Definition col_of (r : row) (c : nat) : value := nth c r VNull.

Definition arg_of (s : aggsel) (r : row) : value :=
  match s with
  | SCountStar => VNull
  | SAgg _ _ c => col_of r c
  | SAggSum2 _ _ c1 c2 => match col_of r c1, col_of r c2 with VInt x, VInt y => VInt (x + y) | _, _ => VNull end
  end.

Definition run_aggsel (s : aggsel) (rs : list row) : ares :=
  match s with
  | SCountStar => ARVal (VInt (Z.of_nat (length rs)))
  | SAgg f d _ | SAggSum2 f d _ _ => acc_run f d (map (arg_of s) rs)
  end.

(** filter: [col op const] under 3VL (NULL does not pass) *)
Definition passes (flt : option (nat * binop * value)) (r : row) : bool :=
  match flt with
  | None => true
  | Some (c, op, k) =>
      match sql_compare (col_of r c) k with
      | Ok (Some cmp) => cmp_test op cmp
      | _ => false
      end
  end.

Definition agg_query (rows : list row) (flt : option (nat * binop * value)) (keys : list nat)
           (grouped : bool) (sels : list aggsel) : list (list ares) :=
  let rows1 := filter (passes flt) rows in
  let keyed := map (fun r => (map (col_of r) keys, r)) rows1 in
  let groups := if grouped then group_rows keyed
                else [([], rows1)] in       (* no GROUP BY: exactly one group, even on empty input *)
  map (fun g : row * list row =>
         map ARVal (fst g) ++ map (fun s => run_aggsel s (snd g)) sels) groups.
