(** C24 — laws of the arithmetic operator model (Mech/Arith.v): machine integers, [+ - *],
    division / DIV / modulo, unary minus, ABS, MOD. *)
From Coq Require Import ZArith List Bool Lia.
From VibeSQL Require Import Base.LexOrd Value.SqlValue Mech.F64 Mech.Arith.
Import ListNotations.
Open Scope Z_scope.

(** float primitives are black boxes for every proof below *)
Global Opaque fadd fsub fmul fdiv frem ftrunc f_of_Z f_to_i64 f64_of_f32 f32_of_f64 fneg fabs fis_zero
       fis_finite fgt.

(** * Machine integers *)
Lemma pow63 : 2 ^ 63 = 9223372036854775808. Proof. reflexivity. Qed.
Lemma pow64 : 2 ^ 64 = 18446744073709551616. Proof. reflexivity. Qed.
Lemma pow15 : 2 ^ 15 = 32768. Proof. reflexivity. Qed.
Ltac pows := pose proof pow63 as P63; pose proof pow64 as P64; pose proof pow15 as P15.

Lemma fits_i64_iff z : fits_i64 z = true <-> - 2 ^ 63 <= z <= 2 ^ 63 - 1.
Proof. unfold fits_i64, fits, i64_min, i64_max. rewrite andb_true_iff, !Z.leb_le. tauto. Qed.

Lemma fits_i64_false_iff z : fits_i64 z = false <-> z < - 2 ^ 63 \/ 2 ^ 63 - 1 < z.
Proof.
  unfold fits_i64, fits, i64_min, i64_max. rewrite andb_false_iff, !Z.leb_gt. tauto.
Qed.

Lemma fits_i16_iff z : fits_i16 z = true <-> - 2 ^ 15 <= z <= 2 ^ 15 - 1.
Proof. unfold fits_i16, fits. rewrite andb_true_iff, !Z.leb_le. tauto. Qed.

Lemma fits_u64_iff z : fits_u64 z = true <-> 0 <= z <= 2 ^ 64 - 1.
Proof. unfold fits_u64, fits. rewrite andb_true_iff, !Z.leb_le. tauto. Qed.

Lemma wrap_s_id half z : 0 < half -> - half <= z < half -> wrap_s half z = z.
Proof. intros Hh Hz. unfold wrap_s. rewrite Z.mod_small by lia. lia. Qed.

Lemma wrap_s_range half z : 0 < half -> - half <= wrap_s half z < half.
Proof. intros Hh. unfold wrap_s. pose proof (Z.mod_pos_bound (z + half) (2 * half)). lia. Qed.

(** the wrapped value is congruent to the exact one modulo [2 * half] *)
Lemma wrap_s_congr half z : 0 < half -> (wrap_s half z) mod (2 * half) = z mod (2 * half).
Proof.
  intros Hh. unfold wrap_s.
  rewrite Zminus_mod, Z.mod_mod by lia. rewrite <- Zminus_mod. f_equal. lia.
Qed.

Lemma wrap_s_eq_of_congr half a b :
  0 < half -> a mod (2 * half) = b mod (2 * half) -> wrap_s half a = wrap_s half b.
Proof.
  intros Hh H. unfold wrap_s. f_equal.
  rewrite (Zplus_mod a), (Zplus_mod b), H by lia. reflexivity.
Qed.

Lemma wrap_s_add_l half a b : 0 < half -> wrap_s half (wrap_s half a + b) = wrap_s half (a + b).
Proof.
  intros Hh. apply wrap_s_eq_of_congr; [lia|].
  rewrite Zplus_mod, wrap_s_congr, <- Zplus_mod by lia. reflexivity.
Qed.

Lemma wrap_s_add_r half a b : 0 < half -> wrap_s half (a + wrap_s half b) = wrap_s half (a + b).
Proof. intros Hh. rewrite (Z.add_comm a), wrap_s_add_l, (Z.add_comm b) by lia. reflexivity. Qed.

Lemma wrap64_id z : fits_i64 z = true -> wrap64 z = z.
Proof. rewrite fits_i64_iff. intros H. apply wrap_s_id; lia. Qed.
Lemma wrap64_fits z : fits_i64 (wrap64 z) = true.
Proof. apply fits_i64_iff. pose proof (wrap_s_range (2 ^ 63) z). unfold wrap64. lia. Qed.
Lemma wrap64_add_l a b : wrap64 (wrap64 a + b) = wrap64 (a + b).
Proof. apply wrap_s_add_l. lia. Qed.
Lemma wrap64_add_r a b : wrap64 (a + wrap64 b) = wrap64 (a + b).
Proof. apply wrap_s_add_r. lia. Qed.
Lemma wrap64_congr z : wrap64 z mod 2 ^ 64 = z mod 2 ^ 64.
Proof. change (2 ^ 64) with (2 * 2 ^ 63). apply wrap_s_congr. lia. Qed.
(** a wrapped value differs from the exact one exactly when the exact one does not fit *)
Lemma wrap64_neq z : fits_i64 z = false -> wrap64 z <> z.
Proof.
  intros H E. pose proof (wrap64_fits z) as F. rewrite E in F. congruence.
Qed.

(** [wrap64 x] differs from [x] by a multiple of [2^64]; used to reason about chains of wrapped additions *)
Lemma wrap64_decomp x : exists k, wrap64 x = x + k * 2 ^ 64.
Proof.
  unfold wrap64, wrap_s. exists (- ((x + 2 ^ 63) / (2 * 2 ^ 63))).
  rewrite Z.mod_eq by lia. change (2 ^ 64) with (2 * 2 ^ 63). lia.
Qed.
Lemma wrap64_ext a b : (exists k, a = b + k * 2 ^ 64) -> wrap64 a = wrap64 b.
Proof.
  intros [k ->]. unfold wrap64, wrap_s. f_equal. change (2 ^ 64) with (2 * 2 ^ 63).
  replace (b + k * (2 * 2 ^ 63) + 2 ^ 63) with (b + 2 ^ 63 + k * (2 * 2 ^ 63)) by lia.
  apply Z_mod_plus_full.
Qed.
(** replace one innermost [wrap64 x] of the goal by [x + k * 2^64] *)
Ltac unwrap1 k :=
  match goal with
  | |- context [wrap64 ?x] =>
      lazymatch x with
      | context [wrap64 _] => fail
      | _ => let E := fresh "E" in destruct (wrap64_decomp x) as [k E]; rewrite E; clear E
      end
  end.

Lemma i64_op_fits p z : fits_i64 z = true -> i64_op p z = Ok z.
Proof. intros H. unfold i64_op. now rewrite H. Qed.
Lemma i64_op_debug_overflow z : fits_i64 z = false -> i64_op Debug z = Panic POverflow.
Proof. intros H. unfold i64_op. now rewrite H. Qed.
Lemma i64_op_release z : i64_op Release z = Ok (wrap64 z).
Proof. unfold i64_op. destruct (fits_i64 z) eqn:E; [now rewrite wrap64_id|reflexivity]. Qed.
Lemma i64_op_debug_ok z v : i64_op Debug z = Ok v -> v = z /\ fits_i64 z = true.
Proof. unfold i64_op. destruct (fits_i64 z); [intros [= <-]; auto|discriminate]. Qed.
Lemma i64_op_ok_fits p z v : i64_op p z = Ok v -> fits_i64 v = true.
Proof.
  unfold i64_op. destruct (fits_i64 z) eqn:E; [intros [= <-]; exact E|].
  destruct p; [discriminate|intros [= <-]; apply wrap64_fits].
Qed.
Lemma i64_op_never_err p z e : i64_op p z <> Err e.
Proof. unfold i64_op. destruct (fits_i64 z), p; discriminate. Qed.
Lemma i64_op_panic p z x : i64_op p z = Panic x -> p = Debug /\ x = POverflow /\ fits_i64 z = false.
Proof. unfold i64_op. destruct (fits_i64 z), p; try discriminate. intros [= <-]; auto. Qed.
(** profile irrelevance in the absence of overflow *)
Lemma i64_op_profile_irrelevant z : fits_i64 z = true -> i64_op Debug z = i64_op Release z.
Proof. intros H. now rewrite !i64_op_fits. Qed.

Lemma i16_op_fits p z : fits_i16 z = true -> i16_op p z = Ok z.
Proof. intros H. unfold i16_op. now rewrite H. Qed.
Lemma i16_op_panic p z x : i16_op p z = Panic x -> p = Debug /\ x = POverflow /\ fits_i16 z = false.
Proof. unfold i16_op. destruct (fits_i16 z), p; try discriminate. intros [= <-]; auto. Qed.
Lemma u64_op_fits p z : fits_u64 z = true -> u64_op p z = Ok z.
Proof. intros H. unfold u64_op. now rewrite H. Qed.

Lemma i64_rem_ok a b : b <> 0 -> ~ (a = i64_min /\ b = -1) -> i64_rem a b = Ok (Z.rem a b).
Proof.
  intros Hb Hm. unfold i64_rem. destruct (Z.eqb_spec b 0); [contradiction|].
  destruct (Z.eqb_spec a i64_min), (Z.eqb_spec b (-1)); cbn [andb]; try reflexivity. exfalso; auto.
Qed.
Lemma i64_rem_panic a b x :
  i64_rem a b = Panic x -> (b = 0 /\ x = PDivZero) \/ (a = i64_min /\ b = -1 /\ x = POverflow).
Proof.
  unfold i64_rem. destruct (Z.eqb_spec b 0); [intros [= <-]; auto|].
  destruct (Z.eqb_spec a i64_min), (Z.eqb_spec b (-1)); cbn [andb]; try discriminate.
  intros [= <-]; auto.
Qed.
Lemma i64_rem_never_err a b e : i64_rem a b <> Err e.
Proof. unfold i64_rem. destruct (b =? 0), ((a =? i64_min) && (b =? -1)); discriminate. Qed.

(** * Integer view of a value *)
(** the mathematical integer an exact-numeric or boolean value denotes *)
Definition to_Z (v : sqlvalue) : option Z :=
  match v with
  | VInteger z | VSmallint z | VBigint z | VUnsigned z => Some z
  | VBoolean b => Some (if b then 1 else 0)
  | _ => None
  end.
(** known class [unsigned-as-i64-wrap]: an UNSIGNED value above [i64::MAX] *)
Definition unsigned_wrap (v : sqlvalue) : bool :=
  match v with VUnsigned z => 2 ^ 63 <=? z | _ => false end.

(** the pair of i64 operands the integer paths of [+ - * DIV %] work on *)
Definition exact_pair (l r : sqlvalue) : option (Z * Z) :=
  if is_null l || is_null r then None
  else match l, r with
       | VInteger a, VInteger b => Some (a, b)
       | _, _ => match coerce_numeric_values l r with Ok (CExact a b) => Some (a, b) | _ => None end
       end.

Lemma to_i64_of_to_Z v z :
  to_Z v = Some z -> wf v = true -> unsigned_wrap v = false -> to_i64 v = Some z.
Proof.
  destruct v; cbn [to_Z to_i64 wf unsigned_wrap]; try discriminate; intros [= <-] Hwf Hu; try reflexivity.
  f_equal. apply wrap64_id. apply fits_i64_iff.
  unfold in_range in Hwf. apply andb_true_iff in Hwf as [H0 _]. apply Z.leb_le in H0.
  apply Z.leb_gt in Hu. lia.
Qed.

Lemma to_Z_fits v z : to_Z v = Some z -> wf v = true -> unsigned_wrap v = false -> fits_i64 z = true.
Proof.
  destruct v; cbn [to_Z wf unsigned_wrap]; try discriminate; intros [= <-] Hwf Hu;
    unfold in_range in Hwf; try (apply andb_true_iff in Hwf as [H0 H1]; apply Z.leb_le in H0; apply Z.ltb_lt in H1);
    apply fits_i64_iff; pows; try lia.
  destruct b; lia.
Qed.

Lemma to_Z_not_null v z : to_Z v = Some z -> is_null v = false.
Proof. destruct v; cbn; congruence. Qed.

Lemma exact_pair_of_to_Z l r a b :
  to_Z l = Some a -> to_Z r = Some b -> wf l = true -> wf r = true ->
  unsigned_wrap l = false -> unsigned_wrap r = false -> exact_pair l r = Some (a, b).
Proof.
  intros Hl Hr Wl Wr Ul Ur.
  pose proof (to_i64_of_to_Z _ _ Hl Wl Ul) as Il. pose proof (to_i64_of_to_Z _ _ Hr Wr Ur) as Ir.
  unfold exact_pair. rewrite (to_Z_not_null _ _ Hl), (to_Z_not_null _ _ Hr). cbn [orb].
  destruct l; cbn [to_Z] in Hl; try discriminate;
    destruct r; cbn [to_Z] in Hr; try discriminate;
    try (injection Hl as <-; injection Hr as <-; reflexivity);
    unfold coerce_numeric_values; cbn [is_boolean is_exact_numeric orb andb boolean_to_i64 opt_or];
    try rewrite Il; try rewrite Ir; cbn [opt_or];
    try (destruct b0; cbn [opt_or]); try (destruct b1; cbn [opt_or]);
    cbn [to_i64] in Il, Ir; try rewrite Il; try rewrite Ir;
    repeat match goal with H : Some _ = Some _ |- _ => injection H as H; subst end; try reflexivity.
Qed.

Lemma coerce_never_panics l r x : coerce_numeric_values l r <> Panic x.
Proof.
  unfold coerce_numeric_values.
  repeat match goal with
         | |- context [if ?c then _ else _] => destruct c
         | |- context [match ?c with Some _ => _ | None => _ end] => destruct c
         end; discriminate.
Qed.

(** * [+], [-], [*] *)
Inductive aop := OAdd | OSub | OMul.
Definition z_op (o : aop) (a b : Z) : Z :=
  match o with OAdd => a + b | OSub => a - b | OMul => a * b end.

Section WithTemporal.
  Variable temporal : bool -> sqlvalue -> sqlvalue -> res sqlvalue.

  Definition arith3 (o : aop) (p : profile) (l r : sqlvalue) : res sqlvalue :=
    match o with
    | OAdd => add temporal p l r
    | OSub => subtract temporal p l r
    | OMul => multiply p l r
    end.

  (** pairs handed to the date arithmetic (not modelled here) or rejected before coercion *)
  Definition temporal_pair (o : aop) (l r : sqlvalue) : bool :=
    match o with
    | OAdd => (is_datelike l && is_interval r) || (is_interval l && is_datelike r)
    | OSub => (is_datelike l && is_interval r) || (is_interval l && is_datelike r)
    | OMul => false
    end.

  Lemma exact_pair_not_temporal o l r ab : exact_pair l r = Some ab -> temporal_pair o l r = false.
  Proof.
    unfold exact_pair. destruct (is_null l || is_null r); [discriminate|].
    destruct l, r; cbn; try discriminate; destruct o; reflexivity.
  Qed.

  (** on an exact pair the three operators are the integer operation on i64, unchecked *)
  Lemma arith3_exact o p l r a b :
    exact_pair l r = Some (a, b) ->
    arith3 o p l r = (do z <- i64_op p (z_op o a b); Ok (VInteger z)).
  Proof.
    intros H. pose proof (exact_pair_not_temporal OAdd _ _ _ H) as Ht.
    unfold exact_pair in H. unfold arith3, add, subtract, multiply.
    destruct (is_null l || is_null r) eqn:N; [discriminate|].
    cbn [temporal_pair] in Ht.
    destruct l, r; try discriminate; cbn [is_datelike is_interval andb orb] in *; try discriminate;
      try (injection H as <- <-; destruct o; reflexivity);
      (destruct (coerce_numeric_values _ _) as [[c1 c2|c1 c2|c1 c2]| |]; try discriminate;
       injection H as <- <-; destruct o; reflexivity).
  Qed.

  (** without an exact pair (floats, strings, temporal values, NULL) the three operators never panic,
      provided the delegated date arithmetic does not *)
  Lemma arith3_inexact_no_panic o p l r x :
    exact_pair l r = None -> temporal_pair o l r = false -> arith3 o p l r <> Panic x.
  Proof.
    unfold exact_pair, arith3, add, subtract, multiply, temporal_pair.
    destruct (is_null l || is_null r) eqn:N; [intros _ _; destruct o; discriminate|].
    intros H Ht.
    destruct l, r; try discriminate H; cbn [is_datelike is_interval andb orb] in *; try discriminate;
      destruct (coerce_numeric_values _ _) as [[c1 c2|c1 c2|c1 c2]| |] eqn:C; try discriminate;
      destruct o; cbn [bind]; try discriminate;
      exfalso; eapply coerce_never_panics; eassumption.
  Qed.

  (** ** exact or error: the result of an integer operation that returns is the exact integer,
         in the Debug profile always, in the Release profile exactly when the exact result fits *)
  Theorem arith_exact_or_error o p l r a b v :
    to_Z l = Some a -> to_Z r = Some b -> wf l = true -> wf r = true ->
    unsigned_wrap l = false -> unsigned_wrap r = false ->
    arith3 o p l r = Ok v ->
    (p = Debug \/ fits_i64 (z_op o a b) = true) ->
    v = VInteger (z_op o a b).
  Proof.
    intros Hl Hr Wl Wr Ul Ur Hop Hside.
    rewrite (arith3_exact o p l r a b) in Hop by (apply exact_pair_of_to_Z; assumption).
    destruct Hside as [-> | Hf].
    - destruct (i64_op Debug (z_op o a b)) eqn:E; cbn [bind] in Hop; try discriminate.
      apply i64_op_debug_ok in E as [-> _]. congruence.
    - rewrite i64_op_fits in Hop by assumption. cbn [bind] in Hop. congruence.
  Qed.

  (** ** no panic (and the exact value) under the no-overflow side condition, both profiles *)
  Theorem arith_no_overflow_ok o p l r a b :
    to_Z l = Some a -> to_Z r = Some b -> wf l = true -> wf r = true ->
    unsigned_wrap l = false -> unsigned_wrap r = false ->
    fits_i64 (z_op o a b) = true ->
    arith3 o p l r = Ok (VInteger (z_op o a b)).
  Proof.
    intros Hl Hr Wl Wr Ul Ur Hf.
    rewrite (arith3_exact o p l r a b) by (apply exact_pair_of_to_Z; assumption).
    now rewrite i64_op_fits.
  Qed.

  (** ** the Debug build panics exactly on overflow; the Release build returns the wrapped value *)
  Theorem arith_debug_panic_iff_overflow o l r a b :
    exact_pair l r = Some (a, b) ->
    (arith3 o Debug l r = Panic POverflow <-> fits_i64 (z_op o a b) = false).
  Proof.
    intros H. rewrite (arith3_exact o Debug l r a b H). split.
    - destruct (fits_i64 (z_op o a b)) eqn:E; [|reflexivity]. rewrite i64_op_fits by assumption. discriminate.
    - intros E. now rewrite i64_op_debug_overflow.
  Qed.

  Theorem arith_release_wraps o l r a b :
    exact_pair l r = Some (a, b) -> arith3 o Release l r = Ok (VInteger (wrap64 (z_op o a b))).
  Proof. intros H. rewrite (arith3_exact o Release l r a b H), i64_op_release. reflexivity. Qed.

  (** ** every panic of [+ - *], for operands of ANY variant, is a Debug-profile i64 overflow *)
  Theorem arith_panic_only_overflow o p l r x :
    (forall is_add l' r' y, temporal is_add l' r' <> Panic y) ->
    arith3 o p l r = Panic x ->
    p = Debug /\ x = POverflow /\
    exists a b, exact_pair l r = Some (a, b) /\ fits_i64 (z_op o a b) = false.
  Proof.
    intros Ht Hp.
    destruct (exact_pair l r) as [[a b]|] eqn:E.
    - rewrite (arith3_exact o p l r a b E) in Hp.
      destruct (i64_op p (z_op o a b)) eqn:Eo; cbn [bind] in Hp; try discriminate.
      injection Hp as <-. apply i64_op_panic in Eo as (-> & -> & Hf). repeat split; eauto.
    - exfalso. destruct (temporal_pair o l r) eqn:T.
      + unfold exact_pair in E. unfold arith3, add, subtract, multiply, temporal_pair in *.
        destruct (is_null l || is_null r) eqn:N; [destruct o; discriminate|].
        destruct o; try discriminate;
          destruct l, r; cbn [is_datelike is_interval andb orb] in *; try discriminate;
          try (eapply Ht; eassumption).
      + eapply arith3_inexact_no_panic; eassumption.
  Qed.
End WithTemporal.

(** * Refutations of the full-strength statements (faithful model, real code confirmed by the harness) *)
Definition no_temporal (_ : bool) (_ _ : sqlvalue) : res sqlvalue := Err EUnsupported.

(** [SELECT 9223372036854775807 + 1], [-9223372036854775808 - 1], [3037000500 * 3037000500] *)
Lemma arith_no_panic_refuted :
  arith3 no_temporal OAdd Debug (VInteger i64_max) (VInteger 1) = Panic POverflow /\
  arith3 no_temporal OSub Debug (VInteger i64_min) (VInteger 1) = Panic POverflow /\
  arith3 no_temporal OMul Debug (VInteger 3037000500) (VInteger 3037000500) = Panic POverflow.
Proof. vm_compute. auto. Qed.

Lemma arith_silent_wrap_refuted :
  arith3 no_temporal OAdd Release (VInteger i64_max) (VInteger 1) = Ok (VInteger i64_min) /\
  arith3 no_temporal OSub Release (VInteger i64_min) (VInteger 1) = Ok (VInteger i64_max) /\
  arith3 no_temporal OMul Release (VInteger i64_max) (VInteger 2) = Ok (VInteger (-2)).
Proof. vm_compute. auto. Qed.

(** [CAST(18446744073709551615 AS UNSIGNED) + 0 = -1] in both profiles *)
Lemma unsigned_wrap_refuted :
  forall p, arith3 no_temporal OAdd p (VUnsigned (2 ^ 64 - 1)) (VInteger 0) = Ok (VInteger (-1)).
Proof. intros []; vm_compute; reflexivity. Qed.

(** hypotheses of the theorems are satisfiable by non-trivial inputs *)
Example arith_exact_example :
  arith3 no_temporal OMul Release (VSmallint (-300)) (VBigint 4000000000) = Ok (VInteger (-1200000000000)) /\
  arith3 no_temporal OSub Debug (VBoolean true) (VUnsigned 5) = Ok (VInteger (-4)) /\
  exact_pair (VSmallint (-300)) (VBigint 4000000000) = Some (-300, 4000000000).
Proof. vm_compute. auto. Qed.

(** * Modulo, DIV, division *)
Section WithTemporal2.
  Lemma modulo_exact_pair l r a b :
    exact_pair l r = Some (a, b) ->
    modulo l r = (if b =? 0 then Ok VNull else do z <- i64_rem a b; Ok (VInteger z)).
  Proof.
    unfold exact_pair, modulo. destruct (is_null l || is_null r); [discriminate|].
    destruct l, r; try discriminate; try (intros [= <- <-]; reflexivity);
      (destruct (coerce_numeric_values _ _) as [[c1 c2|c1 c2|c1 c2]| |]; try discriminate;
       intros [= <- <-]; cbn [bind coerced_right_is_zero]; reflexivity).
  Qed.

  Lemma modulo_inexact_no_panic l r x : exact_pair l r = None -> modulo l r <> Panic x.
  Proof.
    unfold exact_pair, modulo. destruct (is_null l || is_null r); [discriminate|].
    destruct l, r; try discriminate;
      (destruct (coerce_numeric_values _ _) as [[c1 c2|c1 c2|c1 c2]| |] eqn:C; try discriminate;
       cbn [bind coerced_right_is_zero]; intros _;
       first [ discriminate
             | match goal with |- context [if ?c then _ else _] => destruct c end; discriminate
             | exfalso; eapply coerce_never_panics; eassumption ]).
  Qed.

  (** [%] returns the exact truncated remainder, NULL for a zero divisor *)
  Theorem modulo_exact l r a b v :
    to_Z l = Some a -> to_Z r = Some b -> wf l = true -> wf r = true ->
    unsigned_wrap l = false -> unsigned_wrap r = false ->
    modulo l r = Ok v ->
    (b = 0 /\ v = VNull) \/ (b <> 0 /\ v = VInteger (Z.rem a b)).
  Proof.
    intros Hl Hr Wl Wr Ul Ur.
    rewrite (modulo_exact_pair l r a b) by (apply exact_pair_of_to_Z; assumption).
    destruct (Z.eqb_spec b 0) as [->|Hb]; [intros [= <-]; auto|].
    unfold i64_rem. destruct (Z.eqb_spec b 0); [contradiction|].
    destruct ((a =? i64_min) && (b =? -1)); cbn [bind]; [discriminate|]. intros [= <-]. auto.
  Qed.

  (** the only panic of [%], for operands of any variant: [i64::MIN % -1] (both profiles) *)
  Theorem modulo_panic_iff l r x :
    modulo l r = Panic x <-> x = POverflow /\ exact_pair l r = Some (i64_min, -1).
  Proof.
    split.
    - intros H. destruct (exact_pair l r) as [[a b]|] eqn:E.
      + rewrite (modulo_exact_pair l r a b E) in H.
        destruct (Z.eqb_spec b 0); [discriminate|].
        destruct (i64_rem a b) eqn:R; cbn [bind] in H; try discriminate. injection H as <-.
        apply i64_rem_panic in R as [[? _]|(-> & -> & ->)]; [contradiction|auto].
      + exfalso. eapply modulo_inexact_no_panic; eassumption.
    - intros [-> E]. rewrite (modulo_exact_pair l r _ _ E). reflexivity.
  Qed.

  (** DIV never panics (it goes through f64 and a saturating cast) ... *)
  Theorem integer_divide_never_panics l r x : integer_divide l r <> Panic x.
  Proof.
    unfold integer_divide. destruct (is_null l || is_null r); [discriminate|].
    destruct l, r;
      try (match goal with |- context [if ?c then _ else _] => destruct c end; discriminate);
      (destruct (coerce_numeric_values _ _) as [[c1 c2|c1 c2|c1 c2]| |] eqn:C; cbn [bind];
       [ match goal with |- context [if ?c then _ else _] => destruct c end; discriminate ..
       | discriminate | exfalso; eapply coerce_never_panics; eassumption ]).
  Qed.
End WithTemporal2.

(** ... but is not exact: [9007199254740993 DIV 1 = 9007199254740992] and
    [i64::MIN DIV -1 = i64::MAX] (known class int-div-via-f64) *)
Lemma integer_divide_inexact_refuted :
  integer_divide (VInteger 9007199254740993) (VInteger 1) = Ok (VInteger 9007199254740992) /\
  integer_divide (VInteger i64_min) (VInteger (-1)) = Ok (VInteger i64_max).
Proof. vm_compute. auto. Qed.

(** DIV is exact on a finite box (exhaustive evaluation of the model: 401 x 400 pairs) *)
Definition zrange (lo n : nat) : list Z := map (fun k => Z.of_nat k - Z.of_nat lo) (seq 0 n).
Lemma integer_divide_exact_small_check :
  forallb (fun a => forallb (fun b => (b =? 0) || (int_div_via_f64 a b =? Z.quot a b)) (zrange 200 401))
          (zrange 200 401) = true.
Proof. vm_compute. reflexivity. Qed.

Lemma in_zrange lo n z : - Z.of_nat lo <= z < Z.of_nat n - Z.of_nat lo -> In z (zrange lo n).
Proof.
  intros H. unfold zrange. apply in_map_iff. exists (Z.to_nat (z + Z.of_nat lo)). split; [lia|].
  apply in_seq. lia.
Qed.

Theorem integer_divide_exact_small a b :
  -200 <= a <= 200 -> -200 <= b <= 200 -> b <> 0 ->
  integer_divide (VInteger a) (VInteger b) = Ok (VInteger (Z.quot a b)).
Proof.
  intros Ha Hb Hn.
  pose proof integer_divide_exact_small_check as H.
  rewrite forallb_forall in H. specialize (H a (in_zrange 200 401 a ltac:(lia))).
  rewrite forallb_forall in H. specialize (H b (in_zrange 200 401 b ltac:(lia))).
  apply orb_true_iff in H as [H|H]; [apply Z.eqb_eq in H; contradiction|]. apply Z.eqb_eq in H.
  unfold integer_divide. cbn [is_null orb]. destruct (Z.eqb_spec b 0); [contradiction|]. now rewrite H.
Qed.

(** ** Division::divide: the [unreachable!()] arm is reachable (known class div-unreachable-arm) *)
(** operands for which the coerced kind and the mode's result type have no arm *)
Definition div_unreachable_class (m : sqlmode) (l r : sqlvalue) : bool :=
  negb (is_null l || is_null r) &&
  match coerce_numeric_values l r with
  | Ok c =>
      negb (coerced_right_is_zero c) &&
      match m, c with
      | MySQL, CApprox _ _ => true                                   (* FLOAT/REAL/DOUBLE operands *)
      | SQLite, CExact _ _ => is_float_value l || is_float_value r   (* BOOLEAN with a float operand *)
      | _, _ => false
      end
  | _ => false
  end.

Ltac fin_iff :=
  split;
  [ first [ discriminate | intros [= <-]; split; reflexivity ]
  | first [ intros [_ ?]; discriminate | intros [-> _]; reflexivity ] ].

Theorem divide_panic_iff m l r x :
  divide m l r = Panic x <-> x = PUnreachable /\ div_unreachable_class m l r = true.
Proof.
  unfold divide, div_unreachable_class.
  destruct (is_null l || is_null r) eqn:N; cbn [negb andb].
  { fin_iff. }
  destruct l, r; unfold coerce_numeric_values;
    cbn [is_boolean is_exact_numeric is_approximate_numeric is_int3 is_numeric_variant orb andb
         boolean_to_i64 to_i64 to_f64 opt_or];
    repeat match goal with b : bool |- _ => destruct b end;
    cbn [opt_or bind coerced_right_is_zero];
    try match goal with |- context [if ?c then _ else _] => destruct c end;
    destruct m; cbn [negb andb division_result_type is_float_value orb]; fin_iff.
Qed.

(** on integer-variant operands (no float involved) [/] never panics, in either mode *)
Theorem divide_int_no_panic m l r a b x :
  to_Z l = Some a -> to_Z r = Some b -> divide m l r <> Panic x.
Proof.
  intros Hl Hr H. apply divide_panic_iff in H as [_ C]. unfold div_unreachable_class in C.
  destruct l; cbn [to_Z] in Hl; try discriminate; destruct r; cbn [to_Z] in Hr; try discriminate;
    unfold coerce_numeric_values in C;
    cbn [is_null orb negb andb is_boolean is_exact_numeric boolean_to_i64 to_i64 opt_or is_float_value] in C;
    repeat match type of C with context [match ?bb with true => _ | false => _ end] => destruct bb end;
    cbn [opt_or coerced_right_is_zero] in C;
    repeat match type of C with context [if ?c then _ else _] => destruct c end;
    try destruct m; cbn in C; rewrite ?andb_false_r in C; discriminate.
Qed.

(** [CAST(1.5 AS FLOAT) / 2] in the default (MySQL) mode; [TRUE / 1.5] in SQLite mode *)
Lemma divide_no_panic_refuted :
  divide MySQL (VFloat 1069547520) (VInteger 2) = Panic PUnreachable /\
  divide SQLite (VBoolean true) (VNumeric 4609434218613702656) = Panic PUnreachable.
Proof. vm_compute. auto. Qed.

Example divide_example :
  divide MySQL (VInteger 7) (VInteger 2) = Ok (VNumeric 4615063718147915776) /\   (* 3.5 *)
  divide MySQL (VInteger 7) (VInteger 0) = Ok VNull /\
  div_unreachable_class MySQL (VInteger 7) (VInteger 2) = false.
Proof. vm_compute. auto. Qed.

(** * Unary minus, ABS *)
Definition neg_overflow_class (v : sqlvalue) : bool :=
  match v with
  | VInteger n | VBigint n => n =? i64_min
  | VSmallint n => n =? - 2 ^ 15
  | _ => false
  end.

Theorem unary_minus_panic_iff p v x :
  wf v = true ->
  (unary_minus p v = Panic x <-> p = Debug /\ x = POverflow /\ neg_overflow_class v = true).
Proof.
  intros W. destruct v; cbn [unary_minus neg_overflow_class wf] in *;
    try (split; [discriminate|intros (_ & _ & ?); discriminate]);
    unfold in_range in W; apply andb_true_iff in W as [W0 W1]; apply Z.leb_le in W0; apply Z.ltb_lt in W1.
  1,3: (split;
    [ destruct (i64_op p (- z)) eqn:E; cbn [bind]; try discriminate; intros [= <-];
      apply i64_op_panic in E as (-> & -> & F); apply fits_i64_false_iff in F;
      repeat split; apply Z.eqb_eq; unfold i64_min; lia
    | intros (-> & -> & H); apply Z.eqb_eq in H; subst z; reflexivity ]).
  split.
  - destruct (i16_op p (- z)) eqn:E; cbn [bind]; try discriminate; intros [= <-].
    apply i16_op_panic in E as (-> & -> & F). repeat split. apply Z.eqb_eq.
    unfold fits_i16, fits in F. apply andb_false_iff in F as [F|F]; apply Z.leb_gt in F; lia.
  - intros (-> & -> & H). apply Z.eqb_eq in H. subst z. reflexivity.
Qed.

Theorem unary_minus_exact p v z :
  wf v = true -> neg_overflow_class v = false ->
  match v with VInteger _ | VBigint _ | VSmallint _ => True | _ => False end ->
  to_Z v = Some z ->
  exists w, unary_minus p v = Ok w /\ to_Z w = Some (- z).
Proof.
  intros W C K Hz. destruct v; try contradiction; cbn [to_Z] in Hz; injection Hz as ->;
    cbn [unary_minus neg_overflow_class wf] in *;
    unfold in_range in W; apply andb_true_iff in W as [W0 W1]; apply Z.leb_le in W0; apply Z.ltb_lt in W1;
    apply Z.eqb_neq in C.
  - rewrite i64_op_fits by (apply fits_i64_iff; unfold i64_min in C; lia). eexists; split; reflexivity.
  - rewrite i16_op_fits by (apply fits_i16_iff; lia). eexists; split; reflexivity.
  - rewrite i64_op_fits by (apply fits_i64_iff; unfold i64_min in C; lia). eexists; split; reflexivity.
Qed.

Lemma unary_minus_refuted :
  unary_minus Debug (VInteger i64_min) = Panic POverflow /\
  unary_minus Release (VInteger i64_min) = Ok (VInteger i64_min) /\
  unary_minus Release (VSmallint (-32768)) = Ok (VSmallint (-32768)).
Proof. vm_compute. auto. Qed.

Theorem abs_panic_iff p v x :
  wf v = true ->
  (abs_fn p v = Panic x <-> p = Debug /\ x = POverflow /\ neg_overflow_class v = true).
Proof.
  intros W. destruct v; cbn [abs_fn neg_overflow_class wf] in *;
    try (split; [discriminate|intros (_ & _ & ?); discriminate]);
    unfold in_range in W; apply andb_true_iff in W as [W0 W1]; apply Z.leb_le in W0; apply Z.ltb_lt in W1.
  1,3: (split;
    [ destruct (i64_op p (Z.abs z)) eqn:E; cbn [bind]; try discriminate; intros [= <-];
      apply i64_op_panic in E as (-> & -> & F); apply fits_i64_false_iff in F;
      repeat split; apply Z.eqb_eq; unfold i64_min; lia
    | intros (-> & -> & H); apply Z.eqb_eq in H; subst z; reflexivity ]).
  split.
  - destruct (i16_op p (Z.abs z)) eqn:E; cbn [bind]; try discriminate; intros [= <-].
    apply i16_op_panic in E as (-> & -> & F). repeat split. apply Z.eqb_eq.
    unfold fits_i16, fits in F. apply andb_false_iff in F as [F|F]; apply Z.leb_gt in F; lia.
  - intros (-> & -> & H). apply Z.eqb_eq in H. subst z. reflexivity.
Qed.

Theorem mod_fn_panic_iff a b x :
  mod_fn a b = Panic x <-> x = POverflow /\ a = VInteger i64_min /\ b = VInteger (-1).
Proof.
  split.
  - destruct a, b; cbn [mod_fn]; try discriminate;
      try (match goal with |- context [if ?c then _ else _] => destruct c end; discriminate).
    destruct (Z.eqb_spec z0 0); [discriminate|].
    destruct (i64_rem z z0) eqn:R; cbn [bind]; try discriminate. intros [= <-].
    apply i64_rem_panic in R as [[? _]|(-> & -> & ->)]; [contradiction|auto].
  - intros (-> & -> & ->). reflexivity.
Qed.
