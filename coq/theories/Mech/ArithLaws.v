(** C24 — laws of the arithmetic operator model (Mech/Arith.v): machine integers, [+ - *],
    division / DIV / modulo, unary minus, ABS, MOD. *)
From Coq Require Import ZArith List Bool Lia.
From VibeSQL Require Import Base.LexOrd Value.SqlValue Mech.F64 Mech.Arith.
Import ListNotations.
Open Scope Z_scope.

(** float primitives are black boxes for every proof below *)
Global Opaque fadd fsub fmul fdiv frem ftrunc f_of_Z f_to_i64 f64_of_f32 f32_of_f64 fneg fabs fis_zero
       fis_finite fgt.

(** * Machine integers *)
Lemma pow63 : 2 ^ 63 = 9223372036854775808. Proof. reflexivity. Qed.
Lemma pow64 : 2 ^ 64 = 18446744073709551616. Proof. reflexivity. Qed.
Lemma pow15 : 2 ^ 15 = 32768. Proof. reflexivity. Qed.
Ltac pows := pose proof pow63 as P63; pose proof pow64 as P64; pose proof pow15 as P15.

Lemma fits_i64_iff z : fits_i64 z = true <-> - 2 ^ 63 <= z <= 2 ^ 63 - 1.
Proof. unfold fits_i64, fits, i64_min, i64_max. rewrite andb_true_iff, !Z.leb_le. tauto. Qed.

Lemma fits_i64_false_iff z : fits_i64 z = false <-> z < - 2 ^ 63 \/ 2 ^ 63 - 1 < z.
Proof.
  unfold fits_i64, fits, i64_min, i64_max. rewrite andb_false_iff, !Z.leb_gt. tauto.
Qed.

Lemma fits_i16_iff z : fits_i16 z = true <-> - 2 ^ 15 <= z <= 2 ^ 15 - 1.
Proof. unfold fits_i16, fits. rewrite andb_true_iff, !Z.leb_le. tauto. Qed.

Lemma fits_u64_iff z : fits_u64 z = true <-> 0 <= z <= 2 ^ 64 - 1.
Proof. unfold fits_u64, fits. rewrite andb_true_iff, !Z.leb_le. tauto. Qed.

Lemma wrap_s_id half z : 0 < half -> - half <= z < half -> wrap_s half z = z.
Proof. intros Hh Hz. unfold wrap_s. rewrite Z.mod_small by lia. lia. Qed.

Lemma wrap_s_range half z : 0 < half -> - half <= wrap_s half z < half.
Proof. intros Hh. unfold wrap_s. pose proof (Z.mod_pos_bound (z + half) (2 * half)). lia. Qed.

(** the wrapped value is congruent to the exact one modulo [2 * half] *)
Lemma wrap_s_congr half z : 0 < half -> (wrap_s half z) mod (2 * half) = z mod (2 * half).
Proof.
  intros Hh. unfold wrap_s.
  rewrite Zminus_mod, Z.mod_mod by lia. rewrite <- Zminus_mod. f_equal. lia.
Qed.

Lemma wrap_s_eq_of_congr half a b :
  0 < half -> a mod (2 * half) = b mod (2 * half) -> wrap_s half a = wrap_s half b.
Proof.
  intros Hh H. unfold wrap_s. f_equal.
  rewrite (Zplus_mod a), (Zplus_mod b), H by lia. reflexivity.
Qed.

Lemma wrap_s_add_l half a b : 0 < half -> wrap_s half (wrap_s half a + b) = wrap_s half (a + b).
Proof.
  intros Hh. apply wrap_s_eq_of_congr; [lia|].
  rewrite Zplus_mod, wrap_s_congr, <- Zplus_mod by lia. reflexivity.
Qed.

Lemma wrap_s_add_r half a b : 0 < half -> wrap_s half (a + wrap_s half b) = wrap_s half (a + b).
Proof. intros Hh. rewrite (Z.add_comm a), wrap_s_add_l, (Z.add_comm b) by lia. reflexivity. Qed.

Lemma wrap64_id z : fits_i64 z = true -> wrap64 z = z.
Proof. rewrite fits_i64_iff. intros H. apply wrap_s_id; lia. Qed.
Lemma wrap64_fits z : fits_i64 (wrap64 z) = true.
Proof. apply fits_i64_iff. pose proof (wrap_s_range (2 ^ 63) z). unfold wrap64. lia. Qed.
Lemma wrap64_add_l a b : wrap64 (wrap64 a + b) = wrap64 (a + b).
Proof. apply wrap_s_add_l. lia. Qed.
Lemma wrap64_add_r a b : wrap64 (a + wrap64 b) = wrap64 (a + b).
Proof. apply wrap_s_add_r. lia. Qed.
Lemma wrap64_congr z : wrap64 z mod 2 ^ 64 = z mod 2 ^ 64.
Proof. change (2 ^ 64) with (2 * 2 ^ 63). apply wrap_s_congr. lia. Qed.
(** a wrapped value differs from the exact one exactly when the exact one does not fit *)
Lemma wrap64_neq z : fits_i64 z = false -> wrap64 z <> z.
Proof.
  intros H E. pose proof (wrap64_fits z) as F. rewrite E in F. congruence.
Qed.

(** [wrap64 x] differs from [x] by a multiple of [2^64]; used to reason about chains of wrapped additions *)
Lemma wrap64_decomp x : exists k, wrap64 x = x + k * 2 ^ 64.
Proof.
  unfold wrap64, wrap_s. exists (- ((x + 2 ^ 63) / (2 * 2 ^ 63))).
  rewrite Z.mod_eq by lia. change (2 ^ 64) with (2 * 2 ^ 63). lia.
Qed.
Lemma wrap64_ext a b : (exists k, a = b + k * 2 ^ 64) -> wrap64 a = wrap64 b.
Proof.
  intros [k ->]. unfold wrap64, wrap_s. f_equal. change (2 ^ 64) with (2 * 2 ^ 63).
  replace (b + k * (2 * 2 ^ 63) + 2 ^ 63) with (b + 2 ^ 63 + k * (2 * 2 ^ 63)) by lia.
  apply Z_mod_plus_full.
Qed.
(** replace one innermost [wrap64 x] of the goal by [x + k * 2^64] *)
Ltac unwrap1 k :=
  match goal with
  | |- context [wrap64 ?x] =>
      lazymatch x with
      | context [wrap64 _] => fail
      | _ => let E := fresh "E" in destruct (wrap64_decomp x) as [k E]; rewrite E; clear E
      end
  end.

Lemma i64_op_fits p z : fits_i64 z = true -> i64_op p z = Ok z.
Proof. intros H. unfold i64_op. now rewrite H. Qed.
Lemma i64_op_debug_overflow z : fits_i64 z = false -> i64_op Debug z = Panic POverflow.
Proof. intros H. unfold i64_op. now rewrite H. Qed.
Lemma i64_op_release z : i64_op Release z = Ok (wrap64 z).
Proof. unfold i64_op. destruct (fits_i64 z) eqn:E; [now rewrite wrap64_id|reflexivity]. Qed.
Lemma i64_op_debug_ok z v : i64_op Debug z = Ok v -> v = z /\ fits_i64 z = true.
Proof. unfold i64_op. destruct (fits_i64 z); [intros [= <-]; auto|discriminate]. Qed.
Lemma i64_op_ok_fits p z v : i64_op p z = Ok v -> fits_i64 v = true.
Proof.
  unfold i64_op. destruct (fits_i64 z) eqn:E; [intros [= <-]; exact E|].
  destruct p; [discriminate|intros [= <-]; apply wrap64_fits].
Qed.
Lemma i64_op_never_err p z e : i64_op p z <> Err e.
Proof. unfold i64_op. destruct (fits_i64 z), p; discriminate. Qed.
Lemma i64_op_panic p z x : i64_op p z = Panic x -> p = Debug /\ x = POverflow /\ fits_i64 z = false.
Proof. unfold i64_op. destruct (fits_i64 z), p; try discriminate. intros [= <-]; auto. Qed.
(** profile irrelevance in the absence of overflow *)
Lemma i64_op_profile_irrelevant z : fits_i64 z = true -> i64_op Debug z = i64_op Release z.
Proof. intros H. now rewrite !i64_op_fits. Qed.

Lemma i16_op_fits p z : fits_i16 z = true -> i16_op p z = Ok z.
Proof. intros H. unfold i16_op. now rewrite H. Qed.
Lemma i16_op_panic p z x : i16_op p z = Panic x -> p = Debug /\ x = POverflow /\ fits_i16 z = false.
Proof. unfold i16_op. destruct (fits_i16 z), p; try discriminate. intros [= <-]; auto. Qed.
Lemma u64_op_fits p z : fits_u64 z = true -> u64_op p z = Ok z.
Proof. intros H. unfold u64_op. now rewrite H. Qed.

Lemma checked_i64_fits z : fits_i64 z = true -> checked_i64 z = Ok z.
Proof. intros H. unfold checked_i64. now rewrite H. Qed.
Lemma checked_i64_out z : fits_i64 z = false -> checked_i64 z = Err EUnsupported.
Proof. intros H. unfold checked_i64. now rewrite H. Qed.
Lemma checked_i64_never_panics z x : checked_i64 z <> Panic x.
Proof. unfold checked_i64. destruct (fits_i64 z); discriminate. Qed.
Lemma checked_i64_ok z v : checked_i64 z = Ok v -> v = z /\ fits_i64 z = true.
Proof. unfold checked_i64. destruct (fits_i64 z); [intros [= <-]; auto|discriminate]. Qed.
Lemma checked_i16_never_panics z x : checked_i16 z <> Panic x.
Proof. unfold checked_i16. destruct (fits_i16 z); discriminate. Qed.

(** [checked_rem(..).unwrap_or(0)] is the mathematical truncated remainder: [i64::MIN % -1 = 0] *)
Lemma i64_rem_spec a b : b <> 0 -> i64_rem a b = Z.rem a b.
Proof.
  intros Hb. unfold i64_rem. destruct (Z.eqb_spec b 0); [contradiction|]. cbn [orb].
  destruct (Z.eqb_spec a i64_min), (Z.eqb_spec b (-1)); cbn [andb]; try reflexivity.
  subst a b. reflexivity.
Qed.

Lemma int_div_never_panics a b x : int_div a b <> Panic x.
Proof. unfold int_div. destruct ((b =? 0) || ((a =? i64_min) && (b =? -1))); discriminate. Qed.

(** * Integer view of a value *)
(** the mathematical integer an exact-numeric or boolean value denotes *)
Definition to_Z (v : sqlvalue) : option Z :=
  match v with
  | VInteger z | VSmallint z | VBigint z | VUnsigned z => Some z
  | VBoolean b => Some (if b then 1 else 0)
  | _ => None
  end.
(** an UNSIGNED value above [i64::MAX]: does not convert to i64 (an error since the C24 fix; used to be
    reinterpreted as a negative number) *)
Definition unsigned_out_of_range (v : sqlvalue) : bool :=
  match v with VUnsigned z => 2 ^ 63 <=? z | _ => false end.

(** the pair of i64 operands the integer paths of [+ - * DIV %] work on *)
Definition exact_pair (l r : sqlvalue) : option (Z * Z) :=
  if is_null l || is_null r then None
  else match l, r with
       | VInteger a, VInteger b => Some (a, b)
       | _, _ => match coerce_numeric_values l r with Ok (CExact a b) => Some (a, b) | _ => None end
       end.

Lemma to_i64_of_to_Z v z :
  to_Z v = Some z -> unsigned_out_of_range v = false -> to_i64 v = Ok z.
Proof.
  destruct v; cbn [to_Z to_i64 unsigned_out_of_range]; try discriminate; intros [= <-] Hu; try reflexivity.
  unfold i64_max. pows. destruct (Z.leb_spec z0 (2 ^ 63 - 1)); [reflexivity|]. apply Z.leb_gt in Hu. lia.
Qed.

Lemma to_Z_fits v z : to_Z v = Some z -> wf v = true -> unsigned_out_of_range v = false -> fits_i64 z = true.
Proof.
  destruct v; cbn [to_Z wf unsigned_out_of_range]; try discriminate; intros [= <-] Hwf Hu;
    unfold in_range in Hwf; try (apply andb_true_iff in Hwf as [H0 H1]; apply Z.leb_le in H0; apply Z.ltb_lt in H1);
    apply fits_i64_iff; pows; try lia.
  destruct b; lia.
Qed.

Lemma to_Z_not_null v z : to_Z v = Some z -> is_null v = false.
Proof. destruct v; cbn; congruence. Qed.

Lemma exact_pair_of_to_Z l r a b :
  to_Z l = Some a -> to_Z r = Some b ->
  unsigned_out_of_range l = false -> unsigned_out_of_range r = false -> exact_pair l r = Some (a, b).
Proof.
  intros Hl Hr Ul Ur.
  pose proof (to_i64_of_to_Z _ _ Hl Ul) as Il. pose proof (to_i64_of_to_Z _ _ Hr Ur) as Ir.
  unfold exact_pair. rewrite (to_Z_not_null _ _ Hl), (to_Z_not_null _ _ Hr). cbn [orb].
  destruct l; cbn [to_Z] in Hl; try discriminate;
    destruct r; cbn [to_Z] in Hr; try discriminate;
    try (injection Hl as <-; injection Hr as <-; reflexivity);
    unfold coerce_numeric_values; cbn [is_boolean is_exact_numeric orb andb boolean_to_i64 opt_or];
    try rewrite Il; try rewrite Ir; cbn [opt_or res_ok bind];
    try (destruct b0; cbn [opt_or]); try (destruct b1; cbn [opt_or]);
    cbn [to_i64] in Il, Ir; try rewrite Il; try rewrite Ir; cbn [opt_or res_ok bind];
    repeat match goal with H : Ok _ = Ok _ |- _ => injection H as H; subst end;
    repeat match goal with H : Some _ = Some _ |- _ => injection H as H; subst end; try reflexivity.
Qed.

Lemma to_i64_never_panics v x : to_i64 v <> Panic x.
Proof. destruct v; cbn [to_i64]; try discriminate. destruct (z <=? i64_max); discriminate. Qed.

Lemma coerce_never_panics l r x : coerce_numeric_values l r <> Panic x.
Proof.
  unfold coerce_numeric_values.
  repeat match goal with
         | |- context [if ?c then _ else _] => destruct c
         | |- context [match ?c with Some _ => _ | None => _ end] => destruct c
         end; try discriminate.
  destruct (to_i64 l) eqn:E1; cbn [bind]; try discriminate.
  - destruct (to_i64 r) eqn:E2; cbn [bind]; try discriminate. intros [= ->]. eapply to_i64_never_panics; eauto.
  - intros [= ->]. eapply to_i64_never_panics; eauto.
Qed.

(** * [+], [-], [*] *)
Inductive aop := OAdd | OSub | OMul.
Definition z_op (o : aop) (a b : Z) : Z :=
  match o with OAdd => a + b | OSub => a - b | OMul => a * b end.

Section WithTemporal.
  Variable temporal : bool -> sqlvalue -> sqlvalue -> res sqlvalue.

  Definition arith3 (o : aop) (l r : sqlvalue) : res sqlvalue :=
    match o with
    | OAdd => add temporal l r
    | OSub => subtract temporal l r
    | OMul => multiply l r
    end.

  (** pairs handed to the date arithmetic (not modelled here) or rejected before coercion *)
  Definition temporal_pair (o : aop) (l r : sqlvalue) : bool :=
    match o with
    | OAdd => (is_datelike l && is_interval r) || (is_interval l && is_datelike r)
    | OSub => (is_datelike l && is_interval r) || (is_interval l && is_datelike r)
    | OMul => false
    end.

  Lemma exact_pair_not_temporal o l r ab : exact_pair l r = Some ab -> temporal_pair o l r = false.
  Proof.
    unfold exact_pair. destruct (is_null l || is_null r); [discriminate|].
    destruct l, r; cbn; try discriminate; destruct o; reflexivity.
  Qed.

  (** on an exact pair the three operators are the CHECKED integer operation on i64 *)
  Lemma arith3_exact o l r a b :
    exact_pair l r = Some (a, b) ->
    arith3 o l r = (do z <- checked_i64 (z_op o a b); Ok (VInteger z)).
  Proof.
    intros H. pose proof (exact_pair_not_temporal OAdd _ _ _ H) as Ht.
    unfold exact_pair in H. unfold arith3, add, subtract, multiply.
    destruct (is_null l || is_null r) eqn:N; [discriminate|].
    cbn [temporal_pair] in Ht.
    destruct l, r; try discriminate; cbn [is_datelike is_interval andb orb] in *; try discriminate;
      try (injection H as <- <-; destruct o; reflexivity);
      (destruct (coerce_numeric_values _ _) as [[c1 c2|c1 c2|c1 c2]| |]; try discriminate;
       injection H as <- <-; destruct o; reflexivity).
  Qed.

  (** without an exact pair (floats, strings, temporal values, NULL) the three operators never panic,
      provided the delegated date arithmetic does not *)
  Lemma arith3_inexact_no_panic o l r x :
    exact_pair l r = None -> temporal_pair o l r = false -> arith3 o l r <> Panic x.
  Proof.
    unfold exact_pair, arith3, add, subtract, multiply, temporal_pair.
    destruct (is_null l || is_null r) eqn:N; [intros _ _; destruct o; discriminate|].
    intros H Ht.
    destruct l, r; try discriminate H; cbn [is_datelike is_interval andb orb] in *; try discriminate;
      destruct (coerce_numeric_values _ _) as [[c1 c2|c1 c2|c1 c2]| |] eqn:C; try discriminate;
      destruct o; cbn [bind]; try discriminate;
      exfalso; eapply coerce_never_panics; eassumption.
  Qed.

  (** ** exact or error: on integer operands the result is the exact integer when it fits i64 and an
         out-of-range error otherwise, in every build *)
  Theorem arith_exact_or_out_of_range o l r a b :
    to_Z l = Some a -> to_Z r = Some b ->
    unsigned_out_of_range l = false -> unsigned_out_of_range r = false ->
    arith3 o l r = (if fits_i64 (z_op o a b) then Ok (VInteger (z_op o a b)) else Err EUnsupported).
  Proof.
    intros Hl Hr Ul Ur.
    rewrite (arith3_exact o l r a b) by (apply exact_pair_of_to_Z; assumption).
    unfold checked_i64. destruct (fits_i64 (z_op o a b)); reflexivity.
  Qed.

  Theorem arith_exact_or_error o l r a b v :
    to_Z l = Some a -> to_Z r = Some b ->
    unsigned_out_of_range l = false -> unsigned_out_of_range r = false ->
    arith3 o l r = Ok v -> v = VInteger (z_op o a b) /\ fits_i64 (z_op o a b) = true.
  Proof.
    intros Hl Hr Ul Ur H. rewrite (arith_exact_or_out_of_range o l r a b) in H by assumption.
    destruct (fits_i64 (z_op o a b)); [injection H as <-; auto|discriminate].
  Qed.

  (** an UNSIGNED operand above i64::MAX is an error, never a reinterpreted value *)
  Theorem arith_unsigned_out_of_range_is_error o l r a b :
    to_Z l = Some a -> to_Z r = Some b ->
    unsigned_out_of_range l || unsigned_out_of_range r = true ->
    exists e, arith3 o l r = Err e.
  Proof.
    intros Hl Hr U. unfold arith3, add, subtract, multiply.
    rewrite (to_Z_not_null _ _ Hl), (to_Z_not_null _ _ Hr). cbn [orb].
    destruct l; cbn [to_Z unsigned_out_of_range] in *; try discriminate;
      destruct r; cbn [to_Z unsigned_out_of_range orb] in *; try discriminate;
      cbn [is_datelike is_interval andb orb];
      unfold coerce_numeric_values; cbn [is_boolean is_exact_numeric orb andb boolean_to_i64 to_i64 opt_or res_ok];
      unfold i64_max; pows;
      repeat match goal with
             | |- context [if ?z <=? 2 ^ 63 - 1 then _ else _] =>
                 destruct (Z.leb_spec z (2 ^ 63 - 1)); cbn [bind opt_or res_ok]
             | b : bool |- _ => destruct b; cbn [bind opt_or res_ok]
             end;
      try (destruct o; eexists; reflexivity);
      exfalso; rewrite ?orb_false_r in U; try apply orb_true_iff in U;
      repeat match goal with
             | H : _ \/ _ |- _ => destruct H
             | H : (2 ^ 63 <=? _) = true |- _ => apply Z.leb_le in H
             end; try lia; try discriminate.
  Qed.

  (** ** no panic, for operands of ANY variant (the delegated date arithmetic is a hypothesis) *)
  Theorem arith_never_panics o l r x :
    (forall is_add l' r' y, temporal is_add l' r' <> Panic y) ->
    arith3 o l r <> Panic x.
  Proof.
    intros Ht Hp.
    destruct (exact_pair l r) as [[a b]|] eqn:E.
    - rewrite (arith3_exact o l r a b E) in Hp.
      destruct (checked_i64 (z_op o a b)) eqn:Eo; cbn [bind] in Hp; try discriminate.
      eapply checked_i64_never_panics; eassumption.
    - destruct (temporal_pair o l r) eqn:T.
      + unfold exact_pair in E. unfold arith3, add, subtract, multiply, temporal_pair in *.
        destruct (is_null l || is_null r) eqn:N; [destruct o; discriminate|].
        destruct o; try discriminate;
          destruct l, r; cbn [is_datelike is_interval andb orb] in *; try discriminate;
          try (eapply Ht; eassumption).
      + eapply arith3_inexact_no_panic; eassumption.
  Qed.
End WithTemporal.

Definition no_temporal (_ : bool) (_ _ : sqlvalue) : res sqlvalue := Err EUnsupported.

(** the inputs that used to panic (debug) / wrap (release) / be reinterpreted now give errors *)
Lemma arith_former_witnesses :
  arith3 no_temporal OAdd (VInteger i64_max) (VInteger 1) = Err EUnsupported /\
  arith3 no_temporal OSub (VInteger i64_min) (VInteger 1) = Err EUnsupported /\
  arith3 no_temporal OMul (VInteger 3037000500) (VInteger 3037000500) = Err EUnsupported /\
  arith3 no_temporal OMul (VInteger i64_max) (VInteger 2) = Err EUnsupported /\
  arith3 no_temporal OAdd (VUnsigned (2 ^ 64 - 1)) (VInteger 0) = Err EConversion.
Proof. vm_compute. repeat split. Qed.

Example arith_exact_example :
  arith3 no_temporal OMul (VSmallint (-300)) (VBigint 4000000000) = Ok (VInteger (-1200000000000)) /\
  arith3 no_temporal OSub (VBoolean true) (VUnsigned 5) = Ok (VInteger (-4)) /\
  arith3 no_temporal OAdd (VInteger i64_max) (VInteger 0) = Ok (VInteger i64_max) /\
  exact_pair (VSmallint (-300)) (VBigint 4000000000) = Some (-300, 4000000000).
Proof. vm_compute. repeat split. Qed.

(** * Modulo, DIV, division *)
Lemma modulo_exact_pair l r a b :
  exact_pair l r = Some (a, b) ->
  modulo l r = (if b =? 0 then Ok VNull else Ok (VInteger (i64_rem a b))).
Proof.
  unfold exact_pair, modulo. destruct (is_null l || is_null r); [discriminate|].
  destruct l, r; try discriminate; try (intros [= <- <-]; reflexivity);
    (destruct (coerce_numeric_values _ _) as [[c1 c2|c1 c2|c1 c2]| |]; try discriminate;
     intros [= <- <-]; cbn [bind coerced_right_is_zero]; reflexivity).
Qed.

(** [%] returns the exact truncated remainder (0 for [i64::MIN % -1]), NULL for a zero divisor *)
Theorem modulo_exact l r a b :
  to_Z l = Some a -> to_Z r = Some b ->
  unsigned_out_of_range l = false -> unsigned_out_of_range r = false ->
  modulo l r = Ok (if b =? 0 then VNull else VInteger (Z.rem a b)).
Proof.
  intros Hl Hr Ul Ur.
  rewrite (modulo_exact_pair l r a b) by (apply exact_pair_of_to_Z; assumption).
  destruct (Z.eqb_spec b 0); [reflexivity|]. now rewrite i64_rem_spec.
Qed.

Theorem modulo_never_panics l r x : modulo l r <> Panic x.
Proof.
  unfold modulo. destruct (is_null l || is_null r); [discriminate|].
  destruct l, r;
    try (match goal with |- context [if ?c then _ else _] => destruct c end; discriminate);
    (destruct (coerce_numeric_values _ _) as [[c1 c2|c1 c2|c1 c2]| |] eqn:C; cbn [bind];
     [ match goal with |- context [if ?c then _ else _] => destruct c end; discriminate ..
     | discriminate | exfalso; eapply coerce_never_panics; eassumption ]).
Qed.

Lemma integer_divide_exact_pair l r a b :
  exact_pair l r = Some (a, b) ->
  integer_divide l r = (if b =? 0 then Err EDivisionByZero else do z <- int_div a b; Ok (VInteger z)).
Proof.
  unfold exact_pair, integer_divide. destruct (is_null l || is_null r); [discriminate|].
  destruct l, r; try discriminate; try (intros [= <- <-]; reflexivity);
    (destruct (coerce_numeric_values _ _) as [[c1 c2|c1 c2|c1 c2]| |]; try discriminate;
     intros [= <- <-]; cbn [bind coerced_right_is_zero]; reflexivity).
Qed.

(** DIV is exact i64 division: the truncated quotient, DivisionByZero, or out of range for
    [i64::MIN DIV -1] *)
Theorem integer_divide_exact l r a b :
  to_Z l = Some a -> to_Z r = Some b ->
  unsigned_out_of_range l = false -> unsigned_out_of_range r = false ->
  integer_divide l r =
  (if b =? 0 then Err EDivisionByZero
   else if (a =? i64_min) && (b =? -1) then Err EUnsupported
   else Ok (VInteger (Z.quot a b))).
Proof.
  intros Hl Hr Ul Ur.
  rewrite (integer_divide_exact_pair l r a b) by (apply exact_pair_of_to_Z; assumption).
  destruct (Z.eqb_spec b 0); [reflexivity|]. unfold int_div.
  destruct (Z.eqb_spec b 0); [contradiction|]. cbn [orb].
  destruct ((a =? i64_min) && (b =? -1)); reflexivity.
Qed.

Theorem integer_divide_never_panics l r x : integer_divide l r <> Panic x.
Proof.
  unfold integer_divide. destruct (is_null l || is_null r); [discriminate|].
  destruct l, r;
    try (match goal with |- context [if ?c then _ else _] => destruct c end; try discriminate;
         destruct (int_div _ _) eqn:D; cbn [bind]; try discriminate; exfalso; eapply int_div_never_panics; eassumption);
    (destruct (coerce_numeric_values _ _) as [[c1 c2|c1 c2|c1 c2]| |] eqn:C; cbn [bind];
     [ match goal with |- context [if ?c then _ else _] => destruct c end; try discriminate;
       try (destruct (int_div _ _) eqn:D; cbn [bind]; try discriminate; exfalso; eapply int_div_never_panics; eassumption) ..
     | discriminate | exfalso; eapply coerce_never_panics; eassumption ]).
Qed.

Lemma integer_divide_former_witnesses :
  integer_divide (VInteger 9007199254740993) (VInteger 1) = Ok (VInteger 9007199254740993) /\
  integer_divide (VInteger i64_min) (VInteger (-1)) = Err EUnsupported /\
  integer_divide (VInteger (-7)) (VInteger 2) = Ok (VInteger (-3)).
Proof. vm_compute. repeat split. Qed.

(** ** Division::divide never panics, for any operands, in either mode *)
Theorem divide_never_panics m l r x : divide m l r <> Panic x.
Proof.
  unfold divide. destruct (is_null l || is_null r) eqn:N; [discriminate|].
  destruct l, r; unfold coerce_numeric_values;
    cbn [is_boolean is_exact_numeric is_approximate_numeric is_int3 is_numeric_variant orb andb
         boolean_to_i64 to_i64 to_f64 opt_or res_ok bind];
    repeat match goal with b : bool |- _ => destruct b end;
    cbn [opt_or res_ok bind coerced_right_is_zero];
    repeat match goal with
           | |- context [if ?c then _ else _] => destruct c; cbn [opt_or res_ok bind coerced_right_is_zero]
           end;
    try discriminate;
    destruct m; cbn [division_result_type is_float_value orb bind]; try discriminate;
    try (destruct (int_div _ _) eqn:D; cbn [bind]; try discriminate; exfalso; eapply int_div_never_panics; eassumption).
Qed.

Lemma divide_former_witnesses :
  divide MySQL (VFloat 1069547520) (VInteger 2) = Ok (VNumeric 4604930618986332160) /\   (* 0.75 *)
  divide SQLite (VBoolean true) (VNumeric 4609434218613702656) = Ok (VFloat 1065353216).   (* 1.0: TRUE -> 1, 1.5 -> 1 *)
Proof. vm_compute. repeat split. Qed.

Example divide_example :
  divide MySQL (VInteger 7) (VInteger 2) = Ok (VNumeric 4615063718147915776) /\   (* 3.5 *)
  divide MySQL (VInteger 7) (VInteger 0) = Ok VNull /\
  divide SQLite (VInteger i64_min) (VInteger (-1)) = Err EUnsupported.
Proof. vm_compute. repeat split. Qed.

(** * Unary minus, ABS, MOD() *)
Definition neg_overflow_class (v : sqlvalue) : bool :=
  match v with
  | VInteger n | VBigint n => n =? i64_min
  | VSmallint n => n =? - 2 ^ 15
  | _ => false
  end.
Definition int3 (v : sqlvalue) : Prop :=
  match v with VInteger _ | VBigint _ | VSmallint _ => True | _ => False end.
Definition same_variant_with (v : sqlvalue) (z : Z) : sqlvalue :=
  match v with VInteger _ => VInteger z | VBigint _ => VBigint z | VSmallint _ => VSmallint z | _ => v end.

Theorem unary_minus_exact_or_error v z :
  wf v = true -> int3 v -> to_Z v = Some z ->
  unary_minus v = (if neg_overflow_class v then Err EUnsupported else Ok (same_variant_with v (- z))).
Proof.
  intros W K Hz. destruct v; try contradiction; cbn [to_Z] in Hz; injection Hz as ->;
    cbn [unary_minus neg_overflow_class wf same_variant_with] in *;
    unfold in_range in W; apply andb_true_iff in W as [W0 W1]; apply Z.leb_le in W0; apply Z.ltb_lt in W1.
  - unfold checked_i64. destruct (Z.eqb_spec z i64_min) as [->|C]; [reflexivity|].
    replace (fits_i64 (- z)) with true; [reflexivity|]. symmetry. apply fits_i64_iff. unfold i64_min in C. lia.
  - unfold checked_i16. destruct (Z.eqb_spec z (- 2 ^ 15)) as [->|C]; [reflexivity|].
    replace (fits_i16 (- z)) with true; [reflexivity|]. symmetry. apply fits_i16_iff. lia.
  - unfold checked_i64. destruct (Z.eqb_spec z i64_min) as [->|C]; [reflexivity|].
    replace (fits_i64 (- z)) with true; [reflexivity|]. symmetry. apply fits_i64_iff. unfold i64_min in C. lia.
Qed.

Theorem unary_minus_never_panics v x : unary_minus v <> Panic x.
Proof.
  destruct v; cbn [unary_minus]; try discriminate;
    match goal with |- bind ?c _ <> _ => destruct c eqn:E; cbn [bind]; try discriminate end;
    exfalso; first [eapply checked_i64_never_panics; eassumption | eapply checked_i16_never_panics; eassumption].
Qed.

Theorem abs_exact_or_error v z :
  wf v = true -> int3 v -> to_Z v = Some z ->
  abs_fn v = (if neg_overflow_class v then Err EUnsupported else Ok (same_variant_with v (Z.abs z))).
Proof.
  intros W K Hz. destruct v; try contradiction; cbn [to_Z] in Hz; injection Hz as ->;
    cbn [abs_fn neg_overflow_class wf same_variant_with] in *;
    unfold in_range in W; apply andb_true_iff in W as [W0 W1]; apply Z.leb_le in W0; apply Z.ltb_lt in W1.
  - unfold checked_i64. destruct (Z.eqb_spec z i64_min) as [->|C]; [reflexivity|].
    replace (fits_i64 (Z.abs z)) with true; [reflexivity|]. symmetry. apply fits_i64_iff. unfold i64_min in C. lia.
  - unfold checked_i16. destruct (Z.eqb_spec z (- 2 ^ 15)) as [->|C]; [reflexivity|].
    replace (fits_i16 (Z.abs z)) with true; [reflexivity|]. symmetry. apply fits_i16_iff. lia.
  - unfold checked_i64. destruct (Z.eqb_spec z i64_min) as [->|C]; [reflexivity|].
    replace (fits_i64 (Z.abs z)) with true; [reflexivity|]. symmetry. apply fits_i64_iff. unfold i64_min in C. lia.
Qed.

Theorem abs_never_panics v x : abs_fn v <> Panic x.
Proof.
  destruct v; cbn [abs_fn]; try discriminate;
    match goal with |- bind ?c _ <> _ => destruct c eqn:E; cbn [bind]; try discriminate end;
    exfalso; first [eapply checked_i64_never_panics; eassumption | eapply checked_i16_never_panics; eassumption].
Qed.

Lemma unary_former_witnesses :
  unary_minus (VInteger i64_min) = Err EUnsupported /\
  unary_minus (VSmallint (-32768)) = Err EUnsupported /\
  abs_fn (VBigint i64_min) = Err EUnsupported /\
  unary_minus (VInteger i64_max) = Ok (VInteger (i64_min + 1)).
Proof. vm_compute. repeat split. Qed.

Theorem mod_fn_never_panics a b x : mod_fn a b <> Panic x.
Proof.
  destruct a, b; cbn [mod_fn]; try discriminate;
    match goal with |- context [if ?c then _ else _] => destruct c end; discriminate.
Qed.

Theorem mod_fn_exact x y :
  mod_fn (VInteger x) (VInteger y) = Ok (if y =? 0 then VNull else VInteger (Z.rem x y)).
Proof. cbn [mod_fn]. destruct (Z.eqb_spec y 0); [reflexivity|]. now rewrite i64_rem_spec. Qed.
