(** Index-provided ordering (select/scan/index_scan/execution.rs after the repair): the index iterates
    in SqlValue's total order — NULL first, every key column ascending — and the whole sequence is
    reversed when the first ORDER BY direction is DESC.  The scan claims "already sorted" only when
    no fetched row has a NULL in a sort column and all ORDER BY directions agree.
    Executable definitions only. *)
From Coq Require Import List ZArith Bool.
From VibeSQL Require Import Base.LexOrd Sem.Syntax Sem.Rel.
Import ListNotations.
Open Scope Z_scope.

(** the order of index keys on the reference values: NULL least, then [value_compare] *)
Definition idx_value_compare (a b : value) : comparison :=
  match a, b with
  | VNull, VNull => Eq
  | VNull, _ => Lt
  | _, VNull => Gt
  | _, _ => value_compare a b
  end.

Fixpoint idx_compare (cols : list nat) (a b : row) : comparison :=
  match cols with
  | [] => Eq
  | i :: cols' =>
      match idx_value_compare (nth i a VNull) (nth i b VNull) with
      | Eq => idx_compare cols' a b
      | c => c
      end
  end.

Definition idx_le (cols : list nat) (a b : row) : bool :=
  match idx_compare cols a b with Gt => false | _ => true end.

(** adjacent-pairs sortedness as a boolean *)
Fixpoint sortedb (le : row -> row -> bool) (l : list row) : bool :=
  match l with
  | [] => true
  | x :: l' => match l' with [] => true | y :: _ => le x y && sortedb le l' end
  end.

(** the guard of the repaired scan *)
Definition no_null_keys (cols : list nat) (l : list row) : bool :=
  forallb (fun r => forallb (fun i => negb (is_null (nth i r VNull))) cols) l.
Definition same_direction (ks : list (nat * bool)) : bool :=
  match ks with [] => true | (_, d) :: ks' => forallb (fun k => Bool.eqb (snd k) d) ks' end.
Definition claim_sorted (ks : list (nat * bool)) (fetched : list row) : bool :=
  same_direction ks && no_null_keys (map fst ks) fetched.

(** what the scan returns when it keeps the claim: index order, reversed for DESC *)
Definition index_order_output (ks : list (nat * bool)) (index_ordered : list row) : list row :=
  match ks with
  | (_, true) :: _ => rev index_ordered
  | _ => index_ordered
  end.
