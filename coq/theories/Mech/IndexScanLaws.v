(** C02: the index path (range candidates + WHERE re-check) returns exactly the rows a full scan with
    the same WHERE returns, because the range is COMPLETE for the comparison it was extracted from;
    without the re-check it is not SOUND (NULL keys fall inside every range without a lower bound). *)
From Coq Require Import List ZArith Bool Lia.
From VibeSQL Require Import Base.LexOrd Sem.Syntax Sem.Rel Sem.Laws Mech.IndexOrder Mech.IndexScan.
Import ListNotations.
Open Scope Z_scope.

Lemma idx_cmp_nonnull a b : is_null a = false -> is_null b = false ->
  idx_value_compare a b = value_compare a b.
Proof. destruct a, b; cbn; intros; try discriminate; reflexivity. Qed.

(** completeness of the extracted range: every row on which [col op lit] is TRUE is a candidate *)
Theorem range_scan_complete col op lit x :
  cmp_true col op lit x = true ->
  in_range (fst (range_of op lit)) (snd (range_of op lit)) (nth col x VNull) = true.
Proof.
  unfold cmp_true. set (k := nth col x VNull).
  destruct op; try reflexivity;
    cbn [range_of fst snd]; unfold in_range, above, below, eval_binop, sql_compare, bind;
    destruct k as [|a|a|a], lit as [|b|b|b];
    cbn [idx_value_compare value_compare is_true cmp_test andb];
    try discriminate;
    try (destruct (a ?= b); cbn; intros H; try discriminate H; reflexivity);
    try (destruct (lex_compare a b); cbn; intros H; try discriminate H; reflexivity);
    try (destruct a, b; cbn; intros H; try discriminate H; reflexivity).
Qed.

(** hence the re-checked index path equals the filtered scan, for ANY range that is complete for
    the WHERE clause — in particular when the WHERE clause implies the extracted comparison *)
Theorem index_path_sound col r (where_ : row -> bool) rows :
  (forall x, where_ x = true -> in_range (fst r) (snd r) (nth col x VNull) = true) ->
  index_path col r where_ rows = filter where_ rows.
Proof.
  intros H. unfold index_path, index_candidates.
  induction rows as [|x rows IH]; cbn; [reflexivity|].
  destruct (where_ x) eqn:W.
  - rewrite (H x W). cbn. rewrite W, IH. reflexivity.
  - destruct (in_range (fst r) (snd r) (nth col x VNull)); cbn; [rewrite W|]; exact IH.
Qed.

Corollary index_path_eq_scan col op lit (rest : row -> bool) rows :
  index_path col (range_of op lit) (fun x => cmp_true col op lit x && rest x) rows
  = filter (fun x => cmp_true col op lit x && rest x) rows.
Proof.
  apply index_path_sound. intros x H. apply andb_true_iff in H. destruct H as [H _].
  apply range_scan_complete. exact H.
Qed.

(** skipping the re-check is unsound: a NULL key is a candidate of [col < 10] *)
Theorem index_path_unchecked_refuted :
  exists col op lit rows,
    index_path_unchecked col (range_of op lit) rows <> filter (cmp_true col op lit) rows.
Proof.
  exists 0%nat, OLt, (VInt 10), [[VNull]; [VInt 3]]. vm_compute. discriminate.
Qed.

Example index_scan_nonvacuous :
  let rows := [[VInt 5; VInt 1]; [VNull; VInt 2]; [VInt 12; VInt 3]; [VInt 9; VInt 4]] in
  index_candidates 0 (range_of OLt (VInt 10)) rows = [[VInt 5; VInt 1]; [VNull; VInt 2]; [VInt 9; VInt 4]]
  /\ index_path 0 (range_of OLt (VInt 10)) (cmp_true 0 OLt (VInt 10)) rows = [[VInt 5; VInt 1]; [VInt 9; VInt 4]].
Proof. vm_compute. auto. Qed.
