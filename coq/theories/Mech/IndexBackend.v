(** Index storage backends (C16): both backends keep a user index as an ordered multimap from key
    vectors to row ids — the in-memory BTreeMap<Vec<SqlValue>, Vec<usize>> and the disk-backed B+ tree
    (whose own operations are C17's subject).  What differs is the glue in
    database/indexes/{index_maintenance,range_scan}.rs: how one row's entry is removed on UPDATE /
    DELETE, and how a bound on the FIRST column is turned into a bound on whole keys.  Keys are
    vectors of integers compared lexicographically.  Executable definitions only. *)
From Coq Require Import List ZArith Bool.
From VibeSQL Require Import Base.LexOrd.
Import ListNotations.
Open Scope Z_scope.

Definition key := list Z.
Definition entry := (key * Z)%type.          (* key, row id *)
Definition index := list entry.

Definition key_eqb (a b : key) : bool := match lex_compare a b with Eq => true | _ => false end.
Definition entry_eqb (a b : entry) : bool := key_eqb (fst a) (fst b) && (snd a =? snd b).

(** * removing a row's entry *)
(** in memory: [row_indices.retain(|idx| idx != row_index)] under the key *)
Definition mem_remove (k : key) (r : Z) (ix : index) : index :=
  filter (fun e => negb (entry_eqb e (k, r))) ix.

(** disk-backed, as first written: [btree.delete(&key)] removes every row id of the key *)
Definition disk_remove_all (k : key) (r : Z) (ix : index) : index :=
  filter (fun e => negb (key_eqb (fst e) k)) ix.

(** disk-backed, repaired: [btree.delete_specific(&key, row_index)] *)
Fixpoint disk_remove_one (k : key) (r : Z) (ix : index) : index :=
  match ix with
  | [] => []
  | e :: ix' => if entry_eqb e (k, r) then ix' else e :: disk_remove_one k r ix'
  end.

Definition update_entry (remove : key -> Z -> index -> index) (old new : key) (r : Z) (ix : index) : index :=
  if key_eqb old new then ix else remove old r ix ++ [(new, r)].

(** the row ids a point lookup returns *)
Definition lookup (k : key) (ix : index) : list Z := map snd (filter (fun e => key_eqb (fst e) k) ix).

(** * bounds on the first column *)
Definition first (k : key) : Z := match k with [] => 0 | a :: _ => a end.

(** the rows a scan is meant to return: first column in [lo, hi] *)
Definition in_first_range (lo hi : Z) (k : key) : bool := (lo <=? first k) && (first k <=? hi).

(** scan by whole-key bounds: [start] inclusive, [stop] inclusive or exclusive *)
Definition in_key_range (start stop : key) (stop_inclusive : bool) (k : key) : bool :=
  (match lex_compare start k with Gt => false | _ => true end)
  && (match lex_compare k stop with Lt => true | Eq => stop_inclusive | Gt => false end).

(** disk-backed, as first written: [lo] .. [hi] inclusive *)
Definition disk_scan_v1 (lo hi : Z) (ix : index) : list Z :=
  map snd (filter (fun e => in_key_range [lo] [hi] true (fst e)) ix).
(** both backends after the repair: [lo] .. [hi + 1) *)
Definition scan_succ (lo hi : Z) (ix : index) : list Z :=
  map snd (filter (fun e => in_key_range [lo] [hi + 1] false (fst e)) ix).
Definition scan_spec (lo hi : Z) (ix : index) : list Z :=
  map snd (filter (fun e => in_first_range lo hi (fst e)) ix).
