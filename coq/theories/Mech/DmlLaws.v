(** C09: DELETE removes exactly the rows SELECT ... WHERE returns and reports their number; UPDATE
    changes exactly those rows, each to its SET expressions evaluated on the pre-update row, and
    leaves every other row and the row order alone; INSERT appends exactly the given rows. *)
From Coq Require Import List ZArith Bool Lia Permutation.
From VibeSQL Require Import Base.LexOrd Sem.Syntax Sem.Rel Sem.Eval Mech.Dml.
Import ListNotations.
Open Scope Z_scope.

Lemma mapM_length {A B} (f : A -> res B) l l' : mapM f l = Ok l' -> length l' = length l.
Proof.
  revert l'; induction l as [|x l IH]; cbn; intros l' H; [inversion H; reflexivity|].
  destruct (f x) as [y|]; cbn in H; [|discriminate].
  destruct (mapM f l) as [ys|] eqn:E; cbn in H; [|discriminate]. inversion H; subst. cbn. rewrite (IH ys eq_refl). reflexivity.
Qed.

Lemma mapM_filterM {A} (f : A -> res bool) l flags :
  mapM f l = Ok flags ->
  filterM f l = Ok (map snd (filter (fun fr => fst fr) (combine flags l))).
Proof.
  revert flags; induction l as [|x l IH]; cbn; intros flags H; [inversion H; reflexivity|].
  destruct (f x) as [b|]; cbn in H |- *; [|discriminate].
  destruct (mapM f l) as [bs|] eqn:E; cbn in H; [|discriminate]. inversion H; subst.
  rewrite (IH bs eq_refl). cbn. destruct b; reflexivity.
Qed.

Lemma partition_perm {A} (l : list (bool * A)) :
  Permutation (map snd l)
    (map snd (filter (fun fr => fst fr) l) ++ map snd (filter (fun fr => negb (fst fr)) l)).
Proof.
  induction l as [|[b x] l IH]; cbn; [constructor|].
  destruct b; cbn.
  - constructor. exact IH.
  - rewrite IH at 1. apply Permutation_middle.
Qed.

Lemma combine_map_snd {A B} (a : list A) (b : list B) : length a = length b -> map snd (combine a b) = b.
Proof.
  revert b; induction a as [|x a IH]; intros [|y b] H; cbn in *; try reflexivity; try discriminate.
  f_equal. apply IH. lia.
Qed.

(** DELETE: the old rows are the selected rows plus the kept rows; the count is the number selected *)
Theorem delete_exact d t w rows kept n sel :
  nth_error d t = Some rows ->
  run_dml d t (DDelete w) = Ok (kept, n) ->
  select_where d t w = Ok sel ->
  Permutation rows (sel ++ kept) /\ n = Z.of_nat (length sel).
Proof.
  unfold run_dml, select_where. intros Hr. rewrite Hr. intros H S.
  destruct (mapM (selects d w) rows) as [flags|] eqn:F; cbn in H; [|discriminate].
  inversion H; subst; clear H.
  rewrite (mapM_filterM _ _ _ F) in S. inversion S; subst; clear S.
  pose proof (mapM_length _ _ _ F) as L.
  pose proof (partition_perm (combine flags rows)) as P.
  rewrite (combine_map_snd flags rows L) in P. split; [exact P|].
  apply Permutation_length in P. rewrite app_length in P. lia.
Qed.

(** DELETE keeps the surviving rows in table order (it is a sub-sequence filter) *)
Theorem delete_keeps_unselected d t w rows kept n r :
  nth_error d t = Some rows ->
  run_dml d t (DDelete w) = Ok (kept, n) ->
  In r kept -> In r rows.
Proof.
  unfold run_dml. intros Hr. rewrite Hr. intros H.
  destruct (mapM (selects d w) rows) as [flags|] eqn:F; cbn in H; [|discriminate].
  inversion H; subst; clear H. intros I.
  apply in_map_iff in I. destruct I as [[b x] [E I]]. cbn in E. subst x.
  apply filter_In in I. destruct I as [I _]. apply in_combine_r in I. exact I.
Qed.

(** UPDATE: same number of rows, same order; row i is rewritten iff the WHERE clause selects it,
    and then to its SET expressions evaluated on the OLD row *)
Theorem update_exact d t sets w rows new_rows n :
  nth_error d t = Some rows ->
  run_dml d t (DUpdate sets w) = Ok (new_rows, n) ->
  length new_rows = length rows
  /\ forall i r, nth_error rows i = Some r ->
       exists b, selects d w r = Ok b /\
         (if b then exists r', apply_sets d sets r = Ok r' /\ nth_error new_rows i = Some r'
          else nth_error new_rows i = Some r).
Proof.
  unfold run_dml. intros Hr. rewrite Hr. intros H.
  set (f := fun r => do b <- selects d w r; if b then apply_sets d sets r else Ok r) in *.
  destruct (mapM f rows) as [nr|] eqn:F; cbn in H; [|discriminate].
  destruct (mapM (selects d w) rows) as [flags|] eqn:G; cbn in H; [|discriminate].
  inversion H; subst; clear H. split; [apply (mapM_length _ _ _ F)|].
  clear G Hr. revert new_rows F. induction rows as [|x rows IH]; intros nr F i r Hi.
  - destruct i; discriminate.
  - cbn in F. destruct (f x) as [y|] eqn:Fx; cbn in F; [|discriminate].
    destruct (mapM f rows) as [ys|] eqn:Fr; cbn in F; [|discriminate]. inversion F; subst; clear F.
    destruct i as [|i]; cbn in Hi.
    + inversion Hi; subst; clear Hi. unfold f in Fx.
      destruct (selects d w r) as [b|]; cbn in Fx; [|discriminate].
      exists b. split; [reflexivity|]. destruct b.
      * exists y. split; [exact Fx | reflexivity].
      * inversion Fx; subst. reflexivity.
    + apply (IH ys eq_refl i r Hi).
Qed.

(** the assignments of one UPDATE are simultaneous: SET a = b, b = a swaps *)
Example update_is_simultaneous :
  run_dml [[[VInt 1; VInt 2]]] 0 (DUpdate [(0%nat, ECol 0 1); (1%nat, ECol 0 0)] None) = Ok ([[VInt 2; VInt 1]], 1).
Proof. reflexivity. Qed.

(** INSERT appends exactly the given rows, in order, and touches nothing else *)
Theorem insert_exact d t new_rows rows out n :
  nth_error d t = Some rows ->
  run_dml d t (DInsert new_rows) = Ok (out, n) ->
  exists vals, mapM (fun r => mapM (eval_expr 64 d [[]]) r) new_rows = Ok vals
               /\ out = rows ++ vals /\ n = Z.of_nat (length new_rows).
Proof.
  unfold run_dml. intros Hr. rewrite Hr. intros H.
  destruct (mapM (fun r => mapM (eval_expr 64 d [[]]) r) new_rows) as [vals|] eqn:E; cbn in H; [|discriminate].
  inversion H; subst. exists vals. repeat split. rewrite (mapM_length _ _ _ E). reflexivity.
Qed.

(** Non-vacuity: a table with a NULL, a duplicate and a row on which the predicate is NULL *)
Example dml_nonvacuous :
  let d : db := [[[VInt 1; VInt 10]; [VNull; VInt 20]; [VInt 1; VInt 10]; [VInt 3; VInt 30]]] in
  let w := Some (EBin OEq (ECol 0 0) (EConst (VInt 1))) in
  run_dml d 0 (DDelete w) = Ok ([[VNull; VInt 20]; [VInt 3; VInt 30]], 2)
  /\ select_where d 0 w = Ok [[VInt 1; VInt 10]; [VInt 1; VInt 10]]
  /\ run_dml d 0 (DUpdate [(1%nat, EBin OAdd (ECol 0 1) (EConst (VInt 1)))] w)
     = Ok ([[VInt 1; VInt 11]; [VNull; VInt 20]; [VInt 1; VInt 11]; [VInt 3; VInt 30]], 2).
Proof. vm_compute. auto. Qed.
