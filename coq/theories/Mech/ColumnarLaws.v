(** C03: whenever the columnar path answers a query, its answer is the row path's answer —
    the filter bitmap is the three-valued WHERE, each column loop is the corresponding accumulator
    run over the selected rows, and the empty-input early return is what the accumulators give on no
    rows.  For every table, every extractable WHERE conjunction and every aggregate list. *)
From Coq Require Import List ZArith Bool Lia.
From VibeSQL Require Import Base.LexOrd Sem.Syntax Sem.Rel Sem.Laws Mech.Accumulator Mech.AccumulatorLaws Mech.Columnar.
Import ListNotations.
Open Scope Z_scope.

(** * the loops visit exactly the selected values *)
Definition sel {A} (bm : option (list bool)) (vals : list A) : list A :=
  match bm with
  | None => vals
  | Some b => map snd (filter (fun bv : bool * A => fst bv) (combine b vals))
  end.

Lemma loop_fold {A} (step : A -> value -> A) vals : forall a bm,
  loop step a bm vals = fold_left step (sel bm vals) a.
Proof.
  induction vals as [|v vals IH]; intros a bm; cbn [loop].
  - destruct bm as [b|]; cbn; [destruct b; reflexivity|reflexivity].
  - destruct bm as [[|b bm']|]; cbn [sel combine filter map].
    + reflexivity.
    + rewrite IH. destruct b; cbn [fst filter map snd fold_left sel]; reflexivity.
    + rewrite IH. reflexivity.
Qed.

Lemma sel_map_filter {A B} (g : A -> bool) (f : A -> B) rows :
  sel (Some (map g rows)) (map f rows) = map f (filter g rows).
Proof.
  unfold sel. induction rows as [|r rows IH]; cbn; [reflexivity|].
  destruct (g r); cbn; rewrite IH; reflexivity.
Qed.

(** * the bitmap is the three-valued WHERE *)
Definition tvb (v : value) : bool := match v with VBool _ | VNull => true | _ => false end.

Lemma acc_cmp_antisym a b : acc_cmp a b = CompOpp (acc_cmp b a).
Proof.
  destruct a as [|x|s|p], b as [|y|t|q]; cbn; try reflexivity.
  - apply Z.compare_antisym.
  - apply lex_compare_antisym.
  - destruct p, q; reflexivity.
Qed.

Lemma cmp_binop_int op x k : op = OEq \/ op = OLt \/ op = OLe \/ op = OGt \/ op = OGe \/ op = ONe ->
  eval_binop op (VInt x) (VInt k) = Ok (VBool (cmp_test op (x ?= k))).
Proof. intros [->|[->|[->|[->|[->| ->]]]]]; reflexivity. Qed.

Lemma cmp_binop_str op x k : op = OEq \/ op = OLt \/ op = OLe \/ op = OGt \/ op = OGe \/ op = ONe ->
  eval_binop op (VStr x) (VStr k) = Ok (VBool (cmp_test op (lex_compare x k))).
Proof. intros [->|[->|[->|[->|[->| ->]]]]]; reflexivity. Qed.

Lemma pred_agree p x r : pred_typed p r = true -> extract1 p = Some x ->
  exists v, pred3 p r = Ok v /\ tvb v = true /\ is_true v = xeval x (col_of r (xcol x)).
Proof.
  destruct p as [c op k left|c lo hi]; cbn [pred_typed extract1 pred3].
  - intros T E.
    destruct (col_of r c) as [|a|s|bb] eqn:V; destruct k as [|kk|ks|kb]; cbn in T; try discriminate;
      destruct op; destruct left; cbn in E; inversion E; subst; clear E;
      cbn [xcol]; rewrite V; unfold xeval; cbn [is_null orb xcmp acc_cmp];
      try (eexists; split; [reflexivity|split; [reflexivity|reflexivity]]).
    all: try (eexists; split; [reflexivity|split; [reflexivity|]]; cbn [is_true cmp_test];
              first [ destruct (a ?= kk) eqn:C; reflexivity
                    | rewrite (Z.compare_antisym a kk); destruct (a ?= kk); reflexivity
                    | destruct (lex_compare s ks) eqn:C; reflexivity
                    | rewrite (lex_compare_antisym ks s); destruct (lex_compare s ks); reflexivity ]).
  - intros T E. inversion E; subst; clear E. cbn [xcol]. apply andb_prop in T. destruct T as [T1 T2].
    destruct (col_of r c) as [|a|s|bb] eqn:V; destruct lo as [|l|ls|lb]; cbn in T1; try discriminate;
      destruct hi as [|h|hs|hb]; cbn in T2; try discriminate;
      unfold xeval; cbn;
      repeat match goal with
             | |- context [Z.compare ?x ?y] => destruct (Z.compare x y)
             | |- context [lex_compare ?x ?y] => destruct (lex_compare x y)
             end;
      eexists; (split; [reflexivity|split; reflexivity]).
Qed.

Lemma tv_and_tvb a b : tvb a = true -> tvb b = true ->
  exists v, tv_and a b = Ok v /\ tvb v = true /\ is_true v = is_true a && is_true b.
Proof.
  destruct a as [| | |[|]], b as [| | |[|]]; cbn; intros; try discriminate; eexists; repeat split; reflexivity.
Qed.

Lemma conj_agree ps r : forall xs, forallb (fun p => pred_typed p r) ps = true -> extract ps = Some xs ->
  exists v, conj3 ps r = Ok v /\ tvb v = true /\ is_true v = forallb (fun p => xeval p (col_of r (xcol p))) xs.
Proof.
  induction ps as [|p ps IH]; intros xs T E; cbn in E |- *.
  - inversion E; subst. exists (VBool true). repeat split; reflexivity.
  - cbn in T. apply andb_prop in T. destruct T as [Tp Tps].
    destruct (extract1 p) as [x|] eqn:E1; [|discriminate].
    destruct (extract ps) as [xs'|] eqn:E2; [|discriminate]. inversion E; subst; clear E.
    destruct (pred_agree p x r Tp E1) as (a & Ha & Ta & Ia).
    destruct (IH xs' Tps eq_refl) as (b & Hb & Tb & Ib).
    rewrite Ha, Hb. cbn [bind].
    destruct (tv_and_tvb a b Ta Tb) as (v & Hv & Tv & Iv). exists v. split; [exact Hv|split; [exact Tv|]].
    rewrite Iv, Ia, Ib. reflexivity.
Qed.

Theorem bitmap_is_where ps xs rows : where_typed ps rows = true -> extract ps = Some xs ->
  bitmap xs rows = map (passes3 ps) rows.
Proof.
  intros T E. unfold bitmap. apply map_ext_in. intros r Hr.
  unfold where_typed in T. rewrite forallb_forall in T. specialize (T r Hr).
  destruct (conj_agree ps r xs T E) as (v & Hv & _ & Iv). unfold passes3. rewrite Hv. symmetry. exact Iv.
Qed.

(** * each column loop is the accumulator *)
Lemma cnt_fold l : forall a, fold_left cnt_step l a = a + Z.of_nat (length (non_null l)).
Proof.
  induction l as [|v l IH]; intros a; cbn [fold_left]; [unfold non_null; cbn; lia|].
  rewrite IH. unfold cnt_step, non_null. cbn [filter]. destruct (is_null v); cbn [negb length]; fold (non_null l); lia.
Qed.

Lemma zsum_cons_int x l : zsum_vals (VInt x :: l) = x + zsum_vals l.
Proof. reflexivity. Qed.

Lemma sum_step_fold l : all_ints l = true -> forall s c,
  fold_left sum_step l (s, c) = (s + zsum_vals (non_null l), c + Z.of_nat (length (non_null l))).
Proof.
  induction l as [|v l IH]; intros H s c; cbn [fold_left]; [unfold non_null; cbn; f_equal; lia|].
  cbn in H. apply andb_prop in H. destruct H as [Hv Hl].
  destruct v as [|x|sx|bx]; try discriminate; unfold sum_step at 2; cbn [fst snd]; rewrite (IH Hl);
    unfold non_null; cbn [filter is_null negb]; fold (non_null l); rewrite ?zsum_cons_int; cbn [length]; f_equal; lia.
Qed.

Lemma min_sim l : forall cur seen,
  acc_finalize (fold_left acc_step l (AccMin cur false seen)) =
  ARVal (match fold_left min_step l cur with Some v => v | None => VNull end).
Proof.
  induction l as [|v l IH]; intros cur seen; cbn [fold_left]; [reflexivity|].
  unfold acc_step at 2, min_step at 2. destruct (is_null v) eqn:N; cbn [orb].
  - apply IH.
  - rewrite (non_null_comparable v N). cbn [negb andb]. destruct cur as [c|].
    + destruct (acc_cmp v c); apply IH.
    + apply IH.
Qed.

Lemma max_sim l : forall cur seen,
  acc_finalize (fold_left acc_step l (AccMax cur false seen)) =
  ARVal (match fold_left max_step l cur with Some v => v | None => VNull end).
Proof.
  induction l as [|v l IH]; intros cur seen; cbn [fold_left]; [reflexivity|].
  unfold acc_step at 2, max_step at 2. destruct (is_null v) eqn:N; cbn [orb].
  - apply IH.
  - rewrite (non_null_comparable v N). cbn [negb andb]. destruct cur as [c|].
    + rewrite (acc_cmp_antisym c v). destruct (acc_cmp v c); cbn [CompOpp]; apply IH.
    + apply IH.
Qed.

Theorem col_agg_is_accumulator f bm vals :
  (match f with FSum | FAvg => all_ints (sel bm vals) = true | _ => True end) ->
  col_agg f bm vals = acc_run f false (sel bm vals).
Proof.
  intros T. destruct f; unfold col_agg.
  - unfold col_count. rewrite loop_fold, cnt_fold, acc_count_spec. unfold spec_count, dd. reflexivity.
  - unfold col_sum. rewrite loop_fold, (sum_step_fold _ T), (acc_sum_spec false _ T). unfold spec_sum, dd.
    destruct (non_null (sel bm vals)) as [|v vs]; cbn [length]; [reflexivity|].
    replace (0 <? 0 + Z.of_nat (S (length vs))) with true by (symmetry; apply Z.ltb_lt; lia). reflexivity.
  - unfold col_avg. rewrite loop_fold, (sum_step_fold _ T), (acc_avg_spec false _ T). unfold spec_avg, dd.
    destruct (non_null (sel bm vals)) as [|v vs]; cbn [length]; [reflexivity|].
    replace (0 <? 0 + Z.of_nat (S (length vs))) with true by (symmetry; apply Z.ltb_lt; lia). f_equal; lia.
  - unfold col_min, acc_run, acc_new. rewrite loop_fold, min_sim. reflexivity.
  - unfold col_max, acc_run, acc_new. rewrite loop_fold, max_sim. reflexivity.
Qed.

Lemma all_ints_filter {A} (g : A -> bool) (f : A -> value) rows :
  all_ints (map f rows) = true -> all_ints (map f (filter g rows)) = true.
Proof.
  unfold all_ints. induction rows as [|r rows IH]; cbn; [auto|]. intros H. apply andb_prop in H. destruct H as [H1 H2].
  destruct (g r); cbn; [rewrite H1; apply IH; exact H2|apply IH; exact H2].
Qed.

Lemma count_true_filter {A} (g : A -> bool) rows :
  length (filter (fun x : bool => x) (map g rows)) = length (filter g rows).
Proof. induction rows as [|r rows IH]; cbn; [reflexivity|]. destruct (g r); cbn; rewrite IH; reflexivity. Qed.

(** * the whole query *)
Theorem columnar_eq_row rows ps sels res :
  where_typed ps rows = true -> forallb (sel_typed rows) sels = true ->
  columnar_exec rows ps sels = Some res -> res = row_exec rows ps sels.
Proof.
  intros Tw Ts. unfold columnar_exec, row_exec.
  destruct (extract ps) as [xs|] eqn:E; [|discriminate].
  destruct rows as [|r0 rows0] eqn:R.
  - (* the empty-input early return *)
    intros H. inversion H; subst; clear H. cbn [filter]. apply map_ext. intros s.
    destruct s as [|f c|f op c1 c2]; try destruct f; reflexivity.
  - rewrite <- R in *. clear R r0 rows0.
    intros H. inversion H; subst; clear H. apply map_ext_in. intros s Hs.
    rewrite forallb_forall in Ts. specialize (Ts s Hs).
    destruct xs as [|x xs'].
    + (* no WHERE clause: every row passes *)
      assert (ps = []) as -> by (destruct ps as [|p ps']; [reflexivity|]; cbn in E;
                                   destruct (extract1 p); [destruct (extract ps')|]; discriminate).
      assert (F : filter (passes3 []) rows = rows).
      { clear. induction rows as [|r rows IH]; [reflexivity|]. cbn [filter]. change (passes3 [] r) with true. cbv iota. rewrite IH. reflexivity. }
      rewrite F. destruct s as [|f c|f op c1 c2]; cbn [columnar_sel row_sel col_count_star]; [reflexivity| |];
        (rewrite col_agg_is_accumulator; [reflexivity|]); cbn [sel]; cbn [sel_typed] in Ts; destruct f; auto.
    + cbv iota. rewrite (bitmap_is_where ps (x :: xs') rows Tw E).
      destruct s as [|f c|f op c1 c2]; cbn [columnar_sel row_sel col_count_star].
      * unfold col_count_star. rewrite count_true_filter. reflexivity.
      * rewrite col_agg_is_accumulator; rewrite sel_map_filter; [reflexivity|].
        cbn [sel_typed] in Ts. destruct f; auto; apply all_ints_filter; exact Ts.
      * rewrite col_agg_is_accumulator; rewrite sel_map_filter; [reflexivity|].
        cbn [sel_typed] in Ts. destruct f; auto; apply all_ints_filter; exact Ts.
Qed.

(** COUNT is never NULL and an aggregate query without GROUP BY has exactly one row, on the
    columnar path too *)
Theorem columnar_one_row rows ps sels res : columnar_exec rows ps sels = Some res -> length res = length sels.
Proof.
  unfold columnar_exec. destruct (extract ps); [|discriminate]. destruct rows; intros H; inversion H; apply map_length.
Qed.

Theorem columnar_count_not_null rows ps s res :
  (s = CCountStar \/ exists c, s = CAgg FCount c) ->
  columnar_exec rows ps [s] = Some [res] -> exists n, res = ARVal (VInt n).
Proof.
  unfold columnar_exec. destruct (extract ps); [|discriminate].
  intros Hs. destruct rows as [|r rows'].
  - intros H. inversion H. destruct Hs as [->|[c ->]]; eexists; reflexivity.
  - intros H. inversion H. destruct Hs as [->|[c ->]]; cbn; eexists; reflexivity.
Qed.

(** * the comparison tolerance of the unrepaired code is observable: with |a - b| < 10^-9 counted as
    equal, [c = 3] selects a row whose value is 3 + 2^-40, which the three-valued WHERE rejects *)
Definition xeval_eps (eps : Z) (p : xpred) (v : value) : bool :=
  match p, v with
  | XEq _ (VInt k), VInt x => Z.abs (x - k) <? eps
  | _, _ => xeval p v
  end.
Example tolerance_refuted :
  let scale := 2 ^ 42 in
  let v := VInt (3 * scale + 4) in                 (* 3 + 2^-40 *)
  xeval_eps 4399 (XEq 0 (VInt (3 * scale))) v = true     (* 10^-9 * 2^42 = 4398.05 *)
  /\ passes3 [PCmp 0 OEq (VInt (3 * scale)) false] [v] = false.
Proof. split; reflexivity. Qed.

(** * Non-vacuity *)
Example columnar_example :
  let rows := [[VInt 4; VNull]; [VInt 8; VInt 1]; [VNull; VInt 2]; [VInt 12; VInt 3]] in
  let ps := [PCmp 0 OLt (VInt 5) true; PBetween 0 (VInt 0) (VInt 100)] in       (* 5 < c0 AND c0 BETWEEN 0 AND 100 *)
  let sels := [CCountStar; CAgg FCount 1; CAgg FSum 0; CAgg FAvg 1; CAgg FMin 1; CAggBin FMax OAdd 0 1] in
  where_typed ps rows = true /\ forallb (sel_typed rows) sels = true
  /\ columnar_exec rows ps sels = Some [ARVal (VInt 2); ARVal (VInt 2); ARVal (VInt 20); ARQuot 4 2; ARVal (VInt 1); ARVal (VInt 15)]
  /\ row_exec rows ps sels = [ARVal (VInt 2); ARVal (VInt 2); ARVal (VInt 20); ARQuot 4 2; ARVal (VInt 1); ARVal (VInt 15)].
Proof. repeat split; reflexivity. Qed.
