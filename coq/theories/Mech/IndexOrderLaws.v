(** When the repaired index scan keeps its "already sorted" claim, its output is sorted by the
    ORDER BY comparator of the reference semantics (NULLs last, per-column directions). *)
From Coq Require Import List ZArith Bool Lia.
From VibeSQL Require Import Base.LexOrd Sem.Syntax Sem.Rel Sem.Laws Mech.IndexOrder.
Import ListNotations.
Open Scope Z_scope.

Lemma idx_value_compare_nonnull a b :
  is_null a = false -> is_null b = false -> idx_value_compare a b = value_compare a b.
Proof. destruct a, b; cbn; intros; try discriminate; reflexivity. Qed.

Lemma key_compare_nonnull d a b :
  is_null a = false -> is_null b = false ->
  key_compare d a b = if d then value_compare b a else value_compare a b.
Proof. destruct a, b; cbn; intros; try discriminate; reflexivity. Qed.

Definition row_keys_nonnull (cols : list nat) (r : row) : bool :=
  forallb (fun i => negb (is_null (nth i r VNull))) cols.

(** all ascending: the ORDER BY comparison is the index comparison *)
Lemma keys_compare_asc ks a b :
  forallb (fun k => negb (snd k)) ks = true ->
  row_keys_nonnull (map fst ks) a = true -> row_keys_nonnull (map fst ks) b = true ->
  keys_compare ks a b = idx_compare (map fst ks) a b.
Proof.
  induction ks as [|[i d] ks IH]; cbn; intros D A B; [reflexivity|].
  apply andb_true_iff in D. destruct D as [Dd D]. apply negb_true_iff in Dd. cbn in Dd. subst d.
  apply andb_true_iff in A. destruct A as [Ai A]. apply andb_true_iff in B. destruct B as [Bi B].
  apply negb_true_iff in Ai, Bi.
  rewrite (key_compare_nonnull false _ _ Ai Bi), (idx_value_compare_nonnull _ _ Ai Bi).
  rewrite (IH D A B). reflexivity.
Qed.

(** all descending: the ORDER BY comparison is the index comparison with the rows swapped *)
Lemma keys_compare_desc ks a b :
  forallb (fun k => snd k) ks = true ->
  row_keys_nonnull (map fst ks) a = true -> row_keys_nonnull (map fst ks) b = true ->
  keys_compare ks a b = idx_compare (map fst ks) b a.
Proof.
  induction ks as [|[i d] ks IH]; cbn; intros D A B; [reflexivity|].
  apply andb_true_iff in D. destruct D as [Dd D]. cbn in Dd. subst d.
  apply andb_true_iff in A. destruct A as [Ai A]. apply andb_true_iff in B. destruct B as [Bi B].
  apply negb_true_iff in Ai, Bi.
  rewrite (key_compare_nonnull true _ _ Ai Bi), (idx_value_compare_nonnull _ _ Bi Ai).
  rewrite (IH D A B). reflexivity.
Qed.

Lemma sortedb_ext (le1 le2 : row -> row -> bool) (P : row -> bool) l :
  forallb P l = true ->
  (forall a b, P a = true -> P b = true -> le1 a b = le2 a b) ->
  sortedb le1 l = sortedb le2 l.
Proof.
  intros HP E. induction l as [|x l IH]; [reflexivity|].
  cbn [forallb] in HP. apply andb_true_iff in HP. destruct HP as [Px Pl].
  destruct l as [|y l']; [reflexivity|].
  cbn [sortedb]. cbn [forallb] in Pl. pose proof Pl as Pl'. apply andb_true_iff in Pl'. destruct Pl' as [Py _].
  rewrite (E x y Px Py). f_equal. apply IH. exact Pl.
Qed.

Lemma sortedb_app_single le l x y :
  sortedb le (l ++ [x; y]) = sortedb le (l ++ [x]) && le x y.
Proof.
  induction l as [|z l IH].
  - cbn. destruct (le x y); reflexivity.
  - destruct l as [|w l'].
    + cbn. destruct (le z x), (le x y); reflexivity.
    + change (sortedb le ((z :: w :: l') ++ [x; y])) with (le z w && sortedb le ((w :: l') ++ [x; y])).
      change (sortedb le ((z :: w :: l') ++ [x])) with (le z w && sortedb le ((w :: l') ++ [x])).
      rewrite IH. apply andb_assoc.
Qed.

Lemma sortedb_rev le l : sortedb (fun a b => le b a) (rev l) = sortedb le l.
Proof.
  induction l as [|x l IH]; [reflexivity|].
  destruct l as [|y l']; [reflexivity|].
  cbn [rev]. rewrite <- app_assoc. cbn [app].
  rewrite sortedb_app_single. cbn [rev] in IH. rewrite IH.
  cbn [sortedb]. apply andb_comm.
Qed.

Lemma same_direction_asc i ks : same_direction ((i, false) :: ks) = true ->
  forallb (fun k : nat * bool => negb (snd k)) ((i, false) :: ks) = true.
Proof.
  cbn. intros H. induction ks as [|[j d] ks IH]; [reflexivity|].
  cbn in *. apply andb_true_iff in H. destruct H as [Hd H]. destruct d; [discriminate|]. cbn. apply IH. exact H.
Qed.

Lemma same_direction_desc i ks : same_direction ((i, true) :: ks) = true ->
  forallb (fun k : nat * bool => snd k) ((i, true) :: ks) = true.
Proof.
  cbn. intros H. induction ks as [|[j d] ks IH]; [reflexivity|].
  cbn in *. apply andb_true_iff in H. destruct H as [Hd H]. destruct d; [|discriminate]. cbn. apply IH. exact H.
Qed.

Lemma forallb_rev {A} (P : A -> bool) l : forallb P (rev l) = forallb P l.
Proof.
  induction l as [|x l IH]; [reflexivity|]. cbn. rewrite forallb_app, IH. cbn. rewrite andb_true_r. apply andb_comm.
Qed.

(** The claim is sound: rows in index order (and reversed for DESC) are sorted by ORDER BY *)
Theorem index_order_agrees ks l :
  claim_sorted ks l = true ->
  sortedb (idx_le (map fst ks)) l = true ->
  sortedb (row_le ks) (index_order_output ks l) = true.
Proof.
  unfold claim_sorted. intros C S. apply andb_true_iff in C. destruct C as [D N].
  destruct ks as [|[i d] ks].
  { cbn [index_order_output]. clear. induction l as [|x [|y l] IH]; try reflexivity.
    change (sortedb (row_le []) (x :: y :: l)) with (row_le [] x y && sortedb (row_le []) (y :: l)).
    rewrite IH. reflexivity. }
  destruct d; unfold index_order_output.
  - (* DESC: reversed index order *)
    pose proof (same_direction_desc i ks D) as DD.
    assert (G : sortedb (row_le ((i, true) :: ks)) (rev l)
                = sortedb (idx_le (map fst ((i, true) :: ks))) l).
    { rewrite <- (sortedb_rev (idx_le (map fst ((i, true) :: ks))) l).
      apply (sortedb_ext _ _ (row_keys_nonnull (map fst ((i, true) :: ks)))).
      - rewrite forallb_rev. exact N.
      - intros a b A B. unfold row_le, idx_le. rewrite (keys_compare_desc _ a b DD A B). reflexivity. }
    rewrite G. exact S.
  - pose proof (same_direction_asc i ks D) as DA.
    assert (G : sortedb (row_le ((i, false) :: ks)) l
                = sortedb (idx_le (map fst ((i, false) :: ks))) l).
    { apply (sortedb_ext _ _ (row_keys_nonnull (map fst ((i, false) :: ks)))).
      - exact N.
      - intros a b A B. unfold row_le, idx_le. rewrite (keys_compare_asc _ a b DA A B). reflexivity. }
    rewrite G. exact S.
Qed.

(** Without the guard the claim is false: a NULL key comes first in index order, last in ORDER BY *)
Theorem index_order_without_guard_refuted :
  exists ks l, sortedb (idx_le (map fst ks)) l = true /\ sortedb (row_le ks) (index_order_output ks l) = false.
Proof. exists [(0%nat, false)], [[VNull]; [VInt 1]]. vm_compute. auto. Qed.

(** ... and so is a mixed-direction ORDER BY *)
Theorem index_order_mixed_directions_refuted :
  exists ks l, no_null_keys (map fst ks) l = true /\ sortedb (idx_le (map fst ks)) l = true
               /\ sortedb (row_le ks) (index_order_output ks l) = false.
Proof. exists [(0%nat, false); (1%nat, true)], [[VInt 1; VInt 1]; [VInt 1; VInt 2]]. vm_compute. auto. Qed.

Example index_order_nonvacuous :
  let ks := [(0%nat, true); (1%nat, true)] in
  let l := [[VInt 1; VStr [97]]; [VInt 1; VStr [98]]; [VInt 2; VStr [97]]] in
  claim_sorted ks l = true /\ sortedb (idx_le (map fst ks)) l = true
  /\ index_order_output ks l = [[VInt 2; VStr [97]]; [VInt 1; VStr [98]]; [VInt 1; VStr [97]]].
Proof. vm_compute. auto. Qed.
