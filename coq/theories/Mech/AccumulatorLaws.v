(** C07: the accumulators compute the SQL definitions of the aggregates on every list of argument
    values, [combine] of two partial accumulators is the accumulator of the concatenation, and
    grouping yields exactly one non-empty group per distinct key (NULL keys forming one group). *)
From Coq Require Import List ZArith Bool Lia Permutation.
From VibeSQL Require Import Base.LexOrd Sem.Syntax Sem.Rel Sem.Laws Mech.Accumulator.
Import ListNotations.
Open Scope Z_scope.

(** * COUNT *)
Lemma count_fold d l : forall c seen,
  acc_finalize (fold_left acc_step l (AccCount c d seen)) =
  ARVal (VInt (c + Z.of_nat (length (dd d seen (non_null l))))).
Proof.
  induction l as [|v l IH]; intros c seen; cbn [fold_left].
  - unfold dd, non_null; cbn. destruct d; cbn; f_equal; f_equal; lia.
  - unfold acc_step at 2. destruct (is_null v) eqn:N.
    + rewrite IH. unfold non_null; cbn [filter]. rewrite N. reflexivity.
    + unfold non_null; cbn [filter]. rewrite N. cbn [negb]. fold (non_null l).
      destruct d; cbn [dd].
      * cbn [distinct_values_acc]. unfold in_seen. destruct (existsb (value_eqb v) seen).
        -- rewrite IH. reflexivity.
        -- rewrite IH. cbn [dd length]. f_equal. f_equal. lia.
      * rewrite IH. cbn [dd length]. f_equal. f_equal. lia.
Qed.

Theorem acc_count_spec d l : acc_run FCount d l = ARVal (VInt (spec_count d l)).
Proof. unfold acc_run, acc_new, spec_count. rewrite count_fold. reflexivity. Qed.

(** * SUM and AVG (over integer-or-NULL argument values) *)
Lemma non_null_ints l : all_ints l = true -> forallb is_numeric (non_null l) = true.
Proof.
  induction l as [|v l IH]; [reflexivity|]. intros H. cbn in H. apply andb_prop in H. destruct H as [Hv Hl].
  unfold non_null. cbn [filter]. fold (non_null l).
  destruct v; try discriminate; cbn [is_null negb forallb is_numeric andb]; apply IH; exact Hl.
Qed.

Lemma zsum_distinct_ints seen l : forallb is_numeric l = true -> forallb is_numeric (distinct_values_acc seen l) = true.
Proof.
  revert seen; induction l as [|v l IH]; intros seen H; cbn; [reflexivity|].
  cbn in H. apply andb_prop in H. destruct H as [Hv Hl].
  destruct (existsb (value_eqb v) seen); [apply IH; exact Hl|]. cbn. rewrite Hv. apply IH. exact Hl.
Qed.

Lemma sum_fold d l : all_ints l = true -> forall s c seen,
  fold_left acc_step l (AccSum (VInt s) c d seen) =
  AccSum (VInt (s + zsum_vals (dd d seen (non_null l)))) (c + Z.of_nat (length (dd d seen (non_null l)))) d
         (if d then rev (distinct_values_acc seen (non_null l)) ++ seen else seen).
Proof.
  induction l as [|v l IH]; intros H s c seen; cbn [fold_left].
  - unfold dd, non_null; cbn. destruct d; cbn; f_equal; first [reflexivity | lia | (f_equal; lia)].
  - cbn in H. apply andb_prop in H. destruct H as [Hv Hl].
    destruct v as [|x|sx|bx]; try discriminate.
    + (* NULL *) cbn [acc_step is_null orb]. rewrite (IH Hl). reflexivity.
    + cbn [acc_step is_null is_numeric orb negb]. unfold non_null; cbn [filter is_null negb]. fold (non_null l).
      destruct d; cbn [dd].
      * cbn [distinct_values_acc]. unfold in_seen. destruct (existsb (value_eqb (VInt x)) seen).
        -- rewrite (IH Hl). reflexivity.
        -- cbn [add_values]. rewrite (IH Hl). cbn [dd length zsum_vals fold_right rev].
           rewrite <- app_assoc. cbn [app]. f_equal; first [reflexivity | lia | (f_equal; lia)].
      * cbn [add_values]. rewrite (IH Hl). cbn [dd length zsum_vals fold_right]. f_equal; first [reflexivity | lia | (f_equal; lia)].
Qed.

Lemma avg_fold d l : all_ints l = true -> forall s c seen,
  fold_left acc_step l (AccAvg (VInt s) c d seen) =
  AccAvg (VInt (s + zsum_vals (dd d seen (non_null l)))) (c + Z.of_nat (length (dd d seen (non_null l)))) d
         (if d then rev (distinct_values_acc seen (non_null l)) ++ seen else seen).
Proof.
  induction l as [|v l IH]; intros H s c seen; cbn [fold_left].
  - unfold dd, non_null; cbn. destruct d; cbn; f_equal; first [reflexivity | lia | (f_equal; lia)].
  - cbn in H. apply andb_prop in H. destruct H as [Hv Hl].
    destruct v as [|x|sx|bx]; try discriminate.
    + cbn [acc_step is_null orb]. rewrite (IH Hl). reflexivity.
    + cbn [acc_step is_null is_numeric orb negb]. unfold non_null; cbn [filter is_null negb]. fold (non_null l).
      destruct d; cbn [dd].
      * cbn [distinct_values_acc]. unfold in_seen. destruct (existsb (value_eqb (VInt x)) seen).
        -- rewrite (IH Hl). reflexivity.
        -- cbn [add_values]. rewrite (IH Hl). cbn [dd length zsum_vals fold_right rev].
           rewrite <- app_assoc. cbn [app]. f_equal; first [reflexivity | lia | (f_equal; lia)].
      * cbn [add_values]. rewrite (IH Hl). cbn [dd length zsum_vals fold_right]. f_equal; first [reflexivity | lia | (f_equal; lia)].
Qed.

Theorem acc_sum_spec d l : all_ints l = true -> acc_run FSum d l = ARVal (spec_sum d l).
Proof.
  intros H. unfold acc_run, acc_new, spec_sum. rewrite (sum_fold d l H). cbn [acc_finalize].
  destruct (dd d [] (non_null l)) as [|v vs] eqn:E; cbn [length].
  - reflexivity.
  - replace (0 + Z.of_nat (S (length vs)) =? 0) with false by (symmetry; apply Z.eqb_neq; lia).
    reflexivity.
Qed.

Theorem acc_avg_spec d l : all_ints l = true -> acc_run FAvg d l = spec_avg d l.
Proof.
  intros H. unfold acc_run, acc_new, spec_avg. rewrite (avg_fold d l H). cbn [acc_finalize].
  destruct (dd d [] (non_null l)) as [|v vs] eqn:E; cbn [length].
  - reflexivity.
  - replace (0 + Z.of_nat (S (length vs)) =? 0) with false by (symmetry; apply Z.eqb_neq; lia).
    f_equal; lia.
Qed.

(** SUM / AVG are NULL exactly when there is no non-NULL argument; COUNT is never NULL *)
Theorem sum_null_iff d l : all_ints l = true -> (acc_run FSum d l = ARVal VNull <-> non_null l = []).
Proof.
  intros H. rewrite (acc_sum_spec d l H). unfold spec_sum, dd.
  destruct (non_null l) as [|v vs] eqn:E.
  - destruct d; cbn; split; auto.
  - destruct d; cbn [distinct_values_acc existsb]; split; intros X; discriminate.
Qed.

Theorem count_never_null f d l : f = FCount -> exists n, acc_run f d l = ARVal (VInt n) /\ 0 <= n.
Proof. intros ->. rewrite acc_count_spec. eexists; split; [reflexivity|]. unfold spec_count. lia. Qed.

(** * MIN / MAX *)
(** the values MIN / MAX look at *)
Definition considered (d : bool) (seen : list value) (l : list value) : list value := dd d seen (non_null l).

Definition better (want : comparison) (v c : value) : bool :=
  match acc_cmp v c, want with Lt, Lt | Gt, Gt => true | _, _ => false end.

Definition ext_fold (want : comparison) (cur : option value) (vs : list value) : option value :=
  fold_left (fun cur v => match cur with None => Some v | Some c => if better want v c then Some v else cur end) vs cur.

Lemma non_null_comparable v : is_null v = false -> is_comparable v = true.
Proof. destruct v; cbn; congruence. Qed.

Lemma min_fold d l : forall cur seen,
  exists seen', fold_left acc_step l (AccMin cur d seen) = AccMin (ext_fold Lt cur (considered d seen l)) d seen'.
Proof.
  induction l as [|v l IH]; intros cur seen; cbn [fold_left].
  - exists seen. unfold considered, dd, non_null. destruct d; reflexivity.
  - unfold considered, non_null. cbn [filter]. fold (non_null l). unfold acc_step at 2.
    destruct (is_null v) eqn:N; cbn [orb negb].
    + apply IH.
    + rewrite (non_null_comparable v N). cbn [negb].
      destruct d; cbn [andb dd].
      * cbn [distinct_values_acc]. unfold in_seen. destruct (existsb (value_eqb v) seen) eqn:S.
        -- apply IH.
        -- cbn [ext_fold fold_left]. destruct cur as [c|].
           ++ unfold better. destruct (acc_cmp v c); apply IH.
           ++ apply IH.
      * cbn [ext_fold fold_left]. destruct cur as [c|].
        -- unfold better. destruct (acc_cmp v c); apply IH.
        -- apply IH.
Qed.

Lemma max_fold d l : forall cur seen,
  exists seen', fold_left acc_step l (AccMax cur d seen) = AccMax (ext_fold Gt cur (considered d seen l)) d seen'.
Proof.
  induction l as [|v l IH]; intros cur seen; cbn [fold_left].
  - exists seen. unfold considered, dd, non_null. destruct d; reflexivity.
  - unfold considered, non_null. cbn [filter]. fold (non_null l). unfold acc_step at 2.
    destruct (is_null v) eqn:N; cbn [orb negb].
    + apply IH.
    + rewrite (non_null_comparable v N). cbn [negb].
      destruct d; cbn [andb dd].
      * cbn [distinct_values_acc]. unfold in_seen. destruct (existsb (value_eqb v) seen) eqn:S.
        -- apply IH.
        -- cbn [ext_fold fold_left]. destruct cur as [c|].
           ++ unfold better. destruct (acc_cmp v c); apply IH.
           ++ apply IH.
      * cbn [ext_fold fold_left]. destruct cur as [c|].
        -- unfold better. destruct (acc_cmp v c); apply IH.
        -- apply IH.
Qed.

(** a preorder on which [acc_cmp] is meaningful: all integers, or all strings *)
Definition le_want (want : comparison) (a b : value) : Prop :=
  (* [a] is at least as good as [b] *)
  match want with Lt => acc_cmp a b <> Gt | _ => acc_cmp a b <> Lt end.

Definition homog (l : list value) : Prop :=
  (forall v, In v l -> exists x, v = VInt x) \/ (forall v, In v l -> exists s, v = VStr s).

Lemma acc_cmp_refl_homog v : (exists x, v = VInt x) \/ (exists s, v = VStr s) -> acc_cmp v v = Eq.
Proof. intros [[x ->]|[s ->]]; cbn; [apply Z.compare_refl|apply lex_compare_refl]. Qed.

Lemma le_want_trans_int want a b c : le_want want (VInt a) (VInt b) -> le_want want (VInt b) (VInt c) -> le_want want (VInt a) (VInt c).
Proof.
  destruct want; cbn [le_want acc_cmp]; intros H1 H2;
    destruct (Z.compare_spec a b); destruct (Z.compare_spec b c); destruct (Z.compare_spec a c);
    try congruence; try discriminate; exfalso; lia.
Qed.

Lemma lex_not_gt_trans a b c : lex_compare a b <> Gt -> lex_compare b c <> Gt -> lex_compare a c <> Gt.
Proof.
  intros H1 H2.
  destruct (lex_compare a b) eqn:E1; try congruence.
  - apply lex_compare_eq_iff in E1. subst. exact H2.
  - destruct (lex_compare b c) eqn:E2; try congruence.
    + apply lex_compare_eq_iff in E2. subst. rewrite E1. discriminate.
    + rewrite (lex_compare_trans Lt a b c E1 E2). discriminate.
Qed.

Lemma lex_not_lt_trans a b c : lex_compare a b <> Lt -> lex_compare b c <> Lt -> lex_compare a c <> Lt.
Proof.
  intros H1 H2.
  destruct (lex_compare a b) eqn:E1; try congruence.
  - apply lex_compare_eq_iff in E1. subst. exact H2.
  - destruct (lex_compare b c) eqn:E2; try congruence.
    + apply lex_compare_eq_iff in E2. subst. rewrite E1. discriminate.
    + rewrite (lex_compare_trans Gt a b c E1 E2). discriminate.
Qed.

Lemma le_want_trans_str want a b c : le_want want (VStr a) (VStr b) -> le_want want (VStr b) (VStr c) -> le_want want (VStr a) (VStr c).
Proof. destruct want; cbn; first [apply lex_not_gt_trans | apply lex_not_lt_trans]. Qed.

(** the extremum fold returns a member that is at least as good as every considered value *)
Lemma ext_fold_spec want : (want = Lt \/ want = Gt) -> forall vs cur,
  homog (match cur with Some c => c :: vs | None => vs end) ->
  match ext_fold want cur vs with
  | None => cur = None /\ vs = []
  | Some m => In m (match cur with Some c => c :: vs | None => vs end)
              /\ forall v, In v (match cur with Some c => c :: vs | None => vs end) -> le_want want m v
  end.
Proof.
  intros Hw. induction vs as [|v vs IH]; intros cur Hh; cbn [ext_fold fold_left].
  - destruct cur as [c|]; [|auto]. split; [left; reflexivity|].
    intros v [<-|[]]. assert (R : acc_cmp c c = Eq).
    { apply acc_cmp_refl_homog. destruct Hh as [H|H]; [left|right]; apply H; left; reflexivity. }
    destruct Hw as [-> | ->]; cbn; rewrite R; discriminate.
  - destruct cur as [c|].
    + (* compare v with c *)
      set (cur' := if better want v c then Some v else Some c).
      assert (Hh' : homog (match cur' with Some c' => c' :: vs | None => vs end)).
      { unfold cur'. destruct (better want v c);
          (destruct Hh as [H|H]; [left|right]; intros u Hu; apply H; cbn in *; tauto). }
      specialize (IH cur' Hh'). fold (ext_fold want cur' vs).
      destruct (ext_fold want cur' vs) as [m|] eqn:E.
      * destruct IH as [Hin Hle]. unfold cur' in Hin, Hle.
        (* the element dropped at this step is no better than the one kept *)
        assert (Hdrop : forall kept dropped, (if better want v c then Some v else Some c) = Some kept ->
                          (dropped = v \/ dropped = c) -> le_want want kept dropped).
        { intros kept dropped Hk Hd.
          assert (Hvc : (exists x y, v = VInt x /\ c = VInt y) \/ (exists x y, v = VStr x /\ c = VStr y)).
          { destruct Hh as [H|H]; [left|right];
              destruct (H v (or_intror (or_introl eq_refl))) as [x ->];
              destruct (H c (or_introl eq_refl)) as [y ->]; eauto. }
          unfold better in Hk.
          destruct Hvc as [(x & y & -> & ->)|(x & y & -> & ->)]; cbn [acc_cmp] in Hk |- *;
            destruct Hw as [-> | ->]; cbn [le_want acc_cmp].
          - destruct (Z.compare_spec x y); inversion Hk; subst; destruct Hd as [->| ->]; cbn [acc_cmp];
              rewrite ?Z.compare_refl; try discriminate;
              match goal with |- (?a ?= ?b) <> _ => destruct (Z.compare_spec a b); try discriminate; exfalso; lia end.
          - destruct (Z.compare_spec x y); inversion Hk; subst; destruct Hd as [->| ->]; cbn [acc_cmp];
              rewrite ?Z.compare_refl; try discriminate;
              match goal with |- (?a ?= ?b) <> _ => destruct (Z.compare_spec a b); try discriminate; exfalso; lia end.
          - destruct (lex_compare x y) eqn:L; inversion Hk; subst; destruct Hd as [->| ->]; cbn;
              rewrite ?lex_compare_refl; try discriminate; try (rewrite L; discriminate);
              try (rewrite lex_compare_antisym, L; discriminate).
          - destruct (lex_compare x y) eqn:L; inversion Hk; subst; destruct Hd as [->| ->]; cbn;
              rewrite ?lex_compare_refl; try discriminate; try (rewrite L; discriminate);
              try (rewrite lex_compare_antisym, L; discriminate). }
        assert (Htrans : forall a b c0, In a (c :: v :: vs) -> In b (c :: v :: vs) -> In c0 (c :: v :: vs) ->
                           le_want want a b -> le_want want b c0 -> le_want want a c0).
        { intros a b c0 Ha Hb Hc0. destruct Hh as [H|H];
            destruct (H a Ha) as [xa ->]; destruct (H b Hb) as [xb ->]; destruct (H c0 Hc0) as [xc ->];
            [apply le_want_trans_int | apply le_want_trans_str]. }
        destruct (better want v c) eqn:B.
        -- assert (Hm : In m (c :: v :: vs)) by (destruct Hin as [<-|Hin]; cbn; auto).
           split; [exact Hm|].
           intros u [<-|[<-|Hu]].
           ++ apply (Htrans m v c Hm (or_intror (or_introl eq_refl)) (or_introl eq_refl)).
              ** apply Hle. left; reflexivity.
              ** apply (Hdrop v c); [first [reflexivity | rewrite B; reflexivity]|right; reflexivity].
           ++ apply Hle. left; reflexivity.
           ++ apply Hle. right; exact Hu.
        -- assert (Hm : In m (c :: v :: vs)) by (destruct Hin as [<-|Hin]; cbn; auto).
           split; [exact Hm|].
           intros u [<-|[<-|Hu]].
           ++ apply Hle. left; reflexivity.
           ++ apply (Htrans m c v Hm (or_introl eq_refl) (or_intror (or_introl eq_refl))).
              ** apply Hle. left; reflexivity.
              ** apply (Hdrop c v); [first [reflexivity | rewrite B; reflexivity]|left; reflexivity].
           ++ apply Hle. right; exact Hu.
      * destruct IH as [X _]. unfold cur' in X. destruct (better want v c); discriminate.
    + specialize (IH (Some v) Hh). fold (ext_fold want (Some v) vs).
      destruct (ext_fold want (Some v) vs) as [m|]; [exact IH|]. destruct IH as [X _]. discriminate.
Qed.

Lemma considered_in d l v : In v (considered d [] l) -> In v l /\ v <> VNull.
Proof.
  unfold considered. intros H.
  assert (Hn : In v (non_null l)).
  { destruct d; cbn [dd] in H; [|exact H].
    assert (G : forall seen l0, In v (distinct_values_acc seen l0) -> In v l0).
    { intros seen l0; revert seen; induction l0 as [|x l0 IH]; intros seen; cbn; [tauto|].
      destruct (existsb (value_eqb x) seen); [intros X; right; eapply IH; exact X|].
      intros [->|X]; [left; reflexivity|right; eapply IH; exact X]. }
    eapply G; exact H. }
  unfold non_null in Hn. apply filter_In in Hn. destruct Hn as [Hi Hz]. split; [exact Hi|].
  intros ->. discriminate.
Qed.

Lemma in_considered d l v : In v l -> v <> VNull -> In v (considered d [] l).
Proof.
  intros Hi Hn. unfold considered.
  assert (Hnn : In v (non_null l)).
  { unfold non_null. apply filter_In. split; [exact Hi|]. destruct v; cbn; congruence. }
  destruct d; cbn [dd]; [|exact Hnn].
  assert (G : forall l0 seen, In v l0 -> In v (distinct_values_acc seen l0) \/ existsb (value_eqb v) seen = true).
  { induction l0 as [|x l0 IH]; intros seen; [intros []|]. intros [->|X]; cbn [distinct_values_acc].
    - destruct (existsb (value_eqb v) seen) eqn:S; [right; reflexivity|left; left; reflexivity].
    - destruct (existsb (value_eqb x) seen) eqn:S.
      + apply IH; exact X.
      + destruct (IH (x :: seen) X) as [Y|Y]; [left; right; exact Y|].
        cbn [existsb] in Y. apply orb_prop in Y. destruct Y as [Y|Y].
        * apply value_eqb_eq in Y. subst. left; left; reflexivity.
        * right; exact Y. }
  destruct (G _ [] Hnn) as [Y|Y]; [exact Y|discriminate].
Qed.

(** MIN: NULL iff no non-NULL argument; otherwise a non-NULL argument that no other argument is
    smaller than (for DISTINCT too: the distinct values have the same minimum) *)
Theorem acc_min_spec d l : homog (non_null l) ->
  match acc_run FMin d l with
  | ARVal VNull => non_null l = []
  | ARVal m => In m l /\ m <> VNull /\ forall v, In v l -> v <> VNull -> acc_cmp m v <> Gt
  | ARQuot _ _ => False
  end.
Proof.
  intros Hh. unfold acc_run, acc_new. destruct (min_fold d l None []) as [seen' ->]. cbn [acc_finalize].
  assert (Hh' : homog (considered d [] l)).
  { destruct Hh as [H|H]; [left|right]; intros v Hv; apply H; apply considered_in in Hv; destruct Hv as [Hv Hn];
      unfold non_null; apply filter_In; (split; [exact Hv|destruct v; cbn; congruence]). }
  pose proof (ext_fold_spec Lt (or_introl eq_refl) (considered d [] l) None Hh') as S.
  destruct (ext_fold Lt None (considered d [] l)) as [m|] eqn:E.
  - destruct S as [Hin Hle]. destruct (considered_in _ _ _ Hin) as [Hil Hnn].
    destruct m as [|x|s|b]; [congruence| | |]; (split; [exact Hil|split; [exact Hnn|]]);
      intros v Hv Hvn; apply (Hle v); apply in_considered; assumption.
  - destruct S as [_ S]. destruct (non_null l) as [|v vs] eqn:N; [reflexivity|exfalso].
    assert (In v (considered d [] l)).
    { apply in_considered.
      - assert (X : In v (non_null l)) by (rewrite N; left; reflexivity). unfold non_null in X. apply filter_In in X. tauto.
      - assert (X : In v (non_null l)) by (rewrite N; left; reflexivity). unfold non_null in X. apply filter_In in X.
        destruct X as [_ X]. intros ->. discriminate. }
    rewrite S in H. destruct H.
Qed.

Theorem acc_max_spec d l : homog (non_null l) ->
  match acc_run FMax d l with
  | ARVal VNull => non_null l = []
  | ARVal m => In m l /\ m <> VNull /\ forall v, In v l -> v <> VNull -> acc_cmp m v <> Lt
  | ARQuot _ _ => False
  end.
Proof.
  intros Hh. unfold acc_run, acc_new. destruct (max_fold d l None []) as [seen' ->]. cbn [acc_finalize].
  assert (Hh' : homog (considered d [] l)).
  { destruct Hh as [H|H]; [left|right]; intros v Hv; apply H; apply considered_in in Hv; destruct Hv as [Hv Hn];
      unfold non_null; apply filter_In; (split; [exact Hv|destruct v; cbn; congruence]). }
  pose proof (ext_fold_spec Gt (or_intror eq_refl) (considered d [] l) None Hh') as S.
  destruct (ext_fold Gt None (considered d [] l)) as [m|] eqn:E.
  - destruct S as [Hin Hle]. destruct (considered_in _ _ _ Hin) as [Hil Hnn].
    destruct m as [|x|s|b]; [congruence| | |]; (split; [exact Hil|split; [exact Hnn|]]);
      intros v Hv Hvn; apply (Hle v); apply in_considered; assumption.
  - destruct S as [_ S]. destruct (non_null l) as [|v vs] eqn:N; [reflexivity|exfalso].
    assert (In v (considered d [] l)).
    { apply in_considered.
      - assert (X : In v (non_null l)) by (rewrite N; left; reflexivity). unfold non_null in X. apply filter_In in X. tauto.
      - assert (X : In v (non_null l)) by (rewrite N; left; reflexivity). unfold non_null in X. apply filter_In in X.
        destruct X as [_ X]. intros ->. discriminate. }
    rewrite S in H. destruct H.
Qed.

(** * combine: merging the accumulators of two chunks is the accumulator of the whole
    (non-DISTINCT COUNT / SUM / AVG; the DISTINCT forms re-derive everything from the merged set) *)
Lemma zsum_app a b : zsum_vals (a ++ b) = zsum_vals a + zsum_vals b.
Proof. unfold zsum_vals. induction a as [|x a IH]; cbn; [reflexivity|]. destruct x; rewrite IH; lia. Qed.

Lemma non_null_app a b : non_null (a ++ b) = non_null a ++ non_null b.
Proof. unfold non_null. apply filter_app. Qed.

Lemma all_ints_app a b : all_ints (a ++ b) = all_ints a && all_ints b.
Proof. unfold all_ints. apply forallb_app. Qed.

Theorem combine_count l1 l2 :
  option_map acc_finalize
    (acc_combine (fold_left acc_step l1 (acc_new FCount false)) (fold_left acc_step l2 (acc_new FCount false)))
  = Some (acc_run FCount false (l1 ++ l2)).
Proof.
  rewrite acc_count_spec. unfold acc_new, spec_count.
  assert (G : forall l c, fold_left acc_step l (AccCount c false []) = AccCount (c + Z.of_nat (length (non_null l))) false []).
  { induction l as [|v l IH]; intros c; cbn [fold_left]; [unfold non_null; cbn; f_equal; lia|].
    unfold acc_step at 2. unfold non_null. cbn [filter]. destruct (is_null v); cbn [negb].
    - apply IH.
    - rewrite IH. cbn [length]. fold (non_null l). f_equal. lia. }
  rewrite !G. cbn. rewrite non_null_app, app_length. do 3 f_equal. lia.
Qed.

Theorem combine_sum l1 l2 : all_ints l1 = true -> all_ints l2 = true ->
  option_map acc_finalize
    (acc_combine (fold_left acc_step l1 (acc_new FSum false)) (fold_left acc_step l2 (acc_new FSum false)))
  = Some (acc_run FSum false (l1 ++ l2)).
Proof.
  intros H1 H2. unfold acc_run, acc_new.
  rewrite (sum_fold false l1 H1), (sum_fold false l2 H2).
  rewrite (sum_fold false (l1 ++ l2)) by (rewrite all_ints_app, H1, H2; reflexivity).
  cbn [dd acc_combine Bool.eqb negb add_values option_map acc_finalize].
  rewrite non_null_app, zsum_app, app_length, Nat2Z.inj_add.
  replace (0 + Z.of_nat (length (non_null l1)) + (0 + Z.of_nat (length (non_null l2))))
    with (0 + (Z.of_nat (length (non_null l1)) + Z.of_nat (length (non_null l2)))) by lia.
  replace (0 + zsum_vals (non_null l1) + (0 + zsum_vals (non_null l2)))
    with (0 + (zsum_vals (non_null l1) + zsum_vals (non_null l2))) by lia.
  reflexivity.
Qed.

Theorem combine_avg l1 l2 : all_ints l1 = true -> all_ints l2 = true ->
  option_map acc_finalize
    (acc_combine (fold_left acc_step l1 (acc_new FAvg false)) (fold_left acc_step l2 (acc_new FAvg false)))
  = Some (acc_run FAvg false (l1 ++ l2)).
Proof.
  intros H1 H2. unfold acc_run, acc_new.
  rewrite (avg_fold false l1 H1), (avg_fold false l2 H2).
  rewrite (avg_fold false (l1 ++ l2)) by (rewrite all_ints_app, H1, H2; reflexivity).
  cbn [dd acc_combine Bool.eqb negb add_values option_map acc_finalize].
  rewrite non_null_app, zsum_app, app_length, Nat2Z.inj_add.
  replace (0 + Z.of_nat (length (non_null l1)) + (0 + Z.of_nat (length (non_null l2))))
    with (0 + (Z.of_nat (length (non_null l1)) + Z.of_nat (length (non_null l2)))) by lia.
  replace (0 + zsum_vals (non_null l1) + (0 + zsum_vals (non_null l2)))
    with (0 + (zsum_vals (non_null l1) + zsum_vals (non_null l2))) by lia.
  reflexivity.
Qed.

(** * Grouping (Sem.Rel.group_rows = the HashMap entry API, keys compared by equality) *)
Lemma group_insert_keys k r gs :
  map fst (group_insert k r gs) = if existsb (row_eqb k) (map fst gs) then map fst gs else map fst gs ++ [k].
Proof.
  induction gs as [|[k' rs] gs IH]; cbn; [reflexivity|].
  destruct (row_eqb k k') eqn:E; cbn; [reflexivity|]. rewrite IH.
  destruct (existsb (row_eqb k) (map fst gs)); reflexivity.
Qed.

Lemma existsb_row_eqb_In k ks : existsb (row_eqb k) ks = true <-> In k ks.
Proof.
  rewrite existsb_exists. split.
  - intros (x & Hx & E). apply row_eqb_eq in E. subst. exact Hx.
  - intros H. exists k. split; [exact H|apply row_eqb_refl].
Qed.

Lemma NoDup_snoc {A} (l : list A) x : NoDup l -> ~ In x l -> NoDup (l ++ [x]).
Proof.
  induction l as [|a l IH]; cbn; intros H N.
  - constructor; [intros []|constructor].
  - inversion H as [|? ? Ha Hl]; subst. constructor.
    + intros X. apply in_app_or in X. destruct X as [X|[<-|[]]]; [contradiction|apply N; left; reflexivity].
    + apply IH; [exact Hl|]. intros X. apply N. right. exact X.
Qed.

Lemma group_insert_nodup k r gs : NoDup (map fst gs) -> NoDup (map fst (group_insert k r gs)).
Proof.
  intros H. rewrite group_insert_keys. destruct (existsb (row_eqb k) (map fst gs)) eqn:E; [exact H|].
  apply NoDup_snoc; [exact H|]. intros X. apply existsb_row_eqb_In in X. congruence.
Qed.

Lemma group_insert_perm k r gs :
  Permutation (r :: concat (map snd gs)) (concat (map snd (group_insert k r gs))).
Proof.
  induction gs as [|[k' rs] gs IH]; cbn; [constructor; constructor|].
  destruct (row_eqb k k'); cbn.
  - rewrite <- app_assoc. cbn. apply Permutation_cons_app. reflexivity.
  - rewrite <- IH. apply Permutation_middle.
Qed.

(** every group is non-empty, and every row of a group was inserted under that group's key *)
Definition groups_ok (keyed : list (row * row)) (gs : list (row * list row)) : Prop :=
  forall k rs, In (k, rs) gs -> rs <> [] /\ forall r, In r rs -> In (k, r) keyed.

Lemma group_insert_ok keyed k r gs : groups_ok keyed gs -> groups_ok (keyed ++ [(k, r)]) (group_insert k r gs).
Proof.
  unfold groups_ok. induction gs as [|[k' rs'] gs IH]; intros H k0 rs0 Hin; cbn in Hin.
  - destruct Hin as [E|[]]. inversion E; subst. split; [discriminate|].
    intros r0 [<-|[]]. apply in_or_app. right. left. reflexivity.
  - destruct (row_eqb k k') eqn:E.
    + destruct Hin as [X|X].
      * inversion X; subst. apply row_eqb_eq in E. subst.
        destruct (H k0 rs' (or_introl eq_refl)) as [Hne Hall]. split.
        -- destruct rs'; discriminate.
        -- intros r0 Hr0. apply in_app_or in Hr0. destruct Hr0 as [Hr0|[<-|[]]]; apply in_or_app; [left; apply Hall; exact Hr0|right; left; reflexivity].
      * destruct (H k0 rs0 (or_intror X)) as [Hne Hall]. split; [exact Hne|].
        intros r0 Hr0. apply in_or_app. left. apply Hall. exact Hr0.
    + destruct Hin as [X|X].
      * inversion X; subst. destruct (H k0 rs0 (or_introl eq_refl)) as [Hne Hall]. split; [exact Hne|].
        intros r0 Hr0. apply in_or_app. left. apply Hall. exact Hr0.
      * apply IH; [|exact X]. intros k1 rs1 H1. apply H. right. exact H1.
Qed.

Lemma group_rows_gen keyed : forall gs0 keyed0,
  NoDup (map fst gs0) -> groups_ok keyed0 gs0 ->
  let gs := fold_left (fun gs kr => group_insert (fst kr) (snd kr) gs) keyed gs0 in
  NoDup (map fst gs) /\ groups_ok (keyed0 ++ keyed) gs
  /\ Permutation (map snd keyed ++ concat (map snd gs0)) (concat (map snd gs)).
Proof.
  induction keyed as [|[k r] keyed IH]; intros gs0 keyed0 Hn Hok; cbn [fold_left].
  - rewrite app_nil_r. cbn. auto.
  - cbn [fst snd].
    specialize (IH (group_insert k r gs0) (keyed0 ++ [(k, r)]) (group_insert_nodup k r gs0 Hn) (group_insert_ok keyed0 k r gs0 Hok)).
    cbn zeta in IH. destruct IH as (A & B & C). split; [exact A|]. split.
    + rewrite <- app_assoc in B. exact B.
    + cbn [map snd app]. rewrite <- C. rewrite <- (group_insert_perm k r gs0).
      apply Permutation_middle.
Qed.

(** exactly one group per distinct key *)
Theorem group_keys_nodup keyed : NoDup (map fst (group_rows keyed)).
Proof.
  unfold group_rows. destruct (group_rows_gen keyed [] [] (NoDup_nil _)) as (A & _); [|exact A].
  intros k rs [].
Qed.

(** the groups partition the input rows *)
Theorem group_partition keyed : Permutation (map snd keyed) (concat (map snd (group_rows keyed))).
Proof.
  unfold group_rows. destruct (group_rows_gen keyed [] [] (NoDup_nil _)) as (_ & _ & C).
  - intros k rs [].
  - cbn in C. rewrite app_nil_r in C. exact C.
Qed.

(** groups are non-empty and hold only rows with the group's key *)
Theorem group_members keyed k rs : In (k, rs) (group_rows keyed) ->
  rs <> [] /\ forall r, In r rs -> In (k, r) keyed.
Proof.
  unfold group_rows. destruct (group_rows_gen keyed [] [] (NoDup_nil _)) as (_ & B & _).
  - intros k0 rs0 [].
  - cbn in B. apply B.
Qed.

(** every keyed row is in the group of its key — so rows with equal keys (NULLs included: key
    equality is structural, NULL = NULL) share one group *)
Lemma group_insert_mono k r gs k0 r0 :
  (exists rs, In (k0, rs) gs /\ In r0 rs) -> exists rs, In (k0, rs) (group_insert k r gs) /\ In r0 rs.
Proof.
  induction gs as [|[k' rs'] gs IH]; intros (rs & Hin & Hr); [destruct Hin|]. cbn.
  destruct (row_eqb k k') eqn:E.
  - destruct Hin as [X|X].
    + inversion X; subst. exists (rs ++ [r]). split; [left; reflexivity|apply in_or_app; left; exact Hr].
    + exists rs. split; [right; exact X|exact Hr].
  - destruct Hin as [X|X].
    + inversion X; subst. exists rs. split; [left; reflexivity|exact Hr].
    + destruct IH as (rs1 & A & B); [exists rs; split; assumption|]. exists rs1. split; [right; exact A|exact B].
Qed.

Lemma group_insert_has k r gs : exists rs, In (k, rs) (group_insert k r gs) /\ In r rs.
Proof.
  induction gs as [|[k' rs'] gs IH]; cbn.
  - exists [r]. split; left; reflexivity.
  - destruct (row_eqb k k') eqn:E.
    + apply row_eqb_eq in E. subst. exists (rs' ++ [r]). split; [left; reflexivity|apply in_or_app; right; left; reflexivity].
    + destruct IH as (rs & A & B). exists rs. split; [right; exact A|exact B].
Qed.

Theorem group_complete keyed k r : In (k, r) keyed -> exists rs, In (k, rs) (group_rows keyed) /\ In r rs.
Proof.
  unfold group_rows. generalize (@nil (row * list row)).
  induction keyed as [|[k1 r1] keyed IH]; intros gs0 H; [destruct H|]. cbn [fold_left fst snd].
  destruct H as [E|H].
  - inversion E; subst.
    assert (G : forall l gs, (exists rs, In (k, rs) gs /\ In r rs) ->
                exists rs, In (k, rs) (fold_left (fun gs kr => group_insert (fst kr) (snd kr) gs) l gs) /\ In r rs).
    { induction l as [|[k2 r2] l IHl]; intros gs Hg; cbn [fold_left]; [exact Hg|].
      apply IHl. apply group_insert_mono. exact Hg. }
    apply G. apply group_insert_has.
  - apply IH. exact H.
Qed.

Theorem null_keys_one_group keyed r1 r2 k : In (k, r1) keyed -> In (k, r2) keyed ->
  exists rs, In (k, rs) (group_rows keyed) /\ In r1 rs /\ In r2 rs.
Proof.
  intros H1 H2. destruct (group_complete keyed k r1 H1) as (rs1 & A1 & B1).
  destruct (group_complete keyed k r2 H2) as (rs2 & A2 & B2).
  assert (rs1 = rs2).
  { pose proof (group_keys_nodup keyed) as N.
    revert A1 A2 N. generalize (group_rows keyed). induction l as [|[k0 rs0] l IH]; intros A1 A2 N; [destruct A1|].
    cbn in N. inversion N as [|? ? Hnot N']; subst.
    destruct A1 as [X1|X1], A2 as [X2|X2].
    - congruence.
    - inversion X1; subst. exfalso. apply Hnot. apply in_map_iff. exists (k, rs2). split; [reflexivity|exact X2].
    - inversion X2; subst. exfalso. apply Hnot. apply in_map_iff. exists (k, rs1). split; [reflexivity|exact X1].
    - apply IH; assumption. }
  subst. exists rs2. auto.
Qed.

(** * An aggregate query without GROUP BY returns exactly one row, whatever the input *)
Theorem no_group_by_one_row rows flt sels : length (agg_query rows flt [] false sels) = 1%nat.
Proof. reflexivity. Qed.

(** ... and with GROUP BY, one row per distinct key of the rows passing the filter *)
Theorem group_by_row_per_key rows flt keys sels :
  let keyed := map (fun r => (map (col_of r) keys, r)) (filter (passes flt) rows) in
  length (agg_query rows flt keys true sels) = length (group_rows keyed)
  /\ NoDup (map fst (group_rows keyed)).
Proof. cbn zeta. unfold agg_query. rewrite map_length. split; [reflexivity|apply group_keys_nodup]. Qed.

(** * The accumulators agree with the reference evaluator's aggregates (Sem.Rel.eval_agg), which is
    what C01 / C06 compare whole queries with *)
Theorem acc_agrees_with_sem_count d n l : eval_agg ACount d n l = Ok (VInt (spec_count d l)).
Proof. unfold eval_agg, spec_count, dd. destruct d; reflexivity. Qed.

Lemma sum_ints_zsum l : forallb is_numeric l = true -> sum_ints l = Ok (zsum_vals l).
Proof.
  induction l as [|v l IH]; cbn; [reflexivity|]. intros H. apply andb_prop in H. destruct H as [Hv Hl].
  destruct v; try discriminate. rewrite (IH Hl). reflexivity.
Qed.

Theorem acc_agrees_with_sem_sum d n l : all_ints l = true -> eval_agg ASum d n l = Ok (spec_sum d l).
Proof.
  intros H. unfold eval_agg, spec_sum, dd. pose proof (non_null_ints l H) as Hn.
  destruct d.
  - pose proof (zsum_distinct_ints [] _ Hn) as Hd. destruct (distinct_values_acc [] (non_null l)) as [|v vs] eqn:E; [reflexivity|].
    rewrite (sum_ints_zsum _ Hd). reflexivity.
  - destruct (non_null l) as [|v vs] eqn:E; [reflexivity|]. rewrite (sum_ints_zsum _ Hn). reflexivity.
Qed.

(** * Non-vacuity *)
Example acc_examples :
  acc_run FCount false [VInt 4; VNull; VInt 4] = ARVal (VInt 2)
  /\ acc_run FCount true [VInt 4; VNull; VInt 4] = ARVal (VInt 1)
  /\ acc_run FSum true [VInt 4; VNull; VInt 4; VInt 8] = ARVal (VInt 12)
  /\ acc_run FSum false [VNull; VNull] = ARVal VNull
  /\ acc_run FAvg false [VInt 4; VNull; VInt 8] = ARQuot 12 2
  /\ acc_run FMin false [VStr [98]; VNull; VStr [97]] = ARVal (VStr [97])
  /\ acc_run FMax true [VInt 1; VInt 7; VInt 7; VNull] = ARVal (VInt 7)
  /\ agg_query [] None [] false [SCountStar; SAgg FSum false 0] = [[ARVal (VInt 0); ARVal VNull]]
  /\ agg_query [[VNull; VInt 1]; [VNull; VInt 2]; [VInt 3; VNull]] None [0%nat] true [SCountStar; SAgg FCount false 1]
     = [[ARVal VNull; ARVal (VInt 2); ARVal (VInt 2)]; [ARVal (VInt 3); ARVal (VInt 1); ARVal (VInt 0)]].
Proof. repeat split; reflexivity. Qed.
