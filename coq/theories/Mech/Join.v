(** Join mechanisms (C05): nested-loop join, hash join with a multimap built by insertion, semi and
    anti joins (hash_semi_join.rs / hash_anti_join.rs: NULL keys never match; a NULL probe key is kept
    by the anti join), and the NULL-aware anti join that implements NOT IN (subquery_to_join.rs after
    the repair).  Executable definitions only. *)
From Coq Require Import List ZArith Bool.
From VibeSQL Require Import Base.LexOrd Sem.Syntax Sem.Rel.
Import ListNotations.
Open Scope Z_scope.

(** * Nested loop (the definitional evaluation) *)
Definition nested_loop_join (c : row -> row -> bool) (l r : list row) : list row :=
  flat_map (fun x => map (fun y => x ++ y) (filter (c x) r)) l.

Definition nested_semi_join (c : row -> row -> bool) (l r : list row) : list row :=
  filter (fun x => existsb (c x) r) l.

Definition nested_anti_join (c : row -> row -> bool) (l r : list row) : list row :=
  filter (fun x => negb (existsb (c x) r)) l.

(** SQL equality of two key values as a join condition: TRUE only for equal non-NULL values *)
Definition key_eq (a b : value) : bool :=
  match a, b with
  | VNull, _ | _, VNull => false
  | _, _ => value_eqb a b
  end.

(** * Hash table: key -> rows, built by inserting the build side row by row
    (build_hash_table: NULL keys are skipped) *)
Definition table := list (value * list row).

Fixpoint ht_insert (k : value) (y : row) (t : table) : table :=
  match t with
  | [] => [(k, [y])]
  | (k', ys) :: t' => if value_eqb k k' then (k', ys ++ [y]) :: t' else (k', ys) :: ht_insert k y t'
  end.

Definition ht_build (kr : row -> value) (r : list row) : table :=
  fold_left (fun t y => if is_null (kr y) then t else ht_insert (kr y) y t) r [].

Fixpoint ht_lookup (k : value) (t : table) : list row :=
  match t with
  | [] => []
  | (k', ys) :: t' => if value_eqb k k' then ys else ht_lookup k t'
  end.

Definition hash_join (kl kr : row -> value) (l r : list row) : list row :=
  let t := ht_build kr r in
  flat_map (fun x => if is_null (kl x) then [] else map (fun y => x ++ y) (ht_lookup (kl x) t)) l.

Definition hash_semi_join (kl kr : row -> value) (l r : list row) : list row :=
  let t := ht_build kr r in
  filter (fun x => if is_null (kl x) then false else match ht_lookup (kl x) t with [] => false | _ => true end) l.

(** hash_anti_join: a NULL probe key "never matches" and is therefore emitted *)
Definition hash_anti_join (kl kr : row -> value) (l r : list row) : list row :=
  let t := ht_build kr r in
  filter (fun x => if is_null (kl x) then true else match ht_lookup (kl x) t with [] => true | _ => false end) l.

(** * NOT IN as an anti join: the condition is (x = y OR x IS NULL OR y IS NULL) *)
Definition not_in_cond (kl kr : row -> value) (x y : row) : bool :=
  key_eq (kl x) (kr y) || is_null (kl x) || is_null (kr y).

(** the 3VL value of [x NOT IN (values)], TRUE case only *)
Definition not_in_true (x : value) (vs : list value) : bool :=
  forallb (fun v => match sql_compare x v with Ok (Some Eq) => false | Ok (Some _) => true | _ => false end) vs.
