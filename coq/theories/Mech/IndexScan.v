(** Index range scan as the repaired execute_index_scan uses it (select/scan/index_scan/execution.rs,
    storage range_scan): a range over the index keys — ordered with NULL first — yields CANDIDATE rows;
    the WHERE clause is then always re-checked on the candidates.  Executable definitions only. *)
From Coq Require Import List ZArith Bool.
From VibeSQL Require Import Base.LexOrd Sem.Syntax Sem.Rel Mech.IndexOrder.
Import ListNotations.
Open Scope Z_scope.

Inductive bound : Type := Unbounded | Incl (v : value) | Excl (v : value).

(** membership of an index key in a range of the BTreeMap (keys ordered by [idx_value_compare]) *)
Definition above (lo : bound) (k : value) : bool :=
  match lo with
  | Unbounded => true
  | Incl v => match idx_value_compare k v with Lt => false | _ => true end
  | Excl v => match idx_value_compare k v with Gt => true | _ => false end
  end.
Definition below (hi : bound) (k : value) : bool :=
  match hi with
  | Unbounded => true
  | Incl v => match idx_value_compare k v with Gt => false | _ => true end
  | Excl v => match idx_value_compare k v with Lt => true | _ => false end
  end.
Definition in_range (lo hi : bound) (k : value) : bool := above lo k && below hi k.

(** extract_range_predicate for [col op literal] *)
Definition range_of (op : binop) (lit : value) : bound * bound :=
  match op with
  | OEq => (Incl lit, Incl lit)
  | OLt => (Unbounded, Excl lit)
  | OLe => (Unbounded, Incl lit)
  | OGt => (Excl lit, Unbounded)
  | OGe => (Incl lit, Unbounded)
  | _ => (Unbounded, Unbounded)
  end.

(** rows fetched through the index for a range on column [col] *)
Definition index_candidates (col : nat) (r : bound * bound) (rows : list row) : list row :=
  filter (fun x => in_range (fst r) (snd r) (nth col x VNull)) rows.

(** the repaired path: candidates, then the full WHERE re-check *)
Definition index_path (col : nat) (r : bound * bound) (where_ : row -> bool) (rows : list row) : list row :=
  filter where_ (index_candidates col r rows).

(** the pre-repair path skipped the re-check when the WHERE clause was "fully satisfied" by the range *)
Definition index_path_unchecked (col : nat) (r : bound * bound) (rows : list row) : list row :=
  index_candidates col r rows.

(** the predicate [col op lit] under 3VL, TRUE case *)
Definition cmp_true (col : nat) (op : binop) (lit : value) (x : row) : bool :=
  match eval_binop op (nth col x VNull) lit with Ok v => is_true v | Err _ => false end.
