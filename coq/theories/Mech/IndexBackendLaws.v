(** C16: the two backends' glue computes the same thing — removing one row's entry leaves every
    other row of the same key in place, and a bound on the first column selects exactly the keys
    between [lo] and the successor prefix [hi + 1) — with refuting witnesses for the code as first
    written (delete-all-row-ids-of-the-key; inclusive whole-key end bound). *)
From Coq Require Import List ZArith Bool Lia.
From VibeSQL Require Import Base.LexOrd Mech.IndexBackend.
Import ListNotations.
Open Scope Z_scope.

Lemma key_eqb_eq a b : key_eqb a b = true <-> a = b.
Proof.
  unfold key_eqb. split.
  - destruct (lex_compare a b) eqn:E; try discriminate. intros _. apply lex_compare_eq_iff. exact E.
  - intros ->. rewrite lex_compare_refl. reflexivity.
Qed.

Lemma entry_eqb_eq a b : entry_eqb a b = true <-> a = b.
Proof.
  unfold entry_eqb. destruct a as [ka ra], b as [kb rb]. cbn [fst snd]. rewrite andb_true_iff, key_eqb_eq, Z.eqb_eq.
  split; [intros [-> ->]; reflexivity|intros H; inversion H; auto].
Qed.

Lemma filter_all_id {A} (f : A -> bool) l : (forall x, In x l -> f x = true) -> filter f l = l.
Proof.
  induction l as [|x l IH]; cbn; intros H; [reflexivity|].
  rewrite (H x (or_introl eq_refl)). f_equal. apply IH. intros y Hy. apply H. right. exact Hy.
Qed.

(** * removal *)
Theorem remove_one_keeps_others k r ix e : e <> (k, r) -> In e ix -> In e (disk_remove_one k r ix).
Proof.
  intros Hne. induction ix as [|x ix IH]; cbn; [auto|]. intros [->|Hin].
  - destruct (entry_eqb e (k, r)) eqn:E; [apply entry_eqb_eq in E; contradiction|left; reflexivity].
  - destruct (entry_eqb x (k, r)); [exact Hin|right; apply IH; exact Hin].
Qed.

Theorem remove_one_only_removes k r ix e : In e (disk_remove_one k r ix) -> In e ix.
Proof.
  induction ix as [|x ix IH]; cbn; [auto|]. destruct (entry_eqb x (k, r)); [intros H; right; exact H|].
  intros [->|H]; [left; reflexivity|right; apply IH; exact H].
Qed.

(** when a row id occurs once under a key (the maintained invariant), the repaired disk removal
    and the in-memory removal are the same function *)
Theorem remove_one_eq_mem k r ix : NoDup ix -> disk_remove_one k r ix = mem_remove k r ix.
Proof.
  unfold mem_remove. induction ix as [|x ix IH]; intros N; cbn; [reflexivity|].
  inversion N as [|? ? Hx N']; subst.
  destruct (entry_eqb x (k, r)) eqn:E; cbn [negb].
  - apply entry_eqb_eq in E. subst.
    symmetry. apply filter_all_id. intros y Hy.
    destruct (entry_eqb y (k, r)) eqn:E2; [apply entry_eqb_eq in E2; subst; contradiction|reflexivity].
  - rewrite (IH N'). reflexivity.
Qed.

(** lookups of the other rows of the key survive an update of one row *)
Theorem update_keeps_other_rows old new r r' ix : r' <> r -> In (old, r') ix ->
  In r' (lookup old (update_entry disk_remove_one old new r ix)).
Proof.
  intros Hr Hin. unfold update_entry. destruct (key_eqb old new) eqn:E.
  - unfold lookup. apply in_map_iff. exists (old, r'). split; [reflexivity|]. apply filter_In. split; [exact Hin|].
    cbn. apply key_eqb_eq. reflexivity.
  - unfold lookup. apply in_map_iff. exists (old, r'). split; [reflexivity|]. apply filter_In. split.
    + apply in_or_app. left. apply remove_one_keeps_others; [intros X; inversion X; contradiction|exact Hin].
    + cbn. apply key_eqb_eq. reflexivity.
Qed.

(** the code as first written loses them *)
Theorem remove_all_refuted : exists old new r r' ix,
  r' <> r /\ In (old, r') ix /\ ~ In r' (lookup old (update_entry disk_remove_all old new r ix)).
Proof.
  exists [5], [6], 0, 1, [([5], 0); ([5], 1)]. split; [discriminate|]. split; [right; left; reflexivity|].
  vm_compute. intros [].
Qed.

(** * first-column bounds *)
Lemma lex_prefix_lt v k : first k <= v -> k <> [] -> lex_compare k [v + 1] = Lt.
Proof.
  intros H Hk. destruct k as [|a rest]; [congruence|]. cbn in H. cbn [lex_compare].
  destruct (Z.compare_spec a (v + 1)); try lia. reflexivity.
Qed.

Lemma lex_prefix_ge v k : v < first k -> k <> [] -> lex_compare k [v + 1] <> Lt.
Proof.
  intros H Hk. destruct k as [|a rest]; [congruence|]. cbn in H. cbn [lex_compare].
  destruct (Z.compare_spec a (v + 1)); try lia; [|discriminate].
  destruct rest; cbn; discriminate.
Qed.

Lemma lex_start lo k : k <> [] -> (lex_compare [lo] k <> Gt <-> lo <= first k).
Proof.
  intros Hk. destruct k as [|a rest]; [congruence|]. cbn [lex_compare first].
  destruct (Z.compare_spec lo a); split; intros X; try lia; try discriminate; try congruence.
  destruct rest; cbn in *; congruence.
Qed.

Theorem successor_bound_exact lo hi k : k <> [] ->
  in_key_range [lo] [hi + 1] false k = in_first_range lo hi k.
Proof.
  intros Hk. unfold in_key_range, in_first_range.
  destruct (Z.leb_spec lo (first k)) as [L|L]; destruct (Z.leb_spec (first k) hi) as [U|U]; cbn [andb].
  - assert (S : lex_compare [lo] k <> Gt) by (apply lex_start; assumption).
    rewrite (lex_prefix_lt hi k U Hk). destruct (lex_compare [lo] k); try congruence; reflexivity.
  - pose proof (lex_prefix_ge hi k U Hk) as G.
    destruct (lex_compare [lo] k); destruct (lex_compare k [hi + 1]); try congruence; reflexivity.
  - assert (S : ~ lex_compare [lo] k <> Gt) by (rewrite lex_start by assumption; lia).
    destruct (lex_compare [lo] k); try reflexivity; exfalso; apply S; discriminate.
  - assert (S : ~ lex_compare [lo] k <> Gt) by (rewrite lex_start by assumption; lia).
    destruct (lex_compare [lo] k); try reflexivity; exfalso; apply S; discriminate.
Qed.

(** both backends, scanning [lo] .. [hi + 1), return exactly the rows whose first column is in range *)
Theorem scan_succ_exact lo hi ix : (forall e, In e ix -> fst e <> []) -> scan_succ lo hi ix = scan_spec lo hi ix.
Proof.
  intros H. unfold scan_succ, scan_spec. f_equal. apply filter_ext_in. intros e He.
  apply successor_bound_exact. apply H. exact He.
Qed.

(** the inclusive whole-key end bound of the code as first written drops every multi-column key
    whose first column equals the bound *)
Theorem inclusive_end_refuted : exists lo hi ix,
  (forall e, In e ix -> fst e <> []) /\ disk_scan_v1 lo hi ix <> scan_spec lo hi ix.
Proof.
  exists 0, 2, [([1; 7], 10); ([2; 3], 11)]. split.
  - intros e [<-|[<-|[]]]; discriminate.
  - vm_compute. discriminate.
Qed.

(** on single-column keys the two bounds agree (why the defect needed a multi-column index) *)
Theorem inclusive_end_single_column lo hi a :
  in_key_range [lo] [hi] true [a] = in_first_range lo hi [a].
Proof.
  unfold in_key_range, in_first_range. cbn [lex_compare first].
  destruct (Z.compare_spec lo a); destruct (Z.compare_spec a hi);
    destruct (Z.leb_spec lo a); destruct (Z.leb_spec a hi); cbn; try reflexivity; try lia.
Qed.

Example backend_example :
  let ix := [([1; 7], 10); ([2; 3], 11); ([2; 9], 12); ([3; 0], 13)] in
  scan_succ 1 2 ix = [10; 11; 12] /\ scan_spec 1 2 ix = [10; 11; 12] /\ disk_scan_v1 1 2 ix = [10]
  /\ lookup [2; 9] (update_entry disk_remove_one [2; 3] [5; 5] 11 ix) = [12].
Proof. repeat split; reflexivity. Qed.
