(** Correspondence runner for C26: compares the implementation's observations with the model.
    - privilege histories: per operation the result code, and the whole grant table after the history
      ([Store.Priv.step] / [exec]);
    - access paths: per (path, held privileges) the outcome and the set of changed tables ([Store.PrivPaths.run]).
    Executable definitions only. *)
From Coq Require Import List Bool String ZArith.
From VibeSQL Require Import Store.Priv Store.PrivPaths.
Import ListNotations.
Open Scope Z_scope.

(** ** histories *)
Definition error_code (e : error) : Z :=
  match e with
  | ETableNotFound => 1 | ESchemaNotFound => 2 | ERoleNotFound => 3 | ERoleExists => 4
  | EDependentPrivileges => 5 | EPermissionDenied => 6
  end.
Definition result_code (r : result) : Z :=
  match r with ROk => 0 | RErr e => error_code e | RCrash => 9 end.

Definition objtype_code (o : objtype) : Z :=
  match o with
  | OTable => 0 | OSchema => 1 | ODomain => 2 | OCollation => 3 | OCharacterSet => 4 | OTranslation => 5
  | OType => 6 | OSequence => 7 | OFunction => 8 | OProcedure => 9 | ORoutine => 10 | OMethod => 11
  | OConstructorMethod => 12 | OStaticMethod => 13 | OInstanceMethod => 14 | OSpecificFunction => 15
  | OSpecificProcedure => 16 | OSpecificRoutine => 17 | OSpecificMethod => 18
  | OSpecificConstructorMethod => 19 | OSpecificStaticMethod => 20 | OSpecificInstanceMethod => 21
  end.

Definition grant_eqb (a b : grant) : bool :=
  String.eqb (g_object a) (g_object b) && (objtype_code (g_otype a) =? objtype_code (g_otype b)) &&
  priv_eqb (g_priv a) (g_priv b) && String.eqb (g_grantee a) (g_grantee b) &&
  String.eqb (g_grantor a) (g_grantor b) && Bool.eqb (g_wgo a) (g_wgo b).

Fixpoint grants_eqb (a b : list grant) : bool :=
  match a, b with
  | [], [] => true
  | x :: a', y :: b' => grant_eqb x y && grants_eqb a' b'
  | _, _ => false
  end.

Fixpoint zs_eqb (a b : list Z) : bool :=
  match a, b with
  | [], [] => true
  | x :: a', y :: b' => (x =? y) && zs_eqb a' b'
  | _, _ => false
  end.

Record hcase : Type := mkH {
  h_id : Z;
  h_tables : list string;
  h_schemas : list string;
  h_ops : list op;
  h_results : list Z;         (* observed, one code per operation *)
  h_grants : list grant }.    (* observed grant table after the last operation *)

(** a crash ends the process: the history stops at the first [RCrash] the model predicts as well *)
Definition hcase_ok (c : hcase) : bool :=
  let s0 := init_state (h_tables c) (h_schemas c) in
  zs_eqb (map result_code (results s0 (h_ops c))) (h_results c) &&
  grants_eqb (st_grants (exec s0 (h_ops c))) (h_grants c).

Definition c26_history_mismatches (cs : list hcase) : list Z :=
  flat_map (fun c => if hcase_ok c then [] else [h_id c]) cs.

(** ** access paths *)
Definition tbl_code (t : tbl) : Z :=
  match t with TT => 0 | TS => 1 | TM => 2 | TV => 3 | TC => 4 | TU => 5 | TP => 6 | TD => 7 end.

Definition event_tbl (e : event) : option tbl :=
  match e with ERead _ => None | EWrite t _ => Some t | ERef t => Some t end.

Definition all_tbls : list tbl := [TT; TS; TM; TV; TC; TU; TP; TD].

(** codes of the tables a run changes, ascending *)
Definition changed_codes (ev : list event) : list Z :=
  flat_map (fun t => if existsb (fun e => match event_tbl e with Some t' => tbl_eqb t t' | None => false end) ev
                     then [tbl_code t] else []) all_tbls.

Definition outcome_code (o : outcome) : Z := match o with OOk => 0 | ODenied => 6 end.

Record pcase : Type := mkP {
  p_id : Z;
  p_path : path;
  p_held : list (tbl * access);
  p_outcome : Z;              (* observed: 0 ok, 6 permission denied, 7 anything else *)
  p_changed : list Z;         (* observed: codes of the tables whose contents differ afterwards, ascending *)
  p_required : list (tbl * access) }.   (* the harness's own copy of the requirement list *)

Definition same_pairs (a b : list (tbl * access)) : bool :=
  forallb (fun x => memp x b) a && forallb (fun x => memp x a) b.

Definition pcase_ok (c : pcase) : bool :=
  let r := run (held_of (p_held c)) (program (p_path c)) in
  (outcome_code (fst r) =? p_outcome c) && zs_eqb (changed_codes (snd r)) (p_changed c) &&
  same_pairs (required (p_path c)) (p_required c).

Definition c26_path_mismatches (cs : list pcase) : list Z :=
  flat_map (fun c => if pcase_ok c then [] else [p_id c]) cs.
