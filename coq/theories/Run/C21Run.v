(** Correspondence runner for C21: compares the implementation's observed [==], [partial_cmp],
    [cmp] and recorded hash bytes with the model's.  Executable definitions only. *)
From Coq Require Import List ZArith Bool.
From VibeSQL Require Import Base.LexOrd Value.SqlValue.
Import ListNotations.
Open Scope Z_scope.

Definition cmp_code (c : comparison) : Z := match c with Lt => 1 | Eq => 2 | Gt => 3 end.
Definition pcmp_code (c : option comparison) : Z := match c with None => 0 | Some c => cmp_code c end.
Definition pair_code (a b : sqlvalue) : Z :=
  (if eqb a b then 100 else 0) + 10 * pcmp_code (pcmp a b) + cmp_code (cmp a b).

Fixpoint zip_idx {A} (i : Z) (l : list A) : list (Z * A) :=
  match l with [] => [] | x :: r => (i, x) :: zip_idx (i + 1) r end.

Definition list_eqb (a b : list Z) : bool := match lex_compare a b with Eq => true | _ => false end.

(** ids: pair (i,j) -> base + i*n + j ; hash of i -> base + n*n + i ; wf of i -> base + n*n + n + i *)
Definition c21_mismatches (base : Z) (vals : list sqlvalue) (hashes : list (list Z)) (obs : list (list Z)) : list Z :=
  let n := Z.of_nat (length vals) in
  let pairs :=
    flat_map (fun '(i, (a, row)) =>
      flat_map (fun '(j, (b, code)) =>
        if pair_code a b =? code then [] else [base + i * n + j])
        (zip_idx 0 (combine vals row)))
      (zip_idx 0 (combine vals obs)) in
  let hs :=
    flat_map (fun '(i, (a, h)) => if list_eqb (hash_key a) h then [] else [base + n * n + i])
      (zip_idx 0 (combine vals hashes)) in
  let wfs :=
    flat_map (fun '(i, a) => if wf a then [] else [base + n * n + n + i]) (zip_idx 0 vals) in
  let shape :=
    if (Z.of_nat (length obs) =? n) && (Z.of_nat (length hashes) =? n)
       && forallb (fun row => Z.of_nat (length row) =? n) obs then [] else [base - 1] in
  shape ++ pairs ++ hs ++ wfs.
