(** Correspondence runner for C12: replays a history on the model ([Store.Fk.step]) and compares,
    after EVERY statement, the implementation's result code, the rows of every existing table in
    storage order (`Table::scan()`), and the verdict of the harness's independent
    referential-integrity checker with the model ([ri_b] on the model's state).
    Executable definitions only. *)
From Coq Require Import List ZArith Bool Arith.
From VibeSQL Require Import Store.Fk.
Import ListNotations.
Local Open Scope Z_scope.

(** rows travel as [list Z] with a sentinel for NULL (never generated as a value) *)
Definition NULLC : Z := -7777777.
Definition dv (z : Z) : val := if z =? NULLC then None else Some z.
Definition dr (l : list Z) : row := map dv l.
Definition drs (l : list (list Z)) : list row := map dr l.

(** result codes: n >= 0 rows affected / done, -1 any error, -2 panic, -3 stack overflow (abort) *)
Definition result_code (r : result) : Z :=
  match r with
  | ROk n => Z.of_nat n
  | RErr _ => -1
  | RPanic => -2
  | RCrash => -3
  end.

(** the shards write every number as a Z literal *)
Definition zn (z : Z) : nat := Z.to_nat z.
Definition zns (l : list Z) : list nat := map zn l.

(** observation after a statement: code, every existing table (name, number of foreign keys,
    rows in storage order), RI verdict of the harness's own checker *)
Definition obs := (Z * list (Z * Z * list (list Z)) * bool)%type.

(** a step of which only the result code is observed (the engine's state is outside the model
    afterwards: refused cyclic ADD FOREIGN KEY); such a step ends its history *)
Definition code_only (tabs : list (Z * Z * list (list Z))) : bool :=
  match tabs with
  | [(n, _, _)] => n =? -1
  | _ => false
  end.

Definition obs_ok (d : db) (r : result) (o : obs) : bool :=
  let '(code, tabs, ri) := o in
  (result_code r =? code)
  && (code_only tabs ||
  Nat.eqb (length d) (length tabs)
  && forallb (fun p => let '(n, nf, rows) := p in
                       match get_table d (zn n) with
                       | Some t => Nat.eqb (length (t_fks t)) (zn nf) && rows_eqb (t_rows t) (drs rows)
                       | None => false end) tabs
  && Bool.eqb (ri_b d) ri).

(** one step of a history: the catalog order (`list_tables()`) before the statement, the
    statement, the observation after it *)
Definition hstep := (list Z * stmt * obs)%type.

(** replay; the comparison of a history stops at its first disagreement (the model state is
    meaningless afterwards).  Case id of statement j of a history = base + j.  After a crash
    (the process is gone) only the result code is compared and the history ends. *)
Fixpoint run_cmp (base : Z) (d : db) (hs : list hstep) (j : Z) : list Z :=
  match hs with
  | [] => []
  | (ord, s, o) :: hs' =>
      let '((d', _), r) := step (zns ord) d s in
      match r with
      | RCrash => if fst (fst o) =? -3 then [] else [base + j]
      | _ => if obs_ok d' r o then run_cmp base d' hs' (j + 1) else [base + j]
      end
  end.

Definition history := (Z * db * list hstep)%type.

Definition c12_mismatches (hs : list history) : list Z :=
  flat_map (fun h => let '(base, d0, steps) := h in run_cmp base d0 steps 0) hs.

(** literals used by the shards (constructor functions: elaborating bare nested tuples against
    the type abbreviations is slow) *)
Definition TB (n nf : Z) (rows : list (list Z)) : (Z * Z * list (list Z)) := (n, nf, rows).
Definition HS (ord : list Z) (s : stmt) (code : Z) (tabs : list (Z * Z * list (list Z))) (ri : bool) : hstep :=
  (ord, s, (code, tabs, ri)).
Definition HSC (ord : list Z) (s : stmt) (code : Z) : hstep := (ord, s, (code, [(-1, -1, [])], true)).
Definition HI (base : Z) (d0 : db) (steps : list hstep) : history := (base, d0, steps).
Definition AS (c : Z) (e : expr) : (Z * expr) := (c, e).
Definition CD (nullable : bool) (default : Z) : (bool * Z) := (nullable, default).

Definition FK (cols : list Z) (parent : Z) (pcols : list Z) (ondel onupd : action) : fkdecl :=
  mkFk (zns cols) (zn parent) (zns pcols) ondel onupd.
(** columns: (nullable, default or NULLC) *)
Definition T (name : Z) (cols : list (bool * Z)) (pk : option (list Z)) (fks : list fkdecl) : table :=
  mkTable (zn name) (map (fun c => mkCol (fst c) (dv (snd c))) cols)
          (match pk with Some l => Some (zns l) | None => None end) fks [].
Definition INS (t : Z) (rows : list (list Z)) : stmt := SInsert (zn t) (drs rows).
Definition INSSEL (dst src : Z) (simple : bool) (sel : list (list Z)) : stmt :=
  SInsertSelect (zn dst) (zn src) simple (drs sel).
Definition UPD (t : Z) (asg : list (Z * expr)) (w : option pred) : stmt :=
  SUpdate (zn t) (map (fun a => (zn (fst a), snd a)) asg) w.
Definition DEL (t : Z) (w : option pred) : stmt := SDelete (zn t) w.
Definition TRUNC (t : Z) (c : bool) : stmt := STruncate (zn t) c.
Definition DROP (t : Z) : stmt := SDropTable (zn t).
Definition ADDFK (t : Z) (fk : fkdecl) : stmt := SAddFk (zn t) fk.
Definition LIT (z : Z) : expr := ELit (dv z).
Definition COL (c : Z) : expr := ECol (zn c).
Definition ADD (c k : Z) : expr := EAdd (zn c) k.
Definition CMP (c : Z) (o : cmpop) (k : Z) : pred := PCmp (zn c) o k.
Definition ISNULL (c : Z) : pred := PIsNull (zn c).
