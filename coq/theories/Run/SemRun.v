(** Correspondence runner for the reference-semantics properties: compares the executor's observed
    result for a query with [Sem.Eval.run_query].  Executable definitions only. *)
From Coq Require Import List ZArith Bool.
From VibeSQL Require Import Base.LexOrd Sem.Syntax Sem.Rel Sem.Eval.
Import ListNotations.
Open Scope Z_scope.

Inductive obs : Type :=
| ObsRows (rows : list row)
| ObsErr
| ObsPanic.

Definition canon_le (a b : row) : bool := match row_compare a b with Gt => false | _ => true end.
Definition canon (l : list row) : list row := sort_rows canon_le l.

Fixpoint rows_eqb (a b : list row) : bool :=
  match a, b with
  | [], [] => true
  | x :: a', y :: b' => row_eqb x y && rows_eqb a' b'
  | _, _ => false
  end.

Definition bag_eqb (a b : list row) : bool := rows_eqb (canon a) (canon b).

Fixpoint bag_subset (a b : list row) : bool :=
  match a with
  | [] => true
  | x :: a' => match remove_one x b with Some b' => bag_subset a' b' | None => false end
  end.

Definition strip_limit (q : query) : query :=
  match q with
  | QSelect d f w g h p o _ _ => QSelect d f w g h p o None None
  | _ => q
  end.

Definition order_of (q : query) : list (nat * bool) :=
  match q with QSelect _ _ _ _ _ _ o _ _ => o | _ => [] end.

Definition has_limit (q : query) : bool :=
  match q with
  | QSelect _ _ _ _ _ _ _ (Some _) _ => true
  | QSelect _ _ _ _ _ _ _ _ (Some _) => true
  | _ => false
  end.

Definition key_row (o : list (nat * bool)) (r : row) : row := map (fun p => nth (fst p) r VNull) o.

(** agreement of an observed row sequence with the reference result:
    - no ORDER BY: equal as bags;
    - ORDER BY: equal as bags and the observed sequence of sort keys equals the reference's
      (rows tied on every key may appear in any order);
    - with LIMIT/OFFSET: the key sequences are equal and the observed rows form a sub-bag of the
      un-limited reference result (ties at the cut may be resolved either way). *)
Definition agree (d : db) (q : query) (expect got : list row) : bool :=
  let o := order_of q in
  let keys_ok := match o with [] => true | _ => rows_eqb (map (key_row o) expect) (map (key_row o) got) end in
  if has_limit q then
    keys_ok && Nat.eqb (length expect) (length got) &&
    match run_query d (strip_limit q) with Ok full => bag_subset got full | Err _ => false end
  else keys_ok && bag_eqb expect got.

Definition check_case (d : db) (q : query) (o : obs) : bool :=
  match run_query d q, o with
  | Ok rows, ObsRows got => agree d q rows got
  | Err _, ObsErr => true
  | _, _ => false
  end.

Definition sem_mismatches (l : list (db * list (Z * query * obs))) : list Z :=
  flat_map (fun dc : db * list (Z * query * obs) =>
              let (d, cs) := dc in
              flat_map (fun c : Z * query * obs =>
                          let '(id, q, o) := c in
                          if check_case d q o then [] else [id]) cs) l.

(** for diagnostics: what the reference computes *)
Definition sem_expected (d : db) (q : query) : res (list row) := run_query d q.
