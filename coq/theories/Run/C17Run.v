(** Correspondence runner for C17: replays the harness's operation histories on the model
    (Store/BTree.v) and compares every answer, the reported degree, and the final page dump of the
    real index with the model's tree.  Executable definitions only. *)
From Coq Require Import List ZArith Bool Arith.
From VibeSQL Require Import Store.BTree Store.BTreeLemmas Store.BTreeCheck.
Import ListNotations.

Record c17case := mkCase {
  cid : Z;                          (* base id; +0 answers, +1 final structure, +2 construction, +3 degree *)
  cdeg : nat;                       (* BTreeIndex::degree() *)
  cvarl : Z;                        (* n of the VARCHAR(n) key column *)
  cksz : Z;                         (* serialised size of every key of this case (fixed-width strings) *)
  cbulk : bool;                     (* bulk_load (true) or new (false) *)
  cfixed : bool;                    (* the implementation's bulk_load shows the repaired separator rule *)
  cguard : bool;                    (* the implementation's rebalancing shows the single-child guard *)
  cinit : list (key * rowid);       (* bulk_load input *)
  cinit_obs : answer;               (* AUnit or AErr _ *)
  cops : list op;
  cobs : list answer;               (* the implementation's answers *)
  cdump : option tree               (* page dump after the last operation (None after an error) *)
}.

Definition is_panic (e : err) : bool := match e with Panic => true | _ => false end.

Fixpoint list_eqb {A} (eqb : A -> A -> bool) (a b : list A) : bool :=
  match a, b with
  | [], [] => true
  | x :: a', y :: b' => eqb x y && list_eqb eqb a' b'
  | _, _ => false
  end.

(** Rust's [Err(StorageError)] is one class (PageOverflow/BadPage), a panic another *)
Definition answer_eqb (a b : answer) : bool :=
  match a, b with
  | AUnit, AUnit => true
  | ABool x, ABool y => Bool.eqb x y
  | ARows x, ARows y => list_eqb Z.eqb x y
  | AErr x, AErr y => Bool.eqb (is_panic x) (is_panic y)
  | _, _ => false
  end.

Definition entry_eqb (a b : entry) : bool := Z.eqb (fst a) (fst b) && list_eqb Z.eqb (snd a) (snd b).

Fixpoint node_eqb (a b : node) : bool :=
  match a, b with
  | Leaf x, Leaf y => list_eqb entry_eqb x y
  | Node k1 c1, Node k2 c2 =>
    list_eqb Z.eqb k1 k2 &&
    (fix go (l1 l2 : list node) : bool :=
       match l1, l2 with
       | [], [] => true
       | x :: r1, y :: r2 => node_eqb x y && go r1 r2
       | _, _ => false
       end) c1 c2
  | _, _ => false
  end.

Definition tree_eqb (a b : tree) : bool := Nat.eqb (height a) (height b) && node_eqb (root a) (root b).

Definition is_mutation (o : op) : bool :=
  match o with
  | OInsert _ _ | ODelete _ | ODeleteOne _ _ => true
  | _ => false
  end.

(** Answers of the model.  The comparison of a history stops (flag) at the first mutation of a tree
    whose separators are not bounds of their subtrees ([WFb 0] fails -- only bulk_load's defective
    separators produce such trees): there [insert_child]'s binary search no longer finds the path's
    child index, the page chain and the in-order sequence of the leaves come apart, and the model --
    which has no page chain -- does not describe later range scans. *)
Fixpoint grun (d : nat) (ksz : key -> Z) (guard : bool) (t : tree) (ops : list op) : list answer * option tree * bool :=
  match ops with
  | [] => ([], Some t, false)
  | o :: r =>
    if is_mutation o && negb (WFb 0 t) then ([], None, true)
    else
      match step d ksz guard t o with
      | Ok (t', a) => let '(l, st, g) := grun d ksz guard t' r in (a :: l, st, g)
      | Err e => ([AErr e], None, false)
      end
  end.

Definition check_case (c : c17case) : list Z :=
  let d := cdeg c in
  let ksz := fun _ : key => cksz c in
  let deg_bad := if (Z.of_nat d =? calc_degree_varchar (cvarl c))%Z then [] else [(cid c + 3)%Z] in
  let init :=
    if cbulk c then (if cfixed c then bulk_load_fixed d ksz (cinit c) else bulk_load d ksz (cinit c))
    else bind (write_leaf ksz []) (fun n => Ok (mkTree n 1)) in
  match init with
  | Err e => (if answer_eqb (AErr e) (cinit_obs c) then [] else [(cid c + 2)%Z]) ++ deg_bad
  | Ok t0 =>
    (if answer_eqb AUnit (cinit_obs c) then
       let '(ans, st, guard) := grun d ksz (cguard c) t0 (cops c) in
       let obs := if guard then firstn (length ans) (cobs c) else cobs c in
       (if list_eqb answer_eqb ans obs then [] else [cid c]) ++
       match st, cdump c with
       | Some t, Some td => if tree_eqb t td then [] else [(cid c + 1)%Z]
       | Some _, None => [(cid c + 1)%Z]
       | None, _ => []
       end
     else [(cid c + 2)%Z]) ++ deg_bad
  end.

Definition c17_mismatches (cs : list c17case) : list Z := flat_map check_case cs.
