(** Correspondence runner for C27: the harness's observations of the real
    [FrontendMessage::decode] / [decode_startup] (single calls and chunked streams) against the model,
    and the harness's reference decoder against [spec_decode] / [spec_decode_startup].
    Executable definitions only. *)
From Coq Require Import List ZArith Bool.
From VibeSQL Require Import Base.LexOrd Codec.Wire Codec.WireSpec.
Import ListNotations.
Open Scope Z_scope.

(** HashMap content as a key-sorted association list (the harness prints a BTreeMap) *)
Fixpoint ins_sorted (kv : bytes * bytes) (l : list (bytes * bytes)) : list (bytes * bytes) :=
  match l with
  | [] => [kv]
  | x :: r => match lex_compare (fst kv) (fst x) with
              | Gt => x :: ins_sorted kv r
              | _ => kv :: l
              end
  end.
Definition sort_params (l : list (bytes * bytes)) : list (bytes * bytes) := fold_right ins_sorted [] l.

Fixpoint params_eqb (a b : list (bytes * bytes)) : bool :=
  match a, b with
  | [], [] => true
  | (k, v) :: a', (k', v') :: b' => beqb k k' && beqb v v' && params_eqb a' b'
  | _, _ => false
  end.

Definition fmsg_eqb (a b : fmsg) : bool :=
  match a, b with
  | FStartup v ps, FStartup v' ps' => (v =? v') && params_eqb (sort_params ps) (sort_params ps')
  | FPassword p, FPassword p' => beqb p p'
  | FQuery q, FQuery q' => beqb q q'
  | FTerminate, FTerminate => true
  | FSSLRequest, FSSLRequest => true
  | _, _ => false
  end.

Fixpoint fmsgs_eqb (a b : list fmsg) : bool :=
  match a, b with
  | [], [] => true
  | x :: a', y :: b' => fmsg_eqb x y && fmsgs_eqb a' b'
  | _, _ => false
  end.

(** observation kinds: 0 message, 1 need-more, 2 error, 3 panic *)
Definition obs_matches (o : obs) (kind : Z) (m : option fmsg) (lft : Z) : bool :=
  match o with
  | VMsg m' rest => (kind =? 0) && match m with Some mm => fmsg_eqb m' mm | None => false end && (blen rest =? lft)
  | VNeed rest => (kind =? 1) && (blen rest =? lft)
  | VErr => kind =? 2
  | VPanic => kind =? 3
  | VFuel => false
  end.

(** the harness's reference decoder: [RSame] = it agreed with the implementation on this call *)
Inductive refobs := RSame | RMsg (m : fmsg) (lft : Z) | RNeed | RErr.

Definition agrees_b (o : obs) (b : bytes) (s : outcome) : bool :=
  match s, o with
  | OMsg m rest, VMsg m' rest' => fmsg_eqb m m' && beqb rest rest'
  | ONeedMore, VNeed rest' => beqb b rest'
  | OError, VErr => true
  | _, _ => false
  end.

Definition ref_matches (o : obs) (b : bytes) (s : outcome) (r : refobs) : bool :=
  match r with
  | RSame => agrees_b o b s
  | RMsg m lft => negb (agrees_b o b s)
                   && match s with OMsg m' rest => fmsg_eqb m m' && (blen rest =? lft) | _ => false end
  | RNeed => negb (agrees_b o b s) && match s with ONeedMore => true | _ => false end
  | RErr => negb (agrees_b o b s) && match s with OError => true | _ => false end
  end.

Inductive c27case :=
| CDecode (id : Z) (input : bytes) (kind : Z) (m : option fmsg) (lft : Z) (r : refobs) (known : bool)
| CStartup (id : Z) (input : bytes) (kind : Z) (m : option fmsg) (lft : Z) (r : refobs) (known : bool)
| CStream (id : Z) (input : bytes) (chunks : list Z) (msgs : list fmsg) (kind : Z) (lft : Z).

(** cut [input] into chunks of the given sizes (the remainder, if any, is a last chunk) *)
Fixpoint cut (input : bytes) (sizes : list Z) : list bytes :=
  match sizes with
  | [] => match input with [] => [] | _ => [input] end
  | n :: r => firstn (Z.to_nat n) input :: cut (skipn (Z.to_nat n) input) r
  end.

Definition stream_end_matches (e : stream_end) (kind lft : Z) : bool :=
  match e with
  | SNeed rest => (kind =? 1) && (blen rest =? lft)
  | SErr => kind =? 2
  | SPanic => kind =? 3
  | SFuel => false
  end.

(** [known]: the harness's classifier put the call into one of the known-defect classes; it must be
    the case exactly when the Coq classifier does *)
Definition case_ok (oc : bool) (c : c27case) : bool :=
  match c with
  | CDecode _ input kind m lft r known =>
      let o := observe (decode oc input) in
      obs_matches o kind m lft && ref_matches o input (spec_decode input) r
      && eqb known (known_decode input && negb (agrees_b o input (spec_decode input)))
  | CStartup _ input kind m lft r known =>
      let o := observe (decode_startup input) in
      obs_matches o kind m lft && ref_matches o input (spec_decode_startup input) r
      && eqb known (known_startup input && negb (agrees_b o input (spec_decode_startup input)))
  | CStream _ input chunks msgs kind lft =>
      let '(ms, e) := feed oc [] (cut input chunks) in
      fmsgs_eqb ms msgs && stream_end_matches e kind lft
  end.

Definition case_id (c : c27case) : Z :=
  match c with
  | CDecode id _ _ _ _ _ _ => id
  | CStartup id _ _ _ _ _ _ => id
  | CStream id _ _ _ _ _ => id
  end.

Definition c27_mismatches (oc : bool) (cases : list c27case) : list Z :=
  flat_map (fun c => if case_ok oc c then [] else [case_id c]) cases.
