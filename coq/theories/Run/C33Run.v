(** Correspondence runner for C33: replays a DDL/DML history on the model of Store/Catalog.v and
    compares, after every statement, the result code and the complete observation of the four
    registries (catalog tables with both schema copies, stored tables with their rows, catalog
    indexes, storage indexes with their entries, [SELECT *] answers) with what the implementation
    showed.  HashMap / BTreeMap iteration order and the row order of [SELECT *] are not compared.
    Executable definitions only. *)
From Coq Require Import String Ascii.
From Coq Require Import List ZArith Bool Arith.
From VibeSQL Require Import Store.Catalog.
Import ListNotations.
Open Scope list_scope.
Open Scope Z_scope.

(** names are written as string literals in the case files *)
Fixpoint cs (s : string) : name :=
  match s with
  | EmptyString => []
  | String a r => Z.of_nat (nat_of_ascii a) :: cs r
  end.

(** what the harness reads off a [TableSchema]: the private column-index cache is observed through
    [get_column_index] on a fixed probe set of names *)
Record oschema := mkos {
  os_name : name;
  os_cols : list column;
  os_pk : option (list name);
  os_uniques : list (list name);
  os_checks : list (name * name);
  os_probe : list (name * option nat)
}.

Record ostate := mkobs {
  o_cat : list oschema;                          (* catalog.list_tables() + get_table *)
  o_tabs : list (name * oschema * list row);     (* db.tables: key, schema, rows in storage order *)
  o_cidx : list cindex;                          (* catalog.list_all_indexes() *)
  o_sidx : list (name * sindex);                 (* db.list_indexes() keys + metadata + entries *)
  o_sel : list (name * option (list row))        (* SELECT * FROM <name>; None = error *)
}.

Inductive obs := Same | Full (o : ostate).

Definition col_eqb (a b : column) : bool :=
  name_eqb (c_name a) (c_name b) && Bool.eqb (c_nullable a) (c_nullable b)
  && match c_default a, c_default b with
     | None, None => true
     | Some x, Some y => x =? y
     | _, _ => false
     end.

Fixpoint list_eqb {A} (e : A -> A -> bool) (a b : list A) : bool :=
  match a, b with
  | [], [] => true
  | x :: a', y :: b' => e x y && list_eqb e a' b'
  | _, _ => false
  end.

Definition opt_eqb {A} (e : A -> A -> bool) (a b : option A) : bool :=
  match a, b with
  | None, None => true
  | Some x, Some y => e x y
  | _, _ => false
  end.

Definition names_eq := list_eqb name_eqb.

Definition schema_matches (m : tschema) (o : oschema) : bool :=
  name_eqb (ts_name m) (os_name o)
  && list_eqb col_eqb (ts_cols m) (os_cols o)
  && opt_eqb names_eq (ts_pk m) (os_pk o)
  && list_eqb names_eq (ts_uniques m) (os_uniques o)
  && list_eqb (fun a b => name_eqb (fst a) (fst b) && name_eqb (snd a) (snd b)) (ts_checks m) (os_checks o)
  && forallb (fun p => opt_eqb Nat.eqb (get_column_index m (fst p)) (snd p)) (os_probe o).

(** two lists describe the same collection when they have the same length and every element of
    either has a partner in the other *)
Definition same_set {A B} (r : A -> B -> bool) (a : list A) (b : list B) : bool :=
  Nat.eqb (length a) (length b)
  && forallb (fun x => existsb (fun y => r x y) b) a
  && forallb (fun y => existsb (fun x => r x y) a) b.

Definition row_eqb (a b : row) : bool := key_eqb a b.
Definition rows_eqb (a b : list row) : bool := list_eqb row_eqb a b.

Definition count_row (r : row) (l : list row) : nat := length (filter (row_eqb r) l).
Definition bag_eqb (a b : list row) : bool :=
  Nat.eqb (length a) (length b) && forallb (fun r => Nat.eqb (count_row r a) (count_row r b)) (a ++ b).

Definition cindex_eqb (a b : cindex) : bool :=
  name_eqb (ci_name a) (ci_name b) && name_eqb (ci_table a) (ci_table b)
  && names_eq (ci_cols a) (ci_cols b) && Bool.eqb (ci_unique a) (ci_unique b).

Definition entry_eqb (a b : list value * list nat) : bool :=
  key_eqb (fst a) (fst b) && list_eqb Nat.eqb (snd a) (snd b).

Definition sindex_eqb (a b : name * sindex) : bool :=
  name_eqb (fst a) (fst b)
  && name_eqb (si_name (snd a)) (si_name (snd b)) && name_eqb (si_table (snd a)) (si_table (snd b))
  && Bool.eqb (si_unique (snd a)) (si_unique (snd b)) && names_eq (si_cols (snd a)) (si_cols (snd b))
  && same_set entry_eqb (si_data (snd a)) (si_data (snd b)).

(** component codes of a disagreement: 1 catalog tables, 2 stored tables, 3 catalog indexes,
    4 storage indexes, 5 SELECT * *)
Definition state_diff (s : state) (o : ostate) : list Z :=
  (if same_set (fun p os => schema_matches (snd p) os) (s_cat s) (o_cat o) then [] else [1])
  ++ (if same_set (fun (p : name * table) (q : name * oschema * list row) =>
                     name_eqb (fst p) (fst (fst q)) && schema_matches (t_schema (snd p)) (snd (fst q))
                     && rows_eqb (t_rows (snd p)) (snd q)) (s_tabs s) (o_tabs o) then [] else [2])
  ++ (if same_set (fun (p : name * cindex) c => cindex_eqb (snd p) c && name_eqb (fst p) (ci_key (ci_table c) (ci_name c)))
                  (s_cidx s) (o_cidx o) then [] else [3])
  ++ (if same_set sindex_eqb (s_sidx s) (o_sidx o) then [] else [4])
  ++ (if forallb (fun q => opt_eqb bag_eqb (obs_select s (fst q)) (snd q)) (o_sel o) then [] else [5]).

(** result codes of the harness: n >= 0 Ok (DDL 0, DML affected rows), -1 error, -2 panic *)
Definition code_matches (r : result) (c : Z) : bool :=
  match r with
  | ROk n => c =? n
  | RErr => c =? -1
  | RPanic => c =? -2
  | RNondet => true          (* depends on HashMap order: which entry is taken, or error vs panic *)
  | RUnmodelled => true
  end.

Definition stops (r : result) : bool :=
  match r with RPanic | RNondet | RUnmodelled => true | _ => false end.

(** replays one history; returns (step index, component) of the first disagreement (component 0 =
    result code) *)
Fixpoint replay (s : state) (last : ostate) (i : Z) (steps : list (stmt * Z * obs)) : list (Z * Z) :=
  match steps with
  | [] => []
  | (st, code, ob) :: rest =>
      let '(s', r) := step s st in
      if negb (code_matches r code) then [(i, 0)]
      else if stops r then []
      else
        let o := match ob with Same => last | Full o => o end in
        match state_diff s' o with
        | [] => replay s' o (i + 1) rest
        | d :: _ => [(i, d)]
        end
  end.

Definition empty_obs : ostate := mkobs [] [] [] [] [].

Definition history := (Z * bool * list (stmt * Z * obs))%type.

Definition history_detail (h : history) : list (Z * Z * Z) :=
  let '(id, csm, steps) := h in
  map (fun p => (id, fst p, snd p)) (replay (if csm then init else init_ci) empty_obs 0 steps).

Definition c33_detail (hs : list history) : list (Z * Z * Z) := flat_map history_detail hs.

(** ids of the histories on which the model and the implementation disagree *)
Definition c33_mismatches (hs : list history) : list Z := map (fun t => fst (fst t)) (c33_detail hs).

(* ------------------------------------------------------------------------------------------ *)
(** compact constructors used by the generated case files (names as string literals, NULL and
    "absent" written as -1: the harness only stores non-negative integers) *)
Definition zopt (z : Z) : option Z := if z <? 0 then None else Some z.
Definition znat (z : Z) : option nat := if z <? 0 then None else Some (Z.to_nat z).
Definition C (n : string) (nullable : bool) (d : Z) : column := mkcol (cs n) nullable (zopt d).
Definition R (l : list Z) : row := map zopt l.
Definition OS (n : string) (cols : list column) (pk : list (list string)) (uq : list (list string))
    (ck : list (string * string)) (pr : list (string * Z)) : oschema :=
  mkos (cs n) cols
       (match pk with [] => None | l :: _ => Some (map cs l) end)
       (map (map cs) uq)
       (map (fun p => (cs (fst p), cs (snd p))) ck)
       (map (fun p => (cs (fst p), znat (snd p))) pr).
Definition OT (k : string) (sc : oschema) (rows : list (list Z)) : name * oschema * list row :=
  (cs k, sc, map R rows).
Definition OC (n t : string) (cols : list string) (u : bool) : cindex := mkci (cs n) (cs t) (map cs cols) u.
Definition OI (k n t : string) (u : bool) (cols : list string) (data : list (list Z * list Z)) : name * sindex :=
  (cs k, mksi (cs n) (cs t) u (map cs cols) (map (fun e => (R (fst e), map Z.to_nat (snd e))) data)).
Definition OQ (n : string) (rows : option (list (list Z))) : name * option (list row) :=
  (cs n, match rows with Some l => Some (map R l) | None => None end).
