(** Correspondence runner for C29.  The model of Store/Auth.v is instantiated with the concrete MD5
    (Store/Md5.v) and with ORACLE TABLES for the argon2 crate: the harness calls the argon2 /
    password-hash crates directly (not through PasswordStore) and passes, per scenario,
      - the string each [hash_password_argon2] call produced (the "salt" of the model IS the resulting
        PHC string; an empty salt stands for an Err of the crate),
      - [PasswordHash::new(stored).is_ok()] for every stored "$argon2..." secret that a query reaches,
      - [Argon2::default().verify_password(p, parsed).is_ok()] for every (stored, password) a query reaches.
    Everything else (line splitting, trimming, prefix dispatch, the map, MD5, hex, comparison) is computed
    by the model.  Executable definitions only. *)
From Coq Require Import List ZArith Bool.
From VibeSQL Require Import Generated.Consts Store.Md5 Store.Auth.
Import ListNotations.
Open Scope Z_scope.

(** named constants for the code points / bytes 0..255: the case files refer to them by name because an
    identifier elaborates several times faster than a number notation *)
Definition c0 : Z := 0.
Definition c1 : Z := 1.
Definition c2 : Z := 2.
Definition c3 : Z := 3.
Definition c4 : Z := 4.
Definition c5 : Z := 5.
Definition c6 : Z := 6.
Definition c7 : Z := 7.
Definition c8 : Z := 8.
Definition c9 : Z := 9.
Definition c10 : Z := 10.
Definition c11 : Z := 11.
Definition c12 : Z := 12.
Definition c13 : Z := 13.
Definition c14 : Z := 14.
Definition c15 : Z := 15.
Definition c16 : Z := 16.
Definition c17 : Z := 17.
Definition c18 : Z := 18.
Definition c19 : Z := 19.
Definition c20 : Z := 20.
Definition c21 : Z := 21.
Definition c22 : Z := 22.
Definition c23 : Z := 23.
Definition c24 : Z := 24.
Definition c25 : Z := 25.
Definition c26 : Z := 26.
Definition c27 : Z := 27.
Definition c28 : Z := 28.
Definition c29 : Z := 29.
Definition c30 : Z := 30.
Definition c31 : Z := 31.
Definition c32 : Z := 32.
Definition c33 : Z := 33.
Definition c34 : Z := 34.
Definition c35 : Z := 35.
Definition c36 : Z := 36.
Definition c37 : Z := 37.
Definition c38 : Z := 38.
Definition c39 : Z := 39.
Definition c40 : Z := 40.
Definition c41 : Z := 41.
Definition c42 : Z := 42.
Definition c43 : Z := 43.
Definition c44 : Z := 44.
Definition c45 : Z := 45.
Definition c46 : Z := 46.
Definition c47 : Z := 47.
Definition c48 : Z := 48.
Definition c49 : Z := 49.
Definition c50 : Z := 50.
Definition c51 : Z := 51.
Definition c52 : Z := 52.
Definition c53 : Z := 53.
Definition c54 : Z := 54.
Definition c55 : Z := 55.
Definition c56 : Z := 56.
Definition c57 : Z := 57.
Definition c58 : Z := 58.
Definition c59 : Z := 59.
Definition c60 : Z := 60.
Definition c61 : Z := 61.
Definition c62 : Z := 62.
Definition c63 : Z := 63.
Definition c64 : Z := 64.
Definition c65 : Z := 65.
Definition c66 : Z := 66.
Definition c67 : Z := 67.
Definition c68 : Z := 68.
Definition c69 : Z := 69.
Definition c70 : Z := 70.
Definition c71 : Z := 71.
Definition c72 : Z := 72.
Definition c73 : Z := 73.
Definition c74 : Z := 74.
Definition c75 : Z := 75.
Definition c76 : Z := 76.
Definition c77 : Z := 77.
Definition c78 : Z := 78.
Definition c79 : Z := 79.
Definition c80 : Z := 80.
Definition c81 : Z := 81.
Definition c82 : Z := 82.
Definition c83 : Z := 83.
Definition c84 : Z := 84.
Definition c85 : Z := 85.
Definition c86 : Z := 86.
Definition c87 : Z := 87.
Definition c88 : Z := 88.
Definition c89 : Z := 89.
Definition c90 : Z := 90.
Definition c91 : Z := 91.
Definition c92 : Z := 92.
Definition c93 : Z := 93.
Definition c94 : Z := 94.
Definition c95 : Z := 95.
Definition c96 : Z := 96.
Definition c97 : Z := 97.
Definition c98 : Z := 98.
Definition c99 : Z := 99.
Definition c100 : Z := 100.
Definition c101 : Z := 101.
Definition c102 : Z := 102.
Definition c103 : Z := 103.
Definition c104 : Z := 104.
Definition c105 : Z := 105.
Definition c106 : Z := 106.
Definition c107 : Z := 107.
Definition c108 : Z := 108.
Definition c109 : Z := 109.
Definition c110 : Z := 110.
Definition c111 : Z := 111.
Definition c112 : Z := 112.
Definition c113 : Z := 113.
Definition c114 : Z := 114.
Definition c115 : Z := 115.
Definition c116 : Z := 116.
Definition c117 : Z := 117.
Definition c118 : Z := 118.
Definition c119 : Z := 119.
Definition c120 : Z := 120.
Definition c121 : Z := 121.
Definition c122 : Z := 122.
Definition c123 : Z := 123.
Definition c124 : Z := 124.
Definition c125 : Z := 125.
Definition c126 : Z := 126.
Definition c127 : Z := 127.
Definition c128 : Z := 128.
Definition c129 : Z := 129.
Definition c130 : Z := 130.
Definition c131 : Z := 131.
Definition c132 : Z := 132.
Definition c133 : Z := 133.
Definition c134 : Z := 134.
Definition c135 : Z := 135.
Definition c136 : Z := 136.
Definition c137 : Z := 137.
Definition c138 : Z := 138.
Definition c139 : Z := 139.
Definition c140 : Z := 140.
Definition c141 : Z := 141.
Definition c142 : Z := 142.
Definition c143 : Z := 143.
Definition c144 : Z := 144.
Definition c145 : Z := 145.
Definition c146 : Z := 146.
Definition c147 : Z := 147.
Definition c148 : Z := 148.
Definition c149 : Z := 149.
Definition c150 : Z := 150.
Definition c151 : Z := 151.
Definition c152 : Z := 152.
Definition c153 : Z := 153.
Definition c154 : Z := 154.
Definition c155 : Z := 155.
Definition c156 : Z := 156.
Definition c157 : Z := 157.
Definition c158 : Z := 158.
Definition c159 : Z := 159.
Definition c160 : Z := 160.
Definition c161 : Z := 161.
Definition c162 : Z := 162.
Definition c163 : Z := 163.
Definition c164 : Z := 164.
Definition c165 : Z := 165.
Definition c166 : Z := 166.
Definition c167 : Z := 167.
Definition c168 : Z := 168.
Definition c169 : Z := 169.
Definition c170 : Z := 170.
Definition c171 : Z := 171.
Definition c172 : Z := 172.
Definition c173 : Z := 173.
Definition c174 : Z := 174.
Definition c175 : Z := 175.
Definition c176 : Z := 176.
Definition c177 : Z := 177.
Definition c178 : Z := 178.
Definition c179 : Z := 179.
Definition c180 : Z := 180.
Definition c181 : Z := 181.
Definition c182 : Z := 182.
Definition c183 : Z := 183.
Definition c184 : Z := 184.
Definition c185 : Z := 185.
Definition c186 : Z := 186.
Definition c187 : Z := 187.
Definition c188 : Z := 188.
Definition c189 : Z := 189.
Definition c190 : Z := 190.
Definition c191 : Z := 191.
Definition c192 : Z := 192.
Definition c193 : Z := 193.
Definition c194 : Z := 194.
Definition c195 : Z := 195.
Definition c196 : Z := 196.
Definition c197 : Z := 197.
Definition c198 : Z := 198.
Definition c199 : Z := 199.
Definition c200 : Z := 200.
Definition c201 : Z := 201.
Definition c202 : Z := 202.
Definition c203 : Z := 203.
Definition c204 : Z := 204.
Definition c205 : Z := 205.
Definition c206 : Z := 206.
Definition c207 : Z := 207.
Definition c208 : Z := 208.
Definition c209 : Z := 209.
Definition c210 : Z := 210.
Definition c211 : Z := 211.
Definition c212 : Z := 212.
Definition c213 : Z := 213.
Definition c214 : Z := 214.
Definition c215 : Z := 215.
Definition c216 : Z := 216.
Definition c217 : Z := 217.
Definition c218 : Z := 218.
Definition c219 : Z := 219.
Definition c220 : Z := 220.
Definition c221 : Z := 221.
Definition c222 : Z := 222.
Definition c223 : Z := 223.
Definition c224 : Z := 224.
Definition c225 : Z := 225.
Definition c226 : Z := 226.
Definition c227 : Z := 227.
Definition c228 : Z := 228.
Definition c229 : Z := 229.
Definition c230 : Z := 230.
Definition c231 : Z := 231.
Definition c232 : Z := 232.
Definition c233 : Z := 233.
Definition c234 : Z := 234.
Definition c235 : Z := 235.
Definition c236 : Z := 236.
Definition c237 : Z := 237.
Definition c238 : Z := 238.
Definition c239 : Z := 239.
Definition c240 : Z := 240.
Definition c241 : Z := 241.
Definition c242 : Z := 242.
Definition c243 : Z := 243.
Definition c244 : Z := 244.
Definition c245 : Z := 245.
Definition c246 : Z := 246.
Definition c247 : Z := 247.
Definition c248 : Z := 248.
Definition c249 : Z := 249.
Definition c250 : Z := 250.
Definition c251 : Z := 251.
Definition c252 : Z := 252.
Definition c253 : Z := 253.
Definition c254 : Z := 254.
Definition c255 : Z := 255.

Definition o_hash (_ : str) (s : str) : option str := match s with [] => None | _ => Some s end.

Definition o_parse (pt : list (str * bool)) (s : str) : option str :=
  match lookup s pt with Some true => Some s | _ => None end.

Definition o_verify (vt : list (str * list (str * bool))) (ph p : str) : bool :=
  match lookup ph vt with
  | Some l => match lookup p l with Some b => b | None => false end
  | None => false
  end.

(** a cleartext query reaches the oracle but the harness supplied no answer: reported as a disagreement *)
Definition oracle_missing (pt : list (str * bool)) (vt : list (str * list (str * bool)))
           (st : store) (u p : str) : bool :=
  match lookup u st with
  | Some stored =>
    if starts_with ARGON2_PREFIX stored then
      match lookup stored pt with
      | None => true
      | Some false => false
      | Some true =>
        match lookup stored vt with
        | None => true
        | Some l => match lookup p l with None => true | Some _ => false end
        end
      end
    else false
  | None => false
  end.

Definition AddU (u p h : str) : op str := OpAddUser str u p h.
Definition AddH (u h : str) : op str := OpAddHashed str u h.

Definition DUMMY_SALT : str := ARGON2_PREFIX ++ [63].   (* "$argon2?" : an overwritten, unobservable hash *)

Definition salt_fn (tab : list (nat * str)) (n : nat) : str :=
  match find (fun '(k, _) => Nat.eqb k n) tab with
  | Some (_, s) => s
  | None => DUMMY_SALT
  end.

Definition opt_str_eqb (a b : option str) : bool :=
  match a, b with
  | Some x, Some y => str_eqb x y
  | None, None => true
  | _, _ => false
  end.

(** the whole map as printed by the implementation ([Debug]) against the model's association list *)
Definition dump_agrees (st : store) (obs : list (str * str)) : bool :=
  forallb (fun '(k, v) => opt_str_eqb (lookup k st) (Some v)) obs
  && forallb (fun '(k, _) => match lookup k obs with Some _ => true | None => false end) st.

(** ids: [id0] = outcome of load (Ok/Err), [id0+1] = whole-map dump; queries carry their own ids *)
Definition c29_scenario (id0 : Z)
           (file : option (str * list (nat * str)))      (* None = PasswordStore::new() *)
           (load_ok : bool)                               (* observed: load_from_file returned Ok *)
           (ops : list (op str))
           (pt : list (str * bool)) (vt : list (str * list (str * bool)))
           (dump : option (list (str * str)))
           (gets : list (Z * str * option str))           (* id, user, observed get_password *)
           (clears : list (Z * str * str * bool))         (* id, user, password, observed verify_cleartext *)
           (md5s : list (Z * str * str * list Z * bool))  (* id, user, response, salt, observed verify_md5 *)
  : list Z :=
  let o := match file with
           | None => FromNew str
           | Some (c, tab) => FromFile str c (salt_fn tab)
           end in
  match run str o_hash o ops with
  | Err _ => if load_ok then [id0] else []
  | Ok st =>
    if negb load_ok then [id0]
    else
      (match dump with
       | Some obs => if dump_agrees st obs then [] else [id0 + 1]
       | None => []
       end)
      ++ flat_map (fun '(id, u, obs) => if opt_str_eqb (get_password st u) obs then [] else [id]) gets
      ++ flat_map (fun '(id, u, p, obs) =>
                     if oracle_missing pt vt st u p then [id]
                     else if Bool.eqb (verify_cleartext str (o_parse pt) (o_verify vt) st u p) obs then [] else [id])
                  clears
      ++ flat_map (fun '(id, u, resp, salt, obs) =>
                     if Bool.eqb (verify_md5 md5 c29_md5_lenient st u resp salt) obs then [] else [id])
                  md5s
  end.

(** function-level ties *)
Definition c29_md5_vectors (l : list (Z * list Z * list Z)) : list Z :=
  flat_map (fun '(id, msg, digest) => if str_eqb (md5 msg) digest then [] else [id]) l.

Definition c29_cmp_vectors (l : list (Z * str * str * list Z * str)) : list Z :=
  flat_map (fun '(id, pw, user, salt, out) =>
              if str_eqb (compute_md5_password md5 pw user salt) out then [] else [id]) l.

(** [char::is_whitespace]: the harness lists every whitespace scalar value in increasing order *)
Definition ws_expanded : list Z :=
  flat_map (fun '(lo, hi) => map (fun k => lo + Z.of_nat k) (seq 0 (Z.to_nat (hi - lo + 1)))) ws_ranges.
Definition c29_ws (id : Z) (obs : list Z) : list Z := if str_eqb ws_expanded obs then [] else [id].

(** [str::trim] and [str::lines] of std, as used by load_from_file (observed directly on std) *)
Definition c29_trim_vectors (l : list (Z * str * str)) : list Z :=
  flat_map (fun '(id, s, t) => if str_eqb (trim s) t then [] else [id]) l.
Fixpoint strs_eqb (a b : list str) : bool :=
  match a, b with
  | [], [] => true
  | x :: a', y :: b' => str_eqb x y && strs_eqb a' b'
  | _, _ => false
  end.
Definition c29_lines_vectors (l : list (Z * str * list str)) : list Z :=
  flat_map (fun '(id, s, ls) => if strs_eqb (lines s) ls then [] else [id]) l.
