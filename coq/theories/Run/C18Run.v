(** Correspondence runner for C18 (native save/load round trip).  Executable definitions only.

    A case is one database built by the harness.  The shard gives: the database as the implementation
    holds it before saving ([db] term: schemas, roles, tables with column types and rows, index
    definitions, in the order the implementation's [list_*] calls return them), the bytes
    [save_binary] wrote, and what [load_binary] of that file produced (again as a [db] term, index
    entries replaced by their number).  The runner checks
      (0) the model's [save_binary] image equals the file byte for byte,
      (1) the model's [load_binary] of the file yields exactly the reloaded database the
          implementation reports (same tables/columns/types/rows by bits, same index definitions,
          same number of index entries).
    Value level: for every generated [SqlValue] the bytes of the real [write_sql_value] must equal
    the model's [write_value], and the model's [read_value] of those bytes must give the value back. *)
From Coq Require Import String List ZArith Bool.
From VibeSQL Require Import Value.SqlValue Codec.BinUtf8 Codec.BinPrim Codec.BinValue Codec.BinType
  Codec.BinFile Codec.BinCanon Codec.JsonVal.
Import ListNotations.
Open Scope Z_scope.

(** bit-exact structural equality (NOT SQL equality: NaN payloads and signed zeros are distinguished) *)
Definition sqlvalue_beq (a b : sqlvalue) : bool :=
  match a, b with
  | VInteger x, VInteger y | VSmallint x, VSmallint y | VBigint x, VBigint y | VUnsigned x, VUnsigned y
  | VNumeric x, VNumeric y | VFloat x, VFloat y | VReal x, VReal y | VDouble x, VDouble y => x =? y
  | VCharacter x, VCharacter y | VVarchar x, VVarchar y => bytes_eqb x y
  | VBoolean x, VBoolean y => Bool.eqb x y
  | VDate y m d, VDate y' m' d' => (y =? y') && (m =? m') && (d =? d')
  | VTime h mi s ns, VTime h' mi' s' ns' => (h =? h') && (mi =? mi') && (s =? s') && (ns =? ns')
  | VTimestamp y m d h mi s ns, VTimestamp y' m' d' h' mi' s' ns' =>
      (y =? y') && (m =? m') && (d =? d') && (h =? h') && (mi =? mi') && (s =? s') && (ns =? ns')
  | VInterval a1 a2 a3, VInterval b1 b2 b3 => (a1 =? b1) && (a2 =? b2) && (a3 =? b3)
  | VNull, VNull => true
  | _, _ => false
  end.
Definition bvalue_beq (a b : bvalue) : bool :=
  match a, b with
  | BV x, BV y => sqlvalue_beq x y
  | BInterval x, BInterval y => bytes_eqb x y
  | _, _ => false
  end.

Fixpoint list_beq {A} (f : A -> A -> bool) (a b : list A) : bool :=
  match a, b with
  | [], [] => true
  | x :: a', y :: b' => f x y && list_beq f a' b'
  | _, _ => false
  end.

Definition column_beq (a b : column) : bool :=
  bytes_eqb (c_name a) (c_name b) && dtype_eqb (c_type a) (c_type b) && Bool.eqb (c_nullable a) (c_nullable b).
Definition table_beq (a b : table) : bool :=
  bytes_eqb (t_name a) (t_name b) && list_beq column_beq (t_cols a) (t_cols b)
  && list_beq (list_beq bvalue_beq) (t_rows a) (t_rows b) && (t_extra a =? t_extra b).

(** an index as observed: definition + number of entries *)
Record index_obs : Type := mkIndexObs {
  io_name : bytes; io_table : bytes; io_unique : bool; io_cols : list (bytes * Z); io_count : Z }.
Definition index_matches (m : index) (o : index_obs) : bool :=
  bytes_eqb (i_name m) (io_name o) && bytes_eqb (i_table m) (io_table o) && Bool.eqb (i_unique m) (io_unique o)
  && list_beq (fun '(c, d) '(c', d') => bytes_eqb c c' && (d =? d')) (i_cols m) (io_cols o)
  && (Z.of_nat (length (i_entries m)) =? io_count o).

(** the reloaded database as the implementation reports it (lists in the implementation's order;
    the model's tables/indexes are matched by name) *)
Record db_obs : Type := mkDbObs {
  o_schemas : list bytes; o_roles : list bytes; o_tables : list table; o_indexes : list index_obs }.

Definition same_set (a b : list bytes) : bool :=
  (length a =? length b)%nat && forallb (fun x => existsb (bytes_eqb x) b) a
  && forallb (fun x => existsb (bytes_eqb x) a) b.

Definition db_matches (m : db) (o : db_obs) : bool :=
  same_set (d_schemas m) (o_schemas o) && same_set (d_roles m) (o_roles o)
  && (length (d_tables m) =? length (o_tables o))%nat
  && forallb (fun t => existsb (table_beq t) (o_tables o)) (d_tables m)
  && (length (d_indexes m) =? length (o_indexes o))%nat
  && forallb (fun i => existsb (index_matches i) (o_indexes o)) (d_indexes m).

Definition E18 : env := canon_env 1000 65536.

(** one database case; [reload_code]: 0 = load_binary returned Ok, 1 = Err, 2 = panicked.
    Returns the ids of the disagreements: [id] for the byte image, [id+1] for the reload. *)
Definition c18_db_check (id : Z) (d : db) (file : bytes) (reload_code : Z) (o : db_obs) : list Z :=
  (if bytes_eqb (save_binary d) file then [] else [id])
  ++ match load_result E18 file with
     | Ok d' _ => if (reload_code =? 0) && db_matches d' o then [] else [id + 1]
     | Err _ => if reload_code =? 1 then [] else [id + 1]
     | Panic _ => if reload_code =? 2 then [] else [id + 1]
     | Unmodelled => []
     | _ => [id + 1]
     end.

(** value level: (value, bytes written by the real [write_sql_value]); the implementation's own
    read-back is compared with the original on the Rust side *)
Definition c18_value_check (base : Z) (cases : list (bvalue * bytes)) : list Z :=
  let fix go (i : Z) (l : list (bvalue * bytes)) : list Z :=
    match l with
    | [] => []
    | (v, bs) :: r =>
        (if bytes_eqb (write_value v) bs
            && match snd (read_value E18 (bs ++ [7; 7])) with
               | Ok v' rest => bvalue_beq v v' && bytes_eqb rest [7; 7]
               | Unmodelled => true
               | _ => false
               end
         then [] else [base + i]) ++ go (i + 1) r
    end in
  go 0 cases.

(** * JSON format: what a cell looks like in the file save_json wrote, and what load_json made of it.
    Observed JSON value: null / bool / integer / "some float" (the digits are serde_json's business) /
    string.  For non-float values the reloaded cell must be what the model computes:
    [json_value_to_sql] followed by the [Table::insert] normalisation. *)
Inductive jobs : Type := ONull | OBool (b : bool) | OInt (z : Z) | OFloat | OStr (s : bytes).

Definition jobs_matches (j : json) (o : jobs) : bool :=
  match j, o with
  | JNull, ONull => true
  | JBool a, OBool b => Bool.eqb a b
  | JInt a, OInt b => a =? b
  | JFloat _, OFloat => true
  | JStr a, OStr b => bytes_eqb a b
  | _, _ => false
  end.

Definition F_id : fenv := mkFenv (fun b => b) (fun b => b) (fun z => z).

Definition model_reload (v : bvalue) (ty : dtype) : option bvalue :=
  match json_value_to_sql E18 F_id (sql_value_to_json F_id v) ty with
  | POk v' => if is_null v' then Some v'
              else match normalize_value E18 ty v' with (_, NOk v'') => Some v'' | _ => None end
  | _ => None
  end.

Definition is_float_value (v : bvalue) : bool :=
  match v with BV (VNumeric _) | BV (VDouble _) | BV (VFloat _) | BV (VReal _) => finite_value v | _ => false end.

(** (value, column type, observed JSON cell, reloaded cell if the load succeeded) *)
Definition c18_json_check (base : Z) (cases : list (bvalue * dtype * jobs * option bvalue)) : list Z :=
  let fix go (i : Z) (l : list (bvalue * dtype * jobs * option bvalue)) : list Z :=
    match l with
    | [] => []
    | (v, ty, o, re) :: r =>
        (if jobs_matches (sql_value_to_json F_id v) o
            && (is_float_value v
                || match re, model_reload v ty with
                   | Some x, Some y => bvalue_beq x y
                   | Some _, None => match json_value_to_sql E18 F_id (sql_value_to_json F_id v) ty with
                                     | PUnknown => true | _ => false end
                   | None, _ => true
                   end)
         then [] else [base + i]) ++ go (i + 1) r
    end in
  go 0 cases.
