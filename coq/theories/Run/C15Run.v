(** Correspondence runner for C15: the same replay as C10's ([Run.C10Run]); every comparison
    covers the rows, the primary-key / UNIQUE hash maps, the append-mode flag and every
    user-defined index of the dumped tables. *)
From Coq Require Import List ZArith.
From VibeSQL Require Import Store.Dml Run.C10Run.

Definition c15_mismatches (hs : list history) : list Z := c10_mismatches hs.
