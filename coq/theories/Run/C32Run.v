(** Correspondence runner for C32: queries over views / CTEs are compared with the reference
    semantics of the expanded query. *)
From Coq Require Import List ZArith Bool.
From VibeSQL Require Import Base.LexOrd Sem.Syntax Sem.Rel Sem.Eval Sem.Views Run.SemRun.
Import ListNotations.
Open Scope Z_scope.

Definition c32_mismatches (l : list (db * list query * list (Z * query * obs))) : list Z :=
  flat_map (fun t : db * list query * list (Z * query * obs) =>
              let '(d, defs, cs) := t in
              let vs := expand_defs 64 defs in
              flat_map (fun c : Z * query * obs =>
                          let '(id, q, o) := c in
                          if check_case d (expand_query 64 vs q) o then [] else [id]) cs) l.

Definition c32_expected (d : db) (defs : list query) (q : query) : res (list row) :=
  run_query_with_views d defs q.
