(** Correspondence runner for C34: as C11Run, and in addition the rows the audit table gained must be the image
    of the model's firing list (trigger id, OLD image, NEW image), in order.  Executable definitions only. *)
From Coq Require Import List ZArith.
From VibeSQL Require Import Store.Trigger Store.Atomic Store.AtomicObs.
Import ListNotations.

Definition c34_mismatches (cs : list tcase) : list Z := mismatches true cs.
