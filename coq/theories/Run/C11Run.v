(** Correspondence runner for C11: every generated case (tables, set-up, triggers, statement) is executed by the
    model [Store/Atomic.v] and compared with the implementation's result code and with every table's rows before
    and after the statement.  Executable definitions only. *)
From Coq Require Import List ZArith.
From VibeSQL Require Import Store.Trigger Store.Atomic Store.AtomicObs.
Import ListNotations.

Definition c11_mismatches (cs : list tcase) : list Z := mismatches false cs.
