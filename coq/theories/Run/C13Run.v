(** Correspondence runner for C13: every generated history (committed prefix, BEGIN, body,
    ROLLBACK | COMMIT, epilogue) is replayed on the model of Store/Txn.v + Store/Savepoint.v from
    [db0]; the model must predict every statement's result code and, at the four checkpoints, the
    implementation's table contents (row by row, in storage order), catalog index listing, storage
    indexes with their key -> row-index maps, and the answers to the battery of point queries.
    Executable definitions only. *)
From Coq Require Import List ZArith Bool.
From VibeSQL Require Import Value.SqlValue Store.Txn Store.Savepoint Store.TxnObs.
Import ListNotations.
Open Scope Z_scope.

(** ids of the histories on which model and implementation disagree *)
Definition c13_mismatches (cases : list (Z * list item)) : list Z := txn_mismatches cases.

(** diagnosis: (history id, index of the first disagreeing statement) *)
Definition c13_first_bad (cases : list (Z * list item)) : list (Z * Z) :=
  flat_map (fun c => let i := first_bad db0 (snd c) 0 in if i =? -1 then [] else [(fst c, i)]) cases.
