(** Correspondence runner for C03: the same aggregate query observed twice on the executor — the
    normal run (columnar when its gate accepts; the hook says which) and the run with the columnar
    path switched off — is compared with the columnar model and the row-path model
    (Mech/Columnar.v).  Numbers are scaled by 2^42; observed numbers are exact dyadics. *)
From Coq Require Import List ZArith Bool.
From VibeSQL Require Import Base.LexOrd Sem.Syntax Sem.Rel Mech.Accumulator Mech.Columnar Run.C07Run.
Import ListNotations.
Open Scope Z_scope.

Definition scale : Z := 2 ^ 42.

Definition dy_rounds_s (m e : Z) (sum cnt : Z) : bool :=
  if m =? 0 then (sum =? 0)
  else if 0 <=? e then (2 * Z.abs (m * pow2 e * scale * cnt - sum) <=? pow2 e * scale * cnt)
       else (2 * Z.abs (m * scale * cnt - sum * pow2 (- e)) <=? scale * cnt).

(** the harness strips trailing zero bits of the significand, so the unit in the last place of the
    53-bit significand is 2^(e - (53 - bits m)); re-normalise before the rounding test *)
Fixpoint norm_up (fuel : nat) (m e : Z) : Z * Z :=
  match fuel with
  | O => (m, e)
  | S f => if Z.abs m <? 2 ^ 52 then norm_up f (2 * m) (e - 1) else (m, e)
  end.

Definition cell_ok_s (count_cell : bool) (exp : ares) (o : oval) : bool :=
  match exp, o with
  | ARVal VNull, ONull => true
  | ARVal (VInt z), ODy m e => dy_equals m e z (if count_cell then 1 else scale)
  | ARVal (VStr s), OStr s' => match lex_compare s s' with Eq => true | _ => false end
  | ARQuot s c, ODy m e => if m =? 0 then (s =? 0) else let '(m', e') := norm_up 53 m e in dy_rounds_s m' e' s c
  | _, _ => false
  end.

Fixpoint row_ok_s (cs : list bool) (exp : list ares) (obs : list oval) : bool :=
  match cs, exp, obs with
  | [], [], [] => true
  | k :: cs', x :: exp', o :: obs' => cell_ok_s k x o && row_ok_s cs' exp' obs'
  | _, _, _ => false
  end.

Definition count_cells (sels : list csel) : list bool :=
  map (fun s => match s with CCountStar | CAgg FCount _ | CAggBin FCount _ _ _ => true | _ => false end) sels.

Record c03_case := {
  k_id : Z; k_rows : list row; k_preds : list cpred; k_sels : list csel;
  k_columnar : bool;            (* the hook saw the columnar path answer the normal run *)
  k_has_ne : bool;
  k_obs_normal : c07_obs; k_obs_row : c07_obs }.

Definition one_row_ok (sels : list csel) (exp : list ares) (o : c07_obs) : bool :=
  match o with
  | C07Rows [r] => row_ok_s (count_cells sels) exp r
  | _ => false
  end.

Definition c03_check (c : c03_case) : bool :=
  let rowres := row_exec (k_rows c) (k_preds c) (k_sels c) in
  one_row_ok (k_sels c) rowres (k_obs_row c)
  && (if k_columnar c
      then match columnar_exec (k_rows c) (k_preds c) (k_sels c) with
           | Some res => one_row_ok (k_sels c) res (k_obs_normal c)
           | None => false       (* the executor's gate accepted a WHERE the model cannot extract *)
           end
      else one_row_ok (k_sels c) rowres (k_obs_normal c)).

Definition c03_mismatches (l : list c03_case) : list Z :=
  flat_map (fun c => if c03_check c then [] else [k_id c]) l.

Definition c03_expected (c : c03_case) :=
  (row_exec (k_rows c) (k_preds c) (k_sels c), columnar_exec (k_rows c) (k_preds c) (k_sels c)).
