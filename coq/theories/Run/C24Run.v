(** C24 — executable comparison of the arithmetic model with the implementation's observations.

    A shard lists cases together with what the REAL code did in the debug build and in the release
    build of the same harness binary; [c24_mismatches] returns the ids of the cases on which the
    model (profile [Debug] resp. [Release]) disagrees with either observation. *)
From Coq Require Import ZArith List Bool.
From VibeSQL Require Import Base.LexOrd Value.SqlValue Mech.F64 Mech.Arith.
Import ListNotations.
Open Scope Z_scope.

(** what the harness saw: a value, an error (kind code), or a panic caught by catch_unwind *)
Inductive obs :=
| OVal (v : sqlvalue)
| OErr (kind : Z)        (* 1 TypeMismatch, 2 DivisionByZero, 3 Unsupported*, 4 TypeConversionError, 0 anything else *)
| OPanic
| OUnit.                 (* a call that returned normally without a value of interest (range_scan) *)

Inductive case :=
| CBin (mode : sqlmode) (op : binop) (a b : sqlvalue)        (* OperatorRegistry::eval_binary_op via the evaluator *)
| CNeg (v : sqlvalue)
| CPlus (v : sqlvalue)
| CAbs (v : sqlvalue)
| CMod (a b : sqlvalue)
| CSimdSum (col : list Z)                                     (* simd_sum_i64; the i64 result is reported as VBigint *)
| CColAgg (op : aggop) (vs : list sqlvalue)                   (* compute_columnar_aggregate on one column *)
| CAccAgg (avg : bool) (distinct : bool) (vs : list sqlvalue) (* AggregateAccumulator through SQL GROUP BY *)
| CSubstr (args : list sqlvalue)
| CRange (multi nonempty : bool) (start end_ : option sqlvalue) (incl_s incl_e : bool).

(** DATE (+|-) INTERVAL is C22's model: such cases are not compared *)
Definition run_temporal (_ : bool) (_ _ : sqlvalue) : res sqlvalue := Err EUnsupported.

Definition not_modelled (c : case) : bool :=
  match c with
  | CBin _ BPlus a b => (is_datelike a && is_interval b) || (is_interval a && is_datelike b)
  | CBin _ BMinus a b => is_datelike a && is_interval b
  | _ => false
  end.

Definition run_model (p : profile) (c : case) : res sqlvalue :=
  match c with
  | CBin m op a b => eval_binary_op run_temporal m a op b
  | CNeg v => unary_minus v
  | CPlus v => unary_plus v
  | CAbs v => abs_fn v
  | CMod a b => mod_fn a b
  | CSimdSum col => Ok (VBigint (simd_sum_i64 col))
  | CColAgg op vs => columnar_aggregate p 1024 op vs
  | CAccAgg avg distinct vs =>
      if avg then agg_avg run_temporal p distinct vs else agg_sum run_temporal p distinct vs
  | CSubstr args => substring args
  | CRange multi nonempty s e is ie =>
      do _ <- range_scan_outcome p multi nonempty s e is ie; Ok VNull
  end.

(** identical values: same variant, same payload; two NaNs of one width are one class *)
Definition f_same (w a b : Z) : bool := (a =? b) || (f_is_nan w a && f_is_nan w b).
Fixpoint zlist_eqb (a b : list Z) : bool :=
  match a, b with
  | [], [] => true
  | x :: a', y :: b' => (x =? y) && zlist_eqb a' b'
  | _, _ => false
  end.
Definition val_same (a b : sqlvalue) : bool :=
  match a, b with
  | VInteger x, VInteger y | VSmallint x, VSmallint y | VBigint x, VBigint y | VUnsigned x, VUnsigned y => x =? y
  | VNumeric x, VNumeric y | VDouble x, VDouble y => f_same 64 x y
  | VFloat x, VFloat y | VReal x, VReal y => f_same 32 x y
  | VCharacter x, VCharacter y | VVarchar x, VVarchar y => zlist_eqb x y
  | VBoolean x, VBoolean y => Bool.eqb x y
  | VDate y m d, VDate y' m' d' => zlist_eqb [y; m; d] [y'; m'; d']
  | VTime h mi s ns, VTime h' mi' s' ns' => zlist_eqb [h; mi; s; ns] [h'; mi'; s'; ns']
  | VTimestamp y m d h mi s ns, VTimestamp y' m' d' h' mi' s' ns' =>
      zlist_eqb [y; m; d; h; mi; s; ns] [y'; m'; d'; h'; mi'; s'; ns']
  | VInterval a1 a2 a3, VInterval b1 b2 b3 => zlist_eqb [a1; a2; a3] [b1; b2; b3]
  | VNull, VNull => true
  | _, _ => false
  end.

Definition err_code (e : err) : Z :=
  match e with ETypeMismatch => 1 | EDivisionByZero => 2 | EUnsupported => 3 | EConversion => 4 end.

Definition agrees (c : case) (m : res sqlvalue) (o : obs) : bool :=
  match m, o with
  | Ok v, OVal w => val_same v w
  | Ok _, OUnit => match c with CRange _ _ _ _ _ _ => true | _ => false end
  | Err e, OErr k => err_code e =? k
  | Panic _, OPanic => true
  | _, _ => false
  end.

(** one case: (case, observation in the debug build, observation in the release build) *)
Definition case_ok (t : case * obs * obs) : bool :=
  let '(c, od, orl) := t in
  not_modelled c || (agrees c (run_model Debug c) od && agrees c (run_model Release c) orl).

Fixpoint mismatches_from (id : Z) (cs : list (case * obs * obs)) : list Z :=
  match cs with
  | [] => []
  | t :: rest => if case_ok t then mismatches_from (id + 1) rest else id :: mismatches_from (id + 1) rest
  end.

Definition c24_mismatches (base : Z) (cs : list (case * obs * obs)) : list Z := mismatches_from base cs.
