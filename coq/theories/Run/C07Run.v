(** Correspondence runner for C07: the rows an aggregate query returns are compared with the model
    of the accumulators / grouping (Mech/Accumulator.v) on the same table contents.  Numbers are
    exact: table values are integers or quarter-valued doubles, scaled by 4; observed numbers come as
    exact dyadics m * 2^e (decoded from the f64 bits by the harness). *)
From Coq Require Import List ZArith Bool.
From VibeSQL Require Import Base.LexOrd Sem.Syntax Sem.Rel Mech.Accumulator.
Import ListNotations.
Open Scope Z_scope.

Inductive oval : Type :=
| ONull
| ODy (m e : Z)            (* the number m * 2^e *)
| OStr (s : list Z)
| OOther.

(** how a result cell is to be read: a plain count, or a value in the scaled domain *)
Inductive ckind := KCount | KScaled.

Definition pow2 (e : Z) : Z := 2 ^ e.

(** m * 2^e = z / scale  (scale is 1 or 4) *)
Definition dy_equals (m e : Z) (z scale : Z) : bool :=
  if 0 <=? e then (m * pow2 e * scale =? z) else (m * scale =? z * pow2 (- e)).

(** m * 2^e is a correctly rounded value of sum4 / (4 * cnt), reading 2^e as the unit in the last
    place of the normalised significand m *)
Definition dy_rounds (m e : Z) (sum4 cnt : Z) : bool :=
  if m =? 0 then (sum4 =? 0)
  else if 0 <=? e then (2 * Z.abs (m * pow2 e * 4 * cnt - sum4) <=? pow2 e * 4 * cnt)
       else (2 * Z.abs (m * 4 * cnt - sum4 * pow2 (- e)) <=? 4 * cnt).

Definition cell_ok (k : ckind) (exp : ares) (o : oval) : bool :=
  match exp, o with
  | ARVal VNull, ONull => true
  | ARVal (VInt z), ODy m e => dy_equals m e z (match k with KCount => 1 | KScaled => 4 end)
  | ARVal (VStr s), OStr s' => match lex_compare s s' with Eq => true | _ => false end
  | ARQuot s c, ODy m e => dy_rounds m e s c
  | _, _ => false
  end.

Fixpoint row_ok (ks : list ckind) (exp : list ares) (obs : list oval) : bool :=
  match ks, exp, obs with
  | [], [], [] => true
  | k :: ks', x :: exp', o :: obs' => cell_ok k x o && row_ok ks' exp' obs'
  | _, _, _ => false
  end.

Fixpoint remove_match (ks : list ckind) (x : list ares) (obs : list (list oval)) : option (list (list oval)) :=
  match obs with
  | [] => None
  | o :: obs' => if row_ok ks x o then Some obs'
                 else match remove_match ks x obs' with Some r => Some (o :: r) | None => None end
  end.

Fixpoint bag_ok (ks : list ckind) (exp : list (list ares)) (obs : list (list oval)) : bool :=
  match exp with
  | [] => match obs with [] => true | _ => false end
  | x :: exp' => match remove_match ks x obs with Some obs' => bag_ok ks exp' obs' | None => false end
  end.

Definition kinds (nkeys : nat) (sels : list aggsel) : list ckind :=
  repeat KScaled nkeys ++
  map (fun s => match s with
                | SCountStar => KCount
                | SAgg FCount _ _ | SAggSum2 FCount _ _ _ => KCount
                | _ => KScaled
                end) sels.

Inductive c07_obs := C07Rows (rows : list (list oval)) | C07Err | C07Panic.

Record c07_case := {
  cid : Z; crows : list row; cflt : option (nat * binop * value); ckeys : list nat; cgrouped : bool;
  csels : list aggsel; cobs : c07_obs }.

Definition c07_check (c : c07_case) : bool :=
  match cobs c with
  | C07Rows obs => bag_ok (kinds (length (ckeys c)) (csels c))
                          (agg_query (crows c) (cflt c) (ckeys c) (cgrouped c) (csels c)) obs
  | _ => false
  end.

Definition c07_mismatches (l : list c07_case) : list Z :=
  flat_map (fun c => if c07_check c then [] else [cid c]) l.

Definition c07_expected (c : c07_case) := agg_query (crows c) (cflt c) (ckeys c) (cgrouped c) (csels c).
