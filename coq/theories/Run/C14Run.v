(** Correspondence runner for C14: savepoint-heavy histories (duplicate names, release then
    rollback-to, nested savepoints, changes recorded through [Database::record_change]) are replayed
    on the model from [db0]; the model must predict every statement's result code (in particular
    which SAVEPOINT / RELEASE / ROLLBACK TO succeed) and the full observation after every savepoint
    statement.  Executable definitions only. *)
From Coq Require Import List ZArith Bool.
From VibeSQL Require Import Value.SqlValue Store.Txn Store.Savepoint Store.TxnObs.
Import ListNotations.
Open Scope Z_scope.

Definition c14_mismatches (cases : list (Z * list item)) : list Z := txn_mismatches cases.

Definition c14_first_bad (cases : list (Z * list item)) : list (Z * Z) :=
  flat_map (fun c => let i := first_bad db0 (snd c) 0 in if i =? -1 then [] else [(fst c, i)]) cases.
