(** Correspondence runner for C20 (loading damaged files).  Executable definitions only.

    A case is a base file (bytes of a valid or crafted [.vbsql] file) plus one patch
    (offset, bytes deleted, bytes inserted): truncations, bit flips, length-field splices, payload
    substitutions and random blocks are all patches.  The shard gives, per case, what the real
    [Database::load_binary] did with the patched file:
      code 0 = Ok, 1 = Err, 2 = panic (caught), 3 = process abort (stack overflow),
           4 = no answer within the time limit, 5 = allocation failure abort
    and the largest single allocation request observed while loading ([0] when below [big]).
    The model must predict the same class and, for big requests, the same size. *)
From Coq Require Import String List ZArith Bool.
From VibeSQL Require Import Value.SqlValue Codec.BinUtf8 Codec.BinPrim Codec.BinValue Codec.BinType
  Codec.BinFile Codec.BinCanon.
Import ListNotations.
Open Scope Z_scope.

Definition apply_patch (base : bytes) (off del : Z) (ins : bytes) : bytes :=
  firstn (Z.to_nat off) base ++ ins ++ skipn (Z.to_nat (off + del)) base.

(** allocation requests at or above this size are compared exactly (1 MiB) *)
Definition big : Z := 1048576.

(** the two platform parameters are bracketed: the model must give the same answer for a small and a
    large stack depth / spin budget, otherwise the case is outside what the model pins down *)
Definition E_lo : env := canon_env 200 65536.
Definition E_hi : env := canon_env 3000 17179869184.

Definition code_of {A} (o : outcome A) : option Z :=
  match o with
  | Ok _ _ => Some 0
  | Err _ => Some 1
  | Panic _ => Some 2
  | StackOverflow => Some 3
  | Hang => Some 4
  | OutOfFuel => Some 99          (* never: reported as a disagreement *)
  | Unmodelled => None
  end.

Definition opt_z_eqb (a b : option Z) : bool :=
  match a, b with Some x, Some y => x =? y | None, None => true | _, _ => false end.

(** what the harness reports of a successfully loaded database: tables * 10^6 + total rows *)
Definition db_sig (d : db) : Z :=
  Z.of_nat (length (d_tables d)) * 1000000
  + fold_right (fun t acc => Z.of_nat (length (t_rows t)) + t_extra t + acc) 0 (d_tables d).
Definition sig_of {A} (f : A -> Z) (o : outcome A) : Z := match o with Ok a _ => f a | _ => -1 end.

(** model verdict: [Some (code, max big alloc, signature)] or [None] when not pinned down.  The two limits only
    matter when one of them is hit: if the run with the SMALL limits ends without [StackOverflow]/[Hang]
    the run with the large ones is identical and is not computed. *)
Definition predict (bs : bytes) : option (Z * Z * Z) :=
  let '(t1, o1) := load_binary E_lo bs in
  let verdict (c : Z) := let m := max_alloc t1 in Some (c, (if m <? big then 0 else m), sig_of db_sig o1) in
  match o1 with
  | StackOverflow | Hang =>
      match code_of o1, code_of (snd (load_binary E_hi bs)) with
      | Some c1, Some c2 => if c1 =? c2 then verdict c1 else None
      | _, _ => None
      end
  | _ => match code_of o1 with Some c => verdict c | None => None end
  end.

(** observed codes 4 (timeout) and 5 (allocation failure) both count as the model's [Hang] when the
    model predicts a spin (the spinning loop also grows the table) *)
Definition code_agrees (model obs : Z) : bool :=
  (model =? obs) || ((model =? 4) && (obs =? 5)).

Record c20_case : Type := mkCase {
  k_id : Z; k_base : nat; k_off : Z; k_del : Z; k_ins : bytes; k_code : Z; k_alloc : Z; k_sig : Z }.

Definition c20_mismatches (bases : list bytes) (cases : list c20_case) : list Z :=
  flat_map (fun k =>
    let bs := apply_patch (nth (k_base k) bases []) (k_off k) (k_del k) (k_ins k) in
    match predict bs with
    | None => []
    | Some (c, a, sg) =>
        if code_agrees c (k_code k) && ((k_alloc k <? 0) || (a =? k_alloc k))
           && (negb (k_code k =? 0) || (sg =? k_sig k))
        then [] else [k_id k]
    end) cases.

(** how many cases the model pins down (reported, not compared) *)
Definition c20_modelled (bases : list bytes) (cases : list c20_case) : Z :=
  Z.of_nat (length (filter (fun k =>
    match predict (apply_patch (nth (k_base k) bases []) (k_off k) (k_del k) (k_ins k)) with
    | Some _ => true | None => false end) cases)).
