(** Correspondence runner for C09: the table contents and the affected-row count after an
    INSERT / UPDATE / DELETE are compared with the reference meaning of the statement. *)
From Coq Require Import List ZArith Bool.
From VibeSQL Require Import Base.LexOrd Sem.Syntax Sem.Rel Sem.Eval Mech.Dml Run.SemRun.
Import ListNotations.
Open Scope Z_scope.

(** observation: table rows after the statement and the reported count, or an error *)
Inductive dml_obs : Type :=
| DObs (post : list row) (count : Z)
| DObsErr
| DObsPanic.

Definition c09_check (d : db) (t : nat) (s : dml) (o : dml_obs) : bool :=
  match run_dml d t s, o with
  | Ok (rows, n), DObs post cnt => bag_eqb rows post && (n =? cnt)
  | Err _, DObsErr => true
  | _, _ => false
  end.

Definition c09_mismatches (l : list (db * list (Z * nat * dml * dml_obs))) : list Z :=
  flat_map (fun dc : db * list (Z * nat * dml * dml_obs) =>
              let (d, cs) := dc in
              flat_map (fun c : Z * nat * dml * dml_obs =>
                          let '(id, t, s, o) := c in
                          if c09_check d t s o then [] else [id]) cs) l.

Definition c09_expected (d : db) (t : nat) (s : dml) := run_dml d t s.
