(** Correspondence runner for C23 (executable definitions only).
    The harness observes the real [Lexer::tokenize] / [Parser::parse_sql]; the functions below
    evaluate the models on the same inputs and return the ids of the cases that disagree. *)
From Coq Require Import String Ascii List ZArith Bool Arith.
From VibeSQL Require Import Lex.Lexer Lex.ParseSkel.
Import ListNotations.
Open Scope Z_scope.

(** printable-ASCII texts are written as Coq strings in the case files (much cheaper to read than
    lists of numerals); [cs] turns them into code point lists *)
Definition cs (s : string) : list Z :=
  map (fun a => Z.of_nat (nat_of_ascii a)) (list_ascii_of_string s).

(** Unicode facts of Rust's [core] for the non-ASCII characters occurring in a shard, as observed by
    the harness: (code point, char::is_alphanumeric, chars of char::to_uppercase). *)
Definition uni_table := list (Z * bool * list Z).

Fixpoint uni_find (tbl : uni_table) (c : Z) : option (bool * list Z) :=
  match tbl with
  | [] => None
  | (k, a, u) :: r => if k =? c then Some (a, u) else uni_find r c
  end.
Definition tbl_alnum (tbl : uni_table) (c : Z) : bool :=
  match uni_find tbl c with Some (a, _) => a | None => false end.
Definition tbl_upper (tbl : uni_table) (c : Z) : list Z :=
  match uni_find tbl c with Some (_, u) => u | None => [c] end.

Definition token_eqb (a b : token) : bool :=
  match a, b with
  | TKeyword x, TKeyword y | TIdent x, TIdent y | TDelim x, TDelim y | TNumber x, TNumber y
  | TString x, TString y | TOperator x, TOperator y | TSessionVar x, TSessionVar y
  | TUserVar x, TUserVar y => codes_eqb x y
  | TSymbol x, TSymbol y => x =? y
  | TSemicolon, TSemicolon | TComma, TComma | TLParen, TLParen | TRParen, TRParen | TEof, TEof => true
  | _, _ => false
  end.

Fixpoint tokens_eqb (a b : list token) : bool :=
  match a, b with
  | [], [] => true
  | x :: a', y :: b' => token_eqb x y && tokens_eqb a' b'
  | _, _ => false
  end.

(** *** (i) lexer, token for token.  Observation: [Some tokens] = Ok, [None] = Err(LexerError).
    A model [Panic] or fuel exhaustion never agrees with anything. *)
Definition lex_case := (Z * list Z * option (list token))%type.

Definition lex_agrees (tbl : uni_table) (c : lex_case) : bool :=
  let '(_, input, obs) := c in
  match tokenize (tbl_alnum tbl) (tbl_upper tbl) input, obs with
  | Ok ts, Some ts' => tokens_eqb ts ts'
  | Err EOutOfFuel _, _ => false
  | Err _ _, None => true
  | _, _ => false
  end.

(** the tick bound of [lex_linear] is re-checked on the concrete run as well (cheap sanity) *)
Definition lex_ticks_ok (tbl : uni_table) (c : lex_case) : bool :=
  let '(_, input, _) := c in
  Nat.leb (lex_ticks (tbl_alnum tbl) (tbl_upper tbl) input) (4 * length input + 3).

Definition lex_mismatches (tbl : uni_table) (cases : list lex_case) : list Z :=
  flat_map (fun c => if lex_agrees tbl c && lex_ticks_ok tbl c then [] else [fst (fst c)]) cases.

(** [char::is_whitespace] over all of Unicode, as ranges, must equal the model's table *)
Fixpoint ranges_eqb (a b : list (Z * Z)) : bool :=
  match a, b with
  | [], [] => true
  | (x1, y1) :: a', (x2, y2) :: b' => (x1 =? x2) && (y1 =? y2) && ranges_eqb a' b'
  | _, _ => false
  end.
Definition ws_table_mismatch (id : Z) (impl_ranges : list (Z * Z)) : list Z :=
  if ranges_eqb impl_ranges ws_ranges then [] else [id].

(** *** (ii) parser skeleton: accept / reject.  [claim] = the harness's own opinion whether all
    tokens are in the skeleton's alphabet; [obs] = real parser returned Ok.
    [lim] = the nesting limit the harness detected on the implementation ([None] for the code as it
    is now: deep ramps abort; [Some l] once a depth limit such as fixes/C23-depth-limit.patch is in
    place: the deepest accepted parenthesis nesting is [l - 2]). *)
Definition skel_accepts_lim (lim : option nat) (sts : list stok) : option bool :=
  match skel_parse_lim lim sts with
  | Some (POk _ _) => Some true
  | Some (PErr _) => Some false
  | None => None
  end.
Definition skel_case := (Z * list Z * bool * bool)%type.

Definition skel_tokens (tbl : uni_table) (input : list Z) : option (list stok) :=
  match tokenize (tbl_alnum tbl) (tbl_upper tbl) input with
  | Ok ts => Some (map skel_of_token ts)
  | _ => None
  end.

Definition skel_agrees (lim : option nat) (tbl : uni_table) (c : skel_case) : bool :=
  let '(_, input, claim, obs) := c in
  match skel_tokens tbl input with
  | None => negb claim        (* lexer errors are covered by (i); never claimed in-alphabet *)
  | Some sts =>
      if in_alphabet sts then
        claim && match skel_accepts_lim lim sts with Some b => Bool.eqb b obs | None => false end
      else negb claim
  end.

Definition skel_mismatches (lim : option nat) (tbl : uni_table) (cases : list skel_case) : list Z :=
  flat_map (fun c => if skel_agrees lim tbl c then [] else [fst (fst (fst c))]) cases.

(** *** (iii) depth: two inputs of the same nesting construct with measured stack high-water marks
    (bytes).  The real stack must grow by a plausible number of bytes per additional model frame
    ([lo]..[hi] bytes per frame), i.e. model depth and native stack depth grow together. *)
Definition depth_case := (Z * list Z * Z * list Z * Z)%type.

Definition model_depth (lim : option nat) (tbl : uni_table) (input : list Z) : option Z :=
  match skel_tokens tbl input with
  | Some sts => if in_alphabet sts then Some (Z.of_nat (pres_depth (skel_parse_lim lim sts))) else None
  | None => None
  end.

Definition depth_agrees (lim : option nat) (tbl : uni_table) (lo hi : Z) (c : depth_case) : bool :=
  let '(_, in1, bytes1, in2, bytes2) := c in
  match model_depth lim tbl in1, model_depth lim tbl in2 with
  | Some d1, Some d2 =>
      (d1 <? d2) && (lo * (d2 - d1) <=? bytes2 - bytes1) && (bytes2 - bytes1 <=? hi * (d2 - d1))
  | _, _ => false
  end.

Definition depth_mismatches (lim : option nat) (tbl : uni_table) (lo hi : Z) (cases : list depth_case) : list Z :=
  flat_map (fun c => if depth_agrees lim tbl lo hi c then [] else [fst (fst (fst (fst c)))]) cases.

(** *** (iv) stack overflows: an input on which the real parser died of stack exhaustion must be
    deep according to the model ([>= deep] frames), and an input that is shallow according to the
    model ([<= shallow]) must not have died. *)
Definition abort_case := (Z * list Z * bool)%type.

Definition abort_agrees (lim : option nat) (tbl : uni_table) (shallow deep : Z) (c : abort_case) : bool :=
  let '(_, input, aborted) := c in
  match model_depth lim tbl input with
  | Some d => if aborted then deep <=? d else true
  | None => false
  end &&
  match model_depth lim tbl input with
  | Some d => if d <=? shallow then negb aborted else true
  | None => false
  end.

Definition abort_mismatches (lim : option nat) (tbl : uni_table) (shallow deep : Z) (cases : list abort_case) : list Z :=
  flat_map (fun c => if abort_agrees lim tbl shallow deep c then [] else [fst (fst c)]) cases.
