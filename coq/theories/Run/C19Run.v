(** Correspondence runner for C19.  The harness (harness/src/bin/c19.rs) writes, per case, the
    inputs and what the real code did; the functions below evaluate the model on the same inputs
    and return the ids of the checks on which model and implementation disagree.
    Executable definitions only.

    check ids: [10 * case + k] with
      k = 1  text written by [save_sql_dump]         vs [dump_text]
      k = 2  [parse_sql_statements] on that text      vs Lex/Splitter.v
      k = 3  outcome of [load_sql_dump]               vs Codec/SqlLoad.v
      k = 4  the model abstained where it must not
      k = 5  a database inside the theorem's vocabulary ([db_ok]) did not reload as itself
      k = 6  [Lexer::tokenize]                        vs Lex/DumpLex.v  *)
From Coq Require Import Strings.String.
From Coq Require Import List ZArith Bool.
From VibeSQL Require Import Value.SqlValue Value.Dec Value.RStr Value.Temporal.
From VibeSQL Require Import Lex.Splitter Lex.DumpLex Codec.SqlLiteral Codec.SqlLoad Codec.SqlDumpSpec.
Import ListNotations.
Open Scope Z_scope.

(** * Library float functions as finite tables supplied by the implementation *)
Fixpoint zassoc {A} (d : A) (k : Z) (l : list (Z * A)) : A :=
  match l with [] => d | (k', v) :: r => if k =? k' then v else zassoc d k r end.
Fixpoint sassoc {A} (d : A) (k : str) (l : list (str * A)) : A :=
  match l with [] => d | (k', v) :: r => if str_eqb k k' then v else sassoc d k r end.

Record ftab : Type := mk_ftab {
  ft_show64 : list (Z * str);
  ft_show32 : list (Z * str);
  ft_parse64 : list (str * option Z);
  ft_i64_f64 : list (Z * Z);
  ft_i64_f32 : list (Z * Z);
  ft_f64_f32 : list (Z * Z)
}.

(** missing entries give values that cannot agree with the implementation by accident *)
Definition fl_of (t : ftab) : float_ops :=
  mk_float_ops (fun b => zassoc [63] b (ft_show64 t)) (fun b => zassoc [63] b (ft_show32 t))
               (fun s => sassoc None s (ft_parse64 t))
               (fun i => zassoc (-1) i (ft_i64_f64 t)) (fun i => zassoc (-1) i (ft_i64_f32 t))
               (fun b => zassoc (-1) b (ft_f64_f32 t)).

Definition no_interval (a b c : Z) : str := [].

(** * Structural equality of observations *)
Fixpoint strs_eqb (a b : list str) : bool :=
  match a, b with
  | [], [] => true
  | x :: r, y :: r' => str_eqb x y && strs_eqb r r'
  | _, _ => false
  end.

Definition val_same (a b : sqlvalue) : bool :=
  match a, b with
  | VNull, VNull => true
  | VInteger x, VInteger y | VSmallint x, VSmallint y | VBigint x, VBigint y | VUnsigned x, VUnsigned y
  | VNumeric x, VNumeric y | VFloat x, VFloat y | VReal x, VReal y | VDouble x, VDouble y => x =? y
  | VCharacter x, VCharacter y | VVarchar x, VVarchar y => str_eqb x y
  | VBoolean x, VBoolean y => Bool.eqb x y
  | VDate y m d, VDate y' m' d' => (y =? y') && (m =? m') && (d =? d')
  | VTime h mi s ns, VTime h' mi' s' ns' => (h =? h') && (mi =? mi') && (s =? s') && (ns =? ns')
  | VTimestamp y m d h mi s ns, VTimestamp y' m' d' h' mi' s' ns' =>
      (y =? y') && (m =? m') && (d =? d') && (h =? h') && (mi =? mi') && (s =? s') && (ns =? ns')
  | VInterval a1 a2 a3, VInterval b1 b2 b3 => (a1 =? b1) && (a2 =? b2) && (a3 =? b3)
  | _, _ => false
  end.

Fixpoint row_same (a b : list sqlvalue) : bool :=
  match a, b with
  | [], [] => true
  | x :: r, y :: r' => val_same x y && row_same r r'
  | _, _ => false
  end.

(** remove the first row equal to [x] *)
Fixpoint remove_row (x : list sqlvalue) (l : list (list sqlvalue)) : option (list (list sqlvalue)) :=
  match l with
  | [] => None
  | y :: r => if row_same x y then Some r
              else match remove_row x r with Some r' => Some (y :: r') | None => None end
  end.
(** equality of row bags *)
Fixpoint bag_same (a b : list (list sqlvalue)) : bool :=
  match a with
  | [] => match b with [] => true | _ => false end
  | x :: r => match remove_row x b with Some b' => bag_same r b' | None => false end
  end.

Definition opt_eqb (a b : option Z) : bool :=
  match a, b with None, None => true | Some x, Some y => x =? y | _, _ => false end.

Definition dtype_same (a b : dtype) : bool :=
  match a, b with
  | TInteger, TInteger | TSmallint, TSmallint | TBigint, TBigint | TUnsigned, TUnsigned
  | TReal, TReal | TDouble, TDouble | TBoolean, TBoolean | TDate, TDate
  | TClob, TClob | TName, TName | TBlob, TBlob | TNullType, TNullType => true
  | TFloat p, TFloat q => p =? q
  | TVarchar n, TVarchar m => opt_eqb n m
  | TChar n, TChar m => n =? m
  | TTime x, TTime y | TTimestamp x, TTimestamp y => Bool.eqb x y
  | TInterval x, TInterval y => x =? y
  | TNumeric p s, TNumeric q r | TDecimal p s, TDecimal q r => (p =? q) && (s =? r)
  | TBit n, TBit m => opt_eqb n m
  | TUserDefined x, TUserDefined y => str_eqb x y
  | _, _ => false
  end.

Fixpoint cols_same (a b : list column) : bool :=
  match a, b with
  | [], [] => true
  | x :: r, y :: r' =>
      str_eqb (c_name x) (c_name y) && dtype_same (c_type x) (c_type y)
      && Bool.eqb (c_nullable x) (c_nullable y) && cols_same r r'
  | _, _ => false
  end.

Definition table_same (a b : table) : bool :=
  str_eqb (t_name a) (t_name b) && cols_same (t_cols a) (t_cols b) && bag_same (t_rows a) (t_rows b).

Fixpoint find_by_name (n : str) (l : list table) : option table :=
  match l with [] => None | t :: r => if str_eqb (t_name t) n then Some t else find_by_name n r end.

(** same set of tables (the implementation lists them in hash order), each with the same
    columns and the same bag of rows *)
Definition db_same (a b : list table) : bool :=
  Nat.eqb (length a) (length b)
  && forallb (fun t => match find_by_name (t_name t) b with Some u => table_same t u | None => false end) a.

(** what the implementation did on a load.  [ObsSaved]: the harness found the reloaded database
    identical to the one it had saved (same tables, columns and row sequences, floats by bits);
    the model's result is then compared with the saved database of the case. *)
Inductive obs : Type := ObsSaved | ObsOk (db : list table) | ObsErr | ObsPanic.

Definition outcome_agrees (saved : list table) (m : ores (list table)) (o : obs) : bool :=
  match m, o with
  | OOk a, ObsOk b => db_same a b
  | OOk a, ObsSaved => db_same a saved
  | OErr, ObsErr => true
  | OPanic, ObsPanic => true
  | _, _ => false
  end.

Definition is_abstain {A} (m : ores A) : bool := match m with OAbstain => true | _ => false end.

(** * Text fingerprints.  Large texts produced by the implementation (the dump file, the pieces
    returned by [parse_sql_statements]) are compared through a 60-bit polynomial fingerprint
    computed on both sides: elaborating megabytes of list literals would dominate the run. *)
Definition hmask : Z := 1152921504606846975.    (* 2^60 - 1 *)
Definition hstep (h c : Z) : Z := Z.land (65599 * h + c + 1) hmask.
Definition hash_str (h : Z) (s : str) : Z := fold_left hstep s h.
Definition hash_strs (l : list str) : Z := fold_left (fun h s => hstep (hash_str h s) 1114112) l 7.

(** * Database cases: a database built through the storage API, saved and reloaded *)
Record dcase : Type := mk_dcase {
  d_id : Z;
  d_ft : ftab;
  d_generated : str;
  d_db : list table;             (* in the order the implementation listed (and dumped) them *)
  d_text_hash : Z;               (* fingerprint of the file written by save_sql_dump *)
  d_split_hash : Z;              (* fingerprint of parse_sql_statements on it *)
  d_obs : obs                    (* load_sql_dump on it *)
}.

(** the model may abstain only when some string value breaks the splitter *)
Definition may_abstain (db : list table) : bool := existsb (fun s => negb (str_ok s)) (db_strings db).

(** the splitter and the loader run on the model's own rendering of the file, which check 1 ties
    to the file the implementation wrote *)
Definition check_dcase (c : dcase) : list Z :=
  let fl := fl_of (d_ft c) in
  let b := 10 * d_id c in
  let text := dump_text fl no_interval (d_generated c) (d_db c) in
  let m := load_sql_dump fl text in
  (if hash_str 7 text =? d_text_hash c then [] else [b + 1])
  ++ (if hash_strs (parse_sql_statements text) =? d_split_hash c then [] else [b + 2])
  ++ (if is_abstain m then (if may_abstain (d_db c) then [] else [b + 4])
      else if outcome_agrees (d_db c) m (d_obs c) then [] else [b + 3])
  ++ (if db_ok (d_db c) && generated_ok (d_generated c)
      then (match m with OOk a => if db_same a (d_db c) then [] else [b + 5] | _ => [b + 5] end)
      else []).

(** * Text cases: an arbitrary file content given to the splitter and to load_sql_dump *)
Record tcase : Type := mk_tcase {
  t_id : Z;
  t_ft : ftab;
  t_text : str;
  t_split_hash : Z;
  t_obs : obs;
  t_must_decide : bool           (* the generator built the text inside the modelled fragment *)
}.

Definition check_tcase (c : tcase) : list Z :=
  let fl := fl_of (t_ft c) in
  let b := 10 * t_id c in
  let m := load_sql_dump fl (t_text c) in
  (if hash_strs (parse_sql_statements (t_text c)) =? t_split_hash c then [] else [b + 2])
  ++ (if is_abstain m then (if t_must_decide c then [b + 4] else [])
      else if outcome_agrees [] m (t_obs c) then [] else [b + 3]).

(** * Lexer cases *)
Inductive ilex : Type := ILOk (ts : list tok) | ILErr | ILOther.   (* ILOther: tokens the model has no constructor for *)

Definition tok_same (a b : tok) : bool :=
  match a, b with
  | TNum x, TNum y | TStr x, TStr y | TIdent x, TIdent y | TKw x, TKw y | TDelim x, TDelim y => str_eqb x y
  | TSym x, TSym y => x =? y
  | TComma, TComma | TLParen, TLParen | TRParen, TRParen | TSemi, TSemi => true
  | _, _ => false
  end.
Fixpoint toks_same (a b : list tok) : bool :=
  match a, b with
  | [], [] => true
  | x :: r, y :: r' => tok_same x y && toks_same r r'
  | _, _ => false
  end.

Record lcase : Type := mk_lcase { l_id : Z; l_text : str; l_impl : ilex; l_must_decide : bool }.

Definition check_lcase (c : lcase) : list Z :=
  let b := 10 * l_id c in
  match lex_all (l_text c), l_impl c with
  | LAbstain, _ => if l_must_decide c then [b + 4] else []
  | LOk a, ILOk i => if toks_same a i then [] else [b + 6]
  | LErr, ILErr => []
  | _, _ => [b + 6]
  end.

(** detailed check ids [10 * case + k] (for debugging a disagreement by hand) *)
Definition c19_details (ds : list dcase) (ts : list tcase) (ls : list lcase) : list Z :=
  flat_map check_dcase ds ++ flat_map check_tcase ts ++ flat_map check_lcase ls.

Definition case_of (l : list Z) : list Z := match l with [] => [] | x :: _ => [x / 10] end.

(** the ids of the cases with at least one failed check (the ids of cases.jsonl) *)
Definition c19_mismatches (ds : list dcase) (ts : list tcase) (ls : list lcase) : list Z :=
  flat_map (fun c => case_of (check_dcase c)) ds ++ flat_map (fun c => case_of (check_tcase c)) ts
  ++ flat_map (fun c => case_of (check_lcase c)) ls.
