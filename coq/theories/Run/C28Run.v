(** Correspondence runner for C28: the bytes the real [BackendMessage::encode] appended, against the
    model's [encode]; the harness's independent frame parser against [parse_backend]; the harness's
    classification against [wf_backend].   Executable definitions only. *)
From Coq Require Import List ZArith Bool.
From VibeSQL Require Import Codec.Wire Codec.WireSpec.
Import ListNotations.
Open Scope Z_scope.

Definition field_eqb (a b : field_desc) : bool :=
  beqb (fd_name a) (fd_name b) && (fd_table_oid a =? fd_table_oid b) && (fd_attr a =? fd_attr b)
  && (fd_type_oid a =? fd_type_oid b) && (fd_type_size a =? fd_type_size b)
  && (fd_type_mod a =? fd_type_mod b) && (fd_format a =? fd_format b).

Fixpoint list_eqb {A : Type} (eq : A -> A -> bool) (a b : list A) : bool :=
  match a, b with
  | [], [] => true
  | x :: a', y :: b' => eq x y && list_eqb eq a' b'
  | _, _ => false
  end.

Definition value_eqb (a b : option bytes) : bool :=
  match a, b with
  | None, None => true
  | Some x, Some y => beqb x y
  | _, _ => false
  end.

Definition errfield_eqb (a b : Z * bytes) : bool := (fst a =? fst b) && beqb (snd a) (snd b).

Definition status_eqb (a b : txstatus) : bool :=
  match a, b with
  | Idle, Idle | InTransaction, InTransaction | FailedTransaction, FailedTransaction => true
  | _, _ => false
  end.

Definition bmsg_eqb (a b : bmsg) : bool :=
  match a, b with
  | BAuthOk, BAuthOk => true
  | BAuthCleartext, BAuthCleartext => true
  | BAuthMD5 s, BAuthMD5 s' => beqb s s'
  | BParameterStatus n v, BParameterStatus n' v' => beqb n n' && beqb v v'
  | BBackendKeyData p k, BBackendKeyData p' k' => (p =? p') && (k =? k')
  | BReadyForQuery s, BReadyForQuery s' => status_eqb s s'
  | BRowDescription f, BRowDescription f' => list_eqb field_eqb f f'
  | BDataRow v, BDataRow v' => list_eqb value_eqb v v'
  | BCommandComplete t, BCommandComplete t' => beqb t t'
  | BErrorResponse f, BErrorResponse f' => list_eqb errfield_eqb f f'
  | BNoticeResponse f, BNoticeResponse f' => list_eqb errfield_eqb f f'
  | BEmptyQuery, BEmptyQuery => true
  | _, _ => false
  end.

(** [obs]: the appended bytes; [parsed_back]: the harness's own parser recovered exactly the fields
    of [m] from [obs] with nothing left over.  [C28H]: for very large frames the harness sends the length
    and a polynomial digest of the bytes instead of the bytes. *)
Inductive c28case :=
| C28 (id : Z) (m : bmsg) (obs : bytes) (parsed_back : bool)
| C28H (id : Z) (m : bmsg) (len : Z) (digest : Z) (parsed_back : bool).

(** Fletcher-style digest without reduction: a = sum of (byte+1), c = sum of the running values of a
    (position-weighted); the harness computes the same two sums in u128 *)
Definition digest_of (b : bytes) : Z :=
  let '(a, c) := fold_left (fun '(a, c) x => let a' := a + x + 1 in (a', c + a')) b (0, 0) in
  c * 18446744073709551616 + a.

Definition frame_parses_back (m : bmsg) (b : bytes) : bool :=
  match parse_backend b with
  | Some (m', []) => bmsg_eqb m m'
  | _ => false
  end.

Definition case_ok (oc : bool) (c : c28case) : bool :=
  match c with
  | C28 _ m obs parsed_back =>
    match encode oc m with
    | Ok b =>
        beqb b obs
        && eqb parsed_back (frame_parses_back m obs)
        && eqb parsed_back (wf_backend m)
    | _ => false
    end
  | C28H _ m len digest parsed_back =>
    match encode oc m with
    | Ok b =>
        (blen b =? len) && (digest_of b =? digest)
        && eqb parsed_back (frame_parses_back m b)
        && eqb parsed_back (wf_backend m)
    | _ => false
    end
  end.

Definition c28_mismatches (oc : bool) (cases : list c28case) : list Z :=
  flat_map (fun c => if case_ok oc c then [] else [match c with C28 id _ _ _ => id | C28H id _ _ _ _ => id end]) cases.

(** helper so that the case files can describe very wide rows compactly *)
Definition rep {A : Type} (n : Z) (x : A) : list A := repeat x (Z.to_nat n).
