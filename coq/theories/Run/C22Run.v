(** Correspondence runner for C22: the harness records, for every generated case, what the real
    [FromStr] / [Display] / [Date::new] / [Time::new] / [Interval::new] did; this file evaluates
    the model on the same inputs and returns the ids on which they differ.
    Executable definitions only. *)
From Coq Require Import List ZArith Bool.
From Coq Require Import Strings.String.
From VibeSQL Require Import Value.SqlValue Value.Dec Value.RStr Value.Temporal.
Import ListNotations.
Open Scope Z_scope.

(** a text: printable-ASCII texts travel as Coq string literals, everything else as code points *)
Inductive text : Type := TS (s : string) | TL (l : list Z).
Definition decode (t : text) : str := match t with TS s => lit s | TL l => l end.

(** what the implementation did: returned a value, returned Err, or panicked (1 = slice /
    char-boundary, 2 = index out of bounds, 3 = arithmetic overflow) *)
Inductive obs : Type := OVal (v : sqlvalue) | OErr | OPanic (k : Z).

Definition pk_code (k : panic_kind) : Z :=
  match k with PSlice => 1 | PIndex => 2 | POverflow => 3 end.

(** structural equality on the temporal variants *)
Definition tv_eqb (a b : sqlvalue) : bool :=
  match a, b with
  | VDate y m d, VDate y' m' d' => (y =? y') && (m =? m') && (d =? d')
  | VTime h mi s ns, VTime h' mi' s' ns' => (h =? h') && (mi =? mi') && (s =? s') && (ns =? ns')
  | VTimestamp y m d h mi s ns, VTimestamp y' m' d' h' mi' s' ns' =>
      (y =? y') && (m =? m') && (d =? d') && (h =? h') && (mi =? mi') && (s =? s') && (ns =? ns')
  | VInterval a1 a2 a3, VInterval b1 b2 b3 => (a1 =? b1) && (a2 =? b2) && (a3 =? b3)
  | _, _ => false
  end.

Definition obs_eqb (r : res sqlvalue) (o : obs) : bool :=
  match r, o with
  | ROk v, OVal w => tv_eqb v w
  | RErr, OErr => true
  | RPanic k, OPanic n => pk_code k =? n
  | _, _ => false
  end.

Definition interval_as_value (s : str) : res sqlvalue :=
  match interval_new s with
  | ROk i => ROk (interval_value i)
  | RErr => RErr
  | RPanic k => RPanic k
  end.

(** the operations under test *)
Inductive op : Type :=
| PDate (t : text)          (* Date::from_str *)
| PTime (t : text)          (* Time::from_str *)
| PTimestamp (t : text)     (* Timestamp::from_str *)
| PInterval (t : text)      (* Interval::from_str = Ok(Interval::new) *)
| NDate (y m d : Z)         (* Date::new *)
| NTime (h mi s ns : Z).    (* Time::new *)

Definition run_op (o : op) : res sqlvalue :=
  match o with
  | PDate t => parse_date (decode t)
  | PTime t => parse_time (decode t)
  | PTimestamp t => parse_timestamp (decode t)
  | PInterval t => interval_as_value (decode t)
  | NDate y m d => date_new y m d
  | NTime h mi s ns => time_new h mi s ns
  end.

(** parse / constructor cases *)
Definition case_bad (c : Z * op * obs) : bool :=
  match c with (_, o, ob) => negb (obs_eqb (run_op o) ob) end.

(** Display cases: value (fields may be out of the valid range: they are public) and the text
    the implementation printed (through [SqlValue]'s Display, display.rs) *)
Definition show_bad (c : Z * sqlvalue * text) : bool :=
  match c with (_, v, t) =>
    match show_temporal v with Some s => negb (str_eqb s (decode t)) | None => true end
  end.

Definition c22_mismatches (cases : list (Z * op * obs)) (shows : list (Z * sqlvalue * text)) : list Z :=
  map (fun c => fst (fst c)) (filter case_bad cases)
  ++ map (fun c => fst (fst c)) (filter show_bad shows).

(** * Unicode tables: the harness lists every scalar value for which the real
    [char::is_whitespace] holds, and every scalar value whose real [to_uppercase()] is pure ASCII
    (with that upper-case string); the model's tables must give exactly the same lists. *)
Definition is_surrogate (c : Z) : bool := (55296 <=? c) && (c <=? 57343).
(** all scalar values (0..0x10FFFF minus surrogates) satisfying [p], ascending *)
Definition scalars_where (p : Z -> bool) : list Z :=
  snd (Pos.iter
         (fun st : Z * list Z =>
            let c := fst st - 1 in
            (c, if p c && negb (is_surrogate c) then c :: snd st else snd st))
         (1114112, []) 1114112%positive).

Definition is_ascii_str (s : str) : bool := forallb (fun c => c <? 128) s.

Fixpoint zlist_eqb (a b : list Z) : bool :=
  match a, b with
  | [], [] => true
  | x :: a', y :: b' => (x =? y) && zlist_eqb a' b'
  | _, _ => false
  end.

Fixpoint up_eqb (a b : list (Z * list Z)) : bool :=
  match a, b with
  | [], [] => true
  | (x, u) :: a', (y, v) :: b' => (x =? y) && zlist_eqb u v && up_eqb a' b'
  | _, _ => false
  end.

(** ids 1 and 2 are reserved for the two tables *)
Definition c22_unicode_mismatches (ws_obs : list Z) (up_obs : list (Z * list Z)) : list Z :=
  (if zlist_eqb (scalars_where is_ws) ws_obs then [] else [1])
  ++ (if up_eqb (map (fun c => (c, upper_cp c)) (scalars_where (fun c => is_ascii_str (upper_cp c)))) up_obs
      then [] else [2]).
