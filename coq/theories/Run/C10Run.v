(** Correspondence runner for C10 / C15: replays a history on the model ([Store.Dml.step]) and
    compares, after EVERY statement, the implementation's result class and the observed state of
    the tables the harness dumped (rows in storage order, primary-key / UNIQUE hash maps, the
    append-mode flag, every user-defined index's BTreeMap) with the model's state.
    Executable definitions only. *)
From Coq Require Import List ZArith Bool Arith.
From VibeSQL Require Import Store.Table Store.UserIndex Store.Constraints Store.Dml.
Import ListNotations.
Local Open Scope Z_scope.

(** rows travel as [list Z] with a sentinel for NULL (never generated as a value) *)
Definition NULLC : Z := -7777777.
Definition dv (z : Z) : val := if z =? NULLC then None else Some z.
Definition dr (l : list Z) : row := map dv l.
Definition drs (l : list (list Z)) : list row := map dr l.

(** observed table: rows, pk map, unique maps, append mode, user indexes (name, data) *)
Record otable := {
  o_rows : list (list Z);
  o_pk : option (list (list Z * nat));
  o_uq : list (list (list Z * nat));
  o_mode : bool;
  o_uidx : list (Z * list (list Z * list nat));
}.

Definition OT := Build_otable.

(** result codes: n >= 0 rows / done, -1 any error, -2 panic *)
Definition result_code (r : result) : Z :=
  match r with
  | ROk n => Z.of_nat n
  | RErrConstraint | RErrStorage | RErrOther => -1
  | RPanic => -2
  end.

Fixpoint rows_eqb (a b : list row) : bool :=
  match a, b with
  | [], [] => true
  | x :: a', y :: b' => key_eqb x y && rows_eqb a' b'
  | _, _ => false
  end.

Fixpoint ids_eqb (a b : list nat) : bool :=
  match a, b with
  | [], [] => true
  | x :: a', y :: b' => Nat.eqb x y && ids_eqb a' b'
  | _, _ => false
  end.

(** equality of finite maps with duplicate-free keys: same size and inclusion *)
Definition map_eqb {V} (veqb : V -> V -> bool) (m : amap V) (o : list (list Z * V)) : bool :=
  Nat.eqb (length m) (length o)
  && forallb (fun p => match am_find (dr (fst p)) m with Some v => veqb v (snd p) | None => false end) o.

Definition pk_eqb (m : option (amap nat)) (o : option (list (list Z * nat))) : bool :=
  match m, o with
  | Some m, Some o => map_eqb Nat.eqb m o
  | None, None => true
  | _, _ => false
  end.

Fixpoint uq_eqb (ms : list (amap nat)) (os : list (list (list Z * nat))) : bool :=
  match ms, os with
  | [], [] => true
  | m :: ms', o :: os' => map_eqb Nat.eqb m o && uq_eqb ms' os'
  | _, _ => false
  end.

Definition find_uidx (name : Z) (us : list uindex) : option uindex :=
  find (fun u => Z.eqb (ui_name u) name) us.

Definition uidx_eqb (us : list uindex) (os : list (Z * list (list Z * list nat))) : bool :=
  Nat.eqb (length us) (length os)
  && forallb (fun p => match find_uidx (fst p) us with
                       | Some u => map_eqb ids_eqb (ui_data u) (snd p)
                       | None => false end) os.

Definition table_eqb (t : table) (o : otable) : bool :=
  rows_eqb (t_rows t) (drs (o_rows o))
  && pk_eqb (t_pkidx t) (o_pk o)
  && uq_eqb (t_uqidx t) (o_uq o)
  && Bool.eqb (tr_mode (t_trk t)) (o_mode o)
  && uidx_eqb (t_uidx t) (o_uidx o).

Definition obs := (Z * list (nat * otable))%type.

Definition obs_ok (d : db) (r : result) (o : obs) : bool :=
  (result_code r =? fst o)
  && forallb (fun p => match nth_error (d_tabs d) (fst p) with
                       | Some t => table_eqb t (snd p)
                       | None => false end) (snd o).

(** replay; the comparison of a history stops at its first disagreement (the model state is
    meaningless afterwards).  Case id of statement j of a history = base + j. *)
Fixpoint run_cmp (base : Z) (d : db) (ss : list stmt) (os : list obs) (j : Z) : list Z :=
  match ss, os with
  | [], [] => []
  | s :: ss', o :: os' =>
      let '(d', r) := step d s in
      if obs_ok d' r o then run_cmp base d' ss' os' (j + 1) else [base + j]
  | _, _ => [base + 999]
  end.

Definition history := (Z * list schema * list stmt * list obs)%type.

Definition c10_mismatches (hs : list history) : list Z :=
  flat_map (fun h => let '(base, schemas, ss, os) := h in run_cmp base (db_init schemas) ss os 0) hs.
