(** Correspondence runner for C25.  Executable definitions only.

    The harness (harness/src/bin/c25.rs) runs the real [QuerySignature::from_sql], the real
    [extract_tables_from_select], the real [QueryResultCache] and the adapter protocol around it, and
    writes what it observed; the functions below replay the same inputs through the model
    (Lex/Normalize.v, Lex/SipHash.v, Store/Cache.v, Store/CacheTables.v) and return the ids of the
    cases on which model and implementation disagree.

    - [c25_char_mism]: per code point, [char::is_whitespace] and [char::to_lowercase];
    - [c25_sig_mism]: per text, [QuerySignature::from_sql(text).hash()];
    - [c25_nq_mism]: per text, the repaired (quote-aware) normaliser used by the finding classifier;
    - [c25_pool_mism]: per pooled query, the signature, the executor crate's extracted table set and the
      adapter extractor's table set (set comparison: the Rust results are HashSets);
    - [c25_trace_mism]: raw cache traces (get / insert with the observed victim / invalidate_table /
      contains / clear, with the size after every mutation);
    - [c25_hist_mism]: adapter-protocol histories.  The model's [Cache.step] is instantiated with the
      trivial database: a read carries the result the real executor returned for it at that moment (the
      oracle table the model needs on a miss), so [exec _ q := snd q].  The model must predict, for every
      read, hit or miss and the returned rows (including the stale and foreign hits of the coded
      protocol), and accept the observed eviction victim. *)
From Coq Require Import List ZArith Bool.
From VibeSQL Require Import Lex.Normalize Lex.SipHash Store.Cache Store.CacheTables.
Import ListNotations.
Open Scope Z_scope.

(** named code points: identifiers elaborate much faster than number notations in the case files *)
Definition c0 : Z := 0.
Definition c1 : Z := 1.
Definition c2 : Z := 2.
Definition c3 : Z := 3.
Definition c4 : Z := 4.
Definition c5 : Z := 5.
Definition c6 : Z := 6.
Definition c7 : Z := 7.
Definition c8 : Z := 8.
Definition c9 : Z := 9.
Definition c10 : Z := 10.
Definition c11 : Z := 11.
Definition c12 : Z := 12.
Definition c13 : Z := 13.
Definition c14 : Z := 14.
Definition c15 : Z := 15.
Definition c16 : Z := 16.
Definition c17 : Z := 17.
Definition c18 : Z := 18.
Definition c19 : Z := 19.
Definition c20 : Z := 20.
Definition c21 : Z := 21.
Definition c22 : Z := 22.
Definition c23 : Z := 23.
Definition c24 : Z := 24.
Definition c25 : Z := 25.
Definition c26 : Z := 26.
Definition c27 : Z := 27.
Definition c28 : Z := 28.
Definition c29 : Z := 29.
Definition c30 : Z := 30.
Definition c31 : Z := 31.
Definition c32 : Z := 32.
Definition c33 : Z := 33.
Definition c34 : Z := 34.
Definition c35 : Z := 35.
Definition c36 : Z := 36.
Definition c37 : Z := 37.
Definition c38 : Z := 38.
Definition c39 : Z := 39.
Definition c40 : Z := 40.
Definition c41 : Z := 41.
Definition c42 : Z := 42.
Definition c43 : Z := 43.
Definition c44 : Z := 44.
Definition c45 : Z := 45.
Definition c46 : Z := 46.
Definition c47 : Z := 47.
Definition c48 : Z := 48.
Definition c49 : Z := 49.
Definition c50 : Z := 50.
Definition c51 : Z := 51.
Definition c52 : Z := 52.
Definition c53 : Z := 53.
Definition c54 : Z := 54.
Definition c55 : Z := 55.
Definition c56 : Z := 56.
Definition c57 : Z := 57.
Definition c58 : Z := 58.
Definition c59 : Z := 59.
Definition c60 : Z := 60.
Definition c61 : Z := 61.
Definition c62 : Z := 62.
Definition c63 : Z := 63.
Definition c64 : Z := 64.
Definition c65 : Z := 65.
Definition c66 : Z := 66.
Definition c67 : Z := 67.
Definition c68 : Z := 68.
Definition c69 : Z := 69.
Definition c70 : Z := 70.
Definition c71 : Z := 71.
Definition c72 : Z := 72.
Definition c73 : Z := 73.
Definition c74 : Z := 74.
Definition c75 : Z := 75.
Definition c76 : Z := 76.
Definition c77 : Z := 77.
Definition c78 : Z := 78.
Definition c79 : Z := 79.
Definition c80 : Z := 80.
Definition c81 : Z := 81.
Definition c82 : Z := 82.
Definition c83 : Z := 83.
Definition c84 : Z := 84.
Definition c85 : Z := 85.
Definition c86 : Z := 86.
Definition c87 : Z := 87.
Definition c88 : Z := 88.
Definition c89 : Z := 89.
Definition c90 : Z := 90.
Definition c91 : Z := 91.
Definition c92 : Z := 92.
Definition c93 : Z := 93.
Definition c94 : Z := 94.
Definition c95 : Z := 95.
Definition c96 : Z := 96.
Definition c97 : Z := 97.
Definition c98 : Z := 98.
Definition c99 : Z := 99.
Definition c100 : Z := 100.
Definition c101 : Z := 101.
Definition c102 : Z := 102.
Definition c103 : Z := 103.
Definition c104 : Z := 104.
Definition c105 : Z := 105.
Definition c106 : Z := 106.
Definition c107 : Z := 107.
Definition c108 : Z := 108.
Definition c109 : Z := 109.
Definition c110 : Z := 110.
Definition c111 : Z := 111.
Definition c112 : Z := 112.
Definition c113 : Z := 113.
Definition c114 : Z := 114.
Definition c115 : Z := 115.
Definition c116 : Z := 116.
Definition c117 : Z := 117.
Definition c118 : Z := 118.
Definition c119 : Z := 119.
Definition c120 : Z := 120.
Definition c121 : Z := 121.
Definition c122 : Z := 122.
Definition c123 : Z := 123.
Definition c124 : Z := 124.
Definition c125 : Z := 125.
Definition c126 : Z := 126.
Definition c127 : Z := 127.
Definition c128 : Z := 128.
Definition c129 : Z := 129.
Definition c130 : Z := 130.
Definition c131 : Z := 131.
Definition c132 : Z := 132.
Definition c133 : Z := 133.
Definition c134 : Z := 134.
Definition c135 : Z := 135.
Definition c136 : Z := 136.
Definition c137 : Z := 137.
Definition c138 : Z := 138.
Definition c139 : Z := 139.
Definition c140 : Z := 140.
Definition c141 : Z := 141.
Definition c142 : Z := 142.
Definition c143 : Z := 143.
Definition c144 : Z := 144.
Definition c145 : Z := 145.
Definition c146 : Z := 146.
Definition c147 : Z := 147.
Definition c148 : Z := 148.
Definition c149 : Z := 149.
Definition c150 : Z := 150.
Definition c151 : Z := 151.
Definition c152 : Z := 152.
Definition c153 : Z := 153.
Definition c154 : Z := 154.
Definition c155 : Z := 155.
Definition c156 : Z := 156.
Definition c157 : Z := 157.
Definition c158 : Z := 158.
Definition c159 : Z := 159.
Definition c160 : Z := 160.
Definition c161 : Z := 161.
Definition c162 : Z := 162.
Definition c163 : Z := 163.
Definition c164 : Z := 164.
Definition c165 : Z := 165.
Definition c166 : Z := 166.
Definition c167 : Z := 167.
Definition c168 : Z := 168.
Definition c169 : Z := 169.
Definition c170 : Z := 170.
Definition c171 : Z := 171.
Definition c172 : Z := 172.
Definition c173 : Z := 173.
Definition c174 : Z := 174.
Definition c175 : Z := 175.
Definition c176 : Z := 176.
Definition c177 : Z := 177.
Definition c178 : Z := 178.
Definition c179 : Z := 179.
Definition c180 : Z := 180.
Definition c181 : Z := 181.
Definition c182 : Z := 182.
Definition c183 : Z := 183.
Definition c184 : Z := 184.
Definition c185 : Z := 185.
Definition c186 : Z := 186.
Definition c187 : Z := 187.
Definition c188 : Z := 188.
Definition c189 : Z := 189.
Definition c190 : Z := 190.
Definition c191 : Z := 191.
Definition c192 : Z := 192.
Definition c193 : Z := 193.
Definition c194 : Z := 194.
Definition c195 : Z := 195.
Definition c196 : Z := 196.
Definition c197 : Z := 197.
Definition c198 : Z := 198.
Definition c199 : Z := 199.
Definition c200 : Z := 200.
Definition c201 : Z := 201.
Definition c202 : Z := 202.
Definition c203 : Z := 203.
Definition c204 : Z := 204.
Definition c205 : Z := 205.
Definition c206 : Z := 206.
Definition c207 : Z := 207.
Definition c208 : Z := 208.
Definition c209 : Z := 209.
Definition c210 : Z := 210.
Definition c211 : Z := 211.
Definition c212 : Z := 212.
Definition c213 : Z := 213.
Definition c214 : Z := 214.
Definition c215 : Z := 215.
Definition c216 : Z := 216.
Definition c217 : Z := 217.
Definition c218 : Z := 218.
Definition c219 : Z := 219.
Definition c220 : Z := 220.
Definition c221 : Z := 221.
Definition c222 : Z := 222.
Definition c223 : Z := 223.
Definition c224 : Z := 224.
Definition c225 : Z := 225.
Definition c226 : Z := 226.
Definition c227 : Z := 227.
Definition c228 : Z := 228.
Definition c229 : Z := 229.
Definition c230 : Z := 230.
Definition c231 : Z := 231.
Definition c232 : Z := 232.
Definition c233 : Z := 233.
Definition c234 : Z := 234.
Definition c235 : Z := 235.
Definition c236 : Z := 236.
Definition c237 : Z := 237.
Definition c238 : Z := 238.
Definition c239 : Z := 239.
Definition c240 : Z := 240.
Definition c241 : Z := 241.
Definition c242 : Z := 242.
Definition c243 : Z := 243.
Definition c244 : Z := 244.
Definition c245 : Z := 245.
Definition c246 : Z := 246.
Definition c247 : Z := 247.
Definition c248 : Z := 248.
Definition c249 : Z := 249.
Definition c250 : Z := 250.
Definition c251 : Z := 251.
Definition c252 : Z := 252.
Definition c253 : Z := 253.
Definition c254 : Z := 254.
Definition c255 : Z := 255.

Fixpoint zlist_eqb (a b : list Z) : bool :=
  match a, b with
  | [], [] => true
  | x :: a', y :: b' => (x =? y) && zlist_eqb a' b'
  | _, _ => false
  end.

Definition optz_eqb (a b : option Z) : bool :=
  match a, b with
  | None, None => true
  | Some x, Some y => x =? y
  | _, _ => false
  end.

(** ** code point table: (id, code point, is_whitespace, to_lowercase) *)
Definition c25_char_mism (tbl : list (Z * Z * bool * list Z)) : list Z :=
  flat_map (fun '(id, c, w, l) =>
    if Bool.eqb (is_ws c) w && zlist_eqb (lower_cp c) l && cp_in_scope c then [] else [id]) tbl.

(** ** signatures: (id, text, observed hash) *)
Definition c25_sig_mism (cases : list (Z * list Z * Z)) : list Z :=
  flat_map (fun '(id, s, h) => if (signature s =? h) && in_scope s then [] else [id]) cases.

(** ** the quote-aware normaliser (the repair specification) against the harness's Rust twin, which the
    finding classifier uses for its repaired signatures: (id, text, normalize_q text) *)
Definition c25_nq_mism (cases : list (Z * list Z * list Z)) : list Z :=
  flat_map (fun '(id, s, n) => if zlist_eqb (normalize_q s) n then [] else [id]) cases.

(** ** pooled queries *)
Record pquery : Type := mkPQ {
  pq_id : Z; pq_text : list Z; pq_hash : Z; pq_ast : select; pq_xt : list tname; pq_ax : list tname }.

Definition c25_pool_mism (pool : list pquery) : list Z :=
  flat_map (fun p =>
    if (signature (pq_text p) =? pq_hash p) && in_scope (pq_text p)
       && name_set_eqb (xt_select (pq_ast p)) (pq_xt p)
       && name_set_eqb (ax_select (pq_ast p)) (pq_ax p)
    then [] else [pq_id p]) pool.

(** ** raw cache traces *)
Inductive cop : Type :=
| CGet (k : Z) (obs : option Z)
| CInsert (k : Z) (rows : Z) (tables : list tname) (victim : option Z) (size_after : Z)
| CInval (t : tname) (size_after : Z)
| CContains (k : Z) (obs : bool)
| CClear.

Fixpoint trace_ok (cap : Z) (c : cache Z Z) (ops : list cop) : bool :=
  match ops with
  | [] => true
  | CGet k obs :: r => optz_eqb (get Z Z.eqb Z c k) obs && trace_ok cap c r
  | CInsert k rows tabs v sz :: r =>
    match insert Z Z.eqb Z cap c k (mkEntry rows tabs) v with
    | Some c' => (size Z Z c' =? sz) && trace_ok cap c' r
    | None => false
    end
  | CInval t sz :: r =>
    let c' := invalidate_table Z Z c t in (size Z Z c' =? sz) && trace_ok cap c' r
  | CContains k obs :: r => Bool.eqb (contains Z Z.eqb Z c k) obs && trace_ok cap c r
  | CClear :: r => trace_ok cap (clear Z Z c) r
  end.

Definition c25_trace_mism (traces : list (Z * Z * list cop)) : list Z :=
  flat_map (fun '(id, cap, ops) => if trace_ok cap (empty Z Z) ops then [] else [id]) traces.

(** ** protocol histories *)
Inductive pop : Type :=
| PR (qi : nat) (fresh : option Z) (hit : bool) (ret : option Z) (victim : option Z)
| PW (target : option tname).

Record history : Type := mkH { h_id : Z; h_cap : Z; h_crate_extractor : bool; h_ops : list pop }.

Definition mquery : Type := (nat * option Z)%type.

Definition to_op (p : pop) : op mquery (option tname) * option Z :=
  match p with
  | PR qi fresh _ _ v => (Read (qi, fresh), v)
  | PW t => (Write t, None)
  end.

Definition obs_matches (p : pop) (o : obs Z) : bool :=
  match p, o with
  | PR _ _ true ret _, Hit r => optz_eqb ret (Some r)
  | PR _ _ false ret _, Miss r => optz_eqb ret r
  | PW _, Wrote => true
  | _, _ => false
  end.

Fixpoint all_match (ps : list pop) (os : list (obs Z)) : bool :=
  match ps, os with
  | [], [] => true
  | p :: ps', o :: os' => obs_matches p o && all_match ps' os'
  | _, _ => false
  end.

Definition history_ok (sigs : list Z) (xts axs : list (list tname)) (h : history) : bool :=
  let exts := if h_crate_extractor h then xts else axs in
  match run Z Z.eqb Z unit mquery (option tname)
            (fun _ q => snd q) (fun d _ => d)
            (fun q => nth (fst q) sigs 0) (fun q => nth (fst q) exts [])
            (fun s => s) (h_cap h) (tt, empty Z Z) (map to_op (h_ops h)) with
  | Some (_, os) => all_match (h_ops h) os
  | None => false
  end.

Definition c25_hist_mism (pool : list pquery) (hs : list history) : list Z :=
  let sigs := map (fun p => signature (pq_text p)) pool in
  let xts := map (fun p => xt_select (pq_ast p)) pool in
  let axs := map (fun p => ax_select (pq_ast p)) pool in
  c25_pool_mism pool
  ++ flat_map (fun h => if history_ok sigs xts axs h then [] else [h_id h]) hs.
