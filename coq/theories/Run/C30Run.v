(** Correspondence runner for C30.  Executable definitions only.

    A case is one call sequence on ONE cursor of a fresh connection of the real extension module.
    For every call the shard gives
      - the call: SQL text (code points) and the parameter tuple ([None] = no tuple passed);
      - the oracle entry: what the harness's shadow connection did at this step, namely the statement
        text it executed as plain SQL, whether it parsed, its kind, and the result - or [None] when the
        harness expected no statement to reach the parser (bind error);
      - the observation on the real module: exception class code and what fetchall()/rowcount show
        afterwards.
    The model ([Store/Cursor.v] over [Lex/Placeholder.v]) decides by itself which text reaches the parser
    or which cached statement is executed; parser and executor are instantiated by the oracle entry of
    the step, which answers only for exactly the text it recorded ([XBad] otherwise).  A case id is
    reported when the model's prediction (exception class, result, last result) differs from the
    observation at any call. *)
From Coq Require Import List ZArith Bool String Ascii.
From VibeSQL Require Import Lex.F64Display Lex.Placeholder Lex.PlaceholderFixed Store.Cursor.
Import ListNotations.
Open Scope Z_scope.

(** printable-ASCII texts are written as string literals in the shards (long list literals are slow to parse) *)
Definition T (s : string) : text := map (fun a => Z.of_N (N_of_ascii a)) (list_ascii_of_string s).

(** values as Python shows them *)
Inductive xres : Type :=
| XRows (rows : list (list rval))   (* fetchall() of a SELECT, rows sorted by the driver *)
| XCount (n : Z)                    (* no SELECT result; rowcount *)
| XBad.                             (* the oracle has no answer for the text the model executed *)

Definition rval_eqb (a b : rval) : bool :=
  match a, b with
  | RNull, RNull => true
  | RInt x, RInt y => x =? y
  | RFloat x, RFloat y => x =? y
  | RStr x, RStr y => text_eqb x y
  | RBool x, RBool y => Bool.eqb x y
  | RIdent x, RIdent y => text_eqb x y
  | _, _ => false
  end.

Fixpoint list_eqb {A} (f : A -> A -> bool) (a b : list A) : bool :=
  match a, b with
  | [], [] => true
  | x :: a', y :: b' => f x y && list_eqb f a' b'
  | _, _ => false
  end.

Definition xres_eqb (a b : xres) : bool :=
  match a, b with
  | XRows x, XRows y => list_eqb (list_eqb rval_eqb) x y
  | XCount x, XCount y => x =? y
  | _, _ => false
  end.

Definition oxres_eqb (a b : option xres) : bool :=
  match a, b with
  | None, None => true
  | Some x, Some y => xres_eqb x y
  | _, _ => false
  end.

(** statement = its text and its kind code (1 select, 2 dml, 3 ddl, 4 unsupported; 0 = unknown text) *)
Definition xstmt := (text * Z)%type.

Definition kind_of (s : xstmt) : skind :=
  match snd s with
  | 1 => KSelect | 2 => KDml | 3 => KDdl | 4 => KUnsupported
  | _ => KSelect
  end.

(** oracle entry: text, parse ok, kind code, execution result ([None] = executor error) *)
Definition oentry := (text * bool * Z * option xres)%type.

Definition parse_with (o : option oentry) (t : text) : option xstmt :=
  match o with
  | Some (t', ok, k, _) =>
    if text_eqb t t' then (if ok then Some (t, k) else None) else Some (t, 0)
  | None => Some (t, 0)
  end.

Definition exec_with (o : option oentry) (d : unit) (s : xstmt) : unit * option xres :=
  match o with
  | Some (t', ok, k, r) =>
    if text_eqb (fst s) t' && (snd s =? k) && ok then (d, r) else (d, Some XBad)
  | None => (d, Some XBad)
  end.

Definition xcall := (text * option (list pyval))%type.
(** observation: 0 ok, 1 ProgrammingError, 2 OperationalError, 3 anything else; then fetchall/rowcount *)
Definition xobs := (Z * option xres)%type.

Definition outcome_code (o : outcome xres) : Z :=
  match o with
  | OOk _ => 0
  | OProgBind | OProgParse | OProgUnsupported => 1
  | OOperational => 2
  end.

(** did the model consult the oracle?  a bind error must come with an empty oracle entry *)
Definition entry_consistent (o : option oentry) (out : outcome xres) : bool :=
  match out, o with
  | OProgBind, None => true
  | OProgBind, Some _ => false
  | _, Some _ => true
  | _, None => false
  end.

(** which repairs the source has (read from /repo by the harness): cache keyed by the bound text,
    literal-aware substitution, unrepresentable values refused.  All [false] = the code as it is:
    [execute_v false .. (process_v false false)] is [execute] by computation. *)
Record variant : Type := { v_bound_key : bool; v_literal_aware : bool; v_reject : bool }.
Definition as_is : variant := {| v_bound_key := false; v_literal_aware := false; v_reject := false |}.

Fixpoint seq_ok (v : variant) (cap : nat) (c : cursor xstmt xres) (calls : list xcall) (oracle : list (option oentry))
         (obs : list xobs) : bool :=
  match calls, oracle, obs with
  | [], [], [] => true
  | (sql, ps) :: calls', o :: oracle', (code, fetched) :: obs' =>
    let '(_, c', out) :=
      execute_v xstmt unit xres (parse_with o) kind_of (exec_with o) cap
                (process_v (v_literal_aware v) (v_reject v)) (v_bound_key v) tt c sql ps in
    (outcome_code out =? code) && oxres_eqb (last c') fetched && entry_consistent o out
    && seq_ok v cap c' calls' oracle' obs'
  | _, _, _ => false
  end.

Record c30_case : Type := {
  case_id : Z;
  case_calls : list xcall;
  case_oracle : list (option oentry);
  case_obs : list xobs
}.

Definition c30_mismatches (v : variant) (cap : nat) (cases : list c30_case) : list Z :=
  flat_map (fun k =>
    if seq_ok v cap new_cursor (case_calls k) (case_oracle k) (case_obs k) then [] else [case_id k]) cases.

(** read-back check: [SELECT ?] with one parameter on a fresh cursor.  [obs] = the single value
    returned, or [None] when the call raised *)
Definition readback_ok (rj : bool) (v : pyval) (obs : option rval) : bool :=
  let conv := if rj then py_to_sqlvalue_r v else py_to_sqlvalue v in
  match (match conv with Some b => read_literal (print_value b) | None => None end), obs with
  | Some (RIdent _), None => true          (* a word: column reference -> error *)
  | Some (RIdent _), Some _ => false
  | Some r, Some o => rval_eqb r o
  | None, None => true                     (* unconvertible parameter -> error *)
  | _, _ => false
  end.

Definition c30_readback_mismatches (rj : bool) (cases : list (Z * pyval * option rval)) : list Z :=
  flat_map (fun '(id, v, o) => if readback_ok rj v o then [] else [id]) cases.

(** the specification binder against the harness's reference binder (same text or both refuse) *)
Definition otext_eqb (a b : option text) : bool :=
  match a, b with
  | None, None => true
  | Some x, Some y => text_eqb x y
  | _, _ => false
  end.

Definition c30_spec_mismatches (cases : list (Z * text * list pyval * option text)) : list Z :=
  flat_map (fun '(id, sql, ps, t) => if otext_eqb (bind_spec sql ps) t then [] else [id]) cases.
