(** Correspondence runner for C31.  The harness (harness/src/bin/c31.rs) compiles the CLI's own modules
    (data_io.rs, commands.rs, executor/*.rs) and records, per case, what the real code produced; the
    functions below recompute the same from the model (Codec/Csv.v) and return the ids that disagree.
    Executable definitions only. *)
From Coq Require Import Ascii String.
From Coq Require Import List ZArith Bool.
From VibeSQL Require Import Base.LexOrd Codec.Csv Codec.CsvSpec.
Import ListNotations.
Open Scope Z_scope.

(** text literals of the case files: ASCII-only texts are written as Coq strings *)
Definition cs (s : string) : str := s_of s.

Fixpoint strs_eqb (a b : list str) : bool :=
  match a, b with
  | [], [] => true
  | x :: a', y :: b' => str_eqb x y && strs_eqb a' b'
  | _, _ => false
  end.

Fixpoint rows_eqb (a b : list (list str)) : bool :=
  match a, b with
  | [], [] => true
  | x :: a', y :: b' => strs_eqb x y && rows_eqb a' b'
  | _, _ => false
  end.

Definition is_ok {A} (r : res A) : bool := match r with Ok _ => true | Err _ => false end.

(** -------- prediction of the rows a list of well-shaped statements inserts into a table whose columns
    are all unconstrained text columns: per statement one row, the value of a schema column is the LAST
    listed (column, literal) with that name (ASCII case-insensitively), NULL when not listed.  [None]
    when some statement does not have the INSERT shape (then nothing is predicted). *)
Definition ocell_eqb (a b : option str) : bool :=
  match a, b with
  | None, None => true
  | Some x, Some y => str_eqb x y
  | _, _ => false
  end.
Fixpoint orow_eqb (a b : list (option str)) : bool :=
  match a, b with
  | [], [] => true
  | x :: a', y :: b' => ocell_eqb x y && orow_eqb a' b'
  | _, _ => false
  end.

Fixpoint lookup_last (sc : str) (pairs : list (str * lit)) (found : option str) : option str :=
  match pairs with
  | [] => found
  | (c, v) :: r =>
      if eq_ignore_case sc c
      then lookup_last sc r (match v with LStr s => Some s | LNull => None end)
      else lookup_last sc r found
  end.

(** [None]: the statement does not have the INSERT shape (no prediction);
    [Some None]: well-shaped but names a column the table does not have (the executor rejects it, the
    CLI skips the row with a warning); [Some (Some row)]: the inserted row *)
Definition predict_row (schema : list str) (table stmt : str) : option (option (list (option str))) :=
  match scan_insert table stmt with
  | Some (cols, vals) =>
      if Nat.eqb (length cols) (length vals)
      then if forallb (fun c => existsb (fun sc => eq_ignore_case sc c) schema) cols
           then Some (Some (map (fun sc => lookup_last sc (combine cols vals) None) schema))
           else Some None
      else None
  | None => None
  end.

Fixpoint predict_rows (schema : list str) (table : str) (stmts : list str) : option (list (list (option str))) :=
  match stmts with
  | [] => Some []
  | s :: r =>
      match predict_row schema table s, predict_rows schema table r with
      | Some (Some row), Some rows => Some (row :: rows)
      | Some None, Some rows => Some rows
      | _, _ => None
      end
  end.

(** bag equality (quadratic; the tables are small) *)
Fixpoint remove_first (x : list (option str)) (l : list (list (option str))) : option (list (list (option str))) :=
  match l with
  | [] => None
  | y :: r => if orow_eqb x y then Some r
              else match remove_first x r with Some r' => Some (y :: r') | None => None end
  end.
Fixpoint bag_eqb (a b : list (list (option str))) : bool :=
  match a with
  | [] => match b with [] => true | _ => false end
  | x :: a' => match remove_first x b with Some b' => bag_eqb a' b' | None => false end
  end.

(** -------- cases *)
Inductive c31case :=
(** [\copy t FROM f.csv]: schema = column names of the target ([None]: no such table);
    obs_ok/obs_stmts = real validate_csv_columns followed by real import_csv;
    hc_ok = real handle_copy returned Ok;
    rows = rows found in the (initially empty, all-text) target afterwards, [None] when not applicable *)
| KCsvImp (id : Z) (schema : option (list str)) (file table : str)
          (obs_ok : bool) (obs_stmts : list str) (hc_ok : bool) (rows : option (list (list (option str))))
| KJsonImp (id : Z) (schema : option (list str)) (file : option (list jobj)) (table : str)
           (obs_ok : bool) (obs_stmts : list str) (hc_ok : bool) (rows : option (list (list (option str))))
(** [\copy t TO f.csv / f.json] of a table holding [rows] (in the order SELECT * returned them) *)
| KExport (id : Z) (rows : list (list cell)) (obs_csv obs_json : str)
(** DataIO::export_csv / export_json called on a hand-made QueryResult *)
| KWriter (id : Z) (columns : list str) (rows : list (list str)) (obs_csv obs_json : str)
(** MetaCommand::parse on a line whose first word starts with a backslash *)
| KParse (id : Z) (line : str) (obs : option (str * str * bool * bool))
(** a generated statement as the REAL parser reads it: [Some (columns, literals)] when it is a one-row
    INSERT ... VALUES of string/NULL literals into [table].  One direction: whatever the scanner of
    CsvSpec.v accepts, the parser must read the same way (column names up to ASCII case). *)
| KStmt (id : Z) (table stmt : str) (obs : option (list str * list lit))
(** [format!("{:?}", SqlValue)] of one cell *)
| KFmt (id : Z) (c : cell) (obs : str)
(** every scalar value below 0x110000 for which [char::is_whitespace] holds, ascending *)
| KWs (id : Z) (points : list Z)
(** the harness's RFC 4180 oracle agrees with the specification reader/writer *)
| KRfcRead (id : Z) (file : str) (obs : option (list (list str)))
| KRfcWrite (id : Z) (rows : list (list str)) (obs : str).

Definition check_import (id : Z) (schema : option (list str)) (table : str) (model : res (list str))
    (obs_ok : bool) (obs_stmts : list str) (hc_ok : bool) (rows : option (list (list (option str)))) : list Z :=
  let agree :=
    match model with
    | Ok stmts =>
        obs_ok && hc_ok && strs_eqb stmts obs_stmts
        && match rows, schema with
           | Some observed, Some sch =>
               match predict_rows sch table stmts with
               | Some predicted => bag_eqb predicted observed
               | None => true
               end
           | _, _ => true
           end
    | Err _ => negb obs_ok && negb hc_ok
               && match rows with Some (_ :: _) => false | _ => true end
    end in
  if agree then [] else [id].

Definition parse_obs (p : option (str * str * direction * format)) : option (str * str * bool * bool) :=
  match p with
  | Some (t, f, d, fm) =>
      Some (t, f, match d with Import => true | Export => false end, match fm with FJson => true | FCsv => false end)
  | None => None
  end.
Definition parse_obs_eqb (a b : option (str * str * bool * bool)) : bool :=
  match a, b with
  | None, None => true
  | Some (t, f, d, j), Some (t', f', d', j') => str_eqb t t' && str_eqb f f' && Bool.eqb d d' && Bool.eqb j j'
  | _, _ => false
  end.

Definition lit_eqb (a b : lit) : bool :=
  match a, b with
  | LNull, LNull => true
  | LStr x, LStr y => str_eqb x y
  | _, _ => false
  end.
Fixpoint lits_eqb (a b : list lit) : bool :=
  match a, b with
  | [], [] => true
  | x :: a', y :: b' => lit_eqb x y && lits_eqb a' b'
  | _, _ => false
  end.
Fixpoint cols_eqb (a b : list str) : bool :=
  match a, b with
  | [], [] => true
  | x :: a', y :: b' => eq_ignore_case x y && cols_eqb a' b'
  | _, _ => false
  end.

Definition ws_points : list Z :=
  rev (snd (N.iter 1114112 (fun st : Z * list Z => let (c, acc) := st in (c + 1, if is_ws c then c :: acc else acc)) (0, []))).

Definition check_case (c : c31case) : list Z :=
  match c with
  | KCsvImp id schema file table obs_ok obs_stmts hc_ok rows =>
      check_import id schema table (copy_import_csv schema file table) obs_ok obs_stmts hc_ok rows
  | KJsonImp id schema file table obs_ok obs_stmts hc_ok rows =>
      check_import id schema table (copy_import_json schema file table) obs_ok obs_stmts hc_ok rows
  | KExport id rows obs_csv obs_json =>
      if str_eqb (copy_export_csv rows) obs_csv && str_eqb (copy_export_json rows) obs_json then [] else [id]
  | KWriter id columns rows obs_csv obs_json =>
      if str_eqb (export_csv columns rows) obs_csv && str_eqb (export_json columns rows) obs_json then [] else [id]
  | KParse id line obs =>
      if parse_obs_eqb (parse_obs (parse_copy line)) obs then [] else [id]
  | KStmt id table stmt obs =>
      match scan_insert table stmt with
      | None => []
      | Some (cols, vals) =>
          match obs with
          | Some (cols', vals') => if cols_eqb cols cols' && lits_eqb vals vals' then [] else [id]
          | None => [id]
          end
      end
  | KFmt id c obs => if str_eqb (fmt_cell c) obs then [] else [id]
  | KWs id points => if str_eqb ws_points points then [] else [id]
  | KRfcRead id file obs =>
      match rfc_read file, obs with
      | None, None => []
      | Some a, Some b => if rows_eqb a b then [] else [id]
      | _, _ => [id]
      end
  | KRfcWrite id rows obs =>
      if str_eqb (rfc_write rows) obs then [] else [id]
  end.

Definition c31_mismatches (cases : list c31case) : list Z := flat_map check_case cases.
