(** Views and (non-recursive) CTEs (C32): a reference to view / CTE [i] denotes its defining query as a
    derived table.  The reference semantics gives them meaning by EXPANSION: [expand vs q] replaces every
    [FView i w] by [FSub (defining query i, itself expanded) w]; a query with views is then evaluated
    as [run_query d (expand vs q)].  Definitions may refer to EARLIER definitions only (as CREATE VIEW
    and WITH do), which is what makes expansion terminate: definition [i] is expanded with the
    definitions before it.  Executable definitions. *)
From Coq Require Import List ZArith Bool.
From VibeSQL Require Import Base.LexOrd Sem.Syntax Sem.Rel Sem.Eval.
Import ListNotations.

(** [vs] : already expanded definitions (no FView inside), in creation order *)
Fixpoint expand_expr (fuel : nat) (vs : list query) (e : expr) {struct fuel} : expr :=
  match fuel with
  | O => e
  | S f =>
      match e with
      | ECol _ _ | EConst _ => e
      | EBin op a b => EBin op (expand_expr f vs a) (expand_expr f vs b)
      | ENot a => ENot (expand_expr f vs a)
      | EIsNull a n => EIsNull (expand_expr f vs a) n
      | EBetween a lo hi n => EBetween (expand_expr f vs a) (expand_expr f vs lo) (expand_expr f vs hi) n
      | EInList a l n => EInList (expand_expr f vs a) (map (expand_expr f vs) l) n
      | ECase ws els => ECase (map (fun ct => (expand_expr f vs (fst ct), expand_expr f vs (snd ct))) ws)
                              (option_map (expand_expr f vs) els)
      | ECoalesce l => ECoalesce (map (expand_expr f vs) l)
      | EScalar q => EScalar (expand_query f vs q)
      | EInSub a q n => EInSub (expand_expr f vs a) (expand_query f vs q) n
      | EExists q n => EExists (expand_query f vs q) n
      end
  end
with expand_query (fuel : nat) (vs : list query) (q : query) {struct fuel} : query :=
  match fuel with
  | O => q
  | S f =>
      match q with
      | QSetOp op all l r => QSetOp op all (expand_query f vs l) (expand_query f vs r)
      | QSelect d from w g h p o lim off =>
          QSelect d (map (expand_from f vs) from) (option_map (expand_expr f vs) w)
                  (option_map (fun ka : list expr * list (aggfn * bool * expr) =>
                                 (map (expand_expr f vs) (fst ka),
                                  map (fun a : aggfn * bool * expr => (fst a, expand_expr f vs (snd a))) (snd ka))) g)
                  (option_map (expand_expr f vs) h) (map (expand_expr f vs) p) o lim off
      end
  end
with expand_from (fuel : nat) (vs : list query) (fi : fromitem) {struct fuel} : fromitem :=
  match fuel with
  | O => fi
  | S f =>
      match fi with
      | FTable n w => FTable n w
      | FSub q w => FSub (expand_query f vs q) w
      | FJoin k l r on => FJoin k (expand_from f vs l) (expand_from f vs r) (expand_expr f vs on)
      | FView i w => match nth_error vs i with Some def => FSub def w | None => FView i w end
      end
  end.

(** definitions in creation order: each is expanded with the (expanded) earlier ones *)
Definition expand_defs (fuel : nat) (defs : list query) : list query :=
  fold_left (fun vs def => vs ++ [expand_query fuel vs def]) defs [].

(** the meaning of a query that references views / CTEs *)
Definition run_query_with_views (d : db) (defs : list query) (q : query) : res (list row) :=
  run_query d (expand_query 64 (expand_defs 64 defs) q).

(** does a query still contain a view reference? *)
Fixpoint has_view_expr (fuel : nat) (e : expr) {struct fuel} : bool :=
  match fuel with
  | O => true
  | S f =>
      match e with
      | ECol _ _ | EConst _ => false
      | EBin _ a b => has_view_expr f a || has_view_expr f b
      | ENot a | EIsNull a _ => has_view_expr f a
      | EBetween a lo hi _ => has_view_expr f a || has_view_expr f lo || has_view_expr f hi
      | EInList a l _ => has_view_expr f a || existsb (has_view_expr f) l
      | ECase ws els => existsb (fun ct => has_view_expr f (fst ct) || has_view_expr f (snd ct)) ws
                        || match els with Some e' => has_view_expr f e' | None => false end
      | ECoalesce l => existsb (has_view_expr f) l
      | EScalar q | EExists q _ => has_view_query f q
      | EInSub a q _ => has_view_expr f a || has_view_query f q
      end
  end
with has_view_query (fuel : nat) (q : query) {struct fuel} : bool :=
  match fuel with
  | O => true
  | S f =>
      match q with
      | QSetOp _ _ l r => has_view_query f l || has_view_query f r
      | QSelect _ from w g h p _ _ _ =>
          existsb (has_view_from f) from
          || match w with Some e => has_view_expr f e | None => false end
          || match g with
             | Some (ks, aggs) => existsb (has_view_expr f) ks || existsb (fun a : aggfn * bool * expr => has_view_expr f (snd a)) aggs
             | None => false
             end
          || match h with Some e => has_view_expr f e | None => false end
          || existsb (has_view_expr f) p
      end
  end
with has_view_from (fuel : nat) (fi : fromitem) {struct fuel} : bool :=
  match fuel with
  | O => true
  | S f =>
      match fi with
      | FTable _ _ => false
      | FSub q _ => has_view_query f q
      | FJoin _ l r on => has_view_from f l || has_view_from f r || has_view_expr f on
      | FView _ _ => true
      end
  end.
