(** Reference SQL semantics — value operations and relational combinators (executable, no proofs). *)
From Coq Require Import List ZArith Bool.
From VibeSQL Require Import Base.LexOrd Sem.Syntax.
Import ListNotations.
Open Scope Z_scope.

(** * Results *)
Inductive res (A : Type) : Type :=
| Ok (a : A)
| Err (code : Z).     (* 1 type error, 2 cardinality (scalar subquery), 3 out of fuel, 4 bad column / arity *)
Arguments Ok {A} a.
Arguments Err {A} code.

Definition bind {A B} (r : res A) (f : A -> res B) : res B :=
  match r with Ok a => f a | Err c => Err c end.
Notation "'do' x <- r ; k" := (bind r (fun x => k)) (at level 200, x name, r at level 100, k at level 200).

Fixpoint mapM {A B} (f : A -> res B) (l : list A) : res (list B) :=
  match l with
  | [] => Ok []
  | x :: r => do y <- f x; do ys <- mapM f r; Ok (y :: ys)
  end.

Fixpoint filterM {A} (f : A -> res bool) (l : list A) : res (list A) :=
  match l with
  | [] => Ok []
  | x :: r => do b <- f x; do ys <- filterM f r; Ok (if b then x :: ys else ys)
  end.

(** * Values *)
Definition value_eqb (a b : value) : bool :=
  match a, b with
  | VNull, VNull => true
  | VInt x, VInt y => x =? y
  | VStr x, VStr y => match lex_compare x y with Eq => true | _ => false end
  | VBool x, VBool y => Bool.eqb x y
  | _, _ => false
  end.

Fixpoint row_eqb (a b : row) : bool :=
  match a, b with
  | [], [] => true
  | x :: a', y :: b' => value_eqb x y && row_eqb a' b'
  | _, _ => false
  end.

(** a total order on values, used only to canonicalise bags for comparison:
    NULL < integers < strings < booleans *)
Definition value_rank (v : value) : Z :=
  match v with VNull => 0 | VInt _ => 1 | VStr _ => 2 | VBool _ => 3 end.

Definition value_compare (a b : value) : comparison :=
  match a, b with
  | VInt x, VInt y => x ?= y
  | VStr x, VStr y => lex_compare x y
  | VBool x, VBool y => match x, y with false, true => Lt | true, false => Gt | _, _ => Eq end
  | _, _ => value_rank a ?= value_rank b
  end.

Fixpoint row_compare (a b : row) : comparison :=
  match a, b with
  | [], [] => Eq
  | [], _ :: _ => Lt
  | _ :: _, [] => Gt
  | x :: a', y :: b' => match value_compare x y with Eq => row_compare a' b' | c => c end
  end.

(** SQL comparison: NULL if either side is NULL; integers with integers, strings with strings,
    booleans with booleans; anything else is a type error. *)
Definition sql_compare (a b : value) : res (option comparison) :=
  match a, b with
  | VNull, _ => Ok None
  | _, VNull => Ok None
  | VInt x, VInt y => Ok (Some (x ?= y))
  | VStr x, VStr y => Ok (Some (lex_compare x y))
  | VBool x, VBool y => Ok (Some (value_compare a b))
  | _, _ => Err 1
  end.

Definition cmp_test (op : binop) (c : comparison) : bool :=
  match op, c with
  | OEq, Eq => true
  | ONe, Lt | ONe, Gt => true
  | OLt, Lt => true
  | OLe, Lt | OLe, Eq => true
  | OGt, Gt => true
  | OGe, Gt | OGe, Eq => true
  | _, _ => false
  end.

(** Kleene three-valued connectives on VBool / VNull *)
Definition tv_and (a b : value) : res value :=
  match a, b with
  | VBool false, (VBool _ | VNull) => Ok (VBool false)
  | (VBool _ | VNull), VBool false => Ok (VBool false)
  | VBool true, VBool true => Ok (VBool true)
  | VNull, (VBool true | VNull) => Ok VNull
  | VBool true, VNull => Ok VNull
  | _, _ => Err 1
  end.

Definition tv_or (a b : value) : res value :=
  match a, b with
  | VBool true, (VBool _ | VNull) => Ok (VBool true)
  | (VBool _ | VNull), VBool true => Ok (VBool true)
  | VBool false, VBool false => Ok (VBool false)
  | VNull, (VBool false | VNull) => Ok VNull
  | VBool false, VNull => Ok VNull
  | _, _ => Err 1
  end.

Definition tv_not (a : value) : res value :=
  match a with
  | VBool b => Ok (VBool (negb b))
  | VNull => Ok VNull
  | _ => Err 1
  end.

Definition is_true (v : value) : bool := match v with VBool true => true | _ => false end.
Definition is_null (v : value) : bool := match v with VNull => true | _ => false end.

Definition arith (op : binop) (x y : Z) : Z :=
  match op with OAdd => x + y | OSub => x - y | _ => x * y end.

Definition eval_binop (op : binop) (a b : value) : res value :=
  match op with
  | OAdd | OSub | OMul =>
      match a, b with
      | VNull, (VNull | VInt _) => Ok VNull
      | VInt _, VNull => Ok VNull
      | VInt x, VInt y => Ok (VInt (arith op x y))
      | _, _ => Err 1
      end
  | OAnd => tv_and a b
  | OOr => tv_or a b
  | _ =>
      do c <- sql_compare a b;
      Ok (match c with None => VNull | Some c => VBool (cmp_test op c) end)
  end.

(** * Bags *)
Fixpoint mem_row (r : row) (l : list row) : bool :=
  match l with [] => false | x :: l' => row_eqb r x || mem_row r l' end.

(** DISTINCT: keep the first occurrence of each row *)
Fixpoint distinct_rows_acc (seen : list row) (l : list row) : list row :=
  match l with
  | [] => []
  | x :: l' => if mem_row x seen then distinct_rows_acc seen l' else x :: distinct_rows_acc (x :: seen) l'
  end.
Definition distinct_rows (l : list row) : list row := distinct_rows_acc [] l.

(** remove one occurrence *)
Fixpoint remove_one (r : row) (l : list row) : option (list row) :=
  match l with
  | [] => None
  | x :: l' => if row_eqb r x then Some l'
               else match remove_one r l' with Some l'' => Some (x :: l'') | None => None end
  end.

(** bag difference (EXCEPT ALL) and bag intersection (INTERSECT ALL) *)
Fixpoint bag_except (l r : list row) : list row :=
  match l with
  | [] => []
  | x :: l' => match remove_one x r with
               | Some r' => bag_except l' r'
               | None => x :: bag_except l' r
               end
  end.

Fixpoint bag_intersect (l r : list row) : list row :=
  match l with
  | [] => []
  | x :: l' => match remove_one x r with
               | Some r' => x :: bag_intersect l' r'
               | None => bag_intersect l' r
               end
  end.

Definition apply_setop (op : setop) (all : bool) (l r : list row) : list row :=
  match op, all with
  | SUnion, true => l ++ r
  | SUnion, false => distinct_rows (l ++ r)
  | SIntersect, true => bag_intersect l r
  | SIntersect, false => distinct_rows (filter (fun x => mem_row x r) l)
  | SExcept, true => bag_except l r
  | SExcept, false => distinct_rows (filter (fun x => negb (mem_row x r)) l)
  end.

(** cross product of two row lists (left-major) *)
Definition cross (l r : list row) : list row :=
  flat_map (fun x => map (fun y => x ++ y) r) l.

(** * Sorting (ORDER BY): stable insertion sort *)
(** order on a single sort key: NULLs last whatever the direction *)
Definition key_compare (desc : bool) (a b : value) : comparison :=
  match a, b with
  | VNull, VNull => Eq
  | VNull, _ => Gt
  | _, VNull => Lt
  | _, _ => if desc then value_compare b a else value_compare a b
  end.

Fixpoint keys_compare (ks : list (nat * bool)) (a b : row) : comparison :=
  match ks with
  | [] => Eq
  | (i, desc) :: ks' =>
      match key_compare desc (nth i a VNull) (nth i b VNull) with
      | Eq => keys_compare ks' a b
      | c => c
      end
  end.

Definition row_le (ks : list (nat * bool)) (a b : row) : bool :=
  match keys_compare ks a b with Gt => false | _ => true end.

Fixpoint insert_sorted (le : row -> row -> bool) (x : row) (l : list row) : list row :=
  match l with
  | [] => [x]
  | y :: l' => if le x y then x :: y :: l' else y :: insert_sorted le x l'
  end.

(** stable: elements are inserted from the right, and an element goes before the first
    element it is <= to, so equal elements keep their input order *)
Definition sort_rows (le : row -> row -> bool) (l : list row) : list row :=
  fold_right (insert_sorted le) [] l.

Definition limit_offset (limit offset : option nat) (l : list row) : list row :=
  let l1 := match offset with Some m => skipn m l | None => l end in
  match limit with Some n => firstn n l1 | None => l1 end.

(** * Grouping: groups in first-occurrence order of their key *)
Fixpoint group_insert (k : row) (r : row) (gs : list (row * list row)) : list (row * list row) :=
  match gs with
  | [] => [(k, [r])]
  | (k', rs) :: gs' => if row_eqb k k' then (k', rs ++ [r]) :: gs' else (k', rs) :: group_insert k r gs'
  end.

Definition group_rows (keyed : list (row * row)) : list (row * list row) :=
  fold_left (fun gs kr => group_insert (fst kr) (snd kr) gs) keyed [].

(** * Aggregates over the list of argument values of one group *)
Fixpoint distinct_values_acc (seen : list value) (l : list value) : list value :=
  match l with
  | [] => []
  | x :: l' => if existsb (value_eqb x) seen then distinct_values_acc seen l'
               else x :: distinct_values_acc (x :: seen) l'
  end.

Definition non_null (l : list value) : list value := filter (fun v => negb (is_null v)) l.

Fixpoint sum_ints (l : list value) : res Z :=
  match l with
  | [] => Ok 0
  | VInt x :: l' => do s <- sum_ints l'; Ok (x + s)
  | _ => Err 1
  end.

Fixpoint extremum (want : comparison) (best : value) (l : list value) : res value :=
  match l with
  | [] => Ok best
  | x :: l' =>
      do c <- sql_compare x best;
      match c with
      | Some c => extremum want (if match c, want with Lt, Lt | Gt, Gt => true | _, _ => false end then x else best) l'
      | None => Err 1
      end
  end.

Definition eval_agg (f : aggfn) (dist : bool) (nrows : nat) (args : list value) : res value :=
  let vs := non_null args in
  let vs := if dist then distinct_values_acc [] vs else vs in
  match f with
  | ACountStar => Ok (VInt (Z.of_nat nrows))
  | ACount => Ok (VInt (Z.of_nat (length vs)))
  | ASum => match vs with [] => Ok VNull | _ => do s <- sum_ints vs; Ok (VInt s) end
  | AMin => match vs with [] => Ok VNull | x :: r => extremum Lt x r end
  | AMax => match vs with [] => Ok VNull | x :: r => extremum Gt x r end
  end.
