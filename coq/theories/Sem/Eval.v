(** Reference SQL semantics — the evaluator (executable, by recursion on explicit fuel). *)
From Coq Require Import List ZArith Bool.
From VibeSQL Require Import Base.LexOrd Sem.Syntax Sem.Rel.
Import ListNotations.
Open Scope Z_scope.

Definition lookup_col (env : list row) (depth idx : nat) : res value :=
  match nth_error env depth with
  | Some r => match nth_error r idx with Some v => Ok v | None => Err 4 end
  | None => Err 4
  end.

(** first non-NULL (COALESCE) *)
Fixpoint first_non_null (l : list value) : value :=
  match l with
  | [] => VNull
  | VNull :: l' => first_non_null l'
  | v :: _ => v
  end.

(** [x IN (v1..vn)] under 3VL: TRUE if some vi = x is TRUE; else NULL if any comparison is NULL;
    else FALSE *)
Fixpoint in_values (x : value) (l : list value) (seen_null : bool) : res value :=
  match l with
  | [] => Ok (if seen_null then VNull else VBool false)
  | v :: l' =>
      do c <- sql_compare x v;
      match c with
      | Some Eq => Ok (VBool true)
      | Some _ => in_values x l' seen_null
      | None => in_values x l' true
      end
  end.

Definition first_col (r : row) : res value :=
  match r with [v] => Ok v | _ => Err 4 end.

Fixpoint eval_expr (fuel : nat) (d : db) (env : list row) (e : expr) {struct fuel} : res value :=
  match fuel with
  | O => Err 3
  | S fuel' =>
      match e with
      | ECol depth idx => lookup_col env depth idx
      | EConst v => Ok v
      | EBin op a b =>
          do x <- eval_expr fuel' d env a;
          do y <- eval_expr fuel' d env b;
          eval_binop op x y
      | ENot a => do x <- eval_expr fuel' d env a; tv_not x
      | EIsNull a negated =>
          do x <- eval_expr fuel' d env a;
          Ok (VBool (if negated then negb (is_null x) else is_null x))
      | EBetween a lo hi negated =>
          do x <- eval_expr fuel' d env a;
          do l <- eval_expr fuel' d env lo;
          do h <- eval_expr fuel' d env hi;
          do c1 <- eval_binop OGe x l;
          do c2 <- eval_binop OLe x h;
          do r <- tv_and c1 c2;
          if negated then tv_not r else Ok r
      | EInList a l negated =>
          do x <- eval_expr fuel' d env a;
          do vs <- mapM (eval_expr fuel' d env) l;
          do r <- in_values x vs false;
          if negated then tv_not r else Ok r
      | ECase whens els =>
          (fix go (ws : list (expr * expr)) : res value :=
             match ws with
             | [] => match els with Some e' => eval_expr fuel' d env e' | None => Ok VNull end
             | (c, t) :: ws' =>
                 do cv <- eval_expr fuel' d env c;
                 match cv with
                 | VBool true => eval_expr fuel' d env t
                 | VBool false | VNull => go ws'
                 | _ => Err 1
                 end
             end) whens
      | ECoalesce l =>
          do vs <- mapM (eval_expr fuel' d env) l;
          Ok (first_non_null vs)
      | EScalar q =>
          do rows <- eval_query fuel' d env q;
          match rows with
          | [] => Ok VNull
          | [r] => first_col r
          | _ => Err 2
          end
      | EInSub a q negated =>
          do x <- eval_expr fuel' d env a;
          do rows <- eval_query fuel' d env q;
          do vs <- mapM first_col rows;
          do r <- in_values x vs false;
          if negated then tv_not r else Ok r
      | EExists q negated =>
          do rows <- eval_query fuel' d env q;
          let b := match rows with [] => false | _ => true end in
          Ok (VBool (if negated then negb b else b))
      end
  end

with eval_query (fuel : nat) (d : db) (env : list row) (q : query) {struct fuel} : res (list row) :=
  match fuel with
  | O => Err 3
  | S fuel' =>
      match q with
      | QSetOp op all l r =>
          do lr <- eval_query fuel' d env l;
          do rr <- eval_query fuel' d env r;
          Ok (apply_setop op all lr rr)
      | QSelect dist from where_ grouping having proj order limit offset =>
          do parts <- mapM (eval_from fuel' d env) from;
          let rows0 := fold_left cross parts [[]] in
          do rows1 <- match where_ with
                      | None => Ok rows0
                      | Some w => filterM (fun r => do v <- eval_expr fuel' d (r :: env) w; Ok (is_true v)) rows0
                      end;
          do rows2 <-
            match grouping with
            | None => Ok rows1
            | Some (keys, aggs) =>
                do keyed <- mapM (fun r => do k <- mapM (eval_expr fuel' d (r :: env)) keys; Ok (k, r)) rows1;
                let groups := match keys, keyed with
                              | [], [] => [([], [])]        (* no GROUP BY: one group even on empty input *)
                              | _, _ => group_rows keyed
                              end in
                mapM (fun g : row * list row =>
                        let (k, rs) := g in
                        do avs <- mapM (fun a : aggfn * bool * expr =>
                                          let '(f, dst, arg) := a in
                                          do args <- mapM (fun r => eval_expr fuel' d (r :: env) arg) rs;
                                          eval_agg f dst (length rs) args) aggs;
                        Ok (k ++ avs)) groups
            end;
          do rows3 <- match having with
                      | None => Ok rows2
                      | Some h => filterM (fun r => do v <- eval_expr fuel' d (r :: env) h; Ok (is_true v)) rows2
                      end;
          do rows4 <- mapM (fun r => mapM (eval_expr fuel' d (r :: env)) proj) rows3;
          let rows5 := if dist then distinct_rows rows4 else rows4 in
          let rows6 := match order with [] => rows5 | _ => sort_rows (row_le order) rows5 end in
          Ok (limit_offset limit offset rows6)
      end
  end

with eval_from (fuel : nat) (d : db) (env : list row) (f : fromitem) {struct fuel} : res (list row) :=
  match fuel with
  | O => Err 3
  | S fuel' =>
      match f with
      | FTable name w =>
          match nth_error d name with
          | Some rows => if forallb (fun r => Nat.eqb (length r) w) rows then Ok rows else Err 4
          | None => Err 4
          end
      | FSub q w =>
          do rows <- eval_query fuel' d env q;
          if forallb (fun r => Nat.eqb (length r) w) rows then Ok rows else Err 4
      | FView _ _ => Err 4     (* views / CTEs are expanded away before evaluation *)
      | FJoin k l r on =>
          do lr <- eval_from fuel' d env l;
          do rr <- eval_from fuel' d env r;
          do per_left <- mapM (fun x =>
                                 do ms <- filterM (fun y => do v <- eval_expr fuel' d ((x ++ y) :: env) on; Ok (is_true v)) rr;
                                 Ok (x, ms)) lr;
          Ok (flat_map (fun xm : row * list row =>
                          let (x, ms) := xm in
                          match k, ms with
                          | JLeft, [] => [x ++ repeat VNull (from_width r)]
                          | _, _ => map (fun y => x ++ y) ms
                          end) per_left)
      end
  end.

(** Fuel that always suffices for an AST of a given nesting depth is the depth itself; the
    runner simply passes a generous constant (cases are shallow). *)
Definition run_query (d : db) (q : query) : res (list row) := eval_query 64 d [] q.
