(** The partition laws of [TlpLaws] hold of the reference evaluator's own WHERE filter: when the
    predicate [w] evaluates on every row of [l] to TRUE, FALSE or NULL, the three filters the
    evaluator runs for [WHERE w], [WHERE NOT w] and [WHERE w IS NULL] succeed, are the three
    [filter]s of [TlpLaws], and so split [l] into a permutation of itself. *)
From Coq Require Import List ZArith Bool Lia Permutation.
From VibeSQL Require Import Base.LexOrd Sem.Syntax Sem.Rel Sem.Laws Sem.Eval Sem.TlpLaws Sem.FuelLaws.
Import ListNotations.
Open Scope Z_scope.

Lemma filterM_ok {A} (f : A -> res bool) (g : A -> bool) l :
  (forall x, In x l -> f x = Ok (g x)) -> filterM f l = Ok (filter g l).
Proof.
  induction l as [|x l IH]; intros H; cbn [filterM filter]; [reflexivity|].
  rewrite (H x (or_introl eq_refl)), IH by (intros y Hy; apply H; right; exact Hy).
  cbn. destruct (g x); reflexivity.
Qed.

(** the evaluator's WHERE filter, as [eval_query] writes it *)
Definition where_filter (fuel : nat) (d : db) (env : list row) (w : expr) (l : list row) : res (list row) :=
  filterM (fun r => do v <- eval_expr fuel d (r :: env) w; Ok (is_true v)) l.

Section Where.
  Variables (n : nat) (d : db) (env : list row) (w : expr) (p : row -> value) (l : list row).
  Hypothesis Hev : forall r, In r l -> eval_expr n d (r :: env) w = Ok (p r).
  Hypothesis Htv : forall r, In r l -> tv (p r) = true.

  Lemma ev_succ r : In r l -> eval_expr (S n) d (r :: env) w = Ok (p r).
  Proof.
    intros Hr. destruct (proj1 (fuel_mono n) d (r :: env) w) as [E|E].
    - rewrite (Hev r Hr) in E. discriminate.
    - rewrite <- E. apply Hev. exact Hr.
  Qed.

  Lemma where_true : where_filter (S n) d env w l = Ok (filter (sel_true p) l).
  Proof.
    apply filterM_ok. intros r Hr. rewrite (ev_succ r Hr). reflexivity.
  Qed.

  Lemma where_not : where_filter (S n) d env (ENot w) l = Ok (filter (sel_not p) l).
  Proof.
    apply filterM_ok. intros r Hr. cbn [eval_expr]. rewrite (Hev r Hr). unfold sel_not.
    specialize (Htv r Hr). destruct (p r) as [| |s|[|]]; try discriminate; reflexivity.
  Qed.

  Lemma where_isnull : where_filter (S n) d env (EIsNull w false) l = Ok (filter (sel_isnull p) l).
  Proof.
    apply filterM_ok. intros r Hr. cbn [eval_expr]. rewrite (Hev r Hr). unfold sel_isnull.
    destruct (p r) as [| |s|[|]]; reflexivity.
  Qed.

  (** the three WHERE filters of the evaluator partition the rows *)
  Theorem where_tlp_partition :
    exists a b c,
      where_filter (S n) d env w l = Ok a /\ where_filter (S n) d env (ENot w) l = Ok b
      /\ where_filter (S n) d env (EIsNull w false) l = Ok c /\ Permutation l (a ++ b ++ c).
  Proof.
    exists (filter (sel_true p) l), (filter (sel_not p) l), (filter (sel_isnull p) l).
    split; [exact where_true|]. split; [exact where_not|]. split; [exact where_isnull|].
    apply tlp_partition. exact Htv.
  Qed.
End Where.
