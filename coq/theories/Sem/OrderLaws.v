(** The ORDER BY comparator is a total preorder, and two sorted permutations of the same rows agree
    position by position up to ties: they carry the same sequence of sort keys.  Hence "the sequence
    where ORDER BY determines it" is the same for every correct way of producing the order (sequential
    sort, merged parallel runs, index order). *)
From Coq Require Import List ZArith Bool Lia Permutation Sorted.
From VibeSQL Require Import Base.LexOrd Sem.Syntax Sem.Rel Sem.Laws.
Import ListNotations.
Open Scope Z_scope.

Lemma value_compare_eq a b : value_compare a b = Eq -> a = b.
Proof.
  destruct a as [|x|s|p], b as [|y|t|q]; cbn; intros H; try discriminate; try reflexivity.
  - apply Z.compare_eq in H. subst. reflexivity.
  - apply lex_compare_eq_iff in H. subst. reflexivity.
  - destruct p, q; try discriminate; reflexivity.
Qed.

Lemma value_compare_refl a : value_compare a a = Eq.
Proof. destruct a as [|x|s|p]; cbn; [reflexivity|apply Z.compare_refl|apply lex_compare_refl|destruct p; reflexivity]. Qed.

Lemma value_compare_trans_lt a b c : value_compare a b = Lt -> value_compare b c = Lt -> value_compare a c = Lt.
Proof.
  destruct a as [|x|s|p], b as [|y|t|q], c as [|z|u|r]; cbn; intros H1 H2; try discriminate; try reflexivity.
  - rewrite Z.compare_lt_iff in *. lia.
  - apply (lex_compare_trans Lt s t u); assumption.
  - destruct p, q, r; try discriminate; reflexivity.
Qed.

Lemma key_compare_eq d a b : key_compare d a b = Eq -> a = b.
Proof.
  unfold key_compare. destruct a as [|x|s|p], b as [|y|t|q]; try discriminate; try reflexivity;
    destruct d; intros H; apply value_compare_eq in H; congruence.
Qed.

Lemma key_compare_refl d a : key_compare d a a = Eq.
Proof. unfold key_compare. destruct a; try reflexivity; destruct d; apply value_compare_refl. Qed.

Lemma key_compare_trans_lt d a b c : key_compare d a b = Lt -> key_compare d b c = Lt -> key_compare d a c = Lt.
Proof.
  unfold key_compare.
  destruct a as [|x|s|p]; [destruct b; discriminate| | |];
    (destruct b as [|y|t|q]; [destruct c; discriminate| | |]);
    (destruct c as [|z|u|r]; [reflexivity| | |]);
    destruct d; intros H1 H2;
    first [ eapply value_compare_trans_lt; eassumption ].
Qed.

Definition keyvec (ks : list (nat * bool)) (r : row) : row := map (fun k => nth (fst k) r VNull) ks.

Lemma keys_compare_eq ks a b : keys_compare ks a b = Eq -> keyvec ks a = keyvec ks b.
Proof.
  induction ks as [|[i d] ks IH]; cbn; [reflexivity|].
  destruct (key_compare d (nth i a VNull) (nth i b VNull)) eqn:E; try discriminate.
  intros H. apply key_compare_eq in E. unfold keyvec. cbn [map fst]. f_equal; [exact E|exact (IH H)].
Qed.

Lemma keys_compare_r ks a b c : keyvec ks b = keyvec ks c -> keys_compare ks a b = keys_compare ks a c.
Proof.
  induction ks as [|[i d] ks IH]; cbn; [reflexivity|]. intros H. inversion H as [[H1 H2]].
  rewrite H1, (IH H2). reflexivity.
Qed.

Lemma keys_compare_l ks a b c : keyvec ks a = keyvec ks b -> keys_compare ks a c = keys_compare ks b c.
Proof.
  induction ks as [|[i d] ks IH]; cbn; [reflexivity|]. intros H. inversion H as [[H1 H2]].
  rewrite H1, (IH H2). reflexivity.
Qed.

Lemma keys_compare_trans_lt ks a b c : keys_compare ks a b = Lt -> keys_compare ks b c = Lt -> keys_compare ks a c = Lt.
Proof.
  induction ks as [|[i d] ks IH]; cbn; [discriminate|].
  destruct (key_compare d (nth i a VNull) (nth i b VNull)) eqn:E1; try discriminate;
    destruct (key_compare d (nth i b VNull) (nth i c VNull)) eqn:E2; try discriminate; intros H1 H2.
  - apply key_compare_eq in E1. apply key_compare_eq in E2. rewrite E1, E2, key_compare_refl. apply IH; assumption.
  - apply key_compare_eq in E1. rewrite E1, E2. reflexivity.
  - apply key_compare_eq in E2. rewrite <- E2, E1. reflexivity.
  - rewrite (key_compare_trans_lt d _ _ _ E1 E2). reflexivity.
Qed.

(** the comparator is transitive *)
Theorem row_le_trans ks a b c : row_le ks a b = true -> row_le ks b c = true -> row_le ks a c = true.
Proof.
  unfold row_le. intros H1 H2.
  destruct (keys_compare ks a b) eqn:E1; try discriminate; destruct (keys_compare ks b c) eqn:E2; try discriminate.
  - rewrite (keys_compare_l ks a b c (keys_compare_eq ks a b E1)), E2. reflexivity.
  - rewrite (keys_compare_l ks a b c (keys_compare_eq ks a b E1)), E2. reflexivity.
  - rewrite <- (keys_compare_r ks a b c (keys_compare_eq ks b c E2)), E1. reflexivity.
  - rewrite (keys_compare_trans_lt ks a b c E1 E2). reflexivity.
Qed.

(** rows that bound each other carry the same sort key *)
Lemma row_le_both_same_keys ks a b : row_le ks a b = true -> row_le ks b a = true -> keyvec ks a = keyvec ks b.
Proof.
  unfold row_le. intros H1 H2. apply keys_compare_eq. rewrite (keys_compare_antisym ks b a) in H2.
  destruct (keys_compare ks a b); cbn in *; try discriminate; reflexivity.
Qed.

(** * sorted permutations agree up to ties (for any total preorder) *)
Section SortedPerm.
  Variable A : Type.
  Variable le : A -> A -> bool.
  Hypothesis le_total : forall a b, le a b = true \/ le b a = true.
  Hypothesis le_trans : forall a b c, le a b = true -> le b c = true -> le a c = true.

  Definition tie (a b : A) : Prop := le a b = true /\ le b a = true.

  Lemma le_refl a : le a a = true.
  Proof. destruct (le_total a a); assumption. Qed.

  Lemma tie_trans a b c : tie a b -> tie b c -> tie a c.
  Proof. intros [H1 H2] [H3 H4]. split; eapply le_trans; eassumption. Qed.

  Lemma tie_sym a b : tie a b -> tie b a.
  Proof. intros [H1 H2]. split; assumption. Qed.

  Lemma sorted_perm_ties_gen l1 : forall l2,
    StronglySorted (fun a b => le a b = true) l1 -> StronglySorted (fun a b => le a b = true) l2 ->
    (exists m, Permutation l1 m /\ Forall2 tie m l2) -> Forall2 tie l1 l2.
  Proof.
    induction l1 as [|a l1 IH]; intros l2 S1 S2 (m & P & F).
    - apply Permutation_nil in P. subst. inversion F. constructor.
    - destruct m as [|b2 m']; [apply Permutation_sym, Permutation_nil in P; discriminate|].
      inversion F as [|? b ? l2' Tb F' ]; subst.
      inversion S1 as [|? ? S1' A1]; subst. inversion S2 as [|? ? S2' A2]; subst.
      rewrite Forall_forall in A1, A2.
      assert (Ha : In a (b2 :: m')) by (eapply Permutation_in; [exact P|left; reflexivity]).
      destruct Ha as [E|Ha].
      + (* the heads correspond *)
        subst b2. constructor; [exact Tb|]. apply IH; [exact S1'|exact S2'|].
        exists m'. split; [eapply Permutation_cons_inv; exact P|exact F'].
      + (* [a] sits further down in [m]: everything in between ties with it *)
        destruct (in_split _ _ Ha) as (x & y & ->).
        destruct (Forall2_app_inv_l _ _ F') as (lx & lyc & Fx & Fyc & ->).
        inversion Fyc as [|? c ? ly Tac Fy]; subst.
        assert (Hb2 : le a b2 = true).
        { assert (I : In b2 (a :: l1)) by (eapply Permutation_in; [apply Permutation_sym; exact P|left; reflexivity]).
          destruct I as [<-|I]; [apply le_refl|apply A1; exact I]. }
        assert (Hbc : le b c = true) by (apply A2; apply in_or_app; right; left; reflexivity).
        destruct Tb as [Tb1 Tb2]. destruct Tac as [Tac1 Tac2].
        assert (Hb2a : le b2 a = true) by (eapply le_trans; [exact Tb1|]; eapply le_trans; [exact Hbc|exact Tac2]).
        assert (Tab2 : tie a b2) by (split; assumption).
        constructor.
        * eapply tie_trans; [exact Tab2|split; assumption].
        * apply IH; [exact S1'|exact S2'|]. exists (x ++ b2 :: y). split.
          -- apply Permutation_cons_inv with (a := a).
             eapply Permutation_trans; [exact P|].
             eapply Permutation_trans; [apply perm_skip; apply Permutation_sym; apply Permutation_middle|].
             eapply Permutation_trans; [apply perm_swap|].
             apply perm_skip. apply Permutation_middle.
          -- apply Forall2_app; [exact Fx|]. constructor; [|exact Fy].
             eapply tie_trans; [apply tie_sym; exact Tab2|split; assumption].
  Qed.

  Theorem sorted_perm_ties l1 l2 :
    Sorted (fun a b => le a b = true) l1 -> Sorted (fun a b => le a b = true) l2 ->
    Permutation l1 l2 -> Forall2 tie l1 l2.
  Proof.
    intros S1 S2 P.
    assert (TR : Relations_1.Transitive (fun a b => le a b = true)) by (intros a b c; apply le_trans).
    apply sorted_perm_ties_gen; [apply Sorted_StronglySorted; assumption|apply Sorted_StronglySorted; assumption|].
    exists l2. split; [exact P|].
    clear - le_total. induction l2 as [|x l2 IHl]; [constructor|]. constructor; [split; apply le_refl|exact IHl].
  Qed.
End SortedPerm.

(** two sorted permutations of the same rows carry the same sequence of ORDER BY keys *)
Lemma ties_same_keys ks l1 l2 : Forall2 (tie row (row_le ks)) l1 l2 -> map (keyvec ks) l1 = map (keyvec ks) l2.
Proof.
  induction 1 as [|a b l1' l2' [T1 T2] F IH]; cbn; [reflexivity|].
  rewrite (row_le_both_same_keys ks a b T1 T2), IH. reflexivity.
Qed.

Theorem sorted_perm_same_keys ks l1 l2 :
  Sorted (fun a b => row_le ks a b = true) l1 -> Sorted (fun a b => row_le ks a b = true) l2 ->
  Permutation l1 l2 -> map (keyvec ks) l1 = map (keyvec ks) l2.
Proof.
  intros S1 S2 P. apply ties_same_keys.
  exact (sorted_perm_ties row (row_le ks) (row_le_total ks) (row_le_trans ks) l1 l2 S1 S2 P).
Qed.

(** ... so every correct ORDER BY implementation returns the key sequence of the reference sort *)
Corollary any_sorted_perm_has_reference_keys ks input result :
  Sorted (fun a b => row_le ks a b = true) result -> Permutation input result ->
  map (keyvec ks) result = map (keyvec ks) (sort_rows (row_le ks) input).
Proof.
  intros S P. destruct (order_by_sorted_perm ks input) as [S' P'].
  apply sorted_perm_same_keys; [exact S|exact S'|]. rewrite <- P. exact P'.
Qed.
