(** Reference SQL semantics — syntax of the common subset (DESIGN.md §5 C01).
    This is NOT a model of the executor: it is the formal stand-in for the "reference SQL engine"
    the properties speak of.  Values are INTEGER / VARCHAR / BOOLEAN / NULL. *)
From Coq Require Import List ZArith Bool.
Import ListNotations.
Open Scope Z_scope.

Inductive value : Type :=
| VNull
| VInt (z : Z)
| VStr (s : list Z)        (* UTF-8 bytes *)
| VBool (b : bool).

Definition row := list value.

Inductive binop := OAdd | OSub | OMul | OEq | ONe | OLt | OLe | OGt | OGe | OAnd | OOr.
Inductive aggfn := ACountStar | ACount | ASum | AMin | AMax.
Inductive setop := SUnion | SIntersect | SExcept.
Inductive joinkind := JInner | JLeft.

(** Column references are de Bruijn-style: [ECol depth idx] is column [idx] of the row [depth]
    levels out (0 = the row of the query the expression belongs to; 1 = the enclosing query's row,
    for correlated subqueries). *)
Inductive expr : Type :=
| ECol (depth idx : nat)
| EConst (v : value)
| EBin (op : binop) (a b : expr)
| ENot (a : expr)
| EIsNull (a : expr) (negated : bool)
| EBetween (a lo hi : expr) (negated : bool)
| EInList (a : expr) (l : list expr) (negated : bool)
| ECase (whens : list (expr * expr)) (els : option expr)
| ECoalesce (l : list expr)
| EScalar (q : query)
| EInSub (a : expr) (q : query) (negated : bool)
| EExists (q : query) (negated : bool)
with query : Type :=
| QSelect (distinct : bool)
          (from : list fromitem)                 (* comma list = cross product *)
          (where_ : option expr)                  (* over the concatenated FROM row *)
          (grouping : option (list expr * list (aggfn * bool * expr)))
              (* None: plain query.  Some (keys, aggs): the row seen by HAVING / projection / is
                 [key values ++ aggregate values]; each agg is (function, DISTINCT?, argument) *)
          (having : option expr)
          (proj : list expr)
          (order : list (nat * bool))             (* (output column position, descending?) *)
          (limit : option nat) (offset : option nat)
| QSetOp (op : setop) (all : bool) (l r : query)
with fromitem : Type :=
| FTable (name : nat) (width : nat)
| FSub (q : query) (width : nat)
| FJoin (k : joinkind) (l r : fromitem) (on : expr)    (* [on] sees the concatenated l ++ r row *)
| FView (name : nat) (width : nat).                     (* a reference to view / CTE number [name];
                                                           given meaning by expansion (Sem/Views.v) *)

(** A database: table number -> rows (a bag, stored as a list). *)
Definition db := list (list row).

Fixpoint from_width (f : fromitem) : nat :=
  match f with
  | FTable _ w => w
  | FSub _ w => w
  | FJoin _ l r _ => from_width l + from_width r
  | FView _ w => w
  end.
