(** The reference evaluator's answer does not depend on the fuel: once an evaluation finishes with
    anything but "out of fuel" (error code 3), every larger fuel gives the same answer.  So
    [run_query] (fuel 64) is the meaning of the query, not an artefact of the bound, whenever it is
    not [Err 3] — and the correspondence runs treat [Err 3] as a failed case, never as an answer. *)
From Coq Require Import List ZArith Bool Lia.
From VibeSQL Require Import Base.LexOrd Sem.Syntax Sem.Rel Sem.Eval.
Import ListNotations.
Open Scope Z_scope.

(** [a] is out of fuel, or already the final answer [b] *)
Definition le3 {A} (a b : res A) : Prop := a = Err 3 \/ a = b.

Lemma le3_refl {A} (a : res A) : le3 a a.
Proof. right; reflexivity. Qed.

Lemma bind_mono {A B} (a a' : res A) (k k' : A -> res B) :
  le3 a a' -> (forall x, le3 (k x) (k' x)) -> le3 (bind a k) (bind a' k').
Proof.
  intros [->| <-] H; [left; reflexivity|].
  destruct a as [x|c]; cbn; [apply H|right; reflexivity].
Qed.

Lemma mapM_mono {A B} (f g : A -> res B) l : (forall x, le3 (f x) (g x)) -> le3 (mapM f l) (mapM g l).
Proof.
  intros H. induction l as [|x l IH]; cbn [mapM]; [apply le3_refl|].
  apply bind_mono; [apply H|]. intros y. apply bind_mono; [exact IH|]. intros ys. apply le3_refl.
Qed.

Lemma filterM_mono {A} (f g : A -> res bool) l : (forall x, le3 (f x) (g x)) -> le3 (filterM f l) (filterM g l).
Proof.
  intros H. induction l as [|x l IH]; cbn [filterM]; [apply le3_refl|].
  apply bind_mono; [apply H|]. intros y. apply bind_mono; [exact IH|]. intros ys. apply le3_refl.
Qed.

Ltac mono_step :=
  first
    [ apply le3_refl
    | apply bind_mono; [|intros ?]
    | apply mapM_mono; intros ?
    | apply filterM_mono; intros ?
    | match goal with
      | H : forall d env e, le3 (eval_expr ?n d env e) (eval_expr ?m d env e) |- le3 (eval_expr ?n _ _ _) (eval_expr ?m _ _ _) => apply H
      | H : forall d env q, le3 (eval_query ?n d env q) (eval_query ?m d env q) |- le3 (eval_query ?n _ _ _) (eval_query ?m _ _ _) => apply H
      | H : forall d env f, le3 (eval_from ?n d env f) (eval_from ?m d env f) |- le3 (eval_from ?n _ _ _) (eval_from ?m _ _ _) => apply H
      end
    | match goal with
      | |- le3 (match ?x with _ => _ end) (match ?x with _ => _ end) => destruct x
      | |- le3 (if ?x then _ else _) (if ?x then _ else _) => destruct x
      | |- le3 (let (_, _) := ?x in _) (let (_, _) := ?x in _) => destruct x
      end ].
Ltac mono := repeat mono_step.

Lemma step_mono n m :
  (forall d env e, le3 (eval_expr n d env e) (eval_expr m d env e)) ->
  (forall d env q, le3 (eval_query n d env q) (eval_query m d env q)) ->
  (forall d env f, le3 (eval_from n d env f) (eval_from m d env f)) ->
  (forall d env e, le3 (eval_expr (S n) d env e) (eval_expr (S m) d env e))
  /\ (forall d env q, le3 (eval_query (S n) d env q) (eval_query (S m) d env q))
  /\ (forall d env f, le3 (eval_from (S n) d env f) (eval_from (S m) d env f)).
Proof.
  intros He Hq Hf. split; [|split].
  - intros d env e. destruct e as [dp ix|v|op a b|a|a ng|a lo hi ng|a l ng|whens els|l|q|a q ng|q ng]; cbn [eval_expr]; try solve [mono].
    (* CASE: the inner loop over the WHEN branches *)
    induction whens as [|[c t] ws IHws].
    + destruct els as [e'|]; mono.
    + apply bind_mono; [apply He|]. intros cv.
      destruct cv as [| | |[|]]; try apply le3_refl; try apply He; exact IHws.
  - intros d env q. destruct q as [dist from where_ grouping having proj order limit offset|op all l r]; cbn [eval_query]; try solve [mono].
  - intros d env f. destruct f as [name w|q w|k l r on|name w]; cbn [eval_from]; mono.
Qed.

Theorem fuel_mono n :
  (forall d env e, le3 (eval_expr n d env e) (eval_expr (S n) d env e))
  /\ (forall d env q, le3 (eval_query n d env q) (eval_query (S n) d env q))
  /\ (forall d env f, le3 (eval_from n d env f) (eval_from (S n) d env f)).
Proof.
  induction n as [|n (He & Hq & Hf)].
  - split; [|split]; intros; left; reflexivity.
  - apply step_mono; assumption.
Qed.

(** a finished evaluation keeps its answer under any larger fuel *)
Theorem eval_query_fuel_independent n k d env q r :
  eval_query n d env q = r -> r <> Err 3 -> eval_query (n + k) d env q = r.
Proof.
  intros H N. induction k as [|k IH].
  - rewrite Nat.add_0_r. exact H.
  - rewrite Nat.add_succ_r. destruct (proj1 (proj2 (fuel_mono (n + k))) d env q) as [E|E]; congruence.
Qed.

Theorem eval_expr_fuel_independent n k d env e r :
  eval_expr n d env e = r -> r <> Err 3 -> eval_expr (n + k) d env e = r.
Proof.
  intros H N. induction k as [|k IH].
  - rewrite Nat.add_0_r. exact H.
  - rewrite Nat.add_succ_r. destruct (proj1 (fuel_mono (n + k)) d env e) as [E|E]; congruence.
Qed.

(** the meaning [run_query] assigns to a query is its meaning under every larger fuel *)
Corollary run_query_is_fuel_independent d q r k :
  run_query d q = r -> r <> Err 3 -> eval_query (64 + k) d [] q = r.
Proof.
  unfold run_query. intros H N. exact (eval_query_fuel_independent 64 k d [] q r H N).
Qed.
