(** Laws of the reference semantics' combinators: equality, bags, DISTINCT, set operations,
    sorting, LIMIT/OFFSET.  These are what makes "same result multiset, same sequence where ORDER BY
    determines it" a well-defined comparison, and they are the algebra the metamorphic properties
    (C05, C06, C08) quantify over. *)
From Coq Require Import List ZArith Bool Lia Permutation Sorted.
From VibeSQL Require Import Base.LexOrd Sem.Syntax Sem.Rel.
Import ListNotations.
Open Scope Z_scope.

(** * Equality of values and rows is Leibniz equality *)
Lemma value_eqb_eq a b : value_eqb a b = true <-> a = b.
Proof.
  destruct a, b; cbn; try (split; congruence).
  - rewrite Z.eqb_eq. split; congruence.
  - destruct (lex_compare s s0) eqn:E; (split; [try discriminate|]).
    + intros _. apply lex_compare_eq_iff in E. congruence.
    + reflexivity.
    + intros H. inversion H; subst. rewrite lex_compare_refl in E. discriminate.
    + intros H. inversion H; subst. rewrite lex_compare_refl in E. discriminate.
  - destruct b, b0; cbn; split; congruence.
Qed.

Lemma row_eqb_eq a b : row_eqb a b = true <-> a = b.
Proof.
  revert b; induction a as [|x a IH]; intros [|y b]; cbn; try (split; congruence).
  rewrite andb_true_iff, value_eqb_eq, IH. split; [intros [-> ->]; reflexivity | intros E; inversion E; auto].
Qed.

Lemma row_eqb_refl a : row_eqb a a = true.
Proof. apply row_eqb_eq. reflexivity. Qed.

Lemma row_eqb_false a b : row_eqb a b = false <-> a <> b.
Proof.
  split.
  - intros E H. apply row_eqb_eq in H. congruence.
  - intros N. destruct (row_eqb a b) eqn:E; [apply row_eqb_eq in E; contradiction | reflexivity].
Qed.

Lemma mem_row_In r l : mem_row r l = true <-> In r l.
Proof.
  induction l as [|x l IH]; cbn; [split; [discriminate | contradiction]|].
  rewrite orb_true_iff, row_eqb_eq, IH. split; intros [H|H]; auto.
Qed.

(** * Multiplicity *)
Fixpoint count_row (r : row) (l : list row) : nat :=
  match l with [] => O | x :: l' => (if row_eqb r x then 1 else 0) + count_row r l' end.

Lemma count_row_app r l1 l2 : count_row r (l1 ++ l2) = (count_row r l1 + count_row r l2)%nat.
Proof. induction l1 as [|x l1 IH]; cbn; [reflexivity|]. rewrite IH. lia. Qed.

Lemma count_row_pos_In r l : (0 < count_row r l)%nat <-> In r l.
Proof.
  induction l as [|x l IH]; cbn; [split; [lia | contradiction]|].
  destruct (row_eqb r x) eqn:E.
  - apply row_eqb_eq in E. subst. split; [auto | lia].
  - apply row_eqb_false in E. rewrite <- IH. split; [intros H; right; lia | intros [H|H]; [congruence | lia]].
Qed.

(** UNION ALL adds multiplicities (and is therefore commutative as a bag) *)
Theorem union_all_count r l1 l2 :
  count_row r (apply_setop SUnion true l1 l2) = (count_row r l1 + count_row r l2)%nat.
Proof. apply count_row_app. Qed.

Theorem union_all_comm r l1 l2 :
  count_row r (apply_setop SUnion true l1 l2) = count_row r (apply_setop SUnion true l2 l1).
Proof. rewrite !union_all_count. lia. Qed.

Lemma remove_one_count x r l l' :
  remove_one x l = Some l' ->
  count_row r l = ((if row_eqb r x then 1 else 0) + count_row r l')%nat.
Proof.
  revert l'; induction l as [|y l IH]; cbn; intros l' H; [discriminate|].
  destruct (row_eqb x y) eqn:E.
  - inversion H; subst. apply row_eqb_eq in E. subst. reflexivity.
  - destruct (remove_one x l) as [l''|] eqn:R; [|discriminate]. inversion H; subst. cbn.
    rewrite (IH l'' eq_refl). lia.
Qed.

Lemma remove_one_none x l : remove_one x l = None -> count_row x l = O.
Proof.
  induction l as [|y l IH]; cbn; [reflexivity|].
  destruct (row_eqb x y) eqn:E; [discriminate|].
  destruct (remove_one x l); [discriminate|]. intros _. rewrite IH; reflexivity.
Qed.

(** EXCEPT ALL is bag difference: multiplicity = monus *)
Theorem except_all_count r l1 l2 :
  count_row r (apply_setop SExcept true l1 l2) = (count_row r l1 - count_row r l2)%nat.
Proof.
  cbn. revert l2; induction l1 as [|x l1 IH]; intros l2; cbn; [reflexivity|].
  destruct (remove_one x l2) as [l2'|] eqn:R.
  - rewrite IH. rewrite (remove_one_count x r l2 l2' R). destruct (row_eqb r x); lia.
  - cbn. rewrite IH. destruct (row_eqb r x) eqn:E; [|lia].
    apply row_eqb_eq in E. subst. rewrite (remove_one_none _ _ R). lia.
Qed.

(** INTERSECT ALL is bag intersection: multiplicity = min *)
Theorem intersect_all_count r l1 l2 :
  count_row r (apply_setop SIntersect true l1 l2) = Nat.min (count_row r l1) (count_row r l2).
Proof.
  cbn. revert l2; induction l1 as [|x l1 IH]; intros l2; cbn; [reflexivity|].
  destruct (remove_one x l2) as [l2'|] eqn:R.
  - cbn. rewrite IH. rewrite (remove_one_count x r l2 l2' R). destruct (row_eqb r x); lia.
  - rewrite IH. destruct (row_eqb r x) eqn:E; [|lia].
    apply row_eqb_eq in E. subst. rewrite (remove_one_none _ _ R). lia.
Qed.

(** * DISTINCT *)
Lemma distinct_acc_spec seen l :
  (forall r, In r (distinct_rows_acc seen l) <-> In r l /\ ~ In r seen)
  /\ NoDup (distinct_rows_acc seen l).
Proof.
  revert seen; induction l as [|x l IH]; intros seen; cbn.
  - split; [intros r; split; [contradiction | intros [[] _]] | constructor].
  - destruct (mem_row x seen) eqn:M.
    + apply mem_row_In in M. destruct (IH seen) as [I N]. split; [|exact N].
      intros r. rewrite I. split; [intros [H1 H2]; auto | intros [[->|H1] H2]; [contradiction | auto]].
    + assert (NI : ~ In x seen) by (intros H; apply mem_row_In in H; congruence).
      destruct (IH (x :: seen)) as [I N]. split.
      * intros r. cbn. rewrite I. cbn. split.
        -- intros [->|[H1 H2]]; [auto | split; [auto | intros H; apply H2; auto]].
        -- intros [[->|H1] H2]; [auto|].
           destruct (row_eqb x r) eqn:E; [apply row_eqb_eq in E; auto|].
           apply row_eqb_false in E. right. split; [exact H1 | intros [H|H]; [congruence | contradiction]].
      * constructor; [|exact N]. rewrite I. cbn. intros [_ H]. apply H. auto.
Qed.

(** DISTINCT returns each distinct row exactly once *)
Theorem distinct_once l :
  NoDup (distinct_rows l) /\ (forall r, In r (distinct_rows l) <-> In r l).
Proof.
  destruct (distinct_acc_spec [] l) as [I N]. split; [exact N|].
  intros r. rewrite I. cbn. split; [intros [H _]; exact H | intros H; split; [exact H | intros []]].
Qed.

Theorem distinct_count r l : count_row r (distinct_rows l) = if mem_row r l then 1%nat else 0%nat.
Proof.
  destruct (distinct_once l) as [N I].
  destruct (mem_row r l) eqn:M.
  - apply mem_row_In in M. apply I in M.
    assert (P : (0 < count_row r (distinct_rows l))%nat) by (apply count_row_pos_In; exact M).
    assert (Q : (count_row r (distinct_rows l) <= 1)%nat).
    { clear -N. induction (distinct_rows l) as [|x d IH]; cbn; [lia|].
      inversion N as [|? ? NI N']; subst. specialize (IH N').
      destruct (row_eqb r x) eqn:E; [|lia].
      apply row_eqb_eq in E. subst.
      destruct (count_row x d) eqn:C; [lia|].
      exfalso. apply NI. apply count_row_pos_In. lia. }
    lia.
  - destruct (count_row r (distinct_rows l)) eqn:C; [reflexivity|].
    exfalso. assert (In r (distinct_rows l)) by (apply count_row_pos_In; lia).
    apply I in H. apply mem_row_In in H. congruence.
Qed.

Lemma mem_row_app r l1 l2 : mem_row r (l1 ++ l2) = mem_row r l1 || mem_row r l2.
Proof. induction l1 as [|x l1 IH]; cbn; [reflexivity|]. rewrite IH. apply orb_assoc. Qed.

Lemma mem_row_filter (f : row -> bool) r l : mem_row r (filter f l) = mem_row r l && f r.
Proof.
  induction l as [|x l IH]; cbn; [reflexivity|].
  destruct (f x) eqn:F; cbn; rewrite IH.
  - destruct (row_eqb r x) eqn:E; cbn; [|reflexivity].
    apply row_eqb_eq in E. subst. rewrite F. reflexivity.
  - destruct (row_eqb r x) eqn:E; cbn; [|reflexivity].
    apply row_eqb_eq in E. subst. rewrite F. rewrite andb_false_r. reflexivity.
Qed.

(** UNION / INTERSECT / EXCEPT (without ALL) are the set operations, each row once *)
Theorem setop_distinct_count op r l1 l2 :
  count_row r (apply_setop op false l1 l2) =
  if match op with
     | SUnion => mem_row r l1 || mem_row r l2
     | SIntersect => mem_row r l1 && mem_row r l2
     | SExcept => mem_row r l1 && negb (mem_row r l2)
     end then 1%nat else 0%nat.
Proof.
  destruct op; cbn [apply_setop]; rewrite distinct_count.
  - rewrite mem_row_app. reflexivity.
  - rewrite mem_row_filter. reflexivity.
  - rewrite mem_row_filter. reflexivity.
Qed.

(** * Sorting *)
Section Sorting.
  Variable le : row -> row -> bool.
  Hypothesis le_total : forall a b, le a b = true \/ le b a = true.

  Lemma insert_sorted_perm x l : Permutation (x :: l) (insert_sorted le x l).
  Proof.
    induction l as [|y l IH]; cbn; [reflexivity|].
    destruct (le x y); [reflexivity|].
    rewrite perm_swap. constructor. exact IH.
  Qed.

  Theorem sort_rows_perm l : Permutation l (sort_rows le l).
  Proof.
    induction l as [|x l IH]; cbn; [constructor|].
    rewrite <- insert_sorted_perm. constructor. exact IH.
  Qed.

  Lemma insert_sorted_sorted x l :
    Sorted (fun a b => le a b = true) l -> Sorted (fun a b => le a b = true) (insert_sorted le x l).
  Proof.
    induction l as [|y l IH]; cbn; intros S; [repeat constructor|].
    destruct (le x y) eqn:E.
    - constructor; [exact S | constructor; exact E].
    - inversion S as [|? ? S' H]; subst. constructor; [apply IH; exact S'|].
      destruct l as [|z l]; cbn.
      + constructor. destruct (le_total x y) as [H1|H1]; congruence.
      + destruct (le x z); constructor.
        * destruct (le_total x y) as [H1|H1]; congruence.
        * inversion H; subst; assumption.
  Qed.

  Theorem sort_rows_sorted l : Sorted (fun a b => le a b = true) (sort_rows le l).
  Proof.
    induction l as [|x l IH]; cbn; [constructor | apply insert_sorted_sorted; exact IH].
  Qed.
End Sorting.

(** the ORDER BY comparator is total *)
Lemma value_compare_antisym a b : value_compare a b = CompOpp (value_compare b a).
Proof.
  destruct a, b; cbn; try reflexivity.
  - apply Z.compare_antisym.
  - apply lex_compare_antisym.
  - destruct b, b0; reflexivity.
Qed.

Lemma key_compare_antisym desc a b : key_compare desc a b = CompOpp (key_compare desc b a).
Proof.
  destruct a, b; cbn -[value_compare]; try reflexivity; destruct desc; apply value_compare_antisym.
Qed.

Lemma keys_compare_antisym ks a b : keys_compare ks a b = CompOpp (keys_compare ks b a).
Proof.
  induction ks as [|[i d] ks IH]; cbn; [reflexivity|].
  rewrite (key_compare_antisym d (nth i a VNull) (nth i b VNull)).
  destruct (key_compare d (nth i b VNull) (nth i a VNull)); cbn; [exact IH | reflexivity | reflexivity].
Qed.

Lemma row_le_total ks a b : row_le ks a b = true \/ row_le ks b a = true.
Proof.
  unfold row_le. rewrite (keys_compare_antisym ks b a).
  destruct (keys_compare ks a b); cbn; auto.
Qed.

(** ORDER BY returns a sorted permutation of its input *)
Theorem order_by_sorted_perm ks l :
  Sorted (fun a b => row_le ks a b = true) (sort_rows (row_le ks) l)
  /\ Permutation l (sort_rows (row_le ks) l).
Proof.
  split; [apply sort_rows_sorted; apply row_le_total | apply sort_rows_perm].
Qed.

(** NULL keys come last for both directions *)
Theorem null_keys_last desc v : v <> VNull -> key_compare desc v VNull = Lt /\ key_compare desc VNull v = Gt.
Proof. destruct v; cbn; intros H; try (split; reflexivity); congruence. Qed.

(** * LIMIT / OFFSET is the slice [m, m+n) *)
Theorem limit_offset_slice n m l : limit_offset (Some n) (Some m) l = firstn n (skipn m l).
Proof. reflexivity. Qed.

Theorem limit_offset_length n m l :
  length (limit_offset (Some n) (Some m) l) = Nat.min n (length l - m).
Proof. cbn. rewrite firstn_length, skipn_length. reflexivity. Qed.

Theorem limit_only n l : limit_offset (Some n) None l = firstn n l.
Proof. reflexivity. Qed.

Theorem offset_only m l : limit_offset None (Some m) l = skipn m l.
Proof. reflexivity. Qed.

(** * Non-vacuity *)
Example laws_nonvacuous :
  let a := [VInt 1; VNull] in let b := [VInt 2; VStr [97]] in
  count_row a (apply_setop SIntersect true [a; a; b] [a; b; b]) = 1%nat
  /\ count_row a (apply_setop SExcept true [a; a; b] [a]) = 1%nat
  /\ distinct_rows [a; b; a] = [a; b]
  /\ sort_rows (row_le [(1%nat, true)]) [a; b] = [b; a]
  /\ limit_offset (Some 1%nat) (Some 1%nat) [a; b; a] = [b].
Proof. vm_compute. repeat split; reflexivity. Qed.
