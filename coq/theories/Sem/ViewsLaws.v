(** Laws of view / CTE expansion (C32). *)
From Coq Require Import List ZArith Bool Lia.
From VibeSQL Require Import Base.LexOrd Sem.Syntax Sem.Rel Sem.Eval Sem.Views.
Import ListNotations.

Lemma map_fixed {A} (g : A -> A) l : (forall x, In x l -> g x = x) -> map g l = l.
Proof.
  induction l as [|x l IH]; cbn; intros H; [reflexivity|].
  rewrite (H x (or_introl eq_refl)), IH; [reflexivity | intros y Hy; apply H; right; exact Hy].
Qed.

Lemma existsb_false_In {A} (p : A -> bool) l : existsb p l = false -> forall x, In x l -> p x = false.
Proof.
  induction l as [|y l IH]; cbn; intros H x Hx; [contradiction|].
  apply orb_false_iff in H. destruct H as [Hy Hl]. destruct Hx as [<-|Hx]; [exact Hy | apply IH; assumption].
Qed.

Ltac ex_in :=
  match goal with
  | H : existsb ?p ?l = false, Hx : In ?x ?l |- _ => exact (existsb_false_In p l H x Hx)
  end.

(** A query without view references is left alone by expansion: base tables, derived tables and
    everything else keep their meaning when views are introduced. *)
Theorem expand_without_views_is_identity f vs :
  (forall e, has_view_expr f e = false -> expand_expr f vs e = e)
  /\ (forall q, has_view_query f q = false -> expand_query f vs q = q)
  /\ (forall fi, has_view_from f fi = false -> expand_from f vs fi = fi).
Proof.
  induction f as [|f [IHe [IHq IHf]]].
  - repeat split; intros x H; discriminate H.
  - repeat split.
    + intros e H. destruct e; cbn in H |- *; try reflexivity;
        repeat match goal with
               | H : _ || _ = false |- _ => apply orb_false_iff in H; destruct H
               end.
      * rewrite !IHe by assumption. reflexivity.
      * rewrite IHe by assumption. reflexivity.
      * rewrite IHe by assumption. reflexivity.
      * rewrite !IHe by assumption. reflexivity.
      * rewrite IHe by assumption. f_equal.
        apply map_fixed. intros x Hx. apply IHe. ex_in.
      * f_equal.
        -- apply map_fixed. intros [c t] Hx.
           match goal with H : existsb _ whens = false |- _ =>
             pose proof (existsb_false_In _ _ H _ Hx) as P end.
           cbn in P. apply orb_false_iff in P. destruct P as [P1 P2].
           cbn. rewrite (IHe c P1), (IHe t P2). reflexivity.
        -- destruct els as [e'|]; cbn; [|reflexivity]. rewrite IHe by assumption. reflexivity.
      * f_equal. apply map_fixed. intros x Hx. apply IHe. ex_in.
      * rewrite IHq by assumption. reflexivity.
      * rewrite IHe, IHq by assumption. reflexivity.
      * rewrite IHq by assumption. reflexivity.
    + intros q H. destruct q as [d from w g h p o lim off | op all l r]; cbn in H |- *;
        repeat match goal with
               | H : _ || _ = false |- _ => apply orb_false_iff in H; destruct H
               end.
      * f_equal.
        -- apply map_fixed. intros x Hx. apply IHf. ex_in.
        -- destruct w as [e|]; cbn; [|reflexivity]. rewrite IHe by assumption. reflexivity.
        -- destruct g as [[ks aggs]|]; cbn; [|reflexivity].
           match goal with H : existsb _ ks || existsb _ aggs = false |- _ =>
             apply orb_false_iff in H; destruct H as [Hk Ha] end.
           f_equal. f_equal.
           ++ apply map_fixed. intros x Hx. apply IHe. ex_in.
           ++ apply map_fixed. intros [[fn ds] a] Hx.
              pose proof (existsb_false_In _ _ Ha _ Hx) as P. cbn in P. cbn. rewrite (IHe a P). reflexivity.
        -- destruct h as [e|]; cbn; [|reflexivity]. rewrite IHe by assumption. reflexivity.
        -- apply map_fixed. intros x Hx. apply IHe. ex_in.
      * rewrite !IHq by assumption. reflexivity.
    + intros fi H. destruct fi; cbn in H |- *; try reflexivity;
        repeat match goal with
               | H : _ || _ = false |- _ => apply orb_false_iff in H; destruct H
               end.
      * rewrite IHq by assumption. reflexivity.
      * rewrite !IHf, IHe by assumption. reflexivity.
      * discriminate.
Qed.

(** A direct view reference is exactly the defining query as a derived table
    ("a query that references the view returns the same result as the query with the reference
    replaced by the defining SELECT as a derived table"). *)
Theorem view_reference_is_derived_table f vs i w def :
  nth_error vs i = Some def -> expand_from (S f) vs (FView i w) = FSub def w.
Proof. intros H. cbn. rewrite H. reflexivity. Qed.

(** hence a SELECT over a view and the SELECT over the inlined definition expand to the same
    query, and therefore have the same meaning *)
Theorem view_inline_expand f vs i w (def : query)
        dist where_ grouping having proj order limit offset :
  nth_error vs i = Some def ->
  has_view_query f def = false ->
  expand_query (S (S f)) vs (QSelect dist [FView i w] where_ grouping having proj order limit offset)
  = expand_query (S (S f)) vs (QSelect dist [FSub def w] where_ grouping having proj order limit offset).
Proof.
  intros Hn Hq.
  destruct (expand_without_views_is_identity f vs) as [_ [IHq _]].
  cbn [expand_query map]. f_equal. f_equal.
  cbn [expand_from]. rewrite Hn, (IHq def Hq). reflexivity.
Qed.

Theorem view_inline (d : db) (defs : list query) i w (def : query)
        dist where_ grouping having proj order limit offset :
  nth_error (expand_defs 64 defs) i = Some def ->
  has_view_query 62 def = false ->
  run_query_with_views d defs (QSelect dist [FView i w] where_ grouping having proj order limit offset)
  = run_query_with_views d defs (QSelect dist [FSub def w] where_ grouping having proj order limit offset).
Proof.
  intros Hn Hq. unfold run_query_with_views.
  set (vs := expand_defs 64 defs) in *.
  change (expand_query 64) with (expand_query (S (S 62))).
  rewrite (view_inline_expand 62 vs i w def dist where_ grouping having proj order limit offset Hn Hq).
  reflexivity.
Qed.

(** a view reflects the CURRENT contents of its base tables: its meaning is a function of the
    database the query runs against (there is no stored result) *)
Theorem view_live (d1 d2 : db) defs q :
  d1 = d2 -> run_query_with_views d1 defs q = run_query_with_views d2 defs q.
Proof. intros ->. reflexivity. Qed.

Example views_nonvacuous :
  let d : db := [[[VInt 1; VInt 10]; [VInt 2; VInt 20]; [VInt 3; VNull]]] in
  let def := QSelect false [FTable 0 2] (Some (EBin OGt (ECol 0 0) (EConst (VInt 1)))) None None [ECol 0 1] [] None None in
  let q := QSelect false [FView 0 1] None None None [ECol 0 0] [] None None in
  run_query_with_views d [def] q = Ok [[VInt 20]; [VNull]]
  /\ run_query d q = Err 4.
Proof. vm_compute. auto. Qed.
