(** Ternary-logic partitioning (C06): for a predicate value [p r] that is TRUE, FALSE or NULL on
    every row, the rows split into exactly the three classes [p], [NOT p], [p IS NULL]; and
    COUNT / SUM / MIN / MAX / DISTINCT of the whole are the combinations of the three parts.
    Everything is proved for arbitrary row lists and arbitrary predicate functions. *)
From Coq Require Import List ZArith Bool Lia Permutation.
From VibeSQL Require Import Base.LexOrd Sem.Syntax Sem.Rel Sem.Laws.
Import ListNotations.
Open Scope Z_scope.

(** a predicate value is well-typed when it is a boolean or NULL *)
Definition tv (v : value) : bool := match v with VBool _ | VNull => true | _ => false end.

(** the three derived predicates, as the evaluator computes them *)
Definition sel_true (p : row -> value) (r : row) : bool := is_true (p r).
Definition sel_not (p : row -> value) (r : row) : bool :=
  match tv_not (p r) with Ok v => is_true v | Err _ => false end.
Definition sel_isnull (p : row -> value) (r : row) : bool := is_null (p r).

Lemma three_way v : tv v = true ->
  (is_true v = true /\ (match tv_not v with Ok w => is_true w | Err _ => false end) = false /\ is_null v = false)
  \/ (is_true v = false /\ (match tv_not v with Ok w => is_true w | Err _ => false end) = true /\ is_null v = false)
  \/ (is_true v = false /\ (match tv_not v with Ok w => is_true w | Err _ => false end) = false /\ is_null v = true).
Proof. destruct v as [| |s|[|]]; cbn; intros H; try discriminate; auto. Qed.

(** exactly one of the three selectors holds for each row *)
Theorem tlp_exactly_one p r : tv (p r) = true ->
  (if sel_true p r then 1 else 0) + (if sel_not p r then 1 else 0) + (if sel_isnull p r then 1 else 0) = 1.
Proof.
  intros H. unfold sel_true, sel_not, sel_isnull.
  destruct (three_way _ H) as [(A & B & C)|[(A & B & C)|(A & B & C)]]; rewrite A, B, C; reflexivity.
Qed.

(** the three parts are a permutation of the whole (plain query form) *)
Theorem tlp_partition p l : (forall r, In r l -> tv (p r) = true) ->
  Permutation l (filter (sel_true p) l ++ filter (sel_not p) l ++ filter (sel_isnull p) l).
Proof.
  induction l as [|x l IH]; intros H; cbn; [constructor|].
  assert (Hx : tv (p x) = true) by (apply H; left; reflexivity).
  assert (Hl : forall r, In r l -> tv (p r) = true) by (intros r Hr; apply H; right; exact Hr).
  specialize (IH Hl).
  unfold sel_true at 1, sel_not at 1, sel_isnull at 1.
  destruct (three_way _ Hx) as [(A & B & C)|[(A & B & C)|(A & B & C)]]; rewrite A, B, C.
  - cbn. constructor. exact IH.
  - rewrite IH at 1. apply Permutation_middle.
  - rewrite IH at 1. rewrite app_assoc. rewrite (app_assoc (filter (sel_true p) l)).
    apply Permutation_middle.
Qed.

(** the three parts are pairwise disjoint *)
Theorem tlp_disjoint p r : tv (p r) = true ->
  (sel_true p r && sel_not p r = false) /\ (sel_true p r && sel_isnull p r = false)
  /\ (sel_not p r && sel_isnull p r = false).
Proof.
  intros H. unfold sel_true, sel_not, sel_isnull.
  destruct (three_way _ H) as [(A & B & C)|[(A & B & C)|(A & B & C)]]; rewrite A, B, C; auto.
Qed.

(** COUNT( * ) form *)
Theorem tlp_count p l : (forall r, In r l -> tv (p r) = true) ->
  length l = (length (filter (sel_true p) l) + length (filter (sel_not p) l) + length (filter (sel_isnull p) l))%nat.
Proof.
  intros H. rewrite (Permutation_length (tlp_partition p l H)). rewrite !app_length. lia.
Qed.

(** the number of rows passing [WHERE p] is the number of rows on which [p] evaluates to TRUE
    in the select list *)
Theorem count_where_eq_count_true p l :
  length (filter (sel_true p) l) = length (filter (fun v => is_true v) (map p l)).
Proof.
  induction l as [|x l IH]; cbn; [reflexivity|]. unfold sel_true at 1.
  destruct (is_true (p x)); cbn; rewrite IH; reflexivity.
Qed.

(** multiplicity form (covers the DISTINCT and GROUP BY variants: a row / group key occurs in
    the whole iff it occurs in one of the parts, and its multiplicities add up) *)
Theorem tlp_multiplicity p l x : (forall r, In r l -> tv (p r) = true) ->
  count_row x l = (count_row x (filter (sel_true p) l) + count_row x (filter (sel_not p) l)
                   + count_row x (filter (sel_isnull p) l))%nat.
Proof.
  induction l as [|y l IH]; intros H; cbn; [reflexivity|].
  assert (Hy : tv (p y) = true) by (apply H; left; reflexivity).
  assert (Hl : forall r, In r l -> tv (p r) = true) by (intros r Hr; apply H; right; exact Hr).
  rewrite (IH Hl). unfold sel_true at 2, sel_not at 2, sel_isnull at 2.
  destruct (three_way _ Hy) as [(A & B & C)|[(A & B & C)|(A & B & C)]]; rewrite A, B, C; cbn; lia.
Qed.

Theorem tlp_distinct_members p l x : (forall r, In r l -> tv (p r) = true) ->
  In x (distinct_rows l) <->
  In x (distinct_rows (filter (sel_true p) l)) \/ In x (distinct_rows (filter (sel_not p) l))
  \/ In x (distinct_rows (filter (sel_isnull p) l)).
Proof.
  intros H.
  repeat rewrite (proj2 (distinct_once _)).
  split.
  - intros Hx. pose proof (Permutation_in x (tlp_partition p l H) Hx) as P.
    apply in_app_or in P. destruct P as [P|P]; [auto|].
    apply in_app_or in P. destruct P as [P|P]; auto.
  - intros [P|[P|P]]; apply filter_In in P; destruct P; assumption.
Qed.

(** SUM form: the sum over the whole is the sum of the partial sums (integers, NULLs skipped).
    [f] is the summed expression's value on a row. *)
Definition zsum (f : row -> Z) (l : list row) : Z := fold_right (fun r acc => f r + acc) 0 l.

Lemma zsum_app f l1 l2 : zsum f (l1 ++ l2) = zsum f l1 + zsum f l2.
Proof. unfold zsum. induction l1 as [|x l1 IH]; cbn; [reflexivity|]. rewrite IH. lia. Qed.

Lemma zsum_perm f l1 l2 : Permutation l1 l2 -> zsum f l1 = zsum f l2.
Proof. unfold zsum. induction 1; cbn; lia. Qed.

Theorem tlp_sum f p l : (forall r, In r l -> tv (p r) = true) ->
  zsum f l = zsum f (filter (sel_true p) l) + zsum f (filter (sel_not p) l) + zsum f (filter (sel_isnull p) l).
Proof.
  intros H. rewrite (zsum_perm f _ _ (tlp_partition p l H)). rewrite !zsum_app. lia.
Qed.

(** MIN / MAX form: the extremum of the whole is the extremum of the partial extrema.
    [zmin_opt] is MIN over a possibly empty list ([None] = SQL NULL). *)
Definition opt_min (a b : option Z) : option Z :=
  match a, b with
  | None, x | x, None => x
  | Some x, Some y => Some (Z.min x y)
  end.
Definition zmin_opt (f : row -> Z) (l : list row) : option Z :=
  fold_right (fun r acc => opt_min (Some (f r)) acc) None l.

Lemma opt_min_assoc a b c : opt_min a (opt_min b c) = opt_min (opt_min a b) c.
Proof. destruct a, b, c; cbn; try reflexivity. f_equal. lia. Qed.
Lemma opt_min_comm a b : opt_min a b = opt_min b a.
Proof. destruct a, b; cbn; try reflexivity. f_equal. lia. Qed.

Lemma zmin_app f l1 l2 : zmin_opt f (l1 ++ l2) = opt_min (zmin_opt f l1) (zmin_opt f l2).
Proof.
  unfold zmin_opt. induction l1 as [|x l1 IH]; cbn [app fold_right].
  - destruct (fold_right _ None l2); reflexivity.
  - rewrite IH. apply opt_min_assoc.
Qed.

Lemma zmin_perm f l1 l2 : Permutation l1 l2 -> zmin_opt f l1 = zmin_opt f l2.
Proof.
  unfold zmin_opt. induction 1; cbn [fold_right]; try congruence.
  rewrite !opt_min_assoc. f_equal. apply opt_min_comm.
Qed.

Theorem tlp_min f p l : (forall r, In r l -> tv (p r) = true) ->
  zmin_opt f l = opt_min (zmin_opt f (filter (sel_true p) l))
                   (opt_min (zmin_opt f (filter (sel_not p) l)) (zmin_opt f (filter (sel_isnull p) l))).
Proof.
  intros H. rewrite (zmin_perm f _ _ (tlp_partition p l H)). rewrite !zmin_app. reflexivity.
Qed.

(** MAX is MIN of the negated expression *)
Theorem tlp_max f p l : (forall r, In r l -> tv (p r) = true) ->
  zmin_opt (fun r => - f r) l =
  opt_min (zmin_opt (fun r => - f r) (filter (sel_true p) l))
    (opt_min (zmin_opt (fun r => - f r) (filter (sel_not p) l)) (zmin_opt (fun r => - f r) (filter (sel_isnull p) l))).
Proof. apply tlp_min. Qed.

(** Pushdown: a conjunction is TRUE iff both conjuncts are TRUE, so filtering by the local
    conjuncts first and the residual afterwards equals filtering by the whole WHERE *)
Theorem and_true_iff a b v : tv_and a b = Ok v -> (is_true v = true <-> is_true a = true /\ is_true b = true).
Proof.
  destruct a as [| |s|[|]], b as [| |s'|[|]]; cbn; intros H; inversion H; subst; cbn; split;
    try (intros [? ?]); try discriminate; auto.
Qed.

Theorem pushdown_sound (p q : row -> bool) (l : list row) :
  filter q (filter p l) = filter (fun r => p r && q r) l.
Proof.
  induction l as [|x l IH]; cbn; [reflexivity|].
  destruct (p x); cbn; [destruct (q x); cbn; rewrite IH; reflexivity | exact IH].
Qed.

(** the two truthiness conventions found in the code (strict: only TRUE; C-like: also non-zero
    numbers) agree on every boolean-or-NULL value *)
Definition truthy_c (v : value) : bool :=
  match v with VBool true => true | VInt z => negb (z =? 0) | _ => false end.
Theorem truthiness_agree v : tv v = true -> truthy_c v = is_true v.
Proof. destruct v as [| |s|[|]]; cbn; intros H; try discriminate; reflexivity. Qed.

(** * Non-vacuity: a table with TRUE, FALSE and NULL predicate values *)
Example tlp_nonvacuous :
  let l := [[VInt 1]; [VNull]; [VInt 5]; [VInt 1]] in
  let p := fun r : row => match r with [VInt z] => VBool (z <? 3) | _ => VNull end in
  (forall r, In r l -> tv (p r) = true)
  /\ filter (sel_true p) l = [[VInt 1]; [VInt 1]]
  /\ filter (sel_not p) l = [[VInt 5]]
  /\ filter (sel_isnull p) l = [[VNull]].
Proof.
  cbn. split; [|repeat split; reflexivity].
  intros r [<-|[<-|[<-|[<-|[]]]]]; reflexivity.
Qed.
