(** Model of the text forms of the temporal types, AS REPAIRED by the C22 fix commits
    (time.rs e051995f, timestamp.rs 947265c2, date.rs 98c849c2, interval.rs 21946acd):
      crates/vibesql-types/src/temporal/date.rs       (Date::new, FromStr, Display)
      crates/vibesql-types/src/temporal/time.rs       (Time::new, FromStr, Display)
      crates/vibesql-types/src/temporal/timestamp.rs  (FromStr, strip_timezone_suffix,
                                                       is_timezone_offset, Display)
      crates/vibesql-types/src/temporal/interval.rs   (Interval::new, parse_interval,
                                                       parse_time_to_microseconds,
                                                       parse_seconds_to_microseconds, FromStr, Display)
      crates/vibesql-types/src/sql_value/display.rs   (the four temporal arms delegate)
    Parsed values are the [sqlvalue]s of Value/SqlValue.v.  Every remaining byte slice of the Rust
    code is an explicit step that can yield [RPanic] (they are all at positions returned by
    [find]/[rfind] of an ASCII character; the theorems prove they never do); interval arithmetic is
    saturating with the i32 / i64 bounds written out.  Definitions only (proofs: TemporalLaws.v). *)
From Coq Require Import Strings.String.
From Coq Require Import List ZArith Bool.
From VibeSQL Require Import Value.SqlValue Value.Dec Value.RStr.
Import ListNotations.
Open Scope Z_scope.

(** * DATE  (date.rs) *)

(** [Date::new]: month in 1..=12, day in 1..=31, any year *)
Definition date_new (y m d : Z) : res sqlvalue :=
  if (1 <=? m) && (m <=? 12) then
    if (1 <=? d) && (d <=? 31) then ROk (VDate y m d) else RErr
  else RErr.

(** [<Date as FromStr>::from_str]: one leading '-' ([strip_prefix('-')]) is the sign of the year;
    the rest is [split('-')] into exactly three parts; the year is parsed from ["-" + parts[0]]
    when the sign was present *)
Definition parse_date (s : str) : res sqlvalue :=
  let nb := match s with c :: r => if c =? 45 then (true, r) else (false, s) | [] => (false, s) end in
  match split_on 45 (snd nb) with
  | [a; b; c] =>
      match parse_i32 (if fst nb then 45 :: a else a) with
      | None => RErr
      | Some y =>
          match parse_u8 b with
          | None => RErr
          | Some m =>
              match parse_u8 c with
              | None => RErr
              | Some d => date_new y m d
              end
          end
      end
  | _ => RErr
  end.

(** [<Date as Display>::fmt]: ["{:04}-{:02}-{:02}"] *)
Definition show_date (y m d : Z) : str :=
  show_int_w 4 y ++ [45] ++ show_int_w 2 m ++ [45] ++ show_int_w 2 d.

(** * TIME  (time.rs) *)

(** [Time::new] *)
Definition time_new (h mi s ns : Z) : res sqlvalue :=
  if 23 <? h then RErr
  else if 59 <? mi then RErr
  else if 59 <? s then RErr
  else if 999999999 <? ns then RErr
  else ROk (VTime h mi s ns).

(** the fractional-seconds step of [Time::from_str]:
    [frac.chars().chain(repeat('0')).take(9).collect::<String>().parse::<u32>()] *)
Definition parse_frac9 (frac : str) : res Z :=
  match parse_u32 (take_pad 9 frac) with Some n => ROk n | None => RErr end.

(** [<Time as FromStr>::from_str] *)
Definition parse_time (s : str) : res sqlvalue :=
  sp <- match find_b (Z.eqb 46) s with
        | Some p => a <- slice_to p s ;; b <- slice_from (p + 1) s ;; ROk (a, Some b)
        | None => ROk (s, None)
        end ;;
  match split_on 58 (fst sp) with
  | [a; b; c] =>
      match parse_u8 a with
      | None => RErr
      | Some h =>
          match parse_u8 b with
          | None => RErr
          | Some mi =>
              match parse_u8 c with
              | None => RErr
              | Some sec =>
                  ns <- match snd sp with Some frac => parse_frac9 frac | None => ROk 0 end ;;
                  time_new h mi sec ns
              end
          end
      end
  | _ => RErr
  end.

Definition trim_end_zeros (s : str) : str := trim_end_by (Z.eqb 48) s.

(** [<Time as Display>::fmt] *)
Definition show_time (h mi s ns : Z) : str :=
  show_int_w 2 h ++ [58] ++ show_int_w 2 mi ++ [58] ++ show_int_w 2 s
  ++ (if ns =? 0 then [] else 46 :: trim_end_zeros (show_int_w 9 ns)).

(** * TIMESTAMP  (timestamp.rs) *)

Definition is_sign (c : Z) : bool := (c =? 43) || (c =? 45).

(** [is_timezone_offset]: after the sign the candidate is examined as BYTES
    ([s[1..].as_bytes()]): length 5 with [rest[2] == b':'] and ASCII digits elsewhere, or length
    4 / 2 of ASCII digits.  [s[1..]] is the only slice (after an ASCII sign). *)
Definition is_tz_offset (s : str) : res bool :=
  if blen s <? 3 then ROk false
  else match s with
       | [] => RPanic PIndex   (* [s.chars().next().unwrap()]; unreachable: [blen s >= 3] *)
       | sign :: _ =>
           if negb (is_sign sign) then ROk false
           else
             r <- slice_from 1 s ;;
             let rest := utf8 r in
             if (length rest =? 5)%nat && (nth 2 rest 0 =? 58) then
               ROk (forallb is_digit (firstn 2 rest) && forallb is_digit (skipn 3 rest))
             else if (length rest =? 4)%nat then ROk (forallb is_digit rest)
             else if (length rest =? 2)%nat then ROk (forallb is_digit rest)
             else ROk false
       end.

(** [strip_timezone_suffix] *)
Definition strip_tz (s : str) : res str :=
  if ends_with 90 s || ends_with 122 s then slice_to (blen s - 1) s
  else match rfind_b is_sign s with
       | Some pos =>
           if 10 <? pos then
             tz <- slice_from pos s ;;
             b <- is_tz_offset tz ;;
             if b then slice_to pos s else ROk s
           else ROk s
       | None => ROk s
       end.

Definition mk_timestamp (d t : sqlvalue) : res sqlvalue :=
  match d, t with
  | VDate y m dd, VTime h mi s ns => ROk (VTimestamp y m dd h mi s ns)
  | _, _ => RErr  (* unreachable: the parsers only return VDate / VTime *)
  end.

(** [<Timestamp as FromStr>::from_str] *)
Definition parse_timestamp (s : str) : res sqlvalue :=
  part <- strip_tz (trim s) ;;
  match find_b (Z.eqb 84) part with
  | Some p =>
      ds <- slice_to p part ;;
      tstr <- slice_from (p + 1) part ;;
      d <- parse_date ds ;;
      t <- parse_time tstr ;;
      mk_timestamp d t
  | None =>
      match split_ws part with
      | [a; b] => d <- parse_date a ;; t <- parse_time b ;; mk_timestamp d t
      | [a] => match parse_date a with
               | ROk d => mk_timestamp d (VTime 0 0 0 0)
               | RErr => RErr
               | RPanic k => RPanic k
               end
      | _ => RErr
      end
  end.

(** [<Timestamp as Display>::fmt]: ["{} {}"] *)
Definition show_timestamp (y m d h mi s ns : Z) : str :=
  show_date y m d ++ [32] ++ show_time h mi s ns.

(** display.rs: [SqlValue::Date(s) => write!(f, "{}", s)] etc. (the Interval arm prints the
    stored text, see [show_interval]) *)
Definition show_temporal (v : sqlvalue) : option str :=
  match v with
  | VDate y m d => Some (show_date y m d)
  | VTime h mi s ns => Some (show_time h mi s ns)
  | VTimestamp y m d h mi s ns => Some (show_timestamp y m d h mi s ns)
  | _ => None
  end.

(** * INTERVAL  (interval.rs) *)

(** [saturating_mul] / [saturating_add]: the exact result clamped to the type's range *)
Definition i32_min := -2147483648.
Definition i32_max := 2147483647.
Definition i64_min := -9223372036854775808.
Definition i64_max := 9223372036854775807.
Definition sat (lo hi r : Z) : Z := Z.max lo (Z.min hi r).
Definition smul32 (a b : Z) := sat i32_min i32_max (a * b).
Definition sadd32 (a b : Z) := sat i32_min i32_max (a + b).
Definition smul64 (a b : Z) := sat i64_min i64_max (a * b).
Definition sadd64 (a b : Z) := sat i64_min i64_max (a + b).

(** [.parse().unwrap_or(0)] *)
Definition or0 (o : option Z) : Z := match o with Some v => v | None => 0 end.

(** [parse_seconds_to_microseconds]: [whole.saturating_mul(1_000_000).saturating_add(frac)], the
    fraction being the first 6 characters of the text after the '.', zero-padded *)
Definition parse_seconds_us (s : str) : res Z :=
  match find_b (Z.eqb 46) s with
  | Some p =>
      ws <- slice_to p s ;;
      fs <- slice_from (p + 1) s ;;
      ROk (sadd64 (smul64 (or0 (parse_i64 ws)) 1000000) (or0 (parse_i64 (take_pad 6 fs))))
  | None => ROk (smul64 (or0 (parse_i64 s)) 1000000)
  end.

(** [parse_time_to_microseconds]:
    [total = total.saturating_add(h.saturating_mul(3600).saturating_mul(1_000_000))] etc. *)
Definition parse_time_us (s : str) : res Z :=
  let parts := split_on 58 s in
  let t1 := match parts with
            | p0 :: _ => match parse_i64 p0 with
                         | Some h => sadd64 0 (smul64 (smul64 h 3600) 1000000)
                         | None => 0
                         end
            | [] => 0
            end in
  let t2 := match parts with
            | _ :: p1 :: _ => match parse_i64 p1 with
                              | Some mi => sadd64 t1 (smul64 (smul64 mi 60) 1000000)
                              | None => t1
                              end
            | _ => t1
            end in
  match parts with
  | _ :: _ :: p2 :: _ => sec <- parse_seconds_us p2 ;; ROk (sadd64 t2 sec)
  | _ => ROk t2
  end.

Definition kw_to := lit "TO".
Definition kw_year := lit "YEAR".
Definition kw_years := lit "YEARS".
Definition kw_month := lit "MONTH".
Definition kw_months := lit "MONTHS".
Definition kw_day := lit "DAY".
Definition kw_days := lit "DAYS".
Definition kw_hour := lit "HOUR".
Definition kw_hours := lit "HOURS".
Definition kw_minute := lit "MINUTE".
Definition kw_minutes := lit "MINUTES".
Definition kw_second := lit "SECOND".
Definition kw_seconds := lit "SECONDS".

(** the compound arm ([... <from> TO <to>]) of [parse_interval], entered when [to_pos >= 2];
    [parts.get(to_pos + 1).copied().unwrap_or("")] *)
Definition interval_compound (parts : list str) (to_pos : nat) : res (Z * Z * Z) :=
  let value_part := nth 0 parts [] in
  let from_unit := nth (to_pos - 1) parts [] in
  let to_unit := nth (to_pos + 1) parts [] in
  if eq_ic from_unit kw_year && eq_ic to_unit kw_month then
    match find_b (Z.eqb 45) value_part with
    | Some p =>
        ys <- slice_to p value_part ;;
        ms <- slice_from (p + 1) value_part ;;
        ROk (sadd32 (smul32 (or0 (parse_i32 ys)) 12) (or0 (parse_i32 ms)), 0, 0)
    | None => ROk (smul32 (or0 (parse_i32 value_part)) 12, 0, 0)
    end
  else if eq_ic from_unit kw_day then
    match find_b (Z.eqb 32) value_part with
    | Some p =>   (* dead in practice: a whitespace-split part contains no ' ' (proved) *)
        ds <- slice_to p value_part ;;
        r <- slice_from (p + 1) value_part ;;
        us <- parse_time_us (trim r) ;;
        ROk (0, or0 (parse_i32 ds), us)
    | None => ROk (0, or0 (parse_i32 value_part), 0)
    end
  else if eq_ic from_unit kw_hour || eq_ic from_unit kw_minute || eq_ic from_unit kw_second then
    us <- parse_time_us value_part ;; ROk (0, 0, us)
  else ROk (0, 0, 0).

(** the simple arm ([<value> <unit>]) of [parse_interval]; the unit is compared after
    [to_uppercase()] (full Unicode upper-casing) *)
Definition interval_simple (value_part unit : str) : res (Z * Z * Z) :=
  let u := to_upper unit in
  if str_eqb u kw_year || str_eqb u kw_years then
    ROk (smul32 (or0 (parse_i32 value_part)) 12, 0, 0)
  else if str_eqb u kw_month || str_eqb u kw_months then ROk (or0 (parse_i32 value_part), 0, 0)
  else if str_eqb u kw_day || str_eqb u kw_days then ROk (0, or0 (parse_i32 value_part), 0)
  else if str_eqb u kw_hour || str_eqb u kw_hours then
    ROk (0, 0, smul64 (smul64 (or0 (parse_i64 value_part)) 3600) 1000000)
  else if str_eqb u kw_minute || str_eqb u kw_minutes then
    ROk (0, 0, smul64 (smul64 (or0 (parse_i64 value_part)) 60) 1000000)
  else if str_eqb u kw_second || str_eqb u kw_seconds then
    us <- parse_seconds_us value_part ;; ROk (0, 0, us)
  else ROk (0, 0, 0).

(** [Interval::parse_interval] -> (months, days, microseconds) *)
Definition parse_interval (s : str) : res (Z * Z * Z) :=
  let parts := split_ws s in
  match parts with
  | [] => ROk (0, 0, 0)
  | _ :: _ =>
      match position (fun p => eq_ic p kw_to) parts with
      | Some to_pos =>
          if (2 <=? to_pos)%nat then interval_compound parts to_pos else ROk (0, 0, 0)
      | None =>
          match parts with
          | v :: u :: _ => interval_simple v u
          | _ => ROk (0, 0, 0)
          end
      end
  end.

(** an [Interval] value: the stored text plus the three private fields *)
Record interval : Type := { iv_text : str; iv_months : Z; iv_days : Z; iv_micros : Z }.

(** [Interval::new] (and [FromStr], which is [Ok(Interval::new(s.to_string()))]: never [Err]) *)
Definition interval_new (s : str) : res interval :=
  t <- parse_interval s ;;
  match t with (mo, d, us) => ROk {| iv_text := s; iv_months := mo; iv_days := d; iv_micros := us |} end.

(** [<Interval as Display>::fmt]: the stored text *)
Definition show_interval (i : interval) : str := iv_text i.

(** the value compared by [PartialEq]/[Ord]/[Hash] (C21's model) *)
Definition interval_value (i : interval) : sqlvalue := VInterval (iv_months i) (iv_days i) (iv_micros i).

(** * Vocabulary of the theorems *)

(** validity of values: exactly what [Date::new] / [Time::new] accept, within the field types *)
Definition valid_date (y m d : Z) : Prop :=
  -2147483648 <= y <= 2147483647 /\ 1 <= m <= 12 /\ 1 <= d <= 31.
Definition valid_time (h mi s ns : Z) : Prop :=
  0 <= h <= 23 /\ 0 <= mi <= 59 /\ 0 <= s <= 59 /\ 0 <= ns <= 999999999.
Definition valid_temporal (v : sqlvalue) : Prop :=
  match v with
  | VDate y m d => valid_date y m d
  | VTime h mi s ns => valid_time h mi s ns
  | VTimestamp y m d h mi s ns => valid_date y m d /\ valid_time h mi s ns
  | _ => False
  end.
(** the parser of the value's own type *)
Definition parse_as (v : sqlvalue) (t : str) : res sqlvalue :=
  match v with
  | VDate _ _ _ => parse_date t
  | VTime _ _ _ _ => parse_time t
  | VTimestamp _ _ _ _ _ _ _ => parse_timestamp t
  | _ => RErr
  end.
(** the three private fields fit their Rust types *)
Definition triple_in_range (t : Z * Z * Z) : Prop :=
  match t with (mo, d, us) =>
    i32_min <= mo <= i32_max /\ i32_min <= d <= i32_max /\ i64_min <= us <= i64_max end.
