(** The fragment of Rust's [&str] API that the temporal parsers use, over strings given as
    lists of Unicode scalar values.  Byte offsets are UTF-8 byte offsets ([width] per character)
    and the slicing rule is explicit: [&s[i..]] / [&s[..j]] panic unless the offset is a
    character boundary inside the string.  Definitions only (proofs: RStrLaws.v). *)
From Coq Require Import List ZArith Bool.
From Coq Require Strings.String Strings.Ascii.
From VibeSQL Require Import Value.Dec.
Import ListNotations.
Open Scope Z_scope.

(** * Results: a Rust function returns [Ok], returns [Err], or panics. *)
Inductive panic_kind : Type :=
| PSlice      (* "byte index N is not a char boundary" / out of range *)
| PIndex      (* "index out of bounds" *)
| POverflow.  (* "attempt to multiply/add with overflow" (debug builds) *)

Inductive res (A : Type) : Type :=
| ROk (a : A)
| RErr
| RPanic (k : panic_kind).
Arguments ROk {A} a.
Arguments RErr {A}.
Arguments RPanic {A} k.

Definition rbind {A B} (r : res A) (f : A -> res B) : res B :=
  match r with ROk a => f a | RErr => RErr | RPanic k => RPanic k end.
Notation "x <- r ;; k" := (rbind r (fun x => k)) (at level 61, r at next level, right associativity).

Definition is_panic {A} (r : res A) : bool := match r with RPanic _ => true | _ => false end.

(** ASCII literal -> code points (for readable constants) *)
Definition lit (s : String.string) : str :=
  map (fun a => Z.of_N (Ascii.N_of_ascii a)) (String.list_ascii_of_string s).

(** * UTF-8 geometry *)
Definition width (c : Z) : Z :=
  if c <? 128 then 1 else if c <? 2048 then 2 else if c <? 65536 then 3 else 4.

(** [str::len] (bytes) *)
Fixpoint blen (s : str) : Z := match s with [] => 0 | c :: r => width c + blen r end.

(** [&s[..n]]: [None] = panic (n inside a character or beyond the end) *)
Fixpoint bslice_to (n : Z) (s : str) {struct s} : option str :=
  match s with
  | [] => if n =? 0 then Some [] else None
  | c :: r =>
      if n =? 0 then Some []
      else if n <? width c then None
      else match bslice_to (n - width c) r with Some p => Some (c :: p) | None => None end
  end.

(** [&s[n..]] *)
Fixpoint bslice_from (n : Z) (s : str) {struct s} : option str :=
  match s with
  | [] => if n =? 0 then Some [] else None
  | c :: r =>
      if n =? 0 then Some s
      else if n <? width c then None
      else bslice_from (n - width c) r
  end.

Definition slice_to (n : Z) (s : str) : res str :=
  match bslice_to n s with Some p => ROk p | None => RPanic PSlice end.
Definition slice_from (n : Z) (s : str) : res str :=
  match bslice_from n s with Some p => ROk p | None => RPanic PSlice end.

(** [s.find(pred)]: byte offset of the first matching character *)
Fixpoint find_b (p : Z -> bool) (s : str) : option Z :=
  match s with
  | [] => None
  | c :: r => if p c then Some 0
              else match find_b p r with Some k => Some (width c + k) | None => None end
  end.

(** [s.rfind(pred)]: byte offset of the last matching character *)
Fixpoint rfind_b (p : Z -> bool) (s : str) : option Z :=
  match s with
  | [] => None
  | c :: r => match rfind_b p r with
              | Some k => Some (width c + k)
              | None => if p c then Some 0 else None
              end
  end.

(** [s.split(pred)]: always at least one piece *)
Fixpoint split_by (p : Z -> bool) (s : str) : list str :=
  match s with
  | [] => [[]]
  | c :: r =>
      if p c then [] :: split_by p r
      else match split_by p r with
           | x :: xs => (c :: x) :: xs
           | [] => [[c]]
           end
  end.
Definition split_on (d : Z) (s : str) : list str := split_by (Z.eqb d) s.

(** [char::is_whitespace] (Unicode White_Space; the harness checks this table against the real
    function on every scalar value) *)
Definition is_ws (c : Z) : bool :=
  ((9 <=? c) && (c <=? 13)) || (c =? 32) || (c =? 133) || (c =? 160) || (c =? 5760)
  || ((8192 <=? c) && (c <=? 8202)) || (c =? 8232) || (c =? 8233) || (c =? 8239)
  || (c =? 8287) || (c =? 12288).

Definition is_nil (s : str) : bool := match s with [] => true | _ => false end.

(** [s.split_whitespace()] = [s.split(char::is_whitespace).filter(|p| !p.is_empty())] *)
Definition split_ws (s : str) : list str := filter (fun p => negb (is_nil p)) (split_by is_ws s).

Fixpoint drop_while (p : Z -> bool) (s : str) : str :=
  match s with [] => [] | c :: r => if p c then drop_while p r else s end.
Definition trim_end_by (p : Z -> bool) (s : str) : str := rev (drop_while p (rev s)).
(** [s.trim()] *)
Definition trim (s : str) : str := trim_end_by is_ws (drop_while is_ws s).

(** [s.ends_with(c)] *)
Definition ends_with (c : Z) (s : str) : bool :=
  match rev s with x :: _ => x =? c | [] => false end.

(** [u8::to_ascii_lowercase] lifted to characters (multi-byte characters are untouched) *)
Definition ascii_lower (c : Z) : Z := if (65 <=? c) && (c <=? 90) then c + 32 else c.

Fixpoint str_eqb (a b : str) : bool :=
  match a, b with
  | [], [] => true
  | x :: a', y :: b' => (x =? y) && str_eqb a' b'
  | _, _ => false
  end.

(** [a.eq_ignore_ascii_case(b)] *)
Definition eq_ic (a b : str) : bool := str_eqb (map ascii_lower a) (map ascii_lower b).

(** [char::to_uppercase], exact on ASCII and on the ten non-ASCII characters whose upper-case
    form is pure ASCII; every other character is mapped to itself, which stands for "a string
    containing a non-ASCII character" (the only use is comparison with ASCII keywords).  The
    harness checks on every scalar value that Rust's [to_uppercase] is pure ASCII exactly where
    this table says so and then equals it. *)
Definition upper_cp (c : Z) : str :=
  if (97 <=? c) && (c <=? 122) then [c - 32]
  else if c =? 223 then [83; 83]              (* ß -> SS *)
  else if c =? 305 then [73]                  (* dotless i -> I *)
  else if c =? 383 then [83]                  (* long s -> S *)
  else if c =? 64256 then [70; 70]            (* ff *)
  else if c =? 64257 then [70; 73]            (* fi *)
  else if c =? 64258 then [70; 76]            (* fl *)
  else if c =? 64259 then [70; 70; 73]        (* ffi *)
  else if c =? 64260 then [70; 70; 76]        (* ffl *)
  else if c =? 64261 then [83; 84]            (* long-s t -> ST *)
  else if c =? 64262 then [83; 84]            (* st -> ST *)
  else [c].
(** [s.to_uppercase()] (no context-sensitive rules exist for upper-casing) *)
Definition to_upper (s : str) : str := flat_map upper_cp s.

(** [iter.position(pred)] *)
Fixpoint position {A} (p : A -> bool) (l : list A) : option nat :=
  match l with
  | [] => None
  | x :: r => if p x then Some O else match position p r with Some k => Some (S k) | None => None end
  end.

(** * Vocabulary for side conditions of theorems (pure list functions, independent of the parsers) *)

(** every character is ASCII (one byte) *)
Definition all_ascii (s : str) : bool := forallb (fun c => c <? 128) s.

(** the text after the first character satisfying [p] *)
Fixpoint after_first (p : Z -> bool) (s : str) : option str :=
  match s with [] => None | c :: r => if p c then Some r else after_first p r end.

(** the text after the last character satisfying [p] *)
Fixpoint after_last (p : Z -> bool) (s : str) : option str :=
  match s with
  | [] => None
  | c :: r => match after_last p r with
              | Some t => Some t
              | None => if p c then Some r else None
              end
  end.

(** length of the run of ASCII digits starting at the head; longest run of ASCII digits anywhere *)
Fixpoint run_here (s : str) : nat :=
  match s with c :: r => if is_digit c then S (run_here r) else O | [] => O end.
Fixpoint max_run (s : str) : nat :=
  match s with [] => O | _ :: r => Nat.max (run_here s) (max_run r) end.

(** * UTF-8 bytes ([str::as_bytes]) and character-wise padding *)

(** the UTF-8 encoding of one scalar value *)
Definition utf8_cp (c : Z) : list Z :=
  if c <? 128 then [c]
  else if c <? 2048 then [192 + c / 64; 128 + c mod 64]
  else if c <? 65536 then [224 + c / 4096; 128 + (c / 64) mod 64; 128 + c mod 64]
  else [240 + c / 262144; 128 + (c / 4096) mod 64; 128 + (c / 64) mod 64; 128 + c mod 64].
(** [s.as_bytes()] *)
Definition utf8 (s : str) : list Z := flat_map utf8_cp s.

(** [s.chars().chain(std::iter::repeat('0')).take(n).collect::<String>()]: the first [n]
    characters of [s] followed by as many '0' as needed *)
Definition take_pad (n : nat) (s : str) : str := firstn n (s ++ repeat 48 n).
